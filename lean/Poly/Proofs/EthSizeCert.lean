import Poly.Model.EthSizeCert
import Poly.Proofs.EthRules
import Mathlib.NumberTheory.LucasPrimality
/-!
# Soundness of the size-table certificate checker (C28)

`checkTable … = true` (a Boolean the kernel evaluates) implies that the search loop of `calcDatasetSize` /
`calcCacheSize` returns exactly the table values: composite witnesses rule out every larger candidate, and a Pratt
chain (Lucas' test, `lucas_primality` of Mathlib) shows the item count of the table value prime.
-/
open Poly.Model.EthRules Poly.Model.EthSizeCert Poly.Spec

namespace Poly.Proofs.EthSizeCert

theorem isPrime_iff_natPrime (n : Nat) : isPrime n = true ↔ Nat.Prime n := by
  rw [Poly.Proofs.EthRules.isPrime_iff, Nat.prime_def]; rfl

theorem noDiv_eq (n : Nat) : ∀ fuel d, noDiv n fuel d = noDivisorFrom n fuel d := by
  intro fuel
  induction fuel with
  | zero => intro d; rfl
  | succ f ih => intro d; simp only [noDiv, noDivisorFrom, ih]

theorem isPrimeTD_eq (n : Nat) : isPrimeTD n = isPrime n := by
  simp only [isPrimeTD, isPrime, noDiv_eq]

/-! ## modular exponentiation -/

theorem powModAux_lt (n : Nat) : ∀ (fuel a e acc : Nat), acc < n → powModAux fuel a e n acc < n := by
  intro fuel
  induction fuel with
  | zero => intro a e acc h; simpa [powModAux] using h
  | succ f ih =>
    intro a e acc h
    simp only [powModAux]
    split
    · exact h
    · apply ih
      split
      · exact Nat.mod_lt _ (by omega)
      · exact h

theorem powModAux_modEq (n : Nat) : ∀ (fuel a e acc : Nat), e < 2 ^ fuel →
    powModAux fuel a e n acc ≡ acc * a ^ e [MOD n] := by
  intro fuel
  induction fuel with
  | zero =>
    intro a e acc h
    have : e = 0 := by simpa using h
    subst this; simp [powModAux, Nat.ModEq]
  | succ f ih =>
    intro a e acc h
    simp only [powModAux]
    split
    · rename_i he; subst he; simp [Nat.ModEq]
    · have h2 : e / 2 < 2 ^ f := by
        rw [Nat.pow_succ] at h; omega
      refine (ih _ _ _ h2).trans ?_
      have hsq : (a * a % n) ^ (e / 2) ≡ (a * a) ^ (e / 2) [MOD n] := (Nat.mod_modEq _ _).pow _
      have hdecomp : a ^ e = (a * a) ^ (e / 2) * a ^ (e % 2) := by
        rw [← pow_two, ← pow_mul, ← pow_add, Nat.div_add_mod]
      rw [hdecomp]
      split
      · rename_i hodd
        rw [hodd, pow_one]
        have : acc * a % n * (a * a % n) ^ (e / 2) ≡ acc * a * (a * a) ^ (e / 2) [MOD n] :=
          (Nat.mod_modEq _ _).mul hsq
        refine this.trans ?_
        rw [Nat.ModEq]; congr 1; ring
      · rename_i hev
        have he0 : e % 2 = 0 := by omega
        rw [he0, pow_zero, Nat.mul_one]
        exact (Nat.ModEq.refl acc).mul hsq

theorem powMod_eq (a e n : Nat) (hn : 1 < n) (he : e < 2 ^ 64) : powMod a e n = a ^ e % n := by
  unfold powMod
  have h1 : 1 % n = 1 := Nat.mod_eq_of_lt hn
  have hlt := powModAux_lt n 64 (a % n) e (1 % n) (by rw [h1]; exact hn)
  have hm := powModAux_modEq n 64 (a % n) e (1 % n) he
  have : powModAux 64 (a % n) e n (1 % n) ≡ a ^ e [MOD n] := by
    refine hm.trans ?_
    rw [h1, Nat.one_mul]
    exact (Nat.mod_modEq _ _).pow _
  rw [Nat.ModEq, Nat.mod_eq_of_lt hlt] at this
  exact this

/-! ## complete factorisation -/

theorem strip_spec (q : Nat) : ∀ (fuel m : Nat), ∃ k, m = q ^ k * strip fuel m q := by
  intro fuel
  induction fuel with
  | zero => intro m; exact ⟨0, by simp [strip]⟩
  | succ f ih =>
    intro m
    simp only [strip]
    split
    · exact ⟨0, by simp⟩
    · split
      · rename_i h
        obtain ⟨k, hk⟩ := ih (m / q)
        refine ⟨k + 1, ?_⟩
        have hm : m = q * (m / q) := by
          have := Nat.div_add_mod m q; omega
        conv_lhs => rw [hm, hk]
        rw [pow_succ]; ring
      · exact ⟨0, by simp⟩

theorem prime_dvd_mem (r : Nat) (hr : Nat.Prime r) : ∀ (qs : List Nat) (m : Nat), (∀ q ∈ qs, Nat.Prime q) →
    stripAll m qs = 1 → r ∣ m → r ∈ qs := by
  intro qs
  induction qs with
  | nil =>
    intro m _ h hd
    simp only [stripAll] at h
    subst h
    exact absurd (Nat.dvd_one.1 hd) hr.one_lt.ne'
  | cons q qs ih =>
    intro m hall h hd
    simp only [stripAll] at h
    obtain ⟨k, hk⟩ := strip_spec q 64 m
    rw [hk] at hd
    rcases (Nat.Prime.dvd_mul hr).1 hd with h1 | h1
    · have hq := hall q (List.mem_cons_self)
      have := hr.dvd_of_dvd_pow h1
      have : r = q := (Nat.prime_dvd_prime_iff_eq hr hq).1 this
      rw [this]; exact List.mem_cons_self
    · exact List.mem_cons_of_mem _ (ih _ (fun x hx => hall x (List.mem_cons_of_mem _ hx)) h h1)

/-! ## Pratt entries and chains -/

theorem knownPrime_sound (known : List Nat) (hk : ∀ q ∈ known, Nat.Prime q) (q : Nat) (h : knownPrime known q = true) :
    Nat.Prime q := by
  simp only [knownPrime, Bool.or_eq_true, Bool.and_eq_true, decide_eq_true_eq] at h
  rcases h with ⟨_, h⟩ | h
  · exact (isPrime_iff_natPrime q).1 (by rw [← isPrimeTD_eq]; exact h)
  · exact hk q (by simpa using h)

theorem checkPratt_sound (known : List Nat) (hk : ∀ q ∈ known, Nat.Prime q) (c : Pratt) (h : checkPratt known c = true) :
    Nat.Prime c.p := by
  simp only [checkPratt, Bool.and_eq_true, decide_eq_true_eq, beq_iff_eq, List.all_eq_true, bne_iff_ne, ne_eq] at h
  obtain ⟨⟨⟨⟨hp2, hp64⟩, hpow⟩, hqs⟩, hstrip⟩ := h
  have hp1 : 1 < c.p := by omega
  have hqprime : ∀ q ∈ c.qs, Nat.Prime q := fun q hq => knownPrime_sound known hk q (hqs q hq).1
  have e1 : c.p - 1 < 2 ^ 64 := by omega
  apply lucas_primality c.p (c.a : ZMod c.p)
  · rw [powMod_eq _ _ _ hp1 e1] at hpow
    have : ((c.a ^ (c.p - 1) : ℕ) : ZMod c.p) = ((1 : ℕ) : ZMod c.p) := by
      rw [ZMod.natCast_eq_natCast_iff']; rw [hpow, Nat.mod_eq_of_lt hp1]
    simpa using this
  · intro q hq hdvd
    have hmem : q ∈ c.qs := prime_dvd_mem q hq c.qs (c.p - 1) hqprime hstrip hdvd
    have hne := (hqs q hmem).2
    have e2 : (c.p - 1) / q < 2 ^ 64 := Nat.lt_of_le_of_lt (Nat.div_le_self _ _) e1
    rw [powMod_eq _ _ _ hp1 e2] at hne
    intro hcontra
    apply hne
    have : ((c.a ^ ((c.p - 1) / q) : ℕ) : ZMod c.p) = ((1 : ℕ) : ZMod c.p) := by simpa using hcontra
    rw [ZMod.natCast_eq_natCast_iff'] at this
    rw [this, Nat.mod_eq_of_lt hp1]

theorem checkChain_sound : ∀ (chain : List Pratt) (known out : List Nat), (∀ q ∈ known, Nat.Prime q) →
    checkChain known chain = some out → ∀ q ∈ out, Nat.Prime q := by
  intro chain
  induction chain with
  | nil => intro known out hk h; simp only [checkChain] at h; cases h; exact hk
  | cons c rest ih =>
    intro known out hk h
    simp only [checkChain] at h
    split at h
    · rename_i hc
      have hp := checkPratt_sound known hk c hc
      exact ih (c.p :: known) out (fun q hq => by
        rcases List.mem_cons.1 hq with rfl | hq
        · exact hp
        · exact hk q hq) h
    · cases h

/-! ## the search loop -/

theorem skipComposites_sound (unit : Nat) : ∀ (ws : List Nat) (size s' fuel : Nat), skipComposites unit size ws = some s' →
    isPrime (s' / unit) = true → ws.length < fuel → sizeLoop unit fuel size = some s' := by
  intro ws
  induction ws with
  | nil =>
    intro size s' fuel h hp hf
    simp only [skipComposites] at h
    cases h
    cases fuel with
    | zero => simp at hf
    | succ f => simp [sizeLoop, hp]
  | cons d ds ih =>
    intro size s' fuel h hp hf
    simp only [skipComposites] at h
    split at h
    · rename_i hc
      obtain ⟨h1, h2, h3, h4⟩ := hc
      cases fuel with
      | zero => simp at hf
      | succ f =>
        have hnp : isPrime (size / unit) = false := by
          cases hip : isPrime (size / unit) with
          | false => rfl
          | true =>
            exfalso
            have := (isPrime_iff_natPrime _).1 hip
            rcases (Nat.prime_def.1 this).2 d (Nat.dvd_of_mod_eq_zero h3) with h | h <;> omega
        simp only [sizeLoop, hnp, Bool.false_eq_true, if_false]
        have : ¬ size < 2 * unit := by omega
        rw [if_neg this]
        exact ih _ _ _ h hp (by simp only [List.length_cons] at hf; omega)
    · cases h

theorem checkEpoch_sound (init growth unit epoch v : Nat) (c : EpochCert) (h : checkEpoch init growth unit epoch v c = true) :
    sizeLoop unit sizeFuel (init + growth * epoch - unit) = some v := by
  unfold checkEpoch at h
  split at h
  · cases h
  · rename_i size hs
    simp only [Bool.and_eq_true, beq_iff_eq, decide_eq_true_eq] at h
    obtain ⟨⟨hv, hlen⟩, hch⟩ := h
    subst hv
    split at hch
    · rename_i p rest hc
      have hp : Nat.Prime p := checkChain_sound c.chain [] (p :: rest) (by simp) hc p (by simp)
      have hpe : p = size / unit := by simpa using hch
      subst hpe
      exact skipComposites_sound unit c.witnesses _ size sizeFuel hs ((isPrime_iff_natPrime _).2 hp) (by unfold sizeFuel; omega)
    · cases hch

theorem checkTable_sound (init growth unit : Nat) : ∀ (vs : List Nat) (cs : List EpochCert) (start : Nat),
    checkTable init growth unit start vs cs = true →
    ∀ i v, vs[i]? = some v → sizeLoop unit sizeFuel (init + growth * (start + i) - unit) = some v := by
  intro vs
  induction vs with
  | nil => intro cs start _ i v hv; simp at hv
  | cons v0 vs ih =>
    intro cs start h i v hv
    cases cs with
    | nil => simp [checkTable] at h
    | cons c cs =>
      simp only [checkTable, Bool.and_eq_true] at h
      cases i with
      | zero =>
        simp at hv; subst hv
        exact checkEpoch_sound init growth unit start v0 c h.1
      | succ i =>
        simp only [List.getElem?_cons_succ] at hv
        have := ih cs (start + 1) h.2 i v hv
        have e : start + 1 + i = start + (i + 1) := by omega
        rw [e] at this; exact this

end Poly.Proofs.EthSizeCert
