import Poly.Model.CCMGenesis
/-! Lemmas about the genesis installers (C19). -/
namespace Poly.Model.Genesis

theorem putLC_lookup_same (s : GState) (c : Nat) (lc : LC) : (putLC s c lc).lookup c = some lc := by
  induction s with
  | nil => simp [putLC, List.lookup]
  | cons x r ih =>
    obtain ⟨c', lc'⟩ := x
    simp only [putLC]
    split
    · simp [List.lookup]
    · rename_i h
      have : (c == c') = false := by simpa using fun h' => h h'.symm
      simp [List.lookup, this, ih]

theorem putLC_lookup_other (s : GState) (c c' : Nat) (lc : LC) (h : c' ≠ c) :
    (putLC s c lc).lookup c' = s.lookup c' := by
  induction s with
  | nil =>
    have : (c' == c) = false := by simpa using h
    simp [putLC, List.lookup, this]
  | cons x r ih =>
    obtain ⟨c0, lc0⟩ := x
    simp only [putLC]
    split
    · rename_i h0
      subst h0
      have : (c' == c0) = false := by simpa using h
      simp [List.lookup, this]
    · simp only [List.lookup]
      split <;> simp_all

/-- with the error guard an installed chain rejects every further installation and nothing changes -/
theorem syncGenesis_installed (spec : RouterSpec) (hg : spec.guard = .errorIfInstalled) (s : GState) (chain : Nat)
    (lc : LC) (hin : s.lookup chain = some lc) (w : Bool) (g : Option Nat) :
    (∃ c, (syncGenesis spec s chain w g).1 = .reject c) ∧ (syncGenesis spec s chain w g).2 = s := by
  unfold syncGenesis
  split
  · exact ⟨⟨_, rfl⟩, rfl⟩
  · split
    · cases g with
      | none => exact ⟨⟨_, rfl⟩, rfl⟩
      | some g => simp [installWith, hin, hg]
    · simp [hin, hg]

/-- whatever the guard, a failing installation changes nothing -/
theorem syncGenesis_reject_unchanged (spec : RouterSpec) (s : GState) (chain : Nat) (w : Bool) (g : Option Nat) (c : String)
    (h : (syncGenesis spec s chain w g).1 = .reject c) : (syncGenesis spec s chain w g).2 = s := by
  unfold syncGenesis at *
  split
  · rfl
  · rename_i hw
    simp only [hw, if_false] at h ⊢
    split
    · rename_i hp
      simp only [hp, if_true] at h
      cases g with
      | none => rfl
      | some g =>
        simp only [installWith] at h ⊢
        cases hl : s.lookup chain with
        | none => simp [hl] at h
        | some lc =>
          simp only [hl] at h ⊢
          cases hgd : spec.guard <;> simp_all
    · rename_i hp
      simp only [hp, if_false] at h
      cases hl : s.lookup chain with
      | none =>
        simp only [hl] at h ⊢
        cases g with
        | none => rfl
        | some g => simp [installWith, hl] at h
      | some lc =>
        cases hgd : spec.guard with
        | errorIfInstalled => simp [hl, hgd]
        | silentIfInstalled =>
          simp only [hl, hgd] at h ⊢
          cases g with
          | none => rfl
          | some g => simp [installWith, hl, hgd] at h
        | none =>
          simp only [hl, hgd] at h ⊢
          cases g with
          | none => rfl
          | some g => simp [installWith, hl, hgd] at h

/-- a successful first installation sets the trust root to the submitted genesis -/
theorem syncGenesis_fresh (spec : RouterSpec) (s : GState) (chain : Nat) (w : Bool) (g : Option Nat)
    (hnot : s.lookup chain = none) (hok : (syncGenesis spec s chain w g).1 = .ok) :
    ∃ g0, g = some g0 ∧ (syncGenesis spec s chain w g).2 = putLC s chain ⟨g0, 0⟩ := by
  unfold syncGenesis at *
  split
  · rename_i hw; simp [hw] at hok
  · rename_i hw
    simp only [hw, if_false] at hok
    split
    · rename_i hp
      simp only [hp, if_true] at hok
      cases g with
      | none => simp at hok
      | some g => exact ⟨g, rfl, by simp [installWith, hnot]⟩
    · rename_i hp
      simp only [hp, if_false, hnot] at hok ⊢
      cases g with
      | none => simp at hok
      | some g => exact ⟨g, rfl, by simp [installWith, hnot]⟩

def AllGuarded (table : List RouterSpec) : Prop := ∀ spec ∈ table, spec.guard = .errorIfInstalled

theorem entrance_installed (table : List RouterSpec) (hall : AllGuarded table) (reg : Nat → Option Nat) (mainNet : Bool)
    (height : Nat) (s : GState) (chain : Nat) (lc : LC) (hin : s.lookup chain = some lc) (w : Bool) (g : Option Nat) :
    (∃ c, (entrance table reg mainNet height s chain w g).1 = .reject c) ∧
    (entrance table reg mainNet height s chain w g).2 = s := by
  unfold entrance
  cases reg chain with
  | none => exact ⟨⟨_, rfl⟩, rfl⟩
  | some r =>
    simp only
    cases hf : table.find? (·.router == r) with
    | none => exact ⟨⟨_, rfl⟩, rfl⟩
    | some spec =>
      simp only
      split
      · exact ⟨⟨_, rfl⟩, rfl⟩
      · exact syncGenesis_installed spec (hall spec (List.mem_of_find?_eq_some hf)) s chain lc hin w g

theorem entrance_state_cases (table : List RouterSpec) (reg : Nat → Option Nat) (mainNet : Bool)
    (height : Nat) (s : GState) (chain : Nat) (w : Bool) (g : Option Nat) :
    (entrance table reg mainNet height s chain w g).2 = s ∨
    ∃ g0, (entrance table reg mainNet height s chain w g).2 = putLC s chain ⟨g0, 0⟩ := by
  unfold entrance
  cases reg chain with
  | none => exact Or.inl rfl
  | some r =>
    simp only
    cases table.find? (·.router == r) with
    | none => exact Or.inl rfl
    | some spec =>
      simp only
      split
      · exact Or.inl rfl
      · unfold syncGenesis
        split
        · exact Or.inl rfl
        · have hinst : ∀ g0, (installWith spec.guard s chain g0).2 = s ∨
              ∃ g1, (installWith spec.guard s chain g0).2 = putLC s chain ⟨g1, 0⟩ := by
            intro g0
            unfold installWith
            cases s.lookup chain with
            | none => exact Or.inr ⟨g0, rfl⟩
            | some lc =>
              cases spec.guard with
              | errorIfInstalled => exact Or.inl rfl
              | silentIfInstalled => exact Or.inl rfl
              | none => exact Or.inr ⟨g0, rfl⟩
          split
          · cases g with
            | none => exact Or.inl rfl
            | some g0 => exact hinst g0
          · split
            · exact Or.inl rfl
            · cases g with
              | none => exact Or.inl rfl
              | some g0 => exact hinst g0

/-- One transaction of a history never changes the trust root of a chain that has one. -/
theorem gstep_root_stable (table : List RouterSpec) (hall : AllGuarded table) (reg : Nat → Option Nat) (mainNet : Bool)
    (s : GState) (op : GOp) (c : Nat) (r : Nat) (h : rootOf s c = some r) :
    rootOf (gstep table reg mainNet s op) c = some r := by
  unfold rootOf at *
  cases hl : s.lookup c with
  | none => simp [hl] at h
  | some lc =>
    simp only [hl, Option.map_some, Option.some.injEq] at h
    cases op with
    | install height chain w g =>
      simp only [gstep]
      by_cases hc : chain = c
      · subst hc
        rw [(entrance_installed table hall reg mainNet height s chain lc hl w g).2, hl]
        simp [h]
      · rcases entrance_state_cases table reg mainNet height s chain w g with h' | ⟨g0, h'⟩
        · rw [h', hl]; simp [h]
        · rw [h', putLC_lookup_other _ _ _ _ (Ne.symm hc), hl]; simp [h]
    | sync chain acc =>
      simp only [gstep]
      cases hl' : s.lookup chain with
      | none => simp [hl, h]
      | some lc' =>
        simp only
        split
        · by_cases hc : chain = c
          · subst hc
            rw [putLC_lookup_same]
            rw [hl] at hl'; cases hl'
            simp [h]
          · rw [putLC_lookup_other _ _ _ _ (Ne.symm hc), hl]; simp [h]
        · simp [hl, h]

theorem grun_root_stable (table : List RouterSpec) (hall : AllGuarded table) (reg : Nat → Option Nat) (mainNet : Bool)
    (ops : List GOp) (s : GState) (c : Nat) (r : Nat) (h : rootOf s c = some r) :
    rootOf (grun table reg mainNet s ops) c = some r := by
  induction ops generalizing s with
  | nil => exact h
  | cons op rest ih => exact ih _ (gstep_root_stable table hall reg mainNet s op c r h)

/-- the trust root present at the first moment one exists along a history -/
def firstRoot (table : List RouterSpec) (reg : Nat → Option Nat) (mainNet : Bool) (c : Nat) : GState → List GOp → Option Nat
  | s, [] => rootOf s c
  | s, op :: rest =>
    match rootOf s c with
    | some r => some r
    | none => firstRoot table reg mainNet c (gstep table reg mainNet s op) rest

theorem grun_root_eq_first (table : List RouterSpec) (hall : AllGuarded table) (reg : Nat → Option Nat) (mainNet : Bool)
    (c : Nat) (ops : List GOp) (s : GState) :
    rootOf (grun table reg mainNet s ops) c = firstRoot table reg mainNet c s ops := by
  induction ops generalizing s with
  | nil => rfl
  | cons op rest ih =>
    simp only [firstRoot]
    cases h : rootOf s c with
    | some r => exact grun_root_stable table hall reg mainNet (op :: rest) s c r h
    | none => exact ih _

end Poly.Model.Genesis
