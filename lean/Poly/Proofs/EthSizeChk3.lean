import Poly.Generated.EthSizeCerts3
/-! Kernel evaluation of the certificate checker on the 64-epoch chunks 12..15 of both ethash size tables (C28).
    Depends only on the generated certificate module (table values + certificates), not on the rule constants. -/
namespace Poly.Proofs.EthSizeChk
open Poly.Model.EthSizeCert Poly.Generated

theorem dataset_12 : checkTable 1073741824 8388608 128 768 EthSizeCerts.datasetVals_12 EthSizeCerts.datasetCerts_12 = true := by
  decide +kernel

theorem cache_12 : checkTable 16777216 131072 64 768 EthSizeCerts.cacheVals_12 EthSizeCerts.cacheCerts_12 = true := by
  decide +kernel

theorem dataset_13 : checkTable 1073741824 8388608 128 832 EthSizeCerts.datasetVals_13 EthSizeCerts.datasetCerts_13 = true := by
  decide +kernel

theorem cache_13 : checkTable 16777216 131072 64 832 EthSizeCerts.cacheVals_13 EthSizeCerts.cacheCerts_13 = true := by
  decide +kernel

theorem dataset_14 : checkTable 1073741824 8388608 128 896 EthSizeCerts.datasetVals_14 EthSizeCerts.datasetCerts_14 = true := by
  decide +kernel

theorem cache_14 : checkTable 16777216 131072 64 896 EthSizeCerts.cacheVals_14 EthSizeCerts.cacheCerts_14 = true := by
  decide +kernel

theorem dataset_15 : checkTable 1073741824 8388608 128 960 EthSizeCerts.datasetVals_15 EthSizeCerts.datasetCerts_15 = true := by
  decide +kernel

theorem cache_15 : checkTable 16777216 131072 64 960 EthSizeCerts.cacheVals_15 EthSizeCerts.cacheCerts_15 = true := by
  decide +kernel

end Poly.Proofs.EthSizeChk
