import Poly.Spec.RFC6962
/-
Facts about the RFC 6962 specification: the level-by-level presentation (`pairUp`) computes the same
root as the split recursion (`mth`), hash-children injectivity up to collisions, domain separation.
-/
namespace Poly.Proofs.MerkleSpec
open Poly.Spec.RFC6962

variable (H : List UInt8 → List UInt8)

/-! ### pairUp -/

theorem pairUp_length (l : List Hash) : (pairUp H l).length = (l.length + 1) / 2 := by
  fun_induction pairUp H l <;> simp_all <;> omega

theorem pairUp_append_even (l1 l2 : List Hash) (h : l1.length % 2 = 0) :
    pairUp H (l1 ++ l2) = pairUp H l1 ++ pairUp H l2 := by
  fun_induction pairUp H l1 with
  | case1 => simp
  | case2 a => simp at h
  | case3 a b r ih =>
    simp only [List.cons_append, pairUp, List.cons.injEq, true_and]
    apply ih
    simp at h; omega

theorem pairUp_take_even (l : List Hash) (k : Nat) (hk : k % 2 = 0) (hkl : k ≤ l.length) :
    pairUp H (l.take k) = (pairUp H l).take (k / 2) := by
  have h1 := pairUp_append_even H (l.take k) (l.drop k) (by simp; omega)
  rw [List.take_append_drop] at h1
  rw [h1, List.take_left']
  rw [pairUp_length]; simp; omega

theorem pairUp_drop_even (l : List Hash) (k : Nat) (hk : k % 2 = 0) (hkl : k ≤ l.length) :
    pairUp H (l.drop k) = (pairUp H l).drop (k / 2) := by
  have h1 := pairUp_append_even H (l.take k) (l.drop k) (by simp; omega)
  rw [List.take_append_drop] at h1
  rw [h1, List.drop_left']
  rw [pairUp_length]; simp; omega

/-! ### split point of the next level -/

theorem splitPoint_two : splitPoint 2 = 1 := splitPoint_unique 2 1 ⟨0, rfl⟩ (by omega) (by omega)

theorem splitPoint_half (n : Nat) (hn : 3 ≤ n) :
    splitPoint n % 2 = 0 ∧ splitPoint ((n + 1) / 2) = splitPoint n / 2 := by
  obtain ⟨⟨j, hj⟩, h1, h2⟩ := splitPoint_spec n (by omega)
  cases j with
  | zero => simp at hj; omega
  | succ j =>
    rw [Nat.pow_succ] at hj
    refine ⟨by omega, ?_⟩
    apply splitPoint_unique
    · exact ⟨j, by omega⟩
    · omega
    · omega

/-- Pairing a level does not change the RFC 6962 root. -/
theorem mth_pairUp (l : List Hash) : mth H (pairUp H l) = mth H l := by
  generalize hn : l.length = n
  induction n using Nat.strongRecOn generalizing l with
  | _ n ih =>
    match l, hn with
    | [], _ => simp [pairUp]
    | [a], _ => simp [pairUp]
    | [a, b], _ =>
      rw [mth_split H [a, b] (by simp)]
      simp [pairUp, splitPoint_two, mth_single]
    | a :: b :: c :: r, hn =>
      have hlen : (a :: b :: c :: r).length = n := hn
      have hn3 : 3 ≤ n := by rw [← hn]; simp
      obtain ⟨hk2, hkh⟩ := splitPoint_half n hn3
      obtain ⟨_, hk1, hk3⟩ := splitPoint_spec n (by omega)
      have hkpos := splitPoint_pos n
      generalize hL : a :: b :: c :: r = L at *
      have hpl : (pairUp H L).length = (n + 1) / 2 := by rw [pairUp_length, hlen]
      rw [mth_split H L (by omega), mth_split H (pairUp H L) (by omega)]
      rw [hpl, hkh, hlen]
      rw [← pairUp_take_even H L _ hk2 (by omega), ← pairUp_drop_even H L _ hk2 (by omega)]
      rw [ih _ _ _ rfl, ih _ _ _ rfl]
      · simp; omega
      · simp; omega

/-! ### elements of a paired level -/

theorem pairUp_getElem_pair (l : List Hash) (j : Nat) (h : 2 * j + 1 < l.length) :
    (pairUp H l)[j]? = some (hashChildren H (l[2 * j]'(by omega)) (l[2 * j + 1]'h)) := by
  fun_induction pairUp H l generalizing j with
  | case1 => simp at h
  | case2 a => simp at h
  | case3 a b r ih =>
    cases j with
    | zero => simp
    | succ j =>
      have h' : 2 * j + 1 < r.length := by simp at h; omega
      have := ih j h'
      simp only [List.getElem?_cons_succ, this]
      have e1 : 2 * (j + 1) = (2 * j) + 1 + 1 := by omega
      have e2 : 2 * (j + 1) + 1 = (2 * j + 1) + 1 + 1 := by omega
      simp only [e1, List.getElem_cons_succ]

theorem pairUp_getElem_last (l : List Hash) (j : Nat) (h : 2 * j + 1 = l.length) :
    (pairUp H l)[j]? = some (l[2 * j]'(by omega)) := by
  fun_induction pairUp H l generalizing j with
  | case1 => simp at h
  | case2 a => have : j = 0 := by simp at h; omega
               subst this; simp
  | case3 a b r ih =>
    cases j with
    | zero => simp at h
    | succ j =>
      have h' : 2 * j + 1 = r.length := by simp at h; omega
      have := ih j h'
      simp only [List.getElem?_cons_succ, this]
      have e1 : 2 * (j + 1) = (2 * j) + 1 + 1 := by omega
      simp only [e1, List.getElem_cons_succ]

/-! ### collisions -/

/-- `hashChildren` is injective on 32-byte pairs unless a collision of `H` is exhibited. -/
theorem hashChildren_inj {a b a' b' : Hash} (hl : a.length = a'.length)
    (h : hashChildren H a b = hashChildren H a' b') : (a = a' ∧ b = b') ∨ Collision H := by
  unfold hashChildren at h
  by_cases he : (1 : UInt8) :: (a ++ b) = 1 :: (a' ++ b')
  · left
    have := List.cons.inj he
    exact List.append_inj this.2 hl
  · right; exact ⟨_, _, he, h⟩

/-- Domain separation: a leaf hash equal to an interior hash is a collision (the preimages differ in
their first byte). -/
theorem leaf_ne_node {d : List UInt8} {l r : Hash} (h : hashLeaf H d = hashChildren H l r) : Collision H := by
  unfold hashLeaf hashChildren at h
  exact ⟨_, _, by simp, h⟩

theorem hashLeaf_inj {d d' : List UInt8} (h : hashLeaf H d = hashLeaf H d') : d = d' ∨ Collision H := by
  unfold hashLeaf at h
  by_cases he : d = d'
  · exact Or.inl he
  · right; exact ⟨_, _, by simpa using he, h⟩

theorem hashChildren_length (hlen : HashLen H) (a b : Hash) : (hashChildren H a b).length = 32 := hlen _
theorem hashLeaf_length (hlen : HashLen H) (d : List UInt8) : (hashLeaf H d).length = 32 := hlen _

/-! ### binary hash trees over leaf data -/

theorem DTree.root_length (hlen : HashLen H) (t : DTree) : (t.root H).length = 32 := by
  cases t <;> simp [DTree.root, hashLeaf, hashChildren, hlen _]

theorem DTree.descend_append (t : DTree) (a b : List Bool) :
    t.descend (a ++ b) = (t.descend a).bind (fun s => s.descend b) := by
  induction a generalizing t with
  | nil => simp [DTree.descend]
  | cons x a ih =>
    cases t with
    | leaf d => simp [DTree.descend]
    | node l r =>
      simp only [List.cons_append, DTree.descend]
      split <;> exact ih _

theorem DTree.descend_leaf_mem (t : DTree) (ds : List Bool) (v : List UInt8)
    (h : t.descend ds = some (.leaf v)) : v ∈ t.leaves := by
  induction ds generalizing t with
  | nil => simp [DTree.descend] at h; subst h; simp [DTree.leaves]
  | cons x ds ih =>
    cases t with
    | leaf d => simp [DTree.descend] at h
    | node l r =>
      simp only [DTree.descend] at h
      simp only [DTree.leaves, List.mem_append]
      split at h
      · exact Or.inr (ih _ h)
      · exact Or.inl (ih _ h)

/-- The RFC 6962 tree over a non-empty list of leaf data (junk `leaf []` for the empty list). -/
def rfcTree : List (List UInt8) → DTree
  | [] => .leaf []
  | [d] => .leaf d
  | x :: y :: r =>
    .node (rfcTree ((x :: y :: r).take (splitPoint (r.length + 2))))
          (rfcTree ((x :: y :: r).drop (splitPoint (r.length + 2))))
termination_by l => l.length
decreasing_by
  · have := splitPoint_lt (r.length + 2) (by omega)
    simp only [List.length_take, List.length_cons]; omega
  · have := splitPoint_pos (r.length + 2)
    simp only [List.length_drop, List.length_cons]; omega

theorem rfcTree_root (D : List (List UInt8)) (hD : D ≠ []) :
    (rfcTree D).root H = mth H (D.map (hashLeaf H)) := by
  fun_induction rfcTree D with
  | case1 => exact absurd rfl hD
  | case2 d => simp [DTree.root, mth_single]
  | case3 x y r ih1 ih2 =>
    have hk1 := splitPoint_lt (r.length + 2) (by omega)
    have hk0 := splitPoint_pos (r.length + 2)
    rw [mth_split H _ (by simp)]
    simp only [DTree.root, List.length_map, List.length_cons, ← List.map_take, ← List.map_drop]
    rw [ih1, ih2]
    · intro h; have := congrArg List.length h; simp at this; omega
    · intro h; have := congrArg List.length h; simp at this; omega

theorem rfcTree_leaves (D : List (List UInt8)) (hD : D ≠ []) : (rfcTree D).leaves = D := by
  fun_induction rfcTree D with
  | case1 => exact absurd rfl hD
  | case2 d => simp [DTree.leaves]
  | case3 x y r ih1 ih2 =>
    have hk1 := splitPoint_lt (r.length + 2) (by omega)
    have hk0 := splitPoint_pos (r.length + 2)
    simp only [DTree.leaves]
    rw [ih1, ih2, List.take_append_drop]
    · intro h; have := congrArg List.length h; simp at this; omega
    · intro h; have := congrArg List.length h; simp at this; omega

end Poly.Proofs.MerkleSpec
