import Poly.Model.NativeWitness
import Poly.Proofs.Native
/-! Lemmas for C18: witness guards and the operator address. -/
namespace Poly.Model.Native

section
variable (leafHash : Bytes → Hash)

/-- A program that starts with a witness test and fails when it is negative can only return normally when the test
was positive (or the alternative `alt` holds, for CommitDpos' "epoch is due"). -/
theorem runProg_witness_ok (inv : Inv) (a : Addr) (alt : Bool) (body fb : Prog) (s : Svc) (r : Bytes) (s' : Svc)
    (hfb : ∀ t, (runProg leafHash inv fb t).1 = none)
    (h : runProg leafHash inv (.witness a fun ok => if ok || alt then body else fb) s = (some r, s')) :
    checkWitness s.signers s.contexts a = true ∨ alt = true := by
  simp only [runProg] at h
  cases hw : checkWitness s.signers s.contexts a with
  | true => exact Or.inl rfl
  | false =>
    cases alt with
    | true => exact Or.inr rfl
    | false =>
      rw [hw] at h
      simp only [Bool.or_self, Bool.false_eq_true, if_false] at h
      have := hfb s
      rw [h] at this
      cases this

theorem failBranch_none (inv : Inv) (t : Svc) : (runProg leafHash inv (.log "reject:witness" .fail) t).1 = none := rfl

/-- Shape of every guard kind: `witness required (fun ok => if ok || alt then body else reject)`. -/
theorem guarded_eq (g : Guard) (required : Addr) (due : Bool) (body : Prog) (hg : g ≠ .none) :
    guarded g required due body =
      .witness required fun ok => if ok || (g == .operatorOrDue && due) then body else .log "reject:witness" .fail := by
  cases g with
  | none => exact absurd rfl hg
  | operator => simp [guarded]
  | ownerParam => simp [guarded]
  | operatorOrDue => simp [guarded]

theorem guarded_ok (inv : Inv) (g : Guard) (required : Addr) (due : Bool) (body : Prog) (hg : g ≠ .none)
    (s : Svc) (r : Bytes) (s' : Svc)
    (h : runProg leafHash inv (guarded g required due body) s = (some r, s')) :
    checkWitness s.signers s.contexts required = true ∨ (g = .operatorOrDue ∧ due = true) := by
  rw [guarded_eq g required due body hg] at h
  rcases runProg_witness_ok leafHash inv required _ body _ s r s' (failBranch_none leafHash inv) h with h1 | h1
  · exact Or.inl h1
  · right
    simp only [Bool.and_eq_true, beq_iff_eq] at h1
    exact h1

/-- When the guard rejects, the handler fails having performed no effect at all. -/
theorem guarded_reject (inv : Inv) (g : Guard) (required : Addr) (due : Bool) (body : Prog) (hg : g ≠ .none) (s : Svc)
    (hw : checkWitness s.signers s.contexts required = false) (hd : ¬ (g = .operatorOrDue ∧ due = true)) :
    (runProg leafHash inv (guarded g required due body) s).1 = none ∧
    (runProg leafHash inv (guarded g required due body) s).2.effLog = s.effLog ∧
    (runProg leafHash inv (guarded g required due body) s).2.cache = s.cache ∧
    (runProg leafHash inv (guarded g required due body) s).2.panicked = s.panicked := by
  rw [guarded_eq g required due body hg]
  simp only [runProg, hw, Bool.false_or]
  have : (g == Guard.operatorOrDue && due) = false := by
    cases g <;> cases due <;> simp_all
  simp [this, runProg]

/-- One `Invoke` of a guarded method: a normal return implies the witness (in the callee's frame), a missing witness
implies an error return with the transaction cache and the effect log untouched. -/
theorem invokeBody_guarded (inv : Inv) (s : Svc) (sm : List (Bytes × Handler)) (addr : Addr) (args : Bytes)
    (g : Guard) (req : Bytes → Addr) (due : Bool) (body : Bytes → Prog) (hg : g ≠ .none) :
    (∀ r s', invokeBody leafHash inv s sm addr args (fun a => guarded g (req a) due (body a)) = (.ok r, s') →
        checkWitness s.signers (s.contexts ++ [addr]) (req args) = true ∨ (g = .operatorOrDue ∧ due = true)) ∧
    (¬ s.contexts.length > maxContextLen → s.panicked = false →
        checkWitness s.signers (s.contexts ++ [addr]) (req args) = false →
        ¬ (g = .operatorOrDue ∧ due = true) →
        (invokeBody leafHash inv s sm addr args (fun a => guarded g (req a) due (body a))).1 = .err ∧
        (invokeBody leafHash inv s sm addr args (fun a => guarded g (req a) due (body a))).2.effLog = s.effLog ∧
        (invokeBody leafHash inv s sm addr args (fun a => guarded g (req a) due (body a))).2.cache = s.cache) := by
  constructor
  · intro r s' h
    unfold invokeBody at h
    split at h
    · cases h
    · generalize hq : runProg leafHash inv (guarded g (req args) due (body args)) (enter s sm addr args) = q at h
      obtain ⟨o, s3⟩ := q
      cases o with
      | none => simp only at h; split at h <;> cases h
      | some v =>
        have := guarded_ok leafHash inv g (req args) due (body args) hg (enter s sm addr args) v s3 hq
        simpa [enter] using this
  · intro hlen hnp hw hd
    have hr := guarded_reject leafHash inv g (req args) due (body args) hg (enter s sm addr args)
      (by simpa [enter] using hw) hd
    unfold invokeBody
    rw [if_neg hlen]
    generalize hq : runProg leafHash inv (guarded g (req args) due (body args)) (enter s sm addr args) = q at hr
    obtain ⟨o, s3⟩ := q
    simp only at hr
    obtain ⟨h1, h2, h3, h4⟩ := hr
    subst h1
    have h5 : s3.panicked = false := by rw [h4]; simpa [enter] using hnp
    exact ⟨by simp [h5], by simpa [enter] using h2, by simpa [enter] using h3⟩

/-- At the top level (empty context stack) only signers count. -/
theorem checkWitness_toplevel (signers : List Addr) (addr a : Addr) :
    checkWitness signers ([] ++ [addr]) a = signers.contains a := by
  simp [checkWitness, callingContext]

end

/-! ### Operator address: independent of the iteration order of the peer map -/

theorem perm_singleton_eq {α : Type} {l : List α} {a : α} (h : List.Perm l [a]) : l = [a] :=
  List.perm_singleton.mp h

theorem addressFromBookkeepers_not_single (sortKeys : List Bytes → List Bytes) (addrOfCode : Bytes → Addr)
    (ks : List Bytes) (h : ks.length ≠ 1) :
    addressFromBookkeepers sortKeys addrOfCode ks =
      if ks.length > 1 && ks.length ≤ 1024 then addrOfCode (multiProgram (sortKeys ks) (multiSigM ks.length)) else emptyAddr := by
  unfold addressFromBookkeepers
  match ks, h with
  | [], _ => rfl
  | [k], h => exact absurd rfl h
  | a :: b :: r, _ => rfl

theorem curConOperator_perm (sortKeys : List Bytes → List Bytes) (addrOfCode : Bytes → Addr)
    (hsort : ∀ l l' : List Bytes, List.Perm l l' → sortKeys l = sortKeys l')
    (peers peers' : List Peer) (h : List.Perm peers peers') :
    curConOperator sortKeys addrOfCode peers = curConOperator sortKeys addrOfCode peers' := by
  unfold curConOperator
  have hk : List.Perm ((peers.filter (·.consensus)).map (·.pubkey)) ((peers'.filter (·.consensus)).map (·.pubkey)) :=
    (h.filter _).map _
  generalize (peers.filter (·.consensus)).map (·.pubkey) = ks at hk
  generalize (peers'.filter (·.consensus)).map (·.pubkey) = ks' at hk
  have hlen := hk.length_eq
  by_cases h1 : ks.length = 1
  · match ks, h1 with
    | [k], _ =>
      have := perm_singleton_eq hk.symm
      subst this; rfl
  · rw [addressFromBookkeepers_not_single sortKeys addrOfCode ks h1,
        addressFromBookkeepers_not_single sortKeys addrOfCode ks' (by rw [← hlen]; exact h1),
        hlen, hsort _ _ hk]

theorem signCount_perm (signed : Bytes → Bool) (peers peers' : List Peer) (h : List.Perm peers peers') :
    signCount signed peers = signCount signed peers' := by
  unfold signCount
  apply List.Perm.foldl_eq' h
  intro x _ y _ z
  cases hx : x.consensus <;> cases hy : y.consensus <;> simp only [if_true, if_false, Bool.false_eq_true] <;>
    (try rfl)
  cases signed x.pubkey <;> cases signed y.pubkey <;> simp <;> omega

end Poly.Model.Native
