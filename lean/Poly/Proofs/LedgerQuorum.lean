import Poly.Model.Ledger
/-!
Lemmas about header acceptance in the ledger model: the greedy matching of `VerifyMultiSignature`, the
`usedPubKey` loop, and what `verifyHeader` returns.
-/
namespace Poly.Model.Ledger

/-- the keys at the positions a mask marks as used -/
def picked : List Key → List Bool → List Key
  | k :: ks, true :: bs => k :: picked ks bs
  | _ :: ks, false :: bs => picked ks bs
  | _, _ => []

theorem picked_sublist (keys : List Key) (mask : List Bool) : (picked keys mask).Sublist keys := by
  induction keys generalizing mask with
  | nil => cases mask <;> simp [picked]
  | cons k ks ih =>
    cases mask with
    | nil => simp [picked]
    | cons b bs =>
      cases b
      · simpa [picked] using (ih bs).cons k
      · simpa [picked] using (ih bs).cons_cons k

theorem picked_allFalse (keys : List Key) : picked keys (keys.map fun _ => false) = [] := by
  induction keys with
  | nil => rfl
  | cons k ks ih => simpa [picked] using ih

/-- one successful match marks exactly one more position, whose key verifies the signature -/
theorem matchSig_ok (p : Params) (h : Hash) (sig : Sig) (keys : List Key) (mask mask' : List Bool)
    (hm : matchSig p h sig keys mask = some mask') :
    (picked keys mask').length = (picked keys mask).length + 1 ∧
    ∀ k ∈ picked keys mask', k ∈ picked keys mask ∨ p.verify k h sig = true := by
  induction keys generalizing mask mask' with
  | nil => cases mask <;> simp [matchSig] at hm
  | cons k ks ih =>
    cases mask with
    | nil => simp [matchSig] at hm
    | cons b bs =>
      simp only [matchSig] at hm
      split at hm
      · rename_i hc
        injection hm with hm
        subst hm
        simp only [Bool.and_eq_true, Bool.not_eq_true'] at hc
        obtain ⟨hb, hv⟩ := hc
        subst hb
        refine ⟨by simp [picked], ?_⟩
        intro x hx
        simp only [picked, List.mem_cons] at hx
        rcases hx with rfl | hx
        · exact Or.inr hv
        · exact Or.inl (by simpa [picked] using hx)
      · cases hr : matchSig p h sig ks bs with
        | none => simp [hr] at hm
        | some r =>
          simp only [hr, Option.map_some, Option.some.injEq] at hm
          subst hm
          obtain ⟨h1, h2⟩ := ih bs r hr
          cases b
          · refine ⟨by simpa [picked] using h1, ?_⟩
            intro x hx
            simpa [picked] using h2 x (by simpa [picked] using hx)
          · refine ⟨by simp [picked, h1], ?_⟩
            intro x hx
            simp only [picked, List.mem_cons] at hx ⊢
            rcases hx with rfl | hx
            · exact Or.inl (Or.inl rfl)
            · rcases h2 x hx with h3 | h3
              · exact Or.inl (Or.inr h3)
              · exact Or.inr h3

/-- `n` rounds of the loop mark `n` more positions, each justified by one of the signatures -/
theorem multiLoop_ok (p : Params) (h : Hash) (keys : List Key) (n : Nat) (sigs : List Sig) (mask mask' : List Bool)
    (hm : multiLoop p h keys n sigs mask = .ok mask') :
    (picked keys mask').length = (picked keys mask).length + n ∧
    ∀ k ∈ picked keys mask', k ∈ picked keys mask ∨ ∃ sig ∈ sigs, p.verify k h sig = true := by
  induction n generalizing sigs mask with
  | zero =>
    simp only [multiLoop] at hm
    injection hm with hm
    subst hm
    exact ⟨rfl, fun k hk => Or.inl hk⟩
  | succ n ih =>
    cases sigs with
    | nil => simp [multiLoop] at hm
    | cons sig rest =>
      simp only [multiLoop] at hm
      split at hm
      · cases hm
      · cases hr : matchSig p h sig keys mask with
        | none => simp [hr] at hm
        | some m1 =>
          simp only [hr] at hm
          obtain ⟨a1, a2⟩ := matchSig_ok p h sig keys mask m1 hr
          obtain ⟨b1, b2⟩ := ih rest m1 hm
          refine ⟨by omega, ?_⟩
          intro k hk
          rcases b2 k hk with h3 | ⟨s, hs, hv⟩
          · rcases a2 k h3 with h4 | h4
            · exact Or.inl h4
            · exact Or.inr ⟨sig, by simp, h4⟩
          · exact Or.inr ⟨s, by simp [hs], hv⟩

/-- **soundness of the greedy multi-signature check**: acceptance exhibits `m` key positions, pairwise different,
each with a listed signature that verifies under the key at that position -/
theorem verifyMulti_ok (p : Params) (h : Hash) (keys : List Key) (m : Int) (sigs : List Sig) (mask : List Bool)
    (hm : verifyMulti p h keys m sigs = .ok mask) :
    (picked keys mask).length = m.toNat ∧ (picked keys mask).Sublist keys ∧
    ∀ k ∈ picked keys mask, ∃ sig ∈ sigs, p.verify k h sig = true := by
  unfold verifyMulti at hm
  split at hm
  · cases hm
  · obtain ⟨a1, a2⟩ := multiLoop_ok p h keys m.toNat sigs _ mask hm
    rw [picked_allFalse] at a1 a2
    refine ⟨by simpa using a1, picked_sublist keys mask, ?_⟩
    intro k hk
    rcases a2 k hk with h3 | h3
    · cases h3
    · exact h3

/-- the `usedPubKey` loop accepts exactly the lists of pairwise different members of the set -/
theorem checkBookkeepers_ok (set keys used : List Key) (h : checkBookkeepers set keys used = true) :
    keys.Nodup ∧ ∀ k ∈ keys, k ∈ set ∧ k ∉ used := by
  induction keys generalizing used with
  | nil => simp
  | cons k ks ih =>
    simp only [checkBookkeepers] at h
    split at h
    · cases h
    · rename_i hc
      simp only [Bool.or_eq_true, decide_eq_true_eq, not_or, Decidable.not_not] at hc
      obtain ⟨i1, i2⟩ := ih (k :: used) h
      refine ⟨List.nodup_cons.mpr ⟨?_, i1⟩, ?_⟩
      · intro hk
        exact (i2 k hk).2 (by simp)
      · intro x hx
        simp only [List.mem_cons] at hx
        rcases hx with rfl | hx
        · exact ⟨hc.1, hc.2⟩
        · exact ⟨(i2 x hx).1, fun hu => (i2 x hx).2 (by simp [hu])⟩

theorem checkBookkeepers_complete (set keys used : List Key) (hn : keys.Nodup) (hm : ∀ k ∈ keys, k ∈ set ∧ k ∉ used) :
    checkBookkeepers set keys used = true := by
  induction keys generalizing used with
  | nil => rfl
  | cons k ks ih =>
    simp only [checkBookkeepers]
    have hk := hm k (by simp)
    rw [if_neg (by simp [hk.1, hk.2])]
    apply ih
    · exact (List.nodup_cons.mp hn).2
    · intro x hx
      refine ⟨(hm x (by simp [hx])).1, ?_⟩
      simp only [List.mem_cons, not_or]
      exact ⟨fun e => (List.nodup_cons.mp hn).1 (e ▸ hx), (hm x (by simp [hx])).2⟩

theorem dedupKeys_nodup (l : List Key) : (dedupKeys l).Nodup := by
  induction l with
  | nil => simp [dedupKeys]
  | cons k ks ih =>
    simp only [dedupKeys]
    split
    · exact ih
    · rename_i hk
      exact List.nodup_cons.mpr ⟨hk, ih⟩

theorem dedupKeys_mem (l : List Key) (k : Key) : k ∈ dedupKeys l ↔ k ∈ l := by
  induction l with
  | nil => simp [dedupKeys]
  | cons x xs ih =>
    simp only [dedupKeys]
    split
    · rename_i hx
      simp only [List.mem_cons, ih]
      constructor
      · intro h; exact Or.inr h
      · rintro (rfl | h)
        · exact ih.mp hx
        · exact h
    · simp [ih]

/-- everything `verifyHeader` establishes before it accepts a non-genesis header -/
theorem verifyHeader_ok (p : Params) (s : State) (hd : Header) (set set' : List Key) (h0 : hd.height ≠ 0)
    (h : verifyHeader p s hd set = .ok set') :
    (∃ prev, headerByHash s hd.prev = some prev ∧ prev.height + 1 = hd.height ∧ prev.timestamp < hd.timestamp) ∧
    checkBookkeepers set hd.bookkeepers [] = true ∧
    (∃ mask, verifyMulti p hd.hash hd.bookkeepers (threshold p (headerHeight s.mem) set.length) hd.sigs = .ok mask) ∧
    set' = (match hd.newCfg with | some c => dedupKeys c | none => set) ∧ hd.payloadOk = true := by
  unfold verifyHeader at h
  rw [if_neg h0] at h
  split at h
  · cases h
  · rename_i prev hprev
    split at h
    · cases h
    · rename_i hph
      split at h
      · cases h
      · rename_i hts
        simp only at h
        split at h
        · cases h
        · split at h
          · cases h
          · rename_i hcb
            split at h
            · cases h
            · rename_i mask hvm
              split at h
              · cases h
              · rename_i hpl
                refine ⟨⟨prev, hprev, by omega, by omega⟩, by simpa using hcb, ⟨mask, hvm⟩, ?_, by simpa using hpl⟩
                cases hc : hd.newCfg with
                | none => rw [hc] at h; injection h with h; exact h.symm
                | some c => rw [hc] at h; injection h with h; exact h.symm

theorem loadPeers_nodup (d : Durable) (m : Mem) (set : List Key) (hl : loadPeers d m = .ok set) : set.Nodup := by
  unfold loadPeers at hl
  split at hl
  · cases hl
  · split at hl
    · cases hl
    · split at hl
      · injection hl with hl; subst hl; exact dedupKeys_nodup _
      · split at hl
        · cases hl
        · split at hl
          · cases hl
          · split at hl
            · cases hl
            · split at hl
              · injection hl with hl; subst hl; exact dedupKeys_nodup _
              · cases hl

/-! ### completeness of the greedy matching -/

/-- `k` sits at a position the mask has not used yet -/
def freeAt : List Key → List Bool → Key → Prop
  | x :: ks, b :: bs, k => (b = false ∧ x = k) ∨ freeAt ks bs k
  | _, _, _ => False

theorem mem_picked_or_free (keys : List Key) (mask : List Bool) (k : Key) (hl : mask.length = keys.length)
    (hk : k ∈ keys) : k ∈ picked keys mask ∨ freeAt keys mask k := by
  induction keys generalizing mask with
  | nil => cases hk
  | cons x ks ih =>
    cases mask with
    | nil => simp at hl
    | cons b bs =>
      simp only [List.length_cons, Nat.add_right_cancel_iff] at hl
      simp only [List.mem_cons] at hk
      cases b
      · rcases hk with rfl | hk
        · exact Or.inr (Or.inl ⟨rfl, rfl⟩)
        · rcases ih bs hl hk with h | h
          · exact Or.inl (by simpa [picked] using h)
          · exact Or.inr (Or.inr h)
      · rcases hk with rfl | hk
        · exact Or.inl (by simp [picked])
        · rcases ih bs hl hk with h | h
          · exact Or.inl (by simp [picked, h])
          · exact Or.inr (Or.inr h)

theorem matchSig_complete (p : Params) (h : Hash) (sig : Sig) (keys : List Key) (mask : List Bool) (k : Key)
    (hf : freeAt keys mask k) (hv : p.verify k h sig = true) :
    ∃ mask', matchSig p h sig keys mask = some mask' ∧ mask'.length = mask.length := by
  induction keys generalizing mask with
  | nil => cases mask <;> cases hf
  | cons x ks ih =>
    cases mask with
    | nil => cases hf
    | cons b bs =>
      simp only [matchSig]
      split
      · exact ⟨true :: bs, rfl, rfl⟩
      · rename_i hc
        rcases hf with ⟨hb, hx⟩ | hf
        · subst hb; subst hx
          simp [hv] at hc
        · obtain ⟨m', e, hl⟩ := ih bs hf
          exact ⟨b :: m', by simp [e], by simp [hl]⟩

/-- the loop succeeds when each of the first `n` signatures decodes and verifies under exactly one listed key,
different signatures under different keys -/
theorem multiLoop_complete (p : Params) (h : Hash) (keys : List Key) (n : Nat) (sigs : List Sig) (mask : List Bool)
    (signer : Sig → Key) (used : List Key)
    (hl : mask.length = keys.length) (hlen : n ≤ sigs.length)
    (hpick : ∀ k ∈ picked keys mask, k ∈ used)
    (hsig : ∀ sig ∈ sigs.take n, p.decode sig = true ∧ signer sig ∈ keys ∧ signer sig ∉ used ∧
      p.verify (signer sig) h sig = true ∧ ∀ k ∈ keys, p.verify k h sig = true → k = signer sig)
    (hinj : ((sigs.take n).map signer).Nodup) :
    ∃ mask', multiLoop p h keys n sigs mask = .ok mask' := by
  induction n generalizing sigs mask used with
  | zero => exact ⟨mask, rfl⟩
  | succ n ih =>
    cases sigs with
    | nil => simp at hlen
    | cons sig rest =>
      simp only [List.take_succ_cons, List.mem_cons, forall_eq_or_imp, List.map_cons, List.nodup_cons] at hsig hinj
      obtain ⟨⟨hd, hmem, hnu, hv, huniq⟩, hrest⟩ := hsig
      simp only [multiLoop, hd, Bool.not_true, Bool.false_eq_true, if_false]
      have hfree : freeAt keys mask (signer sig) := by
        rcases mem_picked_or_free keys mask _ hl hmem with h1 | h1
        · exact absurd (hpick _ h1) hnu
        · exact h1
      obtain ⟨m1, e1, l1⟩ := matchSig_complete p h sig keys mask _ hfree hv
      rw [e1]
      obtain ⟨-, a2⟩ := matchSig_ok p h sig keys mask m1 e1
      apply ih rest m1 (signer sig :: used) (by rw [l1, hl]) (by simpa using hlen)
      · intro k hk
        rcases a2 k hk with h3 | h3
        · exact List.mem_cons_of_mem _ (hpick k h3)
        · have := huniq k ((picked_sublist keys m1).subset hk) h3
          rw [this]; exact List.mem_cons_self
      · intro s hs
        obtain ⟨b1, b2, b3, b4, b5⟩ := hrest s hs
        refine ⟨b1, b2, ?_, b4, b5⟩
        simp only [List.mem_cons, not_or]
        refine ⟨?_, b3⟩
        intro e
        exact hinj.1 (e ▸ List.mem_map_of_mem hs)
      · exact hinj.2



/-- **completeness of the greedy multi-signature check** under the one-key-per-signature hypothesis: if each of the
first `m` signatures decodes and verifies under exactly one listed key (`signer`), and these keys are pairwise
different, the check accepts -/
theorem verifyMulti_complete (p : Params) (h : Hash) (keys : List Key) (m : Int) (sigs : List Sig) (signer : Sig → Key)
    (hlen : m ≤ (sigs.length : Int))
    (hsig : ∀ sig ∈ sigs.take m.toNat, p.decode sig = true ∧ signer sig ∈ keys ∧
      p.verify (signer sig) h sig = true ∧ ∀ k ∈ keys, p.verify k h sig = true → k = signer sig)
    (hinj : ((sigs.take m.toNat).map signer).Nodup) :
    ∃ mask, verifyMulti p h keys m sigs = .ok mask := by
  unfold verifyMulti
  rw [if_neg (by omega)]
  apply multiLoop_complete p h keys m.toNat sigs _ signer [] (by simp) (by omega)
  · intro k hk
    rw [picked_allFalse] at hk
    cases hk
  · intro s hs
    obtain ⟨a, b, c, d⟩ := hsig s hs
    exact ⟨a, b, by simp, c, d⟩
  · exact hinj


end Poly.Model.Ledger
