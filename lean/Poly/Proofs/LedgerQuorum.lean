import Poly.Model.Ledger
/-!
Lemmas about header acceptance in the ledger model: the greedy matching of `VerifyMultiSignature`, the
`usedPubKey` loop, and what `verifyHeader` returns.
-/
namespace Poly.Model.Ledger

/-- the keys at the positions a mask marks as used -/
def picked : List Key → List Bool → List Key
  | k :: ks, true :: bs => k :: picked ks bs
  | _ :: ks, false :: bs => picked ks bs
  | _, _ => []

theorem picked_sublist (keys : List Key) (mask : List Bool) : (picked keys mask).Sublist keys := by
  induction keys generalizing mask with
  | nil => cases mask <;> simp [picked]
  | cons k ks ih =>
    cases mask with
    | nil => simp [picked]
    | cons b bs =>
      cases b
      · simpa [picked] using (ih bs).cons k
      · simpa [picked] using (ih bs).cons_cons k

theorem picked_allFalse (keys : List Key) : picked keys (keys.map fun _ => false) = [] := by
  induction keys with
  | nil => rfl
  | cons k ks ih => simpa [picked] using ih

/-- one successful match marks exactly one more position, whose key verifies the signature -/
theorem matchSig_ok (p : Params) (h : Hash) (sig : Sig) (keys : List Key) (mask mask' : List Bool)
    (hm : matchSig p h sig keys mask = some mask') :
    (picked keys mask').length = (picked keys mask).length + 1 ∧
    ∀ k ∈ picked keys mask', k ∈ picked keys mask ∨ p.verify k h sig = true := by
  induction keys generalizing mask mask' with
  | nil => cases mask <;> simp [matchSig] at hm
  | cons k ks ih =>
    cases mask with
    | nil => simp [matchSig] at hm
    | cons b bs =>
      simp only [matchSig] at hm
      split at hm
      · rename_i hc
        injection hm with hm
        subst hm
        simp only [Bool.and_eq_true, Bool.not_eq_true'] at hc
        obtain ⟨hb, hv⟩ := hc
        subst hb
        refine ⟨by simp [picked], ?_⟩
        intro x hx
        simp only [picked, List.mem_cons] at hx
        rcases hx with rfl | hx
        · exact Or.inr hv
        · exact Or.inl (by simpa [picked] using hx)
      · cases hr : matchSig p h sig ks bs with
        | none => simp [hr] at hm
        | some r =>
          simp only [hr, Option.map_some, Option.some.injEq] at hm
          subst hm
          obtain ⟨h1, h2⟩ := ih bs r hr
          cases b
          · refine ⟨by simpa [picked] using h1, ?_⟩
            intro x hx
            simpa [picked] using h2 x (by simpa [picked] using hx)
          · refine ⟨by simp [picked, h1], ?_⟩
            intro x hx
            simp only [picked, List.mem_cons] at hx ⊢
            rcases hx with rfl | hx
            · exact Or.inl (Or.inl rfl)
            · rcases h2 x hx with h3 | h3
              · exact Or.inl (Or.inr h3)
              · exact Or.inr h3

/-- `n` rounds of the loop mark `n` more positions, each justified by one of the signatures -/
theorem multiLoop_ok (p : Params) (h : Hash) (keys : List Key) (n : Nat) (sigs : List Sig) (mask mask' : List Bool)
    (hm : multiLoop p h keys n sigs mask = .ok mask') :
    (picked keys mask').length = (picked keys mask).length + n ∧
    ∀ k ∈ picked keys mask', k ∈ picked keys mask ∨ ∃ sig ∈ sigs, p.verify k h sig = true := by
  induction n generalizing sigs mask with
  | zero =>
    simp only [multiLoop] at hm
    injection hm with hm
    subst hm
    exact ⟨rfl, fun k hk => Or.inl hk⟩
  | succ n ih =>
    cases sigs with
    | nil => simp [multiLoop] at hm
    | cons sig rest =>
      simp only [multiLoop] at hm
      split at hm
      · cases hm
      · cases hr : matchSig p h sig keys mask with
        | none => simp [hr] at hm
        | some m1 =>
          simp only [hr] at hm
          obtain ⟨a1, a2⟩ := matchSig_ok p h sig keys mask m1 hr
          obtain ⟨b1, b2⟩ := ih rest m1 hm
          refine ⟨by omega, ?_⟩
          intro k hk
          rcases b2 k hk with h3 | ⟨s, hs, hv⟩
          · rcases a2 k h3 with h4 | h4
            · exact Or.inl h4
            · exact Or.inr ⟨sig, by simp, h4⟩
          · exact Or.inr ⟨s, by simp [hs], hv⟩

/-- **soundness of the greedy multi-signature check**: acceptance exhibits `m` key positions, pairwise different,
each with a listed signature that verifies under the key at that position -/
theorem verifyMulti_ok (p : Params) (h : Hash) (keys : List Key) (m : Int) (sigs : List Sig) (mask : List Bool)
    (hm : verifyMulti p h keys m sigs = .ok mask) :
    (picked keys mask).length = m.toNat ∧ (picked keys mask).Sublist keys ∧
    ∀ k ∈ picked keys mask, ∃ sig ∈ sigs, p.verify k h sig = true := by
  unfold verifyMulti at hm
  split at hm
  · cases hm
  · obtain ⟨a1, a2⟩ := multiLoop_ok p h keys m.toNat sigs _ mask hm
    rw [picked_allFalse] at a1 a2
    refine ⟨by simpa using a1, picked_sublist keys mask, ?_⟩
    intro k hk
    rcases a2 k hk with h3 | h3
    · cases h3
    · exact h3

/-- the `usedPubKey` loop accepts exactly the lists of pairwise different members of the set -/
theorem checkBookkeepers_ok (set keys used : List Key) (h : checkBookkeepers set keys used = true) :
    keys.Nodup ∧ ∀ k ∈ keys, k ∈ set ∧ k ∉ used := by
  induction keys generalizing used with
  | nil => simp
  | cons k ks ih =>
    simp only [checkBookkeepers] at h
    split at h
    · cases h
    · rename_i hc
      simp only [Bool.or_eq_true, decide_eq_true_eq, not_or, Decidable.not_not] at hc
      obtain ⟨i1, i2⟩ := ih (k :: used) h
      refine ⟨List.nodup_cons.mpr ⟨?_, i1⟩, ?_⟩
      · intro hk
        exact (i2 k hk).2 (by simp)
      · intro x hx
        simp only [List.mem_cons] at hx
        rcases hx with rfl | hx
        · exact ⟨hc.1, hc.2⟩
        · exact ⟨(i2 x hx).1, fun hu => (i2 x hx).2 (by simp [hu])⟩

theorem checkBookkeepers_complete (set keys used : List Key) (hn : keys.Nodup) (hm : ∀ k ∈ keys, k ∈ set ∧ k ∉ used) :
    checkBookkeepers set keys used = true := by
  induction keys generalizing used with
  | nil => rfl
  | cons k ks ih =>
    simp only [checkBookkeepers]
    have hk := hm k (by simp)
    rw [if_neg (by simp [hk.1, hk.2])]
    apply ih
    · exact (List.nodup_cons.mp hn).2
    · intro x hx
      refine ⟨(hm x (by simp [hx])).1, ?_⟩
      simp only [List.mem_cons, not_or]
      exact ⟨fun e => (List.nodup_cons.mp hn).1 (e ▸ hx), (hm x (by simp [hx])).2⟩

theorem dedupKeys_nodup (l : List Key) : (dedupKeys l).Nodup := by
  induction l with
  | nil => simp [dedupKeys]
  | cons k ks ih =>
    simp only [dedupKeys]
    split
    · exact ih
    · rename_i hk
      exact List.nodup_cons.mpr ⟨hk, ih⟩

theorem dedupKeys_mem (l : List Key) (k : Key) : k ∈ dedupKeys l ↔ k ∈ l := by
  induction l with
  | nil => simp [dedupKeys]
  | cons x xs ih =>
    simp only [dedupKeys]
    split
    · rename_i hx
      simp only [List.mem_cons, ih]
      constructor
      · intro h; exact Or.inr h
      · rintro (rfl | h)
        · exact ih.mp hx
        · exact h
    · simp [ih]

/-- everything `verifyHeader` establishes before it accepts a non-genesis header -/
theorem verifyHeader_ok (p : Params) (s : State) (hd : Header) (set set' : List Key) (h0 : hd.height ≠ 0)
    (h : verifyHeader p s hd set = .ok set') :
    (∃ prev, headerByHash s hd.prev = some prev ∧ prev.height + 1 = hd.height ∧ prev.timestamp < hd.timestamp) ∧
    checkBookkeepers set hd.bookkeepers [] = true ∧
    (∃ mask, verifyMulti p hd.hash hd.bookkeepers (threshold p (headerHeight s.mem) set.length) hd.sigs = .ok mask) ∧
    set' = (match hd.newCfg with | some c => dedupKeys c | none => set) := by
  unfold verifyHeader at h
  rw [if_neg h0] at h
  split at h
  · cases h
  · rename_i prev hprev
    split at h
    · cases h
    · rename_i hph
      split at h
      · cases h
      · rename_i hts
        simp only at h
        split at h
        · cases h
        · split at h
          · cases h
          · rename_i hcb
            split at h
            · cases h
            · rename_i mask hvm
              refine ⟨⟨prev, hprev, by omega, by omega⟩, by simpa using hcb, ⟨mask, hvm⟩, ?_⟩
              cases hc : hd.newCfg with
              | none => rw [hc] at h; injection h with h; exact h.symm
              | some c => rw [hc] at h; injection h with h; exact h.symm

theorem loadPeers_nodup (d : Durable) (m : Mem) (set : List Key) (hl : loadPeers d m = .ok set) : set.Nodup := by
  unfold loadPeers at hl
  split at hl
  · cases hl
  · split at hl
    · injection hl with hl; subst hl; exact dedupKeys_nodup _
    · split at hl
      · cases hl
      · split at hl
        · cases hl
        · split at hl
          · injection hl with hl; subst hl; exact dedupKeys_nodup _
          · cases hl

end Poly.Model.Ledger
