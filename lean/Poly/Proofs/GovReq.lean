import Poly.Proofs.GovBasic
import Poly.Model.GovSpec
/-!
Request tables: a request that is not pending stays not pending until a transaction creates it (C33), an applied
approval needs its request and removes it.
-/
namespace Poly.Model.Gov

/-- unfold `plan` for a concrete op and split into the handler's branches; failing branches are closed -/
macro "plan_cases" h:ident : tactic => `(tactic|
  (simp only [plan, initConfig, registerCandidate, clearSigns] at $h:ident
   repeat' split at $h:ident
   all_goals try (first | (cases $h:ident; done) | (injection $h:ident with $h:ident; injection $h:ident with $h:ident; subst $h:ident) | (injection $h:ident with $h:ident; cases $h:ident; done))))

theorem commit_frame {s s3 : State} (h : executeCommitDpos s = .ok s3) : s3 = { s with pools := s3.pools, gv := s3.gv } := by
  simp only [executeCommitDpos] at h
  split at h
  · cases h
  · split at h
    · cases h
    · injection h with h; subst h; rfl

theorem pending_signs (t : State) (x : List (Bytes × List Addr)) (q : Req) : pending { t with signs := x } q = pending t q := by
  cases q <;> rfl

theorem pending_commit {s s3 : State} (h : executeCommitDpos s = .ok s3) (q : Req) : pending s3 q = pending s q := by
  rw [commit_frame h]; cases q <;> rfl

theorem contains_append_single (l : List Nat) (a b : Nat) (h : b ≠ a) : (l ++ [a]).contains b = l.contains b := by
  simp [h]

set_option maxHeartbeats 1600000 in
/-- Handlers that finish by themselves create at most the request named by `creates`. -/
theorem pending_done (H : Bytes → Bytes) (s : State) (op : Op) (o : Out) (q : Req)
    (h : plan H s op = .ok (.done o)) (hc : creates s op ≠ some q) (hp : pending s q = false) : pending o.st q = false := by
  cases q <;> cases op <;> plan_cases h
  all_goals try (exact hp)
  all_goals try (rename_i hcd; rw [pending_commit hcd]; exact hp)
  all_goals (simp only [pending, creates] at hp hc ⊢)
  all_goals try (exact hp)
  all_goals try (simp_all [alHas_put_ne, Ne.symm]; done)
  all_goals try (rw [alHas_put_ne]; exact hp; intro e; apply hc; simp_all)
  all_goals try (apply alHas_erase_of_not; exact hp)

theorem blackEffect_frame {gv : GovView} {pool : List PeerItem} {pks : List String} {s1 s2 : State} {n : String}
    (h : blackEffect gv pool pks s1 = .ok (s2, n)) : s2 = { s1 with pools := s2.pools, gv := s2.gv, black := s2.black } := by
  simp only [blackEffect] at h
  split at h
  · cases h
  · split at h
    · split at h
      · cases h
      · rename_i hc
        injection h with h; injection h with h1 h2; subst h1
        rw [commit_frame hc]
    · injection h with h; injection h with h1 h2; subst h1; rfl

theorem allocIndex_frame {s1 s2 : State} {akb : Bytes} {i : Nat} (h : allocIndex s1 akb = some (i, s2)) :
    s2 = { s1 with candIndex := s2.candIndex, pidx := s2.pidx } := by
  simp only [allocIndex] at h
  repeat' split at h
  all_goals try (cases h; done)
  all_goals (injection h with h; injection h with h1 h2; subst h2; rfl)

theorem candidateEffect_shape {key apk : String} {aaddr : Addr} {s1 s2 : State} {n : String}
    (h : candidateEffect key apk aaddr s1 = .ok (s2, n)) :
    ∃ akb, decodePk apk = some akb ∧
      s2 = { s1 with candIndex := s2.candIndex, pidx := s2.pidx, pools := s2.pools, apply := alErase s1.apply akb } := by
  simp only [candidateEffect] at h
  split at h
  · cases h
  · rename_i akb hd
    split at h
    · cases h
    · rename_i idx s2' hidx
      split at h
      · cases h
      · injection h with h; injection h with h1 h2; subst h1
        refine ⟨akb, hd, ?_⟩
        rw [allocIndex_frame hidx]

theorem candidateEffect_pending {key apk : String} {aaddr : Addr} {s1 s2 : State} {n : String} (q : Req)
    (h : candidateEffect key apk aaddr s1 = .ok (s2, n)) (hp : pending s1 q = false) : pending s2 q = false := by
  obtain ⟨akb, _, he⟩ := candidateEffect_shape h
  rw [he]
  cases q <;> simp only [pending] at hp ⊢ <;> first | exact hp | (apply alHas_erase_of_not; exact hp)

/-- Approved actions never create a request. -/
theorem pending_fire (H : Bytes → Bytes) (s : State) (op : Op) (ap : Approval) (q : Req) (s1 s2 : State) (n : String)
    (h : plan H s op = .ok (.approve ap)) (hp : pending s1 q = false) (hf : ap.onFire s1 = .ok (s2, n)) :
    pending s2 q = false := by
  cases op <;> plan_cases h
  all_goals (dsimp only at hf)
  all_goals try (rw [blackEffect_frame hf]; cases q <;> exact hp; done)
  all_goals try (exact candidateEffect_pending q hf hp; done)
  all_goals try (split at hf)
  all_goals try (cases hf; done)
  all_goals (injection hf with hf; injection hf with hf1 hf2; subst hf1)
  all_goals (cases q <;> simp only [pending] at hp ⊢)
  all_goals try (exact hp)
  all_goals try (apply alHas_erase_of_not; exact hp)
  all_goals (simp only [List.contains_eq_mem, List.mem_filter, decide_eq_false_iff_not] at hp ⊢; intro hmem; exact hp hmem.1)

/-- A request that is not pending stays not pending across any transaction that does not create it. -/
theorem pending_frame (H : Bytes → Bytes) (s : State) (op : Op) (q : Req)
    (hc : creates s op ≠ some q) (hp : pending s q = false) : pending (step H s op) q = false := by
  apply step_preserves H (fun t => pending t q = false) s op
  · intro t x ht; rw [pending_signs]; exact ht
  · intro o ho hs; exact pending_done H s op o q ho hc hs
  · intro ap hap s1 s2 n _ hs1 hf; exact pending_fire H s op ap q s1 s2 n hap hs1 hf
  · exact hp

/-- What `applied` means, unfolded. -/
theorem applied_iff (H : Bytes → Bytes) (s : State) (op : Op) :
    applied H s op = true ↔ ∃ ap s1 ev s2 n, plan H s op = .ok (.approve ap) ∧
      checkConsensusSigns H s ap.method ap.input ap.addr = .ok (s1, true, ev) ∧ ap.onFire s1 = .ok (s2, n) := by
  unfold applied
  constructor
  · intro h
    split at h
    · rename_i ap hp
      split at h
      · rename_i s1 ev hc
        cases hf : ap.onFire s1 with
        | error e => simp [hf, Except.toBool] at h
        | ok r => obtain ⟨r1, r2⟩ := r; exact ⟨ap, s1, ev, r1, r2, hp, hc, hf⟩
      · cases h
    · cases h
  · rintro ⟨ap, s1, ev, s2, n, hp, hc, hf⟩
    simp [hp, hc, hf, Except.toBool]

theorem step_of_applied (H : Bytes → Bytes) {s : State} {op : Op} {ap : Approval} {s1 s2 : State} {ev n : String}
    (hp : plan H s op = .ok (.approve ap))
    (hc : checkConsensusSigns H s ap.method ap.input ap.addr = .ok (s1, true, ev)) (hf : ap.onFire s1 = .ok (s2, n)) :
    step H s op = s2 := by
  simp [step, exec, hp, runPlan, hc, hf]
