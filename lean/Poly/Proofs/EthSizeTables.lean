import Poly.Proofs.EthSizeCert
import Poly.Proofs.EthSizeChk0
import Poly.Proofs.EthSizeChk1
import Poly.Proofs.EthSizeChk2
import Poly.Proofs.EthSizeChk3
import Poly.Proofs.EthSizeChk4
import Poly.Proofs.EthSizeChk5
import Poly.Proofs.EthSizeChk6
import Poly.Proofs.EthSizeChk7
/-!
# The ethash size tables equal the computed sizes, for every epoch below 2048 (C28)
-/
open Poly.Model.EthRules Poly.Model.EthSizeCert Poly.Generated

namespace Poly.Proofs.EthSizeTables

/-- `c` holds the values the search loop returns for the epochs `64·j, 64·j+1, …`. -/
theorem consts_eq : EthConsts.datasetInitBytes.toNat = 1073741824 ∧ EthConsts.datasetGrowthBytes.toNat = 8388608 ∧
    EthConsts.mixBytes.toNat = 128 ∧ EthConsts.cacheInitBytes.toNat = 16777216 ∧ EthConsts.cacheGrowthBytes.toNat = 131072 ∧
    EthConsts.hashBytes.toNat = 64 := ⟨rfl, rfl, rfl, rfl, rfl, rfl⟩

def Good (init growth unit j : Nat) (c : List Nat) : Prop :=
  ∀ i v, c[i]? = some v → sizeLoop unit sizeFuel (init + growth * (64 * j + i) - unit) = some v

theorem good_of_check (init growth unit j : Nat) (c : List Nat) (certs : List EpochCert)
    (h : checkTable init growth unit (64 * j) c certs = true) : Good init growth unit j c :=
  Poly.Proofs.EthSizeCert.checkTable_sound init growth unit c certs (64 * j) h

def AllGood (init growth unit : Nat) : Nat → List (List Nat) → Prop
  | _, [] => True
  | j, c :: cs => (c.length = 64 ∧ Good init growth unit j c) ∧ AllGood init growth unit (j + 1) cs

theorem allGood_get (init growth unit : Nat) : ∀ (L : List (List Nat)) (start : Nat), AllGood init growth unit start L →
    ∀ j i, i < 64 → ∀ v, (L.flatten)[64 * j + i]? = some v → j < L.length →
      sizeLoop unit sizeFuel (init + growth * (64 * (start + j) + i) - unit) = some v := by
  intro L
  induction L with
  | nil => intro start _ j i _ v _ hj; simp at hj
  | cons c cs ih =>
    intro start h j i hi v hv hj
    obtain ⟨⟨hlen, hgood⟩, hrest⟩ := h
    cases j with
    | zero =>
      simp only [List.flatten_cons, Nat.mul_zero, Nat.zero_add] at hv
      rw [List.getElem?_append_left (by omega)] at hv
      simpa using hgood i v hv
    | succ j =>
      simp only [List.flatten_cons] at hv
      have e : 64 * (j + 1) + i = c.length + (64 * j + i) := by omega
      rw [e, List.getElem?_append_right (by omega), Nat.add_sub_cancel_left] at hv
      have := ih (start + 1) hrest j i hi v hv (by simpa using hj)
      have e2 : start + 1 + j = start + (j + 1) := by omega
      rw [e2] at this; exact this

def datasetChunks : List (List Nat) := [EthSizeCerts.datasetVals_0, EthSizeCerts.datasetVals_1, EthSizeCerts.datasetVals_2, EthSizeCerts.datasetVals_3, EthSizeCerts.datasetVals_4, EthSizeCerts.datasetVals_5, EthSizeCerts.datasetVals_6, EthSizeCerts.datasetVals_7, EthSizeCerts.datasetVals_8, EthSizeCerts.datasetVals_9, EthSizeCerts.datasetVals_10, EthSizeCerts.datasetVals_11, EthSizeCerts.datasetVals_12, EthSizeCerts.datasetVals_13, EthSizeCerts.datasetVals_14, EthSizeCerts.datasetVals_15, EthSizeCerts.datasetVals_16, EthSizeCerts.datasetVals_17, EthSizeCerts.datasetVals_18, EthSizeCerts.datasetVals_19, EthSizeCerts.datasetVals_20, EthSizeCerts.datasetVals_21, EthSizeCerts.datasetVals_22, EthSizeCerts.datasetVals_23, EthSizeCerts.datasetVals_24, EthSizeCerts.datasetVals_25, EthSizeCerts.datasetVals_26, EthSizeCerts.datasetVals_27, EthSizeCerts.datasetVals_28, EthSizeCerts.datasetVals_29, EthSizeCerts.datasetVals_30, EthSizeCerts.datasetVals_31]
def cacheChunks : List (List Nat) := [EthSizeCerts.cacheVals_0, EthSizeCerts.cacheVals_1, EthSizeCerts.cacheVals_2, EthSizeCerts.cacheVals_3, EthSizeCerts.cacheVals_4, EthSizeCerts.cacheVals_5, EthSizeCerts.cacheVals_6, EthSizeCerts.cacheVals_7, EthSizeCerts.cacheVals_8, EthSizeCerts.cacheVals_9, EthSizeCerts.cacheVals_10, EthSizeCerts.cacheVals_11, EthSizeCerts.cacheVals_12, EthSizeCerts.cacheVals_13, EthSizeCerts.cacheVals_14, EthSizeCerts.cacheVals_15, EthSizeCerts.cacheVals_16, EthSizeCerts.cacheVals_17, EthSizeCerts.cacheVals_18, EthSizeCerts.cacheVals_19, EthSizeCerts.cacheVals_20, EthSizeCerts.cacheVals_21, EthSizeCerts.cacheVals_22, EthSizeCerts.cacheVals_23, EthSizeCerts.cacheVals_24, EthSizeCerts.cacheVals_25, EthSizeCerts.cacheVals_26, EthSizeCerts.cacheVals_27, EthSizeCerts.cacheVals_28, EthSizeCerts.cacheVals_29, EthSizeCerts.cacheVals_30, EthSizeCerts.cacheVals_31]

theorem dvals_0 : EthConsts.datasetSizes_0 = EthSizeCerts.datasetVals_0 := rfl
theorem cvals_0 : EthConsts.cacheSizes_0 = EthSizeCerts.cacheVals_0 := rfl
theorem dvals_1 : EthConsts.datasetSizes_1 = EthSizeCerts.datasetVals_1 := rfl
theorem cvals_1 : EthConsts.cacheSizes_1 = EthSizeCerts.cacheVals_1 := rfl
theorem dvals_2 : EthConsts.datasetSizes_2 = EthSizeCerts.datasetVals_2 := rfl
theorem cvals_2 : EthConsts.cacheSizes_2 = EthSizeCerts.cacheVals_2 := rfl
theorem dvals_3 : EthConsts.datasetSizes_3 = EthSizeCerts.datasetVals_3 := rfl
theorem cvals_3 : EthConsts.cacheSizes_3 = EthSizeCerts.cacheVals_3 := rfl
theorem dvals_4 : EthConsts.datasetSizes_4 = EthSizeCerts.datasetVals_4 := rfl
theorem cvals_4 : EthConsts.cacheSizes_4 = EthSizeCerts.cacheVals_4 := rfl
theorem dvals_5 : EthConsts.datasetSizes_5 = EthSizeCerts.datasetVals_5 := rfl
theorem cvals_5 : EthConsts.cacheSizes_5 = EthSizeCerts.cacheVals_5 := rfl
theorem dvals_6 : EthConsts.datasetSizes_6 = EthSizeCerts.datasetVals_6 := rfl
theorem cvals_6 : EthConsts.cacheSizes_6 = EthSizeCerts.cacheVals_6 := rfl
theorem dvals_7 : EthConsts.datasetSizes_7 = EthSizeCerts.datasetVals_7 := rfl
theorem cvals_7 : EthConsts.cacheSizes_7 = EthSizeCerts.cacheVals_7 := rfl
theorem dvals_8 : EthConsts.datasetSizes_8 = EthSizeCerts.datasetVals_8 := rfl
theorem cvals_8 : EthConsts.cacheSizes_8 = EthSizeCerts.cacheVals_8 := rfl
theorem dvals_9 : EthConsts.datasetSizes_9 = EthSizeCerts.datasetVals_9 := rfl
theorem cvals_9 : EthConsts.cacheSizes_9 = EthSizeCerts.cacheVals_9 := rfl
theorem dvals_10 : EthConsts.datasetSizes_10 = EthSizeCerts.datasetVals_10 := rfl
theorem cvals_10 : EthConsts.cacheSizes_10 = EthSizeCerts.cacheVals_10 := rfl
theorem dvals_11 : EthConsts.datasetSizes_11 = EthSizeCerts.datasetVals_11 := rfl
theorem cvals_11 : EthConsts.cacheSizes_11 = EthSizeCerts.cacheVals_11 := rfl
theorem dvals_12 : EthConsts.datasetSizes_12 = EthSizeCerts.datasetVals_12 := rfl
theorem cvals_12 : EthConsts.cacheSizes_12 = EthSizeCerts.cacheVals_12 := rfl
theorem dvals_13 : EthConsts.datasetSizes_13 = EthSizeCerts.datasetVals_13 := rfl
theorem cvals_13 : EthConsts.cacheSizes_13 = EthSizeCerts.cacheVals_13 := rfl
theorem dvals_14 : EthConsts.datasetSizes_14 = EthSizeCerts.datasetVals_14 := rfl
theorem cvals_14 : EthConsts.cacheSizes_14 = EthSizeCerts.cacheVals_14 := rfl
theorem dvals_15 : EthConsts.datasetSizes_15 = EthSizeCerts.datasetVals_15 := rfl
theorem cvals_15 : EthConsts.cacheSizes_15 = EthSizeCerts.cacheVals_15 := rfl
theorem dvals_16 : EthConsts.datasetSizes_16 = EthSizeCerts.datasetVals_16 := rfl
theorem cvals_16 : EthConsts.cacheSizes_16 = EthSizeCerts.cacheVals_16 := rfl
theorem dvals_17 : EthConsts.datasetSizes_17 = EthSizeCerts.datasetVals_17 := rfl
theorem cvals_17 : EthConsts.cacheSizes_17 = EthSizeCerts.cacheVals_17 := rfl
theorem dvals_18 : EthConsts.datasetSizes_18 = EthSizeCerts.datasetVals_18 := rfl
theorem cvals_18 : EthConsts.cacheSizes_18 = EthSizeCerts.cacheVals_18 := rfl
theorem dvals_19 : EthConsts.datasetSizes_19 = EthSizeCerts.datasetVals_19 := rfl
theorem cvals_19 : EthConsts.cacheSizes_19 = EthSizeCerts.cacheVals_19 := rfl
theorem dvals_20 : EthConsts.datasetSizes_20 = EthSizeCerts.datasetVals_20 := rfl
theorem cvals_20 : EthConsts.cacheSizes_20 = EthSizeCerts.cacheVals_20 := rfl
theorem dvals_21 : EthConsts.datasetSizes_21 = EthSizeCerts.datasetVals_21 := rfl
theorem cvals_21 : EthConsts.cacheSizes_21 = EthSizeCerts.cacheVals_21 := rfl
theorem dvals_22 : EthConsts.datasetSizes_22 = EthSizeCerts.datasetVals_22 := rfl
theorem cvals_22 : EthConsts.cacheSizes_22 = EthSizeCerts.cacheVals_22 := rfl
theorem dvals_23 : EthConsts.datasetSizes_23 = EthSizeCerts.datasetVals_23 := rfl
theorem cvals_23 : EthConsts.cacheSizes_23 = EthSizeCerts.cacheVals_23 := rfl
theorem dvals_24 : EthConsts.datasetSizes_24 = EthSizeCerts.datasetVals_24 := rfl
theorem cvals_24 : EthConsts.cacheSizes_24 = EthSizeCerts.cacheVals_24 := rfl
theorem dvals_25 : EthConsts.datasetSizes_25 = EthSizeCerts.datasetVals_25 := rfl
theorem cvals_25 : EthConsts.cacheSizes_25 = EthSizeCerts.cacheVals_25 := rfl
theorem dvals_26 : EthConsts.datasetSizes_26 = EthSizeCerts.datasetVals_26 := rfl
theorem cvals_26 : EthConsts.cacheSizes_26 = EthSizeCerts.cacheVals_26 := rfl
theorem dvals_27 : EthConsts.datasetSizes_27 = EthSizeCerts.datasetVals_27 := rfl
theorem cvals_27 : EthConsts.cacheSizes_27 = EthSizeCerts.cacheVals_27 := rfl
theorem dvals_28 : EthConsts.datasetSizes_28 = EthSizeCerts.datasetVals_28 := rfl
theorem cvals_28 : EthConsts.cacheSizes_28 = EthSizeCerts.cacheVals_28 := rfl
theorem dvals_29 : EthConsts.datasetSizes_29 = EthSizeCerts.datasetVals_29 := rfl
theorem cvals_29 : EthConsts.cacheSizes_29 = EthSizeCerts.cacheVals_29 := rfl
theorem dvals_30 : EthConsts.datasetSizes_30 = EthSizeCerts.datasetVals_30 := rfl
theorem cvals_30 : EthConsts.cacheSizes_30 = EthSizeCerts.cacheVals_30 := rfl
theorem dvals_31 : EthConsts.datasetSizes_31 = EthSizeCerts.datasetVals_31 := rfl
theorem cvals_31 : EthConsts.cacheSizes_31 = EthSizeCerts.cacheVals_31 := rfl

theorem datasetSizes_eq : EthConsts.datasetSizes = datasetChunks.flatten.toArray := by
  unfold EthConsts.datasetSizes datasetChunks
  rw [dvals_0, dvals_1, dvals_2, dvals_3, dvals_4, dvals_5, dvals_6, dvals_7, dvals_8, dvals_9, dvals_10, dvals_11, dvals_12, dvals_13, dvals_14, dvals_15, dvals_16, dvals_17, dvals_18, dvals_19, dvals_20, dvals_21, dvals_22, dvals_23, dvals_24, dvals_25, dvals_26, dvals_27, dvals_28, dvals_29, dvals_30, dvals_31]
theorem cacheSizes_eq : EthConsts.cacheSizes = cacheChunks.flatten.toArray := by
  unfold EthConsts.cacheSizes cacheChunks
  rw [cvals_0, cvals_1, cvals_2, cvals_3, cvals_4, cvals_5, cvals_6, cvals_7, cvals_8, cvals_9, cvals_10, cvals_11, cvals_12, cvals_13, cvals_14, cvals_15, cvals_16, cvals_17, cvals_18, cvals_19, cvals_20, cvals_21, cvals_22, cvals_23, cvals_24, cvals_25, cvals_26, cvals_27, cvals_28, cvals_29, cvals_30, cvals_31]

theorem dataset_allGood : AllGood 1073741824 8388608 128 0 datasetChunks := by
  unfold datasetChunks
  simp only [AllGood]
  exact ⟨⟨rfl, good_of_check _ _ _ 0 _ _ EthSizeChk.dataset_0⟩, ⟨rfl, good_of_check _ _ _ 1 _ _ EthSizeChk.dataset_1⟩, ⟨rfl, good_of_check _ _ _ 2 _ _ EthSizeChk.dataset_2⟩, ⟨rfl, good_of_check _ _ _ 3 _ _ EthSizeChk.dataset_3⟩, ⟨rfl, good_of_check _ _ _ 4 _ _ EthSizeChk.dataset_4⟩, ⟨rfl, good_of_check _ _ _ 5 _ _ EthSizeChk.dataset_5⟩, ⟨rfl, good_of_check _ _ _ 6 _ _ EthSizeChk.dataset_6⟩, ⟨rfl, good_of_check _ _ _ 7 _ _ EthSizeChk.dataset_7⟩, ⟨rfl, good_of_check _ _ _ 8 _ _ EthSizeChk.dataset_8⟩, ⟨rfl, good_of_check _ _ _ 9 _ _ EthSizeChk.dataset_9⟩, ⟨rfl, good_of_check _ _ _ 10 _ _ EthSizeChk.dataset_10⟩, ⟨rfl, good_of_check _ _ _ 11 _ _ EthSizeChk.dataset_11⟩, ⟨rfl, good_of_check _ _ _ 12 _ _ EthSizeChk.dataset_12⟩, ⟨rfl, good_of_check _ _ _ 13 _ _ EthSizeChk.dataset_13⟩, ⟨rfl, good_of_check _ _ _ 14 _ _ EthSizeChk.dataset_14⟩, ⟨rfl, good_of_check _ _ _ 15 _ _ EthSizeChk.dataset_15⟩, ⟨rfl, good_of_check _ _ _ 16 _ _ EthSizeChk.dataset_16⟩, ⟨rfl, good_of_check _ _ _ 17 _ _ EthSizeChk.dataset_17⟩, ⟨rfl, good_of_check _ _ _ 18 _ _ EthSizeChk.dataset_18⟩, ⟨rfl, good_of_check _ _ _ 19 _ _ EthSizeChk.dataset_19⟩, ⟨rfl, good_of_check _ _ _ 20 _ _ EthSizeChk.dataset_20⟩, ⟨rfl, good_of_check _ _ _ 21 _ _ EthSizeChk.dataset_21⟩, ⟨rfl, good_of_check _ _ _ 22 _ _ EthSizeChk.dataset_22⟩, ⟨rfl, good_of_check _ _ _ 23 _ _ EthSizeChk.dataset_23⟩, ⟨rfl, good_of_check _ _ _ 24 _ _ EthSizeChk.dataset_24⟩, ⟨rfl, good_of_check _ _ _ 25 _ _ EthSizeChk.dataset_25⟩, ⟨rfl, good_of_check _ _ _ 26 _ _ EthSizeChk.dataset_26⟩, ⟨rfl, good_of_check _ _ _ 27 _ _ EthSizeChk.dataset_27⟩, ⟨rfl, good_of_check _ _ _ 28 _ _ EthSizeChk.dataset_28⟩, ⟨rfl, good_of_check _ _ _ 29 _ _ EthSizeChk.dataset_29⟩, ⟨rfl, good_of_check _ _ _ 30 _ _ EthSizeChk.dataset_30⟩, ⟨rfl, good_of_check _ _ _ 31 _ _ EthSizeChk.dataset_31⟩, trivial⟩

theorem cache_allGood : AllGood 16777216 131072 64 0 cacheChunks := by
  unfold cacheChunks
  simp only [AllGood]
  exact ⟨⟨rfl, good_of_check _ _ _ 0 _ _ EthSizeChk.cache_0⟩, ⟨rfl, good_of_check _ _ _ 1 _ _ EthSizeChk.cache_1⟩, ⟨rfl, good_of_check _ _ _ 2 _ _ EthSizeChk.cache_2⟩, ⟨rfl, good_of_check _ _ _ 3 _ _ EthSizeChk.cache_3⟩, ⟨rfl, good_of_check _ _ _ 4 _ _ EthSizeChk.cache_4⟩, ⟨rfl, good_of_check _ _ _ 5 _ _ EthSizeChk.cache_5⟩, ⟨rfl, good_of_check _ _ _ 6 _ _ EthSizeChk.cache_6⟩, ⟨rfl, good_of_check _ _ _ 7 _ _ EthSizeChk.cache_7⟩, ⟨rfl, good_of_check _ _ _ 8 _ _ EthSizeChk.cache_8⟩, ⟨rfl, good_of_check _ _ _ 9 _ _ EthSizeChk.cache_9⟩, ⟨rfl, good_of_check _ _ _ 10 _ _ EthSizeChk.cache_10⟩, ⟨rfl, good_of_check _ _ _ 11 _ _ EthSizeChk.cache_11⟩, ⟨rfl, good_of_check _ _ _ 12 _ _ EthSizeChk.cache_12⟩, ⟨rfl, good_of_check _ _ _ 13 _ _ EthSizeChk.cache_13⟩, ⟨rfl, good_of_check _ _ _ 14 _ _ EthSizeChk.cache_14⟩, ⟨rfl, good_of_check _ _ _ 15 _ _ EthSizeChk.cache_15⟩, ⟨rfl, good_of_check _ _ _ 16 _ _ EthSizeChk.cache_16⟩, ⟨rfl, good_of_check _ _ _ 17 _ _ EthSizeChk.cache_17⟩, ⟨rfl, good_of_check _ _ _ 18 _ _ EthSizeChk.cache_18⟩, ⟨rfl, good_of_check _ _ _ 19 _ _ EthSizeChk.cache_19⟩, ⟨rfl, good_of_check _ _ _ 20 _ _ EthSizeChk.cache_20⟩, ⟨rfl, good_of_check _ _ _ 21 _ _ EthSizeChk.cache_21⟩, ⟨rfl, good_of_check _ _ _ 22 _ _ EthSizeChk.cache_22⟩, ⟨rfl, good_of_check _ _ _ 23 _ _ EthSizeChk.cache_23⟩, ⟨rfl, good_of_check _ _ _ 24 _ _ EthSizeChk.cache_24⟩, ⟨rfl, good_of_check _ _ _ 25 _ _ EthSizeChk.cache_25⟩, ⟨rfl, good_of_check _ _ _ 26 _ _ EthSizeChk.cache_26⟩, ⟨rfl, good_of_check _ _ _ 27 _ _ EthSizeChk.cache_27⟩, ⟨rfl, good_of_check _ _ _ 28 _ _ EthSizeChk.cache_28⟩, ⟨rfl, good_of_check _ _ _ 29 _ _ EthSizeChk.cache_29⟩, ⟨rfl, good_of_check _ _ _ 30 _ _ EthSizeChk.cache_30⟩, ⟨rfl, good_of_check _ _ _ 31 _ _ EthSizeChk.cache_31⟩, trivial⟩

/-- Every entry of the dataset-size table is the size the search loop computes for its epoch. -/
theorem datasetTable_eq_calc (epoch v : Nat) (h : EthConsts.datasetSizes[epoch]? = some v) : calcDatasetSize epoch = some v := by
  rw [datasetSizes_eq, List.getElem?_toArray] at h
  have hlt : epoch < 2048 := by
    rcases Nat.lt_or_ge epoch 2048 with hl | hg
    · exact hl
    · have : datasetChunks.flatten.length = 2048 := by decide +kernel
      rw [List.getElem?_eq_none (by omega)] at h; cases h
  have he : epoch = 64 * (epoch / 64) + epoch % 64 := by omega
  rw [he] at h
  have := allGood_get _ _ _ datasetChunks 0 dataset_allGood (epoch / 64) (epoch % 64) (by omega) v h
    (by have : datasetChunks.length = 32 := rfl; omega)
  simp only [Nat.zero_add] at this
  rw [← he] at this
  exact this

/-- Every entry of the cache-size table is the size the search loop computes for its epoch. -/
theorem cacheTable_eq_calc (epoch v : Nat) (h : EthConsts.cacheSizes[epoch]? = some v) : calcCacheSize epoch = some v := by
  rw [cacheSizes_eq, List.getElem?_toArray] at h
  have hlt : epoch < 2048 := by
    rcases Nat.lt_or_ge epoch 2048 with hl | hg
    · exact hl
    · have : cacheChunks.flatten.length = 2048 := by decide +kernel
      rw [List.getElem?_eq_none (by omega)] at h; cases h
  have he : epoch = 64 * (epoch / 64) + epoch % 64 := by omega
  rw [he] at h
  have := allGood_get _ _ _ cacheChunks 0 cache_allGood (epoch / 64) (epoch % 64) (by omega) v h
    (by have : cacheChunks.length = 32 := rfl; omega)
  simp only [Nat.zero_add] at this
  rw [← he] at this
  exact this

end Poly.Proofs.EthSizeTables
