import Poly.Proofs.KVIter
/- `util.BytesPrefix` bounds exactly the keys with the given prefix; Seek; Len/Size accounting. -/
namespace Poly.Model.KV

theorem ltB_cons (a b : UInt8) (s t : Key) :
    ltB (a :: s) (b :: t) = if a < b then true else if b < a then false else ltB s t := by
  simp only [ltB, cmpB]
  split
  · rfl
  · split <;> rfl

theorem u8_succ_facts {c d : UInt8} (hc : c < 0xff) : c < c + 1 ∧ (c < d → ¬ d < c + 1) := by
  have h255 : (0xff : UInt8).toNat = 255 := rfl
  rw [UInt8.lt_iff_toNat_lt, h255] at hc
  have h1 : (1 : UInt8).toNat = 1 := rfl
  have : (c + 1).toNat = c.toNat + 1 := by rw [UInt8.toNat_add, h1]; omega
  constructor
  · rw [UInt8.lt_iff_toNat_lt, this]; omega
  · rw [UInt8.lt_iff_toNat_lt, UInt8.lt_iff_toNat_lt, this]; omega

theorem u8_max {c d : UInt8} (hc : ¬ c < 0xff) : ¬ c < d := by
  have h255 : (0xff : UInt8).toNat = 255 := rfl
  rw [UInt8.lt_iff_toNat_lt, h255] at hc
  rw [UInt8.lt_iff_toNat_lt]
  have := d.toNat_lt
  omega

theorem bytesPrefix_contains (p k : Key) : (bytesPrefix p).contains k = true ↔ p <+: k := by
  induction p generalizing k with
  | nil => simp [bytesPrefix, Range.contains, prefixLimit, nil_not_gt]
  | cons c r ih =>
    cases k with
    | nil => simp [bytesPrefix, Range.contains, ltB, cmpB]
    | cons d t =>
      have ih' := ih t
      simp only [bytesPrefix, Range.contains, prefixLimit] at ih' ⊢
      rw [List.cons_prefix_cons]
      by_cases hdc : d < c
      · have : c ≠ d := by rintro rfl; exact u8_lt_irrefl _ hdc
        simp [ltB_cons, hdc, this]
      · by_cases hcd : c < d
        · have hne : c ≠ d := by rintro rfl; exact u8_lt_irrefl _ hcd
          simp only [ltB_cons, hdc, hcd, if_false, if_true, Bool.not_false, Bool.true_and, hne, false_and, iff_false]
          cases hl : prefixLimit r with
          | some l => simp [ltB_cons, hdc, hcd]
          | none =>
            by_cases hff : c < 0xff
            · have := (u8_succ_facts (d := d) hff).2 hcd
              simp only [hff, if_true, ltB_cons, this, if_false]
              split
              · simp
              · simp [nil_not_gt]
            · exact absurd hcd (u8_max hff)
        · have hcd' := u8_eq_of_not_lt hcd hdc
          subst hcd'
          simp only [ltB_cons, hdc, if_false, true_and]
          rw [← ih']
          cases hl : prefixLimit r with
          | some l => simp [ltB_cons, hdc]
          | none =>
            by_cases hff : c < 0xff
            · simp [hff, ltB_cons, (u8_succ_facts (d := c) hff).1]
            · simp [hff]

theorem ltB_false_trans {a b c : Key} (h1 : ltB a b = false) (h2 : ltB b c = false) : ltB a c = false := by
  cases h : ltB a c with
  | false => rfl
  | true =>
    have := ltB_of_not_lt_of_lt h1 h   -- b < c
    rw [this] at h2; cases h2

/-! ### Seek -/

theorem seek_fwd (s : Option Range) (k : Key) {m : Entries} (hs : Sorted m) :
    FwdAt m ((Iter.new s).seek m k).1 (m.filter (fun e => !(ltB e.1 k) && inSlice s e.1)) ∧
    ((Iter.new s).seek m k).2 = !(m.filter (fun e => !(ltB e.1 k) && inSlice s e.1)).isEmpty := by
  -- the effective seek key
  let key' : Key := match startOf s with
    | some st => if ltB k st then st else k
    | none => k
  have hpred : ∀ e : Key × Val, (!(ltB e.1 k) && inSlice s e.1) =
      (aboveStart (some key') e && belowLimit (limitOf s) e) := by
    intro e
    rw [inSlice_eq, ← Bool.and_assoc]
    congr 1
    show _ = !(ltB e.1 key')
    cases hst : startOf s with
    | none => simp [key', hst, aboveStart]
    | some st =>
      simp only [key', hst, aboveStart]
      cases hk : ltB k st with
      | true =>
        simp only [if_true]
        cases he : ltB e.1 st with
        | true => simp
        | false =>
          have : ltB e.1 k = false := ltB_asymm (ltB_of_lt_of_not_lt hk he)
          simp [this]
      | false =>
        simp only [Bool.false_eq_true, if_false]
        cases he : ltB e.1 k with
        | true => simp
        | false => simp [ltB_false_trans he hk]
  have hfil : m.filter (fun e => !(ltB e.1 k) && inSlice s e.1) =
      (m.dropWhile (fun e => ltB e.1 key')).takeWhile (belowLimit (limitOf s)) := by
    have := range_as_take_drop (some key') (limitOf s) hs
    simp only [aboveStart, Bool.not_not] at this
    rw [this]; congr 1; funext e; rw [hpred e]; rfl
  have hlim : ({ (Iter.new s) with forward := true } : Iter).limitKey = limitOf s := by cases s <;> rfl
  have hseek : (Iter.new s).seek m k =
      ({ (Iter.new s) with forward := true } : Iter).fill (m.dropWhile (fun e => ltB e.1 key')).head? false true := by
    rw [← findGE_eq]
    cases s with
    | none => rfl
    | some r => cases r with | mk st lim => cases st <;> rfl
  have := fill_fwd m ({ (Iter.new s) with forward := true } : Iter) (m.takeWhile (fun e => ltB e.1 key'))
    (m.dropWhile (fun e => ltB e.1 key')) (by rw [List.takeWhile_append_dropWhile]) rfl rfl
  rw [hlim] at this
  rw [hseek, hfil]
  exact this

/-! ### Len / Size accounting -/

def kvBytes : Entries → Nat
  | [] => 0
  | e :: r => e.1.length + e.2.length + kvBytes r

theorem insert_measure (k : Key) (v : Val) (m : Entries) :
    match lookup k m with
    | some old => (insert k v m).length = m.length ∧ kvBytes (insert k v m) + old.length = kvBytes m + v.length
    | none => (insert k v m).length = m.length + 1 ∧ kvBytes (insert k v m) = kvBytes m + k.length + v.length := by
  induction m with
  | nil => simp [lookup, insert, kvBytes]
  | cons e r ih =>
    obtain ⟨k', v'⟩ := e
    simp only [lookup, insert]
    cases hc : cmpB k k' with
    | lt => simp [kvBytes]; omega
    | eq => simp [kvBytes]; omega
    | gt =>
      simp only
      cases hl : lookup k r with
      | none => rw [hl] at ih; simp [kvBytes, ih]; omega
      | some old => rw [hl] at ih; simp [kvBytes, ih]; omega

/-- Well-formed buffer: keys strictly increasing and the two counters agree with the contents. -/
structure MemDB.WF (p : MemDB) : Prop where
  sorted : Sorted p.ents
  len : p.n = p.ents.length
  size : p.kvSize = (kvBytes p.ents : Int)

theorem MemDB.WF.empty : MemDB.WF {} := ⟨Sorted.nil, rfl, rfl⟩

theorem MemDB.WF.put {p : MemDB} (h : p.WF) (k : Key) (v : Val) : (p.put k v).WF := by
  have hm := insert_measure k v p.ents
  unfold MemDB.put
  cases hl : lookup k p.ents with
  | none =>
    rw [hl] at hm
    exact ⟨insert_sorted h.sorted, by simp [h.len, hm.1], by simp [h.size, hm.2]; omega⟩
  | some old =>
    rw [hl] at hm
    refine ⟨insert_sorted h.sorted, by simp [h.len, hm.1], ?_⟩
    simp only [h.size]
    have := hm.2
    omega

theorem MemDB.WF.ext {p q : MemDB} (hp : p.WF) (hq : q.WF) (h : p.ents = q.ents) : p = q := by
  cases p; cases q
  simp only at h
  subst h
  have h1 := hp.len; have h2 := hq.len; have h3 := hp.size; have h4 := hq.size
  simp only at h1 h2 h3 h4
  simp [h1, h2, h3, h4]

end Poly.Model.KV
