import Poly.Model.Sig
/-!
Helper lemmas for C39 (transaction signature validation). Core only.
-/
namespace Poly.Proofs.Sig
open Poly.Model.Sig

section
variable {K S A : Type} (wf : S → Bool) (verify : K → S → Bool)

theorem findKey_some (keys : List K) (used : List Nat) (s : S) (j p : Nat)
    (h : findKey verify keys used s j = some p) :
    j ≤ p ∧ p ∉ used ∧ (∃ hp : p < keys.length, verify keys[p] s = true) ∧
      ∀ q, j ≤ q → q < p → q ∈ used ∨ ∃ hq : q < keys.length, verify keys[q] s = false := by
  fun_induction findKey verify keys used s j
  case case1 j hj hu ih =>
    obtain ⟨a, b, c, d⟩ := ih h
    refine ⟨by omega, b, c, ?_⟩
    intro q hq1 hq2
    rcases Nat.eq_or_lt_of_le hq1 with e | e
    · subst e; left; simpa using hu
    · exact d q (by omega) hq2
  case case2 j hj hu hv =>
    simp only [Option.some.injEq] at h; subst h
    refine ⟨Nat.le_refl _, by simpa using hu, ⟨hj, hv⟩, ?_⟩
    intro q h1 h2; omega
  case case3 j hj hu hv ih =>
    obtain ⟨a, b, c, d⟩ := ih h
    refine ⟨by omega, b, c, ?_⟩
    intro q hq1 hq2
    rcases Nat.eq_or_lt_of_le hq1 with e | e
    · subst e; right; exact ⟨hj, by simpa using hv⟩
    · exact d q (by omega) hq2
  case case4 => simp at h

theorem findKey_none (keys : List K) (used : List Nat) (s : S) (j : Nat)
    (h : findKey verify keys used s j = none) :
    ∀ q, j ≤ q → (hq : q < keys.length) → q ∈ used ∨ verify keys[q] s = false := by
  fun_induction findKey verify keys used s j
  case case1 j hj hu ih =>
    intro q hq1 hq
    rcases Nat.eq_or_lt_of_le hq1 with e | e
    · subst e; left; simpa using hu
    · exact ih h q (by omega) hq
  case case2 => simp at h
  case case3 j hj hu hv ih =>
    intro q hq1 hq
    rcases Nat.eq_or_lt_of_le hq1 with e | e
    · subst e; right; simpa using hv
    · exact ih h q (by omega) hq
  case case4 j hj => intro q h1 h2; omega

/-- `ps` assigns to each signature of `ss` (in order) a key position under which it is well formed and verifies. -/
def Assigns (keys : List K) (ps : List Nat) (ss : List S) : Prop :=
  ps.length = ss.length ∧ ∀ x ∈ ps.zip ss, ∃ k, keys[x.1]? = some k ∧ wf x.2 = true ∧ verify k x.2 = true

theorem multiLoop_sound (keys : List K) (ss : List S) (used ps : List Nat)
    (h : multiLoop wf verify keys ss used = .ok ps) :
    Assigns wf verify keys ps ss ∧ ps.Nodup ∧ ∀ p ∈ ps, p ∉ used := by
  induction ss generalizing used ps with
  | nil => simp [multiLoop] at h; subst h; simp [Assigns]
  | cons s rest ih =>
    unfold multiLoop at h
    split at h; · simp at h
    rename_i hwf
    split at h; · simp at h
    rename_i j hj
    split at h
    · rename_i ps' hps
      simp only [Except.ok.injEq] at h; subst h
      obtain ⟨⟨hl, ha⟩, hn, hd⟩ := ih _ _ hps
      obtain ⟨_, hju, ⟨hjl, hjv⟩, _⟩ := findKey_some verify keys used s 0 j hj
      refine ⟨⟨by simp [hl], ?_⟩, ?_, ?_⟩
      · intro x hx
        simp only [List.zip_cons_cons, List.mem_cons] at hx
        rcases hx with rfl | hx
        · exact ⟨keys[j], List.getElem?_eq_getElem hjl, by simpa using hwf, hjv⟩
        · exact ha x hx
      · refine List.nodup_cons.mpr ⟨?_, hn⟩
        intro hm; exact hd j hm (List.mem_cons_self)
      · intro p hp
        rcases List.mem_cons.mp hp with rfl | hp
        · exact hju
        · intro hu; exact hd p hp (List.mem_cons_of_mem _ hu)
    · simp at h

/-- Completeness of the greedy matching when every signature of `ss` verifies under at most one key position. -/
theorem multiLoop_complete (keys : List K) (ss : List S) (used ps : List Nat)
    (ha : Assigns wf verify keys ps ss) (hn : ps.Nodup) (hd : ∀ p ∈ ps, p ∉ used)
    (huniq : ∀ x ∈ ps.zip ss, ∀ q (hq : q < keys.length), verify keys[q] x.2 = true → q = x.1) :
    multiLoop wf verify keys ss used = .ok ps := by
  induction ss generalizing used ps with
  | nil =>
    obtain ⟨hl, _⟩ := ha
    have : ps = [] := List.length_eq_zero_iff.mp (by simpa using hl)
    subst this; simp [multiLoop]
  | cons s rest ih =>
    obtain ⟨hl, hv⟩ := ha
    cases ps with
    | nil => simp at hl
    | cons p ps' =>
      obtain ⟨k, hk, hwf, hver⟩ := hv (p, s) (by simp)
      have hpl : p < keys.length := by
        rcases Nat.lt_or_ge p keys.length with h | h
        · exact h
        · rw [List.getElem?_eq_none h] at hk; simp at hk
      rw [List.getElem?_eq_getElem hpl] at hk
      simp only [Option.some.injEq] at hk
      have hpu : p ∉ used := hd p (List.mem_cons_self)
      unfold multiLoop
      simp only [hwf, Bool.not_true, Bool.false_eq_true, if_false]
      have hfind : findKey verify keys used s 0 = some p := by
        cases hf : findKey verify keys used s 0 with
        | none =>
          have := findKey_none verify keys used s 0 hf p (Nat.zero_le _) hpl
          rcases this with h | h
          · exact absurd h hpu
          · rw [hk, hver] at h; simp at h
        | some j =>
          obtain ⟨_, _, ⟨hjl, hjv⟩, _⟩ := findKey_some verify keys used s 0 j hf
          have := huniq (p, s) (by simp) j hjl hjv
          simp only at this; rw [this]
      rw [hfind]
      simp only
      have hn' := List.nodup_cons.mp hn
      have := ih (p :: used) ps' ⟨by simpa using hl, fun x hx => hv x (by simp [hx])⟩ hn'.2
        (by
          intro q hq hqu
          rcases List.mem_cons.mp hqu with rfl | hqu
          · exact hn'.1 hq
          · exact hd q (List.mem_cons_of_mem _ hq) hqu)
        (fun x hx => huniq x (by simp [hx]))
      rw [this]

end
section
variable {K S A : Type} (wf : S → Bool) (verify : K → S → Bool) (addr1 : K → A) (addrM : List K → Nat → A)

/-- The property's notion of a valid signature entry. -/
def EntryOK (e : Entry K S) : Prop :=
  e.keys.length ≤ MULTI_SIG_MAX_PUBKEY_SIZE ∧ 1 ≤ e.m ∧ e.m ≤ e.keys.length ∧ e.m ≤ e.sigs.length ∧
    ((∃ k s rest, e.keys = [k] ∧ e.sigs = s :: rest ∧ wf s = true ∧ verify k s = true) ∨
     (e.keys.length ≠ 1 ∧ ∃ ps : List Nat, ps.Nodup ∧ Assigns wf verify e.keys ps (e.sigs.take e.m)))

/-- The address attributed to an entry. -/
def entryAddr (e : Entry K S) : A :=
  match e.keys with
  | [k] => addr1 k
  | keys => addrM keys e.m

/-- Each of the first m signatures verifies under at most one listed key position. -/
def Uniq (e : Entry K S) : Prop :=
  ∀ s ∈ e.sigs.take e.m, ∀ q q' (hq : q < e.keys.length) (hq' : q' < e.keys.length),
    verify e.keys[q] s = true → verify e.keys[q'] s = true → q = q'

theorem checkEntry_sound (e : Entry K S) (a : A) (h : checkEntry wf verify addr1 addrM e = .ok a) :
    EntryOK wf verify e ∧ a = entryAddr addr1 addrM e := by
  unfold checkEntry at h
  simp only at h
  split at h; · simp at h
  rename_i hp
  simp only [Bool.or_eq_true, decide_eq_true_eq, beq_iff_eq, not_or, Nat.not_lt] at hp
  obtain ⟨⟨⟨h1, h2⟩, h3⟩, h4⟩ := hp
  have hm : 1 ≤ e.m := by omega
  split at h
  · rename_i k s rest hk hs
    split at h
    · rename_i hv
      simp only [Bool.and_eq_true] at hv
      simp only [Except.ok.injEq] at h
      refine ⟨⟨h1, hm, h3, h2, Or.inl ⟨k, s, rest, hk, hs, hv.1, hv.2⟩⟩, ?_⟩
      simp [entryAddr, hk, h]
    · simp at h
  · simp at h
  · rename_i keys sigs hne1 hne2
    split at h; · simp at h
    rename_i ps hps
    simp only [Except.ok.injEq] at h
    unfold verifyMultiSignature at hps
    split at hps; · simp at hps
    obtain ⟨hA, hN, _⟩ := multiLoop_sound wf verify _ _ _ _ hps
    have hlen : e.keys.length ≠ 1 := by
      intro hl
      match hk : e.keys, hl with
      | [k], _ =>
        cases hs : e.sigs with
        | nil => exact hne2 k hk hs
        | cons s rest => exact hne1 k s rest hk hs
    refine ⟨⟨h1, hm, h3, h2, Or.inr ⟨hlen, ps, hN, hA⟩⟩, ?_⟩
    unfold entryAddr
    split
    · rename_i k hk; simp [hk] at hlen
    · exact h.symm

theorem checkEntry_complete (e : Entry K S) (hok : EntryOK wf verify e) (hu : Uniq verify e) :
    checkEntry wf verify addr1 addrM e = .ok (entryAddr addr1 addrM e) := by
  obtain ⟨h1, hm, h3, h2, hcase⟩ := hok
  unfold checkEntry
  simp only
  have hp : (decide (e.keys.length > MULTI_SIG_MAX_PUBKEY_SIZE) || decide (e.sigs.length < e.m) || decide (e.m > e.keys.length) || e.m == 0) = false := by
    simp only [Bool.or_eq_false_iff, decide_eq_false_iff_not, beq_eq_false_iff_ne]
    omega
  rw [hp]
  simp only [Bool.false_eq_true, if_false]
  rcases hcase with ⟨k, s, rest, hk, hs, hw, hv⟩ | ⟨hlen, ps, hN, hA⟩
  · rw [hk, hs]
    simp [hw, hv, entryAddr, hk]
  · split
    · rename_i k s rest hk hs; simp [hk] at hlen
    · rename_i k hk hs; simp [hk] at hlen
    · have hvm : verifyMultiSignature wf verify e.keys e.m e.sigs = .ok ps := by
        unfold verifyMultiSignature
        rw [if_neg (by omega)]
        apply multiLoop_complete wf verify _ _ _ _ hA hN (by simp)
        intro x hx q hq hv
        obtain ⟨k, hk, _, hkv⟩ := hA.2 x hx
        have hxl : x.1 < e.keys.length := by
          rcases Nat.lt_or_ge x.1 e.keys.length with h | h
          · exact h
          · rw [List.getElem?_eq_none h] at hk; simp at hk
        rw [List.getElem?_eq_getElem hxl] at hk
        simp only [Option.some.injEq] at hk
        have hmem : x.2 ∈ e.sigs.take e.m := (List.of_mem_zip hx).2
        exact hu x.2 hmem q x.1 hq hxl hv (by rw [hk]; exact hkv)
      rw [hvm]
      simp only
      unfold entryAddr
      split
      · rename_i k hk; simp [hk] at hlen
      · rfl

theorem checkEntries_sound (es : List (Entry K S)) (as : List A)
    (h : checkEntries wf verify addr1 addrM es = .ok as) :
    (∀ e ∈ es, EntryOK wf verify e) ∧ as = es.map (entryAddr addr1 addrM) := by
  induction es generalizing as with
  | nil => simp [checkEntries] at h; subst h; simp
  | cons e rest ih =>
    unfold checkEntries at h
    split at h; · simp at h
    rename_i a ha
    split at h; · simp at h
    rename_i as' has
    simp only [Except.ok.injEq] at h; subst h
    obtain ⟨h1, h2⟩ := checkEntry_sound wf verify addr1 addrM e a ha
    obtain ⟨i1, i2⟩ := ih as' has
    refine ⟨?_, by simp [h2, i2]⟩
    intro x hx
    rcases List.mem_cons.mp hx with rfl | hx
    · exact h1
    · exact i1 x hx

theorem checkEntries_complete (es : List (Entry K S))
    (h : ∀ e ∈ es, EntryOK wf verify e ∧ Uniq verify e) :
    checkEntries wf verify addr1 addrM es = .ok (es.map (entryAddr addr1 addrM)) := by
  induction es with
  | nil => simp [checkEntries]
  | cons e rest ih =>
    unfold checkEntries
    rw [checkEntry_complete wf verify addr1 addrM e (h e (by simp)).1 (h e (by simp)).2]
    simp only
    rw [ih (fun x hx => h x (by simp [hx]))]
    simp

theorem mem_dedup [DecidableEq A] (l : List A) (a : A) : a ∈ dedup l ↔ a ∈ l := by
  induction l with
  | nil => simp [dedup]
  | cons x r ih =>
    unfold dedup
    split
    · rename_i hx
      rw [ih]; constructor
      · intro h; exact List.mem_cons_of_mem _ h
      · intro h; rcases List.mem_cons.mp h with rfl | h
        · exact hx
        · exact h
    · simp [ih]

theorem nodup_dedup [DecidableEq A] (l : List A) : (dedup l).Nodup := by
  induction l with
  | nil => simp [dedup]
  | cons x r ih =>
    unfold dedup
    split
    · exact ih
    · rename_i hx
      exact List.nodup_cons.mpr ⟨fun h => hx ((mem_dedup r x).mp h), ih⟩
end

section
variable {K S : Type} (wf : S → Bool) (verify : K → S → Bool)

/-- replace position `j` by `p` in an assignment -/
def swapPos (j p : Nat) (ps : List Nat) : List Nat := ps.map fun x => if x = j then p else x

theorem swapPos_nodup (j p : Nat) (ps : List Nat) (hn : ps.Nodup) (hp : p ∉ ps) : (swapPos j p ps).Nodup := by
  induction ps with
  | nil => simp [swapPos]
  | cons x r ih =>
    have hx := List.nodup_cons.mp hn
    have hpr : p ∉ r := fun h => hp (List.mem_cons_of_mem _ h)
    have hpx : p ≠ x := fun h => hp (h ▸ List.mem_cons_self)
    simp only [swapPos, List.map_cons]
    refine List.nodup_cons.mpr ⟨?_, ih hx.2 hpr⟩
    intro hm
    obtain ⟨y, hy, hye⟩ := List.mem_map.mp hm
    by_cases hxj : x = j
    · simp only [hxj, if_true] at hye
      by_cases hyj : y = j
      · exact hx.1 (hxj ▸ hyj ▸ hy)
      · simp only [hyj, if_false] at hye; exact hpr (hye ▸ hy)
    · simp only [hxj, if_false] at hye
      by_cases hyj : y = j
      · simp only [hyj, if_true] at hye; exact hpx hye
      · simp only [hyj, if_false] at hye; exact hx.1 (hye ▸ hy)

theorem swapPos_mem (j p : Nat) (ps : List Nat) (x : Nat) (h : x ∈ swapPos j p ps) : x = p ∨ (x ∈ ps ∧ x ≠ j) := by
  obtain ⟨y, hy, hye⟩ := List.mem_map.mp h
  by_cases hyj : y = j
  · simp only [hyj, if_true] at hye; exact Or.inl hye.symm
  · simp only [hyj, if_false] at hye; exact Or.inr ⟨hye ▸ hy, hye ▸ hyj⟩

/-- Completeness of the greedy matching when a signature never verifies under two different listed keys
    (it may verify under several positions that list the same key). -/
theorem multiLoop_complete' [DecidableEq K] (keys : List K) (ss : List S) (used ps : List Nat)
    (ha : Assigns wf verify keys ps ss) (hn : ps.Nodup) (hd : ∀ p ∈ ps, p ∉ used)
    (huniq : ∀ s ∈ ss, ∀ q q' (hq : q < keys.length) (hq' : q' < keys.length),
      verify keys[q] s = true → verify keys[q'] s = true → keys[q] = keys[q']) :
    ∃ ps', multiLoop wf verify keys ss used = .ok ps' := by
  induction ss generalizing used ps with
  | nil => exact ⟨[], by simp [multiLoop]⟩
  | cons s rest ih =>
    obtain ⟨hl, hv⟩ := ha
    cases ps with
    | nil => simp at hl
    | cons p ps' =>
      obtain ⟨k, hk, hwf, hver⟩ := hv (p, s) (by simp)
      have hpl : p < keys.length := by
        rcases Nat.lt_or_ge p keys.length with h | h
        · exact h
        · rw [List.getElem?_eq_none h] at hk; simp at hk
      rw [List.getElem?_eq_getElem hpl] at hk
      simp only [Option.some.injEq] at hk
      have hn' := List.nodup_cons.mp hn
      have hpu : p ∉ used := hd p List.mem_cons_self
      unfold multiLoop
      simp only [hwf, Bool.not_true, Bool.false_eq_true, if_false]
      cases hf : findKey verify keys used s 0 with
      | none =>
        have := findKey_none verify keys used s 0 hf p (Nat.zero_le _) hpl
        rcases this with h | h
        · exact absurd h hpu
        · rw [hk, hver] at h; simp at h
      | some j =>
        obtain ⟨_, hju, ⟨hjl, hjv⟩, _⟩ := findKey_some verify keys used s 0 j hf
        have hkey : keys[j] = keys[p] := huniq s List.mem_cons_self j p hjl hpl hjv (by rw [hk]; exact hver)
        simp only
        -- an assignment for the remaining signatures that avoids j
        have hex : ∃ qs, Assigns wf verify keys qs rest ∧ qs.Nodup ∧ ∀ q ∈ qs, q ∉ j :: used := by
          refine ⟨swapPos j p ps', ⟨by simpa [swapPos] using hl, ?_⟩, swapPos_nodup j p ps' hn'.2 hn'.1, ?_⟩
          · intro x hx
            -- x = (f y, t) for (y, t) in ps'.zip rest
            have hzip : swapPos j p ps' = ps'.map fun x => if x = j then p else x := rfl
            rw [hzip, List.zip_map_left] at hx
            obtain ⟨⟨y, t⟩, hyt, rfl⟩ := List.mem_map.mp hx
            obtain ⟨k', hk', hw', hv'⟩ := hv (y, t) (by simp [hyt])
            by_cases hyj : y = j
            · simp only [Prod.map_fst, Prod.map_snd, hyj, if_true, id_eq]
              refine ⟨keys[p], List.getElem?_eq_getElem hpl, hw', ?_⟩
              simp only at hk'
              rw [hyj, List.getElem?_eq_getElem hjl] at hk'
              simp only [Option.some.injEq] at hk'
              rw [← hkey, hk']; exact hv'
            · simp only [Prod.map_fst, Prod.map_snd, hyj, if_false, id_eq]
              exact ⟨k', hk', hw', hv'⟩
          · intro q hq hqu
            rcases swapPos_mem j p ps' q hq with rfl | ⟨hq1, hq2⟩
            · rcases List.mem_cons.mp hqu with h | h
              · -- p = j: then j's slot — fine only if p = j, but then p ∈ j :: used is allowed? no: show contradiction
                subst h
                -- q = j = p: swapPos yields p only when some y = j ∈ ps', i.e. p ∈ ps': contradiction
                obtain ⟨y, hy, hye⟩ := List.mem_map.mp hq
                by_cases hyj : y = q
                · exact hn'.1 (hyj ▸ hy)
                · simp only [hyj, if_false] at hye
              · exact hpu h
            · rcases List.mem_cons.mp hqu with h | h
              · exact hq2 h
              · exact hd q (List.mem_cons_of_mem _ hq1) h
        obtain ⟨qs, hqa, hqn, hqd⟩ := hex
        obtain ⟨ps'', hps''⟩ := ih (j :: used) qs hqa hqn hqd
          (fun t ht => huniq t (List.mem_cons_of_mem _ ht))
        exact ⟨j :: ps'', by rw [hps'']⟩

variable {A : Type} (addr1 : K → A) (addrM : List K → Nat → A)

/-- Each of the first m signatures verifies under at most one distinct listed key. -/
def UniqKey [DecidableEq K] (e : Entry K S) : Prop :=
  ∀ s ∈ e.sigs.take e.m, ∀ q q' (hq : q < e.keys.length) (hq' : q' < e.keys.length),
    verify e.keys[q] s = true → verify e.keys[q'] s = true → e.keys[q] = e.keys[q']

theorem checkEntry_complete' [DecidableEq K] (e : Entry K S) (hok : EntryOK wf verify e) (hu : UniqKey verify e) :
    checkEntry wf verify addr1 addrM e = .ok (entryAddr addr1 addrM e) := by
  obtain ⟨h1, hm, h3, h2, hcase⟩ := hok
  unfold checkEntry
  simp only
  have hp : (decide (e.keys.length > MULTI_SIG_MAX_PUBKEY_SIZE) || decide (e.sigs.length < e.m) || decide (e.m > e.keys.length) || e.m == 0) = false := by
    simp only [Bool.or_eq_false_iff, decide_eq_false_iff_not, beq_eq_false_iff_ne]
    omega
  rw [hp]
  simp only [Bool.false_eq_true, if_false]
  rcases hcase with ⟨k, s, rest, hk, hs, hw, hv⟩ | ⟨hlen, ps, hN, hA⟩
  · rw [hk, hs]
    simp [hw, hv, entryAddr, hk]
  · split
    · rename_i k s rest hk hs; simp [hk] at hlen
    · rename_i k hk hs; simp [hk] at hlen
    · obtain ⟨ps', hps'⟩ := multiLoop_complete' wf verify e.keys (e.sigs.take e.m) [] ps hA hN (by simp) hu
      have hvm : verifyMultiSignature wf verify e.keys e.m e.sigs = .ok ps' := by
        unfold verifyMultiSignature
        rw [if_neg (by omega)]; exact hps'
      rw [hvm]
      simp only
      unfold entryAddr
      split
      · rename_i k hk; simp [hk] at hlen
      · rfl

theorem checkEntries_complete' [DecidableEq K] (es : List (Entry K S))
    (h : ∀ e ∈ es, EntryOK wf verify e ∧ UniqKey verify e) :
    checkEntries wf verify addr1 addrM es = .ok (es.map (entryAddr addr1 addrM)) := by
  induction es with
  | nil => simp [checkEntries]
  | cons e rest ih =>
    unfold checkEntries
    rw [checkEntry_complete' wf verify addr1 addrM e (h e (by simp)).1 (h e (by simp)).2]
    simp only
    rw [ih (fun x hx => h x (by simp [hx]))]
    simp
end

end Poly.Proofs.Sig
