import Poly.Model.NativeCallGraph
namespace Poly.Model.CallGraph

theorem closedFrom_spec (c : Nat) : ∀ (rows : List (List Nat)) (i : Nat), closedFrom c i rows = true →
    ∀ k r, rows[k]? = some r → c.testBit (i + k) = true → ∀ b ∈ r, c.testBit b = true := by
  intro rows
  induction rows with
  | nil => intro i _ k r h; simp at h
  | cons row rest ih =>
    intro i h k r hk hbit b hb
    simp only [closedFrom, Bool.and_eq_true, Bool.or_eq_true, Bool.not_eq_true'] at h
    cases k with
    | zero =>
      simp at hk; subst hk
      rcases h.1 with h1 | h1
      · simp at hbit; rw [hbit] at h1; cases h1
      · exact List.all_eq_true.mp h1 b hb
    | succ k =>
      simp at hk
      have : i + (k + 1) = (i + 1) + k := by omega
      rw [this] at hbit
      exact ih (i + 1) h.2 k r hk hbit b hb

/-- A closed mask that contains the entry points contains every reachable node. -/
theorem closed_sound (succ : List (List Nat)) (entries : List Nat) (c : Nat)
    (hc : closed succ c = true) (he : entriesIn entries c = true) :
    ∀ n, Reach succ entries n → c.testBit n = true := by
  intro n h
  induction h with
  | entry hm => exact List.all_eq_true.mp he _ hm
  | step _ hedge ih =>
    obtain ⟨r, hr, hb⟩ := hedge
    exact closedFrom_spec c succ 0 hc _ r hr (by simpa using ih) _ hb

theorem chain_reach (succ : List (List Nat)) (entries : List Nat) :
    ∀ (p : List Nat) (a : Nat), Reach succ entries a → chain succ (a :: p) = true →
      Reach succ entries ((a :: p).getLast (by simp)) := by
  intro p
  induction p with
  | nil => intro a h _; simpa using h
  | cons b r ih =>
    intro a h hc
    simp only [chain, Bool.and_eq_true] at hc
    have hedge : Edge succ a b := by
      cases hrow : succ[a]? with
      | none => rw [hrow] at hc; cases hc.1
      | some row =>
        rw [hrow] at hc
        exact ⟨row, hrow, by simpa using hc.1⟩
    have := ih b (Reach.step h hedge) hc.2
    simpa [List.getLast_cons] using this

/-- The last node of a valid path is reachable. -/
theorem validPath_reach (succ : List (List Nat)) (entries : List Nat) (p : List Nat) (hne : p ≠ [])
    (hv : validPath succ entries p = true) : Reach succ entries (p.getLast hne) := by
  cases p with
  | nil => exact absurd rfl hne
  | cons a r =>
    simp only [validPath, Bool.and_eq_true] at hv
    exact chain_reach succ entries r a (Reach.entry (by simpa using hv.1)) hv.2

theorem sinksKnown_sound (succ : List (List Nat)) (entries : List Nat) (c : Nat) (sites : List (Nat × String))
    (known : List String) (hc : closed succ c = true) (he : entriesIn entries c = true)
    (hk : sinksKnown sites c known = true) :
    ∀ s ∈ sites, Reach succ entries s.1 → s.2 ∈ known := by
  intro s hs hr
  have hbit := closed_sound succ entries c hc he s.1 hr
  have := List.all_eq_true.mp hk s hs
  simp only [hbit, Bool.not_true, Bool.false_or] at this
  simpa using this

theorem covered_sound (succ : List (List Nat)) (entries : List Nat) (sites : List (Nat × String))
    (paths : List (List Nat)) (keys : List String) (h : covered succ entries sites paths keys = true) :
    ∀ k ∈ keys, ∃ s ∈ sites, s.2 = k ∧ Reach succ entries s.1 := by
  intro k hk
  have h1 := List.all_eq_true.mp h k hk
  obtain ⟨p, _, hp2⟩ := List.any_eq_true.mp h1
  simp only [Bool.and_eq_true] at hp2
  obtain ⟨hv, hl⟩ := hp2
  cases hlast : p.getLast? with
  | none => rw [hlast] at hl; cases hl
  | some n =>
    rw [hlast] at hl
    have hne : p ≠ [] := by intro e; subst e; simp at hlast
    have hn : p.getLast hne = n := by
      have := List.getLast?_eq_some_getLast hne
      rw [hlast] at this; exact (Option.some.inj this).symm
    refine ⟨(n, k), by simpa using hl, rfl, ?_⟩
    have := validPath_reach succ entries p hne hv
    rw [hn] at this; exact this

theorem coveredZip_sound (succ : List (List Nat)) (entries : List Nat) (sites : List (Nat × String)) :
    ∀ (paths : List (List Nat)) (keys : List String), coveredZip succ entries sites paths keys = true →
      ∀ k ∈ keys, ∃ s ∈ sites, s.2 = k ∧ Reach succ entries s.1 := by
  intro paths
  induction paths with
  | nil =>
    intro keys h k hk
    cases keys with
    | nil => cases hk
    | cons _ _ => simp [coveredZip] at h
  | cons p ps ih =>
    intro keys h k hk
    cases keys with
    | nil => simp [coveredZip] at h
    | cons k0 ks =>
      simp only [coveredZip, Bool.and_eq_true] at h
      obtain ⟨⟨hv, hl⟩, hrest⟩ := h
      rcases List.mem_cons.mp hk with e | hk'
      · subst e
        cases hlast : p.getLast? with
        | none => rw [hlast] at hl; cases hl
        | some n =>
          rw [hlast] at hl
          have hne : p ≠ [] := by intro e; subst e; simp at hlast
          have hn : p.getLast hne = n := by
            have := List.getLast?_eq_some_getLast hne
            rw [hlast] at this; exact (Option.some.inj this).symm
          refine ⟨(n, k), by simpa using hl, rfl, ?_⟩
          have := validPath_reach succ entries p hne hv
          rw [hn] at this; exact this
      · exact ih ks hrest k hk'

end Poly.Model.CallGraph
