import Poly.Model.Merkle
import Poly.Proofs.MerkleSpec
import Poly.Proofs.MerkleServe
/-
C07: soundness of the verifiers. `merkleProve` against every binary hash tree over leaf data;
`verifyLeafHashInclusion` against the RFC 6962 tree of the committed leaf-hash list.
-/
namespace Poly.Proofs.MerkleVerify
open Poly.Spec.RFC6962 Poly.Model.Merkle Poly.Proofs.MerkleSpec Poly.Proofs.MerkleServe

variable (H : List UInt8 → List UInt8)

/-! ### MerkleProve -/

/-- Direction taken at the parent for a `(flag, sibling)` pair: flag 0 = sibling on the left, so the
running node is the RIGHT child (`true`); any other flag = LEFT child (`false`). -/
def dirOf (p : UInt8 × Hash) : Bool := p.1 = 0

/-- Directions from the root down to the proved leaf. -/
def dirs (pairs : List (UInt8 × Hash)) : List Bool := (pairs.map dirOf).reverse

theorem readPairs_length32 (n : Nat) : ∀ (bs : List UInt8), 33 * n ≤ bs.length →
    ∀ p ∈ readPairs n bs, p.2.length = 32 := by
  induction n with
  | zero => intro bs _ p hp; simp [readPairs] at hp
  | succ n ih =>
    intro bs hb p hp
    match bs, hb with
    | [], hb => simp at hb
    | f :: r, hb =>
      simp only [readPairs, List.mem_cons] at hp
      simp only [List.length_cons] at hb
      rcases hp with rfl | hp
      · simp; omega
      · exact ih (r.drop 32) (by simp; omega) p hp

/-- If folding a path from a 32-byte node `h` reaches the root of `T`, then following the encoded
directions from the root of `T` reaches a subtree whose root is `h` — or a collision is exhibited. -/
theorem provePath_sound (hlen : HashLen H) (T : DTree) :
    ∀ (pairs : List (UInt8 × Hash)) (h : Hash), h.length = 32 → (∀ p ∈ pairs, p.2.length = 32) →
      provePath H h pairs = T.root H →
      (∃ sub, T.descend (dirs pairs) = some sub ∧ sub.root H = h) ∨ Collision H := by
  intro pairs
  induction pairs with
  | nil =>
    intro h _ _ hr
    simp only [provePath] at hr
    exact Or.inl ⟨T, by simp [dirs, DTree.descend], hr.symm⟩
  | cons p pairs ih =>
    intro h hh hp hr
    obtain ⟨f, v⟩ := p
    simp only [provePath] at hr
    have hv : v.length = 32 := hp (f, v) (by simp)
    have hp' : ∀ p ∈ pairs, p.2.length = 32 := fun p hm => hp p (by simp [hm])
    have hdirs : dirs ((f, v) :: pairs) = dirs pairs ++ [decide (f = 0)] := by simp [dirs, dirOf]
    by_cases hf : f = 0
    · simp only [hf, ↓reduceIte] at hr
      rcases ih (hashChildren H v h) (hlen _) hp' hr with ⟨sub, hd, hs⟩ | hc
      · cases sub with
        | leaf d => exact Or.inr (leaf_ne_node H hs)
        | node l r =>
          simp only [DTree.root] at hs
          rcases hashChildren_inj H (by rw [DTree.root_length H hlen, hv]) hs with ⟨_, h2⟩ | hc
          · left; refine ⟨r, ?_, h2⟩
            rw [hdirs, DTree.descend_append, hd]; simp [hf, DTree.descend]
          · exact Or.inr hc
      · exact Or.inr hc
    · simp only [hf, ↓reduceIte] at hr
      rcases ih (hashChildren H h v) (hlen _) hp' hr with ⟨sub, hd, hs⟩ | hc
      · cases sub with
        | leaf d => exact Or.inr (leaf_ne_node H hs)
        | node l r =>
          simp only [DTree.root] at hs
          rcases hashChildren_inj H (by rw [DTree.root_length H hlen, hh]) hs with ⟨h1, _⟩ | hc
          · left; refine ⟨l, ?_, h1⟩
            rw [hdirs, DTree.descend_append, hd]; simp [hf, DTree.descend]
          · exact Or.inr hc
      · exact Or.inr hc

/-- `MerkleProve` accepts only a value that is the leaf of `T` at the position encoded by the flags. -/
theorem merkleProve_sound (hlen : HashLen H) (T : DTree) (path root value : List UInt8)
    (hacc : merkleProve H path root = .ok value) (hroot : root = T.root H) :
    (∃ ds, T.descend ds = some (.leaf value)) ∨ Collision H := by
  unfold merkleProve at hacc
  split at hacc
  · simp at hacc
  · rename_i v rest hv
    simp only at hacc
    split at hacc
    · simp at hacc
    · rename_i hne
      have hval : v = value := by simpa using hacc
      subst hval
      have heq : provePath H (hashLeaf H v) (readPairs (rest.length / 33) rest) = T.root H := by
        rw [← hroot]; simpa using hne
      have h32 := readPairs_length32 (rest.length / 33) rest (by omega)
      rcases provePath_sound H hlen T _ _ (hlen _) h32 heq with ⟨sub, hd, hs⟩ | hc
      · cases sub with
        | leaf d =>
          simp only [DTree.root] at hs
          rcases hashLeaf_inj H hs with rfl | hc
          · exact Or.inl ⟨_, hd⟩
          · exact Or.inr hc
        | node l r => exact Or.inr (leaf_ne_node H hs.symm)
      · exact Or.inr hc


/-! ### VerifyLeafHashInclusion -/

theorem calcRoot_zero (c : Hash) (i : Nat) (p : List Hash) :
    calcRoot H c i 0 p = if p.isEmpty then .ok c else .error .tooLong := by
  rw [calcRoot.eq_def]; simp

theorem calcRoot_succ (c s : Hash) (i last : Nat) (rest : List Hash) (h : last ≠ 0) :
    calcRoot H c i last (s :: rest) =
      if i % 2 = 1 then calcRoot H (hashChildren H s c) (i / 2) (last / 2) rest
      else if i < last then calcRoot H (hashChildren H c s) (i / 2) (last / 2) rest
      else calcRoot H c (i / 2) (last / 2) (s :: rest) := by
  rw [calcRoot.eq_def]; simp [h]

theorem calcRoot_nil (c : Hash) (i last : Nat) (h : last ≠ 0) :
    calcRoot H c i last [] = .error .tooShort := by
  rw [calcRoot.eq_def]; simp [h]

/-- The halving loop of the inclusion verifier, run on one level `L` of the tree (`last = |L| - 1`):
if it reaches the root of `L` from the node `c` at index `i`, then `c` is the `i`-th node of `L`. -/
theorem calcRoot_sound (hlen : HashLen H) (last : Nat) : ∀ (L : List Hash) (c : Hash) (i : Nat) (p : List Hash),
    L.length = last + 1 → i ≤ last → c.length = 32 → (∀ y ∈ L, y.length = 32) → (∀ y ∈ p, y.length = 32) →
    calcRoot H c i last p = .ok (mth H L) → L[i]? = some c ∨ Collision H := by
  induction last using Nat.strongRecOn with
  | _ last ih =>
    intro L c i p hL hi hc hL32 hp32 hacc
    by_cases h0 : last = 0
    · subst h0
      rw [calcRoot_zero] at hacc
      match L, hL with
      | [x], _ =>
        have : i = 0 := by omega
        subst this
        split at hacc
        · simp [mth_single] at hacc; left; simp [hacc]
        · simp at hacc
    · match p with
      | [] => rw [calcRoot_nil H c i last h0] at hacc; simp at hacc
      | s :: rest =>
        rw [calcRoot_succ H c s i last rest h0] at hacc
        have hs : s.length = 32 := hp32 s (by simp)
        have hrest : ∀ y ∈ rest, y.length = 32 := fun y hy => hp32 y (by simp [hy])
        have hL' : (pairUp H L).length = last / 2 + 1 := by rw [pairUp_length, hL]; omega
        have h32' := pairUp_len32 H hlen L hL32
        rw [← mth_pairUp H L] at hacc
        have hiL : i < L.length := by omega
        by_cases hodd : i % 2 = 1
        · simp only [hodd, ↓reduceIte] at hacc
          rcases ih (last / 2) (by omega) (pairUp H L) _ (i / 2) rest hL' (by omega) (hlen _) h32' hrest hacc with h | h
          · rw [pairUp_getElem_pair H L (i / 2) (by omega)] at h
            rcases hashChildren_inj H (by rw [hs]; exact hL32 _ (List.getElem_mem _)) (Option.some.inj h) with ⟨_, h2⟩ | hcol
            · left
              have e : 2 * (i / 2) + 1 = i := by omega
              simp only [e] at h2
              rw [List.getElem?_eq_getElem hiL, h2]
            · exact Or.inr hcol
          · exact Or.inr h
        · simp only [hodd, ↓reduceIte] at hacc
          by_cases hlt : i < last
          · simp only [hlt, ↓reduceIte] at hacc
            rcases ih (last / 2) (by omega) (pairUp H L) _ (i / 2) rest hL' (by omega) (hlen _) h32' hrest hacc with h | h
            · rw [pairUp_getElem_pair H L (i / 2) (by omega)] at h
              rcases hashChildren_inj H (by rw [hc]; exact hL32 _ (List.getElem_mem _)) (Option.some.inj h) with ⟨h1, _⟩ | hcol
              · left
                have e : 2 * (i / 2) = i := by omega
                simp only [e] at h1
                rw [List.getElem?_eq_getElem hiL, h1]
              · exact Or.inr hcol
            · exact Or.inr h
          · simp only [hlt, ↓reduceIte] at hacc
            rcases ih (last / 2) (by omega) (pairUp H L) c (i / 2) (s :: rest) hL' (by omega) hc h32' hp32 hacc with h | h
            · rw [pairUp_getElem_last H L (i / 2) (by omega)] at h
              left
              have e : 2 * (i / 2) = i := by omega
              simp only [e] at h
              rw [List.getElem?_eq_getElem hiL]; exact h
            · exact Or.inr h


/-- An accepted audit path has exactly `audit_path_length(index, size)` hashes. -/
theorem calcRoot_length (last : Nat) : ∀ (c : Hash) (i : Nat) (p : List Hash) (r : Hash),
    calcRoot H c i last p = .ok r → p.length = auditPathLength i last := by
  induction last using Nat.strongRecOn with
  | _ last ih =>
    intro c i p r hacc
    rw [auditPathLength]
    by_cases h0 : last = 0
    · subst h0
      rw [calcRoot_zero] at hacc
      split at hacc
      · rename_i he; simp at he; simp [he]
      · simp at hacc
    · simp only [h0, ↓reduceDIte]
      match p with
      | [] => rw [calcRoot_nil H c i last h0] at hacc; simp at hacc
      | s :: rest =>
        rw [calcRoot_succ H c s i last rest h0] at hacc
        by_cases hodd : i % 2 = 1
        · simp only [hodd, ↓reduceIte] at hacc
          have := ih (last / 2) (by omega) _ _ _ _ hacc
          simp [hodd, this]; omega
        · simp only [hodd, ↓reduceIte] at hacc
          by_cases hlt : i < last
          · simp only [hlt, ↓reduceIte] at hacc
            have := ih (last / 2) (by omega) _ _ _ _ hacc
            simp [hlt, this]; omega
          · simp only [hlt, ↓reduceIte] at hacc
            have := ih (last / 2) (by omega) _ _ _ _ hacc
            simp [hodd, hlt, this]


/-- For a fixed `(index, size)` the inclusion loop is injective: two runs that reach the same root started
from the same node with the same audit path, or a collision is exhibited. -/
theorem calcRoot_unique (hlen : HashLen H) (last : Nat) : ∀ (c c' : Hash) (i : Nat) (p p' : List Hash) (r : Hash),
    c.length = 32 → c'.length = 32 → (∀ y ∈ p, y.length = 32) → (∀ y ∈ p', y.length = 32) →
    calcRoot H c i last p = .ok r → calcRoot H c' i last p' = .ok r → (c = c' ∧ p = p') ∨ Collision H := by
  induction last using Nat.strongRecOn with
  | _ last ih =>
    intro c c' i p p' r hc hc' hp hp' h1 h2
    by_cases h0 : last = 0
    · subst h0
      rw [calcRoot_zero] at h1 h2
      split at h1
      · split at h2
        · rename_i e1 e2
          simp at h1 h2 e1 e2
          left; exact ⟨by rw [h1, h2], by rw [e1, e2]⟩
        · simp at h2
      · simp at h1
    · match p, p' with
      | [], _ => rw [calcRoot_nil H c i last h0] at h1; simp at h1
      | _ :: _, [] => rw [calcRoot_nil H c' i last h0] at h2; simp at h2
      | s :: rest, s' :: rest' =>
        rw [calcRoot_succ H c s i last rest h0] at h1
        rw [calcRoot_succ H c' s' i last rest' h0] at h2
        have hs : s.length = 32 := hp s (by simp)
        have hs' : s'.length = 32 := hp' s' (by simp)
        have hr : ∀ y ∈ rest, y.length = 32 := fun y hy => hp y (by simp [hy])
        have hr' : ∀ y ∈ rest', y.length = 32 := fun y hy => hp' y (by simp [hy])
        by_cases hodd : i % 2 = 1
        · simp only [hodd, ↓reduceIte] at h1 h2
          rcases ih (last / 2) (by omega) _ _ _ _ _ r (hlen _) (hlen _) hr hr' h1 h2 with ⟨e1, e2⟩ | hcol
          · rcases hashChildren_inj H (by rw [hs, hs']) e1 with ⟨a, b⟩ | hcol
            · left; exact ⟨b, by rw [a, e2]⟩
            · exact Or.inr hcol
          · exact Or.inr hcol
        · simp only [hodd, ↓reduceIte] at h1 h2
          by_cases hlt : i < last
          · simp only [hlt, ↓reduceIte] at h1 h2
            rcases ih (last / 2) (by omega) _ _ _ _ _ r (hlen _) (hlen _) hr hr' h1 h2 with ⟨e1, e2⟩ | hcol
            · rcases hashChildren_inj H (by rw [hc, hc']) e1 with ⟨a, b⟩ | hcol
              · left; exact ⟨a, by rw [b, e2]⟩
              · exact Or.inr hcol
            · exact Or.inr hcol
          · simp only [hlt, ↓reduceIte] at h1 h2
            exact ih (last / 2) (by omega) _ _ _ _ _ r hc hc' hp hp' h1 h2

/-- `VerifyLeafHashInclusion` is sound: an accepted proof for `(leaf hash, index, size, root)` where `root`
is the RFC 6962 root of a list `D` of `size` leaf hashes means the leaf hash IS `D[index]`, or a collision. -/
theorem verifyInclusion_sound (hlen : HashLen H) (D : List Hash) (lh : Hash) (i n : Nat) (p : List Hash) (root : Hash)
    (hacc : verifyLeafHashInclusion H lh i p root n = .ok ()) (hroot : root = mth H D) (hn : D.length = n)
    (hlh : lh.length = 32) (hD : ∀ y ∈ D, y.length = 32) (hp : ∀ y ∈ p, y.length = 32) :
    D[i]? = some lh ∨ Collision H := by
  unfold verifyLeafHashInclusion at hacc
  split at hacc
  · simp at hacc
  · rename_i hle
    split at hacc
    · simp at hacc
    · rename_i r hr
      split at hacc
      · simp at hacc
      · rename_i hne
        have : r = root := by simpa using hne
        subst this
        rw [hroot] at hr
        exact calcRoot_sound H hlen (n - 1) D lh i p (by omega) (by omega) hlh hD hp hr


theorem verifyInclusion_calcRoot (lh : Hash) (i n : Nat) (p : List Hash) (root : Hash)
    (h : verifyLeafHashInclusion H lh i p root n = .ok ()) : calcRoot H lh i (n - 1) p = .ok root := by
  unfold verifyLeafHashInclusion at h
  split at h
  · simp at h
  · cases hc : calcRoot H lh i (n - 1) p with
    | error e => simp [hc] at h
    | ok r =>
      simp only [hc] at h
      split at h
      · simp at h
      · rename_i hne
        have : r = root := by simpa using hne
        rw [this]

end Poly.Proofs.MerkleVerify
