import Poly.Proofs.SchemaLedger
import Poly.Model.SchemaP2P
/-! Lemmas about the p2p frame model (C05): what an accepted stream satisfies, reading back a written frame, payload round
    trips per kind, panic freedom, checksum soundness up to collisions of the truncated hash. -/
set_option linter.unusedSimpArgs false
set_option linter.unusedVariables false
namespace Poly.Model.SchemaP2P
open Poly.Model.Codec Poly.Model.Schema Poly.Model.SchemaLedger

theorem kindOfCmd_cmdField (k : Kind) : kindOfCmd (trimNul (cmdField k)) = some k := by
  cases k <;> decide

theorem cmdField_length (k : Kind) : (cmdField k).length = MSG_CMD_LEN := by
  cases k <;> decide

theorem checksum_length_le (H : Bytes → Bytes) (p : Bytes) : (checksum H p).length ≤ CHECKSUM_LEN := by
  simp [checksum, List.length_take]; omega

/-- header fields of a stream -/
def hdrMagic (bs : Bytes) : UInt32 := UInt32.ofNat (ofLe (bs.take 4))
def hdrCmd (bs : Bytes) : Bytes := (bs.drop 4).take MSG_CMD_LEN
def hdrLen (bs : Bytes) : Nat := ofLe ((bs.drop 16).take 4)
def hdrSum (bs : Bytes) : Bytes := (bs.drop 20).take CHECKSUM_LEN
def hdrBody (bs : Bytes) : Bytes := bs.drop MSG_HDR_LEN

/-- Everything an accepted stream satisfies (each rejection of the property is the contrapositive of one conjunct). -/
theorem readMessage_accepts (magic : UInt32) (K : Bytes → Option Bytes) (H : Bytes → Bytes) (bs : Bytes)
    (m : Payload) (len : Nat) (rest : Bytes) (h : readMessage magic K H bs = .ok (m, len, rest)) :
    MSG_HDR_LEN ≤ bs.length ∧ hdrMagic bs = magic ∧ len = hdrLen bs ∧ len ≤ MAX_PAYLOAD_LEN ∧ len ≤ (hdrBody bs).length ∧
    checksum H ((hdrBody bs).take len) = hdrSum bs ∧
    (∃ k, kindOfCmd (trimNul (hdrCmd bs)) = some k ∧ decPayload K H k ((hdrBody bs).take len) = .ok m) ∧
    rest = (hdrBody bs).drop len := by
  unfold readMessage at h
  split at h
  · simp at h
  · rename_i h1
    simp only at h
    split at h
    · simp at h
    · rename_i h2
      split at h
      · simp at h
      · rename_i h3
        split at h
        · simp at h
        · rename_i h4
          split at h
          · simp at h
          · rename_i h5
            split at h
            · simp at h
            · rename_i k hk
              split at h
              · simp at h
              · simp at h
              · rename_i m' hm
                have := Except.ok.inj h
                simp only [Prod.mk.injEq] at this
                obtain ⟨e1, e2, e3⟩ := this
                subst e1
                refine ⟨by omega, ?_, e2.symm, ?_, ?_, ?_, ⟨k, hk, ?_⟩, ?_⟩
                · simpa [hdrMagic] using h2
                · rw [← e2]; omega
                · rw [← e2]; simp only [hdrBody]; omega
                · rw [← e2]; simpa [hdrBody, hdrSum] using h5
                · rw [← e2]; exact hm
                · rw [← e2, ← e3]; rfl


theorem wU32_length (v : UInt32) : (wU32 v).length = 4 := by simp [wU32]

theorem ofLe_wU32 (v : UInt32) : ofLe (wU32 v) = v.toNat := by
  have := v.toNat_lt
  simp [wU32, ofLe_leN 4 v.toNat (by omega)]

/-- the header of a written frame, seen by the reader -/
theorem frameOf_fields (magic : UInt32) (H : Bytes → Bytes) (k : Kind) (p r : Bytes) (hp : p.length < 2 ^ 32)
    (hc : (checksum H p).length = CHECKSUM_LEN) :
    let bs := frameOf magic H k p ++ r
    MSG_HDR_LEN ≤ bs.length ∧ hdrMagic bs = magic ∧ hdrCmd bs = cmdField k ∧ hdrLen bs = p.length ∧
    hdrSum bs = checksum H p ∧ hdrBody bs = p ++ r := by
  have l1 := wU32_length magic
  have l2 := cmdField_length k
  have l3 := wU32_length (UInt32.ofNat p.length)
  simp only [MSG_CMD_LEN, CHECKSUM_LEN] at l2 hc
  have e : frameOf magic H k p ++ r = wU32 magic ++ (cmdField k ++ (wU32 (UInt32.ofNat p.length) ++ (checksum H p ++ (p ++ r)))) := by
    simp [frameOf, List.append_assoc]
  have hn : (UInt32.ofNat p.length).toNat = p.length := by simp [UInt32.toNat_ofNat']; omega
  intro bs
  have ebs : bs = wU32 magic ++ (cmdField k ++ (wU32 (UInt32.ofNat p.length) ++ (checksum H p ++ (p ++ r)))) := e
  refine ⟨?_, ?_, ?_, ?_, ?_, ?_⟩
  · rw [ebs]; simp only [List.length_append, l1, l2, l3, hc, MSG_HDR_LEN]; omega
  · simp only [hdrMagic, ebs]
    rw [show (4 : Nat) = (wU32 magic).length from l1.symm, List.take_left, ofLe_wU32]; simp
  · simp only [hdrCmd, ebs, MSG_CMD_LEN]
    rw [show (4 : Nat) = (wU32 magic).length from l1.symm, List.drop_left,
      show (12 : Nat) = (cmdField k).length from l2.symm, List.take_left]
  · simp only [hdrLen, ebs]
    rw [show (16 : Nat) = (wU32 magic ++ cmdField k).length by simp [l1, l2], ← List.append_assoc, List.drop_left,
      show (4 : Nat) = (wU32 (UInt32.ofNat p.length)).length from l3.symm, List.take_left, ofLe_wU32, hn]
  · simp only [hdrSum, ebs, CHECKSUM_LEN]
    rw [show (20 : Nat) = (wU32 magic ++ cmdField k ++ wU32 (UInt32.ofNat p.length)).length by simp [l1, l2, l3]]
    rw [show wU32 magic ++ (cmdField k ++ (wU32 (UInt32.ofNat p.length) ++ (checksum H p ++ (p ++ r)))) =
      (wU32 magic ++ cmdField k ++ wU32 (UInt32.ofNat p.length)) ++ (checksum H p ++ (p ++ r)) by simp [List.append_assoc]]
    rw [List.drop_left, show (4 : Nat) = (checksum H p).length from hc.symm, List.take_left]
  · simp only [hdrBody, ebs, MSG_HDR_LEN]
    rw [show (24 : Nat) = (wU32 magic ++ cmdField k ++ wU32 (UInt32.ofNat p.length) ++ checksum H p).length by simp [l1, l2, l3, hc]]
    rw [show wU32 magic ++ (cmdField k ++ (wU32 (UInt32.ofNat p.length) ++ (checksum H p ++ (p ++ r)))) =
      (wU32 magic ++ cmdField k ++ wU32 (UInt32.ofNat p.length) ++ checksum H p) ++ (p ++ r) by simp [List.append_assoc]]
    rw [List.drop_left]

/-- reading back a written frame reduces to decoding its payload -/
theorem readMessage_frameOf (magic : UInt32) (K : Bytes → Option Bytes) (H : Bytes → Bytes) (k : Kind) (p r : Bytes)
    (hp : p.length ≤ MAX_PAYLOAD_LEN) (hc : (checksum H p).length = CHECKSUM_LEN) :
    readMessage magic K H (frameOf magic H k p ++ r) =
      match decPayload K H k p with
      | .error .panic => .error .panic
      | .error _ => .error .payload
      | .ok m => .ok (m, p.length, r) := by
  have hp32 : p.length < 2 ^ 32 := by simp only [MAX_PAYLOAD_LEN] at hp; omega
  obtain ⟨f1, f2, f3, f4, f5, f6⟩ := frameOf_fields magic H k p r hp32 hc
  simp only [hdrMagic, hdrCmd, hdrLen, hdrSum, hdrBody] at f2 f3 f4 f5 f6
  unfold readMessage
  rw [if_neg (by omega)]
  simp only [f2, f3, f4, f5, f6, bne_self_eq_false, Bool.false_eq_true, if_false, kindOfCmd_cmdField]
  rw [if_neg (by omega), if_neg (by simp), List.take_left, List.drop_left]
  rw [if_neg (by simp)]
  cases hd : decPayload K H k p with
  | error e => cases e <;> rfl
  | ok m => rfl


/-- payload round trip for the schema-described kinds -/
theorem decPayload_schema (K : Bytes → Option Bytes) (H : Bytes → Bytes) (k : Kind) (t : Ty) (hk : k.ty = some t) (v : t.Val)
    (hwf : t.WF K v) : decPayload K H k (t.enc v) = .ok (.schema k t v) := by
  have hd := Ty.dec_enc K t v [] hwf
  simp only [List.append_nil] at hd
  cases k <;> simp only [Kind.ty, Option.some.injEq, reduceCtorEq] at hk <;> subst hk <;>
    simp only [decPayload, Kind.ty, hd, Except.map]

theorem decPayload_empty (K : Bytes → Option Bytes) (H : Bytes → Bytes) (p : Bytes) :
    decPayload K H .getaddr p = .ok (.empty .getaddr) ∧ decPayload K H .disconnect p = .ok (.empty .disconnect) :=
  ⟨rfl, rfl⟩

theorem decPayload_tx (K : Bytes → Option Bytes) (H : Bytes → Bytes) (tx : txTy.Val) (hwf : txTy.WF K tx)
    (hsz : (txTy.enc tx).length ≤ MAX_TX_SIZE) :
    decPayload K H .tx (txTy.enc tx) =
      .ok (.tx { val := tx, hash := H (H (txUnsignedTy.enc tx.1)), raw := txTy.enc tx, rest := [] }) := by
  have := txDec_enc K H tx [] hwf hsz
  simp only [List.append_nil] at this
  simp only [decPayload, this, Except.map]

theorem decPayload_block (K : Bytes → Option Bytes) (H : Bytes → Bytes) (h : headerTy.Val) (txs : List txTy.Val) (root : Bytes)
    (hroot32 : root.length = 32)
    (hh : headerTy.WF K h) (hn : txs.length < 2 ^ 32)
    (hwf : ∀ tx ∈ txs, txTy.WF K tx ∧ (txTy.enc tx).length ≤ MAX_TX_SIZE)
    (hnd : (txs.map (txHash H)).Nodup)
    (hroot : headerTxRoot h = Poly.Model.BtcMerkle.btcRoot H (txs.map (txHash H))) :
    decPayload K H .block (blockEnc h txs ++ root) = .ok (.block { header := h, txs := resList H txs root } root) := by
  have := blockDec_enc K H h txs root hh hn hwf hnd hroot
  have hf := P.nextFixed_w 32 root [] hroot32
  simp only [wBytes, List.append_nil] at hf
  simp only [decPayload, this, hf]

theorem decPayload_ne_panic (K : Bytes → Option Bytes) (H : Bytes → Bytes) (k : Kind) (p : Bytes) :
    decPayload K H k p ≠ .error .panic := by
  have hs : ∀ t : Ty, t.noUnboundedPrealloc = true →
      (Except.map (fun (x : t.Val × Bytes) => Payload.schema k t x.1) (t.dec K p)) ≠ .error .panic := by
    intro t ht
    cases hd : t.dec K p with
    | error e => have := Ty.dec_no_panic K t ht p; rw [hd] at this; simpa [Except.map] using this
    | ok q => simp [Except.map]
  cases k
  case getaddr => simp [decPayload]
  case disconnect => simp [decPayload]
  case tx =>
    simp only [decPayload]
    cases hd : txDec K H p with
    | error e => have := txDec_ne_panic K H p; rw [hd] at this; simpa [Except.map] using this
    | ok q => simp [Except.map]
  case block =>
    simp only [decPayload]
    cases hd : blockDec K H p with
    | error e => have := blockDec_ne_panic K H p; rw [hd] at this; simpa using this
    | ok q => simp
  all_goals (simp only [decPayload, Kind.ty]; exact hs _ (by decide))

theorem readMessage_ne_panic (magic : UInt32) (K : Bytes → Option Bytes) (H : Bytes → Bytes) (bs : Bytes) :
    readMessage magic K H bs ≠ .error .panic := by
  unfold readMessage
  split
  · simp
  · simp only
    split
    · simp
    · split
      · simp
      · split
        · simp
        · split
          · simp
          · split
            · simp
            · rename_i k hk
              split
              · rename_i hp
                exact absurd hp (decPayload_ne_panic K H k _)
              · simp
              · simp

/-- a collision of the 32-bit frame checksum -/
def Collision4 (H : Bytes → Bytes) : Prop := ∃ x y : Bytes, x ≠ y ∧ checksum H x = checksum H y

/-- If a stream carrying the header written for payload `p` but another body is accepted, the accepted payload either is
`p` or collides with it under the truncated double hash (this covers substituted, corrupted, shortened and extended
payloads: the accepted payload is whatever `Length` bytes follow the header). -/
theorem accepted_payload_or_collision (magic : UInt32) (K : Bytes → Option Bytes) (H : Bytes → Bytes) (bs : Bytes)
    (p : Bytes) (hsum : hdrSum bs = checksum H p) (m : Payload) (len : Nat) (rest : Bytes)
    (h : readMessage magic K H bs = .ok (m, len, rest)) :
    (hdrBody bs).take len = p ∨ Collision4 H := by
  obtain ⟨_, _, _, _, _, hc, _, _⟩ := readMessage_accepts magic K H bs m len rest h
  by_cases e : (hdrBody bs).take len = p
  · exact Or.inl e
  · exact Or.inr ⟨_, _, e, by rw [hc, hsum]⟩

/-! ## single-byte corruptions -/
/-- changing one byte of a little-endian string changes its value -/
theorem ofLe_set_ne (l : Bytes) (i : Nat) (b : UInt8) (hi : i < l.length) (hb : l[i]? ≠ some b) : ofLe (l.set i b) ≠ ofLe l := by
  induction l generalizing i with
  | nil => simp at hi
  | cons x xs ih =>
    cases i with
    | zero =>
      simp only [List.set_cons_zero, ofLe]
      have hx : x ≠ b := by intro c; subst c; simp at hb
      have := x.toNat_lt; have := b.toNat_lt
      intro c
      apply hx
      apply UInt8.toNat_inj.mp
      omega
    | succ i =>
      simp only [List.set_cons_succ, ofLe]
      have := ih i (by simpa using hi) (by simpa using hb)
      omega

theorem set_ne_self (l : Bytes) (i : Nat) (b : UInt8) (hi : i < l.length) (hb : l[i]? ≠ some b) : l.set i b ≠ l := by
  intro c
  have : (l.set i b)[i]? = some b := by simp [hi]
  rw [c] at this
  exact hb this


theorem ofLe_lt (bs : Bytes) : ofLe bs < 256 ^ bs.length := by
  induction bs with
  | nil => simp [ofLe]
  | cons b bs ih =>
    simp only [ofLe, List.length_cons, Nat.pow_succ]
    have := b.toNat_lt
    omega

theorem fields_of_parts (A B C D P : Bytes) (hA : A.length = 4) (hB : B.length = 12) (hC : C.length = 4) (hD : D.length = 4) :
    hdrMagic (A ++ (B ++ (C ++ (D ++ P)))) = UInt32.ofNat (ofLe A) ∧ hdrCmd (A ++ (B ++ (C ++ (D ++ P)))) = B ∧
    hdrLen (A ++ (B ++ (C ++ (D ++ P)))) = ofLe C ∧ hdrSum (A ++ (B ++ (C ++ (D ++ P)))) = D ∧
    hdrBody (A ++ (B ++ (C ++ (D ++ P)))) = P := by
  refine ⟨?_, ?_, ?_, ?_, ?_⟩
  · simp only [hdrMagic]; rw [show (4 : Nat) = A.length from hA.symm, List.take_left]
  · simp only [hdrCmd, MSG_CMD_LEN]
    rw [show (4 : Nat) = A.length from hA.symm, List.drop_left, show (12 : Nat) = B.length from hB.symm, List.take_left]
  · simp only [hdrLen]
    rw [show (16 : Nat) = (A ++ B).length by simp [hA, hB], ← List.append_assoc, List.drop_left,
      show (4 : Nat) = C.length from hC.symm, List.take_left]
  · simp only [hdrSum, CHECKSUM_LEN]
    rw [show A ++ (B ++ (C ++ (D ++ P))) = (A ++ B ++ C) ++ (D ++ P) by simp [List.append_assoc],
      show (20 : Nat) = (A ++ B ++ C).length by simp [hA, hB, hC], List.drop_left,
      show (4 : Nat) = D.length from hD.symm, List.take_left]
  · simp only [hdrBody, MSG_HDR_LEN]
    rw [show A ++ (B ++ (C ++ (D ++ P))) = (A ++ B ++ C ++ D) ++ P by simp [List.append_assoc],
      show (24 : Nat) = (A ++ B ++ C ++ D).length by simp [hA, hB, hC, hD], List.drop_left]

/-- Every single-byte corruption of a written frame outside the command field is rejected, or exhibits a collision of the
32-bit checksum (corruptions of the command field can turn one known command into another, e.g. ping/pong: the header is
not covered by the checksum). -/
theorem single_byte_corruption (magic : UInt32) (K : Bytes → Option Bytes) (H : Bytes → Bytes) (k : Kind) (p : Bytes)
    (hp : p.length ≤ MAX_PAYLOAD_LEN) (hc : (checksum H p).length = CHECKSUM_LEN) (i : Nat) (b : UInt8)
    (hi : i < (frameOf magic H k p).length) (hb : (frameOf magic H k p)[i]? ≠ some b) (hcmd : i < 4 ∨ 16 ≤ i) :
    (∀ res, readMessage magic K H ((frameOf magic H k p).set i b) ≠ .ok res) ∨ Collision4 H := by
  have hp32 : p.length < 2 ^ 32 := by simp only [MAX_PAYLOAD_LEN] at hp; omega
  have hA := wU32_length magic
  have hB : (cmdField k).length = 12 := cmdField_length k
  have hC := wU32_length (UInt32.ofNat p.length)
  have hD : (checksum H p).length = 4 := hc
  have hn : (UInt32.ofNat p.length).toNat = p.length := by simp [UInt32.toNat_ofNat']; omega
  have ef : frameOf magic H k p = wU32 magic ++ (cmdField k ++ (wU32 (UInt32.ofNat p.length) ++ (checksum H p ++ p))) := by
    simp [frameOf, List.append_assoc]
  rw [ef] at hi hb ⊢
  simp only [List.length_append, hA, hB, hC, hD] at hi
  by_cases h4 : i < 4
  · -- magic
    left
    intro ⟨m, len, rest⟩ c
    rw [List.set_append, if_pos (by omega)] at c
    have hb' : (wU32 magic)[i]? ≠ some b := by
      rw [List.getElem?_append_left (by omega)] at hb; exact hb
    obtain ⟨fm, _, _, _, _⟩ := fields_of_parts ((wU32 magic).set i b) (cmdField k) (wU32 (UInt32.ofNat p.length)) (checksum H p) p
      (by simp [hA]) hB hC hD
    have hm := (readMessage_accepts magic K H _ m len rest c).2.1
    rw [fm] at hm
    have hne := ofLe_set_ne (wU32 magic) i b (by omega) hb'
    have h1 := ofLe_lt ((wU32 magic).set i b)
    simp only [List.length_set, hA] at h1
    have h2 : ofLe (wU32 magic) = magic.toNat := ofLe_wU32 magic
    have : (UInt32.ofNat (ofLe ((wU32 magic).set i b))).toNat = magic.toNat := by rw [hm]
    simp only [UInt32.toNat_ofNat'] at this
    have : ofLe ((wU32 magic).set i b) % 2 ^ 32 = ofLe ((wU32 magic).set i b) := Nat.mod_eq_of_lt (by omega)
    omega
  · have h16 : 16 ≤ i := by rcases hcmd with h | h <;> omega
    -- split off magic and command
    have e1 : (wU32 magic ++ (cmdField k ++ (wU32 (UInt32.ofNat p.length) ++ (checksum H p ++ p)))).set i b =
        wU32 magic ++ (cmdField k ++ ((wU32 (UInt32.ofNat p.length) ++ (checksum H p ++ p)).set (i - 16) b)) := by
      rw [List.set_append, if_neg (by omega), List.set_append, if_neg (by omega)]
      congr 3; omega
    have hb1 : (wU32 (UInt32.ofNat p.length) ++ (checksum H p ++ p))[i - 16]? ≠ some b := by
      rw [List.getElem?_append_right (by omega), List.getElem?_append_right (by omega)] at hb
      rw [hA, hB] at hb
      have : i - 4 - 12 = i - 16 := by omega
      rw [this] at hb; exact hb
    rw [e1]
    by_cases hnacc : ¬ ∃ res, readMessage magic K H (wU32 magic ++ (cmdField k ++ ((wU32 (UInt32.ofNat p.length) ++ (checksum H p ++ p)).set (i - 16) b))) = .ok res
    · left; intro res c; exact hnacc ⟨res, c⟩
    obtain ⟨⟨m, len, rest⟩, c⟩ := Classical.not_not.mp hnacc
    by_cases h20 : i < 20
    · -- length field: the accepted payload is a proper prefix of p with the same checksum
      right
      rw [List.set_append, if_pos (by omega)] at c
      have hb' : (wU32 (UInt32.ofNat p.length))[i - 16]? ≠ some b := by
        rw [List.getElem?_append_left (by omega)] at hb1; exact hb1
      obtain ⟨_, _, fl, fs, fb⟩ := fields_of_parts (wU32 magic) (cmdField k) ((wU32 (UInt32.ofNat p.length)).set (i - 16) b) (checksum H p) p
        hA hB (by simp [hC]) hD
      obtain ⟨_, _, hlen, _, hle, hsum, _, _⟩ := readMessage_accepts magic K H _ m len rest c
      rw [fb] at hle hsum
      rw [fs] at hsum
      rw [fl] at hlen
      have hne := ofLe_set_ne (wU32 (UInt32.ofNat p.length)) (i - 16) b (by omega) hb'
      rw [ofLe_wU32, hn] at hne
      have hlt : len < p.length := by omega
      refine ⟨p.take len, p, ?_, hsum⟩
      intro e
      have := congrArg List.length e
      simp only [List.length_take] at this
      omega
    · by_cases h24 : i < 24
      · -- checksum field
        exfalso
        rw [List.set_append, if_neg (by omega), List.set_append, if_pos (by omega)] at c
        have hb' : (checksum H p)[i - 16 - 4]? ≠ some b := by
          rw [List.getElem?_append_right (by omega), List.getElem?_append_left (by omega)] at hb1
          rw [hC] at hb1; exact hb1
        rw [hC] at c
        obtain ⟨_, _, fl, fs, fb⟩ := fields_of_parts (wU32 magic) (cmdField k) (wU32 (UInt32.ofNat p.length)) ((checksum H p).set (i - 16 - 4) b) p
          hA hB hC (by simp [hD])
        obtain ⟨_, _, hlen, _, hle, hsum, _, _⟩ := readMessage_accepts magic K H _ m len rest c
        rw [fb] at hsum
        rw [fs] at hsum
        rw [fl, ofLe_wU32, hn] at hlen
        rw [hlen, List.take_length] at hsum
        exact set_ne_self (checksum H p) (i - 16 - 4) b (by omega) hb' hsum.symm
      · -- payload
        right
        rw [List.set_append, if_neg (by omega), List.set_append, if_neg (by omega)] at c
        rw [hC, hD] at c
        have hb' : p[i - 16 - 4 - 4]? ≠ some b := by
          rw [List.getElem?_append_right (by omega), List.getElem?_append_right (by omega)] at hb1
          rw [hC, hD] at hb1; exact hb1
        obtain ⟨_, _, fl, fs, fb⟩ := fields_of_parts (wU32 magic) (cmdField k) (wU32 (UInt32.ofNat p.length)) (checksum H p) (p.set (i - 16 - 4 - 4) b)
          hA hB hC hD
        obtain ⟨_, _, hlen, _, hle, hsum, _, _⟩ := readMessage_accepts magic K H _ m len rest c
        rw [fb] at hsum
        rw [fs] at hsum
        rw [fl, ofLe_wU32, hn] at hlen
        have : (p.set (i - 16 - 4 - 4) b).take len = p.set (i - 16 - 4 - 4) b := by
          rw [hlen]; exact List.take_of_length_le (by simp)
        rw [this] at hsum
        exact ⟨_, _, set_ne_self p (i - 16 - 4 - 4) b (by omega) hb', hsum⟩


end Poly.Model.SchemaP2P
