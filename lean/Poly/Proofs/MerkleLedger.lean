import Poly.Model.MerkleLedger
import Poly.Proofs.MerkleStore
/-
C08, ledger glue: for every chain of committed blocks the block-inclusion proofs served by
`Ledger.GetMerkleProof` and the cross-state proofs served by `GetCrossStatesProof` verify.
-/
namespace Poly.Proofs.MerkleLedger
open Poly.Spec.RFC6962 Poly.Model.Merkle Poly.Model.MerkleLedger Poly.Proofs.MerkleSpec Poly.Proofs.MerkleServe
  Poly.Proofs.MerkleStore

variable (H : List UInt8 → List UInt8)

/-- Leaf DATA of the block accumulator for the chain with block hashes `hs` (by height): leaf `i` is the
previous-block hash of block `i` (zero hash for the genesis block). -/
def prevs (hs : List Hash) : List Hash := zeroHash :: hs.dropLast

/-- Leaf hashes of the accumulator. -/
def accLeaves (hs : List Hash) : List Hash := (prevs hs).map (hashLeaf H)

/-- Ledger invariant: at least the genesis block; the accumulator (tree + hash file) is that of the
previous-block hashes; one list of cross hashes per block. -/
def LInv (l : Ledger) : Prop :=
  l.hashes ≠ [] ∧ SInv H (accLeaves H l.hashes) l.acc ∧ (∃ st, l.acc.store = some st) ∧
  l.cross.length = l.hashes.length

theorem prevs_snoc (hs : List Hash) (b : Hash) (h : hs ≠ []) :
    prevs (hs ++ [b]) = prevs hs ++ [hs.getLast h] := by
  unfold prevs
  rw [List.dropLast_concat]
  conv => lhs; rw [← List.dropLast_concat_getLast h]
  simp

theorem store_some_append (s s' : State) (d : List UInt8) (a : List Hash) (h : s.append H d = .ok (s', a))
    (hs : ∃ st, s.store = some st) : ∃ st, s'.store = some st := by
  obtain ⟨st, hst⟩ := hs
  unfold State.append at h
  cases hl : appendLeaf H s.tree d with
  | error e => simp [hl] at h
  | ok q =>
    obtain ⟨t, sto, audit⟩ := q
    simp only [hl, Except.ok.injEq, Prod.mk.injEq] at h
    rw [← h.1]; simp [hst]

theorem linv_genesis (bh : Hash) : ∃ l, genesis H bh = .ok l ∧ LInv H l ∧ l.hashes = [bh] := by
  have h0 : SInv H [] ⟨emptyTree, some ⟨true, [], []⟩⟩ :=
    sinv_empty H _ (by intro x hx; simp at hx; subst hx; rfl)
  obtain ⟨s', ha, hi⟩ := sinv_append H [] _ zeroHash h0
  unfold genesis commit
  simp only [ha]
  refine ⟨_, rfl, ⟨by simp, ?_, ?_, by simp⟩, by simp⟩
  · simpa [accLeaves, prevs] using hi
  · exact store_some_append H _ _ _ _ ha ⟨_, rfl⟩

theorem linv_addBlock (l : Ledger) (bh : Hash) (recs : List (List UInt8 × List UInt8)) (h : LInv H l) :
    ∃ l', addBlock H l bh recs = .ok l' ∧ LInv H l' ∧ l'.hashes = l.hashes ++ [bh] ∧
      l'.cross = l.cross ++ [recs.map (fun kv => hashLeaf H kv.2)] ∧ l'.storage = recs.reverse ++ l.storage := by
  obtain ⟨hne, hs, hst, hc⟩ := h
  unfold addBlock
  have hlast : l.hashes.getLast? = some (l.hashes.getLast hne) := List.getLast?_eq_some_getLast hne
  rw [hlast]
  simp only
  obtain ⟨s', ha, hi⟩ := sinv_append H _ l.acc (l.hashes.getLast hne) hs
  unfold commit
  simp only [ha]
  refine ⟨_, rfl, ⟨by simp, ?_, ?_, by simp [hc]⟩, rfl, rfl, rfl⟩
  · simp only [accLeaves, prevs_snoc _ _ hne, List.map_append, List.map_cons, List.map_nil]
    exact hi
  · exact store_some_append H _ _ _ _ ha hst

/-- The `BlockRoot` committed by the header at height `r` of a chain with block hashes `hs`: the RFC 6962
root over the first `r + 1` accumulator leaves. -/
def blockRootAt (hs : List Hash) (r : Nat) : Hash := mth H ((accLeaves H hs).take (r + 1))

/-- The accumulator root right after a block is committed is the block root of its height. -/
theorem blockRoot_tip (l : Ledger) (h : LInv H l) :
    blockRoot H l = .ok (blockRootAt H l.hashes (l.hashes.length - 1)) := by
  obtain ⟨hne, hs, _, _⟩ := h
  have hlen : 1 ≤ l.hashes.length := List.length_pos_iff.mpr hne
  have hal : (accLeaves H l.hashes).length = l.hashes.length := by simp [accLeaves, prevs]; omega
  unfold blockRoot Poly.Model.Merkle.root blockRootAt
  have hne' : accLeaves H l.hashes ≠ [] := by intro e; rw [e] at hal; simp at hal; omega
  have hfl : l.acc.tree.hashes.length ≠ 0 := by
    rw [hs.2.1, frontier_length, hal]
    intro e
    have := countBit_eq l.hashes.length
    cases hq : l.hashes.length with
    | zero => omega
    | succ q => rw [hq] at e; simp [countBit] at e; have := hashFold_frontier H _ hne'; rw [hs.2.1.symm] at this
                have e2 : l.acc.tree.hashes = [] := List.eq_nil_of_length_eq_zero (by rw [hs.2.1, frontier_length, hal, hq]; simpa [countBit] using e)
                rw [e2] at this; simp [hashFold] at this
  simp only [hfl, ne_eq, not_false_eq_true, ↓reduceIte]
  rw [hs.2.1, hashFold_frontier H _ hne']
  have : l.hashes.length - 1 + 1 = (accLeaves H l.hashes).length := by rw [hal]; omega
  rw [this, List.take_length]

/-- The accumulator leaves of a chain are a prefix of those of any extension. -/
theorem accLeaves_prefix (hs more : List Hash) (h : hs ≠ []) :
    (accLeaves H (hs ++ more)).take hs.length = accLeaves H hs := by
  have hpos := List.length_pos_iff.mpr h
  simp only [accLeaves, prevs, ← List.map_take]
  congr 1
  cases more with
  | nil =>
    simp only [List.append_nil]
    rw [List.take_of_length_le]; simp; omega
  | cons b more =>
    rw [List.dropLast_append_of_ne_nil (by simp)]
    have e : hs.length = (hs.length - 1) + 1 := by omega
    rw [e, List.take_succ_cons, List.take_append_of_le_length (by omega), List.dropLast_eq_take]

/-- For every chain of committed blocks and all heights `h < r`: the proof served by
`Ledger.GetMerkleProof(h, r)` verifies with `MerkleProve` against the block root committed by header `r`
and yields block `h`'s hash. -/
theorem served_block_proof (hlen : HashLen H) (l : Ledger) (hinv : LInv H l) (h r : Nat) (bh : Hash)
    (hhr : h < r) (hr : r < l.hashes.length) (hbh : l.hashes[h]? = some bh) (h32 : bh.length = 32) :
    ∃ p, getMerkleProof H l h r = .ok p ∧ merkleProve H p (blockRootAt H l.hashes r) = .ok bh := by
  obtain ⟨hne, hs, ⟨st, hst⟩, _⟩ := hinv
  have hal : (accLeaves H l.hashes).length = l.hashes.length := by
    have := List.length_pos_iff.mpr hne
    simp [accLeaves, prevs]; omega
  have hleaf : (accLeaves H l.hashes)[h + 1]? = some (hashLeaf H bh) := by
    simp only [accLeaves, prevs, List.map_cons, List.getElem?_cons_succ, List.getElem?_map]
    rw [List.getElem?_dropLast]
    have : h < l.hashes.length - 1 := by omega
    simp [this, hbh]
  obtain ⟨p, hp1, hp2⟩ := leafPath_gen_verifies H hlen (accLeaves H l.hashes) l.acc st bh (h + 1) (r + 1) hs hst
    (by omega) (by omega) hleaf
    (by intro y hy; simp only [accLeaves, List.mem_map] at hy; obtain ⟨d, _, rfl⟩ := hy; exact hlen _)
    (by rw [h32]; omega)
  refine ⟨p, ?_, hp2⟩
  unfold getMerkleProof
  rw [hbh]; simp only [hp1]

/-! ### Cross-state proofs -/

theorem lookup_first (key value : List UInt8) (A old : List (List UInt8 × List UInt8))
    (h : ∀ kv ∈ A, kv.1 = key → kv.2 = value) : lookup key (A ++ (key, value) :: old) = some value := by
  induction A with
  | nil => simp [lookup]
  | cons kv A ih =>
    obtain ⟨k, v⟩ := kv
    simp only [List.cons_append, lookup]
    by_cases hk : k = key
    · have := h (k, v) (by simp) hk
      simp at this; simp [hk, this]
    · simp only [hk, ↓reduceIte]
      exact ih (fun kv' hkv' => h kv' (by simp [hkv']))

theorem lookup_committed (key value : List UInt8) (recs old : List (List UInt8 × List UInt8))
    (hmem : (key, value) ∈ recs) (huniq : ∀ kv ∈ recs, kv.1 = key → kv.2 = value) :
    lookup key (recs.reverse ++ old) = some value := by
  obtain ⟨A, B, hAB⟩ := List.append_of_mem (List.mem_reverse.mpr hmem)
  rw [hAB, List.append_assoc, List.cons_append]
  apply lookup_first
  intro kv hkv
  apply huniq kv
  have : kv ∈ recs.reverse := by rw [hAB]; simp [hkv]
  exact List.mem_reverse.mp this

/-- For every committed block: each record the block produced (stored under a key that the block wrote
once) has a served proof that verifies against the block's cross-state root and yields exactly the record. -/
theorem served_cross_proof (hlen : HashLen H) (l : Ledger) (hinv : LInv H l) (bh : Hash)
    (recs : List (List UInt8 × List UInt8)) (key value : List UInt8)
    (hmem : (key, value) ∈ recs) (huniq : ∀ kv ∈ recs, kv.1 = key → kv.2 = value)
    (hsize : recs.length * 33 + value.length + 8 ≤ MAX_SIZE) :
    ∃ l' p root, addBlock H l bh recs = .ok l' ∧
      getCrossStatesProof H l' l.hashes.length key = .ok p ∧
      crossRoot H (recs.map (fun kv => hashLeaf H kv.2)) = .ok root ∧
      merkleProve H p root = .ok value := by
  obtain ⟨l', ha, hi', hh, hc, hst⟩ := linv_addBlock H l bh recs hinv
  have hcl := hinv.2.2.2
  obtain ⟨hashes, hhashes⟩ : ∃ x, x = recs.map (fun kv => hashLeaf H kv.2) := ⟨_, rfl⟩
  rw [← hhashes] at hc ⊢
  have hmemh : hashLeaf H value ∈ hashes := by rw [hhashes]; exact List.mem_map.mpr ⟨(key, value), hmem, rfl⟩
  have hne : hashes ≠ [] := List.ne_nil_of_mem hmemh
  obtain ⟨p, h1, h2⟩ := leafPath_verifies H hlen value hashes hmemh
    (by intro y hy; rw [hhashes] at hy; obtain ⟨d, _, rfl⟩ := List.mem_map.mp hy; exact hlen _)
    (by rw [hhashes]; simpa using hsize)
  refine ⟨l', p, mth H hashes, ha, ?_, ?_, h2⟩
  · unfold getCrossStatesProof
    have : l'.cross[l.hashes.length]? = some hashes := by
      rw [hc, ← hcl, List.getElem?_append_right (Nat.le_refl _)]; simp
    rw [this]
    cases hq : hashes with
    | nil => exact absurd hq hne
    | cons a r =>
      simp only
      rw [hst, lookup_committed key value recs _ hmem huniq, ← hq]
      simp only [h1]
  · unfold crossRoot
    have : hashes.length ≠ 0 := by intro e; exact hne (List.eq_nil_of_length_eq_zero e)
    simp only [this, ne_eq, not_false_eq_true, ↓reduceIte]
    exact hashFullTree_eq H hashes


/-! ### Whole chains -/

theorem linv_addBlocks (blocks : List (Hash × List (List UInt8 × List UInt8))) : ∀ (l : Ledger), LInv H l →
    ∃ l', addBlocks H l blocks = .ok l' ∧ LInv H l' ∧ l'.hashes = l.hashes ++ blocks.map (·.1) := by
  induction blocks with
  | nil => intro l h; exact ⟨l, rfl, h, by simp⟩
  | cons b bs ih =>
    intro l h
    obtain ⟨l1, ha, hi, hh, _, _⟩ := linv_addBlock H l b.1 b.2 h
    obtain ⟨l', h1, h2, h3⟩ := ih l1 hi
    refine ⟨l', by simp only [addBlocks, ha, h1], h2, by rw [h3, hh]; simp⟩

theorem linv_chain (g : Hash) (blocks : List (Hash × List (List UInt8 × List UInt8))) :
    ∃ l, chain H g blocks = .ok l ∧ LInv H l ∧ l.hashes = g :: blocks.map (·.1) := by
  obtain ⟨l0, h0, hi0, hh0⟩ := linv_genesis H g
  obtain ⟨l, h1, h2, h3⟩ := linv_addBlocks H blocks l0 hi0
  exact ⟨l, by simp only [chain, h0, h1], h2, by rw [h3, hh0]; simp⟩

/-- The block root in header `r` (the accumulator root when block `r` was committed) is `blockRootAt` of
the final chain, for every later extension of the chain. -/
theorem blockRoot_committed (g : Hash) (blocks : List (Hash × List (List UInt8 × List UInt8))) (r : Nat)
    (hr : r ≤ blocks.length) :
    ∃ lr, chain H g (blocks.take r) = .ok lr ∧
      blockRoot H lr = .ok (blockRootAt H (g :: blocks.map (·.1)) r) := by
  obtain ⟨lr, h1, h2, h3⟩ := linv_chain H g (blocks.take r)
  refine ⟨lr, h1, ?_⟩
  rw [blockRoot_tip H lr h2, h3]
  unfold blockRootAt
  have hlen : (g :: (blocks.take r).map (·.1)).length = r + 1 := by simp; omega
  rw [hlen, Nat.add_sub_cancel]
  congr 1
  have hsplit : g :: blocks.map (·.1) = (g :: (blocks.take r).map (·.1)) ++ (blocks.drop r).map (·.1) := by
    rw [List.cons_append, ← List.map_append, List.take_append_drop]
  have := accLeaves_prefix H (g :: (blocks.take r).map (·.1)) ((blocks.drop r).map (·.1)) (by simp)
  rw [hlen, ← hsplit] at this
  rw [this, List.take_of_length_le]
  simp [accLeaves, prevs]; omega

end Poly.Proofs.MerkleLedger
