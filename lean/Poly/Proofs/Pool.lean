import Poly.Model.Pool
/-! Helper lemmas for C37 (transaction pool). Core only. -/
namespace Poly.Model.Pool

section
variable {H : Type} [DecidableEq H]

theorem has_iff (p : Pool H) (h : H) : has p h = true ↔ h ∈ keys p := by
  simp [has, keys, List.any_eq_true, List.mem_map]

theorem has_false_iff (p : Pool H) (h : H) : has p h = false ↔ h ∉ keys p := by
  rw [← has_iff]; simp

theorem erase_sublist (p : Pool H) (h : H) : (erase p h).Sublist p := List.filter_sublist

theorem keys_sublist {p q : Pool H} (hs : p.Sublist q) : (keys p).Sublist (keys q) := hs.map _

theorem mem_erase (p : Pool H) (h : H) (e : Entry H) : e ∈ erase p h ↔ e ∈ p ∧ e.hash ≠ h := by
  simp [erase, List.mem_filter]

theorem keys_erase (p : Pool H) (h : H) : keys (erase p h) = (keys p).filter (fun k => !(k == h)) := by
  simp [keys, erase, List.filter_map, Function.comp_def]

theorem not_has_erase (p : Pool H) (h : H) : has (erase p h) h = false := by
  rw [has_false_iff, keys_erase]; simp

theorem erase_of_not_has (p : Pool H) (h : H) (hn : has p h = false) : erase p h = p := by
  rw [has_false_iff] at hn
  simp only [erase, List.filter_eq_self]
  intro e he
  have : e.hash ≠ h := fun heq => hn (heq ▸ List.mem_map.2 ⟨e, he, rfl⟩)
  simpa using this

theorem nodup_erase {p : Pool H} (hp : (keys p).Nodup) (h : H) : (keys (erase p h)).Nodup :=
  hp.sublist (keys_sublist (erase_sublist p h))

theorem nodup_add {p : Pool H} (hp : (keys p).Nodup) (e : Entry H) : (keys (add p e).1).Nodup := by
  unfold add
  by_cases hh : has p e.hash = true
  · simp [hh, hp]
  · have hn : e.hash ∉ keys p := by rw [← has_iff]; exact hh
    simp only [hh, Bool.false_eq_true, ↓reduceIte, keys, List.map_append, List.map_cons, List.map_nil]
    rw [List.nodup_append]
    refine ⟨hp, by simp, ?_⟩
    intro a ha b hb
    simp at hb
    subst hb
    intro hab; subst hab; exact hn ha

theorem nodup_del {p : Pool H} (hp : (keys p).Nodup) (h : H) : (keys (del p h).1).Nodup := by
  unfold del; split
  · exact nodup_erase hp h
  · exact hp

/-- the clean loop is a filter -/
theorem clean_eq_filter (p : Pool H) (hs : List H) :
    clean p hs = p.filter (fun e => !(hs.contains e.hash)) := by
  unfold clean
  induction hs generalizing p with
  | nil => simp; exact (List.filter_eq_self.2 (fun _ _ => rfl)).symm
  | cons h t ih =>
    simp only [List.foldl_cons]
    have hstep : (if has p h = true then erase p h else p) = erase p h := by
      by_cases hh : has p h = true
      · simp [hh]
      · simp only [hh]; rw [erase_of_not_has p h (by simpa using hh)]; simp
    rw [hstep, ih, erase, List.filter_filter]
    congr 1
    funext e
    by_cases he : e.hash = h
    · simp [he]
    · have : (h == e.hash) = false := by simpa using fun h' => he h'.symm
      simp [he, List.contains_cons, this, Bool.and_comm]

theorem clean_sublist (p : Pool H) (hs : List H) : (clean p hs).Sublist p := by
  rw [clean_eq_filter]; exact List.filter_sublist

/-! ### scan -/

theorem scan_cons_stale (height count : Nat) (e : Entry H) (rest : List (Entry H)) (num : Nat)
    (hf : fresh height e = false) :
    scan height count (e :: rest) num = ((scan height count rest num).1, e :: (scan height count rest num).2) := by
  simp [scan, hf]

theorem scan_cons_cut (height count : Nat) (e : Entry H) (rest : List (Entry H)) (num : Nat)
    (hf : fresh height e = true) (hc : num + 1 ≥ count) :
    scan height count (e :: rest) num = ([e], []) := by
  simp [scan, hf, hc]

theorem scan_cons_take (height count : Nat) (e : Entry H) (rest : List (Entry H)) (num : Nat)
    (hf : fresh height e = true) (hc : num + 1 < count) :
    scan height count (e :: rest) num =
      (e :: (scan height count rest (num + 1)).1, (scan height count rest (num + 1)).2) := by
  have : ¬ (count ≤ num + 1) := by omega
  simp [scan, hf, this]

/-- case analysis on one loop iteration -/
theorem scan_cases (height count : Nat) (e : Entry H) (rest : List (Entry H)) (num : Nat) :
    (fresh height e = false ∧ scan height count (e :: rest) num =
        ((scan height count rest num).1, e :: (scan height count rest num).2)) ∨
    (fresh height e = true ∧ num + 1 ≥ count ∧ scan height count (e :: rest) num = ([e], [])) ∨
    (fresh height e = true ∧ num + 1 < count ∧ scan height count (e :: rest) num =
        (e :: (scan height count rest (num + 1)).1, (scan height count rest (num + 1)).2)) := by
  cases hf : fresh height e
  · exact Or.inl ⟨rfl, scan_cons_stale height count e rest num hf⟩
  · by_cases hc : num + 1 ≥ count
    · exact Or.inr (Or.inl ⟨rfl, hc, scan_cons_cut height count e rest num hf hc⟩)
    · exact Or.inr (Or.inr ⟨rfl, by omega, scan_cons_take height count e rest num hf (by omega)⟩)

theorem scan_fst_fresh (height count : Nat) (l : List (Entry H)) (num : Nat) :
    ∀ e ∈ (scan height count l num).1, fresh height e = true := by
  induction l generalizing num with
  | nil => simp [scan]
  | cons a rest ih =>
    rcases scan_cases height count a rest num with ⟨_, h⟩ | ⟨hf, _, h⟩ | ⟨hf, _, h⟩ <;> rw [h]
    · exact ih num
    · simp [hf]
    · intro e he; simp at he; rcases he with rfl | he
      · exact hf
      · exact ih _ e he

theorem scan_snd_stale (height count : Nat) (l : List (Entry H)) (num : Nat) :
    ∀ e ∈ (scan height count l num).2, fresh height e = false := by
  induction l generalizing num with
  | nil => simp [scan]
  | cons a rest ih =>
    rcases scan_cases height count a rest num with ⟨hf, h⟩ | ⟨hf, _, h⟩ | ⟨hf, _, h⟩ <;> rw [h]
    · intro e he; simp at he; rcases he with rfl | he
      · exact hf
      · exact ih _ e he
    · simp
    · exact ih _

theorem scan_fst_sublist (height count : Nat) (l : List (Entry H)) (num : Nat) :
    (scan height count l num).1.Sublist l := by
  induction l generalizing num with
  | nil => simp [scan]
  | cons a rest ih =>
    rcases scan_cases height count a rest num with ⟨_, h⟩ | ⟨hf, _, h⟩ | ⟨hf, _, h⟩ <;> rw [h]
    · exact (ih num).cons _
    · simp
    · exact (ih _).cons_cons _

theorem scan_snd_sublist (height count : Nat) (l : List (Entry H)) (num : Nat) :
    (scan height count l num).2.Sublist l := by
  induction l generalizing num with
  | nil => simp [scan]
  | cons a rest ih =>
    rcases scan_cases height count a rest num with ⟨_, h⟩ | ⟨hf, _, h⟩ | ⟨hf, _, h⟩ <;> rw [h]
    · exact (ih num).cons_cons _
    · simp
    · exact (ih _).cons _

/-- number taken: with `num` already taken and `num < count`, the loop takes `min (count - num) #fresh`. -/
theorem scan_fst_length (height count : Nat) (l : List (Entry H)) (num : Nat) (hn : num < count) :
    (scan height count l num).1.length = min (count - num) (l.filter (fresh height)).length := by
  induction l generalizing num with
  | nil => simp [scan]
  | cons a rest ih =>
    rcases scan_cases height count a rest num with ⟨hf, h⟩ | ⟨hf, hc, h⟩ | ⟨hf, hc, h⟩ <;> rw [h]
    · simp [hf, ih num hn]
    · simp [hf]; omega
    · simp [hf, ih (num + 1) hc]; omega

/-- when the loop is not cut short it reports every stale entry -/
theorem scan_snd_complete (height count : Nat) (l : List (Entry H)) (num : Nat)
    (hlt : (scan height count l num).1.length + num < count) :
    (scan height count l num).2 = l.filter (fun e => !fresh height e) := by
  induction l generalizing num with
  | nil => simp [scan]
  | cons a rest ih =>
    rcases scan_cases height count a rest num with ⟨hf, h⟩ | ⟨hf, hc, h⟩ | ⟨hf, hc, h⟩ <;> rw [h] at hlt ⊢
    · simp [hf] at hlt ⊢; exact ih num hlt
    · simp at hlt; omega
    · simp [hf] at hlt ⊢; exact ih (num + 1) (by omega)

theorem getCount_le_length (p : Pool H) (b : Bool) (m : Nat) : getCount p b m ≤ p.length := by
  unfold getCount; split <;> omega

theorem getCount_le_max (p : Pool H) (m : Nat) (hm : 0 < m) : getCount p true m ≤ m := by
  unfold getCount; split
  · rename_i h; simp at h; omega
  · omega

theorem getCount_pos (p : Pool H) (b : Bool) (m : Nat) (hp : p ≠ []) : 0 < getCount p b m := by
  have : 0 < p.length := List.length_pos_iff.2 hp
  unfold getCount; split <;> omega

/-! ### getUnverified -/

theorem unvStep_sublist (height : Nat) (st : Pool H × CheckBlk H) (h : H) :
    (unvStep height st h).1.Sublist st.1 := by
  unfold unvStep
  split
  · simp
  · split
    · exact erase_sublist _ _
    · split <;> simp

theorem getUnverified_sublist (p : Pool H) (txs : List H) (height : Nat) :
    (getUnverified p txs height).1.Sublist p := by
  unfold getUnverified
  suffices h : ∀ (st : Pool H × CheckBlk H), (txs.foldl (unvStep height) st).1.Sublist st.1 from h _
  induction txs with
  | nil => intro st; simp
  | cons t ts ih => intro st; simp only [List.foldl_cons]; exact (ih _).trans (unvStep_sublist height st t)

theorem find?_some_mem {p : Pool H} {h : H} {e : Entry H} (hf : find? p h = some e) : e ∈ p ∧ e.hash = h := by
  unfold find? at hf
  exact ⟨List.mem_of_find?_eq_some hf, by simpa using List.find?_some hf⟩

theorem find?_none_iff (p : Pool H) (h : H) : find? p h = none ↔ h ∉ keys p := by
  simp [find?, keys, List.find?_eq_none]

/-! ### getUnverified against its specification -/

theorem find?_filter_other (q : Pool H) (g : Entry H → Bool) (t : H) (hg : ∀ e ∈ q, e.hash = t → g e = true) :
    find? (q.filter g) t = find? q t := by
  induction q with
  | nil => rfl
  | cons a r ih =>
    have ih' := ih (fun e he => hg e (List.mem_cons_of_mem _ he))
    unfold find? at ih' ⊢
    by_cases ha : a.hash = t
    · have hga := hg a (List.mem_cons_self) ha
      simp [List.filter_cons, hga, List.find?_cons, ha]
    · by_cases hga : g a = true
      · simp [List.filter_cons, hga, List.find?_cons, ha, ih']
      · simp [List.filter_cons, hga, List.find?_cons, ha, ih']

theorem eq_of_nodup_map {α β : Type} (f : α → β) (l : List α) (hn : (l.map f).Nodup) (a b : α)
    (ha : a ∈ l) (hb : b ∈ l) (hf : f a = f b) : a = b := by
  induction l with
  | nil => cases ha
  | cons x r ih =>
    simp only [List.map_cons, List.nodup_cons, List.mem_map, not_exists, not_and] at hn
    rcases List.mem_cons.1 ha with rfl | ha' <;> rcases List.mem_cons.1 hb with rfl | hb'
    · rfl
    · exact absurd hf.symm (hn.1 b hb')
    · exact absurd hf (hn.1 a ha')
    · exact ih hn.2 ha' hb'

theorem unvStep_pool (height : Nat) (q : Pool H) (r : CheckBlk H) (t : H) (hq : (keys q).Nodup) :
    (unvStep height (q, r) t).1 = q.filter (fun e => !(e.hash == t && !fresh height e)) ∧
    (unvStep height (q, r) t).2 = classify height q t r := by
  unfold unvStep classify
  cases hf : find? q t with
  | none =>
    simp only [hf]
    refine ⟨?_, trivial⟩
    have hn := (find?_none_iff q t).1 hf
    symm; rw [List.filter_eq_self]
    intro e he
    have : e.hash ≠ t := fun h => hn (h ▸ List.mem_map.2 ⟨e, he, rfl⟩)
    simp [this]
  | some e0 =>
    simp only [hf]
    obtain ⟨hmem, hh⟩ := find?_some_mem hf
    -- the entry with hash t is unique
    have uniq : ∀ e ∈ q, e.hash = t → e = e0 := by
      intro e he het
      have hnd : (q.map (·.hash)).Nodup := hq
      exact eq_of_nodup_map (·.hash) q hnd e e0 he hmem (by rw [het, hh])
    by_cases hfr : fresh height e0 = true
    · simp only [hfr, Bool.not_true, Bool.false_eq_true, ↓reduceIte]
      have hkeep : q = q.filter (fun e => !(e.hash == t && !fresh height e)) := by
        symm; rw [List.filter_eq_self]
        intro e he
        by_cases het : e.hash = t
        · rw [uniq e he het]; simp [hfr]
        · simp [het]
      cases hs : List.find? (fun a : Attr => a.stateful) e0.attrs with
      | none => exact ⟨hkeep, rfl⟩
      | some a => exact ⟨hkeep, rfl⟩
    · have hfr' : fresh height e0 = false := by simpa using hfr
      simp only [hfr', Bool.not_false, ↓reduceIte]
      refine ⟨?_, trivial⟩
      unfold erase
      apply List.filter_congr
      intro e he
      by_cases het : e.hash = t
      · rw [uniq e he het]; simp [hh, hfr']
      · simp [het]

theorem classify_congr (height : Nat) (p q : Pool H) (t : H) (r : CheckBlk H) (h : find? q t = find? p t) :
    classify height q t r = classify height p t r := by
  unfold classify; rw [h]

theorem getUnverified_fold (height : Nat) (p : Pool H) (txs : List H) :
    ∀ (q : Pool H) (r : CheckBlk H), (keys q).Nodup → (∀ t ∈ txs, find? q t = find? p t) → txs.Nodup →
      txs.foldl (unvStep height) (q, r) =
        (q.filter (fun e => !(txs.contains e.hash && !fresh height e)),
         txs.foldl (fun r t => classify height p t r) r) := by
  induction txs with
  | nil =>
    intro q r _ _ _
    simp only [List.foldl_nil, Prod.mk.injEq, and_true]
    symm; rw [List.filter_eq_self]; intro e _; simp
  | cons t ts ih =>
    intro q r hq hfind hnd
    obtain ⟨hnt, hnts⟩ := List.nodup_cons.1 hnd
    obtain ⟨h1, h2⟩ := unvStep_pool height q r t hq
    have hstep : unvStep height (q, r) t =
        (q.filter (fun e => !(e.hash == t && !fresh height e)), classify height p t r) := by
      rw [← classify_congr height p q t r (hfind t List.mem_cons_self), ← h1, ← h2]
    simp only [List.foldl_cons, hstep]
    have hq' : (keys (q.filter (fun e => !(e.hash == t && !fresh height e)))).Nodup :=
      hq.sublist (keys_sublist List.filter_sublist)
    have hfind' : ∀ u ∈ ts, find? (q.filter (fun e => !(e.hash == t && !fresh height e))) u = find? p u := by
      intro u hu
      have hut : u ≠ t := fun e => hnt (e ▸ hu)
      rw [find?_filter_other q _ u (by
        intro e _ heu
        have : e.hash ≠ t := fun e' => hut (heu ▸ e')
        simp [this])]
      exact hfind u (List.mem_cons_of_mem _ hu)
    rw [ih _ _ hq' hfind' hnts, List.filter_filter]
    congr 1
    apply List.filter_congr
    intro e _
    by_cases het : e.hash = t
    · simp [het]; intro h; exact Or.inr h
    · have : (t == e.hash) = false := by simpa using fun h => het h.symm
      simp [het, List.contains_cons, this]

/-! ### worker level -/

theorem mem_foldl_add (l : List (H × List Attr)) (q : Pool H) (e : Entry H)
    (he : e ∈ l.foldl (fun q p => (add q ⟨p.1, p.2⟩).1) q) : e ∈ q ∨ ∃ p ∈ l, e = ⟨p.1, p.2⟩ := by
  induction l generalizing q with
  | nil => exact Or.inl he
  | cons a t ih =>
    simp only [List.foldl_cons] at he
    rcases ih _ he with h | ⟨p, hp, rfl⟩
    · unfold add at h
      split at h
      · exact Or.inl h
      · simp only [List.mem_append, List.mem_singleton] at h
        rcases h with h | rfl
        · exact Or.inl h
        · exact Or.inr ⟨a, List.mem_cons_self, rfl⟩
    · exact Or.inr ⟨p, List.mem_cons_of_mem _ hp, rfl⟩

/-! ### all operation sequences -/

theorem step_nodup {p : Pool H} (hp : (keys p).Nodup) (op : Op H) : (keys (step p op)).Nodup := by
  cases op with
  | add e => exact nodup_add hp e
  | del h => exact nodup_del hp h
  | clean hs => exact hp.sublist (keys_sublist (clean_sublist p hs))
  | get _ _ _ _ => exact hp
  | unverified txs height => exact hp.sublist (keys_sublist (getUnverified_sublist p txs height))
  | remain => simp [step, keys]

theorem foldl_step_nodup (ops : List (Op H)) {p : Pool H} (hp : (keys p).Nodup) :
    (keys (ops.foldl step p)).Nodup := by
  induction ops generalizing p with
  | nil => exact hp
  | cons o os ih => exact ih (step_nodup hp o)

end

/-! ### Server-level model -/

def flag (b : Bool) : Nat := if b then 1 else 0

/-- Invariant of the admission fragment. -/
def AInv (C L : Nat) (s : Srv) : Prop :=
  s.other = 0 ∧ s.limbo = 0 ∧ s.slots + s.flying + s.landed ≤ L ∧
  s.pool + s.flying + flag s.passed ≤ C ∧
  (∀ q, s.snap = some q → s.flying ≤ q ∧ s.passed = false)

theorem AInv_init (C L : Nat) : AInv C L (Srv.init L) := by
  simp [AInv, Srv.init, flag]

theorem refill_cases (L : Nat) (s : Srv) :
    (Srv.refill L s = s) ∨ (s.pending < L ∧ Srv.refill L s = { s with slots := min (s.slots + 1) L }) := by
  unfold Srv.refill; split
  · right; exact ⟨by assumption, rfl⟩
  · left; rfl

theorem AInv_step {C L : Nat} {s t : Srv} (hi : AInv C L s) (hs : AStep C L s t) : AInv C L t := by
  obtain ⟨h0, hl, h1, h2, h3⟩ := hi
  cases hs with
  | snapshot hp hsn =>
    refine ⟨h0, hl, h1, h2, ?_⟩
    intro q hq
    simp at hq
    subst hq
    exact ⟨by simp [Srv.pending]; omega, hp⟩
  | checkOk q hsn hc =>
    obtain ⟨hf, hp⟩ := h3 q hsn
    refine ⟨h0, hl, h1, ?_, ?_⟩
    · simp [flag]; omega
    · intro q' hq'; simp at hq'
  | checkFull q hsn hc =>
    refine ⟨h0, hl, h1, h2, ?_⟩
    intro q' hq'; simp at hq'
  | take hp hsl =>
    have hsn : s.snap = none := by
      cases hq : s.snap with
      | none => rfl
      | some q => have := (h3 q hq).2; simp [hp] at this
    refine ⟨h0, hl, ?_, ?_, ?_⟩
    · simp; omega
    · simp [flag, hp] at h2 ⊢; omega
    · intro q hq; simp [hsn] at hq
  | takeDup hp hsl =>
    have hsn : s.snap = none := by
      cases hq : s.snap with
      | none => rfl
      | some q => have := (h3 q hq).2; simp [hp] at this
    refine ⟨h0, hl, ?_, ?_, ?_⟩
    · simp; omega
    · simp [flag, hp] at h2 ⊢; omega
    · intro q hq; simp [hsn] at hq
  | land hf =>
    refine ⟨h0, hl, ?_, ?_, ?_⟩
    · simp; omega
    · simp; omega
    · intro q hq
      obtain ⟨a, b⟩ := h3 q (by simpa using hq)
      exact ⟨by simp; omega, b⟩
  | release hld =>
    rcases refill_cases L { s with landed := s.landed - 1 } with h | ⟨hlt, h⟩
    · rw [h]; refine ⟨h0, hl, ?_, by simpa using h2, ?_⟩
      · simp; omega
      · intro q hq; exact h3 q (by simpa using hq)
    · rw [h]; refine ⟨h0, hl, ?_, by simpa using h2, ?_⟩
      · simp [Srv.pending] at hlt ⊢; omega
      · intro q hq; exact h3 q (by simpa using hq)
  | fail hf =>
    rcases refill_cases L { s with flying := s.flying - 1 } with h | ⟨hlt, h⟩
    · rw [h]; refine ⟨h0, hl, ?_, ?_, ?_⟩
      · simp; omega
      · simp; omega
      · intro q hq
        obtain ⟨a, b⟩ := h3 q (by simpa using hq)
        exact ⟨by simp; omega, b⟩
    · rw [h]; refine ⟨h0, hl, ?_, ?_, ?_⟩
      · simp [Srv.pending] at hlt ⊢; omega
      · simp; omega
      · intro q hq
        obtain ⟨a, b⟩ := h3 q (by simpa using hq)
        exact ⟨by simp; omega, b⟩
  | clean k hk =>
    refine ⟨h0, hl, h1, ?_, ?_⟩
    · simp; omega
    · intro q hq; exact h3 q (by simpa using hq)

theorem AInv_reach {C L : Nat} {s : Srv} (hr : Reach (AStep C L) (Srv.init L) s) : AInv C L s := by
  induction hr with
  | init => exact AInv_init C L
  | step s t _ hst ih => exact AInv_step ih hst

theorem Reach.trans {σ : Type} {r : σ → σ → Prop} {a b c : σ} (h1 : Reach r a b) (h2 : Reach r b c) :
    Reach r a c := by
  induction h2 with
  | init => exact h1
  | step s t _ hst ih => exact Reach.step s t ih hst

theorem Reach.mono {σ : Type} {r r' : σ → σ → Prop} (h : ∀ a b, r a b → r' a b) {a b : σ}
    (hr : Reach r a b) : Reach r' a b := by
  induction hr with
  | init => exact Reach.init
  | step s t _ hst ih => exact Reach.step s t ih (h s t hst)

/-! #### witness interleavings -/

/-- one complete admission into a quiet server below capacity -/
theorem admit_one {C L : Nat} (p : Nat) (hp : p < C) (hL : 0 < L) :
    Reach (AStep C L) ⟨p, 0, 0, 0, 0, L, none, false⟩ ⟨p + 1, 0, 0, 0, 0, L, none, false⟩ := by
  have s0 : AStep C L ⟨p, 0, 0, 0, 0, L, none, false⟩ ⟨p, 0, 0, 0, 0, L, some 0, false⟩ := AStep.snapshot _ rfl rfl
  have s1 : AStep C L ⟨p, 0, 0, 0, 0, L, some 0, false⟩ ⟨p, 0, 0, 0, 0, L, none, true⟩ :=
    AStep.checkOk _ 0 rfl (by simpa using hp)
  have s2 : AStep C L ⟨p, 0, 0, 0, 0, L, none, true⟩ ⟨p, 1, 0, 0, 0, L - 1, none, false⟩ := AStep.take _ rfl hL
  have s3 : AStep C L ⟨p, 1, 0, 0, 0, L - 1, none, false⟩ ⟨p + 1, 0, 1, 0, 0, L - 1, none, false⟩ :=
    AStep.land _ (by simp)
  have s4 : AStep C L ⟨p + 1, 0, 1, 0, 0, L - 1, none, false⟩ ⟨p + 1, 0, 0, 0, 0, L, none, false⟩ := by
    have := AStep.release (C := C) (L := L) ⟨p + 1, 0, 1, 0, 0, L - 1, none, false⟩ (by simp)
    have e : Srv.refill L ⟨p + 1, 0, 0, 0, 0, L - 1, none, false⟩ = ⟨p + 1, 0, 0, 0, 0, L, none, false⟩ := by
      have h1 : (⟨p + 1, 0, 0, 0, 0, L - 1, none, false⟩ : Srv).pending < L := by simp [Srv.pending]; omega
      have h2 : min (L - 1 + 1) L = L := by omega
      simp only [Srv.refill, h1, ↓reduceIte, h2]
    rw [← e]; exact this
  exact (((Reach.init.step _ _ s0).step _ _ s1).step _ _ s2 |>.step _ _ s3).step _ _ s4

/-- fill the pool sequentially to `n ≤ C` -/
theorem reach_fill {C L : Nat} (hL : 0 < L) (n : Nat) (hn : n ≤ C) :
    Reach (AStep C L) (Srv.init L) ⟨n, 0, 0, 0, 0, L, none, false⟩ := by
  induction n with
  | zero => exact Reach.init
  | succ k ih => exact (ih (by omega)).trans (admit_one k (by omega) hL)

/-- `k` pending re-verifications / block verifications all complete -/
theorem back_many {C L : Nat} (p k f sl : Nat) :
    ∃ sl', Reach (RStep C L) ⟨p, f, 0, k, 0, sl, none, false⟩ ⟨p + k, f, 0, 0, 0, sl', none, false⟩ := by
  induction k generalizing p sl with
  | zero => exact ⟨sl, Reach.init⟩
  | succ j ih =>
    have s2 := RStep.back (C := C) (L := L) ⟨p, f, 0, j + 1, 0, sl, none, false⟩ (by simp)
    rcases refill_cases L { (⟨p, f, 0, j + 1, 0, sl, none, false⟩ : Srv) with other := j + 1 - 1, pool := p + 1 } with h | ⟨_, h⟩
    · rw [h] at s2
      obtain ⟨sl', hr⟩ := ih (p + 1) sl
      refine ⟨sl', ?_⟩
      have e : p + 1 + j = p + (j + 1) := by omega
      rw [← e]
      exact (Reach.init.step _ _ (by simpa using s2)).trans hr
    · rw [h] at s2
      obtain ⟨sl', hr⟩ := ih (p + 1) (min (sl + 1) L)
      refine ⟨sl', ?_⟩
      have e : p + 1 + j = p + (j + 1) := by omega
      rw [← e]
      exact (Reach.init.step _ _ (by simpa using s2)).trans hr

/-- `k` transactions in limbo all enter the pending list -/
theorem requeue_many {C L : Nat} (p k o f sl : Nat) (b : Bool) :
    Reach (RStep C L) ⟨p, f, 0, o, k, sl, none, b⟩ ⟨p, f, 0, o + k, 0, sl, none, b⟩ := by
  induction k generalizing o with
  | zero => exact Reach.init
  | succ j ih =>
    have s1 : RStep C L ⟨p, f, 0, o, j + 1, sl, none, b⟩ ⟨p, f, 0, o + 1, j, sl, none, b⟩ :=
      RStep.requeue _ (by simp)
    have e : o + (j + 1) = o + 1 + j := by omega
    rw [e]
    exact (Reach.init.step _ _ s1).trans (ih (o + 1))

/-! #### executable macro-steps -/

theorem orStay_reach {C L : Nat} (f : Srv → Option Srv) (hf : ∀ s t, f s = some t → FStep C L s t) (s : Srv) :
    Reach (FStep C L) s (orStay f s) := by
  unfold orStay
  cases h : f s with
  | none => exact Reach.init
  | some t => exact Reach.init.step _ _ (hf s t h)

theorem iter_reach {C L : Nat} (g : Srv → Srv) (hg : ∀ s, Reach (FStep C L) s (g s)) (n : Nat) (s : Srv) :
    Reach (FStep C L) s (iter n g s) := by
  induction n generalizing s with
  | zero => exact Reach.init
  | succ k ih => exact (hg s).trans (ih (g s))

end Poly.Model.Pool
