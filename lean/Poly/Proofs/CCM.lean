import Poly.Model.CCM
/-! Lemmas about the cross-chain-manager entrance model (C20, C21, C22). -/
namespace Poly.Model.CCM

variable {α ι : Type}

/-- state after a successful `MakeDepositProposal` that returned a message -/
def afterAccept (env : Env) (s : State α) (src : Nat) (p : MakeTxParam) (aux : α) : State α :=
  if env.doneGate then { s with aux := aux, done := (src, p.crossChainID) :: s.done } else { s with aux := aux }

/-- Everything an import needs in order to get past the gates with a verified message `p`. -/
structure Accepted (o : Oracles α ι) (env : Env) (s : State α) (src : Nat) (inp : ι)
    (router : Nat) (p : MakeTxParam) (aux : α) (trouter : Nat) : Prop where
  src_not_black : src ∉ s.black
  src_registered : s.chains.lookup src = some router
  router_supported : supportedRouters.contains router = true
  router_active : ¬ env.height < routerStartBlock env.mainNet router
  verified : o.verify router env s inp = .accept p aux
  fresh : env.doneGate = true → (src, p.crossChainID) ∉ s.done
  dst_not_black : p.toChainID ∉ s.black
  dst_registered : s.chains.lookup p.toChainID = some trouter

/-- Case analysis of `ImportExTransfer`. -/
theorem import_cases (H : Bytes → Bytes) (o : Oracles α ι) (env : Env) (s : State α) (src : Nat) (inp : ι) :
    (∃ c, importExTransfer H o env s src inp = fail s c)
    ∨ importExTransfer H o env s src inp = ⟨.panic, s, []⟩
    ∨ (∃ router aux, s.chains.lookup src = some router ∧ src ∉ s.black ∧ supportedRouters.contains router = true ∧
        ¬ env.height < routerStartBlock env.mainNet router ∧ o.verify router env s inp = .pending aux ∧
        importExTransfer H o env s src inp = ⟨.okPending, { s with aux := aux }, []⟩)
    ∨ (∃ router p aux trouter, Accepted o env s src inp router p aux trouter ∧
        trouter ≠ BTC_ROUTER ∧ trouter ≠ RIPPLE_ROUTER ∧
        importExTransfer H o env s src inp =
          ⟨.ok, (makeTransaction H env (afterAccept env s src p aux) p src).1,
            (makeTransaction H env (afterAccept env s src p aux) p src).2⟩)
    ∨ (∃ router p aux trouter s2, Accepted o env s src inp router p aux trouter ∧
        (o.btcMake env (afterAccept env s src p aux) p src = some s2 ∨
         o.rippleMake env (afterAccept env s src p aux) p src = some s2) ∧
        importExTransfer H o env s src inp = ⟨.okDelegated, s2, []⟩) := by
  unfold importExTransfer
  by_cases hb : src ∈ s.black
  · left; exact ⟨"src-black", by simp [hb]⟩
  simp only [hb, if_false]
  cases hl : s.chains.lookup src with
  | none => left; exact ⟨"src-unreg", rfl⟩
  | some router =>
    simp only
    by_cases hsup' : ¬ supportedRouters.contains router = true
    · left; exact ⟨"router", by simp [hsup']⟩
    have hsup : supportedRouters.contains router = true := Decidable.not_not.mp hsup'
    simp only [hsup, Bool.not_true, Bool.false_eq_true, if_false]
    by_cases hh : env.height < routerStartBlock env.mainNet router
    · left; exact ⟨"router", by simp [hh]⟩
    simp only [hh, if_false]
    unfold makeDepositProposal
    cases hv : o.verify router env s inp with
    | reject c => left; exact ⟨c, rfl⟩
    | pending aux =>
      simp only
      by_cases hr : (router == VOTE_ROUTER || router == RIPPLE_ROUTER) = true
      · right; right; left
        exact ⟨router, aux, rfl, hb, hsup, hh, hv, by simp [hr]⟩
      · right; left; simp [hr]
    | accept p aux =>
      simp only
      by_cases hg : env.doneGate = true
      · simp only [hg, if_true]
        by_cases hd : (src, p.crossChainID) ∈ s.done
        · left; exact ⟨"done", by simp [hd]⟩
        simp only [hd, if_false]
        by_cases hdb : p.toChainID ∈ s.black
        · left; exact ⟨"dst-black", by simp [hdb]⟩
        simp only [hdb, if_false]
        cases hdl : s.chains.lookup p.toChainID with
        | none => left; exact ⟨"dst-unreg", rfl⟩
        | some trouter =>
          have hacc : Accepted o env s src inp router p aux trouter :=
            ⟨hb, hl, hsup, hh, hv, fun _ => hd, hdb, hdl⟩
          have hs1 : afterAccept env s src p aux = { s with aux := aux, done := (src, p.crossChainID) :: s.done } := by
            simp [afterAccept, hg]
          simp only
          by_cases hbtc : (trouter == BTC_ROUTER) = true
          · simp only [hbtc, if_true]
            cases hm : o.btcMake env { s with aux := aux, done := (src, p.crossChainID) :: s.done } p src with
            | none => left; exact ⟨"verify", rfl⟩
            | some s2 =>
              right; right; right; right
              exact ⟨router, p, aux, trouter, s2, hacc, Or.inl (by rw [hs1]; exact hm), rfl⟩
          · simp only [hbtc, Bool.false_eq_true, if_false]
            by_cases hrip : (trouter == RIPPLE_ROUTER) = true
            · simp only [hrip, if_true]
              cases hm : o.rippleMake env { s with aux := aux, done := (src, p.crossChainID) :: s.done } p src with
              | none => left; exact ⟨"verify", rfl⟩
              | some s2 =>
                right; right; right; right
                exact ⟨router, p, aux, trouter, s2, hacc, Or.inr (by rw [hs1]; exact hm), rfl⟩
            · simp only [hrip, Bool.false_eq_true, if_false]
              right; right; right; left
              refine ⟨router, p, aux, trouter, hacc, ?_, ?_, ?_⟩
              · intro h; exact hbtc (by simp [h])
              · intro h; exact hrip (by simp [h])
              · rw [hs1]
      · simp only [hg, Bool.false_eq_true, if_false]
        by_cases hdb : p.toChainID ∈ s.black
        · left; exact ⟨"dst-black", by simp [hdb]⟩
        simp only [hdb, if_false]
        cases hdl : s.chains.lookup p.toChainID with
        | none => left; exact ⟨"dst-unreg", rfl⟩
        | some trouter =>
          have hacc : Accepted o env s src inp router p aux trouter :=
            ⟨hb, hl, hsup, hh, hv, fun h => absurd h hg, hdb, hdl⟩
          have hs1 : afterAccept env s src p aux = { s with aux := aux } := by
            simp [afterAccept, hg]
          simp only
          by_cases hbtc : (trouter == BTC_ROUTER) = true
          · simp only [hbtc, if_true]
            cases hm : o.btcMake env { s with aux := aux } p src with
            | none => left; exact ⟨"verify", rfl⟩
            | some s2 =>
              right; right; right; right
              exact ⟨router, p, aux, trouter, s2, hacc, Or.inl (by rw [hs1]; exact hm), rfl⟩
          · simp only [hbtc, Bool.false_eq_true, if_false]
            by_cases hrip : (trouter == RIPPLE_ROUTER) = true
            · simp only [hrip, if_true]
              cases hm : o.rippleMake env { s with aux := aux } p src with
              | none => left; exact ⟨"verify", rfl⟩
              | some s2 =>
                right; right; right; right
                exact ⟨router, p, aux, trouter, s2, hacc, Or.inr (by rw [hs1]; exact hm), rfl⟩
            · simp only [hrip, Bool.false_eq_true, if_false]
              right; right; right; left
              refine ⟨router, p, aux, trouter, hacc, ?_, ?_, ?_⟩
              · intro h; exact hbtc (by simp [h])
              · intro h; exact hrip (by simp [h])
              · rw [hs1]

end Poly.Model.CCM
