import Poly.Model.CCM
/-! Lemmas about the cross-chain-manager entrance model (C20, C21, C22). -/
namespace Poly.Model.CCM

variable {α ι : Type}

/-- state after a successful `MakeDepositProposal` that returned a message -/
def afterAccept (gate : Bool) (s : State α) (src : Nat) (p : MakeTxParam) (aux : α) : State α :=
  if gate then { s with aux := aux, done := (src, p.crossChainID) :: s.done } else { s with aux := aux }

/-- Everything an import needs in order to get past the gates with a verified message `p`. -/
structure Accepted (o : Oracles α ι) (env : Env) (s : State α) (src : Nat) (inp : ι)
    (router : Nat) (p : MakeTxParam) (aux : α) (trouter : Nat) : Prop where
  src_not_black : src ∉ s.black
  src_registered : s.chains.lookup src = some router
  router_supported : router ∈ supportedRouters
  router_active : ¬ env.height < routerStartBlock env.mainNet router
  verified : o.verify router env s inp = .accept p aux
  fresh : doneActive env router = true → (src, p.crossChainID) ∉ s.done
  dst_not_black : p.toChainID ∉ s.black
  dst_registered : s.chains.lookup p.toChainID = some trouter

/-- Case analysis of `ImportExTransfer`. -/
theorem import_cases (H : Bytes → Bytes) (o : Oracles α ι) (env : Env) (s : State α) (src : Nat) (inp : ι) :
    (∃ c, importExTransfer H o env s src inp = fail s c)
    ∨ importExTransfer H o env s src inp = ⟨.panic, s, []⟩
    ∨ (∃ router aux, s.chains.lookup src = some router ∧ src ∉ s.black ∧ router ∈ supportedRouters ∧
        ¬ env.height < routerStartBlock env.mainNet router ∧ o.verify router env s inp = .pending aux ∧
        importExTransfer H o env s src inp = ⟨.okPending, { s with aux := aux }, []⟩)
    ∨ (∃ router p aux trouter, Accepted o env s src inp router p aux trouter ∧
        trouter ≠ BTC_ROUTER ∧ trouter ≠ RIPPLE_ROUTER ∧
        importExTransfer H o env s src inp =
          ⟨.ok, (makeTransaction H env (afterAccept (doneActive env router) s src p aux) p src).1,
            (makeTransaction H env (afterAccept (doneActive env router) s src p aux) p src).2⟩)
    ∨ (∃ router p aux trouter s2, Accepted o env s src inp router p aux trouter ∧
        (o.btcMake env (afterAccept (doneActive env router) s src p aux) p src = some s2 ∨
         o.rippleMake env (afterAccept (doneActive env router) s src p aux) p src = some s2) ∧
        importExTransfer H o env s src inp = ⟨.okDelegated, s2, []⟩) := by
  unfold importExTransfer
  by_cases hb : src ∈ s.black
  · left; exact ⟨"src-black", by rw [if_pos hb]⟩
  rw [if_neg hb]
  cases hl : s.chains.lookup src with
  | none => left; exact ⟨"src-unreg", rfl⟩
  | some router =>
    simp only
    by_cases hsup' : router ∉ supportedRouters
    · left; exact ⟨"router", by rw [if_pos hsup']⟩
    have hsup : router ∈ supportedRouters := Decidable.not_not.mp hsup'
    rw [if_neg hsup']
    by_cases hh : env.height < routerStartBlock env.mainNet router
    · left; exact ⟨"router", by rw [if_pos hh]⟩
    rw [if_neg hh]
    unfold makeDepositProposal
    cases hv : o.verify router env s inp with
    | reject c => left; exact ⟨c, rfl⟩
    | pending aux =>
      simp only
      by_cases hr : router = VOTE_ROUTER ∨ router = RIPPLE_ROUTER
      · right; right; left
        exact ⟨router, aux, rfl, hb, hsup, hh, hv, by rw [if_pos hr]⟩
      · right; left; rw [if_neg hr]
    | accept p aux =>
      simp only
      by_cases hg : doneActive env router = true
      · simp only [hg, if_true]
        by_cases hd : (src, p.crossChainID) ∈ s.done
        · left; exact ⟨"done", by simp [hd]⟩
        simp only [hd, if_false]
        by_cases hdb : p.toChainID ∈ s.black
        · left; exact ⟨"dst-black", by simp [hdb]⟩
        simp only [hdb, if_false]
        cases hdl : s.chains.lookup p.toChainID with
        | none => left; exact ⟨"dst-unreg", rfl⟩
        | some trouter =>
          have hacc : Accepted o env s src inp router p aux trouter :=
            ⟨hb, hl, hsup, hh, hv, fun _ => hd, hdb, hdl⟩
          have hs1 : afterAccept (doneActive env router) s src p aux = { s with aux := aux, done := (src, p.crossChainID) :: s.done } := by
            simp [afterAccept, hg]
          simp only
          by_cases hbtc : trouter = BTC_ROUTER
          · rw [if_pos hbtc]
            cases hm : o.btcMake env { s with aux := aux, done := (src, p.crossChainID) :: s.done } p src with
            | none => left; exact ⟨"verify", rfl⟩
            | some s2 =>
              right; right; right; right
              exact ⟨router, p, aux, trouter, s2, hacc, Or.inl (by rw [hs1]; exact hm), rfl⟩
          · rw [if_neg hbtc]
            by_cases hrip : trouter = RIPPLE_ROUTER
            · rw [if_pos hrip]
              cases hm : o.rippleMake env { s with aux := aux, done := (src, p.crossChainID) :: s.done } p src with
              | none => left; exact ⟨"verify", rfl⟩
              | some s2 =>
                right; right; right; right
                exact ⟨router, p, aux, trouter, s2, hacc, Or.inr (by rw [hs1]; exact hm), rfl⟩
            · rw [if_neg hrip]
              right; right; right; left
              refine ⟨router, p, aux, trouter, hacc, ?_, ?_, ?_⟩
              · exact hbtc
              · exact hrip
              · rw [hs1]
      · simp only [hg, Bool.false_eq_true, if_false]
        by_cases hdb : p.toChainID ∈ s.black
        · left; exact ⟨"dst-black", by simp [hdb]⟩
        simp only [hdb, if_false]
        cases hdl : s.chains.lookup p.toChainID with
        | none => left; exact ⟨"dst-unreg", rfl⟩
        | some trouter =>
          have hacc : Accepted o env s src inp router p aux trouter :=
            ⟨hb, hl, hsup, hh, hv, fun h => absurd h hg, hdb, hdl⟩
          have hs1 : afterAccept (doneActive env router) s src p aux = { s with aux := aux } := by
            simp [afterAccept, hg]
          simp only
          by_cases hbtc : trouter = BTC_ROUTER
          · rw [if_pos hbtc]
            cases hm : o.btcMake env { s with aux := aux } p src with
            | none => left; exact ⟨"verify", rfl⟩
            | some s2 =>
              right; right; right; right
              exact ⟨router, p, aux, trouter, s2, hacc, Or.inl (by rw [hs1]; exact hm), rfl⟩
          · rw [if_neg hbtc]
            by_cases hrip : trouter = RIPPLE_ROUTER
            · rw [if_pos hrip]
              cases hm : o.rippleMake env { s with aux := aux } p src with
              | none => left; exact ⟨"verify", rfl⟩
              | some s2 =>
                right; right; right; right
                exact ⟨router, p, aux, trouter, s2, hacc, Or.inr (by rw [hs1]; exact hm), rfl⟩
            · rw [if_neg hrip]
              right; right; right; left
              refine ⟨router, p, aux, trouter, hacc, ?_, ?_, ?_⟩
              · exact hbtc
              · exact hrip
              · rw [hs1]

/-! ## consequences -/

/-- The BTC / ripple transaction builders (oracles) do not touch done marks, the blacklist or the registry. -/
def DelegatesConfined (o : Oracles α ι) : Prop :=
  ∀ env s p src s2, (o.btcMake env s p src = some s2 ∨ o.rippleMake env s p src = some s2) →
    s2.done = s.done ∧ s2.black = s.black ∧ s2.chains = s.chains

@[simp] theorem afterAccept_black (env : Bool) (s : State α) (src : Nat) (p : MakeTxParam) (aux : α) :
    (afterAccept env s src p aux).black = s.black := by unfold afterAccept; split <;> rfl
@[simp] theorem afterAccept_chains (env : Bool) (s : State α) (src : Nat) (p : MakeTxParam) (aux : α) :
    (afterAccept env s src p aux).chains = s.chains := by unfold afterAccept; split <;> rfl
@[simp] theorem afterAccept_requests (env : Bool) (s : State α) (src : Nat) (p : MakeTxParam) (aux : α) :
    (afterAccept env s src p aux).requests = s.requests := by unfold afterAccept; split <;> rfl
theorem afterAccept_done (g : Bool) (s : State α) (src : Nat) (p : MakeTxParam) (aux : α) :
    (afterAccept g s src p aux).done = if g then (src, p.crossChainID) :: s.done else s.done := by
  unfold afterAccept; split <;> rfl

/-- What an import does to the done marks, and which message it executed. -/
theorem import_done (H : Bytes → Bytes) (o : Oracles α ι) (hconf : DelegatesConfined o)
    (env : Env) (s : State α) (src : Nat) (inp : ι) :
    (acceptedId H o s (.importTx env src inp) = none ∧ (importExTransfer H o env s src inp).state.done = s.done)
    ∨ (∃ (p : MakeTxParam) (g : Bool), acceptedId H o s (.importTx env src inp) = some (src, p.crossChainID) ∧
        (env.doneGate = true → g = true) ∧
        (g = true → (src, p.crossChainID) ∉ s.done) ∧
        (importExTransfer H o env s src inp).state.done =
          if g then (src, p.crossChainID) :: s.done else s.done) := by
  rcases import_cases H o env s src inp with ⟨c, h⟩ | h | ⟨router, aux, _, _, _, _, _, h⟩ |
      ⟨router, p, aux, tr, hacc, _, _, h⟩ | ⟨router, p, aux, tr, s2, hacc, hm, h⟩
  · left; simp [acceptedId, h, fail]
  · left; simp [acceptedId, h]
  · left; simp [acceptedId, h]
  · right
    refine ⟨p, doneActive env router, ?_, fun hg => by simp [doneActive, hg], hacc.fresh, ?_⟩
    · simp [acceptedId, h, hacc.src_registered, hacc.verified]
    · rw [h]; simp [makeTransaction, afterAccept_done]
  · right
    refine ⟨p, doneActive env router, ?_, fun hg => by simp [doneActive, hg], hacc.fresh, ?_⟩
    · simp [acceptedId, h, hacc.src_registered, hacc.verified]
    · rw [h]
      have := (hconf env _ p src s2 hm).1
      simp [this, afterAccept_done]

theorem step_done_mono (H : Bytes → Bytes) (o : Oracles α ι) (hconf : DelegatesConfined o) (s : State α) (op : Op ι)
    (m : Nat × Bytes) (hm : m ∈ s.done) : m ∈ (step H o s op).done := by
  cases op with
  | importTx env src inp =>
    simp only [step]
    rcases import_done H o hconf env s src inp with ⟨_, h⟩ | ⟨p, g, _, _, _, h⟩
    · rw [h]; exact hm
    · rw [h]; split
      · exact List.mem_cons_of_mem _ hm
      · exact hm
  | black w c => simp only [step, blackChain]; split <;> exact hm
  | white w c => simp only [step, whiteChain]; split <;> exact hm
  | register c r => exact hm
  | unregister c => exact hm

theorem run_done_mono (H : Bytes → Bytes) (o : Oracles α ι) (hconf : DelegatesConfined o) (ops : List (Op ι))
    (s : State α) (m : Nat × Bytes) (hm : m ∈ s.done) : m ∈ (run H o s ops).done := by
  induction ops generalizing s with
  | nil => exact hm
  | cons op rest ih => exact ih _ (step_done_mono H o hconf s op m hm)

/-- every import of the history runs with the done check active (main net, or test net past the gate height) -/
def GateOn : List (Op ι) → Prop
  | [] => True
  | .importTx env _ _ :: rest => env.doneGate = true ∧ GateOn rest
  | _ :: rest => GateOn rest

/-- The number of times a message is executed along a history is 1 if it became marked done during the history and 0
otherwise. -/
theorem count_accepted_eq (H : Bytes → Bytes) (o : Oracles α ι) (hconf : DelegatesConfined o) (m : Nat × Bytes)
    (ops : List (Op ι)) (s : State α) (hg : GateOn ops) :
    (m ∈ (run H o s ops).done ∧ m ∉ s.done → countAccepted H o m s ops = 1) ∧
    (¬ (m ∈ (run H o s ops).done ∧ m ∉ s.done) → countAccepted H o m s ops = 0) := by
  induction ops generalizing s with
  | nil => simp [countAccepted, run]
  | cons op rest ih =>
    have hrun : run H o s (op :: rest) = run H o (step H o s op) rest := rfl
    rw [hrun]
    -- facts about one step
    have key : (acceptedId H o s op = some m ∧ m ∉ s.done ∧ m ∈ (step H o s op).done) ∨
        (acceptedId H o s op ≠ some m ∧ (m ∈ (step H o s op).done ↔ m ∈ s.done)) := by
      cases op with
      | importTx env src inp =>
        obtain ⟨hgate, _⟩ := hg
        simp only [step]
        rcases import_done H o hconf env s src inp with ⟨hnone, hd⟩ | ⟨p, g, hsome, hg', hfresh, hd⟩
        · right; rw [hnone, hd]; simp
        · have hgt := hg' hgate
          subst hgt
          simp only [if_true] at hd
          by_cases hmm : (src, p.crossChainID) = m
          · left; subst hmm
            exact ⟨hsome, hfresh rfl, by rw [hd]; exact List.mem_cons_self⟩
          · right
            refine ⟨by rw [hsome]; simpa using hmm, ?_⟩
            rw [hd]; simp [Ne.symm hmm]
      | black w c =>
        right
        have : (step H o s (Op.black w c)).done = s.done := by simp only [step, blackChain]; split <;> rfl
        simp [acceptedId, this]
      | white w c =>
        right
        have : (step H o s (Op.white w c)).done = s.done := by simp only [step, whiteChain]; split <;> rfl
        simp [acceptedId, this]
      | register c r => right; simp [acceptedId, step]
      | unregister c => right; simp [acceptedId, step]
    have hrest : GateOn rest := by
      cases op with
      | importTx env src inp => exact hg.2
      | black w c => exact hg
      | white w c => exact hg
      | register c r => exact hg
      | unregister c => exact hg
    obtain ⟨ih1, ih0⟩ := ih (step H o s op) hrest
    simp only [countAccepted]
    rcases key with ⟨hacc, hnot, hin⟩ | ⟨hacc, hiff⟩
    · have hfin := run_done_mono H o hconf rest _ _ hin
      have h0 := ih0 (fun h => h.2 hin)
      constructor
      · intro _; simp [hacc, h0]
      · intro h; exact absurd ⟨hfin, hnot⟩ h
    · constructor
      · intro ⟨h1, h2⟩
        have := ih1 ⟨h1, fun h => h2 (hiff.mp h)⟩
        simp [hacc, this]
      · intro h
        have := ih0 (fun ⟨h1, h2⟩ => h ⟨h1, fun h3 => h2 (hiff.mpr h3)⟩)
        simp [hacc, this]

/-! ## gates, blacklist, registry -/

theorem import_black_chains (H : Bytes → Bytes) (o : Oracles α ι) (hconf : DelegatesConfined o)
    (env : Env) (s : State α) (src : Nat) (inp : ι) :
    (importExTransfer H o env s src inp).state.black = s.black ∧
    (importExTransfer H o env s src inp).state.chains = s.chains := by
  rcases import_cases H o env s src inp with ⟨c, h⟩ | h | ⟨router, aux, _, _, _, _, _, h⟩ |
      ⟨router, p, aux, tr, hacc, _, _, h⟩ | ⟨router, p, aux, tr, s2, hacc, hm, h⟩
  · simp [h, fail]
  · simp [h]
  · simp [h]
  · rw [h]; simp [makeTransaction]
  · rw [h]
    have := hconf env _ p src s2 hm
    simp [this.2.1, this.2.2]

/-- A rejected (or panicking) import changes nothing and commits no cross-state leaf. -/
theorem import_reject_unchanged (H : Bytes → Bytes) (o : Oracles α ι) (env : Env) (s : State α) (src : Nat) (inp : ι)
    (h : (∃ c, (importExTransfer H o env s src inp).outcome = .reject c) ∨
         (importExTransfer H o env s src inp).outcome = .panic) :
    (importExTransfer H o env s src inp).state = s ∧ (importExTransfer H o env s src inp).crossHashes = [] := by
  rcases import_cases H o env s src inp with ⟨c, h'⟩ | h' | ⟨router, aux, _, _, _, _, _, h'⟩ |
      ⟨router, p, aux, tr, hacc, _, _, h'⟩ | ⟨router, p, aux, tr, s2, hacc, hm, h'⟩
  · simp [h', fail]
  · simp [h']
  · rw [h'] at h; simp at h
  · rw [h'] at h; simp at h
  · rw [h'] at h; simp at h

theorem blackChain_mem (s : State α) (c x : Nat) :
    x ∈ (blackChain s true c).2.black ↔ x ∈ s.black ∨ x = c := by
  simp only [blackChain, Bool.not_true, Bool.false_eq_true, if_false]
  by_cases h : c ∈ s.black
  · simp only [h, if_true]
    constructor
    · exact Or.inl
    · rintro (h' | h')
      · exact h'
      · subst h'; exact h
  · simp only [h, if_false, List.mem_cons]
    constructor
    · rintro (h' | h')
      · exact Or.inr h'
      · exact Or.inl h'
    · rintro (h' | h')
      · exact Or.inr h'
      · exact Or.inl h'

theorem whiteChain_mem (s : State α) (c x : Nat) :
    x ∈ (whiteChain s true c).2.black ↔ x ∈ s.black ∧ x ≠ c := by
  simp [whiteChain]

theorem blackChain_noWitness (s : State α) (c : Nat) : blackChain s false c = (.reject "witness", s) := by
  simp [blackChain]

theorem whiteChain_noWitness (s : State α) (c : Nat) : whiteChain s false c = (.reject "witness", s) := by
  simp [whiteChain]

/-- black then white of a chain that was not blacklisted gives back the blacklist exactly -/
theorem white_after_black (s : State α) (c : Nat) (h : c ∉ s.black) :
    (whiteChain (blackChain s true c).2 true c).2.black = s.black := by
  simp only [blackChain, whiteChain, Bool.not_true, Bool.false_eq_true, if_false, h]
  simp only [List.filter_cons, bne_self_eq_false, Bool.false_eq_true, if_false]
  apply List.filter_eq_self.mpr
  intro x hx
  simp only [bne_iff_ne, ne_eq]
  intro hxc; subst hxc; exact h hx

/-- Every transaction other than a WhiteChain of `c` carrying the operator witness keeps `c` blacklisted. -/
theorem step_black_persists (H : Bytes → Bytes) (o : Oracles α ι) (hconf : DelegatesConfined o) (s : State α)
    (op : Op ι) (c : Nat) (hop : ∀ w, op = .white w c → w = false) (hc : c ∈ s.black) : c ∈ (step H o s op).black := by
  cases op with
  | importTx env src inp => simp only [step]; rw [(import_black_chains H o hconf env s src inp).1]; exact hc
  | black w c' =>
    cases w with
    | false => simpa [step, blackChain] using hc
    | true => exact (blackChain_mem s c' c).mpr (Or.inl hc)
  | white w c' =>
    cases w with
    | false => simpa [step, whiteChain] using hc
    | true =>
      refine (whiteChain_mem s c' c).mpr ⟨hc, ?_⟩
      intro h; subst h
      have := hop true rfl
      simp at this
  | register c' r => exact hc
  | unregister c' => exact hc

theorem run_black_persists (H : Bytes → Bytes) (o : Oracles α ι) (hconf : DelegatesConfined o) (ops : List (Op ι))
    (s : State α) (c : Nat) (hops : ∀ op ∈ ops, ∀ w, op = .white w c → w = false) (hc : c ∈ s.black) :
    c ∈ (run H o s ops).black := by
  induction ops generalizing s with
  | nil => exact hc
  | cons op rest ih =>
    exact ih (step H o s op) (fun op' h => hops op' (List.mem_cons_of_mem _ h))
      (step_black_persists H o hconf s op c (hops op List.mem_cons_self) hc)

/-! ## request records -/

theorem putAssoc_lookup {κ ν : Type} [DecidableEq κ] [BEq κ] [LawfulBEq κ] (m : List (κ × ν)) (k : κ) (v : ν) :
    (putAssoc m k v).lookup k = some v := by
  induction m with
  | nil => simp [putAssoc, List.lookup]
  | cons x r ih =>
    obtain ⟨k', v'⟩ := x
    simp only [putAssoc]
    split
    · simp [List.lookup]
    · rename_i h
      have : (k == k') = false := by
        cases hb : (k == k') with
        | false => rfl
        | true => exact absurd (eq_of_beq hb).symm h
      simp [List.lookup, this, ih]

theorem putAssoc_lookup_other {κ ν : Type} [DecidableEq κ] [BEq κ] [LawfulBEq κ] (m : List (κ × ν)) (k k' : κ) (v : ν)
    (h : k' ≠ k) : (putAssoc m k v).lookup k' = m.lookup k' := by
  have hne : (k' == k) = false := by
    cases hb : (k' == k) with
    | false => rfl
    | true => exact absurd (eq_of_beq hb) h
  induction m with
  | nil => simp [putAssoc, List.lookup, hne]
  | cons x r ih =>
    obtain ⟨k0, v0⟩ := x
    simp only [putAssoc]
    split
    · rename_i h0
      subst h0
      simp [List.lookup, hne]
    · simp only [List.lookup]
      split <;> simp_all

theorem putAssoc_keys_new {κ ν : Type} [DecidableEq κ] (m : List (κ × ν)) (k : κ) (v : ν)
    (h : k ∉ m.map Prod.fst) : (putAssoc m k v).map Prod.fst = m.map Prod.fst ++ [k] := by
  induction m with
  | nil => simp [putAssoc]
  | cons x r ih =>
    obtain ⟨k', v'⟩ := x
    simp only [List.map_cons, List.mem_cons, not_or] at h
    simp only [putAssoc]
    split
    · rename_i h0; exact absurd h0.symm h.1
    · simp [ih h.2]

theorem putAssoc_keys_old {κ ν : Type} [DecidableEq κ] (m : List (κ × ν)) (k : κ) (v : ν)
    (h : k ∈ m.map Prod.fst) : (putAssoc m k v).map Prod.fst = m.map Prod.fst := by
  induction m with
  | nil => simp at h
  | cons x r ih =>
    obtain ⟨k', v'⟩ := x
    simp only [putAssoc]
    split
    · rename_i h0; subst h0; simp
    · rename_i h0
      simp only [List.map_cons, List.mem_cons] at h
      rcases h with h | h
      · exact absurd h.symm h0
      · simp [ih h]

/-- What an import does to the request records and the cross-state leaves. -/
theorem import_requests (H : Bytes → Bytes) (o : Oracles α ι) (env : Env) (s : State α) (src : Nat) (inp : ι) :
    ((importExTransfer H o env s src inp).outcome = .ok ∧
      ∃ router p aux trouter, Accepted o env s src inp router p aux trouter ∧
        trouter ≠ BTC_ROUTER ∧ trouter ≠ RIPPLE_ROUTER ∧
        (importExTransfer H o env s src inp).state.requests =
          putAssoc s.requests (p.toChainID, env.txHash) (encToMerkleValue env.txHash src p) ∧
        (importExTransfer H o env s src inp).crossHashes = [hashLeaf H (encToMerkleValue env.txHash src p)])
    ∨ ((importExTransfer H o env s src inp).outcome = .okDelegated ∧
        (importExTransfer H o env s src inp).crossHashes = [])
    ∨ ((importExTransfer H o env s src inp).outcome ≠ .ok ∧ (importExTransfer H o env s src inp).outcome ≠ .okDelegated ∧
        (importExTransfer H o env s src inp).state.requests = s.requests ∧
        (importExTransfer H o env s src inp).crossHashes = []) := by
  rcases import_cases H o env s src inp with ⟨c, h⟩ | h | ⟨router, aux, _, _, _, _, _, h⟩ |
      ⟨router, p, aux, tr, hacc, h1, h2, h⟩ | ⟨router, p, aux, tr, s2, hacc, hm, h⟩
  · right; right; simp [h, fail]
  · right; right; simp [h]
  · right; right; simp [h]
  · left
    refine ⟨by rw [h], router, p, aux, tr, hacc, h1, h2, ?_, ?_⟩
    · rw [h]; simp [makeTransaction]
    · rw [h]; simp [makeTransaction]
  · right; left; simp [h]

end Poly.Model.CCM
