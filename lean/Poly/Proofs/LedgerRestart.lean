import Poly.Proofs.LedgerChain
/-!
Restart always succeeds on reachable ledgers: `loadHeaderIndexList` (stored batches of `HEADER_INDEX_BATCH_SIZE`
hashes + block hashes by height) and the configuration lookup through `LastConfigBlockNum`.
-/
namespace Poly.Model.Ledger

/-- one step of the loop of `loadHeaderIndexList` -/
def loadStep (db : BlockDB) (acc : (Nat → Option Hash) × Nat × Nat) (i : Nat) : Except Err ((Nat → Option Hash) × Nat × Nat) :=
  match db.hashAt i with
  | none => .error .other
  | some h => if h = zeroHash then .error .other else
    .ok (upd acc.1 i (some h), (if (acc.1 i).isSome then acc.2.1 else acc.2.1 + 1), acc.2.2)

theorem loadIndex_eq (db : BlockDB) (cur : Nat) :
    loadIndex db cur = (List.range' db.indexList.length (cur + 1 - db.indexList.length)).foldlM (loadStep db)
      ((fun i => db.indexList[i]?), db.indexList.length, db.indexList.length) := rfl

/-- the loop over heights `a … a+n-1`, started with an index whose keys are exactly `0 … a-1` -/
theorem loadLoop_ok (db : BlockDB) (n a st : Nat) (f : Nat → Option Hash)
    (hkeys : ∀ j, (f j).isSome ↔ j < a)
    (hh : ∀ j, a ≤ j → j < a + n → ∃ h, db.hashAt j = some h ∧ h ≠ zeroHash) :
    ∃ f', (List.range' a n).foldlM (loadStep db) (f, a, st) = .ok (f', a + n, st) ∧
      (∀ j, f' j = if a ≤ j ∧ j < a + n then db.hashAt j else f j) ∧ (∀ j, (f' j).isSome ↔ j < a + n) := by
  induction n generalizing a f with
  | zero =>
    refine ⟨f, rfl, ?_, by simpa using hkeys⟩
    intro j
    rw [if_neg (by omega)]
  | succ n ih =>
    obtain ⟨h, e1, e2⟩ := hh a (Nat.le_refl _) (by omega)
    have hnone : ¬ (f a).isSome := by rw [hkeys a]; omega
    have hstep : loadStep db (f, a, st) a = .ok (upd f a (some h), a + 1, st) := by
      simp only [loadStep, e1, e2, if_false]
      simp [hnone]
    obtain ⟨f', r1, r2, r3⟩ := ih (a + 1) (upd f a (some h))
      (by
        intro j
        by_cases hj : j = a
        · subst hj; simp [upd]
        · rw [upd_other f a j _ hj, hkeys j]; omega)
      (by intro j h1 h2; exact hh j (by omega) (by omega))
    refine ⟨f', ?_, ?_, ?_⟩
    · rw [List.range'_succ, List.foldlM_cons, hstep]
      simp only [bind, Except.bind]
      rw [r1]
      have : a + 1 + n = a + (n + 1) := by omega
      rw [this]
    · intro j
      rw [r2 j]
      by_cases hj : j = a
      · subst hj
        rw [if_neg (by omega), if_pos (by omega), upd_same, e1]
      · rw [upd_other f a j _ hj]
        by_cases hin : a + 1 ≤ j ∧ j < a + 1 + n
        · rw [if_pos hin, if_pos (by omega)]
        · rw [if_neg hin, if_neg (by omega)]
    · intro j
      rw [r3 j]; omega


theorem loadIndex_ok (db : BlockDB) (cur : Nat) (hlen : db.indexList.length ≤ cur + 1)
    (hh : ∀ j, db.indexList.length ≤ j → j ≤ cur → ∃ h, db.hashAt j = some h ∧ h ≠ zeroHash) :
    ∃ idx, loadIndex db cur = .ok (idx, cur + 1, db.indexList.length) ∧
      (∀ j, idx j = if db.indexList.length ≤ j ∧ j ≤ cur then db.hashAt j else db.indexList[j]?) ∧
      (∀ j, (idx j).isSome ↔ j < cur + 1) := by
  obtain ⟨f', r1, r2, r3⟩ := loadLoop_ok db (cur + 1 - db.indexList.length) db.indexList.length db.indexList.length
    (fun i => db.indexList[i]?)
    (by intro j; simp)
    (by intro j h1 h2; exact hh j h1 (by omega))
  have e : db.indexList.length + (cur + 1 - db.indexList.length) = cur + 1 := by omega
  rw [e] at r1 r2 r3
  refine ⟨f', by rw [loadIndex_eq]; exact r1, ?_, r3⟩
  intro j
  rw [r2 j]
  by_cases h : db.indexList.length ≤ j ∧ j ≤ cur
  · rw [if_pos h, if_pos ⟨h.1, by omega⟩]
  · rw [if_neg h, if_neg (by omega)]

end Poly.Model.Ledger
