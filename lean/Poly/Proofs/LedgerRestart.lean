import Poly.Proofs.LedgerChain
/-!
Restart always succeeds on reachable ledgers: `loadHeaderIndexList` (stored batches of `HEADER_INDEX_BATCH_SIZE`
hashes + block hashes by height) and the configuration lookup through `LastConfigBlockNum`.
-/
namespace Poly.Model.Ledger

/-- one step of the loop of `loadHeaderIndexList` -/
def loadStep (db : BlockDB) (acc : (Nat → Option Hash) × Nat × Nat) (i : Nat) : Except Err ((Nat → Option Hash) × Nat × Nat) :=
  match db.hashAt i with
  | none => .error .other
  | some h => if h = zeroHash then .error .other else
    .ok (upd acc.1 i (some h), (if (acc.1 i).isSome then acc.2.1 else acc.2.1 + 1), acc.2.2)

theorem loadIndex_eq (db : BlockDB) (cur : Nat) :
    loadIndex db cur = (List.range' db.indexList.length (cur + 1 - db.indexList.length)).foldlM (loadStep db)
      ((fun i => db.indexList[i]?), db.indexList.length, db.indexList.length) := rfl

/-- the loop over heights `a … a+n-1`, started with an index whose keys are exactly `0 … a-1` -/
theorem loadLoop_ok (db : BlockDB) (n a st : Nat) (f : Nat → Option Hash)
    (hkeys : ∀ j, (f j).isSome ↔ j < a)
    (hh : ∀ j, a ≤ j → j < a + n → ∃ h, db.hashAt j = some h ∧ h ≠ zeroHash) :
    ∃ f', (List.range' a n).foldlM (loadStep db) (f, a, st) = .ok (f', a + n, st) ∧
      (∀ j, f' j = if a ≤ j ∧ j < a + n then db.hashAt j else f j) ∧ (∀ j, (f' j).isSome ↔ j < a + n) := by
  induction n generalizing a f with
  | zero =>
    refine ⟨f, rfl, ?_, by simpa using hkeys⟩
    intro j
    rw [if_neg (by omega)]
  | succ n ih =>
    obtain ⟨h, e1, e2⟩ := hh a (Nat.le_refl _) (by omega)
    have hnone : ¬ (f a).isSome := by rw [hkeys a]; omega
    have hstep : loadStep db (f, a, st) a = .ok (upd f a (some h), a + 1, st) := by
      simp only [loadStep, e1, e2, if_false]
      simp [hnone]
    obtain ⟨f', r1, r2, r3⟩ := ih (a + 1) (upd f a (some h))
      (by
        intro j
        by_cases hj : j = a
        · subst hj; simp [upd]
        · rw [upd_other f a j _ hj, hkeys j]; omega)
      (by intro j h1 h2; exact hh j (by omega) (by omega))
    refine ⟨f', ?_, ?_, ?_⟩
    · rw [List.range'_succ, List.foldlM_cons, hstep]
      simp only [bind, Except.bind]
      rw [r1]
      have : a + 1 + n = a + (n + 1) := by omega
      rw [this]
    · intro j
      rw [r2 j]
      by_cases hj : j = a
      · subst hj
        rw [if_neg (by omega), if_pos (by omega), upd_same, e1]
      · rw [upd_other f a j _ hj]
        by_cases hin : a + 1 ≤ j ∧ j < a + 1 + n
        · rw [if_pos hin, if_pos (by omega)]
        · rw [if_neg hin, if_neg (by omega)]
    · intro j
      rw [r3 j]; omega


theorem loadIndex_ok (db : BlockDB) (cur : Nat) (hlen : db.indexList.length ≤ cur + 1)
    (hh : ∀ j, db.indexList.length ≤ j → j ≤ cur → ∃ h, db.hashAt j = some h ∧ h ≠ zeroHash) :
    ∃ idx, loadIndex db cur = .ok (idx, cur + 1, db.indexList.length) ∧
      (∀ j, idx j = if db.indexList.length ≤ j ∧ j ≤ cur then db.hashAt j else db.indexList[j]?) ∧
      (∀ j, (idx j).isSome ↔ j < cur + 1) := by
  obtain ⟨f', r1, r2, r3⟩ := loadLoop_ok db (cur + 1 - db.indexList.length) db.indexList.length db.indexList.length
    (fun i => db.indexList[i]?)
    (by intro j; simp)
    (by intro j h1 h2; exact hh j h1 (by omega))
  have e : db.indexList.length + (cur + 1 - db.indexList.length) = cur + 1 := by omega
  rw [e] at r1 r2 r3
  refine ⟨f', by rw [loadIndex_eq]; exact r1, ?_, r3⟩
  intro j
  rw [r2 j]
  by_cases h : db.indexList.length ≤ j ∧ j ≤ cur
  · rw [if_pos h, if_pos ⟨h.1, by omega⟩]
  · rw [if_neg h, if_neg (by omega)]


/-- what `loadHeaderIndexList` and the header-index bookkeeping rely on -/
structure IndexInv (g : Block) (s : State) : Prop where
  nonzero : ∀ i h, s.dur.blocks.hashAt i = some h → h ≠ zeroHash
  storedLen : s.mem.storedIndexCount = s.dur.blocks.indexList.length
  memIdx : ∀ j, j ≤ s.mem.currHeight → s.mem.headerIndex j = s.dur.blocks.hashAt j
  listIdx : ∀ j, j < s.dur.blocks.indexList.length → s.dur.blocks.indexList[j]? = s.dur.blocks.hashAt j
  listLen : s.dur.blocks.indexList.length ≤ s.mem.currHeight + 1
  keys : ∀ j, (s.mem.headerIndex j).isSome ↔ j < s.mem.headerCount
  ahead : s.mem.currHeight + 1 ≤ s.mem.headerCount
  genesis : (s.dur.blocks.blockAt g.header.hash).isSome

/-- the configuration lookup of a restart resolves: the tip's payload decodes and either announces a configuration
or names (`LastConfigBlockNum`) a committed height whose block does. The ledger does not check this field of a
header; the consensus layer that signs headers is responsible for it. -/
def TipCfgSound (s : State) : Prop :=
  ∀ tip, s.dur.blocks.blockAt s.mem.currHash = some tip →
    tip.header.payloadOk = true ∧
    (tip.header.newCfg.isSome ∨
      (tip.header.lastCfg ≤ s.mem.currHeight ∧
        ∀ h c, s.dur.blocks.hashAt tip.header.lastCfg = some h → s.dur.blocks.blockAt h = some c →
          c.header.payloadOk = true ∧ c.header.newCfg.isSome))

theorem loadIndex_of_inv (g : Block) (s : State) (hc : Chain g s) (hi : IndexInv g s) :
    ∃ idx, loadIndex s.dur.blocks s.mem.currHeight = .ok (idx, s.mem.currHeight + 1, s.dur.blocks.indexList.length) ∧
      (∀ j, j ≤ s.mem.currHeight → idx j = s.dur.blocks.hashAt j) ∧ (∀ j, (idx j).isSome ↔ j < s.mem.currHeight + 1) := by
  obtain ⟨idx, r1, r2, r3⟩ := loadIndex_ok s.dur.blocks s.mem.currHeight hi.listLen
    (by
      intro j _ h2
      obtain ⟨blk, a1, -, -⟩ := hc.stored j h2
      exact ⟨_, a1, hi.nonzero j _ a1⟩)
  refine ⟨idx, r1, ?_, r3⟩
  intro j hj
  rw [r2 j]
  by_cases h : s.dur.blocks.indexList.length ≤ j
  · rw [if_pos ⟨h, hj⟩]
  · rw [if_neg (by omega)]
    exact hi.listIdx j (by omega)

/-- **a restart of a reachable ledger succeeds** as soon as the configuration lookup resolves -/
theorem reopen_succeeds (p : Params) (g : Block) (s : State) (hs : Synced s) (hc : Chain g s) (hi : IndexInv g s)
    (hcfg : TipCfgSound s) : ∃ t, reopen p g s.dur = .ok t := by
  rw [reopen_synced p g s s.dur hs (sameStores_self s hs)]
  have hg : ¬ (s.dur.blocks.blockAt g.header.hash).isNone = true := by
    have := hi.genesis
    cases h : s.dur.blocks.blockAt g.header.hash <;> simp_all
  rw [if_neg hg]
  obtain ⟨idx, r1, r2, -⟩ := loadIndex_of_inv g s hc hi
  rw [r1]
  simp only
  obtain ⟨tipB, t1, t2, t3⟩ := hc.stored s.mem.currHeight (Nat.le_refl _)
  have htip : s.dur.blocks.blockAt s.mem.currHash = some tipB := by
    rw [hc.tip] at t1
    rw [Option.some.inj t1]; exact t2
  obtain ⟨p1, p2⟩ := hcfg tipB htip
  unfold withPeers loadPeers
  simp only [restartMem, htip, Option.map_some, p1, Bool.not_true, Bool.false_eq_true, if_false]
  cases hn : tipB.header.newCfg with
  | some c => exact ⟨_, rfl⟩
  | none =>
    rw [hn] at p2
    rcases p2 with p2 | ⟨q1, q2⟩
    · cases p2
    · obtain ⟨cb, c1, c2, -⟩ := hc.stored tipB.header.lastCfg q1
      obtain ⟨d1, d2⟩ := q2 _ cb c1 c2
      simp only [r2 _ q1, c1, c2, Option.map_some, d1, Bool.not_true, Bool.false_eq_true, if_false]
      cases hcn : cb.header.newCfg with
      | some c => exact ⟨_, rfl⟩
      | none => rw [hcn] at d2; cases d2



theorem BlockDB.commit_tail_indexList (db : BlockDB) (b : Block) :
    (db.commit [.current b.header.hash b.header.height, .blockHash b.header.height b.header.hash, .block b]).indexList
      = db.indexList := by
  simp [BlockDB.apply]

/-- header-index bookkeeping of a submitted block -/
theorem submitted_index_fields (p : Params) (s : State) (b : Block) (res : ExecResult) :
    (submitted p s b res).mem.headerIndex = upd s.mem.headerIndex b.header.height (some b.header.hash) ∧
    (submitted p s b res).mem.headerCount =
      (if (s.mem.headerIndex b.header.height).isSome then s.mem.headerCount else s.mem.headerCount + 1) ∧
    (if s.mem.currHeight - s.mem.storedIndexCount < p.batch then
        (submitted p s b res).mem.storedIndexCount = s.mem.storedIndexCount ∧
        (submitted p s b res).dur.blocks.indexList = s.dur.blocks.indexList
      else
        (submitted p s b res).mem.storedIndexCount = s.mem.storedIndexCount + p.batch ∧
        (submitted p s b res).dur.blocks.indexList = s.dur.blocks.indexList.take s.mem.storedIndexCount ++
          (List.range p.batch).map (fun i =>
            ((upd s.mem.headerIndex b.header.height (some b.header.hash)) (s.mem.storedIndexCount + i)).getD zeroHash)) := by
  have e1 : (submitted p s b res).dur.blocks = s.dur.blocks.commit (blockBatch p s.mem b) := by
    simp [submitted, persisted, fillAll]
  refine ⟨?_, ?_, ?_⟩
  · simp only [submitted, fillAll, fillMem, fillBlockMem, indexMem, setIndex]
    by_cases hc : s.mem.currHeight - s.mem.storedIndexCount < p.batch <;> simp [hc]
  · simp only [submitted, fillAll, fillMem, fillBlockMem, indexMem, setIndex]
    by_cases hc : s.mem.currHeight - s.mem.storedIndexCount < p.batch <;> simp [hc]
  · rw [e1]
    unfold blockBatch
    rw [BlockDB.commit_append, BlockDB.commit_tail_indexList]
    by_cases hc : s.mem.currHeight - s.mem.storedIndexCount < p.batch
    · rw [if_pos hc]
      constructor
      · simp [submitted, fillAll, fillMem, fillBlockMem, indexMem, setIndex, hc]
      · simp [indexWrites, setIndex, hc]
    · rw [if_neg hc]
      constructor
      · simp [submitted, fillAll, fillMem, fillBlockMem, indexMem, setIndex, hc]
      · simp [indexWrites, setIndex, hc, BlockDB.apply]



theorem submitted_indexInv (p : Params) (g : Block) (s : State) (b : Block) (res : ExecResult)
    (hc : Chain g s) (hi : IndexInv g s) (hh : b.header.height = s.mem.currHeight + 1)
    (hnz : b.header.hash ≠ zeroHash) : IndexInv g (submitted p s b res) := by
  obtain ⟨f1, f2, f3, f4, f5, f6, -, -⟩ := submitted_facts p s b res
  obtain ⟨x1, x2, x3⟩ := submitted_index_fields p s b res
  have hstored := hi.storedLen
  have hlistLen := hi.listLen
  -- entries of the new batch are the hashes of committed blocks
  have hentry : ∀ j, j ≤ s.mem.currHeight →
      ((upd s.mem.headerIndex b.header.height (some b.header.hash)) j).getD zeroHash = (s.dur.blocks.hashAt j).getD zeroHash ∧
      (s.dur.blocks.hashAt j).isSome := by
    intro j hj
    rw [upd_other _ _ _ _ (by omega), hi.memIdx j hj]
    obtain ⟨blk, a1, -, -⟩ := hc.stored j hj
    exact ⟨rfl, by rw [a1]; rfl⟩
  constructor
  · intro i h hi'
    by_cases hib : i = b.header.height
    · subst hib; rw [f3] at hi'; rw [← Option.some.inj hi']; exact hnz
    · rw [f4 i hib] at hi'; exact hi.nonzero i h hi'
  · by_cases hcnd : s.mem.currHeight - s.mem.storedIndexCount < p.batch
    · rw [if_pos hcnd] at x3; rw [x3.1, x3.2]; exact hstored
    · rw [if_neg hcnd] at x3; rw [x3.1, x3.2]
      simp only [List.length_append, List.length_take, List.length_map, List.length_range]
      omega
  · intro j hj
    rw [f1, hh] at hj
    rw [x1]
    by_cases hjb : j = b.header.height
    · subst hjb; rw [upd_same, f3]
    · rw [upd_other _ _ _ _ hjb, f4 j hjb]
      exact hi.memIdx j (by omega)
  · by_cases hcnd : s.mem.currHeight - s.mem.storedIndexCount < p.batch
    · rw [if_pos hcnd] at x3
      intro j hj
      rw [x3.2] at hj ⊢
      rw [f4 j (by omega)]
      exact hi.listIdx j hj
    · rw [if_neg hcnd] at x3
      intro j hj
      rw [x3.2] at hj ⊢
      simp only [List.length_append, List.length_take, List.length_map, List.length_range] at hj
      have hbatch : s.mem.storedIndexCount + p.batch ≤ s.mem.currHeight + 1 := by omega
      rw [f4 j (by omega)]
      by_cases hjs : j < s.mem.storedIndexCount
      · rw [List.getElem?_append_left (by simp; omega), List.getElem?_take_of_lt hjs]
        exact hi.listIdx j (by omega)
      · rw [List.getElem?_append_right (by simp; omega)]
        simp only [List.length_take]
        have hmin : min s.mem.storedIndexCount s.dur.blocks.indexList.length = s.mem.storedIndexCount := by omega
        rw [hmin]
        have hlt : j - s.mem.storedIndexCount < p.batch := by omega
        rw [List.getElem?_map, List.getElem?_range hlt]
        simp only [Option.map_some]
        have hjc : j ≤ s.mem.currHeight := by omega
        have e : s.mem.storedIndexCount + (j - s.mem.storedIndexCount) = j := by omega
        rw [e]
        obtain ⟨q1, q2⟩ := hentry j hjc
        rw [q1]
        cases hq : s.dur.blocks.hashAt j with
        | none => rw [hq] at q2; cases q2
        | some h => rfl
  · rw [f1, hh]
    by_cases hcnd : s.mem.currHeight - s.mem.storedIndexCount < p.batch
    · rw [if_pos hcnd] at x3; rw [x3.2]; omega
    · rw [if_neg hcnd] at x3; rw [x3.2]
      simp only [List.length_append, List.length_take, List.length_map, List.length_range]
      omega
  · intro j
    rw [x1, x2]
    have hk := hi.keys
    have ha := hi.ahead
    by_cases hjb : j = b.header.height
    · subst hjb
      rw [upd_same]
      by_cases hsome : (s.mem.headerIndex b.header.height).isSome = true
      · rw [if_pos hsome]; have := (hk b.header.height).mp hsome; simp; omega
      · rw [if_neg hsome]
        have : ¬ b.header.height < s.mem.headerCount := fun h => hsome ((hk _).mpr h)
        simp; omega
    · rw [upd_other _ _ _ _ hjb, hk j]
      by_cases hsome : (s.mem.headerIndex b.header.height).isSome = true
      · rw [if_pos hsome]
      · rw [if_neg hsome]
        have : ¬ b.header.height < s.mem.headerCount := fun h => hsome ((hk _).mpr h)
        omega
  · rw [f1, x2]
    have hk := hi.keys
    have ha := hi.ahead
    by_cases hsome : (s.mem.headerIndex b.header.height).isSome = true
    · rw [if_pos hsome]; have := (hk b.header.height).mp hsome; omega
    · rw [if_neg hsome]; omega
  · by_cases hgb : g.header.hash = b.header.hash
    · rw [hgb, f5]; rfl
    · rw [f6 _ hgb]; exact hi.genesis



theorem indexInv_of_same (g : Block) (s t : State) (hi : IndexInv g s) (hb : t.dur.blocks = s.dur.blocks)
    (h1 : t.mem.currHeight = s.mem.currHeight) (h2 : t.mem.headerIndex = s.mem.headerIndex)
    (h3 : t.mem.headerCount = s.mem.headerCount) (h4 : t.mem.storedIndexCount = s.mem.storedIndexCount) :
    IndexInv g t := by
  constructor
  · rw [hb]; exact hi.nonzero
  · rw [hb, h4]; exact hi.storedLen
  · rw [hb, h1, h2]; exact hi.memIdx
  · rw [hb]; exact hi.listIdx
  · rw [hb, h1]; exact hi.listLen
  · rw [h2, h3]; exact hi.keys
  · rw [h1, h3]; exact hi.ahead
  · rw [hb]; exact hi.genesis

theorem addHeader_indexInv (p : Params) (g : Block) (s s' : State) (hd : Header) (hi : IndexInv g s)
    (h : addHeader p s hd = .ok s') : IndexInv g s' := by
  unfold addHeader at h
  split at h
  · cases h
  · rename_i hh
    split at h
    · cases h
    · injection h with h
      subst h
      have hk := hi.keys
      have ha := hi.ahead
      have hhe : hd.height = s.mem.headerCount := by
        have : ¬ hd.height ≠ headerHeight s.mem + 1 := hh
        unfold headerHeight at this
        split at this <;> omega
      have hnone : ¬ (s.mem.headerIndex hd.height).isSome = true := by
        rw [hk, hhe]; omega
      constructor
      · exact hi.nonzero
      · exact hi.storedLen
      · intro j hj
        show (upd s.mem.headerIndex hd.height (some hd.hash)) j = _
        rw [upd_other _ _ _ _ (by have : j ≤ s.mem.currHeight := hj; omega)]
        exact hi.memIdx j hj
      · exact hi.listIdx
      · exact hi.listLen
      · intro j
        show ((upd s.mem.headerIndex hd.height (some hd.hash)) j).isSome = true ↔
          j < (if (s.mem.headerIndex hd.height).isSome then s.mem.headerCount else s.mem.headerCount + 1)
        rw [if_neg hnone]
        by_cases hj : j = hd.height
        · subst hj; rw [upd_same]; simp; omega
        · rw [upd_other _ _ _ _ hj, hk j]; omega
      · show s.mem.currHeight + 1 ≤ (if (s.mem.headerIndex hd.height).isSome then s.mem.headerCount else s.mem.headerCount + 1)
        rw [if_neg hnone]; omega
      · exact hi.genesis

/-- the state a restart of a consistent ledger produces, explicitly -/
theorem reopen_synced_form (p : Params) (g : Block) (s t : State) (d : Durable) (hs : Synced s) (hd : SameStores d s)
    (h : reopen p g d = .ok t) :
    ∃ r set, loadIndex s.dur.blocks s.mem.currHeight = .ok r ∧
      t = { dur := d, mem := { restartMem s r with peersH := set, peersB := set } } := by
  rw [reopen_synced p g s d hs hd] at h
  split at h
  · cases h
  · split at h
    · cases h
    · rename_i r hr
      unfold withPeers at h
      split at h
      · cases h
      · rename_i set _
        injection h with h
        exact ⟨r, set, hr, h.symm⟩

theorem reopen_indexInv (p : Params) (g : Block) (s t : State) (d : Durable) (hs : Synced s) (hc : Chain g s)
    (hi : IndexInv g s) (hd : SameStores d s) (h : reopen p g d = .ok t) : IndexInv g t := by
  obtain ⟨r, set, hr, e⟩ := reopen_synced_form p g s t d hs hd h
  obtain ⟨idx, r1, r2, r3⟩ := loadIndex_of_inv g s hc hi
  rw [r1] at hr
  have hr' : r = (idx, s.mem.currHeight + 1, s.dur.blocks.indexList.length) := (Except.ok.inj hr).symm
  subst hr'
  subst e
  constructor
  · show ∀ i h, d.blocks.hashAt i = some h → _; rw [hd.1]; exact hi.nonzero
  · show s.dur.blocks.indexList.length = d.blocks.indexList.length; rw [hd.1]
  · intro j hj
    show idx j = d.blocks.hashAt j
    rw [hd.1]; exact r2 j hj
  · show ∀ j, j < d.blocks.indexList.length → _; rw [hd.1]; exact hi.listIdx
  · show d.blocks.indexList.length ≤ s.mem.currHeight + 1; rw [hd.1]; exact hi.listLen
  · exact r3
  · exact Nat.le_refl _
  · show (d.blocks.blockAt g.header.hash).isSome = true; rw [hd.1]; exact hi.genesis



theorem initLedger_indexInv (p : Params) (g : Block) (s : State) (hg : g.header.height = 0)
    (hnz : g.header.hash ≠ zeroHash) (h : initLedger p g = .ok s) : IndexInv g s := by
  obtain ⟨set, hd, hm⟩ := initLedger_form p g s h
  obtain ⟨f1, f2, f3, f4, f5, f6, -, -⟩ := submitted_facts p gen0 g (executeBlock p gen0 g).1
  obtain ⟨x1, x2, x3⟩ := submitted_index_fields p gen0 g (executeBlock p gen0 g).1
  have k1 : s.mem.currHeight = 0 := by rw [hm]; show (genSubmitted p g).mem.currHeight = 0; unfold genSubmitted; rw [f1, hg]
  have k3 : s.dur.blocks.hashAt = (genSubmitted p g).dur.blocks.hashAt := by rw [hd]
  have k4 : s.dur.blocks.blockAt = (genSubmitted p g).dur.blocks.blockAt := by rw [hd]
  have k5 : s.dur.blocks.indexList = (genSubmitted p g).dur.blocks.indexList := by rw [hd]
  have k6 : s.mem.headerIndex = upd (fun _ => none) 0 (some g.header.hash) := by
    rw [hm]; show (genSubmitted p g).mem.headerIndex = _; unfold genSubmitted; rw [x1, hg]; rfl
  have k7 : s.mem.headerCount = 1 := by
    rw [hm]; show (genSubmitted p g).mem.headerCount = 1; unfold genSubmitted; rw [x2]; rfl
  have k8 : s.mem.storedIndexCount = 0 ∧ s.dur.blocks.indexList = [] := by
    rw [k5, hm]
    show (genSubmitted p g).mem.storedIndexCount = 0 ∧ (genSubmitted p g).dur.blocks.indexList = []
    unfold genSubmitted
    by_cases hc : gen0.mem.currHeight - gen0.mem.storedIndexCount < p.batch
    · rw [if_pos hc] at x3; rw [x3.1, x3.2]; exact ⟨rfl, rfl⟩
    · rw [if_neg hc] at x3; rw [x3.1, x3.2]
      have hb : p.batch = 0 := by
        have : gen0.mem.currHeight - gen0.mem.storedIndexCount = 0 := rfl
        omega
      rw [hb]; exact ⟨rfl, rfl⟩
  unfold genSubmitted at k3 k4
  constructor
  · intro i x hx
    rw [k3] at hx
    by_cases hi0 : i = g.header.height
    · subst hi0; rw [f3] at hx; rw [← Option.some.inj hx]; exact hnz
    · rw [f4 i hi0] at hx; cases hx
  · rw [k8.1, k8.2]; rfl
  · intro j hj
    rw [k1] at hj
    have : j = 0 := by omega
    subst this
    rw [k6, upd_same, k3, ← hg, f3]
  · intro j hj; rw [k8.2] at hj; cases hj
  · rw [k8.2]; simp
  · intro j
    rw [k6, k7]
    by_cases hj : j = 0
    · subst hj; simp [upd]
    · rw [upd_other _ _ _ _ hj]; simp; omega
  · rw [k1, k7]; omega
  · rw [k4, f5]; rfl

theorem reachV_indexInv (p : Params) (g : Block) (hg : g.header.height = 0) (hnz : g.header.hash ≠ zeroHash)
    (s : State) (h : ReachV p g s) : IndexInv g s := by
  induction h with
  | init h => exact initLedger_indexInv p g _ hg hnz h
  | @add s0 s1 b root hr hn h ih =>
    have hc := reachV_chain p g hg s0 hr
    rcases addBlock_cases p s0 s1 b root h with ⟨-, e⟩ | ⟨hh, ⟨set, -, e⟩, -, -⟩
    · subst e; exact ih
    · subst e
      exact indexInv_of_same g _ _ (submitted_indexInv p g s0 b _ hc ih hh hn.2.2) rfl rfl rfl rfl rfl
  | @sub s0 s1 b hr hn h ih =>
    have hc := reachV_chain p g hg s0 hr
    rcases submitChecked_cases p s0 s1 b h with ⟨-, e⟩ | ⟨hh, ⟨set, -, e⟩, -⟩
    · subst e; exact ih
    · subst e
      exact indexInv_of_same g _ _ (submitted_indexInv p g s0 b _ hc ih hh hn.2.2) rfl rfl rfl rfl rfl
  | hdr hd _ _ h ih => exact addHeader_indexInv p g _ _ hd ih h
  | @restart s0 s1 hr h ih =>
    have hs := reach_synced p g hg s0 (reachV_reach p g s0 hr)
    exact reopen_indexInv p g s0 s1 _ hs (reachV_chain p g hg s0 hr) ih (sameStores_self s0 hs) h
  | @crash s0 s1 s2 b root k hr hn hh ha hk h ih =>
    have hs := reach_synced p g hg s0 (reachV_reach p g s0 hr)
    have hc := reachV_chain p g hg s0 hr
    by_cases h0 : k = 0
    · subst h0
      exact reopen_indexInv p g s0 s1 _ hs hc ih (crashD0_same p s0 b hs) h
    · rw [reopen_crash_ge1 p g s0 b k hs hh (by omega) hk, ← submitted_dur] at h
      have hs3 := submitted_synced_next p s0 b (p.exec s0.dur.states.kv b) hs hh
      have hc3 := submitted_chain p g s0 s2 b root hc hn hh ha
      have hi3 := submitted_indexInv p g s0 b (p.exec s0.dur.states.kv b) hc ih hh hn.2.2
      exact reopen_indexInv p g _ s1 _ hs3 hc3 hi3 (sameStores_self _ hs3) h

/-- **a restart of any reachable ledger succeeds** (NewStateStore checks, version, genesis, loadCurrentBlock,
loadHeaderIndexList over stored batches and block hashes, recoverStore) provided the configuration lookup through the
tip header resolves -/
theorem reachV_restart_succeeds (p : Params) (g : Block) (hg : g.header.height = 0) (hnz : g.header.hash ≠ zeroHash)
    (s : State) (h : ReachV p g s) (hcfg : TipCfgSound s) : ∃ t, reopen p g s.dur = .ok t :=
  reopen_succeeds p g s (reach_synced p g hg s (reachV_reach p g s h)) (reachV_chain p g hg s h)
    (reachV_indexInv p g hg hnz s h) hcfg


/-- **any unfinished first start restarts clean**: a directory without version key whose state store passes the
`NewStateStore` checks and whose hash file is no longer than one genesis append — whatever subset of the three stores
an interrupted attempt (or an interrupted `ClearAll` of a later attempt) left behind — starts exactly like an empty one -/
theorem reopen_unfinished_first_start (p : Params) (g : Block) (d : Durable) (hv : d.blocks.version = false)
    (ho : ∃ r, openState d = .ok r) (hf : d.fileLen ≤ appendCount 0) : reopen p g d = initLedger p g := by
  obtain ⟨r, hr⟩ := ho
  unfold initLedger
  unfold reopen
  rw [hr, openState_empty]
  simp only [hv, Durable.empty, BlockDB.empty, Bool.not_false, if_true]
  rw [initGenesis_fileLen p d g (by omega)]
  rfl


end Poly.Model.Ledger
