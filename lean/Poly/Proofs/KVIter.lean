import Poly.Proofs.KVMap
/- The range iterator over a sorted buffer is a cursor over the in-range entries. -/
namespace Poly.Model.KV

/-! ### generic list facts -/

theorem takeWhile_eq_filter {α} {p : α → Bool} {l : List α}
    (h : l.Pairwise (fun a b => p b = true → p a = true)) : l.takeWhile p = l.filter p := by
  induction l with
  | nil => rfl
  | cons e r ih =>
    rw [List.pairwise_cons] at h
    by_cases hp : p e = true
    · simp [List.takeWhile, List.filter, hp, ih h.2]
    · have hn : ∀ x ∈ r, p x = false := by
        intro x hx
        cases hpx : p x with
        | false => rfl
        | true => exact absurd (h.1 x hx hpx) hp
      simp only [Bool.not_eq_true] at hp
      simp [List.takeWhile, List.filter, hp]
      exact hn

theorem dropWhile_eq_filter {α} {p : α → Bool} {l : List α}
    (h : l.Pairwise (fun a b => p a = false → p b = false)) : l.dropWhile p = l.filter (fun x => !p x) := by
  induction l with
  | nil => rfl
  | cons e r ih =>
    rw [List.pairwise_cons] at h
    cases hp : p e with
    | true => simp [List.dropWhile, List.filter, hp, ih h.2]
    | false =>
      have hn : ∀ x ∈ r, p x = false := fun x hx => h.1 x hx hp
      simp only [List.dropWhile, hp, List.filter, Bool.not_false]
      congr 1
      symm
      rw [List.filter_eq_self]
      intro x hx; simp [hn x hx]

theorem find?_not_eq_head?_dropWhile {α} (p : α → Bool) (l : List α) :
    l.find? (fun x => !p x) = (l.dropWhile p).head? := by
  induction l with
  | nil => rfl
  | cons e r ih => cases hp : p e <;> simp [List.find?, List.dropWhile, hp, ih]

theorem dropWhile_false' {α} (l : List α) : l.dropWhile (fun _ => false) = l := by
  cases l <;> simp [List.dropWhile]

theorem takeWhile_true' {α} (l : List α) : l.takeWhile (fun _ => true) = l := by
  induction l with
  | nil => rfl
  | cons a r ih => simp [List.takeWhile, ih]

/-! ### range predicates -/

def belowLimit (lim : Option Key) (e : Key × Val) : Bool :=
  match lim with | some l => ltB e.1 l | none => true

def aboveStart (st : Option Key) (e : Key × Val) : Bool :=
  match st with | some s => !(ltB e.1 s) | none => true

def startOf (s : Option Range) : Option Key := match s with | some r => r.start | none => none
def limitOf (s : Option Range) : Option Key := match s with | some r => r.limit | none => none

theorem belowLimit_none : belowLimit none = fun _ => true := by funext e; rfl
theorem aboveStart_none : aboveStart none = fun _ => true := by funext e; rfl

theorem inSlice_eq (s : Option Range) (e : Key × Val) :
    inSlice s e.1 = (aboveStart (startOf s) e && belowLimit (limitOf s) e) := by
  cases s with
  | none => rfl
  | some r => cases r with | mk st lim => cases st <;> cases lim <;> rfl

theorem sorted_belowLimit (lim : Option Key) {m : Entries} (h : Sorted m) :
    m.Pairwise (fun a b => belowLimit lim b = true → belowLimit lim a = true) := by
  refine List.Pairwise.imp ?_ h
  intro a b hab
  cases lim with
  | none => simp [belowLimit]
  | some l => simp only [belowLimit]; exact fun hb => ltB_trans hab hb

theorem sorted_aboveStart (st : Option Key) {m : Entries} (h : Sorted m) :
    m.Pairwise (fun a b => aboveStart st a = true → aboveStart st b = true) := by
  refine List.Pairwise.imp ?_ h
  intro a b hab
  cases st with
  | none => simp [aboveStart]
  | some s =>
    simp only [aboveStart, Bool.not_eq_true', ]
    intro ha
    exact ltB_asymm (ltB_of_not_lt_of_lt ha hab)

theorem sorted_ltKey (k : Key) {m : Entries} (h : Sorted m) :
    m.Pairwise (fun a b => ltB a.1 k = false → ltB b.1 k = false) := by
  refine List.Pairwise.imp ?_ h
  intro a b hab ha
  exact ltB_asymm (ltB_of_not_lt_of_lt ha hab)

theorem sorted_reverse_aboveStart (st : Option Key) {m : Entries} (h : Sorted m) :
    m.reverse.Pairwise (fun a b => aboveStart st b = true → aboveStart st a = true) := by
  rw [List.pairwise_reverse]
  exact sorted_aboveStart st h

theorem Sorted.sublist {a b : Entries} (h : a.Sublist b) (hs : Sorted b) : Sorted a := List.Pairwise.sublist h hs

theorem sorted_append {p q : Entries} :
    Sorted (p ++ q) ↔ Sorted p ∧ Sorted q ∧ ∀ a ∈ p, ∀ b ∈ q, ltB a.1 b.1 = true := List.pairwise_append

/-! ### navigation on a sorted list split around a node -/

theorem succ_split {p q : Entries} {e : Key × Val} (h : Sorted (p ++ e :: q)) : succ e.1 (p ++ e :: q) = q.head? := by
  obtain ⟨_, hq, hpq⟩ := sorted_append.mp h
  have hp : ∀ x ∈ p, ltB e.1 x.1 = false := fun x hx => ltB_asymm (hpq x hx e (by simp))
  unfold succ
  rw [List.find?_append]
  have : p.find? (fun x => ltB e.1 x.1) = none := by
    rw [List.find?_eq_none]; intro x hx; simp [hp x hx]
  rw [this]
  simp only [Option.none_or, List.find?_cons, ltB_irrefl]
  cases q with
  | nil => rfl
  | cons e' q' =>
    have := (sorted_cons.mp hq).1 e' (by simp)
    simp [this]

theorem filter_lt_split {p q : Entries} {e : Key × Val} (h : Sorted (p ++ e :: q)) :
    (p ++ e :: q).filter (fun x => ltB x.1 e.1) = p := by
  obtain ⟨_, hq, hpq⟩ := sorted_append.mp h
  rw [List.filter_append]
  have h1 : p.filter (fun x => ltB x.1 e.1) = p := by
    rw [List.filter_eq_self]; intro x hx; exact hpq x hx e (by simp)
  have h2 : (e :: q).filter (fun x => ltB x.1 e.1) = [] := by
    rw [List.filter_eq_nil_iff]
    intro x hx
    simp at hx
    rcases hx with hx | hx
    · subst hx; simp [ltB_irrefl]
    · have := (sorted_cons.mp hq).1 x hx
      simp [ltB_asymm this]
  rw [h1, h2, List.append_nil]

theorem findLT_split {p q : Entries} {e : Key × Val} (h : Sorted (p ++ e :: q)) :
    findLT e.1 (p ++ e :: q) = p.getLast? := by
  unfold findLT; rw [filter_lt_split h]

/-! ### forward cursor -/

/-- The iterator is a forward cursor whose remaining entries (current first) are `l`. -/
structure FwdAt (m : Entries) (it : Iter) (l : Entries) : Prop where
  split : ∃ p q, m = p ++ q ∧ l = q.takeWhile (belowLimit it.limitKey)
  cur : it.cur = l.head?
  fwd : it.forward = true
  rel : it.released = false

theorem outOfBounds_limit (it : Iter) (e : Key × Val) :
    it.outOfBounds e.1 false true = !(belowLimit it.limitKey e) := by
  unfold Iter.outOfBounds Iter.limitKey belowLimit
  cases it.slice with
  | none => rfl
  | some r => cases r with | mk st lim => cases lim <;> simp

theorem outOfBounds_start (it : Iter) (e : Key × Val) :
    it.outOfBounds e.1 true false = !(aboveStart it.startKey e) := by
  unfold Iter.outOfBounds Iter.startKey aboveStart
  cases it.slice with
  | none => rfl
  | some r => cases r with | mk st lim => cases st <;> simp

@[simp] theorem limitKey_cur (it : Iter) (c : Option (Key × Val)) : ({ it with cur := c } : Iter).limitKey = it.limitKey := rfl
@[simp] theorem limitKey_fwd (it : Iter) (b : Bool) : ({ it with forward := b } : Iter).limitKey = it.limitKey := rfl
@[simp] theorem startKey_cur (it : Iter) (c : Option (Key × Val)) : ({ it with cur := c } : Iter).startKey = it.startKey := rfl
@[simp] theorem startKey_fwd (it : Iter) (b : Bool) : ({ it with forward := b } : Iter).startKey = it.startKey := rfl

/-- `fill(false, true)` after moving to the head of `q`. -/
theorem fill_fwd (m : Entries) (it : Iter) (p q : Entries) (hm : m = p ++ q)
    (hf : it.forward = true) (hr : it.released = false) :
    FwdAt m (it.fill q.head? false true).1 (q.takeWhile (belowLimit it.limitKey)) ∧
    (it.fill q.head? false true).2 = !(q.takeWhile (belowLimit it.limitKey)).isEmpty := by
  cases q with
  | nil =>
    simp only [List.head?_nil, Iter.fill, List.takeWhile_nil, List.isEmpty_nil, Bool.not_true, and_true]
    exact ⟨⟨p, [], hm, by simp⟩, rfl, hf, hr⟩
  | cons e q' =>
    simp only [List.head?_cons, Iter.fill, outOfBounds_limit]
    cases hb : belowLimit it.limitKey e with
    | false =>
      simp only [Bool.not_false, if_true, List.takeWhile_cons, hb, Bool.false_eq_true, if_false, List.isEmpty_nil,
        Bool.not_true, and_true]
      exact ⟨⟨p, e :: q', hm, by simp [hb]⟩, rfl, hf, hr⟩
    | true =>
      simp only [Bool.not_true, Bool.false_eq_true, if_false, List.takeWhile_cons, hb, if_true, List.isEmpty_cons,
        Bool.not_false, and_true]
      exact ⟨⟨p, e :: q', hm, by simp [hb]⟩, rfl, hf, hr⟩

theorem next_fwd {m : Entries} (hs : Sorted m) {it : Iter} {e : Key × Val} {l : Entries} (h : FwdAt m it (e :: l)) :
    FwdAt m (it.next m).1 l ∧ (it.next m).2 = !l.isEmpty := by
  obtain ⟨⟨p, q, hm, hl⟩, hc, hf, hr⟩ := h
  cases q with
  | nil => simp at hl
  | cons e' q' =>
    rw [List.takeWhile_cons] at hl
    split at hl
    · injection hl with h1 h2
      subst h1
      simp only [List.head?_cons] at hc
      have hsucc : succ e.1 m = q'.head? := by rw [hm]; exact succ_split (hm ▸ hs)
      have hnext : it.next m = ({ it with forward := true } : Iter).fill q'.head? false true := by
        simp [Iter.next, hr, hc, hsucc]
      have := fill_fwd m ({ it with forward := true } : Iter) (p ++ [e]) q' (by simp [hm]) rfl hr
      rw [hnext, h2]
      exact this
    · cases hl

theorem next_fwd_nil {m : Entries} {it : Iter} (h : FwdAt m it []) : it.next m = (it, false) := by
  obtain ⟨_, hc, hf, hr⟩ := h
  simp only [List.head?_nil] at hc
  simp [Iter.next, hr, hc, hf]

theorem walkNext_fwd {m : Entries} (hs : Sorted m) (n : Nat) {it : Iter} {l : Entries}
    (h : FwdAt m it l) (hn : l.length < n) : walkNext m n it = l := by
  induction n generalizing it l with
  | zero => omega
  | succ n ih =>
    cases l with
    | nil => have := h.cur; simp only [List.head?_nil] at this; simp [walkNext, this]
    | cons e l' =>
      have hc := h.cur; simp only [List.head?_cons] at hc
      simp only [walkNext, hc]
      congr 1
      exact ih (next_fwd hs h).1 (by simp at hn; omega)

/-- The in-range entries as the iterator reaches them: drop below start, take below limit. -/
theorem range_as_take_drop (st lim : Option Key) {m : Entries} (hs : Sorted m) :
    (m.dropWhile (fun e => !aboveStart st e)).takeWhile (belowLimit lim) =
      m.filter (fun e => aboveStart st e && belowLimit lim e) := by
  have h1 : m.dropWhile (fun e => !aboveStart st e) = m.filter (aboveStart st) := by
    rw [dropWhile_eq_filter]
    · congr 1; funext x; simp
    · refine List.Pairwise.imp ?_ (sorted_aboveStart st hs)
      intro a b hab; simpa using hab
  rw [h1, takeWhile_eq_filter, List.filter_filter]
  · congr 1; funext x; rw [Bool.and_comm]
  · exact List.Pairwise.sublist List.filter_sublist (sorted_belowLimit lim hs)

theorem findGE_eq (k : Key) (m : Entries) : findGE k m = (m.dropWhile (fun e => ltB e.1 k)).head? :=
  find?_not_eq_head?_dropWhile _ m

theorem first_fwd (s : Option Range) {m : Entries} (hs : Sorted m) :
    FwdAt m ((Iter.new s).first m).1 (m.filter (fun e => inSlice s e.1)) ∧
    ((Iter.new s).first m).2 = !(m.filter (fun e => inSlice s e.1)).isEmpty := by
  have hfil : m.filter (fun e => inSlice s e.1) =
      (m.dropWhile (fun e => !aboveStart (startOf s) e)).takeWhile (belowLimit (limitOf s)) := by
    rw [range_as_take_drop _ _ hs]; congr 1; funext e; exact inSlice_eq s e
  generalize hq : m.dropWhile (fun e => !aboveStart (startOf s) e) = q at hfil
  have hnode : (match ({ (Iter.new s) with forward := true } : Iter).startKey with
      | some st => findGE st m | none => m.head?) = q.head? := by
    cases s with
    | none => simp [Iter.startKey, Iter.new, ← hq, startOf, aboveStart, dropWhile_false']
    | some r =>
      cases r with
      | mk st lim =>
        cases st with
        | none => simp [Iter.startKey, Iter.new, ← hq, startOf, aboveStart, dropWhile_false']
        | some st => simp [Iter.startKey, Iter.new, ← hq, startOf, aboveStart, findGE_eq]
  have hlim : ({ (Iter.new s) with forward := true } : Iter).limitKey = limitOf s := by
    cases s <;> rfl
  have := fill_fwd m ({ (Iter.new s) with forward := true } : Iter) (m.takeWhile (fun e => !aboveStart (startOf s) e)) q
    (by rw [← hq, List.takeWhile_append_dropWhile]) rfl rfl
  rw [hlim] at this
  rw [hfil]
  have hfirst : (Iter.new s).first m = ({ (Iter.new s) with forward := true } : Iter).fill q.head? false true := by
    rw [← hnode]; rfl
  rw [hfirst]
  exact this

/-- Forward scan = the entries of the buffer whose key lies in the range, in key order. -/
theorem scanFwd_eq (s : Option Range) {m : Entries} (hs : Sorted m) :
    scanFwd s m = m.filter (fun e => inSlice s e.1) := by
  unfold scanFwd
  apply walkNext_fwd hs _ (first_fwd s hs).1
  have := List.length_filter_le (fun e => inSlice s e.1) m
  omega

/-! ### backward cursor -/

structure BwdAt (m : Entries) (it : Iter) (l : Entries) : Prop where
  split : ∃ p q, m = p ++ q ∧ l = p.reverse.takeWhile (aboveStart it.startKey)
  cur : it.cur = l.head?
  bwd : it.forward = false
  rel : it.released = false

theorem fill_bwd (m : Entries) (it : Iter) (p q : Entries) (hm : m = p ++ q)
    (hf : it.forward = false) (hr : it.released = false) :
    BwdAt m (it.fill p.getLast? true false).1 (p.reverse.takeWhile (aboveStart it.startKey)) ∧
    (it.fill p.getLast? true false).2 = !(p.reverse.takeWhile (aboveStart it.startKey)).isEmpty := by
  rw [← List.head?_reverse]
  generalize hpr : p.reverse = pr
  cases pr with
  | nil =>
    simp only [List.head?_nil, Iter.fill, List.takeWhile_nil, List.isEmpty_nil, Bool.not_true, and_true]
    exact ⟨⟨p, q, hm, by simp [hpr]⟩, rfl, hf, hr⟩
  | cons e q' =>
    simp only [List.head?_cons, Iter.fill, outOfBounds_start]
    cases hb : aboveStart it.startKey e with
    | false =>
      simp only [Bool.not_false, if_true, List.takeWhile_cons, hb, Bool.false_eq_true, if_false, List.isEmpty_nil,
        Bool.not_true, and_true]
      exact ⟨⟨p, q, hm, by simp [hpr, hb]⟩, rfl, hf, hr⟩
    | true =>
      simp only [Bool.not_true, Bool.false_eq_true, if_false, List.takeWhile_cons, hb, if_true, List.isEmpty_cons,
        Bool.not_false, and_true]
      exact ⟨⟨p, q, hm, by simp [hpr, hb]⟩, rfl, hf, hr⟩

theorem prev_bwd {m : Entries} (hs : Sorted m) {it : Iter} {e : Key × Val} {l : Entries} (h : BwdAt m it (e :: l)) :
    BwdAt m (it.prev m).1 l ∧ (it.prev m).2 = !l.isEmpty := by
  obtain ⟨⟨p, q, hm, hl⟩, hc, hf, hr⟩ := h
  generalize hpr : p.reverse = pr at hl
  cases pr with
  | nil => simp at hl
  | cons e' pr' =>
    rw [List.takeWhile_cons] at hl
    split at hl
    · injection hl with h1 h2
      subst h1
      simp only [List.head?_cons] at hc
      have hp : p = pr'.reverse ++ [e] := by
        have := congrArg List.reverse hpr; simpa using this
      have hm' : m = pr'.reverse ++ e :: q := by rw [hm, hp]; simp
      have hlt : findLT e.1 m = pr'.reverse.getLast? := by rw [hm']; exact findLT_split (hm' ▸ hs)
      have hprev : it.prev m = ({ it with forward := false } : Iter).fill pr'.reverse.getLast? true false := by
        simp [Iter.prev, hr, hc, hlt]
      have := fill_bwd m ({ it with forward := false } : Iter) pr'.reverse (e :: q) hm' rfl hr
      rw [hprev, h2]
      simpa using this
    · cases hl

theorem prev_bwd_nil {m : Entries} {it : Iter} (h : BwdAt m it []) : it.prev m = (it, false) := by
  obtain ⟨_, hc, hf, hr⟩ := h
  simp only [List.head?_nil] at hc
  simp [Iter.prev, hr, hc, hf]

theorem walkPrev_bwd {m : Entries} (hs : Sorted m) (n : Nat) {it : Iter} {l : Entries}
    (h : BwdAt m it l) (hn : l.length < n) : walkPrev m n it = l := by
  induction n generalizing it l with
  | zero => omega
  | succ n ih =>
    cases l with
    | nil => have := h.cur; simp only [List.head?_nil] at this; simp [walkPrev, this]
    | cons e l' =>
      have hc := h.cur; simp only [List.head?_cons] at hc
      simp only [walkPrev, hc]
      congr 1
      exact ih (prev_bwd hs h).1 (by simp at hn; omega)

theorem range_as_take_rev (st lim : Option Key) {m : Entries} (hs : Sorted m) :
    (m.takeWhile (belowLimit lim)).reverse.takeWhile (aboveStart st) =
      (m.filter (fun e => aboveStart st e && belowLimit lim e)).reverse := by
  rw [takeWhile_eq_filter (sorted_belowLimit lim hs)]
  rw [takeWhile_eq_filter]
  · rw [← List.filter_reverse, ← List.filter_reverse, List.filter_filter]
  · exact sorted_reverse_aboveStart st (Sorted.sublist List.filter_sublist hs)

theorem findLT_eq (k : Key) {m : Entries} (hs : Sorted m) :
    findLT k m = (m.takeWhile (belowLimit (some k))).getLast? := by
  unfold findLT
  rw [takeWhile_eq_filter (sorted_belowLimit (some k) hs)]
  rfl

theorem last_bwd (s : Option Range) {m : Entries} (hs : Sorted m) :
    BwdAt m ((Iter.new s).last m).1 (m.filter (fun e => inSlice s e.1)).reverse ∧
    ((Iter.new s).last m).2 = !(m.filter (fun e => inSlice s e.1)).isEmpty := by
  have hfil : (m.filter (fun e => inSlice s e.1)).reverse =
      (m.takeWhile (belowLimit (limitOf s))).reverse.takeWhile (aboveStart (startOf s)) := by
    rw [range_as_take_rev _ _ hs]; congr 2; funext e; exact inSlice_eq s e
  generalize hp : m.takeWhile (belowLimit (limitOf s)) = p at hfil
  have hnode : (match ({ (Iter.new s) with forward := false } : Iter).limitKey with
      | some l => findLT l m | none => findLast m) = p.getLast? := by
    cases s with
    | none => simp [Iter.limitKey, Iter.new, ← hp, limitOf, belowLimit_none, findLast, takeWhile_true']
    | some r =>
      cases r with
      | mk st lim =>
        cases lim with
        | none => simp [Iter.limitKey, Iter.new, ← hp, limitOf, belowLimit_none, findLast, takeWhile_true']
        | some lim => simp [Iter.limitKey, Iter.new, ← hp, limitOf, findLT_eq lim hs]
  have hst : ({ (Iter.new s) with forward := false } : Iter).startKey = startOf s := by
    cases s <;> rfl
  have := fill_bwd m ({ (Iter.new s) with forward := false } : Iter) p (m.dropWhile (belowLimit (limitOf s)))
    (by rw [← hp, List.takeWhile_append_dropWhile]) rfl rfl
  rw [hst] at this
  have hlast : (Iter.new s).last m = ({ (Iter.new s) with forward := false } : Iter).fill p.getLast? true false := by
    rw [← hnode]; rfl
  rw [hlast, hfil]
  have he : (!(m.filter (fun e => inSlice s e.1)).isEmpty) =
      !(p.reverse.takeWhile (aboveStart (startOf s))).isEmpty := by
    rw [← hfil]; simp
  rw [he]
  exact this

/-- Backward scan = the in-range entries in descending key order. -/
theorem scanBwd_eq (s : Option Range) {m : Entries} (hs : Sorted m) :
    scanBwd s m = (m.filter (fun e => inSlice s e.1)).reverse := by
  unfold scanBwd
  apply walkPrev_bwd hs _ (last_bwd s hs).1
  have := List.length_filter_le (fun e => inSlice s e.1) m
  simp; omega

end Poly.Model.KV
