import Poly.Model.KVLayers
import Poly.Proofs.KVPrefix
/- Layered views: store batch, overlay commit, cache commit. -/
namespace Poly.Model.KV

/-! ### erase -/

theorem mem_erase {k : Key} {m : Entries} {x : Key × Val} (hx : x ∈ erase k m) : x ∈ m := by
  induction m with
  | nil => simp [erase] at hx
  | cons e r ih =>
    obtain ⟨k', v'⟩ := e
    simp only [erase] at hx
    split at hx
    · exact hx
    · exact List.mem_cons_of_mem _ hx
    · simp at hx; rcases hx with h | h
      · simp [h]
      · exact List.mem_cons_of_mem _ (ih h)

theorem erase_sorted {k : Key} {m : Entries} (h : Sorted m) : Sorted (erase k m) := by
  induction m with
  | nil => exact h
  | cons e r ih =>
    obtain ⟨k', v'⟩ := e
    have ⟨h1, h2⟩ := sorted_cons.mp h
    simp only [erase]
    split
    · exact h
    · exact h2
    · exact sorted_cons.mpr ⟨fun x hx => h1 x (mem_erase hx), ih h2⟩

theorem lookup_erase {k : Key} (k' : Key) {m : Entries} (h : Sorted m) :
    lookup k' (erase k m) = if k = k' then none else lookup k' m := by
  induction m with
  | nil => simp [erase, lookup]
  | cons e r ih =>
    obtain ⟨k1, v1⟩ := e
    have ⟨h1, h2⟩ := sorted_cons.mp h
    simp only [erase]
    cases hc : cmpB k k1 with
    | lt =>
      simp only
      split
      · rename_i hk; subst hk; simp [lookup, hc]
      · rfl
    | eq =>
      have := cmpB_eq_iff.mp hc; subst this
      simp only
      split
      · rename_i hk; subst hk; exact lookup_none_of_le h1 (ltB_irrefl _)
      · rename_i hk
        simp only [lookup]
        cases hc' : cmpB k' k with
        | lt => exact lookup_none_of_le h1 (ltB_asymm (ltB_iff.mpr hc'))
        | eq => exact absurd (cmpB_eq_iff.mp hc').symm hk
        | gt => rfl
    | gt =>
      simp only [lookup]
      cases hc' : cmpB k' k1 with
      | lt =>
        simp only
        split <;> rfl
      | eq =>
        have := cmpB_eq_iff.mp hc'; subst this
        simp only
        split
        · rename_i hk; subst hk; rw [cmpB_refl] at hc; cases hc
        · rfl
      | gt => exact ih h2

/-! ### the batch -/

theorem BatchOp.apply_sorted {d : Entries} (o : BatchOp) (h : Sorted d) : Sorted (o.apply d) := by
  cases o with
  | put k v => exact insert_sorted h
  | del k => exact erase_sorted h

theorem foldl_apply_sorted {d : Entries} (ops : List BatchOp) (h : Sorted d) : Sorted (ops.foldl BatchOp.apply d) := by
  induction ops generalizing d with
  | nil => exact h
  | cons o r ih => exact ih (o.apply_sorted h)

/-- What one committed buffer entry does to a store lookup. -/
theorem lookup_apply_commitOp (e : Key × Val) (k : Key) {d : Entries} (h : Sorted d) :
    lookup k ((commitOp e).apply d) =
      if e.1 = k then (if e.2.isEmpty then none else some e.2) else lookup k d := by
  unfold commitOp
  cases hv : e.2.isEmpty with
  | true => simp only [if_true, BatchOp.apply]; exact lookup_erase k h
  | false => simp only [Bool.false_eq_true, if_false, BatchOp.apply]; exact lookup_insert _ _ _ _

/-- The value a committed buffer entry leaves in the store: tombstones delete. -/
def committed (v : Option Val) (below : Option Val) : Option Val :=
  match v with
  | some [] => none
  | some (b :: r) => some (b :: r)
  | none => below

theorem lookup_commit_fold (l : Entries) (hl : Sorted l) {d : Entries} (hd : Sorted d) (k : Key) :
    lookup k ((l.map commitOp).foldl BatchOp.apply d) = committed (lookup k l) (lookup k d) := by
  induction l generalizing d with
  | nil => simp [lookup, committed]
  | cons e r ih =>
    obtain ⟨k1, v1⟩ := e
    have ⟨h1, h2⟩ := sorted_cons.mp hl
    simp only [List.map_cons, List.foldl_cons]
    rw [ih h2 ((commitOp (k1, v1)).apply_sorted hd), lookup_apply_commitOp _ _ hd]
    simp only [lookup]
    cases hc : cmpB k k1 with
    | lt =>
      have hne : k1 ≠ k := by rintro rfl; rw [cmpB_refl] at hc; cases hc
      rw [lookup_none_of_le h1 (ltB_asymm (ltB_iff.mpr hc))]
      simp [committed, hne]
    | eq =>
      have := cmpB_eq_iff.mp hc; subst this
      rw [lookup_none_of_le h1 (ltB_irrefl _)]
      cases v1 <;> simp [committed]
    | gt =>
      have hne : k1 ≠ k := by rintro rfl; rw [cmpB_refl] at hc; cases hc
      simp [hne]

theorem foldlM_batchAdd (s : Store) (b : List BatchOp) (hb : s.batch = some b) (l : Entries) :
    l.foldlM (fun (s : Store) e => s.batchAdd (commitOp e)) s = some { s with batch := some (b ++ l.map commitOp) } := by
  induction l generalizing s b with
  | nil => cases s; simp at hb; simp [hb]
  | cons e r ih =>
    have hstep : s.batchAdd (commitOp e) = some { s with batch := some (b ++ [commitOp e]) } := by
      simp [Store.batchAdd, hb]
    rw [List.foldlM_cons, hstep]
    simp only [Option.bind_eq_bind, Option.bind_some]
    rw [ih { s with batch := some (b ++ [commitOp e]) } (b ++ [commitOp e]) rfl]
    simp

theorem foldlM_batchAdd_none (s : Store) (hb : s.batch = none) (e : Key × Val) (l : Entries) :
    (e :: l).foldlM (fun (s : Store) e => s.batchAdd (commitOp e)) s = none := by
  simp [List.foldlM_cons, Store.batchAdd, hb]

/-- `NewBatch; CommitTo; BatchCommit` as one step on the overlay. -/
def Overlay.commitAll (o : Overlay) : Option Overlay :=
  (({ o with store := o.store.newBatch } : Overlay).commitTo).map fun o' => { o' with store := o'.store.batchCommit }

theorem Overlay.commitAll_eq (o : Overlay) :
    o.commitAll = some { o with store := { data := (o.mem.ents.map commitOp).foldl BatchOp.apply o.store.data, batch := none } } := by
  unfold Overlay.commitAll Overlay.commitTo
  simp only [Store.newBatch]
  rw [foldlM_batchAdd _ [] rfl]
  simp [Store.batchCommit]

/-! ### cache commit -/

theorem put_ents' (p : MemDB) (k : Key) (v : Val) : (p.put k v).ents = insert k v p.ents := by
  unfold MemDB.put; split <;> rfl

theorem cache_commit_step (o : Overlay) (e : Key × Val) :
    (if e.2.isEmpty then o.delete e.1 else o.put e.1 e.2) = o.put e.1 e.2 := by
  cases hv : e.2 with
  | nil => simp [Overlay.delete, Overlay.put, MemDB.delete]
  | cons b r => simp

theorem cache_commit_eq (c : CacheDB) (o : Overlay) :
    c.commit o = c.mem.ents.foldl (fun o e => o.put e.1 e.2) o := by
  unfold CacheDB.commit
  congr 1; funext o e; exact cache_commit_step o e

theorem foldl_put_store (l : Entries) (o : Overlay) : (l.foldl (fun o e => o.put e.1 e.2) o).store = o.store := by
  induction l generalizing o with
  | nil => rfl
  | cons e r ih => simp only [List.foldl_cons, ih]; rfl

theorem foldl_put_ents (l : Entries) (o : Overlay) :
    (l.foldl (fun o e => o.put e.1 e.2) o).mem.ents = applyOps o.mem.ents l := by
  induction l generalizing o with
  | nil => rfl
  | cons e r ih =>
    rw [List.foldl_cons, ih]
    simp only [applyOps, List.foldl_cons, Overlay.put, put_ents']

theorem foldl_put_wf (l : Entries) (o : Overlay) (h : o.mem.WF) : (l.foldl (fun o e => o.put e.1 e.2) o).mem.WF := by
  induction l generalizing o with
  | nil => exact h
  | cons e r ih => exact ih _ (h.put e.1 e.2)

theorem lastWrite_sorted {l : Entries} (h : Sorted l) (k : Key) : lastWrite l k = lookup k l := by
  induction l with
  | nil => rfl
  | cons e r ih =>
    obtain ⟨k1, v1⟩ := e
    have ⟨h1, h2⟩ := sorted_cons.mp h
    simp only [lastWrite, lookup, ih h2]
    cases hc : cmpB k k1 with
    | lt =>
      have hne : k1 ≠ k := by rintro rfl; rw [cmpB_refl] at hc; cases hc
      rw [lookup_none_of_le h1 (ltB_asymm (ltB_iff.mpr hc))]; simp [hne]
    | eq =>
      have := cmpB_eq_iff.mp hc; subst this
      rw [lookup_none_of_le h1 (ltB_irrefl _)]; simp
    | gt =>
      have hne : k1 ≠ k := by rintro rfl; rw [cmpB_refl] at hc; cases hc
      cases lookup k r <;> simp [hne]

/-! ### reading through the layers -/

theorem get_eq_lookup (k : Key) (m : Entries) :
    KV.get k m = match lookup k m with | none => .unknown | some [] => .knownAbsent | some (b :: v) => .known (b :: v) := rfl

theorem Overlay.get_eq (o : Overlay) (k : Key) :
    o.get k = match lookup k o.mem.ents with
      | some v => v
      | none => match lookup k o.store.data with | some v => v | none => [] := by
  unfold Overlay.get MemDB.get KV.get Store.get
  cases h : lookup k o.mem.ents with
  | none => rfl
  | some v => cases v <;> rfl

theorem CacheDB.get_eq (c : CacheDB) (o : Overlay) (k : Key) :
    c.get o k = match lookup (stStorage :: k) c.mem.ents with
      | some v => v
      | none => o.get (stStorage :: k) := by
  unfold CacheDB.get MemDB.get KV.get
  cases h : lookup (stStorage :: k) c.mem.ents with
  | none => rfl
  | some v => cases v <;> rfl

end Poly.Model.KV
