import Poly.Model.KVArena
import Poly.Proofs.KVPrefix
/- Refinement of the arena (kvData / nodeData, level 0) model of MemDB to the node-list model. -/
namespace Poly.Model.KV

/-! ### list plumbing -/

theorem getD_set_ne {l : List Nat} {i j x : Nat} (h : i ≠ j) : (l.set i x).getD j 0 = l.getD j 0 := by
  simp [List.getD, List.getElem?_set_ne h]

theorem getD_set_eq {l : List Nat} {i x : Nat} (h : i < l.length) : (l.set i x).getD i 0 = x := by
  simp [List.getD, List.getElem?_set_self h]

theorem getD_append_left {l r : List Nat} {j : Nat} (h : j < l.length) : (l ++ r).getD j 0 = l.getD j 0 := by
  simp [List.getD, List.getElem?_append_left h]

theorem getD_append_right {l r : List Nat} {j : Nat} : (l ++ r).getD (l.length + j) 0 = r.getD j 0 := by
  simp [List.getD, List.getElem?_append_right]

theorem take_drop_append {α} (kv x : List α) {o n : Nat} (h : o + n ≤ kv.length) :
    ((kv ++ x).drop o).take n = (kv.drop o).take n := by
  rw [List.drop_append_of_le_length (by omega), List.take_append_of_le_length (by simp; omega)]

theorem take_drop_end1 {α} (kv k v : List α) : ((kv ++ k ++ v).drop kv.length).take k.length = k := by
  rw [List.append_assoc, List.drop_left, List.take_left]

theorem take_drop_end2 {α} (kv k v : List α) : ((kv ++ k ++ v).drop (kv.length + k.length)).take v.length = v := by
  have : kv.length + k.length = (kv ++ k).length := by simp
  rw [this, List.drop_left]; simp

/-! ### insert on a split sorted list -/

theorem insert_split_new {lpre lpost : Entries} {k : Key} (v : Val)
    (h1 : ∀ x ∈ lpre, ltB x.1 k = true) (h2 : ∀ x ∈ lpost.head?, ltB k x.1 = true) :
    insert k v (lpre ++ lpost) = lpre ++ (k, v) :: lpost ∧ lookup k (lpre ++ lpost) = none := by
  induction lpre with
  | nil =>
    cases lpost with
    | nil => simp [insert, lookup]
    | cons e r =>
      have := ltB_iff.mp (h2 e (by simp))
      obtain ⟨ke, ve⟩ := e
      simp only at this
      simp [insert, lookup, this]
  | cons e r ih =>
    obtain ⟨ke, ve⟩ := e
    have hg : cmpB k ke = .gt := cmpB_lt_iff_gt.mp (ltB_iff.mp (h1 (ke, ve) (by simp)))
    have := ih (fun x hx => h1 x (by simp [hx]))
    simp [insert, lookup, hg, this.1, this.2]

theorem insert_split_eq {lpre lpost : Entries} {k : Key} (old v : Val) (h1 : ∀ x ∈ lpre, ltB x.1 k = true) :
    insert k v (lpre ++ (k, old) :: lpost) = lpre ++ (k, v) :: lpost ∧ lookup k (lpre ++ (k, old) :: lpost) = some old := by
  induction lpre with
  | nil => simp [insert, lookup, cmpB_refl]
  | cons e r ih =>
    obtain ⟨ke, ve⟩ := e
    have hg : cmpB k ke = .gt := cmpB_lt_iff_gt.mp (ltB_iff.mp (h1 (ke, ve) (by simp)))
    have := ih (fun x hx => h1 x (by simp [hx]))
    simp [insert, lookup, hg, this.1, this.2]


/-! ### the arena invariant -/

/-- `ps` is the level-0 chain hanging off node `p`. -/
def Chain (a : Arena) : Nat → List Nat → Prop
  | p, [] => a.next0 p = 0
  | p, q :: r => a.next0 p = q ∧ q ≠ 0 ∧ Chain a q r

/-- Two node offsets are at least a minimal node (4 header cells + 1 pointer) apart. -/
def Sep (p q : Nat) : Prop := p + 5 ≤ q ∨ q + 5 ≤ p

structure NodeOK (a : Arena) (p : Nat) : Prop where
  lo : 16 ≤ p
  hi : p + 5 ≤ a.nd.length
  kvb : a.cell p + a.cell (p + 1) + a.cell (p + 2) ≤ a.kv.length

/-- Well-formed arenas with level-0 chain `ps`: linked from the head, every node inside both arenas, nodes
apart from each other, keys strictly increasing along the chain. -/
structure AInv (a : Arena) (ps : List Nat) : Prop where
  chain : Chain a 0 ps
  ok : ∀ p ∈ ps, NodeOK a p
  sep : (0 :: ps).Pairwise Sep
  sorted : Sorted (ps.map a.read)
  len : ps.length + 16 ≤ a.nd.length

theorem chain_eq (a : Arena) (p : Nat) (ps : List Nat) (h : Chain a p ps) (f : Nat) (hf : ps.length < f) :
    a.chain f p = ps := by
  induction ps generalizing p f with
  | nil => cases f with
    | zero => omega
    | succ f => simp [Arena.chain, Chain] at h ⊢; exact h
  | cons q r ih =>
    cases f with
    | zero => omega
    | succ f =>
      obtain ⟨h1, h2, h3⟩ := h
      simp only [Arena.chain, h1, h2, if_false]
      rw [ih q h3 f (by simp at hf; omega)]

theorem entries_eq {a : Arena} {ps : List Nat} (h : AInv a ps) : a.entries = ps.map a.read := by
  unfold Arena.entries
  rw [chain_eq a 0 ps h.chain _ (by have := h.len; omega)]

/-- Frame: a chain only depends on the level-0 pointer cells of its nodes. -/
theorem chain_frame {a a' : Arena} {p : Nat} {ps : List Nat} (h : Chain a p ps)
    (hc : ∀ y ∈ p :: ps, a'.cell (y + 4) = a.cell (y + 4)) : Chain a' p ps := by
  induction ps generalizing p with
  | nil => simp only [Chain, Arena.next0] at h ⊢; rw [hc p (by simp)]; exact h
  | cons q r ih =>
    obtain ⟨h1, h2, h3⟩ := h
    refine ⟨?_, h2, ih h3 (fun y hy => hc y (by simp at hy ⊢; right; exact hy))⟩
    simp only [Arena.next0] at h1 ⊢; rw [hc p (by simp)]; exact h1

/-- Frame: what a node reads depends on its three header cells and on the bytes it points at. -/
theorem read_frame {a a' : Arena} {p : Nat} (hok : NodeOK a p) (x : List UInt8) (hkv : a'.kv = a.kv ++ x)
    (h0 : a'.cell p = a.cell p) (h1 : a'.cell (p + 1) = a.cell (p + 1)) (h2 : a'.cell (p + 2) = a.cell (p + 2)) :
    a'.read p = a.read p := by
  have := hok.kvb
  simp only [Arena.read, Arena.keyAt, Arena.valAt, h0, h1, h2, hkv]
  rw [take_drop_append _ _ (by omega), take_drop_append _ _ (by omega)]

theorem keyAt_length {a : Arena} {p : Nat} (hok : NodeOK a p) : (a.keyAt p).length = a.cell (p + 1) := by
  have := hok.kvb
  simp only [Arena.keyAt, List.length_take, List.length_drop]; omega

theorem valAt_length {a : Arena} {p : Nat} (hok : NodeOK a p) : (a.valAt p).length = a.cell (p + 2) := by
  have := hok.kvb
  simp only [Arena.valAt, List.length_take, List.length_drop]; omega

/-- The level-0 search: it stops at the first node whose key is not below `key`. -/
theorem search_spec (a : Arena) (key : Key) (prev : Nat) (rest : List Nat) (h : Chain a prev rest) (f : Nat)
    (hf : rest.length < f) :
    ∃ pre post, rest = pre ++ post ∧ (∀ x ∈ pre, ltB (a.keyAt x) key = true) ∧
      (a.search key f prev).1 = (prev :: pre).getLast (by simp) ∧
      ((post = [] ∧ (a.search key f prev).2 = (0, false)) ∨
       (∃ q post', post = q :: post' ∧ (a.search key f prev).2.1 = q ∧
          (((a.search key f prev).2.2 = true ∧ a.keyAt q = key) ∨
           ((a.search key f prev).2.2 = false ∧ ltB key (a.keyAt q) = true)))) := by
  induction rest generalizing prev f with
  | nil =>
    cases f with
    | zero => omega
    | succ f =>
      simp only [Chain] at h
      exact ⟨[], [], rfl, by simp, by simp [Arena.search, h], .inl ⟨rfl, by simp [Arena.search, h]⟩⟩
  | cons q r ih =>
    cases f with
    | zero => omega
    | succ f =>
      obtain ⟨h1, h2, h3⟩ := h
      simp only [Arena.search, h1, h2, if_false]
      cases hc : cmpB (a.keyAt q) key with
      | lt =>
        obtain ⟨pre, post, e1, e2, e3, e4⟩ := ih q h3 f (by simp at hf; omega)
        refine ⟨q :: pre, post, by simp [e1], ?_, ?_, e4⟩
        · intro x hx
          simp only [List.mem_cons] at hx
          rcases hx with rfl | hx
          · exact ltB_iff.mpr hc
          · exact e2 x hx
        · simp only; rw [e3]; simp [List.getLast_cons]
      | eq =>
        exact ⟨[], q :: r, rfl, by simp, by simp, .inr ⟨q, r, rfl, rfl, .inl ⟨rfl, cmpB_eq_iff.mp hc⟩⟩⟩
      | gt =>
        exact ⟨[], q :: r, rfl, by simp, by simp, .inr ⟨q, r, rfl, rfl, .inr ⟨rfl, ltB_iff.mpr (cmpB_gt_iff_lt.mp hc)⟩⟩⟩


theorem sep_of_mem {l : List Nat} (h : l.Pairwise Sep) {x y : Nat} (hx : x ∈ l) (hy : y ∈ l) (hne : x ≠ y) : Sep x y := by
  induction l with
  | nil => simp at hx
  | cons a r ih =>
    obtain ⟨h1, h2⟩ := List.pairwise_cons.mp h
    simp only [List.mem_cons] at hx hy
    rcases hx with rfl | hx <;> rcases hy with rfl | hy
    · exact absurd rfl hne
    · exact h1 y hy
    · have := h1 x hx; unfold Sep at *; omega
    · exact ih h2 hx hy

theorem Sep.ne {p q : Nat} (h : Sep p q) : p ≠ q := by unfold Sep at h; omega

/-- Linking a new node `N` after `prev` (the last node of `p0 :: pre`) into the chain. -/
theorem chain_link {a a' : Arena} {N : Nat} (hN : N ≠ 0) (p0 : Nat) (pre post : List Nat)
    (h : Chain a p0 (pre ++ post)) (hd : (p0 :: (pre ++ post)).Pairwise (· ≠ ·))
    (hsame : ∀ y ∈ p0 :: (pre ++ post), y ≠ (p0 :: pre).getLast (by simp) → a'.cell (y + 4) = a.cell (y + 4))
    (hprev : a'.cell ((p0 :: pre).getLast (by simp) + 4) = N)
    (hnew : a'.cell (N + 4) = a.cell ((p0 :: pre).getLast (by simp) + 4)) :
    Chain a' p0 (pre ++ N :: post) := by
  induction pre generalizing p0 with
  | nil =>
    simp only [List.getLast_singleton, List.nil_append] at *
    refine ⟨hprev, hN, ?_⟩
    have hne : ∀ y ∈ post, y ≠ p0 := fun y hy => ((List.pairwise_cons.mp hd).1 y hy).symm
    cases post with
    | nil => simp only [Chain, Arena.next0] at h ⊢; rw [hnew]; exact h
    | cons q r =>
      obtain ⟨h1, h2, h3⟩ := h
      refine ⟨by simp only [Arena.next0] at h1 ⊢; rw [hnew]; exact h1, h2, ?_⟩
      exact chain_frame h3 (fun y hy => hsame y (by simp at hy ⊢; right; exact hy) (hne y hy))
  | cons x pre' ih =>
    obtain ⟨h1, h2, h3⟩ := h
    have hd' := List.pairwise_cons.mp hd
    have hlast : (p0 :: x :: pre').getLast (by simp) = (x :: pre').getLast (by simp) := by simp [List.getLast_cons]
    have hx : (x :: pre').getLast (by simp) ∈ x :: (pre' ++ post) := by
      have := List.getLast_mem (l := x :: pre') (by simp)
      simp only [List.mem_cons, List.mem_append] at this ⊢
      rcases this with h | h
      · exact .inl h
      · exact .inr (.inl h)
    have hp0 : p0 ≠ (x :: pre').getLast (by simp) := hd'.1 _ (by simpa using hx)
    refine ⟨?_, h2, ?_⟩
    · simp only [Arena.next0] at h1 ⊢
      rw [hsame p0 (by simp) (by rw [hlast]; exact hp0)]; exact h1
    · apply ih x h3 hd'.2
      · intro y hy hne
        exact hsame y (by simp at hy ⊢; right; exact hy) (by rw [hlast]; exact hne)
      · rw [← hlast]; exact hprev
      · rw [← hlast]; exact hnew


theorem pairwise_insert_mid {α} {R : α → α → Prop} {l1 l2 : List α} {N : α} (h : (l1 ++ l2).Pairwise R)
    (h1 : ∀ y ∈ l1, R y N) (h2 : ∀ y ∈ l2, R N y) : (l1 ++ N :: l2).Pairwise R := by
  rw [List.pairwise_append] at h ⊢
  obtain ⟨a, b, c⟩ := h
  refine ⟨a, List.pairwise_cons.mpr ⟨h2, b⟩, ?_⟩
  intro x hx y hy
  simp only [List.mem_cons] at hy
  rcases hy with rfl | hy
  · exact h1 x hx
  · exact c x hx y hy

/-- The arena after linking a new node behind `prev` (the non-exact branch of `Put`). -/
def Arena.linkNew (a : Arena) (prev : Nat) (key : Key) (value : Val) (h : Nat) : Arena :=
  { kv := a.kv ++ key ++ value,
    nd := (a.nd ++ [a.kv.length, key.length, value.length, h] ++ [a.next0 prev] ++ List.replicate (h - 1) 0).set
      (prev + 4) a.nd.length,
    n := a.n + 1, kvSize := a.kvSize + ((key.length + value.length : Nat) : Int) }

theorem linkNew_cells (a : Arena) (prev : Nat) (key : Key) (value : Val) (h : Nat) (hp : prev + 4 < a.nd.length) :
    let a' := a.linkNew prev key value h
    (∀ j, j < a.nd.length → j ≠ prev + 4 → a'.cell j = a.cell j) ∧
    a'.cell (prev + 4) = a.nd.length ∧
    a'.cell a.nd.length = a.kv.length ∧ a'.cell (a.nd.length + 1) = key.length ∧
    a'.cell (a.nd.length + 2) = value.length ∧ a'.cell (a.nd.length + 4) = a.cell (prev + 4) ∧
    a.nd.length + 5 ≤ a'.nd.length := by
  intro a'
  have e : a'.nd = (a.nd ++ ([a.kv.length, key.length, value.length, h, a.next0 prev] ++ List.replicate (h - 1) 0)).set
      (prev + 4) a.nd.length := by simp [a', Arena.linkNew]
  refine ⟨?_, ?_, ?_, ?_, ?_, ?_, ?_⟩
  · intro j hj hne
    simp only [Arena.cell, e]
    rw [getD_set_ne (Ne.symm hne), getD_append_left hj]
  · simp only [Arena.cell, e]
    rw [getD_set_eq (by simp; omega)]
  · simp only [Arena.cell, e]
    rw [getD_set_ne (by omega)]
    have := getD_append_right (l := a.nd) (r := [a.kv.length, key.length, value.length, h, a.next0 prev] ++ List.replicate (h - 1) 0) (j := 0)
    simpa using this
  · simp only [Arena.cell, e]
    rw [getD_set_ne (by omega), getD_append_right]; simp
  · simp only [Arena.cell, e]
    rw [getD_set_ne (by omega), getD_append_right]; simp
  · simp only [Arena.cell, e]
    rw [getD_set_ne (by omega), getD_append_right] <;> simp [Arena.next0, Arena.cell]
  · rw [e]; simp

theorem put_new {a : Arena} {ps pre post : List Nat} (hi : AInv a ps) (hs : ps = pre ++ post) (k : Key) (v : Val) (h : Nat)
    (h1 : ∀ x ∈ pre, ltB (a.keyAt x) k = true) (h2 : ∀ q ∈ post.head?, ltB k (a.keyAt q) = true) :
    let a' := a.linkNew ((0 :: pre).getLast (by simp)) k v h
    AInv a' (pre ++ a.nd.length :: post) ∧
    (pre ++ a.nd.length :: post).map a'.read = insert k v (ps.map a.read) ∧ lookup k (ps.map a.read) = none := by
  intro a'
  subst hs
  have hprev_mem : (0 :: pre).getLast (by simp) ∈ 0 :: (pre ++ post) := by
    have := List.getLast_mem (l := 0 :: pre) (by simp)
    simp only [List.mem_cons, List.mem_append] at this ⊢
    rcases this with h | h
    · exact .inl h
    · exact .inr (.inl h)
  have hprev_lt : (0 :: pre).getLast (by simp) + 4 < a.nd.length := by
    simp only [List.mem_cons] at hprev_mem
    rcases hprev_mem with h0 | hm
    · rw [h0]; have := hi.len; omega
    · have := (hi.ok _ hm).hi; omega
  have ha' : a' = a.linkNew ((0 :: pre).getLast (by simp)) k v h := rfl
  clear_value a'
  have hcells := linkNew_cells a _ k v h hprev_lt
  simp only [← ha'] at hcells
  obtain ⟨c1, c2, c3, c4, c5, c6, c7⟩ := hcells
  have hkv : a'.kv = a.kv ++ (k ++ v) := by rw [ha']; simp [Arena.linkNew]
  have hsepall := hi.sep
  -- a node's header cells are not the cell that was overwritten
  have hcell : ∀ p ∈ pre ++ post, ∀ i, i ≤ 2 → a'.cell (p + i) = a.cell (p + i) := by
    intro p hp i hi2
    have hok := hi.ok p hp
    apply c1 _ (by have := hok.hi; omega)
    simp only [List.mem_cons] at hprev_mem
    rcases hprev_mem with h0 | hm
    · rw [h0]; have := hok.lo; omega
    · by_cases heq : (0 :: pre).getLast (by simp) = p
      · rw [heq]; omega
      · have := sep_of_mem (List.pairwise_cons.mp hsepall).2 hm hp heq
        unfold Sep at this; omega
  have hread : ∀ p ∈ pre ++ post, a'.read p = a.read p := fun p hp =>
    read_frame (hi.ok p hp) (k ++ v) hkv (hcell p hp 0 (by omega)) (hcell p hp 1 (by omega)) (hcell p hp 2 (by omega))
  have hreadN : a'.read a.nd.length = (k, v) := by
    simp only [Arena.read, Arena.keyAt, Arena.valAt, c3, c4, c5]
    have : a'.kv = a.kv ++ k ++ v := by rw [ha']; simp [Arena.linkNew]
    rw [this, take_drop_end1, take_drop_end2]
  have hmap : (pre ++ a.nd.length :: post).map a'.read = pre.map a.read ++ (k, v) :: post.map a.read := by
    simp only [List.map_append, List.map_cons, hreadN]
    congr 1
    · exact List.map_congr_left (fun p hp => hread p (by simp [hp]))
    · congr 1; exact List.map_congr_left (fun p hp => hread p (by simp [hp]))
  have hins := insert_split_new (lpre := pre.map a.read) (lpost := post.map a.read) (k := k) v
    (by intro x hx; obtain ⟨p, hp, rfl⟩ := List.mem_map.mp hx; exact h1 p hp)
    (by
      intro x hx
      cases post with
      | nil => simp at hx
      | cons q r => simp at hx; subst hx; exact h2 q (by simp))
  rw [← List.map_append] at hins
  have hN16 : 16 ≤ a.nd.length := by have := hi.len; omega
  refine ⟨⟨?_, ?_, ?_, ?_, ?_⟩, by rw [hmap, hins.1], hins.2⟩
  · -- chain
    apply chain_link (a := a) (by omega) 0 pre post hi.chain
      (List.Pairwise.imp (fun h => Sep.ne h) hsepall)
    · intro y hy hne
      apply c1
      · simp only [List.mem_cons] at hy
        rcases hy with rfl | hy
        · omega
        · have := (hi.ok y hy).hi; omega
      · omega
    · exact c2
    · exact c6
  · -- nodes
    intro p hp
    simp only [List.mem_append, List.mem_cons] at hp
    have old : ∀ p ∈ pre ++ post, NodeOK a' p := by
      intro p hp
      have hok := hi.ok p hp
      refine ⟨hok.lo, by have := hok.hi; omega, ?_⟩
      have e0 := hcell p hp 0 (by omega)
      rw [Nat.add_zero] at e0
      rw [e0, hcell p hp 1 (by omega), hcell p hp 2 (by omega), hkv]
      have := hok.kvb; simp; omega
    rcases hp with hp | rfl | hp
    · exact old p (by simp [hp])
    · refine ⟨hN16, c7, ?_⟩
      rw [c3, c4, c5, hkv]; simp; omega
    · exact old p (by simp [hp])
  · -- separation
    have : ((0 :: pre) ++ a.nd.length :: post).Pairwise Sep := by
      apply pairwise_insert_mid (by simpa using hsepall)
      · intro y hy
        simp only [List.mem_cons] at hy
        rcases hy with rfl | hy
        · unfold Sep; omega
        · have := (hi.ok y (by simp [hy])).hi; unfold Sep; omega
      · intro y hy
        have := (hi.ok y (by simp [hy])).hi; unfold Sep; omega
    simpa using this
  · rw [hmap, ← hins.1]; exact insert_sorted hi.sorted
  · have := hi.len; simp at this ⊢; omega


/-- The arena after overwriting the value of an existing node (the exact branch of `Put`). -/
def Arena.overwrite (a : Arena) (node : Nat) (key : Key) (value : Val) : Arena :=
  let a1 : Arena := if value.isEmpty then a else { a with kv := a.kv ++ key ++ value, nd := a.nd.set node a.kv.length }
  { a1 with nd := a1.nd.set (node + 2) value.length,
            kvSize := a.kvSize + (value.length : Int) - (a.cell (node + 2) : Int) }

theorem overwrite_cells (a : Arena) (node : Nat) (key : Key) (value : Val) (hn : node + 2 < a.nd.length) :
    let a' := a.overwrite node key value
    (∀ j, j ≠ node → j ≠ node + 2 → a'.cell j = a.cell j) ∧
    a'.cell (node + 2) = value.length ∧
    a'.cell node = (if value.isEmpty then a.cell node else a.kv.length) ∧
    a'.kv = (if value.isEmpty then a.kv else a.kv ++ key ++ value) ∧
    a'.nd.length = a.nd.length := by
  intro a'
  cases hv : value.isEmpty with
  | true =>
    have e : a'.nd = a.nd.set (node + 2) value.length := by simp [a', Arena.overwrite, hv]
    have ek : a'.kv = a.kv := by simp [a', Arena.overwrite, hv]
    refine ⟨?_, ?_, ?_, by simp [ek], by simp [e]⟩
    · intro j h1 h2; simp only [Arena.cell, e]; rw [getD_set_ne (Ne.symm h2)]
    · simp only [Arena.cell, e]; rw [getD_set_eq hn]
    · simp only [Arena.cell, e]; rw [getD_set_ne (by omega)]; simp
  | false =>
    have e : a'.nd = (a.nd.set node a.kv.length).set (node + 2) value.length := by simp [a', Arena.overwrite, hv]
    have ek : a'.kv = a.kv ++ key ++ value := by simp [a', Arena.overwrite, hv]
    refine ⟨?_, ?_, ?_, by simp [ek], by simp [e]⟩
    · intro j h1 h2; simp only [Arena.cell, e]; rw [getD_set_ne (Ne.symm h2), getD_set_ne (Ne.symm h1)]
    · simp only [Arena.cell, e]; rw [getD_set_eq (by simp; omega)]
    · simp only [Arena.cell, e]; rw [getD_set_ne (by omega), getD_set_eq (by omega)]; simp

theorem put_over {a : Arena} {ps pre post : List Nat} {q : Nat} (hi : AInv a ps) (hs : ps = pre ++ q :: post)
    (k : Key) (v : Val) (h1 : ∀ x ∈ pre, ltB (a.keyAt x) k = true) (hk : a.keyAt q = k) :
    let a' := a.overwrite q k v
    AInv a' ps ∧ ps.map a'.read = insert k v (ps.map a.read) ∧ lookup k (ps.map a.read) = some (a.valAt q) := by
  intro a'
  subst hs
  have hq : q ∈ pre ++ q :: post := by simp
  have hokq := hi.ok q hq
  have ha' : a' = a.overwrite q k v := rfl
  clear_value a'
  have hcells := overwrite_cells a q k v (by have := hokq.hi; omega)
  simp only [← ha'] at hcells
  obtain ⟨c1, c2, c3, c4, c5⟩ := hcells
  have hkv : ∃ x, a'.kv = a.kv ++ x := by
    rw [c4]; split
    · exact ⟨[], by simp⟩
    · exact ⟨k ++ v, by simp⟩
  obtain ⟨x, hx⟩ := hkv
  have hsepall := hi.sep
  have hcell : ∀ p ∈ pre ++ q :: post, p ≠ q → ∀ i, i ≤ 2 → a'.cell (p + i) = a.cell (p + i) := by
    intro p hp hne i hi2
    have := sep_of_mem (List.pairwise_cons.mp hsepall).2 hp hq hne
    unfold Sep at this
    apply c1 <;> omega
  have hread : ∀ p ∈ pre ++ q :: post, p ≠ q → a'.read p = a.read p := fun p hp hne =>
    read_frame (hi.ok p hp) x hx (hcell p hp hne 0 (by omega)) (hcell p hp hne 1 (by omega)) (hcell p hp hne 2 (by omega))
  have hq1 : a'.cell (q + 1) = a.cell (q + 1) := c1 _ (by omega) (by omega)
  have hklen : a.cell (q + 1) = k.length := by rw [← keyAt_length hokq, hk]
  have hreadq : a'.read q = (k, v) := by
    simp only [Arena.read, Arena.keyAt, Arena.valAt, c2, c3, c4, hq1, hklen]
    cases hv : v.isEmpty with
    | true =>
      have : v = [] := List.isEmpty_iff.mp hv
      subst this
      simp only [if_true, List.length_nil, List.take_zero]
      have := hk; simp only [Arena.keyAt, hklen] at this; rw [this]
    | false =>
      simp only [Bool.false_eq_true, if_false]
      rw [take_drop_end1, take_drop_end2]
  -- nodes other than q: not in pre (keys below k) and not in post (separated)
  have hnq_pre : ∀ p ∈ pre, p ≠ q := by
    intro p hp heq
    have := h1 p hp
    rw [heq, hk, ltB_irrefl] at this; cases this
  have hnq_post : ∀ p ∈ post, p ≠ q := by
    intro p hp
    have hpw := (List.pairwise_cons.mp hsepall).2
    rw [List.pairwise_append] at hpw
    exact (Sep.ne ((List.pairwise_cons.mp hpw.2.1).1 p hp)).symm
  have hmap : (pre ++ q :: post).map a'.read = pre.map a.read ++ (k, v) :: post.map a.read := by
    simp only [List.map_append, List.map_cons, hreadq]
    congr 1
    · exact List.map_congr_left (fun p hp => hread p (by simp [hp]) (hnq_pre p hp))
    · congr 1; exact List.map_congr_left (fun p hp => hread p (by simp [hp]) (hnq_post p hp))
  have hold : (pre ++ q :: post).map a.read = pre.map a.read ++ (k, a.valAt q) :: post.map a.read := by
    simp only [List.map_append, List.map_cons, Arena.read, hk]
  have hins := insert_split_eq (lpre := pre.map a.read) (lpost := post.map a.read) (k := k) (a.valAt q) v
    (by intro y hy; obtain ⟨p, hp, rfl⟩ := List.mem_map.mp hy; exact h1 p hp)
  refine ⟨⟨?_, ?_, hi.sep, ?_, by rw [c5]; exact hi.len⟩, by rw [hmap, hold, hins.1], by rw [hold, hins.2]⟩
  · apply chain_frame hi.chain
    intro y hy
    apply c1
    · simp only [List.mem_cons] at hy
      rcases hy with rfl | hy
      · have := hokq.lo; omega
      · by_cases heq : y = q
        · omega
        · have := sep_of_mem (List.pairwise_cons.mp hsepall).2 hy hq heq; unfold Sep at this; omega
    · simp only [List.mem_cons] at hy
      rcases hy with rfl | hy
      · have := hokq.lo; omega
      · by_cases heq : y = q
        · omega
        · have := sep_of_mem (List.pairwise_cons.mp hsepall).2 hy hq heq; unfold Sep at this; omega
  · intro p hp
    have hok := hi.ok p hp
    by_cases heq : p = q
    · subst heq
      refine ⟨hok.lo, by rw [c5]; exact hok.hi, ?_⟩
      rw [c2, c3, c4, hq1, hklen]
      cases hv : v.isEmpty with
      | true =>
        have : v = [] := List.isEmpty_iff.mp hv
        subst this
        have := hok.kvb; simp [hklen] at this ⊢; omega
      | false => simp; omega
    · refine ⟨hok.lo, by rw [c5]; exact hok.hi, ?_⟩
      have e0 := hcell p hp heq 0 (by omega)
      rw [Nat.add_zero] at e0
      rw [e0, hcell p hp heq 1 (by omega), hcell p hp heq 2 (by omega), hx]
      have := hok.kvb; simp; omega
  · rw [hmap, ← hins.1, ← hold]; exact insert_sorted hi.sorted


theorem AInv.empty : AInv {} [] :=
  ⟨by simp [Chain, Arena.next0, Arena.cell, List.getD], by simp, by simp, Sorted.nil, by simp⟩

theorem put_eq_linkNew (a : Arena) (k : Key) (v : Val) (h : Nat) (hr : (a.search k a.nd.length 0).2.2 = false) :
    a.put k v h = a.linkNew (a.search k a.nd.length 0).1 k v h := by
  simp [Arena.put, hr, Arena.linkNew]

theorem put_eq_overwrite (a : Arena) (k : Key) (v : Val) (h : Nat) (hr : (a.search k a.nd.length 0).2.2 = true) :
    a.put k v h = a.overwrite (a.search k a.nd.length 0).2.1 k v := by
  simp [Arena.put, hr, Arena.overwrite]

/-- **Refinement.** One `Put` on well-formed arenas, for any node height the oracle supplies, is one `put` of the
node-list model (entries, `n` and `kvSize`), and the arenas stay well formed. -/
theorem arena_put_refines {a : Arena} {ps : List Nat} (hi : AInv a ps) (k : Key) (v : Val) (h : Nat) :
    ∃ ps', AInv (a.put k v h) ps' ∧ (a.put k v h).toMemDB = a.toMemDB.put k v := by
  obtain ⟨pre, post, e1, e2, e3, e4⟩ := search_spec a k 0 ps hi.chain a.nd.length (by have := hi.len; omega)
  have hent := entries_eq hi
  rcases e4 with ⟨hp, hr⟩ | ⟨q, post', hp, hq, hx | hx⟩
  · -- end of chain: new last node
    subst hp
    have hr2 : (a.search k a.nd.length 0).2.2 = false := by rw [hr]
    have := put_new hi e1 k v h e2 (by simp)
    rw [put_eq_linkNew a k v h hr2, e3]
    refine ⟨_, this.1, ?_⟩
    simp only [Arena.toMemDB, entries_eq this.1, this.2.1, MemDB.put, hent, this.2.2]
    simp [Arena.linkNew]
  · -- exact
    obtain ⟨t1, t2, t3⟩ := put_over hi (by rw [e1, hp]) k v e2 hx.2
    rw [put_eq_overwrite a k v h hx.1, hq]
    refine ⟨_, t1, ?_⟩
    have hok := hi.ok q (by rw [e1, hp]; simp)
    simp only [Arena.toMemDB, entries_eq t1, t2, MemDB.put, hent, t3, valAt_length hok]
    cases hv : v.isEmpty <;> simp [Arena.overwrite, hv]
  · -- strictly between: new node before q
    have := put_new hi (by rw [e1, hp]) k v h e2 (by simp [hx.2])
    rw [put_eq_linkNew a k v h hx.1, e3]
    refine ⟨_, this.1, ?_⟩
    simp only [Arena.toMemDB, entries_eq this.1, this.2.1, MemDB.put, hent, this.2.2]
    simp [Arena.linkNew]

/-- `Get` on the arenas answers like the node-list model. -/
theorem arena_get_refines {a : Arena} {ps : List Nat} (hi : AInv a ps) (k : Key) : a.get k = a.toMemDB.get k := by
  obtain ⟨pre, post, e1, e2, e3, e4⟩ := search_spec a k 0 ps hi.chain a.nd.length (by have := hi.len; omega)
  have hent := entries_eq hi
  simp only [Arena.get, Arena.toMemDB, MemDB.get, KV.get, hent]
  rcases e4 with ⟨hp, hr⟩ | ⟨q, post', hp, hq, hx | hx⟩
  · subst hp
    have := (put_new hi e1 k [] 1 e2 (by simp)).2.2
    rw [this, hr]; simp
  · have := (put_over hi (by rw [e1, hp]) k [] e2 hx.2).2.2
    have hok := hi.ok q (by rw [e1, hp]; simp)
    rw [this, hx.1, hq]
    have hl := valAt_length hok
    cases hv : a.valAt q with
    | nil => rw [hv] at hl; simp at hl; simp [← hl]
    | cons b r => rw [hv] at hl; simp at hl; simp [← hl]
  · have := (put_new hi (by rw [e1, hp]) k [] 1 e2 (by simp [hx.2])).2.2
    rw [this, hx.1]; simp

/-- Following a level-0 pointer is the model's `succ`: the node after `p` holds the first entry with a greater key. -/
theorem arena_next_is_succ {a : Arena} {ps pre post : List Nat} {p : Nat} (hi : AInv a ps) (hs : ps = pre ++ p :: post) :
    (post.head?.map a.read) = succ (a.keyAt p) a.entries ∧
    (a.next0 p = match post with | [] => 0 | q :: _ => q) := by
  subst hs
  constructor
  · rw [entries_eq hi]
    have hsorted := hi.sorted
    simp only [List.map_append, List.map_cons] at hsorted ⊢
    have := succ_split hsorted
    simp only [Arena.read] at this ⊢
    rw [this]; cases post <;> simp
  · -- the chain from p
    have hc := hi.chain
    have : ∀ (s : Nat) (l : List Nat), Chain a s (l ++ p :: post) → Chain a p post := by
      intro s l
      induction l generalizing s with
      | nil => intro h; exact h.2.2
      | cons x r ih => intro h; exact ih x h.2.2
    have hp := this 0 pre hc
    cases post with
    | nil => exact hp
    | cons q r => exact hp.1

end Poly.Model.KV
