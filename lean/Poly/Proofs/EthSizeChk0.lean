import Poly.Generated.EthSizeCerts0
/-! Kernel evaluation of the certificate checker on the 64-epoch chunks 0..3 of both ethash size tables (C28).
    Depends only on the generated certificate module (table values + certificates), not on the rule constants. -/
namespace Poly.Proofs.EthSizeChk
open Poly.Model.EthSizeCert Poly.Generated

theorem dataset_0 : checkTable 1073741824 8388608 128 0 EthSizeCerts.datasetVals_0 EthSizeCerts.datasetCerts_0 = true := by
  decide +kernel

theorem cache_0 : checkTable 16777216 131072 64 0 EthSizeCerts.cacheVals_0 EthSizeCerts.cacheCerts_0 = true := by
  decide +kernel

theorem dataset_1 : checkTable 1073741824 8388608 128 64 EthSizeCerts.datasetVals_1 EthSizeCerts.datasetCerts_1 = true := by
  decide +kernel

theorem cache_1 : checkTable 16777216 131072 64 64 EthSizeCerts.cacheVals_1 EthSizeCerts.cacheCerts_1 = true := by
  decide +kernel

theorem dataset_2 : checkTable 1073741824 8388608 128 128 EthSizeCerts.datasetVals_2 EthSizeCerts.datasetCerts_2 = true := by
  decide +kernel

theorem cache_2 : checkTable 16777216 131072 64 128 EthSizeCerts.cacheVals_2 EthSizeCerts.cacheCerts_2 = true := by
  decide +kernel

theorem dataset_3 : checkTable 1073741824 8388608 128 192 EthSizeCerts.datasetVals_3 EthSizeCerts.datasetCerts_3 = true := by
  decide +kernel

theorem cache_3 : checkTable 16777216 131072 64 192 EthSizeCerts.cacheVals_3 EthSizeCerts.cacheCerts_3 = true := by
  decide +kernel

end Poly.Proofs.EthSizeChk
