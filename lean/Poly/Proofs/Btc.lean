import Poly.Model.Btc
/-!
Helper lemmas for C26 (BTC coin selection): invariants of `bnb` and `sortedLoop`, positions of a sublist.
Core only.
-/
namespace Poly.Proofs.Btc
open Poly.Model.Btc

/-- `sel` is read off `utxos` at the positions `idxs` (position k of `sel` is `utxos[idxs[k]]`). -/
def Picks (utxos : List Utxo) (idxs : List Nat) (sel : List Utxo) : Prop :=
  idxs.map (fun i => utxos[i]?) = sel.map some

theorem sumValues_append (a b : List Utxo) : sumValues (a ++ b) = sumValues a + sumValues b := by
  simp [sumValues]

theorem sumValues_single (u : Utxo) : sumValues [u] = u.value := by simp [sumValues]

/-- What a successful `SimpleBnbSearch` returns, relative to the selection and sum it was called with. -/
theorem bnb_spec (T : Tests) (P : Params) (utxos : List Utxo) (depth : Int) (sel : List Utxo) (sum : Nat) (tries : Int)
    (a : Answer) (t : Int) (h : bnb T P utxos depth sel sum tries = (.some a, t)) :
    ∃ (ext : List Nat) (extU : List Utxo), ext.Nodup ∧
      (∀ p ∈ ext, mu utxos.length p ≤ mu utxos.length depth ∧ 1 ≤ mu utxos.length p) ∧
      Picks utxos ext extU ∧ a.sel = sel ++ extU ∧ a.sum = sum + sumValues extU ∧
      (a.sum = P.target ∨ a.sum ≥ P.target + P.mc) ∧ a.fee = estimateTxFee P a.sel := by
  fun_induction bnb T P utxos depth sel sum tries generalizing a t
  case case1 => simp at h
  case case2 hh =>
    simp only [Prod.mk.injEq, Res.some.injEq] at h
    obtain ⟨rfl, _⟩ := h
    refine ⟨[], [], by simp, by simp, by simp [Picks], by simp, by simp [sumValues], ?_, rfl⟩
    simp only [Bool.or_eq_true, Bool.and_eq_true, beq_iff_eq, decide_eq_true_eq] at hh
    rcases hh with hh | hh
    · exact Or.inl hh
    · exact Or.inr hh.1
  case case3 => simp at h
  case case4 => simp at h
  case case5 depth sel sum tries0 fee _ _ _ tries hr u next tries1 _ hn ih2 ih1 =>
    obtain ⟨ext, extU, h1, h2, h3, h4, h5, h6, h7⟩ := ih1 a t h
    refine ⟨ext, extU, h1, ?_, h3, h4, h5, h6, h7⟩
    intro p hp
    have := h2 p hp
    have hlt : mu utxos.length next < mu utxos.length depth := mu_next_lt utxos.length depth hr.1 hr.2
    exact ⟨by omega, this.2⟩
  case case6 depth sel sum tries0 fee _ _ _ tries hr u next _ ih1 =>
    obtain ⟨ext, extU, h1, h2, h3, h4, h5, h6, h7⟩ := ih1 a t h
    have hlt : mu utxos.length next < mu utxos.length depth := mu_next_lt utxos.length depth hr.1 hr.2
    have hd : (depth.toNat : Int) = depth := Int.toNat_of_nonneg hr.1
    have hdl : depth.toNat < utxos.length := by omega
    refine ⟨depth.toNat :: ext, u :: extU, ?_, ?_, ?_, ?_, ?_, h6, h7⟩
    · refine List.nodup_cons.mpr ⟨?_, h1⟩
      intro hm
      have := (h2 _ hm).1
      rw [hd] at this
      omega
    · intro p hp
      rcases List.mem_cons.mp hp with rfl | hp
      · rw [hd]; exact ⟨Nat.le_refl _, by omega⟩
      · have := h2 p hp
        exact ⟨by omega, this.2⟩
    · simp only [Picks, List.map_cons] at h3 ⊢
      rw [h3]
      congr 1
      exact List.getElem?_eq_getElem hdl
    · rw [h4]; simp
    · rw [h5, show sumValues (u :: extU) = u.value + sumValues extU by simp [sumValues]]; omega
  case case7 => simp at h

theorem getLast_split (sel : List Utxo) (last : Utxo) (h : sel.getLast? = some last) : sel = sel.dropLast ++ [last] := by
  obtain ⟨ys, rfl⟩ := List.getLast?_eq_some_iff.mp h
  simp

theorem sortedLoop_spec (T : Tests) (P : Params) (rest : List Utxo) (pass : Bool) (sel : List Utxo) (sum fee : Nat)
    (a : Answer) (hsum : sum = sumValues sel)
    (hpass : pass = true → hits P sum = true ∧ sel ≠ [] ∧ fee = estimateTxFee P sel)
    (h : sortedLoop T P rest pass sel sum fee = .some a) :
    a.sel.Sublist (sel ++ rest) ∧ a.sum = sumValues a.sel ∧ hits P a.sum = true ∧ a.fee = estimateTxFee P a.sel := by
  fun_induction sortedLoop T P rest pass sel sum fee generalizing a
  case case1 =>
    simp only [Res.some.injEq] at h
    subst h
    obtain ⟨h1, _, h3⟩ := hpass rfl
    exact ⟨by simp, hsum, h1, h3⟩
  case case2 => simp at h
  case case3 u rest sel sum _ sel1 fee1 _ _ ih =>
    obtain ⟨h1, h2⟩ := ih a hsum (by simp) h
    refine ⟨h1.trans ?_, h2⟩
    exact List.Sublist.append_left (List.sublist_cons_self u rest) sel
  case case4 => simp at h
  case case5 u rest sel sum _ sel1 sum1 fee1 _ ih =>
    have hs : sum1 = sumValues sel1 := by
      show sum + u.value = sumValues (sel ++ [u])
      rw [sumValues_append, sumValues_single, hsum]
    obtain ⟨h1, h2⟩ := ih a hs (fun hh => ⟨hh, by simp [sel1], rfl⟩) h
    refine ⟨?_, h2⟩
    have : sel1 ++ rest = sel ++ u :: rest := by simp [sel1]
    rw [← this]; exact h1
  case case6 x =>
    simp at h
  case case7 u rest sel sum fee last hl trial feeR sumT hc ih =>
    have hsplit := getLast_split sel last hl
    have hs : sumT = sumValues trial := by
      show sum - last.value + u.value = sumValues (sel.dropLast ++ [u])
      rw [sumValues_append, sumValues_single, hsum]
      conv => lhs; rw [hsplit, sumValues_append, sumValues_single]
      omega
    simp only [Bool.and_eq_true] at hc
    obtain ⟨h1, h2⟩ := ih a hs (fun _ => ⟨hc.1, by simp [trial], rfl⟩) h
    refine ⟨h1.trans ?_, h2⟩
    show (sel.dropLast ++ [u] ++ rest).Sublist (sel ++ u :: rest)
    rw [List.append_assoc]
    exact List.Sublist.append (List.dropLast_sublist sel) (List.Sublist.refl _)
  case case8 u rest sel sum fee last hl trial feeR sumT hc =>
    simp only [Res.some.injEq] at h
    subst h
    obtain ⟨h1, _, h3⟩ := hpass rfl
    exact ⟨List.sublist_append_left _ _, hsum, h1, h3⟩

theorem sublist_picks (l₁ l₂ : List Utxo) (h : l₁.Sublist l₂) :
    ∃ idxs : List Nat, idxs.Pairwise (· < ·) ∧ Picks l₂ idxs l₁ := by
  induction h with
  | slnil => exact ⟨[], List.Pairwise.nil, rfl⟩
  | cons a _ ih =>
    obtain ⟨idxs, hp, hk⟩ := ih
    refine ⟨idxs.map (· + 1), ?_, ?_⟩
    · rw [List.pairwise_map]; exact hp.imp (by intro a b h; omega)
    · simp only [Picks, List.map_map] at hk ⊢
      rw [← hk]; apply List.map_congr_left; intro i _; simp
  | cons_cons a _ ih =>
    obtain ⟨idxs, hp, hk⟩ := ih
    refine ⟨0 :: idxs.map (· + 1), ?_, ?_⟩
    · rw [List.pairwise_cons]
      refine ⟨?_, ?_⟩
      · intro b hb; obtain ⟨c, _, rfl⟩ := List.mem_map.mp hb; omega
      · rw [List.pairwise_map]; exact hp.imp (by intro a b h; omega)
    · simp only [Picks, List.map_cons, List.map_map] at hk ⊢
      rw [← hk]; congr 1

theorem pairwise_lt_nodup (l : List Nat) (h : l.Pairwise (· < ·)) : l.Nodup :=
  h.imp (by intro a b h; omega)

theorem picks_mem (utxos : List Utxo) (idxs : List Nat) (sel : List Utxo) (h : Picks utxos idxs sel) :
    ∀ u ∈ sel, u ∈ utxos := by
  intro u hu
  have : some u ∈ sel.map some := List.mem_map.mpr ⟨u, hu, rfl⟩
  rw [← h] at this
  obtain ⟨i, _, hi⟩ := List.mem_map.mp this
  exact List.mem_of_getElem? hi

/-- The content of C26 for one selector call. -/
def Conserves (P : Params) (utxos : List Utxo) (a : Answer) : Prop :=
  (∃ idxs : List Nat, idxs.Nodup ∧ Picks utxos idxs a.sel) ∧ a.sum = sumValues a.sel ∧
    (a.sum = P.target ∨ a.sum ≥ P.target + P.mc) ∧ a.fee = estimateTxFee P a.sel

theorem hits_iff (P : Params) (s : Nat) : hits P s = true ↔ (s = P.target ∨ s ≥ P.target + P.mc) := by
  simp [hits]

theorem bnb_conserves (T : Tests) (P : Params) (utxos : List Utxo) (tries : Int) (a : Answer) (t : Int)
    (h : bnb T P utxos 0 [] 0 tries = (.some a, t)) : Conserves P utxos a := by
  obtain ⟨ext, extU, h1, _, h3, h4, h5, h6, h7⟩ := bnb_spec T P utxos 0 [] 0 tries a t h
  simp only [List.nil_append] at h4
  refine ⟨⟨ext, h1, by rw [h4]; exact h3⟩, by rw [h5, h4]; simp, h6, h7⟩

theorem sortedSearch_conserves (T : Tests) (P : Params) (utxos : List Utxo) (a : Answer)
    (h : sortedSearch T P utxos = .some a) : Conserves P utxos a := by
  obtain ⟨h1, h2, h3, h4⟩ := sortedLoop_spec T P utxos false [] 0 0 a (by simp [sumValues]) (by simp) h
  simp only [List.nil_append] at h1
  obtain ⟨idxs, hp, hk⟩ := sublist_picks _ _ h1
  exact ⟨⟨idxs, pairwise_lt_nodup _ hp, hk⟩, h2, (hits_iff P _).mp h3, h4⟩

theorem select_conserves' (T : Tests) (P : Params) (utxos : List Utxo) (tries : Int) (a : Answer)
    (h : select T P utxos tries = .some a) : Conserves P utxos a := by
  unfold select at h
  split at h
  · simp at h
  · split at h
    · rename_i a' hb
      simp only [Res.some.injEq] at h; subst h
      exact bnb_conserves T P utxos tries a' (bnb T P utxos 0 [] 0 tries).2 (by rw [← hb])
    · simp at h
    · exact sortedSearch_conserves T P utxos a h

theorem nextDepth_range (L : Nat) (d : Int) (h0 : 0 ≤ d) (hL : d < L) :
    nextDepth L d = -1 ∨ (0 ≤ nextDepth L d ∧ nextDepth L d < L) := by
  unfold nextDepth
  split
  · right; omega
  · split
    · right; omega
    · left; rfl

theorem bnb_no_panic (T : Tests) (P : Params) (utxos : List Utxo) (depth : Int) (sel : List Utxo) (sum : Nat) (tries : Int)
    (hd : depth = -1 ∨ (0 ≤ depth ∧ depth < utxos.length)) :
    (bnb T P utxos depth sel sum tries).1 ≠ .panic := by
  fun_induction bnb T P utxos depth sel sum tries
  case case1 => simp
  case case2 => simp
  case case3 => simp
  case case4 => simp
  case case5 depth sel sum tries0 fee _ _ _ tries hr u next tries1 _ hn ih2 ih1 =>
    exact ih1 (nextDepth_range _ _ hr.1 hr.2)
  case case6 depth sel sum tries0 fee _ _ _ tries hr u next hx ih1 =>
    exact ih1 (nextDepth_range _ _ hr.1 hr.2)
  case case7 depth sel sum tries0 fee _ _ hc tries hr =>
    exfalso
    rcases hd with rfl | hd
    · simp at hc
    · exact hr hd

theorem sortedLoop_no_panic (T : Tests) (P : Params) (rest : List Utxo) (pass : Bool) (sel : List Utxo) (sum fee : Nat)
    (hpass : pass = true → sel ≠ []) : sortedLoop T P rest pass sel sum fee ≠ .panic := by
  fun_induction sortedLoop T P rest pass sel sum fee
  case case1 => simp
  case case2 => simp
  case case3 ih => exact ih (by simp)
  case case4 => simp
  case case5 u rest sel sum _ sel1 sum1 fee1 _ ih => exact ih (fun _ => by simp [sel1])
  case case6 hx =>
    exfalso
    have := hpass rfl
    cases hs : ‹List Utxo› <;> simp_all
  case case7 u rest sel sum fee last hl trial feeR sumT hc ih => exact ih (fun _ => by simp [trial])
  case case8 => simp

theorem select_no_panic (T : Tests) (P : Params) (utxos : List Utxo) (tries : Int) :
    select T P utxos tries ≠ .panic := by
  unfold select
  split
  · simp
  · rename_i hne
    have hL : 0 < utxos.length := by
      cases utxos <;> simp_all
    have hb := bnb_no_panic T P utxos 0 [] 0 tries (Or.inr ⟨by omega, by omega⟩)
    split
    · simp
    · rename_i hp; exact absurd hp hb
    · exact sortedLoop_no_panic T P utxos false [] 0 0 (by simp)

theorem insertDesc_perm (u : Utxo) (l : List Utxo) : (insertDesc u l).Perm (u :: l) := by
  induction l with
  | nil => exact List.Perm.refl _
  | cons v r ih =>
    unfold insertDesc
    split
    · exact (List.Perm.cons v ih).trans (List.Perm.swap u v r)
    · exact List.Perm.refl _

theorem sortDesc_perm (l : List Utxo) : (sortDesc l).Perm l := by
  induction l with
  | nil => exact List.Perm.refl _
  | cons u r ih =>
    unfold sortDesc
    exact (insertDesc_perm u _).trans (List.Perm.cons u ih)

theorem eraseIdx_perm (l : List Utxo) (j : Nat) (x : Utxo) (h : l[j]? = some x) : l.Perm (x :: l.eraseIdx j) := by
  induction l generalizing j with
  | nil => simp at h
  | cons a r ih =>
    cases j with
    | zero => simp at h; subst h; simp
    | succ j =>
      simp only [List.getElem?_cons_succ] at h
      simp only [List.eraseIdx_cons_succ]
      exact (List.Perm.cons a (ih j h)).trans (List.Perm.swap x a _)

theorem map_nodup_inj {β : Type} (f : Utxo → β) (l : List Utxo) (h : (l.map f).Nodup) (a b : Utxo) (ha : a ∈ l) (hb : b ∈ l)
    (hf : f a = f b) : a = b := by
  induction l with
  | nil => simp at ha
  | cons x r ih =>
    simp only [List.map_cons, List.nodup_cons, List.mem_map, not_exists, not_and] at h
    rcases List.mem_cons.mp ha with rfl | ha' <;> rcases List.mem_cons.mp hb with rfl | hb'
    · rfl
    · exact absurd hf.symm (h.1 b hb')
    · exact absurd hf (h.1 a ha')
    · exact ih h.2 ha' hb'

/-- The removal walk deletes exactly the given outputs when outpoints are pairwise different. -/
theorem removeWalk_perm (utxos : List Utxo) (idx : Nat) (result rest : List Utxo)
    (hk : (utxos.map opKey).Nodup) (hm : ∀ v ∈ result, v ∈ utxos) (hr : (result.map opKey).Nodup)
    (h : removeWalk utxos idx result = some rest) : utxos.Perm (result ++ rest) := by
  induction result generalizing utxos idx with
  | nil => simp [removeWalk] at h; subst h; simp
  | cons v r ih =>
    unfold removeWalk at h
    split at h
    · simp at h
    · rename_i k hf
      have hsome := List.findIdx?_eq_some_iff_getElem.mp hf
      obtain ⟨hlt, hx, _⟩ := hsome
      simp only [List.getElem_drop, beq_iff_eq] at hx
      have hlt' : idx + k < utxos.length := by simp at hlt; omega
      have hxm : utxos[idx + k] ∈ utxos := List.getElem_mem _
      have hv : v ∈ utxos := hm v (List.mem_cons_self)
      have hxv : utxos[idx + k] = v := map_nodup_inj opKey utxos hk _ _ hxm hv hx
      have hperm : utxos.Perm (v :: utxos.eraseIdx (idx + k)) :=
        eraseIdx_perm utxos (idx + k) v (by rw [List.getElem?_eq_getElem hlt', hxv])
      simp only [List.map_cons, List.nodup_cons] at hr
      have hk' : ((utxos.eraseIdx (idx + k)).map opKey).Nodup :=
        hk.sublist ((List.eraseIdx_sublist _ _).map _)
      have hm' : ∀ w ∈ r, w ∈ utxos.eraseIdx (idx + k) := by
        intro w hw
        have hwu : w ∈ utxos := hm w (List.mem_cons_of_mem _ hw)
        have : w ∈ v :: utxos.eraseIdx (idx + k) := hperm.mem_iff.mp hwu
        rcases List.mem_cons.mp this with rfl | h'
        · exact absurd (List.mem_map.mpr ⟨w, hw, rfl⟩) hr.1
        · exact h'
      have := ih _ _ hk' hm' hr.2 h
      exact hperm.trans (List.Perm.cons v this)

theorem picks_keys_nodup (utxos : List Utxo) (idxs : List Nat) (sel : List Utxo)
    (hk : (utxos.map opKey).Nodup) (hn : idxs.Nodup) (hp : Picks utxos idxs sel) : (sel.map opKey).Nodup := by
  induction sel generalizing idxs with
  | nil => simp
  | cons u r ih =>
    cases idxs with
    | nil => simp [Picks] at hp
    | cons i is =>
      simp only [Picks, List.map_cons, List.cons.injEq] at hp
      simp only [List.nodup_cons] at hn
      simp only [List.map_cons, List.nodup_cons]
      refine ⟨?_, ih is hn.2 hp.2⟩
      intro hm
      obtain ⟨w, hw, hwk⟩ := List.mem_map.mp hm
      -- w is picked at some other position j ≠ i, but has the same outpoint as u = utxos[i]
      have : some w ∈ r.map some := List.mem_map.mpr ⟨w, hw, rfl⟩
      rw [← hp.2] at this
      obtain ⟨j, hj, hjw⟩ := List.mem_map.mp this
      have hij : i ≠ j := fun e => hn.1 (e ▸ hj)
      have hi := hp.1
      -- positions i and j of utxos carry the same key: contradiction with Nodup of the keys
      have hil : i < utxos.length := by
        rcases Nat.lt_or_ge i utxos.length with h | h
        · exact h
        · rw [List.getElem?_eq_none h] at hi; simp at hi
      have hjl : j < utxos.length := by
        rcases Nat.lt_or_ge j utxos.length with h | h
        · exact h
        · rw [List.getElem?_eq_none h] at hjw; simp at hjw
      rw [List.getElem?_eq_getElem hil] at hi
      rw [List.getElem?_eq_getElem hjl] at hjw
      simp only [Option.some.injEq] at hi hjw
      have hki : (utxos.map opKey)[i]'(by simpa using hil) = opKey u := by simp [hi]
      have hkj : (utxos.map opKey)[j]'(by simpa using hjl) = opKey u := by simp [hjw, hwk]
      have := (List.getElem_inj hk).mp (hki.trans hkj.symm)
      exact hij this

/-- chooseUtxos, successful case: what was selected, what the records become. -/
theorem chooseUtxos_spec (T : Tests) (P : Params) (s : Store) (tries : Int) (a : Answer) (s' : Store)
    (hk : (s.utxos.map opKey).Nodup) (h : chooseUtxos T P s tries = .ok a s') :
    s.utxos.Perm (a.sel ++ s'.utxos) ∧ s'.stxos.Perm (s.stxos ++ a.sel) ∧ a.sel ≠ [] ∧
      a.sum = sumValues a.sel ∧ (a.sum = P.target ∨ a.sum ≥ P.target + P.mc) := by
  unfold chooseUtxos at h
  simp only at h
  split at h
  · simp at h
  · simp at h
  · rename_i a0 hsel
    split at h
    · simp at h
    · rename_i hne
      split at h
      · simp at h
      · rename_i rest hw
        simp only [ChooseRes.ok.injEq] at h
        obtain ⟨rfl, rfl⟩ := h
        obtain ⟨⟨idxs, hnd, hpk⟩, hsum, htc, _⟩ := select_conserves' T P (sortDesc s.utxos) tries a0 hsel
        have hsp := sortDesc_perm s.utxos
        have hk1 : ((sortDesc s.utxos).map opKey).Nodup := (hsp.map opKey).nodup_iff.mpr hk
        have hrp := sortDesc_perm a0.sel
        have hkeys := picks_keys_nodup _ _ _ hk1 hnd hpk
        have hm := picks_mem _ _ _ hpk
        have hperm := removeWalk_perm (sortDesc s.utxos) 0 (sortDesc a0.sel) rest hk1
          (fun v hv => hm v (hrp.mem_iff.mp hv)) ((hrp.map opKey).nodup_iff.mpr hkeys) hw
        refine ⟨hsp.symm.trans hperm, ?_, ?_, ?_, htc⟩
        · exact List.Perm.append_left _ hrp.symm
        · intro e
          have := hrp.length_eq
          simp only at e
          rw [e] at this
          cases hs : a0.sel with
          | nil => simp [hs] at hne
          | cons x y => simp [hs] at this
        · show a0.sum = sumValues (sortDesc a0.sel)
          rw [hsum]
          unfold sumValues
          exact ((hrp.map _).sum_nat).symm

/-- Invariant of a history: outpoints selected so far, outpoints unspent now and outpoints still to be deposited
    are pairwise different. -/
def HistInv (st : Store × List (List Utxo)) (rem : List Utxo) : Prop :=
  ((st.2.flatten ++ st.1.utxos ++ rem).map opKey).Nodup

theorem histInv_step (st : Store × List (List Utxo)) (e : Ev) (evs : List Ev)
    (h : HistInv st (deposits (e :: evs))) : HistInv (stepEv st e) (deposits evs) := by
  cases e with
  | deposit u =>
    simp only [stepEv, deposits, HistInv] at h ⊢
    simpa [List.append_assoc] using h
  | withdraw T P tries =>
    simp only [deposits] at h
    cases hc : chooseUtxos T P st.1 tries with
    | err => simpa [stepEv, hc] using h
    | panic => simpa [stepEv, hc] using h
    | ok a s' =>
      have hk : (st.1.utxos.map opKey).Nodup := by
        unfold HistInv at h
        rw [List.map_append, List.map_append] at h
        exact (List.nodup_append.mp (List.nodup_append.mp h).1).2.1
      obtain ⟨hp, _⟩ := chooseUtxos_spec T P st.1 tries a s' hk hc
      simp only [stepEv, hc]
      unfold HistInv at h ⊢
      simp only [List.flatten_append, List.flatten_cons, List.flatten_nil, List.append_nil]
      refine (List.Perm.nodup_iff (List.Perm.map opKey ?_)).mp h
      rw [List.append_assoc, List.append_assoc, List.append_assoc]
      refine List.Perm.append_left _ ?_
      rw [← List.append_assoc]
      exact List.Perm.append_right _ hp

theorem histInv_run (evs : List Ev) (st : Store × List (List Utxo)) (h : HistInv st (deposits evs)) :
    HistInv (evs.foldl stepEv st) [] := by
  induction evs generalizing st with
  | nil => simpa [deposits] using h
  | cons e r ih => exact ih _ (histInv_step st e r h)

end Poly.Proofs.Btc
