import Poly.Model.Btc
/-!
Helper lemmas for C26 (BTC coin selection): invariants of `bnb` and `sortedLoop`, positions of a sublist.
Core only.
-/
namespace Poly.Proofs.Btc
open Poly.Model.Btc

/-- `sel` is read off `utxos` at the positions `idxs` (position k of `sel` is `utxos[idxs[k]]`). -/
def Picks (utxos : List Utxo) (idxs : List Nat) (sel : List Utxo) : Prop :=
  idxs.map (fun i => utxos[i]?) = sel.map some

theorem sumValues_append (a b : List Utxo) : sumValues (a ++ b) = sumValues a + sumValues b := by
  simp [sumValues]

theorem sumValues_single (u : Utxo) : sumValues [u] = u.value := by simp [sumValues]

/-- What a successful `SimpleBnbSearch` returns, relative to the selection and sum it was called with. -/
theorem bnb_spec (T : Tests) (P : Params) (utxos : List Utxo) (depth : Int) (sel : List Utxo) (sum : Nat) (tries : Int)
    (a : Answer) (t : Int) (h : bnb T P utxos depth sel sum tries = (.some a, t)) :
    ∃ (ext : List Nat) (extU : List Utxo), ext.Nodup ∧
      (∀ p ∈ ext, mu utxos.length p ≤ mu utxos.length depth ∧ 1 ≤ mu utxos.length p) ∧
      Picks utxos ext extU ∧ a.sel = sel ++ extU ∧ a.sum = sum + sumValues extU ∧
      (a.sum = P.target ∨ a.sum ≥ P.target + P.mc) ∧ a.fee = estimateTxFee P a.sel := by
  fun_induction bnb T P utxos depth sel sum tries generalizing a t
  case case1 => simp at h
  case case2 hh =>
    simp only [Prod.mk.injEq, Res.some.injEq] at h
    obtain ⟨rfl, _⟩ := h
    refine ⟨[], [], by simp, by simp, by simp [Picks], by simp, by simp [sumValues], ?_, rfl⟩
    simp only [Bool.or_eq_true, Bool.and_eq_true, beq_iff_eq, decide_eq_true_eq] at hh
    rcases hh with hh | hh
    · exact Or.inl hh
    · exact Or.inr hh.1
  case case3 => simp at h
  case case4 => simp at h
  case case5 depth sel sum tries0 fee _ _ _ tries hr u next tries1 _ hn ih2 ih1 =>
    obtain ⟨ext, extU, h1, h2, h3, h4, h5, h6, h7⟩ := ih1 a t h
    refine ⟨ext, extU, h1, ?_, h3, h4, h5, h6, h7⟩
    intro p hp
    have := h2 p hp
    have hlt : mu utxos.length next < mu utxos.length depth := mu_next_lt utxos.length depth hr.1 hr.2
    exact ⟨by omega, this.2⟩
  case case6 depth sel sum tries0 fee _ _ _ tries hr u next _ ih1 =>
    obtain ⟨ext, extU, h1, h2, h3, h4, h5, h6, h7⟩ := ih1 a t h
    have hlt : mu utxos.length next < mu utxos.length depth := mu_next_lt utxos.length depth hr.1 hr.2
    have hd : (depth.toNat : Int) = depth := Int.toNat_of_nonneg hr.1
    have hdl : depth.toNat < utxos.length := by omega
    refine ⟨depth.toNat :: ext, u :: extU, ?_, ?_, ?_, ?_, ?_, h6, h7⟩
    · refine List.nodup_cons.mpr ⟨?_, h1⟩
      intro hm
      have := (h2 _ hm).1
      rw [hd] at this
      omega
    · intro p hp
      rcases List.mem_cons.mp hp with rfl | hp
      · rw [hd]; exact ⟨Nat.le_refl _, by omega⟩
      · have := h2 p hp
        exact ⟨by omega, this.2⟩
    · simp only [Picks, List.map_cons] at h3 ⊢
      rw [h3]
      congr 1
      exact List.getElem?_eq_getElem hdl
    · rw [h4]; simp
    · rw [h5, show sumValues (u :: extU) = u.value + sumValues extU by simp [sumValues]]; omega
  case case7 => simp at h

theorem getLast_split (sel : List Utxo) (last : Utxo) (h : sel.getLast? = some last) : sel = sel.dropLast ++ [last] := by
  obtain ⟨ys, rfl⟩ := List.getLast?_eq_some_iff.mp h
  simp

theorem sortedLoop_spec (T : Tests) (P : Params) (rest : List Utxo) (pass : Bool) (sel : List Utxo) (sum fee : Nat)
    (a : Answer) (hsum : sum = sumValues sel)
    (hpass : pass = true → hits P sum = true ∧ sel ≠ [] ∧ fee = estimateTxFee P sel)
    (h : sortedLoop T P rest pass sel sum fee = .some a) :
    a.sel.Sublist (sel ++ rest) ∧ a.sum = sumValues a.sel ∧ hits P a.sum = true ∧ a.fee = estimateTxFee P a.sel := by
  fun_induction sortedLoop T P rest pass sel sum fee generalizing a
  case case1 =>
    simp only [Res.some.injEq] at h
    subst h
    obtain ⟨h1, _, h3⟩ := hpass rfl
    exact ⟨by simp, hsum, h1, h3⟩
  case case2 => simp at h
  case case3 u rest sel sum _ sel1 fee1 _ _ ih =>
    obtain ⟨h1, h2⟩ := ih a hsum (by simp) h
    refine ⟨h1.trans ?_, h2⟩
    exact List.Sublist.append_left (List.sublist_cons_self u rest) sel
  case case4 => simp at h
  case case5 u rest sel sum _ sel1 sum1 fee1 _ ih =>
    have hs : sum1 = sumValues sel1 := by
      show sum + u.value = sumValues (sel ++ [u])
      rw [sumValues_append, sumValues_single, hsum]
    obtain ⟨h1, h2⟩ := ih a hs (fun hh => ⟨hh, by simp [sel1], rfl⟩) h
    refine ⟨?_, h2⟩
    have : sel1 ++ rest = sel ++ u :: rest := by simp [sel1]
    rw [← this]; exact h1
  case case6 x =>
    simp at h
  case case7 u rest sel sum fee last hl trial feeR sumT hc ih =>
    have hsplit := getLast_split sel last hl
    have hs : sumT = sumValues trial := by
      show sum - last.value + u.value = sumValues (sel.dropLast ++ [u])
      rw [sumValues_append, sumValues_single, hsum]
      conv => lhs; rw [hsplit, sumValues_append, sumValues_single]
      omega
    simp only [Bool.and_eq_true] at hc
    obtain ⟨h1, h2⟩ := ih a hs (fun _ => ⟨hc.1, by simp [trial], rfl⟩) h
    refine ⟨h1.trans ?_, h2⟩
    show (sel.dropLast ++ [u] ++ rest).Sublist (sel ++ u :: rest)
    rw [List.append_assoc]
    exact List.Sublist.append (List.dropLast_sublist sel) (List.Sublist.refl _)
  case case8 u rest sel sum fee last hl trial feeR sumT hc =>
    simp only [Res.some.injEq] at h
    subst h
    obtain ⟨h1, _, h3⟩ := hpass rfl
    exact ⟨List.sublist_append_left _ _, hsum, h1, h3⟩

theorem sublist_picks (l₁ l₂ : List Utxo) (h : l₁.Sublist l₂) :
    ∃ idxs : List Nat, idxs.Pairwise (· < ·) ∧ Picks l₂ idxs l₁ := by
  induction h with
  | slnil => exact ⟨[], List.Pairwise.nil, rfl⟩
  | cons a _ ih =>
    obtain ⟨idxs, hp, hk⟩ := ih
    refine ⟨idxs.map (· + 1), ?_, ?_⟩
    · rw [List.pairwise_map]; exact hp.imp (by intro a b h; omega)
    · simp only [Picks, List.map_map] at hk ⊢
      rw [← hk]; apply List.map_congr_left; intro i _; simp
  | cons_cons a _ ih =>
    obtain ⟨idxs, hp, hk⟩ := ih
    refine ⟨0 :: idxs.map (· + 1), ?_, ?_⟩
    · rw [List.pairwise_cons]
      refine ⟨?_, ?_⟩
      · intro b hb; obtain ⟨c, _, rfl⟩ := List.mem_map.mp hb; omega
      · rw [List.pairwise_map]; exact hp.imp (by intro a b h; omega)
    · simp only [Picks, List.map_cons, List.map_map] at hk ⊢
      rw [← hk]; congr 1

theorem pairwise_lt_nodup (l : List Nat) (h : l.Pairwise (· < ·)) : l.Nodup :=
  h.imp (by intro a b h; omega)

theorem picks_mem (utxos : List Utxo) (idxs : List Nat) (sel : List Utxo) (h : Picks utxos idxs sel) :
    ∀ u ∈ sel, u ∈ utxos := by
  intro u hu
  have : some u ∈ sel.map some := List.mem_map.mpr ⟨u, hu, rfl⟩
  rw [← h] at this
  obtain ⟨i, _, hi⟩ := List.mem_map.mp this
  exact List.mem_of_getElem? hi

/-- The content of C26 for one selector call. -/
def Conserves (P : Params) (utxos : List Utxo) (a : Answer) : Prop :=
  (∃ idxs : List Nat, idxs.Nodup ∧ Picks utxos idxs a.sel) ∧ a.sum = sumValues a.sel ∧
    (a.sum = P.target ∨ a.sum ≥ P.target + P.mc) ∧ a.fee = estimateTxFee P a.sel

theorem hits_iff (P : Params) (s : Nat) : hits P s = true ↔ (s = P.target ∨ s ≥ P.target + P.mc) := by
  simp [hits]

theorem bnb_conserves (T : Tests) (P : Params) (utxos : List Utxo) (tries : Int) (a : Answer) (t : Int)
    (h : bnb T P utxos 0 [] 0 tries = (.some a, t)) : Conserves P utxos a := by
  obtain ⟨ext, extU, h1, _, h3, h4, h5, h6, h7⟩ := bnb_spec T P utxos 0 [] 0 tries a t h
  simp only [List.nil_append] at h4
  refine ⟨⟨ext, h1, by rw [h4]; exact h3⟩, by rw [h5, h4]; simp, h6, h7⟩

theorem sortedSearch_conserves (T : Tests) (P : Params) (utxos : List Utxo) (a : Answer)
    (h : sortedSearch T P utxos = .some a) : Conserves P utxos a := by
  obtain ⟨h1, h2, h3, h4⟩ := sortedLoop_spec T P utxos false [] 0 0 a (by simp [sumValues]) (by simp) h
  simp only [List.nil_append] at h1
  obtain ⟨idxs, hp, hk⟩ := sublist_picks _ _ h1
  exact ⟨⟨idxs, pairwise_lt_nodup _ hp, hk⟩, h2, (hits_iff P _).mp h3, h4⟩

theorem select_conserves' (T : Tests) (P : Params) (utxos : List Utxo) (tries : Int) (a : Answer)
    (h : select T P utxos tries = .some a) : Conserves P utxos a := by
  unfold select at h
  split at h
  · simp at h
  · split at h
    · rename_i a' hb
      simp only [Res.some.injEq] at h; subst h
      exact bnb_conserves T P utxos tries a' (bnb T P utxos 0 [] 0 tries).2 (by rw [← hb])
    · simp at h
    · exact sortedSearch_conserves T P utxos a h

theorem nextDepth_range (L : Nat) (d : Int) (h0 : 0 ≤ d) (hL : d < L) :
    nextDepth L d = -1 ∨ (0 ≤ nextDepth L d ∧ nextDepth L d < L) := by
  unfold nextDepth
  split
  · right; omega
  · split
    · right; omega
    · left; rfl

theorem bnb_no_panic (T : Tests) (P : Params) (utxos : List Utxo) (depth : Int) (sel : List Utxo) (sum : Nat) (tries : Int)
    (hd : depth = -1 ∨ (0 ≤ depth ∧ depth < utxos.length)) :
    (bnb T P utxos depth sel sum tries).1 ≠ .panic := by
  fun_induction bnb T P utxos depth sel sum tries
  case case1 => simp
  case case2 => simp
  case case3 => simp
  case case4 => simp
  case case5 depth sel sum tries0 fee _ _ _ tries hr u next tries1 _ hn ih2 ih1 =>
    exact ih1 (nextDepth_range _ _ hr.1 hr.2)
  case case6 depth sel sum tries0 fee _ _ _ tries hr u next hx ih1 =>
    exact ih1 (nextDepth_range _ _ hr.1 hr.2)
  case case7 depth sel sum tries0 fee _ _ hc tries hr =>
    exfalso
    rcases hd with rfl | hd
    · simp at hc
    · exact hr hd

theorem sortedLoop_no_panic (T : Tests) (P : Params) (rest : List Utxo) (pass : Bool) (sel : List Utxo) (sum fee : Nat)
    (hpass : pass = true → sel ≠ []) : sortedLoop T P rest pass sel sum fee ≠ .panic := by
  fun_induction sortedLoop T P rest pass sel sum fee
  case case1 => simp
  case case2 => simp
  case case3 ih => exact ih (by simp)
  case case4 => simp
  case case5 u rest sel sum _ sel1 sum1 fee1 _ ih => exact ih (fun _ => by simp [sel1])
  case case6 hx =>
    exfalso
    have := hpass rfl
    cases hs : ‹List Utxo› <;> simp_all
  case case7 u rest sel sum fee last hl trial feeR sumT hc ih => exact ih (fun _ => by simp [trial])
  case case8 => simp

theorem select_no_panic (T : Tests) (P : Params) (utxos : List Utxo) (tries : Int) :
    select T P utxos tries ≠ .panic := by
  unfold select
  split
  · simp
  · rename_i hne
    have hL : 0 < utxos.length := by
      cases utxos <;> simp_all
    have hb := bnb_no_panic T P utxos 0 [] 0 tries (Or.inr ⟨by omega, by omega⟩)
    split
    · simp
    · rename_i hp; exact absurd hp hb
    · exact sortedLoop_no_panic T P utxos false [] 0 0 (by simp)

theorem insertDesc_perm (u : Utxo) (l : List Utxo) : (insertDesc u l).Perm (u :: l) := by
  induction l with
  | nil => exact List.Perm.refl _
  | cons v r ih =>
    unfold insertDesc
    split
    · exact (List.Perm.cons v ih).trans (List.Perm.swap u v r)
    · exact List.Perm.refl _

theorem sortDesc_perm (l : List Utxo) : (sortDesc l).Perm l := by
  induction l with
  | nil => exact List.Perm.refl _
  | cons u r ih =>
    unfold sortDesc
    exact (insertDesc_perm u _).trans (List.Perm.cons u ih)

theorem eraseIdx_perm (l : List Utxo) (j : Nat) (x : Utxo) (h : l[j]? = some x) : l.Perm (x :: l.eraseIdx j) := by
  induction l generalizing j with
  | nil => simp at h
  | cons a r ih =>
    cases j with
    | zero => simp at h; subst h; simp
    | succ j =>
      simp only [List.getElem?_cons_succ] at h
      simp only [List.eraseIdx_cons_succ]
      exact (List.Perm.cons a (ih j h)).trans (List.Perm.swap x a _)

theorem map_nodup_inj {β : Type} (f : Utxo → β) (l : List Utxo) (h : (l.map f).Nodup) (a b : Utxo) (ha : a ∈ l) (hb : b ∈ l)
    (hf : f a = f b) : a = b := by
  induction l with
  | nil => simp at ha
  | cons x r ih =>
    simp only [List.map_cons, List.nodup_cons, List.mem_map, not_exists, not_and] at h
    rcases List.mem_cons.mp ha with rfl | ha' <;> rcases List.mem_cons.mp hb with rfl | hb'
    · rfl
    · exact absurd hf.symm (h.1 b hb')
    · exact absurd hf (h.1 a ha')
    · exact ih h.2 ha' hb'

/-- The removal walk deletes exactly the given outputs when outpoints are pairwise different. -/
theorem removeWalk_perm (utxos : List Utxo) (idx : Nat) (result rest : List Utxo)
    (hk : (utxos.map opKey).Nodup) (hm : ∀ v ∈ result, v ∈ utxos) (hr : (result.map opKey).Nodup)
    (h : removeWalk utxos idx result = some rest) : utxos.Perm (result ++ rest) := by
  induction result generalizing utxos idx with
  | nil => simp [removeWalk] at h; subst h; simp
  | cons v r ih =>
    unfold removeWalk at h
    split at h
    · simp at h
    · rename_i k hf
      have hsome := List.findIdx?_eq_some_iff_getElem.mp hf
      obtain ⟨hlt, hx, _⟩ := hsome
      simp only [List.getElem_drop, beq_iff_eq] at hx
      have hlt' : idx + k < utxos.length := by simp at hlt; omega
      have hxm : utxos[idx + k] ∈ utxos := List.getElem_mem _
      have hv : v ∈ utxos := hm v (List.mem_cons_self)
      have hxv : utxos[idx + k] = v := map_nodup_inj opKey utxos hk _ _ hxm hv hx
      have hperm : utxos.Perm (v :: utxos.eraseIdx (idx + k)) :=
        eraseIdx_perm utxos (idx + k) v (by rw [List.getElem?_eq_getElem hlt', hxv])
      simp only [List.map_cons, List.nodup_cons] at hr
      have hk' : ((utxos.eraseIdx (idx + k)).map opKey).Nodup :=
        hk.sublist ((List.eraseIdx_sublist _ _).map _)
      have hm' : ∀ w ∈ r, w ∈ utxos.eraseIdx (idx + k) := by
        intro w hw
        have hwu : w ∈ utxos := hm w (List.mem_cons_of_mem _ hw)
        have : w ∈ v :: utxos.eraseIdx (idx + k) := hperm.mem_iff.mp hwu
        rcases List.mem_cons.mp this with rfl | h'
        · exact absurd (List.mem_map.mpr ⟨w, hw, rfl⟩) hr.1
        · exact h'
      have := ih _ _ hk' hm' hr.2 h
      exact hperm.trans (List.Perm.cons v this)

theorem picks_keys_nodup (utxos : List Utxo) (idxs : List Nat) (sel : List Utxo)
    (hk : (utxos.map opKey).Nodup) (hn : idxs.Nodup) (hp : Picks utxos idxs sel) : (sel.map opKey).Nodup := by
  induction sel generalizing idxs with
  | nil => simp
  | cons u r ih =>
    cases idxs with
    | nil => simp [Picks] at hp
    | cons i is =>
      simp only [Picks, List.map_cons, List.cons.injEq] at hp
      simp only [List.nodup_cons] at hn
      simp only [List.map_cons, List.nodup_cons]
      refine ⟨?_, ih is hn.2 hp.2⟩
      intro hm
      obtain ⟨w, hw, hwk⟩ := List.mem_map.mp hm
      -- w is picked at some other position j ≠ i, but has the same outpoint as u = utxos[i]
      have : some w ∈ r.map some := List.mem_map.mpr ⟨w, hw, rfl⟩
      rw [← hp.2] at this
      obtain ⟨j, hj, hjw⟩ := List.mem_map.mp this
      have hij : i ≠ j := fun e => hn.1 (e ▸ hj)
      have hi := hp.1
      -- positions i and j of utxos carry the same key: contradiction with Nodup of the keys
      have hil : i < utxos.length := by
        rcases Nat.lt_or_ge i utxos.length with h | h
        · exact h
        · rw [List.getElem?_eq_none h] at hi; simp at hi
      have hjl : j < utxos.length := by
        rcases Nat.lt_or_ge j utxos.length with h | h
        · exact h
        · rw [List.getElem?_eq_none h] at hjw; simp at hjw
      rw [List.getElem?_eq_getElem hil] at hi
      rw [List.getElem?_eq_getElem hjl] at hjw
      simp only [Option.some.injEq] at hi hjw
      have hki : (utxos.map opKey)[i]'(by simpa using hil) = opKey u := by simp [hi]
      have hkj : (utxos.map opKey)[j]'(by simpa using hjl) = opKey u := by simp [hjw, hwk]
      have := (List.getElem_inj hk).mp (hki.trans hkj.symm)
      exact hij this

/-- chooseUtxos, successful case: what was selected, what the records become. -/
theorem chooseUtxos_spec (T : Tests) (P : Params) (s : Store) (tries : Int) (a : Answer) (s' : Store)
    (hk : (s.utxos.map opKey).Nodup) (h : chooseUtxos T P s tries = .ok a s') :
    s.utxos.Perm (a.sel ++ s'.utxos) ∧ s'.stxos.Perm (s.stxos ++ a.sel) ∧ a.sel ≠ [] ∧
      a.sum = sumValues a.sel ∧ (a.sum = P.target ∨ a.sum ≥ P.target + P.mc) := by
  unfold chooseUtxos at h
  simp only at h
  split at h
  · simp at h
  · simp at h
  · rename_i a0 hsel
    split at h
    · simp at h
    · rename_i hne
      split at h
      · simp at h
      · rename_i rest hw
        simp only [ChooseRes.ok.injEq] at h
        obtain ⟨rfl, rfl⟩ := h
        obtain ⟨⟨idxs, hnd, hpk⟩, hsum, htc, _⟩ := select_conserves' T P (sortDesc s.utxos) tries a0 hsel
        have hsp := sortDesc_perm s.utxos
        have hk1 : ((sortDesc s.utxos).map opKey).Nodup := (hsp.map opKey).nodup_iff.mpr hk
        have hrp := sortDesc_perm a0.sel
        have hkeys := picks_keys_nodup _ _ _ hk1 hnd hpk
        have hm := picks_mem _ _ _ hpk
        have hperm := removeWalk_perm (sortDesc s.utxos) 0 (sortDesc a0.sel) rest hk1
          (fun v hv => hm v (hrp.mem_iff.mp hv)) ((hrp.map opKey).nodup_iff.mpr hkeys) hw
        refine ⟨hsp.symm.trans hperm, ?_, ?_, ?_, htc⟩
        · exact List.Perm.append_left _ hrp.symm
        · intro e
          have := hrp.length_eq
          simp only at e
          rw [e] at this
          cases hs : a0.sel with
          | nil => simp [hs] at hne
          | cons x y => simp [hs] at this
        · show a0.sum = sumValues (sortDesc a0.sel)
          rw [hsum]
          unfold sumValues
          exact ((hrp.map _).sum_nat).symm

/-- Invariant of a history: outpoints selected so far, outpoints unspent now and outpoints still to be deposited
    are pairwise different. -/
def HistInv (st : Store × List (List Utxo)) (rem : List Utxo) : Prop :=
  ((st.2.flatten ++ st.1.utxos ++ rem).map opKey).Nodup

theorem histInv_step (st : Store × List (List Utxo)) (e : Ev) (evs : List Ev)
    (h : HistInv st (deposits (e :: evs))) : HistInv (stepEv st e) (deposits evs) := by
  cases e with
  | deposit u =>
    simp only [stepEv, deposits, HistInv] at h ⊢
    simpa [List.append_assoc] using h
  | withdraw T P tries =>
    simp only [deposits] at h
    cases hc : chooseUtxos T P st.1 tries with
    | err => simpa [stepEv, hc] using h
    | panic => simpa [stepEv, hc] using h
    | ok a s' =>
      have hk : (st.1.utxos.map opKey).Nodup := by
        unfold HistInv at h
        rw [List.map_append, List.map_append] at h
        exact (List.nodup_append.mp (List.nodup_append.mp h).1).2.1
      obtain ⟨hp, _⟩ := chooseUtxos_spec T P st.1 tries a s' hk hc
      simp only [stepEv, hc]
      unfold HistInv at h ⊢
      simp only [List.flatten_append, List.flatten_cons, List.flatten_nil, List.append_nil]
      refine (List.Perm.nodup_iff (List.Perm.map opKey ?_)).mp h
      rw [List.append_assoc, List.append_assoc, List.append_assoc]
      refine List.Perm.append_left _ ?_
      rw [← List.append_assoc]
      exact List.Perm.append_right _ hp
  | finalize inputs new =>
    simp only [deposits] at h
    cases hr : removeInputs st.1.stxos inputs with
    | some stxos' =>
      simp only [stepEv, hr]
      unfold HistInv at h ⊢
      simpa [List.append_assoc] using h
    | none =>
      simp only [stepEv, hr]
      unfold HistInv at h ⊢
      refine h.sublist (List.Sublist.map _ ?_)
      simp only [List.append_assoc]
      exact List.Sublist.append_left (List.Sublist.append_left (List.sublist_append_right _ _) _) _

theorem histInv_run (evs : List Ev) (st : Store × List (List Utxo)) (h : HistInv st (deposits evs)) :
    HistInv (evs.foldl stepEv st) [] := by
  induction evs generalizing st with
  | nil => simpa [deposits] using h
  | cons e r ih => exact ih _ (histInv_step st e r h)

theorem bytesLt_irrefl (a : List UInt8) : bytesLt a a = false := by
  induction a with
  | nil => rfl
  | cons x r ih => simp [bytesLt, ih]

theorem bytesLt_asymm (a b : List UInt8) (h : bytesLt a b = true) : bytesLt b a = false := by
  induction a generalizing b with
  | nil => cases b <;> simp [bytesLt] at h ⊢
  | cons x r ih =>
    cases b with
    | nil => simp [bytesLt] at h
    | cons y s =>
      simp only [bytesLt] at h ⊢
      by_cases h1 : x < y
      · have : ¬ y < x := by
          intro h2; exact absurd (UInt8.lt_trans h1 h2) (UInt8.lt_irrefl x)
        simp [this, h1]
      · simp only [h1, if_false] at h
        by_cases h2 : y < x
        · simp [h2] at h
        · simp only [h2, if_false] at h
          simp [h1, h2, ih s h]

theorem bytesLt_trans (a b c : List UInt8) (h1 : bytesLt a b = true) (h2 : bytesLt b c = true) : bytesLt a c = true := by
  induction a generalizing b c with
  | nil =>
    cases b with
    | nil => simp [bytesLt] at h1
    | cons y s => cases c <;> simp [bytesLt] at h2 ⊢
  | cons x r ih =>
    cases b with
    | nil => simp [bytesLt] at h1
    | cons y s =>
      cases c with
      | nil => simp [bytesLt] at h2
      | cons z t =>
        simp only [bytesLt] at h1 h2 ⊢
        by_cases hxy : x < y
        · by_cases hyz : y < z
          · simp [UInt8.lt_trans hxy hyz]
          · simp only [hyz, if_false] at h2
            by_cases hzy : z < y
            · simp [hzy] at h2
            · have : y = z := by
                apply UInt8.le_antisymm <;> (apply UInt8.not_lt.mp; assumption)
              subst this; simp [hxy]
        · simp only [hxy, if_false] at h1
          by_cases hyx : y < x
          · simp [hyx] at h1
          · simp only [hyx, if_false] at h1
            have : x = y := by
              apply UInt8.le_antisymm <;> (apply UInt8.not_lt.mp; assumption)
            subst this
            by_cases hxz : x < z
            · simp [hxz]
            · simp only [hxz, if_false] at h2 ⊢
              by_cases hzx : z < x
              · simp [hzx] at h2
              · simp only [hzx, if_false] at h2 ⊢
                exact ih s t h1 h2

theorem bytesLt_total (a b : List UInt8) (h : a ≠ b) : bytesLt a b = true ∨ bytesLt b a = true := by
  induction a generalizing b with
  | nil => cases b with
    | nil => exact absurd rfl h
    | cons y s => left; simp [bytesLt]
  | cons x r ih =>
    cases b with
    | nil => right; simp [bytesLt]
    | cons y s =>
      simp only [bytesLt]
      by_cases hxy : x < y
      · left; simp [hxy]
      · by_cases hyx : y < x
        · right; simp [hyx]
        · have : x = y := by
            apply UInt8.le_antisymm <;> (apply UInt8.not_lt.mp; assumption)
          subst this
          have hrs : r ≠ s := fun e => h (by rw [e])
          simp only [hxy, if_false]
          exact ih s hrs

/-- the sort key of chooseUtxos -/
def skey (u : Utxo) : Nat × List UInt8 × Nat := (u.value, u.hash, u.index)

theorem less_irrefl (a : Utxo) : less a a = false := by simp [less]

theorem less_of_key_eq (a b : Utxo) (h : skey a = skey b) : less a b = false := by
  simp only [skey, Prod.mk.injEq] at h
  obtain ⟨h1, h2, h3⟩ := h
  simp [less, h1, h2, h3]

theorem less_asymm (a b : Utxo) (h : less a b = true) : less b a = false := by
  unfold less at h ⊢
  by_cases hv : a.value = b.value
  · simp only [hv, beq_self_eq_true, if_true] at h ⊢
    by_cases hh : a.hash = b.hash
    · simp only [hh, beq_self_eq_true, if_true, decide_eq_true_eq] at h ⊢
      simp; omega
    · have h1 : (a.hash == b.hash) = false := by simpa using hh
      have h2 : (b.hash == a.hash) = false := by simpa using fun e => hh e.symm
      simp only [h1, Bool.false_eq_true, if_false] at h
      simp only [h2, Bool.false_eq_true, if_false]
      exact bytesLt_asymm _ _ h
  · have h1 : (a.value == b.value) = false := by simpa using hv
    have h2 : (b.value == a.value) = false := by simpa using fun e => hv e.symm
    simp only [h1, Bool.false_eq_true, if_false, decide_eq_true_eq] at h
    simp only [h2, Bool.false_eq_true, if_false]
    simp; omega

theorem less_total (a b : Utxo) (h : skey a ≠ skey b) : less a b = true ∨ less b a = true := by
  unfold less
  by_cases hv : a.value = b.value
  · simp only [hv, beq_self_eq_true, if_true]
    by_cases hh : a.hash = b.hash
    · simp only [hh, beq_self_eq_true, if_true, decide_eq_true_eq]
      have : a.index ≠ b.index := by
        intro e; apply h; simp [skey, hv, hh, e]
      omega
    · have h1 : (a.hash == b.hash) = false := by simpa using hh
      have h2 : (b.hash == a.hash) = false := by simpa using fun e => hh e.symm
      simp only [h1, h2, Bool.false_eq_true, if_false]
      exact bytesLt_total _ _ hh
  · have h1 : (a.value == b.value) = false := by simpa using hv
    have h2 : (b.value == a.value) = false := by simpa using fun e => hv e.symm
    simp only [h1, h2, Bool.false_eq_true, if_false, decide_eq_true_eq]
    omega

theorem less_trans (a b c : Utxo) (h1 : less a b = true) (h2 : less b c = true) : less a c = true := by
  unfold less at h1 h2 ⊢
  by_cases hab : a.value = b.value
  · by_cases hbc : b.value = c.value
    · have hac : a.value = c.value := hab.trans hbc
      simp only [hab, hbc, beq_self_eq_true, if_true] at h1 h2 ⊢
      by_cases e1 : a.hash = b.hash
      · by_cases e2 : b.hash = c.hash
        · have e3 : a.hash = c.hash := e1.trans e2
          simp only [e1, e2, beq_self_eq_true, if_true, decide_eq_true_eq] at h1 h2 ⊢
          omega
        · have f2 : (b.hash == c.hash) = false := by simpa using e2
          have f3 : (a.hash == c.hash) = false := by rw [e1]; exact f2
          simp only [f2, Bool.false_eq_true, if_false] at h2
          simp only [f3, Bool.false_eq_true, if_false]
          rw [e1]; exact h2
      · have f1 : (a.hash == b.hash) = false := by simpa using e1
        simp only [f1, Bool.false_eq_true, if_false] at h1
        by_cases e2 : b.hash = c.hash
        · have f3 : (a.hash == c.hash) = false := by rw [← e2]; exact f1
          simp only [f3, Bool.false_eq_true, if_false]
          rw [← e2]; exact h1
        · have f2 : (b.hash == c.hash) = false := by simpa using e2
          simp only [f2, Bool.false_eq_true, if_false] at h2
          have h3 := bytesLt_trans _ _ _ h1 h2
          have e3 : a.hash ≠ c.hash := by
            intro e; rw [e] at h3; rw [bytesLt_irrefl] at h3; simp at h3
          have f3 : (a.hash == c.hash) = false := by simpa using e3
          simp only [f3, Bool.false_eq_true, if_false]; exact h3
    · have f2 : (b.value == c.value) = false := by simpa using hbc
      simp only [hab, beq_self_eq_true, if_true] at h1
      simp only [f2, Bool.false_eq_true, if_false, decide_eq_true_eq] at h2
      have f3 : (a.value == c.value) = false := by rw [hab]; exact f2
      simp only [f3, Bool.false_eq_true, if_false, decide_eq_true_eq]; omega
  · have f1 : (a.value == b.value) = false := by simpa using hab
    simp only [f1, Bool.false_eq_true, if_false, decide_eq_true_eq] at h1
    by_cases hbc : b.value = c.value
    · have f3 : (a.value == c.value) = false := by rw [← hbc]; exact f1
      simp only [f3, Bool.false_eq_true, if_false, decide_eq_true_eq]; omega
    · have f2 : (b.value == c.value) = false := by simpa using hbc
      simp only [f2, Bool.false_eq_true, if_false, decide_eq_true_eq] at h2
      have : a.value ≠ c.value := by omega
      have f3 : (a.value == c.value) = false := by simpa using this
      simp only [f3, Bool.false_eq_true, if_false, decide_eq_true_eq]; omega

/-- strictly descending: whatever comes later is smaller -/
def SDesc (l : List Utxo) : Prop := l.Pairwise fun a b => less b a = true

theorem mem_insertDesc (u x : Utxo) (l : List Utxo) : x ∈ insertDesc u l ↔ x = u ∨ x ∈ l :=
  (insertDesc_perm u l).mem_iff.trans List.mem_cons

theorem insertDesc_sdesc (u : Utxo) (l : List Utxo) (hl : SDesc l) (hk : ∀ x ∈ l, skey x ≠ skey u) :
    SDesc (insertDesc u l) := by
  induction l with
  | nil => simp [insertDesc, SDesc]
  | cons v r ih =>
    have hp := List.pairwise_cons.mp hl
    unfold insertDesc
    split
    · rename_i huv
      refine List.pairwise_cons.mpr ⟨?_, ih hp.2 (fun x hx => hk x (List.mem_cons_of_mem _ hx))⟩
      intro x hx
      rcases (mem_insertDesc u x r).mp hx with rfl | hx
      · exact huv
      · exact hp.1 x hx
    · rename_i huv
      have hvu : less v u = true := by
        rcases less_total v u (hk v List.mem_cons_self) with h | h
        · exact h
        · exact absurd h huv
      refine List.pairwise_cons.mpr ⟨?_, hl⟩
      intro x hx
      rcases List.mem_cons.mp hx with rfl | hx
      · exact hvu
      · exact less_trans _ _ _ (hp.1 x hx) hvu

theorem sortDesc_sdesc (l : List Utxo) (hk : (l.map skey).Nodup) : SDesc (sortDesc l) := by
  induction l with
  | nil => simp [sortDesc, SDesc]
  | cons u r ih =>
    simp only [List.map_cons, List.nodup_cons] at hk
    unfold sortDesc
    apply insertDesc_sdesc u _ (ih hk.2)
    intro x hx e
    have : x ∈ r := (sortDesc_perm r).mem_iff.mp hx
    exact hk.1 (e ▸ List.mem_map.mpr ⟨x, this, rfl⟩)

/-- Two strictly descending lists, the elements of one among those of the other: a sublist. -/
theorem sdesc_sublist (R U : List Utxo) (hR : SDesc R) (hU : SDesc U) (hsub : ∀ x ∈ R, x ∈ U) : R.Sublist U := by
  induction U generalizing R with
  | nil =>
    cases R with
    | nil => exact List.Sublist.refl _
    | cons r _ => exact absurd (hsub r List.mem_cons_self) (by simp)
  | cons u U' ih =>
    have hu := List.pairwise_cons.mp hU
    cases R with
    | nil => exact List.nil_sublist _
    | cons r R' =>
      have hr := List.pairwise_cons.mp hR
      by_cases hru : r = u
      · subst hru
        refine List.Sublist.cons_cons r (ih R' hr.2 hu.2 ?_)
        intro x hx
        rcases List.mem_cons.mp (hsub x (List.mem_cons_of_mem _ hx)) with rfl | h
        · have := hr.1 x hx; rw [less_irrefl] at this; simp at this
        · exact h
      · have hrU : r ∈ U' := by
          rcases List.mem_cons.mp (hsub r List.mem_cons_self) with h | h
          · exact absurd h hru
          · exact h
        have hlt : less r u = true := hu.1 r hrU
        refine List.Sublist.cons u (ih (r :: R') hR hu.2 ?_)
        intro x hx
        rcases List.mem_cons.mp (hsub x hx) with rfl | h
        · rcases List.mem_cons.mp hx with rfl | hx'
          · exact absurd rfl hru
          · have h1 := hr.1 x hx'
            have := less_trans _ _ _ h1 hlt
            rw [less_irrefl] at this; simp at this
        · exact h

theorem cons_sublist_split (r : Utxo) (R D : List Utxo) (h : (r :: R).Sublist D) :
    ∃ k, D[k]? = some r ∧ R.Sublist (D.drop (k + 1)) := by
  induction D with
  | nil => simp at h
  | cons d D' ih =>
    cases h with
    | cons _ h' =>
      obtain ⟨k, h1, h2⟩ := ih h'
      exact ⟨k + 1, by simpa using h1, by simpa using h2⟩
    | cons_cons _ h' => exact ⟨0, by simp, by simpa using h'⟩

theorem drop_eraseIdx_self (l : List Utxo) (i : Nat) (hi : i < l.length) : (l.eraseIdx i).drop i = l.drop (i + 1) := by
  rw [List.eraseIdx_eq_take_drop_succ]
  rw [List.drop_append_of_le_length (by simp; omega)]
  simp

theorem removeWalk_some (U : List Utxo) (idx : Nat) (R : List Utxo) (hk : (U.map opKey).Nodup)
    (hs : R.Sublist (U.drop idx)) : ∃ rest, removeWalk U idx R = some rest := by
  induction R generalizing U idx with
  | nil => exact ⟨U, by simp [removeWalk]⟩
  | cons r R' ih =>
    obtain ⟨k, hk1, hk2⟩ := cons_sublist_split r R' _ hs
    have hkl : k < (U.drop idx).length := by
      rcases Nat.lt_or_ge k (U.drop idx).length with h | h
      · exact h
      · rw [List.getElem?_eq_none h] at hk1; simp at hk1
    rw [List.getElem?_eq_getElem hkl] at hk1
    simp only [Option.some.injEq] at hk1
    unfold removeWalk
    cases hf : (U.drop idx).findIdx? (fun x => opKey x == opKey r) with
    | none =>
      have := List.findIdx?_eq_none_iff.mp hf (U.drop idx)[k] (List.getElem_mem _)
      simp [hk1] at this
    | some k' =>
      obtain ⟨hlt, hx, _⟩ := List.findIdx?_eq_some_iff_getElem.mp hf
      simp only [beq_iff_eq] at hx
      -- k' = k: the keys of U.drop idx are pairwise different
      have hkd : ((U.drop idx).map opKey).Nodup := hk.sublist ((List.drop_sublist _ _).map _)
      have e1 : ((U.drop idx).map opKey)[k']'(by simpa using hlt) = opKey r := by simpa using hx
      have e2 : ((U.drop idx).map opKey)[k]'(by simpa using hkl) = opKey r := by
        rw [List.getElem_map, hk1]
      have hkk : k' = k := (List.getElem_inj hkd).mp (e1.trans e2.symm)
      subst hkk
      simp only
      have hil : idx + k' < U.length := by simp at hkl; omega
      apply ih (U.eraseIdx (idx + k')) (idx + k') (hk.sublist ((List.eraseIdx_sublist _ _).map _))
      rw [drop_eraseIdx_self U _ hil]
      have : U.drop (idx + k' + 1) = (U.drop idx).drop (k' + 1) := by
        rw [List.drop_drop]; rfl
      rw [this]; exact hk2

theorem skey_nodup_of_opKey (l : List Utxo) (h : (l.map opKey).Nodup) : (l.map skey).Nodup := by
  unfold List.Nodup at h ⊢
  rw [List.pairwise_map] at h ⊢
  refine h.imp ?_
  intro a b hab e
  apply hab
  simp only [skey, Prod.mk.injEq] at e
  simp [opKey, e.2.1, e.2.2]

theorem chooseUtxos_no_panic (T : Tests) (P : Params) (s : Store) (tries : Int)
    (hk : (s.utxos.map opKey).Nodup) : chooseUtxos T P s tries ≠ .panic := by
  unfold chooseUtxos
  simp only
  split
  · rename_i hp; exact absurd hp (select_no_panic T P _ tries)
  · simp
  · rename_i a0 hsel
    split
    · simp
    · rename_i hne
      obtain ⟨⟨idxs, hnd, hpk⟩, _, _, _⟩ := select_conserves' T P (sortDesc s.utxos) tries a0 hsel
      have hsp := sortDesc_perm s.utxos
      have hk1 : ((sortDesc s.utxos).map opKey).Nodup := (hsp.map opKey).nodup_iff.mpr hk
      have hkeys := picks_keys_nodup _ _ _ hk1 hnd hpk
      have hm := picks_mem _ _ _ hpk
      have hU : SDesc (sortDesc s.utxos) := sortDesc_sdesc _ (skey_nodup_of_opKey _ hk)
      have hR : SDesc (sortDesc a0.sel) := sortDesc_sdesc _ (skey_nodup_of_opKey _ hkeys)
      have hsub : (sortDesc a0.sel).Sublist (sortDesc s.utxos) :=
        sdesc_sublist _ _ hR hU (fun x hx => hm x ((sortDesc_perm a0.sel).mem_iff.mp hx))
      obtain ⟨rest, hr⟩ := removeWalk_some (sortDesc s.utxos) 0 (sortDesc a0.sel) hk1 (by simpa using hsub)
      rw [hr]; simp

/-- getStxoAmts deletes, for every input, one spent-record entry with that input's outpoint. -/
theorem removeInputs_spec (stxos inputs rest : List Utxo) (h : removeInputs stxos inputs = some rest) :
    ∃ removed : List Utxo, stxos.Perm (removed ++ rest) ∧
      removed.map (fun u => (u.hash, u.index)) = inputs.map (fun u => (u.hash, u.index)) := by
  induction inputs generalizing stxos with
  | nil => simp [removeInputs] at h; subst h; exact ⟨[], by simp, rfl⟩
  | cons i r ih =>
    unfold removeInputs at h
    split at h
    · simp at h
    · rename_i k hk
      obtain ⟨hlt, hx, _⟩ := List.findIdx?_eq_some_iff_getElem.mp hk
      simp only [Bool.and_eq_true, beq_iff_eq] at hx
      obtain ⟨removed, hp, hm⟩ := ih _ h
      refine ⟨stxos[k] :: removed, ?_, ?_⟩
      · have := eraseIdx_perm stxos k stxos[k] (List.getElem?_eq_getElem hlt)
        exact this.trans (List.Perm.cons _ hp)
      · simp only [List.map_cons, hm, hx.1, hx.2]

/-- The last signature: the outputs paying the multisig become unspent (appended), the transaction's inputs leave the
    spent record; every earlier signature leaves both records untouched (`pending` carries no store). -/
theorem multiSign_final_spec (required : Nat) (s s' : Store) (p p' : Pending) (signer : Nat) (sigOK : Bool)
    (mk : Nat → Nat → Utxo) (h : multiSign required s p signer sigOK mk = .final p' s') :
    sigOK = true ∧ signer ∉ p.signers ∧ p'.signers = p.signers ++ [signer] ∧ p'.signers.length = required ∧
      s'.utxos = s.utxos ++ newUtxos mk p.outs ∧
      ∃ removed : List Utxo, s.stxos.Perm (removed ++ s'.stxos) ∧
        removed.map (fun u => (u.hash, u.index)) = p.inputs.map (fun u => (u.hash, u.index)) := by
  unfold multiSign at h
  split at h; · simp at h
  rename_i hs
  split at h; · simp at h
  split at h; · simp at h
  rename_i stxos' hr
  split at h; · simp at h
  rename_i hok
  simp only at h
  split at h; · simp at h
  rename_i hlen
  simp only [SignRes.final.injEq] at h
  obtain ⟨rfl, rfl⟩ := h
  refine ⟨by simpa using hok, by simpa using hs, rfl, by simpa using hlen, rfl, removeInputs_spec _ _ _ hr⟩

end Poly.Proofs.Btc
