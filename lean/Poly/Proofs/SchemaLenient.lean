import Poly.Model.SchemaLenient
import Poly.Proofs.Schema
/-! The eof-at-the-end decoders agree with the strict product schemas (`Ty.lenient_spec`, `Ty.decLenient_eq`). -/
set_option linter.unusedSimpArgs false
set_option linter.unusedVariables false
namespace Poly.Model.Schema
open Poly.Model.Codec

/-! ### facts about the pure readers -/
theorem P.nextBytes_sticky (n : Nat) (bs : Bytes) (h : (P.nextBytes n bs).2.2 = true) : (P.nextBytes n bs).2.1 = [] := by
  unfold P.nextBytes at h ⊢; split <;> simp_all

theorem P.nextBytes_nil (n : Nat) (hn : 0 < n) : (P.nextBytes n []).2.2 = true := by
  have : ¬ n ≤ 0 := by omega
  simp [P.nextBytes, this]

theorem P.nextByte_sticky (bs : Bytes) (h : (P.nextByte bs).2.2 = true) : (P.nextByte bs).2.1 = [] := by
  cases bs <;> simp_all [P.nextByte]

theorem P.nextU16_sticky (bs : Bytes) (h : (P.nextU16 bs).2.2 = true) : (P.nextU16 bs).2.1 = [] := by
  unfold P.nextU16 at h ⊢
  by_cases c : (P.nextBytes 2 bs).2.2 = true
  · simp [c, P.nextBytes_sticky 2 bs c]
  · simp [c] at h
theorem P.nextU32_sticky (bs : Bytes) (h : (P.nextU32 bs).2.2 = true) : (P.nextU32 bs).2.1 = [] := by
  unfold P.nextU32 at h ⊢
  by_cases c : (P.nextBytes 4 bs).2.2 = true
  · simp [c, P.nextBytes_sticky 4 bs c]
  · simp [c] at h
theorem P.nextU64_sticky (bs : Bytes) (h : (P.nextU64 bs).2.2 = true) : (P.nextU64 bs).2.1 = [] := by
  unfold P.nextU64 at h ⊢
  by_cases c : (P.nextBytes 8 bs).2.2 = true
  · simp [c, P.nextBytes_sticky 8 bs c]
  · simp [c] at h
theorem P.nextI64_sticky (bs : Bytes) (h : (P.nextI64 bs).2.2 = true) : (P.nextI64 bs).2.1 = [] := by
  simp only [P.nextI64] at h ⊢; exact P.nextU64_sticky bs h
theorem P.nextFixed_sticky (n : Nat) (bs : Bytes) (h : (P.nextFixed n bs).2.2 = true) : (P.nextFixed n bs).2.1 = [] := by
  unfold P.nextFixed at h ⊢
  by_cases c : (P.nextBytes n bs).2.2 = true
  · simp [c, P.nextBytes_sticky n bs c]
  · simp [c] at h

theorem P.nextVarUint_sticky (bs : Bytes) (h : (P.nextVarUint bs).2.2 = true) : (P.nextVarUint bs).2.1 = [] := by
  unfold P.nextVarUint at h ⊢
  by_cases c : (P.nextByte bs).2.2 = true
  · simp [c, P.nextByte_sticky bs c]
  · simp only [c, Bool.false_eq_true, if_false] at h ⊢
    by_cases c1 : ((P.nextByte bs).1 == 0xFD) = true
    · simp only [c1, if_true] at h ⊢
      by_cases d : (P.nextU16 (P.nextByte bs).2.1).2.2 = true
      · simp [d, P.nextU16_sticky _ d]
      · simp [d] at h
    · simp only [c1, Bool.false_eq_true, if_false] at h ⊢
      by_cases c2 : ((P.nextByte bs).1 == 0xFE) = true
      · simp only [c2, if_true] at h ⊢
        by_cases d : (P.nextU32 (P.nextByte bs).2.1).2.2 = true
        · simp [d, P.nextU32_sticky _ d]
        · simp [d] at h
      · simp only [c2, Bool.false_eq_true, if_false] at h ⊢
        by_cases c3 : ((P.nextByte bs).1 == 0xFF) = true
        · simp only [c3, if_true] at h ⊢
          by_cases d : (P.nextU64 (P.nextByte bs).2.1).2.2 = true
          · simp [d, P.nextU64_sticky _ d]
          · simp [d] at h
        · simp [c3] at h

theorem P.nextVarBytes_sticky (bs : Bytes) (h : (P.nextVarBytes bs).2.2 = true) : (P.nextVarBytes bs).2.1 = [] := by
  unfold P.nextVarBytes at h ⊢
  by_cases c : (P.nextVarUint bs).2.2 = true
  · simp [c, P.nextVarUint_sticky bs c]
  · simp only [c, Bool.false_eq_true, if_false] at h ⊢
    exact P.nextBytes_sticky _ _ h


theorem Leaf.lenient_spec (K : Bytes → Option Bytes) (l : Leaf) (hn : l.needsInput = true) (bs : Bytes) :
    ∃ rd, l.pr = some rd ∧ l.dec K bs = ofP (rd bs) ∧ (bs = [] → (rd bs).2.2 = true) ∧
      (l.sticky = true → (rd bs).2.2 = true → (rd bs).2.1 = []) := by
  cases l <;> simp only [Leaf.needsInput, Bool.false_eq_true] at hn
  · exact ⟨_, rfl, rfl, fun h => by subst h; rfl, fun _ h => P.nextByte_sticky bs h⟩
  · exact ⟨_, rfl, rfl, fun h => by subst h; rfl, fun _ h => P.nextU16_sticky bs h⟩
  · exact ⟨_, rfl, rfl, fun h => by subst h; rfl, fun _ h => P.nextU32_sticky bs h⟩
  · exact ⟨_, rfl, rfl, fun h => by subst h; rfl, fun _ h => P.nextU64_sticky bs h⟩
  · exact ⟨_, rfl, rfl, fun h => by subst h; rfl, fun _ h => P.nextI64_sticky bs h⟩
  · exact ⟨_, rfl, rfl, fun h => by subst h; rfl, fun hs _ => by simp [Leaf.sticky] at hs⟩
  · exact ⟨_, rfl, rfl, fun h => by subst h; rfl, fun _ h => P.nextVarUint_sticky bs h⟩
  · exact ⟨_, rfl, rfl, fun h => by subst h; rfl, fun _ h => P.nextVarBytes_sticky bs h⟩
  · rename_i n
    have hn' : 0 < n := by simpa using hn
    refine ⟨_, rfl, rfl, fun h => ?_, fun _ h => P.nextFixed_sticky n bs h⟩
    subst h
    simp [P.nextFixed, P.nextBytes_nil n hn']

/-- The field-after-field decoders that look only at the last eof flag accept exactly what the strict product schema
accepts, with the same value and remainder; when they refuse, the strict decoder reports eof. -/
theorem Ty.lenient_spec (K : Bytes → Option Bytes) (t : Ty) (hok : t.lenientOk = true) (bs : Bytes) :
    ∃ v r e, t.lenient bs = some (v, r, e) ∧
      (e = false → t.dec K bs = .ok (v, r)) ∧ (e = true → t.dec K bs = .error .eof) ∧
      (bs = [] → e = true) ∧ (t.allSticky = true → e = true → r = []) := by
  induction t generalizing bs with
  | leaf l g =>
    cases g <;> simp only [Ty.lenientOk, Bool.false_eq_true] at hok
    obtain ⟨rd, hpr, hdec, hnil, hst⟩ := Leaf.lenient_spec K l hok bs
    refine ⟨(rd bs).1, (rd bs).2.1, (rd bs).2.2, by simp only [Ty.lenient, hpr]; rfl, ?_, ?_, hnil, ?_⟩
    · intro he
      simp only [Ty.dec, Leaf.decG, hdec, ofP, he, Guard.ok, Bool.false_eq_true, if_false, if_true]; rfl
    · intro he
      simp only [Ty.dec, Leaf.decG, hdec, ofP, he, if_true]; rfl
    · intro hs he
      exact hst (by simpa [Ty.allSticky] using hs) he
  | pair a b iha ihb =>
    simp only [Ty.lenientOk, Bool.and_eq_true] at hok
    obtain ⟨⟨hoa, hsa⟩, hob⟩ := hok
    obtain ⟨x, r1, e1, hla, ha0, ha1, hanil, hast⟩ := iha hoa bs
    obtain ⟨y, r2, e2, hlb, hb0, hb1, hbnil, hbst⟩ := ihb hob r1
    refine ⟨(x, y), r2, e2, by simp [Ty.lenient, hla, hlb], ?_, ?_, ?_, ?_⟩
    · intro he2
      have he1 : e1 = false := by
        cases he1 : e1 with
        | false => rfl
        | true =>
          have := hbnil (hast hsa he1)
          rw [he2] at this; exact absurd this (by simp)
      simp [Ty.dec, ha0 he1, hb0 he2]
    · intro he2
      cases he1 : e1 with
      | true => simp [Ty.dec, ha1 he1]
      | false => simp [Ty.dec, ha0 he1, hb1 he2]
    · intro hnil
      exact hbnil (hast hsa (hanil hnil))
    · intro hs he2
      simp only [Ty.allSticky, Bool.and_eq_true] at hs
      exact hbst hs.2 he2
  | list o t ih => simp [Ty.lenientOk] at hok
  | map c k kg v ord ih => simp [Ty.lenientOk] at hok

/-- corollary in the form used by the message decoders -/
theorem Ty.decLenient_eq (K : Bytes → Option Bytes) (t : Ty) (hok : t.lenientOk = true) (bs : Bytes) :
    t.decLenient bs = some (t.dec K bs) := by
  obtain ⟨v, r, e, hl, h0, h1, _, _⟩ := Ty.lenient_spec K t hok bs
  cases he : e with
  | false => simp [Ty.decLenient, hl, he, h0 he]
  | true => simp [Ty.decLenient, hl, he, h1 he]

end Poly.Model.Schema
