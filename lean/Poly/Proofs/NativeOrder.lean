import Poly.Model.NativeOrder
import Poly.Model.Gov
/-! Order independence of the map-ranging governance handlers (C16 a). -/
namespace Poly.Model.Order

section Map
variable {κ ν : Type} [DecidableEq κ]

theorem mget_mput (m : List (κ × ν)) (k : κ) (v : ν) (x : κ) :
    mget (mput m k v) x = if k = x then some v else mget m x := by
  induction m with
  | nil => simp [mput, mget]
  | cons p r ih =>
    obtain ⟨k', v'⟩ := p
    simp only [mput]
    split
    · rename_i h; subst h; simp only [mget]; split <;> rfl
    · rename_i h
      simp only [mget, ih]
      by_cases e : k' = x
      · have : k ≠ x := fun e' => h (e.trans e'.symm)
        simp [e, this]
      · simp [e]

/-- The value the loop leaves under `x`: the last visited entry with that key, else what `dst` held. -/
def lastOf : List (κ × ν) → κ → Option ν
  | [], _ => none
  | (k, v) :: r, x => match lastOf r x with | some w => some w | none => if k = x then some v else none

theorem mget_mergeRange (src : List (κ × ν)) : ∀ (dst : List (κ × ν)) (x : κ),
    mget (mergeRange dst src) x = (lastOf src x).orElse (fun _ => mget dst x) := by
  induction src with
  | nil => intro dst x; simp [mergeRange, lastOf]
  | cons p r ih =>
    intro dst x
    obtain ⟨k, v⟩ := p
    have : mergeRange dst ((k, v) :: r) = mergeRange (mput dst k v) r := rfl
    rw [this, ih, mget_mput]
    simp only [lastOf]
    cases lastOf r x with
    | some w => rfl
    | none => split <;> simp

/-- With pairwise different keys the last entry with key `x` is the only one: `lastOf` is a lookup. -/
theorem lastOf_eq_mget (src : List (κ × ν)) (hn : (keys src).Nodup) (x : κ) : lastOf src x = mget src x := by
  induction src with
  | nil => rfl
  | cons p r ih =>
    obtain ⟨k, v⟩ := p
    simp only [keys, List.map_cons, List.nodup_cons] at hn
    simp only [lastOf, mget, ih hn.2]
    by_cases e : k = x
    · subst e
      have : mget r k = none := by
        have hk := hn.1
        clear ih hn
        induction r with
        | nil => rfl
        | cons q t iht =>
          obtain ⟨k2, v2⟩ := q
          simp only [List.map_cons, List.mem_cons, not_or] at hk
          simp only [mget]
          rw [if_neg (fun e => hk.1 e.symm)]
          exact iht hk.2
      simp [this]
    · simp only [e, if_false]
      cases mget r x <;> rfl

theorem keys_nodup_perm {a b : List (κ × ν)} (h : List.Perm a b) (ha : (keys a).Nodup) : (keys b).Nodup := by
  unfold keys at *
  exact (h.map Prod.fst).nodup_iff.mp ha

theorem mget_perm (a b : List (κ × ν)) (ha : (keys a).Nodup) (h : List.Perm a b) (x : κ) : mget a x = mget b x := by
  induction h with
  | nil => rfl
  | cons p _ ih =>
    obtain ⟨k, v⟩ := p
    simp only [keys, List.map_cons, List.nodup_cons] at ha
    simp only [mget, ih ha.2]
  | swap p q l =>
    obtain ⟨k1, v1⟩ := p
    obtain ⟨k2, v2⟩ := q
    simp only [keys, List.map_cons, List.nodup_cons, List.mem_cons, not_or] at ha
    simp only [mget]
    by_cases e1 : k1 = x <;> by_cases e2 : k2 = x <;> simp [e1, e2]
    exact absurd (e1.trans e2.symm) (fun e => ha.1.1 e.symm)
  | trans h1 _ ih1 ih2 =>
    have hb := keys_nodup_perm h1 ha
    rw [ih1 ha, ih2 hb]

/-- `for k, v := range src { dst[k] = v }`: whatever order the range visits `src` in, every key ends up with the
same value. -/
theorem mergeRange_order_independent (dst src src' : List (κ × ν)) (hn : (keys src).Nodup) (h : List.Perm src src')
    (x : κ) : mget (mergeRange dst src) x = mget (mergeRange dst src') x := by
  have hn' : (keys src').Nodup := keys_nodup_perm h hn
  rw [mget_mergeRange, mget_mergeRange, lastOf_eq_mget src hn, lastOf_eq_mget src' hn', mget_perm src src' hn h]

theorem keys_mput (m : List (κ × ν)) (k : κ) (v : ν) :
    keys (mput m k v) = if k ∈ keys m then keys m else keys m ++ [k] := by
  induction m with
  | nil => simp [mput, keys]
  | cons p r ih =>
    obtain ⟨k', v'⟩ := p
    simp only [mput]
    by_cases h : k' = k
    · subst h; simp [keys]
    · have hne : ¬ k = k' := fun e => h e.symm
      have ih' : keys (mput r k v) = if k ∈ keys r then keys r else keys r ++ [k] := ih
      rw [if_neg h]
      show k' :: keys (mput r k v) = if k ∈ k' :: keys r then k' :: keys r else (k' :: keys r) ++ [k]
      rw [ih']
      by_cases hk : k ∈ keys r
      · simp [hk]
      · simp [hk, hne]

/-- Number of entries after the loop: those of `dst` plus the visited keys that `dst` did not have. -/
theorem length_mergeRange (src : List (κ × ν)) : ∀ dst : List (κ × ν), (keys src).Nodup →
    (mergeRange dst src).length = dst.length + (src.filter fun kv => !(keys dst).contains kv.1).length := by
  induction src with
  | nil => intro dst _; simp [mergeRange]
  | cons p r ih =>
    intro dst hn
    obtain ⟨k, v⟩ := p
    simp only [keys, List.map_cons, List.nodup_cons] at hn
    have : mergeRange dst ((k, v) :: r) = mergeRange (mput dst k v) r := rfl
    rw [this, ih (mput dst k v) hn.2]
    have hlen : (mput dst k v).length = (keys (mput dst k v)).length := by simp [keys]
    have hfil : (r.filter fun kv => !(keys (mput dst k v)).contains kv.1) = (r.filter fun kv => !(keys dst).contains kv.1) := by
      apply List.filter_congr
      intro kv hkv
      rw [keys_mput]
      have hne : kv.1 ≠ k := fun e => hn.1 (e ▸ List.mem_map_of_mem hkv)
      split
      · rfl
      · simp [hne]
    rw [hfil, hlen, keys_mput, List.filter_cons]
    have hdl : dst.length = (keys dst).length := by simp [keys]
    by_cases hk : k ∈ keys dst
    · have hc : (keys dst).contains k = true := by simpa using hk
      simp only [hk, if_true, hc, Bool.not_true, Bool.false_eq_true, if_false]
      omega
    · have hc : (keys dst).contains k = false := by simpa using hk
      simp only [hk, if_false, hc, Bool.not_false, if_true, List.length_append, List.length_cons, List.length_nil]
      omega

/-- The size test after the loop (`len(bindSignInfo.BindSignInfo) >= m`) does not depend on the order either. -/
theorem mergeRange_size_order_independent (dst src src' : List (κ × ν)) (hn : (keys src).Nodup) (h : List.Perm src src') :
    (mergeRange dst src).length = (mergeRange dst src').length := by
  have hn' : (keys src').Nodup := keys_nodup_perm h hn
  rw [length_mergeRange src dst hn, length_mergeRange src' dst hn']
  exact congrArg _ (h.filter _).length_eq

end Map

/-! ### Collect and sort: the serialisation order of every record holding a map -/

/-- `sort.SliceStable` by a total order on the keys, keys pairwise different: the sorted list is the same whatever
order the map was visited in. -/
theorem collectSorted_order_independent {α κ : Type} (key : α → κ) (le : κ → κ → Bool)
    (htot : ∀ a b, le a b || le b a) (htr : ∀ a b c, le a b → le b c → le a c) (hanti : ∀ a b, le a b → le b a → a = b)
    (l l' : List α) (hn : (l.map key).Nodup) (h : List.Perm l l') :
    collectSorted (fun a b => le (key a) (key b)) l = collectSorted (fun a b => le (key a) (key b)) l' := by
  unfold collectSorted
  have hinj : ∀ (l : List α), (l.map key).Nodup → ∀ a b, a ∈ l → b ∈ l → key a = key b → a = b := by
    intro l
    induction l with
    | nil => intro _ a b ha; cases ha
    | cons x r ih =>
      intro hn a b ha hb hk
      simp only [List.map_cons, List.nodup_cons] at hn
      rcases List.mem_cons.mp ha with ea | ha' <;> rcases List.mem_cons.mp hb with eb | hb'
      · rw [ea, eb]
      · subst ea; exact absurd (hk ▸ List.mem_map_of_mem hb') hn.1
      · subst eb; exact absurd (hk ▸ List.mem_map_of_mem ha') hn.1
      · exact ih hn.2 a b ha' hb' hk
  apply List.Perm.eq_of_pairwise (le := fun a b => le (key a) (key b) = true)
  · intro a b ha hb h1 h2
    have ha' : a ∈ l := (List.mergeSort_perm l _).mem_iff.mp ha
    have hb' : b ∈ l := h.mem_iff.mpr ((List.mergeSort_perm l' _).mem_iff.mp hb)
    exact hinj l hn a b ha' hb' (hanti _ _ h1 h2)
  · exact List.pairwise_mergeSort (le := fun a b => le (key a) (key b)) (fun a b c => htr _ _ _) (fun a b => htot (key a) (key b)) l
  · exact List.pairwise_mergeSort (le := fun a b => le (key a) (key b)) (fun a b c => htr _ _ _) (fun a b => htot (key a) (key b)) l'
  · exact ((List.mergeSort_perm l _).trans h).trans (List.mergeSort_perm l' _).symm

/-! ### Epoch change and peer counts -/

theorem commitPool_perm (l l' : List PeerItem) (h : List.Perm l l') : List.Perm (commitPool l) (commitPool l') :=
  h.filterMap _

theorem commitPool_keys_sublist (l : List PeerItem) : ((commitPool l).map (·.pubkey)).Sublist (l.map (·.pubkey)) := by
  induction l with
  | nil => exact List.Sublist.slnil
  | cons p r ih =>
    simp only [commitPool, List.filterMap_cons]
    cases hp : commitEntry p with
    | none => exact List.Sublist.cons _ ih
    | some q =>
      have hq : q.pubkey = p.pubkey := by
        unfold commitEntry at hp
        cases hs : p.status <;> rw [hs] at hp <;> simp at hp <;> (subst hp; rfl)
      simp only [List.map_cons, hq]
      exact List.Sublist.cons_cons _ ih

/-- The pool stored for the new view (entries collected from the map and sorted by public key, as
`PeerPoolMap.Serialization` does) is the same for every visiting order of the epoch-change loop. -/
theorem commitPool_stored_order_independent (le : List UInt8 → List UInt8 → Bool)
    (htot : ∀ a b, le a b || le b a) (htr : ∀ a b c, le a b → le b c → le a c) (hanti : ∀ a b, le a b → le b a → a = b)
    (l l' : List PeerItem) (hn : (l.map (·.pubkey)).Nodup) (h : List.Perm l l') :
    collectSorted (fun a b => le a.pubkey b.pubkey) (commitPool l) =
      collectSorted (fun a b => le a.pubkey b.pubkey) (commitPool l') :=
  collectSorted_order_independent (·.pubkey) le htot htr hanti _ _
    (List.Nodup.sublist (commitPool_keys_sublist l) hn) (commitPool_perm l l' h)

theorem activeCount_eq (l : List PeerItem) :
    activeCount l = (l.filter fun p => p.status = .candidate ∨ p.status = .consensus).length := by
  unfold activeCount
  have : ∀ (n : Nat), l.foldl (fun n p => if p.status = .candidate ∨ p.status = .consensus then n + 1 else n) n =
      n + (l.filter fun p => p.status = .candidate ∨ p.status = .consensus).length := by
    induction l with
    | nil => intro n; simp
    | cons p r ih =>
      intro n
      simp only [List.foldl_cons, ih, List.filter_cons]
      by_cases hp : p.status = .candidate ∨ p.status = .consensus
      · simp [hp]; omega
      · simp [hp]
  simpa using this 0

theorem activeCount_perm (l l' : List PeerItem) (h : List.Perm l l') : activeCount l = activeCount l' := by
  rw [activeCount_eq, activeCount_eq]; exact (h.filter _).length_eq

/-! ### UpdateFee: the median of the proposals -/

theorem insertDesc_perm (x : Nat) (l : List Nat) : List.Perm (insertDesc x l) (x :: l) := by
  induction l with
  | nil => exact List.Perm.refl _
  | cons y t ih =>
    simp only [insertDesc]
    split
    · exact List.Perm.refl _
    · exact (List.Perm.cons y ih).trans (List.Perm.swap x y t)

theorem sortDesc_perm (l : List Nat) : List.Perm (sortDesc l) l := by
  induction l with
  | nil => exact List.Perm.refl _
  | cons x r ih => exact (insertDesc_perm x (sortDesc r)).trans (List.Perm.cons x ih)

theorem insertDesc_sorted (x : Nat) (l : List Nat) (h : l.Pairwise (· ≥ ·)) : (insertDesc x l).Pairwise (· ≥ ·) := by
  induction l with
  | nil => simp [insertDesc]
  | cons y t ih =>
    have hy := List.pairwise_cons.mp h
    simp only [insertDesc]
    split
    · rename_i hxy
      refine List.pairwise_cons.mpr ⟨?_, h⟩
      intro z hz
      rcases List.mem_cons.mp hz with e | hz'
      · subst e; exact hxy
      · exact Nat.le_trans (hy.1 z hz') hxy
    · rename_i hxy
      refine List.pairwise_cons.mpr ⟨?_, ih hy.2⟩
      intro z hz
      rcases List.mem_cons.mp ((insertDesc_perm x t).mem_iff.mp hz) with e | hz'
      · subst e; omega
      · exact hy.1 z hz'

theorem sortDesc_sorted (l : List Nat) : (sortDesc l).Pairwise (· ≥ ·) := by
  induction l with
  | nil => simp [sortDesc]
  | cons x r ih => exact insertDesc_sorted x _ ih

theorem sortDesc_order_independent (l l' : List Nat) (h : List.Perm l l') : sortDesc l = sortDesc l' := by
  apply List.Perm.eq_of_pairwise (le := (· ≥ ·))
  · intro a b _ _ h1 h2; omega
  · exact sortDesc_sorted l
  · exact sortDesc_sorted l'
  · exact ((sortDesc_perm l).trans h).trans (sortDesc_perm l').symm

theorem medianFee_order_independent (l l' : List Nat) (h : List.Perm l l') : medianFee l = medianFee l' := by
  unfold medianFee; rw [sortDesc_order_independent l l' h]

/-- This file's sort and median are b-gov's (`Poly.Model.Gov`), so the invariance carries over to that model. -/
theorem sortDesc_eq_gov (l : List Nat) : sortDesc l = Poly.Model.Gov.sortDesc l := by
  unfold sortDesc Poly.Model.Gov.sortDesc
  have hi : ∀ x t, insertDesc x t = Poly.Model.Gov.insertDesc x t := by
    intro x t; induction t with
    | nil => rfl
    | cons y r ih => simp [insertDesc, Poly.Model.Gov.insertDesc, ih]
  induction l with
  | nil => rfl
  | cons x r ih => simp only [List.foldr_cons, ih, hi]

theorem gov_medianFee_order_independent (l l' : List Nat) (h : List.Perm l l') :
    Poly.Model.Gov.medianFee l = Poly.Model.Gov.medianFee l' := by
  unfold Poly.Model.Gov.medianFee
  rw [← sortDesc_eq_gov, ← sortDesc_eq_gov, sortDesc_order_independent l l' h]

end Poly.Model.Order
