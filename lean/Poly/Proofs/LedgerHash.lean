import Poly.Proofs.LedgerChain
import Poly.Proofs.Schema
import Poly.Model.SchemaLedger
import Poly.Spec.RFC6962
/-!
The "no hash collision" hypotheses of the chain invariant, discharged from the header hash as C02 models it
(`headerHash H h = H (H (headerUnsignedTy.enc h.1))`, injective serialization): either the hash function collides
(pair exhibited) or the histories are collision-free in the sense of `NoColl` / `NoCollH`.
-/
namespace Poly.Model.Ledger
open Poly.Model.Schema Poly.Model.SchemaLedger

/-- `hd` is the ledger-level view of a wire header: its hash is the double hash of the unsigned serialization
(`Header.serializationUnsigned`, schema `headerUnsignedTy` of C02) of a well-formed value whose height and timestamp
fields are those of `hd` -/
def Wired (H : Bytes → Hash) (K : Bytes → Option Bytes) (hd : Header) : Prop :=
  ∃ u : headerUnsignedTy.Val, headerUnsignedTy.WF K u ∧ hd.hash = H (H (headerUnsignedTy.enc u)) ∧
    u.2.2.2.2.2.2.1.toNat = hd.timestamp ∧ u.2.2.2.2.2.2.2.1.toNat = hd.height

/-- two wire headers with the same hash have the same height and timestamp, or the hash function collides (the
colliding pair is exhibited: the two serializations, or their inner hashes) -/
theorem wired_same_hash (H : Bytes → Hash) (K : Bytes → Option Bytes) (h1 h2 : Header)
    (w1 : Wired H K h1) (w2 : Wired H K h2) (he : h1.hash = h2.hash) :
    Poly.Spec.RFC6962.Collision H ∨ (h1.height = h2.height ∧ h1.timestamp = h2.timestamp) := by
  obtain ⟨u1, wf1, e1, t1, g1⟩ := w1
  obtain ⟨u2, wf2, e2, t2, g2⟩ := w2
  rw [e1, e2] at he
  by_cases hin : H (headerUnsignedTy.enc u1) = H (headerUnsignedTy.enc u2)
  · by_cases henc : headerUnsignedTy.enc u1 = headerUnsignedTy.enc u2
    · have := Ty.enc_injective K headerUnsignedTy u1 u2 wf1 wf2 henc
      subst this
      exact Or.inr ⟨by rw [← g1, ← g2], by rw [← t1, ← t2]⟩
    · exact Or.inl ⟨_, _, henc, hin⟩
  · exact Or.inl ⟨_, _, hin, he⟩

open Poly.Spec.RFC6962 (Collision)

/-- every stored block and every cached header is the view of a wire header -/
def AllWired (H : Bytes → Hash) (K : Bytes → Option Bytes) (s : State) : Prop :=
  (∀ h blk, s.dur.blocks.blockAt h = some blk → Wired H K blk.header) ∧ (∀ hd ∈ s.mem.cache, Wired H K hd)

theorem noColl_of_wired (H : Bytes → Hash) (K : Bytes → Option Bytes) (g : Block) (s : State) (b : Block)
    (hcol : ¬ Collision H) (hc : Chain g s) (hw : AllWired H K s) (wb : Wired H K b.header)
    (hnz : b.header.hash ≠ zeroHash) : NoColl s b := by
  refine ⟨?_, ?_, hnz⟩
  · intro blk hb
    have e := (hc.bounded _ blk hb).1
    rcases wired_same_hash H K blk.header b.header (hw.1 _ blk hb) wb e with h | h
    · exact absurd h hcol
    · exact h.1
  · intro hd hm e
    rcases wired_same_hash H K hd b.header (hw.2 hd hm) wb e with h | h
    · exact absurd h hcol
    · exact h.2

theorem noCollH_of_wired (H : Bytes → Hash) (K : Bytes → Option Bytes) (g : Block) (s : State) (hd : Header)
    (hcol : ¬ Collision H) (hc : Chain g s) (hw : AllWired H K s) (wh : Wired H K hd) : NoCollH s hd := by
  intro blk hb
  have e := (hc.bounded _ blk hb).1
  rcases wired_same_hash H K blk.header hd (hw.1 _ blk hb) wh e with h | h
  · exact absurd h hcol
  · exact h.2

theorem submitted_allWired (H : Bytes → Hash) (K : Bytes → Option Bytes) (p : Params) (s : State) (b : Block)
    (res : ExecResult) (hw : AllWired H K s) (wb : Wired H K b.header) : AllWired H K (submitted p s b res) := by
  obtain ⟨-, -, -, -, f5, f6, -, f8⟩ := submitted_facts p s b res
  constructor
  · intro h blk hb
    by_cases hh : h = b.header.hash
    · subst hh; rw [f5] at hb; rw [← Option.some.inj hb]; exact wb
    · rw [f6 h hh] at hb; exact hw.1 h blk hb
  · intro hd hm; rw [f8] at hm; exact hw.2 hd hm

theorem installPeers_allWired (H : Bytes → Hash) (K : Bytes → Option Bytes) (s : State) (b : Block) (set : List Key)
    (hw : AllWired H K s) : AllWired H K (installPeers s b set) :=
  ⟨hw.1, fun hd hm => hw.2 hd (mem_cacheDel _ _ _ hm)⟩

theorem reopen_allWired (H : Bytes → Hash) (K : Bytes → Option Bytes) (p : Params) (g : Block) (s t : State)
    (d : Durable) (hs : Synced s) (hd : SameStores d s) (hw : AllWired H K s) (h : reopen p g d = .ok t) :
    AllWired H K t := by
  obtain ⟨e1, -, -, -⟩ := reopen_synced_ok p g s t d hs hd h
  obtain ⟨m1, -⟩ := reopen_synced_mem p g s t d hs hd h
  constructor
  · rw [e1, hd.1]; exact hw.1
  · intro x hx; rw [m1] at hx; cases hx

/-- histories of wire headers: every submitted block and delivered header is the view of a well-formed wire header
whose hash is the double hash of its unsigned serialization (and not the all-zero value) -/
inductive ReachW (p : Params) (K : Bytes → Option Bytes) (g : Block) : State → Prop
  | init {s} : Wired p.H K g.header → initLedger p g = .ok s → ReachW p K g s
  | add {s s'} (b : Block) (root : Hash) : ReachW p K g s → Wired p.H K b.header → b.header.hash ≠ zeroHash →
      addBlock p s b root = .ok s' → ReachW p K g s'
  | sub {s s'} (b : Block) : ReachW p K g s → Wired p.H K b.header → b.header.hash ≠ zeroHash →
      submitChecked p s b = .ok s' → ReachW p K g s'
  | hdr {s s'} (hd : Header) : ReachW p K g s → Wired p.H K hd → addHeader p s hd = .ok s' → ReachW p K g s'
  | restart {s s'} : ReachW p K g s → reopen p g s.dur = .ok s' → ReachW p K g s'
  | crash {s s' s''} (b : Block) (root : Hash) (k : Nat) : ReachW p K g s → Wired p.H K b.header →
      b.header.hash ≠ zeroHash → b.header.height = s.mem.currHeight + 1 → addBlock p s b root = .ok s'' → k ≤ 3 →
      reopen p g (crashD p s b k) = .ok s' → ReachW p K g s'

/-- such a history is collision-free in the sense the chain invariant needs — or exhibits a collision of the hash -/
theorem reachW_reachV (p : Params) (K : Bytes → Option Bytes) (g : Block) (hg : g.header.height = 0) (s : State)
    (h : ReachW p K g s) : Collision p.H ∨ (ReachV p g s ∧ AllWired p.H K s) := by
  by_cases hcol : Collision p.H
  · exact Or.inl hcol
  · right
    induction h with
    | init wg h =>
      refine ⟨ReachV.init h, ?_⟩
      obtain ⟨set, hd, hm⟩ := initLedger_form p g _ h
      obtain ⟨-, -, -, -, f5, f6, -, f8⟩ := submitted_facts p gen0 g (executeBlock p gen0 g).1
      constructor
      · intro x blk hb
        rw [hd] at hb
        have hb' : (submitted p gen0 g (executeBlock p gen0 g).1).dur.blocks.blockAt x = some blk := hb
        by_cases hx : x = g.header.hash
        · subst hx; rw [f5] at hb'; rw [← Option.some.inj hb']; exact wg
        · rw [f6 x hx] at hb'; cases hb'
      · intro x hx
        rw [hm] at hx
        have hx' : x ∈ (submitted p gen0 g (executeBlock p gen0 g).1).mem.cache := hx
        rw [f8] at hx'; cases hx'
    | @add s0 s1 b root _ wb hnz h ih =>
      obtain ⟨rv, aw⟩ := ih
      have hc := reachV_chain p g hg s0 rv
      refine ⟨ReachV.add b root rv (noColl_of_wired p.H K g s0 b hcol hc aw wb hnz) h, ?_⟩
      rcases addBlock_cases p s0 s1 b root h with ⟨-, e⟩ | ⟨-, ⟨set, -, e⟩, -, -⟩
      · subst e; exact aw
      · subst e; exact installPeers_allWired p.H K _ b set (submitted_allWired p.H K p s0 b _ aw wb)
    | @sub s0 s1 b _ wb hnz h ih =>
      obtain ⟨rv, aw⟩ := ih
      have hc := reachV_chain p g hg s0 rv
      refine ⟨ReachV.sub b rv (noColl_of_wired p.H K g s0 b hcol hc aw wb hnz) h, ?_⟩
      rcases submitChecked_cases p s0 s1 b h with ⟨-, e⟩ | ⟨-, ⟨set, -, e⟩, -⟩
      · subst e; exact aw
      · subst e; exact installPeers_allWired p.H K _ b set (submitted_allWired p.H K p s0 b _ aw wb)
    | @hdr s0 s1 hd _ wh h ih =>
      obtain ⟨rv, aw⟩ := ih
      have hc := reachV_chain p g hg s0 rv
      refine ⟨ReachV.hdr hd rv (noCollH_of_wired p.H K g s0 hd hcol hc aw wh) h, ?_⟩
      unfold addHeader at h
      split at h
      · cases h
      · split at h
        · cases h
        · injection h with h
          subst h
          refine ⟨aw.1, ?_⟩
          intro x hx
          have : x ∈ cacheAdd s0.mem.cache hd := hx
          rcases mem_cacheAdd _ _ _ this with e | e
          · subst e; exact wh
          · exact aw.2 x e
    | @restart s0 s1 _ h ih =>
      obtain ⟨rv, aw⟩ := ih
      have hs := reach_synced p g hg s0 (reachV_reach p g s0 rv)
      exact ⟨ReachV.restart rv h, reopen_allWired p.H K p g s0 s1 _ hs (sameStores_self s0 hs) aw h⟩
    | @crash s0 s1 s2 b root k _ wb hnz hh ha hk h ih =>
      obtain ⟨rv, aw⟩ := ih
      have hc := reachV_chain p g hg s0 rv
      have hs := reach_synced p g hg s0 (reachV_reach p g s0 rv)
      refine ⟨ReachV.crash b root k rv (noColl_of_wired p.H K g s0 b hcol hc aw wb hnz) hh ha hk h, ?_⟩
      by_cases h0 : k = 0
      · subst h0
        exact reopen_allWired p.H K p g s0 s1 _ hs (crashD0_same p s0 b hs) aw h
      · rw [reopen_crash_ge1 p g s0 b k hs hh (by omega) hk, ← submitted_dur] at h
        have hs3 := submitted_synced_next p s0 b (p.exec s0.dur.states.kv b) hs hh
        exact reopen_allWired p.H K p g _ s1 _ hs3 (sameStores_self _ hs3)
          (submitted_allWired p.H K p s0 b _ aw wb) h


end Poly.Model.Ledger
