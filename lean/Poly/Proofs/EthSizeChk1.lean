import Poly.Generated.EthSizeCerts1
/-! Kernel evaluation of the certificate checker on the 64-epoch chunks 4..7 of both ethash size tables (C28).
    Depends only on the generated certificate module (table values + certificates), not on the rule constants. -/
namespace Poly.Proofs.EthSizeChk
open Poly.Model.EthSizeCert Poly.Generated

theorem dataset_4 : checkTable 1073741824 8388608 128 256 EthSizeCerts.datasetVals_4 EthSizeCerts.datasetCerts_4 = true := by
  decide +kernel

theorem cache_4 : checkTable 16777216 131072 64 256 EthSizeCerts.cacheVals_4 EthSizeCerts.cacheCerts_4 = true := by
  decide +kernel

theorem dataset_5 : checkTable 1073741824 8388608 128 320 EthSizeCerts.datasetVals_5 EthSizeCerts.datasetCerts_5 = true := by
  decide +kernel

theorem cache_5 : checkTable 16777216 131072 64 320 EthSizeCerts.cacheVals_5 EthSizeCerts.cacheCerts_5 = true := by
  decide +kernel

theorem dataset_6 : checkTable 1073741824 8388608 128 384 EthSizeCerts.datasetVals_6 EthSizeCerts.datasetCerts_6 = true := by
  decide +kernel

theorem cache_6 : checkTable 16777216 131072 64 384 EthSizeCerts.cacheVals_6 EthSizeCerts.cacheCerts_6 = true := by
  decide +kernel

theorem dataset_7 : checkTable 1073741824 8388608 128 448 EthSizeCerts.datasetVals_7 EthSizeCerts.datasetCerts_7 = true := by
  decide +kernel

theorem cache_7 : checkTable 16777216 131072 64 448 EthSizeCerts.cacheVals_7 EthSizeCerts.cacheCerts_7 = true := by
  decide +kernel

end Poly.Proofs.EthSizeChk
