import Poly.Model.MerkleArray
/-
The array-backed store of the driver refines the list-backed store of the model.
-/
namespace Poly.Proofs.MerkleArray
open Poly.Spec.RFC6962 Poly.Model.Merkle Poly.Model.MerkleArray

/-- Well-formed: the write position is inside the array. -/
def AStore.WF (a : AStore) : Prop := a.wpos ≤ a.arr.size

theorem reader_eq (a : AStore) : a.reader = getHash1 a.toStore := by
  funext pos1
  unfold AStore.reader getHash1 AStore.toStore
  simp only [List.take_append_drop]
  by_cases h : pos1 = 0
  · simp [h]
  · simp only [h, ↓reduceIte, Array.getElem?_toList]
    cases a.arr[pos1 - 1]? <;> rfl

theorem take_set_succ {α : Type} (l : List α) (i : Nat) (h : α) (hi : i < l.length) :
    (l.set i h).take (i + 1) = l.take i ++ [h] ∧ (l.set i h).drop (i + 1) = l.drop (i + 1) := by
  induction l generalizing i with
  | nil => simp at hi
  | cons x l ih =>
    cases i with
    | zero => simp
    | succ i =>
      have := ih i (by simpa using hi)
      simp [this.1, this.2]

theorem put1_eq (a : AStore) (h : Hash) (hw : AStore.WF a) :
    (a.put1 h).toStore = a.toStore.put [h] ∧ AStore.WF (a.put1 h) := by
  unfold AStore.put1 AStore.toStore HashStore.put AStore.WF at *
  by_cases hlt : a.wpos < a.arr.size
  · simp only [hlt, ↓reduceIte, Array.toList_setIfInBounds, List.length_cons, List.length_nil]
    refine ⟨?_, by simp; omega⟩
    have hl : a.wpos < a.arr.toList.length := by simpa using hlt
    obtain ⟨e1, e2⟩ := take_set_succ a.arr.toList a.wpos h hl
    congr 1
    · rw [e2]; simp [List.drop_drop, Nat.add_comm]
  · simp only [hlt, ↓reduceIte, Array.toList_push, List.length_cons, List.length_nil]
    have he : a.wpos = a.arr.size := by omega
    refine ⟨?_, by simp; omega⟩
    have hl : a.arr.toList.length = a.wpos := by simp [he]
    congr 1
    · rw [← hl, List.take_of_length_le (by simp), List.take_of_length_le (Nat.le_refl _)]
    · rw [← hl, List.drop_of_length_le (by simp), List.drop_drop, List.drop_of_length_le (by omega)]

theorem put_eq (new : List Hash) : ∀ (a : AStore), AStore.WF a →
    (a.put new).toStore = a.toStore.put new ∧ AStore.WF (a.put new) := by
  induction new with
  | nil => intro a hw; exact ⟨by simp [AStore.put, HashStore.put], hw⟩
  | cons h new ih =>
    intro a hw
    obtain ⟨e1, w1⟩ := put1_eq a h hw
    obtain ⟨e2, w2⟩ := ih (a.put1 h) w1
    refine ⟨?_, by simpa [AStore.put] using w2⟩
    have : a.put (h :: new) = (a.put1 h).put new := by simp [AStore.put]
    rw [this, e2, e1]
    simp [HashStore.put, List.drop_drop, Nat.add_comm]

theorem ofStore_toStore (st : HashStore) : (AStore.ofStore st).toStore = st := by
  unfold AStore.ofStore AStore.toStore
  cases st; simp


theorem reopen_eq (a : AStore) (keep : Option Nat) (n : Nat) :
    (a.reopen keep n).map AStore.toStore =
      reopenFile (match keep with | none => a.arr.toList | some k => a.arr.toList.take k) n := by
  unfold AStore.reopen reopenFile AStore.toStore
  cases keep with
  | none =>
    simp only [Array.length_toList]
    split <;> simp
  | some k =>
    simp only
    have hl : (a.arr.extract 0 k).toList = a.arr.toList.take k := by simp [Array.toList_extract]
    have hs : (a.arr.extract 0 k).size = (a.arr.toList.take k).length := by rw [← hl]; simp
    rw [hs]
    split <;> simp [hl]

end Poly.Proofs.MerkleArray
