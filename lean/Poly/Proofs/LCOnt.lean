import Poly.Model.LCOnt
/-! Helper lemmas for the Ontology light-client model (C24, C31). Core only. -/
namespace Poly.Proofs.LCOnt
open Poly.Model.LCOnt

/-- keys at the positions that are not yet masked -/
def unmarked {κ : Type} : List κ → List Bool → List κ
  | k :: ks, b :: bs => if b then unmarked ks bs else k :: unmarked ks bs
  | _, _ => []

theorem unmarked_replicate {κ : Type} (keys : List κ) :
    unmarked keys (List.replicate keys.length false) = keys := by
  induction keys with
  | nil => rfl
  | cons k ks ih => simp [List.replicate_succ, unmarked, ih]

/-- A successful slot search consumes exactly one unmasked key, and that key verifies the signature. -/
theorem findSlot_some {κ σ : Type} (ver : κ → σ → Bool) (s : σ) :
    ∀ (keys : List κ) (mask mask' : List Bool), findSlot ver s keys mask = some mask' →
      ∃ k, ver k s = true ∧ (unmarked keys mask).Perm (k :: unmarked keys mask') := by
  intro keys
  induction keys with
  | nil => intro mask mask' h; simp [findSlot] at h
  | cons k ks ih =>
    intro mask mask' h
    cases mask with
    | nil => simp [findSlot] at h
    | cons b bs =>
      simp only [findSlot] at h
      split at h
      · rename_i hc
        simp at hc
        cases h
        refine ⟨k, hc.2, ?_⟩
        simp [unmarked, hc.1]
      · rename_i hc
        cases hf : findSlot ver s ks bs with
        | none => simp [hf] at h
        | some m'' =>
          simp [hf] at h
          subst h
          obtain ⟨k0, hk0, hp⟩ := ih bs m'' hf
          refine ⟨k0, hk0, ?_⟩
          cases b with
          | true => simpa [unmarked] using hp
          | false =>
            simp only [unmarked, Bool.false_eq_true, if_false]
            exact (List.Perm.cons k hp).trans (List.Perm.swap k0 k _)

/-- Loop invariant of `VerifyMultiSignature`: the processed signatures never outnumber the unmasked keys, and
when they are exactly as many, every unmasked key has verified one of them. -/
theorem multiLoop_true {κ σ : Type} (des : σ → Bool) (ver : κ → σ → Bool) (keys : List κ) :
    ∀ (ss : List σ) (mask : List Bool), multiLoop des ver keys ss mask = true →
      ss.length ≤ (unmarked keys mask).length ∧
      (ss.length = (unmarked keys mask).length →
        ∀ k ∈ unmarked keys mask, ∃ s ∈ ss, des s = true ∧ ver k s = true) := by
  intro ss
  induction ss with
  | nil =>
    intro mask _
    refine ⟨Nat.zero_le _, ?_⟩
    intro hl k hk
    have : (unmarked keys mask).length = 0 := by simpa using hl.symm
    have : unmarked keys mask = [] := List.eq_nil_of_length_eq_zero this
    simp [this] at hk
  | cons s rest ih =>
    intro mask h
    simp only [multiLoop, Bool.and_eq_true] at h
    obtain ⟨hdes, hm⟩ := h
    cases hf : findSlot ver s keys mask with
    | none => simp [hf] at hm
    | some mask' =>
      simp only [hf] at hm
      obtain ⟨k0, hk0, hp⟩ := findSlot_some ver s keys mask mask' hf
      obtain ⟨hle, hall⟩ := ih mask' hm
      have hlen : (unmarked keys mask).length = (unmarked keys mask').length + 1 := by
        simpa using hp.length_eq
      refine ⟨by simp only [List.length_cons]; omega, ?_⟩
      intro heq k hk
      have hk' : k ∈ k0 :: unmarked keys mask' := hp.mem_iff.mp hk
      rcases List.mem_cons.mp hk' with rfl | hk''
      · exact ⟨s, List.mem_cons_self, hdes, hk0⟩
      · have : rest.length = (unmarked keys mask').length := by
          simp only [List.length_cons] at heq; omega
        obtain ⟨s', hs', hd', hv'⟩ := hall this k hk''
        exact ⟨s', List.mem_cons_of_mem _ hs', hd', hv'⟩

/-- `VerifyMultiSignature(data, keys, len(keys), sigs)` accepts only if every listed key position verified one
of the submitted signatures. -/
theorem verifyMulti_all {κ σ : Type} (des : σ → Bool) (ver : κ → σ → Bool) (keys : List κ) (sigs : List σ)
    (h : verifyMulti des ver keys keys.length sigs = true) :
    ∀ k ∈ keys, ∃ s ∈ sigs, des s = true ∧ ver k s = true := by
  simp only [verifyMulti, Bool.and_eq_true, decide_eq_true_eq] at h
  obtain ⟨hle, hm⟩ := h
  have := multiLoop_true des ver keys _ _ hm
  rw [unmarked_replicate] at this
  have hl : (sigs.take keys.length).length = keys.length := by simp [List.length_take]; omega
  intro k hk
  obtain ⟨s, hs, hd, hv⟩ := this.2 hl k hk
  exact ⟨s, List.mem_of_mem_take hs, hd, hv⟩

/-- The membership / `usedPubKey` loop accepts only distinct tracked keys. -/
theorem checkSigners_true {κ : Type} [BEq κ] [LawfulBEq κ] (tracked : List κ) :
    ∀ (bks used : List κ), checkSigners tracked bks used = true →
      (∀ b ∈ bks, b ∈ tracked) ∧ bks.Nodup ∧ (∀ b ∈ bks, b ∉ used) := by
  intro bks
  induction bks with
  | nil => intro used _; simp
  | cons b bs ih =>
    intro used h
    simp only [checkSigners, Bool.and_eq_true, Bool.not_eq_true', List.contains_eq_mem,
      decide_eq_true_eq, decide_eq_false_iff_not] at h
    obtain ⟨⟨hb, hu⟩, hr⟩ := h
    obtain ⟨h1, h2, h3⟩ := ih (b :: used) hr
    refine ⟨?_, ?_, ?_⟩
    · intro x hx
      rcases List.mem_cons.mp hx with rfl | hx
      · exact hb
      · exact h1 x hx
    · refine List.nodup_cons.mpr ⟨?_, h2⟩
      intro hmem
      exact h3 b hmem List.mem_cons_self
    · intro x hx
      rcases List.mem_cons.mp hx with rfl | hx
      · exact hu
      · intro hxu
        exact h3 x hx (List.mem_cons_of_mem _ hxu)

/-- What an accepting run of `verifyHeader` / `VerifyCrossChainMsg` establishes (any threshold test `thr`). -/
theorem verifySigned_ok {κ σ : Type} [BEq κ] [LawfulBEq κ] (thr : Int → Int → Bool) (des : σ → Bool)
    (ver : κ → σ → Bool) (st : St κ) (h : Nat) (bks : List κ) (sigs : List σ)
    (hok : verifySigned thr des ver st h bks sigs = .ok ()) :
    ∃ kh tracked, findKeyHeight st.keyHeights h = some kh ∧ peersAt st.peers kh = some tracked ∧
      thr bks.length tracked.length = false ∧ bks.Nodup ∧ (∀ b ∈ bks, b ∈ tracked) ∧
      (∀ b ∈ bks, ∃ s ∈ sigs, des s = true ∧ ver b s = true) := by
  unfold verifySigned at hok
  cases hk : findKeyHeight st.keyHeights h with
  | none => simp [hk] at hok
  | some kh =>
    simp only [hk] at hok
    cases hp : peersAt st.peers kh with
    | none => simp [hp] at hok
    | some tracked =>
      simp only [hp] at hok
      cases ht : thr bks.length tracked.length with
      | true => simp [ht] at hok
      | false =>
        cases hc : checkSigners tracked bks [] with
        | false => simp [ht, hc] at hok
        | true =>
          cases hv : verifyMulti des ver bks bks.length sigs with
          | false => simp [ht, hc, hv] at hok
          | true =>
            obtain ⟨h1, h2, _⟩ := checkSigners_true tracked bks [] hc
            exact ⟨kh, tracked, by first | exact hk | rfl, by first | exact hp | rfl, ht, h2, h1, verifyMulti_all des ver bks sigs hv⟩

/-! ### key heights -/

theorem insertDesc_cons (h a : Nat) (l : List Nat) :
    insertDesc h (a :: l) = if a ≥ h then a :: insertDesc h l else h :: a :: l := by
  unfold insertDesc
  by_cases hc : a ≥ h <;> simp [List.takeWhile, List.dropWhile, hc]

theorem mem_insertDesc (h x : Nat) (l : List Nat) : x ∈ insertDesc h l ↔ x = h ∨ x ∈ l := by
  induction l with
  | nil => simp [insertDesc]
  | cons a l ih =>
    rw [insertDesc_cons]
    by_cases hc : a ≥ h
    · rw [if_pos hc]
      simp only [List.mem_cons, ih]
      grind
    · rw [if_neg hc]
      simp only [List.mem_cons]

theorem insertDesc_sorted (h : Nat) (l : List Nat) (hs : l.Pairwise (· ≥ ·)) :
    (insertDesc h l).Pairwise (· ≥ ·) := by
  induction l with
  | nil => simp [insertDesc]
  | cons a l ih =>
    rw [insertDesc_cons]
    have ⟨ha, hl⟩ := List.pairwise_cons.mp hs
    by_cases hc : a ≥ h
    · rw [if_pos hc]
      refine List.pairwise_cons.mpr ⟨?_, ih hl⟩
      intro x hx
      rcases (mem_insertDesc h x l).mp hx with rfl | hx
      · exact hc
      · exact ha x hx
    · rw [if_neg hc]
      refine List.pairwise_cons.mpr ⟨?_, hs⟩
      intro x hx
      rcases List.mem_cons.mp hx with rfl | hx
      · omega
      · have := ha x hx; omega

/-- `FindKeyHeight` on a list sorted big-to-small returns the greatest key height strictly below `h`. -/
theorem findKeyHeight_some (khs : List Nat) (hs : khs.Pairwise (· ≥ ·)) (h kh : Nat)
    (hf : findKeyHeight khs h = some kh) :
    kh ∈ khs ∧ kh < h ∧ ∀ v ∈ khs, v < h → v ≤ kh := by
  unfold findKeyHeight at hf
  obtain ⟨hp, as, bs, rfl, hnot⟩ := List.find?_eq_some_iff_append.mp hf
  simp only [decide_eq_true_eq] at hp
  refine ⟨by simp, hp, ?_⟩
  intro v hv hvh
  rcases List.mem_append.mp hv with hv | hv
  · have := hnot v hv
    simp at this
    omega
  · rcases List.mem_cons.mp hv with rfl | hv
    · exact Nat.le_refl _
    · have h2 := (List.pairwise_append.mp hs).2.1
      exact (List.pairwise_cons.mp h2).1 v hv

theorem findKeyHeight_none (khs : List Nat) (h : Nat) (hf : findKeyHeight khs h = none) :
    ∀ v ∈ khs, ¬ v < h := by
  unfold findKeyHeight at hf
  intro v hv
  have := List.find?_eq_none.mp hf v hv
  simpa using this

/-! ### peer sets -/

theorem mem_dedupKeys {κ : Type} [BEq κ] [LawfulBEq κ] (x : κ) (l : List κ) : x ∈ dedupKeys l ↔ x ∈ l := by
  induction l with
  | nil => simp [dedupKeys]
  | cons a l ih =>
    simp only [dedupKeys]
    by_cases hc : l.contains a
    · rw [if_pos hc, ih, List.mem_cons]
      constructor
      · exact Or.inr
      · rintro (rfl | h)
        · simpa using hc
        · exact h
    · rw [if_neg hc, List.mem_cons, List.mem_cons, ih]

theorem dedupKeys_nodup {κ : Type} [BEq κ] [LawfulBEq κ] (l : List κ) : (dedupKeys l).Nodup := by
  induction l with
  | nil => simp [dedupKeys]
  | cons a l ih =>
    simp only [dedupKeys]
    by_cases hc : l.contains a
    · rw [if_pos hc]; exact ih
    · rw [if_neg hc]
      refine List.nodup_cons.mpr ⟨?_, ih⟩
      rw [mem_dedupKeys]
      simpa using hc


theorem peersAt_cons {κ : Type} (h kh : Nat) (ps : List κ) (rest : List (Nat × List κ)) :
    peersAt ((h, ps) :: rest) kh = if h = kh then some ps else peersAt rest kh := by
  unfold peersAt
  by_cases hc : h = kh
  · simp [List.find?, hc]
  · have : (h == kh) = false := by simpa using hc
    simp [List.find?, this, hc]

theorem peersAt_mem {κ : Type} (ps : List (Nat × List κ)) (kh : Nat) (t : List κ)
    (h : peersAt ps kh = some t) : (kh, t) ∈ ps := by
  induction ps with
  | nil => simp [peersAt] at h
  | cons e rest ih =>
    obtain ⟨eh, eps⟩ := e
    rw [peersAt_cons] at h
    by_cases hc : eh = kh
    · rw [if_pos hc] at h
      cases h; subst hc; exact List.mem_cons_self
    · rw [if_neg hc] at h
      exact List.mem_cons_of_mem _ (ih h)

/-! ### state invariant -/

structure Inv {κ : Type} (st : St κ) : Prop where
  sorted : st.keyHeights.Pairwise (· ≥ ·)
  has : ∀ kh ∈ st.keyHeights, ∃ ps, peersAt st.peers kh = some ps
  nodup : ∀ e ∈ st.peers, e.2.Nodup

theorem inv_empty {κ : Type} : Inv (St.empty : St κ) :=
  ⟨List.Pairwise.nil, fun kh h => by simp [St.empty] at h, fun e h => by simp [St.empty] at h⟩

theorem inv_updatePeers {κ : Type} [BEq κ] [LawfulBEq κ] (st : St κ) (h : Nat) (cfg : Cfg κ) (hi : Inv st) :
    Inv (updatePeers st h cfg).1 := by
  cases cfg with
  | none => exact hi
  | bad => exact hi
  | peers ps =>
    refine ⟨insertDesc_sorted h _ hi.sorted, ?_, ?_⟩
    · intro kh hk
      show ∃ p, peersAt ((h, dedupKeys ps) :: st.peers) kh = some p
      rw [peersAt_cons]
      by_cases hc : h = kh
      · exact ⟨_, by rw [if_pos hc]⟩
      · rw [if_neg hc]
        rcases (mem_insertDesc h kh _).mp hk with rfl | hk
        · exact absurd rfl hc
        · exact hi.has kh hk
    · intro e he
      rcases List.mem_cons.mp he with rfl | he
      · exact dedupKeys_nodup ps
      · exact hi.nodup e he

theorem inv_hdrs {κ : Type} (st : St κ) (l : List Nat) (hi : Inv st) : Inv { st with hdrs := l } :=
  ⟨hi.sorted, hi.has, hi.nodup⟩

theorem inv_msgs {κ : Type} (st : St κ) (l : List Nat) (hi : Inv st) : Inv { st with msgs := l } :=
  ⟨hi.sorted, hi.has, hi.nodup⟩

theorem inv_apply {κ σ : Type} [BEq κ] [LawfulBEq κ] (des : σ → Bool) (st : St κ) (o : Op κ σ) (hi : Inv st) :
    Inv (apply des st o).1 := by
  cases o with
  | genesis h cfg =>
    simp only [apply, genesis]
    split
    · exact inv_updatePeers _ h cfg (inv_hdrs st _ hi)
    · exact hi
  | hdr h cfg bks sigs ver =>
    simp only [apply, syncHeader]
    split
    · exact hi
    · split
      · exact hi
      · exact inv_updatePeers _ h cfg (inv_hdrs st _ hi)
  | msg h bks sigs ver =>
    simp only [apply, syncMsg]
    split
    · exact hi
    · split
      · exact hi
      · exact inv_msgs st _ hi
  | dep h bks sigs ver =>
    simp only [apply, depositMsg]
    split
    · exact hi
    · split
      · exact hi
      · exact inv_msgs st _ hi

theorem inv_run {κ σ : Type} [BEq κ] [LawfulBEq κ] (des : σ → Bool) (ops : List (Op κ σ)) :
    ∀ st : St κ, Inv st → Inv (run des st ops) := by
  induction ops with
  | nil => intro st hi; exact hi
  | cons o os ih => intro st hi; exact ih _ (inv_apply des st o hi)

/-! ### histories -/

theorem run_append {κ σ : Type} [BEq κ] (des : σ → Bool) (a b : List (Op κ σ)) (st : St κ) :
    run des st (a ++ b) = run des (run des st a) b := by
  induction a generalizing st with
  | nil => rfl
  | cons o os ih => simp [run, ih]

/-- Whatever a run adds to a projection of the state was added by one of its operations, in the state that
operation met. -/
theorem run_trace {κ σ α : Type} [BEq κ] (des : σ → Bool) (proj : St κ → List α) (P : St κ → Op κ σ → α → Prop)
    (hstep : ∀ st o x, x ∈ proj (apply des st o).1 → x ∈ proj st ∨ P st o x) :
    ∀ (ops : List (Op κ σ)) (st0 : St κ) (x : α), x ∈ proj (run des st0 ops) →
      x ∈ proj st0 ∨ ∃ pre o post, ops = pre ++ o :: post ∧ P (run des st0 pre) o x := by
  intro ops
  induction ops with
  | nil => intro st0 x hx; exact Or.inl hx
  | cons o os ih =>
    intro st0 x hx
    rcases ih (apply des st0 o).1 x hx with h | ⟨pre, o', post, rfl, hp⟩
    · rcases hstep st0 o x h with h | h
      · exact Or.inl h
      · exact Or.inr ⟨[], o, os, rfl, h⟩
    · exact Or.inr ⟨o :: pre, o', post, rfl, hp⟩

/-- what one operation may add to the stored cross-chain messages -/
def MsgStep {κ σ : Type} [BEq κ] (des : σ → Bool) (st : St κ) (o : Op κ σ) (h : Nat) : Prop :=
  match o with
  | .msg h' bks sigs ver => h = h' ∧ verifyMsg des ver st h' bks sigs = .ok ()
  | .dep h' bks sigs ver => h = h' ∧ verifyMsg des ver st h' bks sigs = .ok ()
  | _ => False

theorem updatePeers_msgs {κ : Type} [BEq κ] (st : St κ) (h : Nat) (cfg : Cfg κ) :
    (updatePeers st h cfg).1.msgs = st.msgs := by
  cases cfg <;> rfl

theorem updatePeers_hdrs {κ : Type} [BEq κ] (st : St κ) (h : Nat) (cfg : Cfg κ) :
    (updatePeers st h cfg).1.hdrs = st.hdrs := by
  cases cfg <;> rfl

theorem msg_step {κ σ : Type} [BEq κ] (des : σ → Bool) (st : St κ) (o : Op κ σ) (h : Nat)
    (hm : h ∈ (apply des st o).1.msgs) : h ∈ st.msgs ∨ MsgStep des st o h := by
  cases o with
  | genesis h' cfg =>
    left
    simp only [apply, genesis] at hm
    split at hm
    · simpa [updatePeers_msgs] using hm
    · exact hm
  | hdr h' cfg bks sigs ver =>
    left
    simp only [apply, syncHeader] at hm
    split at hm
    · exact hm
    · split at hm
      · exact hm
      · simpa [updatePeers_msgs] using hm
  | msg h' bks sigs ver =>
    simp only [apply, syncMsg] at hm
    split at hm
    · exact Or.inl hm
    · split at hm
      · exact Or.inl hm
      · rename_i hv
        rcases List.mem_cons.mp hm with rfl | hm
        · exact Or.inr ⟨rfl, by cases hv' : verifyMsg des ver st h bks sigs <;> simp_all⟩
        · exact Or.inl hm
  | dep h' bks sigs ver =>
    simp only [apply, depositMsg] at hm
    split at hm
    · exact Or.inl hm
    · split at hm
      · exact Or.inl hm
      · rename_i hv
        rcases List.mem_cons.mp hm with rfl | hm
        · exact Or.inr ⟨rfl, by cases hv' : verifyMsg des ver st h bks sigs <;> simp_all⟩
        · exact Or.inl hm

/-- what one operation may add to the stored headers -/
def HdrStep {κ σ : Type} [BEq κ] (des : σ → Bool) (st : St κ) (o : Op κ σ) (h : Nat) : Prop :=
  match o with
  | .genesis h' _ => h = h' ∧ st.hdrs = []
  | .hdr h' _ bks sigs ver => h = h' ∧ verifyHeader des ver st h' bks sigs = .ok ()
  | _ => False

theorem hdr_step {κ σ : Type} [BEq κ] (des : σ → Bool) (st : St κ) (o : Op κ σ) (h : Nat)
    (hm : h ∈ (apply des st o).1.hdrs) : h ∈ st.hdrs ∨ HdrStep des st o h := by
  cases o with
  | genesis h' cfg =>
    simp only [apply, genesis] at hm
    split at hm
    · rename_i he
      rw [updatePeers_hdrs] at hm
      rcases List.mem_cons.mp hm with rfl | hm
      · exact Or.inr ⟨rfl, by simpa using he⟩
      · exact Or.inl hm
    · exact Or.inl hm
  | hdr h' cfg bks sigs ver =>
    simp only [apply, syncHeader] at hm
    split at hm
    · exact Or.inl hm
    · split at hm
      · exact Or.inl hm
      · rename_i hv
        rw [updatePeers_hdrs] at hm
        rcases List.mem_cons.mp hm with rfl | hm
        · exact Or.inr ⟨rfl, by cases hv' : verifyHeader des ver st h bks sigs <;> simp_all⟩
        · exact Or.inl hm
  | msg h' bks sigs ver =>
    left
    simp only [apply, syncMsg] at hm
    split at hm
    · exact hm
    · split at hm <;> exact hm
  | dep h' bks sigs ver =>
    left
    simp only [apply, depositMsg] at hm
    split at hm
    · exact hm
    · split at hm <;> exact hm

/-- what one operation may add to the recorded peer sets -/
def PeerStep {κ σ : Type} [BEq κ] (des : σ → Bool) (st : St κ) (o : Op κ σ) (e : Nat × List κ) : Prop :=
  match o with
  | .genesis h (.peers ps) => e = (h, dedupKeys ps) ∧ st.hdrs = []
  | .hdr h (.peers ps) bks sigs ver =>
    e = (h, dedupKeys ps) ∧ verifyHeader des ver st h bks sigs = .ok () ∧ st.hdrs.contains h = false
  | _ => False

theorem updatePeers_peers {κ : Type} [BEq κ] (st : St κ) (h : Nat) (cfg : Cfg κ) (e : Nat × List κ)
    (he : e ∈ (updatePeers st h cfg).1.peers) :
    e ∈ st.peers ∨ ∃ ps, cfg = .peers ps ∧ e = (h, dedupKeys ps) := by
  cases cfg with
  | none => exact Or.inl he
  | bad => exact Or.inl he
  | peers ps =>
    rcases List.mem_cons.mp he with rfl | he
    · exact Or.inr ⟨ps, rfl, rfl⟩
    · exact Or.inl he

theorem peer_step {κ σ : Type} [BEq κ] (des : σ → Bool) (st : St κ) (o : Op κ σ) (e : Nat × List κ)
    (hm : e ∈ (apply des st o).1.peers) : e ∈ st.peers ∨ PeerStep des st o e := by
  cases o with
  | genesis h' cfg =>
    simp only [apply, genesis] at hm
    split at hm
    · rename_i he
      rcases updatePeers_peers _ h' cfg e hm with h | ⟨ps, rfl, rfl⟩
      · exact Or.inl h
      · exact Or.inr ⟨rfl, by simpa using he⟩
    · exact Or.inl hm
  | hdr h' cfg bks sigs ver =>
    simp only [apply, syncHeader] at hm
    split at hm
    · exact Or.inl hm
    · rename_i hc
      split at hm
      · exact Or.inl hm
      · rename_i hv
        rcases updatePeers_peers _ h' cfg e hm with h | ⟨ps, rfl, rfl⟩
        · exact Or.inl h
        · refine Or.inr ⟨rfl, ?_, by simpa using hc⟩
          cases hv' : verifyHeader des ver st h' bks sigs <;> simp_all
  | msg h' bks sigs ver =>
    left
    simp only [apply, syncMsg] at hm
    split at hm
    · exact hm
    · split at hm <;> exact hm
  | dep h' bks sigs ver =>
    left
    simp only [apply, depositMsg] at hm
    split at hm
    · exact hm
    · split at hm <;> exact hm

end Poly.Proofs.LCOnt
