import Poly.Model.LCOnt
/-! Helper lemmas for the Ontology light-client model (C24, C31). Core only. -/
namespace Poly.Proofs.LCOnt
open Poly.Model.LCOnt

/-- keys at the positions that are not yet masked -/
def unmarked {κ : Type} : List κ → List Bool → List κ
  | k :: ks, b :: bs => if b then unmarked ks bs else k :: unmarked ks bs
  | _, _ => []

theorem unmarked_replicate {κ : Type} (keys : List κ) :
    unmarked keys (List.replicate keys.length false) = keys := by
  induction keys with
  | nil => rfl
  | cons k ks ih => simp [List.replicate_succ, unmarked, ih]

/-- A successful slot search consumes exactly one unmasked key, and that key verifies the signature. -/
theorem findSlot_some {κ σ : Type} (ver : κ → σ → Bool) (s : σ) :
    ∀ (keys : List κ) (mask mask' : List Bool), findSlot ver s keys mask = some mask' →
      ∃ k, ver k s = true ∧ (unmarked keys mask).Perm (k :: unmarked keys mask') := by
  intro keys
  induction keys with
  | nil => intro mask mask' h; simp [findSlot] at h
  | cons k ks ih =>
    intro mask mask' h
    cases mask with
    | nil => simp [findSlot] at h
    | cons b bs =>
      simp only [findSlot] at h
      split at h
      · rename_i hc
        simp at hc
        cases h
        refine ⟨k, hc.2, ?_⟩
        simp [unmarked, hc.1]
      · rename_i hc
        cases hf : findSlot ver s ks bs with
        | none => simp [hf] at h
        | some m'' =>
          simp [hf] at h
          subst h
          obtain ⟨k0, hk0, hp⟩ := ih bs m'' hf
          refine ⟨k0, hk0, ?_⟩
          cases b with
          | true => simpa [unmarked] using hp
          | false =>
            simp only [unmarked, Bool.false_eq_true, if_false]
            exact (List.Perm.cons k hp).trans (List.Perm.swap k0 k _)

/-- Loop invariant of `VerifyMultiSignature`: the processed signatures never outnumber the unmasked keys, and
when they are exactly as many, every unmasked key has verified one of them. -/
theorem multiLoop_true {κ σ : Type} (des : σ → Bool) (ver : κ → σ → Bool) (keys : List κ) :
    ∀ (ss : List σ) (mask : List Bool), multiLoop des ver keys ss mask = true →
      ss.length ≤ (unmarked keys mask).length ∧
      (ss.length = (unmarked keys mask).length →
        ∀ k ∈ unmarked keys mask, ∃ s ∈ ss, des s = true ∧ ver k s = true) := by
  intro ss
  induction ss with
  | nil =>
    intro mask _
    refine ⟨Nat.zero_le _, ?_⟩
    intro hl k hk
    have : (unmarked keys mask).length = 0 := by simpa using hl.symm
    have : unmarked keys mask = [] := List.eq_nil_of_length_eq_zero this
    simp [this] at hk
  | cons s rest ih =>
    intro mask h
    simp only [multiLoop, Bool.and_eq_true] at h
    obtain ⟨hdes, hm⟩ := h
    cases hf : findSlot ver s keys mask with
    | none => simp [hf] at hm
    | some mask' =>
      simp only [hf] at hm
      obtain ⟨k0, hk0, hp⟩ := findSlot_some ver s keys mask mask' hf
      obtain ⟨hle, hall⟩ := ih mask' hm
      have hlen : (unmarked keys mask).length = (unmarked keys mask').length + 1 := by
        simpa using hp.length_eq
      refine ⟨by simp only [List.length_cons]; omega, ?_⟩
      intro heq k hk
      have hk' : k ∈ k0 :: unmarked keys mask' := hp.mem_iff.mp hk
      rcases List.mem_cons.mp hk' with rfl | hk''
      · exact ⟨s, List.mem_cons_self, hdes, hk0⟩
      · have : rest.length = (unmarked keys mask').length := by
          simp only [List.length_cons] at heq; omega
        obtain ⟨s', hs', hd', hv'⟩ := hall this k hk''
        exact ⟨s', List.mem_cons_of_mem _ hs', hd', hv'⟩

/-- `VerifyMultiSignature(data, keys, len(keys), sigs)` accepts only if every listed key position verified one
of the submitted signatures. -/
theorem verifyMulti_all {κ σ : Type} (des : σ → Bool) (ver : κ → σ → Bool) (keys : List κ) (sigs : List σ)
    (h : verifyMulti des ver keys keys.length sigs = true) :
    ∀ k ∈ keys, ∃ s ∈ sigs, des s = true ∧ ver k s = true := by
  simp only [verifyMulti, Bool.and_eq_true, decide_eq_true_eq] at h
  obtain ⟨hle, hm⟩ := h
  have := multiLoop_true des ver keys _ _ hm
  rw [unmarked_replicate] at this
  have hl : (sigs.take keys.length).length = keys.length := by simp [List.length_take]; omega
  intro k hk
  obtain ⟨s, hs, hd, hv⟩ := this.2 hl k hk
  exact ⟨s, List.mem_of_mem_take hs, hd, hv⟩

/-- The membership / `usedPubKey` loop accepts only distinct tracked keys. -/
theorem checkSigners_true {κ : Type} [BEq κ] [LawfulBEq κ] (tracked : List κ) :
    ∀ (bks used : List κ), checkSigners tracked bks used = true →
      (∀ b ∈ bks, b ∈ tracked) ∧ bks.Nodup ∧ (∀ b ∈ bks, b ∉ used) := by
  intro bks
  induction bks with
  | nil => intro used _; simp
  | cons b bs ih =>
    intro used h
    simp only [checkSigners, Bool.and_eq_true, Bool.not_eq_true', List.contains_eq_mem,
      decide_eq_true_eq, decide_eq_false_iff_not] at h
    obtain ⟨⟨hb, hu⟩, hr⟩ := h
    obtain ⟨h1, h2, h3⟩ := ih (b :: used) hr
    refine ⟨?_, ?_, ?_⟩
    · intro x hx
      rcases List.mem_cons.mp hx with rfl | hx
      · exact hb
      · exact h1 x hx
    · refine List.nodup_cons.mpr ⟨?_, h2⟩
      intro hmem
      exact h3 b hmem List.mem_cons_self
    · intro x hx
      rcases List.mem_cons.mp hx with rfl | hx
      · exact hu
      · intro hxu
        exact h3 x hx (List.mem_cons_of_mem _ hxu)

/-- What an accepting run of `verifyHeader` / `VerifyCrossChainMsg` establishes (any threshold test `thr`). -/
theorem verifySigned_ok {κ σ : Type} [BEq κ] [LawfulBEq κ] (thr : Int → Int → Bool) (des : σ → Bool)
    (ver : κ → σ → Bool) (st : St κ) (h : Nat) (bks : List κ) (sigs : List σ)
    (hok : verifySigned thr des ver st h bks sigs = .ok ()) :
    ∃ kh tracked, findKeyHeight st.keyHeights h = some kh ∧ peersAt st.peers kh = some tracked ∧
      thr bks.length tracked.length = false ∧ bks.Nodup ∧ (∀ b ∈ bks, b ∈ tracked) ∧
      (∀ b ∈ bks, ∃ s ∈ sigs, des s = true ∧ ver b s = true) := by
  unfold verifySigned at hok
  cases hk : findKeyHeight st.keyHeights h with
  | none => simp [hk] at hok
  | some kh =>
    simp only [hk] at hok
    cases hp : peersAt st.peers kh with
    | none => simp [hp] at hok
    | some tracked =>
      simp only [hp] at hok
      cases ht : thr bks.length tracked.length with
      | true => simp [ht] at hok
      | false =>
        cases hc : checkSigners tracked bks [] with
        | false => simp [ht, hc] at hok
        | true =>
          cases hv : verifyMulti des ver bks bks.length sigs with
          | false => simp [ht, hc, hv] at hok
          | true =>
            obtain ⟨h1, h2, _⟩ := checkSigners_true tracked bks [] hc
            exact ⟨kh, tracked, by first | exact hk | rfl, by first | exact hp | rfl, ht, h2, h1, verifyMulti_all des ver bks sigs hv⟩

end Poly.Proofs.LCOnt
