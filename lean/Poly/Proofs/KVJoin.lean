import Poly.Proofs.KVLayers
/- JoinIter = live merge of two sorted streams (newest wins, empty values dropped). -/
namespace Poly.Model.KV

/-! ### The specification -/

/-- Merge of two key-sorted lists; on equal keys the first (newer) list wins. -/
def merge : Entries → Entries → Entries
  | [], b => b
  | a :: ra, [] => a :: ra
  | a :: ra, b :: rb =>
    match cmpB a.1 b.1 with
    | .lt => a :: merge ra (b :: rb)
    | .eq => a :: merge ra rb
    | .gt => b :: merge (a :: ra) rb

/-- Entries with a non-empty value. -/
def live (l : Entries) : Entries := l.filter (fun e => !e.2.isEmpty)

/-- What a join of a newer stream `a` and an older stream `b` must yield. -/
def liveMerge (a b : Entries) : Entries := live (merge a b)

theorem merge_nil_right (a : Entries) : merge a [] = a := by cases a <;> simp [merge]

theorem merge_cons_lt {e : Key × Val} {la lb : Entries} (h : ∀ x ∈ lb, ltB e.1 x.1 = true) :
    merge (e :: la) lb = e :: merge la lb := by
  cases lb with
  | nil => simp [merge, merge_nil_right]
  | cons b rb =>
    have := ltB_iff.mp (h b (by simp))
    simp [merge, this]

theorem merge_cons_gt {e : Key × Val} {la lb : Entries} (h : ∀ x ∈ la, ltB e.1 x.1 = true) :
    merge la (e :: lb) = e :: merge la lb := by
  cases la with
  | nil => simp [merge]
  | cons a ra =>
    have := cmpB_lt_iff_gt.mp (ltB_iff.mp (h a (by simp)))
    simp [merge, this]

theorem merge_cons_eq (e : Key × Val) (vb : Val) (la lb : Entries) :
    merge (e :: la) ((e.1, vb) :: lb) = e :: merge la lb := by
  simp [merge, cmpB_refl]

/-! ### Cursors -/

def headKey (l : Entries) : Key := match l with | [] => [] | e :: _ => e.1
def headVal (l : Entries) : Val := match l with | [] => [] | e :: _ => e.2

/-- A list as a StoreIterator: the state is the list of remaining entries, current first. -/
def listOps : Ops Entries :=
  { first := fun l => (l, !l.isEmpty), next := fun l => (l.tail, !l.tail.isEmpty), key := headKey, value := headVal }

/-- `R s l`: iterator state `s` behaves as a cursor whose remaining entries (current first) are `l`:
`Key()/Value()` show the head (nil when exhausted), `Next()` moves to the tail and reports whether it is
non-empty (an exhausted cursor stays exhausted). -/
structure IsCursor {σ : Type} (O : Ops σ) (R : σ → Entries → Prop) : Prop where
  key : ∀ s l, R s l → O.key s = headKey l
  value : ∀ s l, R s l → O.value s = headVal l
  next : ∀ s l, R s l → R (O.next s).1 l.tail ∧ (O.next s).2 = !l.tail.isEmpty
  sorted : ∀ s l, R s l → Sorted l

/-- `First()` on `s₀` positions the cursor on `all`. -/
def Starts {σ : Type} (O : Ops σ) (R : σ → Entries → Prop) (s₀ : σ) (all : Entries) : Prop :=
  R (O.first s₀).1 all ∧ (O.first s₀).2 = !all.isEmpty

theorem listOps_isCursor : IsCursor listOps (fun s l => s = l ∧ Sorted l) where
  key := by rintro s l ⟨rfl, _⟩; rfl
  value := by rintro s l ⟨rfl, _⟩; rfl
  next := by
    rintro s l ⟨rfl, hs⟩
    exact ⟨⟨rfl, Sorted.sublist (List.tail_sublist _) hs⟩, rfl⟩
  sorted := by rintro s l ⟨_, hs⟩; exact hs

/-- Collecting from a cursor yields its remaining entries. -/
theorem collectFrom_cursor {σ : Type} {O : Ops σ} {R : σ → Entries → Prop} (hc : IsCursor O R)
    (n : Nat) (s : σ) (e : Key × Val) (l : Entries) (h : R s (e :: l)) (hn : l.length < n) :
    collectFrom O n s = e :: l := by
  induction n generalizing s e l with
  | zero => omega
  | succ n ih =>
    simp only [collectFrom]
    have hk := hc.key s _ h
    have hv := hc.value s _ h
    have hnx := hc.next s _ h
    simp only [List.tail_cons] at hnx
    simp only [headKey, headVal] at hk hv
    rw [hk, hv, hnx.2]
    cases l with
    | nil => simp
    | cons e' l' =>
      simp only [List.isEmpty_cons, Bool.not_false, if_true]
      rw [ih _ e' l' hnx.1 (by simp at hn; omega)]

theorem collect_cursor {σ : Type} {O : Ops σ} {R : σ → Entries → Prop} (hc : IsCursor O R)
    (n : Nat) (s₀ : σ) (all : Entries) (h : Starts O R s₀ all) (hn : all.length ≤ n) :
    collect O n s₀ = all := by
  unfold collect
  simp only
  rw [h.2]
  cases all with
  | nil => simp
  | cons e l =>
    simp only [List.isEmpty_cons, Bool.not_false, if_true]
    cases n with
    | zero => simp at hn
    | succ n => exact collectFrom_cursor hc _ _ e l h.1 (by simp at hn; omega)

/-! ### The memdb / LevelDB iterator over fixed sorted contents is a cursor -/

theorem iterOps_isCursor {m : Entries} (hs : Sorted m) : IsCursor (iterOps m) (FwdAt m) where
  key := by
    intro it l h
    have := h.cur
    cases l <;> simp [iterOps, Iter.key, this, headKey]
  value := by
    intro it l h
    have := h.cur
    cases l <;> simp [iterOps, Iter.value, this, headVal]
  next := by
    intro it l h
    cases l with
    | nil =>
      have := next_fwd_nil h
      simp only [iterOps, this, List.tail_nil, List.isEmpty_nil, Bool.not_true, and_true]
      exact h
    | cons e l' => exact next_fwd hs h
  sorted := by
    intro it l h
    obtain ⟨p, q, hm, hl⟩ := h.split
    rw [hl]
    exact Sorted.sublist ((List.takeWhile_sublist _).trans (hm ▸ List.sublist_append_right p q)) hs

theorem iterOps_starts (s : Option Range) {m : Entries} (hs : Sorted m) :
    Starts (iterOps m) (FwdAt m) (Iter.new s) (m.filter (fun e => inSlice s e.1)) := first_fwd s hs

end Poly.Model.KV
