import Poly.Proofs.KVLayers
/- JoinIter = live merge of two sorted streams (newest wins, empty values dropped). -/
namespace Poly.Model.KV

/-! ### The specification -/

/-- Merge of two key-sorted lists; on equal keys the first (newer) list wins. -/
def merge : Entries → Entries → Entries
  | [], b => b
  | a :: ra, [] => a :: ra
  | a :: ra, b :: rb =>
    match cmpB a.1 b.1 with
    | .lt => a :: merge ra (b :: rb)
    | .eq => a :: merge ra rb
    | .gt => b :: merge (a :: ra) rb

/-- Entries with a non-empty value. -/
def live (l : Entries) : Entries := l.filter (fun e => !e.2.isEmpty)

/-- What a join of a newer stream `a` and an older stream `b` must yield. -/
def liveMerge (a b : Entries) : Entries := live (merge a b)

theorem merge_nil_right (a : Entries) : merge a [] = a := by cases a <;> simp [merge]

theorem merge_cons_lt {e : Key × Val} {la lb : Entries} (h : ∀ x ∈ lb, ltB e.1 x.1 = true) :
    merge (e :: la) lb = e :: merge la lb := by
  cases lb with
  | nil => simp [merge_nil_right]
  | cons b rb =>
    have := ltB_iff.mp (h b (by simp))
    simp [merge, this]

theorem merge_cons_gt {e : Key × Val} {la lb : Entries} (h : ∀ x ∈ la, ltB e.1 x.1 = true) :
    merge la (e :: lb) = e :: merge la lb := by
  cases la with
  | nil => simp [merge]
  | cons a ra =>
    have := cmpB_lt_iff_gt.mp (ltB_iff.mp (h a (by simp)))
    simp [merge, this]

theorem merge_cons_eq (e : Key × Val) (vb : Val) (la lb : Entries) :
    merge (e :: la) ((e.1, vb) :: lb) = e :: merge la lb := by
  simp [merge, cmpB_refl]

/-! ### Cursors -/

def headKey (l : Entries) : Key := match l with | [] => [] | e :: _ => e.1
def headVal (l : Entries) : Val := match l with | [] => [] | e :: _ => e.2

/-- A list as a StoreIterator: the state is the list of remaining entries, current first. -/
def listOps : Ops Entries :=
  { first := fun l => (l, !l.isEmpty), next := fun l => (l.tail, !l.tail.isEmpty), key := headKey, value := headVal }

/-- `R s l`: iterator state `s` behaves as a cursor whose remaining entries (current first) are `l`:
`Key()/Value()` show the head (nil when exhausted), `Next()` moves to the tail and reports whether it is
non-empty (an exhausted cursor stays exhausted). -/
structure IsCursor {σ : Type} (O : Ops σ) (R : σ → Entries → Prop) : Prop where
  key : ∀ s l, R s l → O.key s = headKey l
  value : ∀ s l, R s l → O.value s = headVal l
  next : ∀ s l, R s l → R (O.next s).1 l.tail ∧ (O.next s).2 = !l.tail.isEmpty
  sorted : ∀ s l, R s l → Sorted l

/-- `First()` on `s₀` positions the cursor on `all`. -/
def Starts {σ : Type} (O : Ops σ) (R : σ → Entries → Prop) (s₀ : σ) (all : Entries) : Prop :=
  R (O.first s₀).1 all ∧ (O.first s₀).2 = !all.isEmpty

theorem listOps_isCursor : IsCursor listOps (fun s l => s = l ∧ Sorted l) where
  key := by rintro s l ⟨rfl, _⟩; rfl
  value := by rintro s l ⟨rfl, _⟩; rfl
  next := by
    rintro s l ⟨rfl, hs⟩
    exact ⟨⟨rfl, Sorted.sublist (List.tail_sublist _) hs⟩, rfl⟩
  sorted := by rintro s l ⟨_, hs⟩; exact hs

/-- Collecting from a cursor yields its remaining entries. -/
theorem collectFrom_cursor {σ : Type} {O : Ops σ} {R : σ → Entries → Prop} (hc : IsCursor O R)
    (n : Nat) (s : σ) (e : Key × Val) (l : Entries) (h : R s (e :: l)) (hn : l.length < n) :
    collectFrom O n s = e :: l := by
  induction n generalizing s e l with
  | zero => omega
  | succ n ih =>
    simp only [collectFrom]
    have hk := hc.key s _ h
    have hv := hc.value s _ h
    have hnx := hc.next s _ h
    simp only [List.tail_cons] at hnx
    simp only [headKey, headVal] at hk hv
    rw [hk, hv, hnx.2]
    cases l with
    | nil => simp
    | cons e' l' =>
      simp only [List.isEmpty_cons, Bool.not_false, if_true]
      rw [ih _ e' l' hnx.1 (by simp at hn; omega)]

theorem collect_cursor {σ : Type} {O : Ops σ} {R : σ → Entries → Prop} (hc : IsCursor O R)
    (n : Nat) (s₀ : σ) (all : Entries) (h : Starts O R s₀ all) (hn : all.length ≤ n) :
    collect O n s₀ = all := by
  unfold collect
  simp only
  rw [h.2]
  cases all with
  | nil => simp
  | cons e l =>
    simp only [List.isEmpty_cons, Bool.not_false, if_true]
    cases n with
    | zero => simp at hn
    | succ n => exact collectFrom_cursor hc _ _ e l h.1 (by simp at hn; omega)

/-! ### The memdb / LevelDB iterator over fixed sorted contents is a cursor -/

theorem iterOps_isCursor {m : Entries} (hs : Sorted m) : IsCursor (iterOps m) (FwdAt m) where
  key := by
    intro it l h
    have := h.cur
    cases l <;> simp [iterOps, Iter.key, this, headKey]
  value := by
    intro it l h
    have := h.cur
    cases l <;> simp [iterOps, Iter.value, this, headVal]
  next := by
    intro it l h
    cases l with
    | nil =>
      have := next_fwd_nil h
      simp only [iterOps, this, List.tail_nil, List.isEmpty_nil, Bool.not_true, and_true]
      exact h
    | cons e l' => exact next_fwd hs h
  sorted := by
    intro it l h
    obtain ⟨p, q, hm, hl⟩ := h.split
    rw [hl]
    exact Sorted.sublist ((List.takeWhile_sublist _).trans (hm ▸ List.sublist_append_right p q)) hs

theorem iterOps_starts (s : Option Range) {m : Entries} (hs : Sorted m) :
    Starts (iterOps m) (FwdAt m) (Iter.new s) (m.filter (fun e => inSlice s e.1)) := first_fwd s hs

/-! ### The join over list cursors: invariants of the algorithm's control state -/

abbrev LJ := Join Entries Entries

def Cur (j : LJ) : Prop :=
  match j.origin with
  | .mem => ∃ e la', j.mem = e :: la' ∧ j.key = e.1 ∧ j.value = e.2 ∧ ∀ x ∈ j.back, ltB e.1 x.1 = true
  | .back => ∃ e lb', j.back = e :: lb' ∧ j.key = e.1 ∧ j.value = e.2 ∧ ∀ x ∈ j.mem, ltB e.1 x.1 = true
  | .both => ∃ e la' vb lb', j.mem = e :: la' ∧ j.back = (e.1, vb) :: lb' ∧ j.key = e.1 ∧ j.value = e.2

def GhostM (j : LJ) : Prop :=
  j.origin = .mem ∧ j.mem = [] ∧ j.nextMemEnd = false ∧ j.key = [] ∧ j.value = []
def GhostB (j : LJ) : Prop :=
  j.origin = .back ∧ j.back = [] ∧ j.nextBackEnd = false ∧ j.key = [] ∧ j.value = []

/-- Flags are sound (a set flag means that side is exhausted) and both sides are sorted. -/
structure WFJ (j : LJ) : Prop where
  fm : j.nextMemEnd = true → j.mem = []
  fb : j.nextBackEnd = true → j.back = []
  sm : Sorted j.mem
  sb : Sorted j.back

def DoneSt (j : LJ) : Prop :=
  j.mem = [] ∧ j.back = [] ∧ j.key = [] ∧ j.value = [] ∧
  ((j.nextMemEnd = true ∧ j.nextBackEnd = true) ∨ (j.nextMemEnd = false ∧ j.nextBackEnd = false ∧ j.origin = .mem))

def mu (j : LJ) : Nat :=
  j.mem.length + j.back.length + (if j.nextMemEnd then 0 else 1) + (if j.nextBackEnd then 0 else 1)

def out (j : LJ) : Entries := merge j.mem j.back

def Mid (j : LJ) : Prop := Cur j ∨ GhostM j ∨ GhostB j

theorem key_ne_nil_of_gt {a b : Key} (h : ltB a b = true) : b ≠ [] := by
  rintro rfl; rw [nil_not_gt] at h; cases h

theorem cmpB_nil_left {b : Key} (h : b ≠ []) : cmpB [] b = .lt := by cases b <;> simp_all [cmpB]
theorem cmpB_nil_right {a : Key} (h : a ≠ []) : cmpB a [] = .gt := by cases a <;> simp_all [cmpB]

/-- The decision half on list cursors. -/
theorem choose_spec (j : LJ) (hw : WFJ j)
    (hcmp : j.nextMemEnd = false → j.nextBackEnd = false →
      (j.mem ≠ [] → headKey j.mem ≠ []) ∧ (j.back ≠ [] → headKey j.back ≠ []) ∧ ¬ (j.mem = [] ∧ j.back = [])) :
    ((Join.choose listOps listOps j).2 = false →
      DoneSt (Join.choose listOps listOps j).1 ∧ j.mem = [] ∧ j.back = []) ∧
    ((Join.choose listOps listOps j).2 = true →
      WFJ (Join.choose listOps listOps j).1 ∧ Mid (Join.choose listOps listOps j).1 ∧
      (Join.choose listOps listOps j).1.mem = j.mem ∧ (Join.choose listOps listOps j).1.back = j.back ∧
      (Join.choose listOps listOps j).1.nextMemEnd = j.nextMemEnd ∧
      (Join.choose listOps listOps j).1.nextBackEnd = j.nextBackEnd) := by
  obtain ⟨mem, back, key, value, origin, nme, nbe⟩ := j
  have ⟨fm, fb, sm, sb⟩ := hw
  simp only at fm fb sm sb hcmp
  cases nbe with
  | true =>
    have hb0 := fb rfl; subst hb0
    cases nme with
    | true =>
      have hm0 := fm rfl; subst hm0
      simp [Join.choose, DoneSt]
    | false =>
      simp only [Join.choose, listOps, if_true, Bool.false_eq_true, if_false]
      refine ⟨by simp, fun _ => ⟨⟨by simp, by simp, sm, sb⟩, ?_, by simp⟩⟩
      cases mem with
      | nil => exact .inr (.inl ⟨rfl, rfl, rfl, rfl, rfl⟩)
      | cons e la' => exact .inl ⟨e, la', rfl, rfl, rfl, by simp⟩
  | false =>
    cases nme with
    | true =>
      have hm0 := fm rfl; subst hm0
      simp only [Join.choose, listOps, Bool.false_eq_true, if_false, if_true]
      refine ⟨by simp, fun _ => ⟨⟨by simp, by simp, sm, sb⟩, ?_, by simp⟩⟩
      cases back with
      | nil => exact .inr (.inr ⟨rfl, rfl, rfl, rfl, rfl⟩)
      | cons e lb' => exact .inl ⟨e, lb', rfl, rfl, rfl, by simp⟩
    | false =>
      obtain ⟨hm, hb, hne⟩ := hcmp rfl rfl
      simp only [Join.choose, listOps, Bool.false_eq_true, if_false]
      cases mem with
      | nil =>
        cases back with
        | nil => exact absurd ⟨rfl, rfl⟩ hne
        | cons b lb' =>
          have hb' : b.1 ≠ [] := by simpa [headKey] using hb
          simp only [headKey, headVal, cmpB_nil_left hb']
          refine ⟨by simp, fun _ => ⟨⟨by simp, by simp, sm, sb⟩, ?_, by simp⟩⟩
          exact .inr (.inl ⟨rfl, rfl, rfl, rfl, rfl⟩)
      | cons a la' =>
        cases back with
        | nil =>
          have ha' : a.1 ≠ [] := by simpa [headKey] using hm
          simp only [headKey, headVal, cmpB_nil_right ha']
          refine ⟨by simp, fun _ => ⟨⟨by simp, by simp, sm, sb⟩, ?_, by simp⟩⟩
          exact .inr (.inr ⟨rfl, rfl, rfl, rfl, rfl⟩)
        | cons b lb' =>
          simp only [headKey, headVal]
          cases hc : cmpB a.1 b.1 with
          | lt =>
            refine ⟨by simp, fun _ => ⟨⟨by simp, by simp, sm, sb⟩, ?_, by simp⟩⟩
            refine .inl ⟨a, la', rfl, rfl, rfl, ?_⟩
            intro x hx
            simp only [List.mem_cons] at hx
            rcases hx with rfl | hx
            · exact ltB_iff.mpr hc
            · exact ltB_trans (ltB_iff.mpr hc) ((sorted_cons.mp sb).1 x hx)
          | eq =>
            refine ⟨by simp, fun _ => ⟨⟨by simp, by simp, sm, sb⟩, ?_, by simp⟩⟩
            have hk := cmpB_eq_iff.mp hc
            refine .inl ⟨a, la', b.2, lb', rfl, ?_, rfl, rfl⟩
            show b :: lb' = (a.1, b.2) :: lb'
            rw [hk]
          | gt =>
            refine ⟨by simp, fun _ => ⟨⟨by simp, by simp, sm, sb⟩, ?_, by simp⟩⟩
            refine .inl ⟨b, lb', rfl, rfl, rfl, ?_⟩
            intro x hx
            have hlt := ltB_iff.mpr (cmpB_gt_iff_lt.mp hc)
            simp only [List.mem_cons] at hx
            rcases hx with rfl | hx
            · exact hlt
            · exact ltB_trans hlt ((sorted_cons.mp sm).1 x hx)


theorem headKey_ne_nil_of_lt {e : Key × Val} {l : Entries} (h : ∀ x ∈ l, ltB e.1 x.1 = true) (hl : l ≠ []) :
    headKey l ≠ [] := by
  cases l with
  | nil => exact absurd rfl hl
  | cons a r => exact key_ne_nil_of_gt (h a (by simp))

theorem mu_congr {j j' : LJ} (h1 : j'.mem = j.mem) (h2 : j'.back = j.back) (h3 : j'.nextMemEnd = j.nextMemEnd)
    (h4 : j'.nextBackEnd = j.nextBackEnd) : mu j' = mu j := by
  simp [mu, h1, h2, h3, h4]

/-- What the advancing half establishes, from a proper current entry. -/
theorem advance_cur (j : LJ) (hw : WFJ j) (hc : Cur j) :
    let j' := Join.advance listOps listOps j
    WFJ j' ∧ mu j' < mu j ∧ out j = (j.key, j.value) :: out j' ∧
    (j'.nextMemEnd = false → j'.nextBackEnd = false →
      (j'.mem ≠ [] → headKey j'.mem ≠ []) ∧ (j'.back ≠ [] → headKey j'.back ≠ []) ∧ ¬ (j'.mem = [] ∧ j'.back = [])) := by
  obtain ⟨mem, back, key, value, origin, nme, nbe⟩ := j
  have ⟨fm, fb, sm, sb⟩ := hw
  simp only at fm fb sm sb
  cases origin with
  | mem =>
    obtain ⟨e, la', h1, h2, h3, h4⟩ := hc
    simp only at h1 h2 h3 h4
    subst h1
    have hn : nme = false := by cases nme <;> simp_all
    subst hn
    have hs := sorted_cons.mp sm
    simp only [Join.advance, listOps, true_or, and_self, if_true, List.tail_cons, Bool.not_not, reduceCtorEq, or_self,
      false_and, if_false]
    refine ⟨⟨by simp, fb, hs.2, sb⟩, ?_, ?_, ?_⟩
    · simp only [mu, List.length_cons]; split <;> simp <;> omega
    · simp only [out]; rw [merge_cons_lt h4, h2, h3]
    · intro hm' _
      simp only [List.isEmpty_eq_false_iff] at hm'
      exact ⟨fun _ => headKey_ne_nil_of_lt hs.1 hm', fun hb => headKey_ne_nil_of_lt h4 hb, fun h => hm' h.1⟩
  | back =>
    obtain ⟨e, lb', h1, h2, h3, h4⟩ := hc
    simp only at h1 h2 h3 h4
    subst h1
    have hn : nbe = false := by cases nbe <;> simp_all
    subst hn
    have hs := sorted_cons.mp sb
    simp only [Join.advance, listOps, reduceCtorEq, or_self, false_and, if_false, true_or, and_self, if_true,
      List.tail_cons, Bool.not_not]
    refine ⟨⟨fm, by simp, sm, hs.2⟩, ?_, ?_, ?_⟩
    · simp only [mu, List.length_cons]; split <;> split <;> simp <;> omega
    · simp only [out]; rw [merge_cons_gt h4, h2, h3]
    · intro _ hb'
      simp only [List.isEmpty_eq_false_iff] at hb'
      exact ⟨fun hm => headKey_ne_nil_of_lt h4 hm, fun _ => headKey_ne_nil_of_lt hs.1 hb', fun h => hb' h.2⟩
  | both =>
    obtain ⟨e, la', vb, lb', h1, h2, h3, h4⟩ := hc
    simp only at h1 h2 h3 h4
    subst h1; subst h2
    have hn : nme = false := by cases nme <;> simp_all
    have hn2 : nbe = false := by cases nbe <;> simp_all
    subst hn; subst hn2
    have hs := sorted_cons.mp sm
    have hs2 := sorted_cons.mp sb
    simp only [Join.advance, listOps, or_true, and_self, if_true, List.tail_cons, Bool.not_not]
    refine ⟨⟨by simp, by simp, hs.2, hs2.2⟩, ?_, ?_, ?_⟩
    · simp only [mu, List.length_cons]; split <;> split <;> simp <;> omega
    · simp only [out]; rw [merge_cons_eq, h3, h4]
    · intro hm' hb'
      simp only [List.isEmpty_eq_false_iff] at hm' hb'
      exact ⟨fun _ => headKey_ne_nil_of_lt hs.1 hm', fun _ => headKey_ne_nil_of_lt (e := (e.1, vb)) hs2.1 hb',
        fun h => hm' h.1⟩

/-- From a ghost entry (nil key of an exhausted side whose flag was never set) the advancing half only sets
the missing flag. -/
theorem advance_ghost (j : LJ) (hw : WFJ j) (hg : GhostM j ∨ GhostB j) :
    let j' := Join.advance listOps listOps j
    WFJ j' ∧ mu j' < mu j ∧ out j' = out j ∧ j.value = [] ∧ (j'.nextMemEnd = true ∨ j'.nextBackEnd = true) := by
  obtain ⟨mem, back, key, value, origin, nme, nbe⟩ := j
  have ⟨fm, fb, sm, sb⟩ := hw
  simp only at fm fb sm sb
  rcases hg with ⟨h1, h2, h3, h4, h5⟩ | ⟨h1, h2, h3, h4, h5⟩
  · simp only at h1 h2 h3 h4 h5
    subst h1; subst h2; subst h3; subst h5
    intro j'
    have e : j' = ({ mem := [], back := back, key := key, value := [], origin := Origin.mem, nextMemEnd := true, nextBackEnd := nbe } : LJ) := by simp [j', Join.advance, listOps]
    rw [e]
    refine ⟨⟨fun _ => rfl, fb, sm, sb⟩, ?_, rfl, rfl, .inl rfl⟩
    simp [mu]
  · simp only at h1 h2 h3 h4 h5
    subst h1; subst h2; subst h3; subst h5
    intro j'
    have e : j' = ({ mem := mem, back := [], key := key, value := [], origin := Origin.back, nextMemEnd := nme, nextBackEnd := true } : LJ) := by simp [j', Join.advance, listOps]
    rw [e]
    refine ⟨⟨fm, fun _ => rfl, sm, sb⟩, ?_, rfl, rfl, .inr rfl⟩
    simp [mu]


theorem cur_pair (j : LJ) : (j.key, j.value) = (j.key, j.value) := rfl

theorem next0_cur (j : LJ) (hw : WFJ j) (hc : Cur j) :
    ((Join.next0 listOps listOps j).2 = false →
      DoneSt (Join.next0 listOps listOps j).1 ∧ out j = [(j.key, j.value)]) ∧
    ((Join.next0 listOps listOps j).2 = true →
      WFJ (Join.next0 listOps listOps j).1 ∧ Mid (Join.next0 listOps listOps j).1 ∧
      mu (Join.next0 listOps listOps j).1 < mu j ∧ out j = (j.key, j.value) :: out (Join.next0 listOps listOps j).1) := by
  obtain ⟨h1, h2, h3, h4⟩ := advance_cur j hw hc
  have hch := choose_spec (Join.advance listOps listOps j) h1 h4
  unfold Join.next0
  refine ⟨fun hf => ?_, fun ht => ?_⟩
  · obtain ⟨d, e1, e2⟩ := hch.1 hf
    refine ⟨d, ?_⟩
    rw [h3]; simp [out, e1, e2, merge]
  · obtain ⟨w, m, e1, e2, e3, e4⟩ := hch.2 ht
    refine ⟨w, m, ?_, ?_⟩
    · rw [mu_congr e1 e2 e3 e4]; exact h2
    · rw [h3]; simp [out, e1, e2]

theorem next0_ghost (j : LJ) (hw : WFJ j) (hg : GhostM j ∨ GhostB j) :
    j.value = [] ∧
    ((Join.next0 listOps listOps j).2 = false → DoneSt (Join.next0 listOps listOps j).1 ∧ out j = []) ∧
    ((Join.next0 listOps listOps j).2 = true →
      WFJ (Join.next0 listOps listOps j).1 ∧ Mid (Join.next0 listOps listOps j).1 ∧
      mu (Join.next0 listOps listOps j).1 < mu j ∧ out j = out (Join.next0 listOps listOps j).1) := by
  obtain ⟨h1, h2, h3, h4, h5⟩ := advance_ghost j hw hg
  have hch := choose_spec (Join.advance listOps listOps j) h1 (by
    intro a b; rcases h5 with h | h
    · rw [h] at a; cases a
    · rw [h] at b; cases b)
  unfold Join.next0
  refine ⟨h4, fun hf => ?_, fun ht => ?_⟩
  · obtain ⟨d, e1, e2⟩ := hch.1 hf
    refine ⟨d, ?_⟩
    rw [← h3]; simp [out, e1, e2, merge]
  · obtain ⟨w, m, e1, e2, e3, e4⟩ := hch.2 ht
    refine ⟨w, m, ?_, ?_⟩
    · rw [mu_congr e1 e2 e3 e4]; exact h2
    · rw [← h3]; simp [out, e1, e2]

theorem mid_mu_pos (j : LJ) (hm : Mid j) : 1 ≤ mu j := by
  unfold mu
  rcases hm with hc | hg | hg
  · unfold Cur at hc
    split at hc
    · obtain ⟨e, la', h, _⟩ := hc; simp [h]; omega
    · obtain ⟨e, la', h, _⟩ := hc; simp [h]; omega
    · obtain ⟨e, la', _, _, h, _⟩ := hc; simp [h]; omega
  · simp [hg.2.2.1]; omega
  · simp [hg.2.2.1]

theorem cur_out_head (j : LJ) (hc : Cur j) : ∃ t, out j = (j.key, j.value) :: t := by
  unfold Cur at hc
  split at hc
  · obtain ⟨e, la', h1, h2, h3, h4⟩ := hc
    exact ⟨merge la' j.back, by rw [out, h1, merge_cons_lt h4, h2, h3]⟩
  · obtain ⟨e, lb', h1, h2, h3, h4⟩ := hc
    exact ⟨merge j.mem lb', by rw [out, h1, merge_cons_gt h4, h2, h3]⟩
  · obtain ⟨e, la', vb, lb', h1, h2, h3, h4⟩ := hc
    exact ⟨merge la' lb', by rw [out, h1, h2, merge_cons_eq, h3, h4]⟩

theorem ghost_value (j : LJ) (hg : GhostM j ∨ GhostB j) : j.value = [] := by
  rcases hg with h | h <;> exact h.2.2.2.2

theorem live_cons_empty (k : Key) (l : Entries) : live ((k, []) :: l) = live l := by simp [live]
theorem live_cons_live (k : Key) (v : Val) (l : Entries) (h : v ≠ []) : live ((k, v) :: l) = (k, v) :: live l := by
  cases v with
  | nil => exact absurd rfl h
  | cons b r => simp [live]

/-- The skip-empty-values loop: with fuel ≥ μ it ends on the first entry with a non-empty value, or at the end. -/
theorem skip_spec (n : Nat) (j : LJ) (hw : WFJ j) (hm : Mid j) (hn : mu j ≤ n) :
    ((Join.skip listOps listOps n j).2 = true →
      WFJ (Join.skip listOps listOps n j).1 ∧ Cur (Join.skip listOps listOps n j).1 ∧
      (Join.skip listOps listOps n j).1.value ≠ [] ∧
      live (out j) = live (out (Join.skip listOps listOps n j).1) ∧ mu (Join.skip listOps listOps n j).1 ≤ mu j) ∧
    ((Join.skip listOps listOps n j).2 = false →
      DoneSt (Join.skip listOps listOps n j).1 ∧ live (out j) = []) := by
  induction n generalizing j with
  | zero => have := mid_mu_pos j hm; omega
  | succ n ih =>
    unfold Join.skip
    cases hv : j.value with
    | cons b r =>
      simp only [List.isEmpty_cons, Bool.false_eq_true, if_false]
      refine ⟨fun _ => ⟨hw, ?_, by simp [hv], by simp, Nat.le_refl _⟩, fun h => (by cases h)⟩
      rcases hm with hc | hg
      · exact hc
      · rw [ghost_value j hg] at hv; cases hv
    | nil =>
      simp only [List.isEmpty_nil, if_true]
      -- one internal next(), whose emitted entry (if any) has an empty value
      have hstep : ((Join.next0 listOps listOps j).2 = false →
            DoneSt (Join.next0 listOps listOps j).1 ∧ live (out j) = []) ∧
          ((Join.next0 listOps listOps j).2 = true →
            WFJ (Join.next0 listOps listOps j).1 ∧ Mid (Join.next0 listOps listOps j).1 ∧
            mu (Join.next0 listOps listOps j).1 < mu j ∧
            live (out j) = live (out (Join.next0 listOps listOps j).1)) := by
        rcases hm with hc | hg
        · have := next0_cur j hw hc
          refine ⟨fun hf => ⟨(this.1 hf).1, ?_⟩, fun ht => ?_⟩
          · rw [(this.1 hf).2, hv, live_cons_empty]; rfl
          · obtain ⟨a, b, c, d⟩ := this.2 ht
            exact ⟨a, b, c, by rw [d, hv, live_cons_empty]⟩
        · have := next0_ghost j hw hg
          refine ⟨fun hf => ⟨(this.2.1 hf).1, ?_⟩, fun ht => ?_⟩
          · rw [(this.2.1 hf).2]; rfl
          · obtain ⟨a, b, c, d⟩ := this.2.2 ht
            exact ⟨a, b, c, by rw [d]⟩
      cases hr : (Join.next0 listOps listOps j).2 with
      | false =>
        simp only [Bool.false_eq_true, if_false]
        exact ⟨fun h => (by cases h), fun _ => hstep.1 hr⟩
      | true =>
        simp only [if_true]
        obtain ⟨a, b, c, d⟩ := hstep.2 hr
        have := ih _ a b (by omega)
        refine ⟨fun ht => ?_, fun hf => ?_⟩
        · obtain ⟨w, cu, nv, lv, m⟩ := this.1 ht
          exact ⟨w, cu, nv, by rw [d, lv], by omega⟩
        · obtain ⟨dn, lv⟩ := this.2 hf
          exact ⟨dn, by rw [d, lv]⟩


/-! ### merge is sorted and is the layered lookup -/

theorem mem_merge {a b : Entries} {x : Key × Val} (h : x ∈ merge a b) : x ∈ a ∨ x ∈ b := by
  fun_induction merge a b with
  | case1 b => exact .inr h
  | case2 a ra => exact .inl h
  | case3 a ra b rb hc ih =>
    simp only [List.mem_cons] at h ⊢
    rcases h with h | h
    · exact .inl (.inl h)
    · rcases ih h with h | h
      · exact .inl (.inr h)
      · simp only [List.mem_cons] at h; exact .inr h
  | case4 a ra b rb hc ih =>
    simp only [List.mem_cons] at h ⊢
    rcases h with h | h
    · exact .inl (.inl h)
    · rcases ih h with h | h
      · exact .inl (.inr h)
      · exact .inr (.inr h)
  | case5 a ra b rb hc ih =>
    simp only [List.mem_cons] at h ⊢
    rcases h with h | h
    · exact .inr (.inl h)
    · rcases ih h with h | h
      · simp only [List.mem_cons] at h; exact .inl h
      · exact .inr (.inr h)

theorem merge_sorted {a b : Entries} (ha : Sorted a) (hb : Sorted b) : Sorted (merge a b) := by
  fun_induction merge a b with
  | case1 b => exact hb
  | case2 a ra => exact ha
  | case3 a ra b rb hc ih =>
    have ⟨a1, a2⟩ := sorted_cons.mp ha
    have ⟨b1, b2⟩ := sorted_cons.mp hb
    refine sorted_cons.mpr ⟨?_, ih a2 hb⟩
    intro x hx
    rcases mem_merge hx with h | h
    · exact a1 x h
    · simp only [List.mem_cons] at h
      rcases h with rfl | h
      · exact ltB_iff.mpr hc
      · exact ltB_trans (ltB_iff.mpr hc) (b1 x h)
  | case4 a ra b rb hc ih =>
    have ⟨a1, a2⟩ := sorted_cons.mp ha
    have ⟨b1, b2⟩ := sorted_cons.mp hb
    have hk := cmpB_eq_iff.mp hc
    refine sorted_cons.mpr ⟨?_, ih a2 b2⟩
    intro x hx
    rcases mem_merge hx with h | h
    · exact a1 x h
    · rw [hk]; exact b1 x h
  | case5 a ra b rb hc ih =>
    have ⟨a1, a2⟩ := sorted_cons.mp ha
    have ⟨b1, b2⟩ := sorted_cons.mp hb
    have hlt := ltB_iff.mpr (cmpB_gt_iff_lt.mp hc)
    refine sorted_cons.mpr ⟨?_, ih ha b2⟩
    intro x hx
    rcases mem_merge hx with h | h
    · simp only [List.mem_cons] at h
      rcases h with rfl | h
      · exact hlt
      · exact ltB_trans hlt (a1 x h)
    · exact b1 x h

/-- Point reads of the merged stream: the newer stream answers if it knows the key, else the older one. -/
theorem lookup_merge {a b : Entries} (ha : Sorted a) (hb : Sorted b) (k : Key) :
    lookup k (merge a b) = match lookup k a with | some v => some v | none => lookup k b := by
  fun_induction merge a b with
  | case1 b => simp [lookup]
  | case2 a ra => cases h : lookup k (a :: ra) <;> simp [lookup]
  | case3 a ra b rb hc ih =>
    have ⟨a1, a2⟩ := sorted_cons.mp ha
    have ih := ih a2 hb
    obtain ⟨ka, va⟩ := a; obtain ⟨kb, vb⟩ := b
    simp only at hc
    simp only [lookup] at ih ⊢
    cases h : cmpB k ka with
    | lt => simp [cmpB_lt_trans h hc]
    | eq => rfl
    | gt => simp only; rw [ih]
  | case4 a ra b rb hc ih =>
    have ⟨a1, a2⟩ := sorted_cons.mp ha
    have ⟨b1, b2⟩ := sorted_cons.mp hb
    have ih := ih a2 b2
    obtain ⟨ka, va⟩ := a; obtain ⟨kb, vb⟩ := b
    simp only at hc
    have hk := cmpB_eq_iff.mp hc; subst hk
    simp only [lookup] at ih ⊢
    cases h : cmpB k ka with
    | lt => rfl
    | eq => rfl
    | gt => simp only; rw [ih]
  | case5 a ra b rb hc ih =>
    have ⟨b1, b2⟩ := sorted_cons.mp hb
    have ih := ih ha b2
    obtain ⟨ka, va⟩ := a; obtain ⟨kb, vb⟩ := b
    simp only at hc
    have hlt := cmpB_gt_iff_lt.mp hc
    simp only [lookup] at ih ⊢
    cases h : cmpB k kb with
    | lt => simp [cmpB_lt_trans h hlt]
    | eq =>
      have hk := cmpB_eq_iff.mp h; subst hk
      simp [hlt]
    | gt =>
      simp only; rw [ih]


/-! ### The join over list cursors is a cursor over the live merge -/

/-- Externally visible states of the join (after `First`/`Next` returned): either positioned on an entry with
a non-empty value, with the remaining output `live (merge mem back)`, or finished. -/
def LR (N : Nat) (j : LJ) (l : Entries) : Prop :=
  WFJ j ∧ mu j ≤ N ∧ ((Cur j ∧ j.value ≠ [] ∧ l = live (out j)) ∨ (DoneSt j ∧ l = []))

theorem live_out_cur (j : LJ) (hc : Cur j) (hv : j.value ≠ []) :
    ∃ t, out j = (j.key, j.value) :: t ∧ live (out j) = (j.key, j.value) :: live t := by
  obtain ⟨t, ht⟩ := cur_out_head j hc
  exact ⟨t, ht, by rw [ht, live_cons_live _ _ _ hv]⟩

theorem first0_spec (la lb : Entries) (ha : Sorted la) (hb : Sorted lb) :
    let j₀ : LJ := { mem := la, back := lb }
    ((Join.first0 listOps listOps j₀).2 = false → DoneSt (Join.first0 listOps listOps j₀).1 ∧ la = [] ∧ lb = []) ∧
    ((Join.first0 listOps listOps j₀).2 = true →
      WFJ (Join.first0 listOps listOps j₀).1 ∧ Cur (Join.first0 listOps listOps j₀).1 ∧
      mu (Join.first0 listOps listOps j₀).1 = la.length + lb.length + 2 ∧
      out (Join.first0 listOps listOps j₀).1 = merge la lb) := by
  intro j₀
  cases lb with
  | nil =>
    cases la with
    | nil => simp [j₀, Join.first0, listOps, DoneSt]
    | cons a la' =>
      simp only [j₀, Join.first0, listOps, List.isEmpty_nil, Bool.not_true, Bool.false_eq_true, if_false,
        List.isEmpty_cons, Bool.not_false, if_true]
      refine ⟨by simp, fun _ => ⟨⟨by simp, by simp, ha, hb⟩, ?_, by simp [mu], rfl⟩⟩
      exact ⟨a, la', rfl, rfl, rfl, by simp⟩
  | cons b lb' =>
    cases la with
    | nil =>
      simp only [j₀, Join.first0, listOps, List.isEmpty_cons, Bool.not_false, if_true, List.isEmpty_nil, Bool.not_true]
      refine ⟨by simp, fun _ => ⟨⟨by simp, by simp, ha, hb⟩, ?_, by simp [mu], rfl⟩⟩
      exact ⟨b, lb', rfl, rfl, rfl, by simp⟩
    | cons a la' =>
      simp only [j₀, Join.first0, listOps, List.isEmpty_cons, Bool.not_false, if_true, Bool.not_true,
        Bool.false_eq_true, if_false, headKey, headVal]
      cases hc : cmpB a.1 b.1 with
      | lt =>
        refine ⟨by simp, fun _ => ⟨⟨by simp, by simp, ha, hb⟩, ?_, by simp [mu], rfl⟩⟩
        refine ⟨a, la', rfl, rfl, rfl, ?_⟩
        intro x hx
        simp only [List.mem_cons] at hx
        rcases hx with rfl | hx
        · exact ltB_iff.mpr hc
        · exact ltB_trans (ltB_iff.mpr hc) ((sorted_cons.mp hb).1 x hx)
      | eq =>
        refine ⟨by simp, fun _ => ⟨⟨by simp, by simp, ha, hb⟩, ?_, by simp [mu], rfl⟩⟩
        have hk := cmpB_eq_iff.mp hc
        refine ⟨a, la', b.2, lb', rfl, ?_, rfl, rfl⟩
        show b :: lb' = (a.1, b.2) :: lb'
        rw [hk]
      | gt =>
        refine ⟨by simp, fun _ => ⟨⟨by simp, by simp, ha, hb⟩, ?_, by simp [mu], rfl⟩⟩
        refine ⟨b, lb', rfl, rfl, rfl, ?_⟩
        intro x hx
        have hlt := ltB_iff.mpr (cmpB_gt_iff_lt.mp hc)
        simp only [List.mem_cons] at hx
        rcases hx with rfl | hx
        · exact hlt
        · exact ltB_trans hlt ((sorted_cons.mp ha).1 x hx)

theorem live_nil_iff_head {j : LJ} (hc : Cur j) (hv : j.value ≠ []) : live (out j) ≠ [] := by
  obtain ⟨t, _, h⟩ := live_out_cur j hc hv
  rw [h]; simp

/-- After a successful internal step followed by the skip loop we are in an external state. -/
theorem skip_to_LR (N : Nat) (hN : 2 ≤ N) (j : LJ) (hw : WFJ j) (hm : Mid j) (hn : mu j ≤ N) :
    LR N (Join.skip listOps listOps N j).1 (live (out j)) ∧
    (Join.skip listOps listOps N j).2 = !(live (out j)).isEmpty := by
  have hs := skip_spec N j hw hm hn
  cases hr : (Join.skip listOps listOps N j).2 with
  | true =>
    obtain ⟨w, c, v, l, m⟩ := hs.1 hr
    have hne := live_nil_iff_head c v
    refine ⟨⟨w, by omega, .inl ⟨c, v, l⟩⟩, ?_⟩
    rw [l]; cases h : live (out (Join.skip listOps listOps N j).1) with
    | nil => exact absurd h hne
    | cons _ _ => rfl
  | false =>
    obtain ⟨d, l⟩ := hs.2 hr
    refine ⟨⟨?_, ?_, .inr ⟨d, l⟩⟩, by rw [l]; rfl⟩
    · obtain ⟨d1, d2, _⟩ := d
      exact ⟨fun _ => d1, fun _ => d2, d1 ▸ Sorted.nil, d2 ▸ Sorted.nil⟩
    · obtain ⟨d1, d2, _⟩ := d
      simp only [mu, d1, d2, List.length_nil]
      split <;> split <;> omega

theorem done_wf {j : LJ} (d : DoneSt j) : WFJ j := by
  obtain ⟨d1, d2, _⟩ := d
  exact ⟨fun _ => d1, fun _ => d2, d1 ▸ Sorted.nil, d2 ▸ Sorted.nil⟩

theorem done_mu {j : LJ} (d : DoneSt j) : mu j ≤ 2 := by
  obtain ⟨d1, d2, _⟩ := d
  simp only [mu, d1, d2, List.length_nil]
  split <;> split <;> omega


section
variable {α β : Type} (A : Ops α) (B : Ops β)
theorem Next_of_false (N : Nat) (j : Join α β) (h : (Join.next0 A B j).2 = false) :
    Join.Next A B N j = ((Join.next0 A B j).1, false) := by simp [Join.Next, h]
theorem Next_of_true (N : Nat) (j : Join α β) (h : (Join.next0 A B j).2 = true) :
    Join.Next A B N j = Join.skip A B N (Join.next0 A B j).1 := by simp [Join.Next, h]
theorem First_of_false (N : Nat) (j : Join α β) (h : (Join.first0 A B j).2 = false) :
    Join.First A B N j = ((Join.first0 A B j).1, false) := by simp [Join.First, h]
theorem First_of_true (N : Nat) (j : Join α β) (h : (Join.first0 A B j).2 = true) :
    Join.First A B N j = Join.skip A B N (Join.first0 A B j).1 := by simp [Join.First, h]
end

theorem live_sorted {l : Entries} (h : Sorted l) : Sorted (live l) := Sorted.sublist List.filter_sublist h

/-- `Next` from a finished join stays finished and returns false (also from the state in which `First`
found both sides empty, where neither flag was ever set). -/
theorem next_done (N : Nat) (hN : 2 ≤ N) (j : LJ) (d : DoneSt j) :
    DoneSt (Join.Next listOps listOps N j).1 ∧ (Join.Next listOps listOps N j).2 = false := by
  obtain ⟨mem, back, key, value, origin, nme, nbe⟩ := j
  obtain ⟨d1, d2, d3, d4, d5⟩ := d
  simp only at d1 d2 d3 d4 d5
  subst d1; subst d2; subst d3; subst d4
  rcases d5 with ⟨h1, h2⟩ | ⟨h1, h2, h3⟩
  · subst h1; subst h2
    simp [Join.Next, Join.next0, Join.advance, Join.choose, DoneSt]
  · subst h1; subst h2; subst h3
    obtain ⟨n, rfl⟩ : ∃ n, N = n + 1 := ⟨N - 1, by omega⟩
    simp [Join.Next, Join.next0, Join.advance, Join.choose, Join.skip, listOps, headKey, headVal, DoneSt]

theorem listJoin_isCursor (N : Nat) (hN : 2 ≤ N) : IsCursor (Join.ops listOps listOps N) (LR N) where
  key := by
    rintro j l ⟨_, _, ⟨c, v, rfl⟩ | ⟨d, rfl⟩⟩
    · obtain ⟨t, _, h⟩ := live_out_cur j c v
      rw [h]; rfl
    · exact d.2.2.1
  value := by
    rintro j l ⟨_, _, ⟨c, v, rfl⟩ | ⟨d, rfl⟩⟩
    · obtain ⟨t, _, h⟩ := live_out_cur j c v
      rw [h]; rfl
    · exact d.2.2.2.1
  sorted := by
    rintro j l ⟨w, _, ⟨_, _, rfl⟩ | ⟨_, rfl⟩⟩
    · exact live_sorted (merge_sorted w.sm w.sb)
    · exact Sorted.nil
  next := by
    rintro j l ⟨w, hmu, ⟨c, v, rfl⟩ | ⟨d, rfl⟩⟩
    · obtain ⟨t, ht, hl⟩ := live_out_cur j c v
      rw [hl, List.tail_cons]
      have hn := next0_cur j w c
      show LR N (Join.Next listOps listOps N j).1 (live t) ∧ (Join.Next listOps listOps N j).2 = !(live t).isEmpty
      cases hr : (Join.next0 listOps listOps j).2 with
      | false =>
        obtain ⟨dn, ho⟩ := hn.1 hr
        rw [Next_of_false _ _ _ _ hr]
        have : t = [] := by rw [ht] at ho; simpa using ho
        subst this
        exact ⟨⟨done_wf dn, Nat.le_trans (done_mu dn) hN, .inr ⟨dn, rfl⟩⟩, rfl⟩
      | true =>
        obtain ⟨w1, m1, mu1, ho⟩ := hn.2 hr
        rw [Next_of_true _ _ _ _ hr]
        have : t = out (Join.next0 listOps listOps j).1 := by rw [ht] at ho; simpa using ho
        rw [this]
        exact skip_to_LR N hN _ w1 m1 (by omega)
    · have := next_done N hN j d
      show LR N (Join.Next listOps listOps N j).1 [] ∧ (Join.Next listOps listOps N j).2 = false
      refine ⟨⟨done_wf this.1, by have := done_mu this.1; omega, .inr ⟨this.1, rfl⟩⟩, this.2⟩

theorem listJoin_starts (N : Nat) (la lb : Entries) (ha : Sorted la) (hb : Sorted lb)
    (hN : la.length + lb.length + 2 ≤ N) :
    Starts (Join.ops listOps listOps N) (LR N) { mem := la, back := lb } (liveMerge la lb) := by
  have hf := first0_spec la lb ha hb
  simp only at hf
  show LR N (Join.First listOps listOps N _).1 _ ∧ (Join.First listOps listOps N _).2 = _
  cases hr : (Join.first0 listOps listOps ({ mem := la, back := lb } : LJ)).2 with
  | false =>
    obtain ⟨dn, h1, h2⟩ := hf.1 hr
    subst h1; subst h2
    rw [First_of_false _ _ _ _ hr]
    exact ⟨⟨done_wf dn, Nat.le_trans (done_mu dn) (by omega), .inr ⟨dn, by simp [liveMerge, live, merge]⟩⟩,
      by simp [liveMerge, live, merge]⟩
  | true =>
    obtain ⟨w, c, m, o⟩ := hf.2 hr
    rw [First_of_true _ _ _ _ hr]
    have := skip_to_LR N (by omega) _ w (.inl c) (by omega)
    rw [o] at this
    exact this


/-! ### Lifting to arbitrary cursors by simulation -/

section
variable {α β : Type} {A : Ops α} {B : Ops β} {RA : α → Entries → Prop} {RB : β → Entries → Prop}

/-- The join over iterators `A`, `B` is in the same control state as the join over the lists their cursors
stand for. -/
structure Sim (RA : α → Entries → Prop) (RB : β → Entries → Prop) (j : Join α β) (t : LJ) : Prop where
  mem : RA j.mem t.mem
  back : RB j.back t.back
  key : j.key = t.key
  value : j.value = t.value
  origin : j.origin = t.origin
  nme : j.nextMemEnd = t.nextMemEnd
  nbe : j.nextBackEnd = t.nextBackEnd

theorem sim_advance (hA : IsCursor A RA) (hB : IsCursor B RB) {j : Join α β} {t : LJ} (h : Sim RA RB j t) :
    Sim RA RB (Join.advance A B j) (Join.advance listOps listOps t) := by
  obtain ⟨jm, jb, jk, jv, jo, jnm, jnb⟩ := j
  obtain ⟨tm, tb, tk, tv, to, tnm, tnb⟩ := t
  obtain ⟨h1, h2, h3, h4, h5, h6, h7⟩ := h
  simp only at h1 h2 h3 h4 h5 h6 h7
  subst h3; subst h4; subst h5; subst h6; subst h7
  have hm := hA.next jm tm h1
  have hb := hB.next jb tb h2
  simp only [Join.advance]
  by_cases c1 : (jo = .mem ∨ jo = .both) ∧ jnm = false
  · by_cases c2 : (jo = .back ∨ jo = .both) ∧ jnb = false
    · rw [if_pos c1, if_pos c1, if_pos c2, if_pos c2]
      exact ⟨hm.1, hb.1, rfl, rfl, rfl, by simp [hm.2, listOps], by simp [hb.2, listOps]⟩
    · rw [if_pos c1, if_pos c1, if_neg c2, if_neg c2]
      exact ⟨hm.1, h2, rfl, rfl, rfl, by simp [hm.2, listOps], rfl⟩
  · by_cases c2 : (jo = .back ∨ jo = .both) ∧ jnb = false
    · rw [if_neg c1, if_neg c1, if_pos c2, if_pos c2]
      exact ⟨h1, hb.1, rfl, rfl, rfl, rfl, by simp [hb.2, listOps]⟩
    · rw [if_neg c1, if_neg c1, if_neg c2, if_neg c2]
      exact ⟨h1, h2, rfl, rfl, rfl, rfl, rfl⟩

theorem sim_choose (hA : IsCursor A RA) (hB : IsCursor B RB) {j : Join α β} {t : LJ} (h : Sim RA RB j t) :
    Sim RA RB (Join.choose A B j).1 (Join.choose listOps listOps t).1 ∧
    (Join.choose A B j).2 = (Join.choose listOps listOps t).2 := by
  obtain ⟨jm, jb, jk, jv, jo, jnm, jnb⟩ := j
  obtain ⟨tm, tb, tk, tv, to, tnm, tnb⟩ := t
  obtain ⟨h1, h2, h3, h4, h5, h6, h7⟩ := h
  simp only at h1 h2 h3 h4 h5 h6 h7
  subst h3; subst h4; subst h5; subst h6; subst h7
  have km := hA.key jm tm h1
  have vm := hA.value jm tm h1
  have kb := hB.key jb tb h2
  have vb := hB.value jb tb h2
  simp only [Join.choose, km, vm, kb, vb, listOps]
  cases jnb with
  | true =>
    cases jnm with
    | true => exact ⟨⟨h1, h2, rfl, rfl, rfl, rfl, rfl⟩, rfl⟩
    | false => exact ⟨⟨h1, h2, rfl, rfl, rfl, rfl, rfl⟩, rfl⟩
  | false =>
    cases jnm with
    | true => exact ⟨⟨h1, h2, rfl, rfl, rfl, rfl, rfl⟩, rfl⟩
    | false =>
      simp only [Bool.false_eq_true, if_false]
      cases cmpB (headKey tm) (headKey tb) with
      | lt => exact ⟨⟨h1, h2, rfl, rfl, rfl, rfl, rfl⟩, rfl⟩
      | eq => exact ⟨⟨h1, h2, rfl, rfl, rfl, rfl, rfl⟩, rfl⟩
      | gt => exact ⟨⟨h1, h2, rfl, rfl, rfl, rfl, rfl⟩, rfl⟩

theorem sim_next0 (hA : IsCursor A RA) (hB : IsCursor B RB) {j : Join α β} {t : LJ} (h : Sim RA RB j t) :
    Sim RA RB (Join.next0 A B j).1 (Join.next0 listOps listOps t).1 ∧
    (Join.next0 A B j).2 = (Join.next0 listOps listOps t).2 :=
  sim_choose hA hB (sim_advance hA hB h)

theorem sim_skip (hA : IsCursor A RA) (hB : IsCursor B RB) (n : Nat) {j : Join α β} {t : LJ} (h : Sim RA RB j t) :
    Sim RA RB (Join.skip A B n j).1 (Join.skip listOps listOps n t).1 ∧
    (Join.skip A B n j).2 = (Join.skip listOps listOps n t).2 := by
  induction n generalizing j t with
  | zero => exact ⟨h, rfl⟩
  | succ n ih =>
    unfold Join.skip
    rw [h.value]
    cases hv : t.value.isEmpty with
    | false => simp only [Bool.false_eq_true, if_false]; exact ⟨h, by simp⟩
    | true =>
      simp only [if_true]
      have hs := sim_next0 hA hB h
      rw [hs.2]
      cases hr : (Join.next0 listOps listOps t).2 with
      | false => simp only [Bool.false_eq_true, if_false]; exact ⟨hs.1, by simp⟩
      | true => simp only [if_true]; exact ih hs.1

theorem sim_Next (hA : IsCursor A RA) (hB : IsCursor B RB) (N : Nat) {j : Join α β} {t : LJ} (h : Sim RA RB j t) :
    Sim RA RB (Join.Next A B N j).1 (Join.Next listOps listOps N t).1 ∧
    (Join.Next A B N j).2 = (Join.Next listOps listOps N t).2 := by
  have hs := sim_next0 hA hB h
  cases hr : (Join.next0 listOps listOps t).2 with
  | false =>
    rw [Next_of_false _ _ _ _ hr, Next_of_false _ _ _ _ (hs.2.trans hr)]
    exact ⟨hs.1, rfl⟩
  | true =>
    rw [Next_of_true _ _ _ _ hr, Next_of_true _ _ _ _ (hs.2.trans hr)]
    exact sim_skip hA hB N hs.1

theorem sim_first0 (hA : IsCursor A RA) (hB : IsCursor B RB) (a₀ : α) (b₀ : β) (la lb : Entries)
    (sa : Starts A RA a₀ la) (sb : Starts B RB b₀ lb) :
    Sim RA RB (Join.first0 A B { mem := a₀, back := b₀ }).1 (Join.first0 listOps listOps { mem := la, back := lb }).1 ∧
    (Join.first0 A B { mem := a₀, back := b₀ }).2 = (Join.first0 listOps listOps { mem := la, back := lb }).2 := by
  have km := hA.key _ _ sa.1
  have vm := hA.value _ _ sa.1
  have kb := hB.key _ _ sb.1
  have vb := hB.value _ _ sb.1
  have ra := sa.1
  have rb := sb.1
  have fa := sa.2
  have fb := sb.2
  clear sa sb
  unfold Join.first0
  simp only [fa, fb, km, vm, kb, vb, listOps]
  cases lb with
  | nil =>
    cases la with
    | nil => exact ⟨⟨ra, rb, rfl, rfl, rfl, rfl, rfl⟩, by simp⟩
    | cons a la' => exact ⟨⟨ra, rb, rfl, rfl, rfl, rfl, rfl⟩, by simp⟩
  | cons b lb' =>
    cases la with
    | nil => exact ⟨⟨ra, rb, rfl, rfl, rfl, rfl, rfl⟩, by simp⟩
    | cons a la' =>
      simp only [List.isEmpty_cons, Bool.not_false, if_true, Bool.not_true, Bool.false_eq_true, if_false]
      cases cmpB (headKey (a :: la')) (headKey (b :: lb')) with
      | lt => exact ⟨⟨ra, rb, rfl, rfl, rfl, rfl, rfl⟩, rfl⟩
      | eq => exact ⟨⟨ra, rb, rfl, rfl, rfl, rfl, rfl⟩, rfl⟩
      | gt => exact ⟨⟨ra, rb, rfl, rfl, rfl, rfl, rfl⟩, rfl⟩

/-- The relation under which a join over arbitrary cursors is itself a cursor. -/
def JoinR (RA : α → Entries → Prop) (RB : β → Entries → Prop) (N : Nat) (j : Join α β) (l : Entries) : Prop :=
  ∃ t : LJ, Sim RA RB j t ∧ LR N t l

/-- **JoinIter is a cursor over the live merge.** If both inputs are cursors (over sorted streams), so is their
join — hence joins nest (CacheDB over OverlayDB over LevelDB). -/
theorem join_isCursor (hA : IsCursor A RA) (hB : IsCursor B RB) (N : Nat) (hN : 2 ≤ N) :
    IsCursor (Join.ops A B N) (JoinR RA RB N) where
  key := by
    rintro j l ⟨t, hs, hl⟩
    exact hs.key.trans ((listJoin_isCursor N hN).key t l hl)
  value := by
    rintro j l ⟨t, hs, hl⟩
    exact hs.value.trans ((listJoin_isCursor N hN).value t l hl)
  sorted := by
    rintro j l ⟨t, _, hl⟩
    exact (listJoin_isCursor N hN).sorted t l hl
  next := by
    rintro j l ⟨t, hs, hl⟩
    have h1 := sim_Next hA hB N hs
    have h2 := (listJoin_isCursor N hN).next t l hl
    exact ⟨⟨_, h1.1, h2.1⟩, h1.2.trans h2.2⟩

theorem join_starts (hA : IsCursor A RA) (hB : IsCursor B RB) (N : Nat) (a₀ : α) (b₀ : β) (la lb : Entries)
    (sa : Starts A RA a₀ la) (sb : Starts B RB b₀ lb) (hN : la.length + lb.length + 2 ≤ N) :
    Starts (Join.ops A B N) (JoinR RA RB N) { mem := a₀, back := b₀ } (liveMerge la lb) := by
  have hl := listJoin_starts N la lb (hA.sorted _ _ sa.1) (hB.sorted _ _ sb.1) hN
  have hf := sim_first0 hA hB a₀ b₀ la lb sa sb
  show JoinR RA RB N (Join.First A B N _).1 _ ∧ (Join.First A B N _).2 = _
  have hl' : LR N (Join.First listOps listOps N { mem := la, back := lb }).1 (liveMerge la lb) ∧
      (Join.First listOps listOps N { mem := la, back := lb }).2 = !(liveMerge la lb).isEmpty := hl
  cases hr : (Join.first0 listOps listOps ({ mem := la, back := lb } : LJ)).2 with
  | false =>
    rw [First_of_false _ _ _ _ hr] at hl'
    rw [First_of_false _ _ _ _ (hf.2.trans hr)]
    exact ⟨⟨_, hf.1, hl'.1⟩, hl'.2⟩
  | true =>
    rw [First_of_true _ _ _ _ hr] at hl'
    rw [First_of_true _ _ _ _ (hf.2.trans hr)]
    have hs := sim_skip hA hB N hf.1
    exact ⟨⟨_, hs.1, hl'.1⟩, hs.2.trans hl'.2⟩

end

end Poly.Model.KV
