import Poly.Model.Native
import Poly.Proofs.NativeKV
/-!
Lemmas about the native-runtime model (`Poly.Model.Native`), used by `Props/C15`, `Props/C16`, `Props/C18`.
-/
namespace Poly.Model.Native

/-! ### Frame: a handler program cannot touch the block overlay, the store, the signers or the block environment -/

/-- What no primitive effect can change. -/
structure Frame (s s' : Svc) : Prop where
  base : s'.base = s.base
  overlay : s'.overlay = s.overlay
  signers : s'.signers = s.signers
  height : s'.height = s.height
  time : s'.time = s.time

theorem Frame.refl (s : Svc) : Frame s s := ⟨rfl, rfl, rfl, rfl, rfl⟩

theorem Frame.trans {a b c : Svc} (h1 : Frame a b) (h2 : Frame b c) : Frame a c :=
  ⟨h2.base.trans h1.base, h2.overlay.trans h1.overlay, h2.signers.trans h1.signers,
   h2.height.trans h1.height, h2.time.trans h1.time⟩

def InvFrame (inv : Inv) : Prop := ∀ s, Frame s (inv s).2

section
variable (leafHash : Bytes → Hash)

theorem runProg_frame (inv : Inv) (hinv : InvFrame inv) (p : Prog) :
    ∀ s, Frame s (runProg leafHash inv p s).2 := by
  induction p with
  | ret r => intro s; exact Frame.refl s
  | fail => intro s; exact Frame.refl s
  | panic => intro s; exact ⟨rfl, rfl, rfl, rfl, rfl⟩
  | get k f ih => intro s; simp only [runProg]; exact ih _ s
  | put k v n ih => intro s; simp only [runProg]; refine Frame.trans ?_ (ih _); exact ⟨rfl, rfl, rfl, rfl, rfl⟩
  | del k n ih => intro s; simp only [runProg]; refine Frame.trans ?_ (ih _); exact ⟨rfl, rfl, rfl, rfl, rfl⟩
  | notify ev n ih => intro s; simp only [runProg]; refine Frame.trans ?_ (ih _); exact ⟨rfl, rfl, rfl, rfl, rfl⟩
  | merkle d n ih => intro s; simp only [runProg]; refine Frame.trans ?_ (ih _); exact ⟨rfl, rfl, rfl, rfl, rfl⟩
  | call a m args f ih =>
    intro s
    simp only [runProg]
    have h1 : Frame s (inv { s with input := encodeParam a m args }).2 := by
      refine Frame.trans ?_ (hinv _); exact ⟨rfl, rfl, rfl, rfl, rfl⟩
    split
    · exact h1
    · refine Frame.trans (Frame.trans h1 ?_) (ih _ _)
      split <;> exact ⟨rfl, rfl, rfl, rfl, rfl⟩
  | witness a f ih => intro s; simp only [runProg]; exact ih _ s
  | getInput f ih => intro s; simp only [runProg]; exact ih _ s
  | context f ih => intro s; simp only [runProg]; exact ih _ _ s
  | blockInfo f ih => intro s; simp only [runProg]; exact ih _ _ s
  | log m n ih => intro s; simp only [runProg]; refine Frame.trans ?_ (ih _); exact ⟨rfl, rfl, rfl, rfl, rfl⟩

/-- Case analysis of one `Invoke`: the four ways it can end. -/
theorem invokeStep_elim {P : CallRes × Svc → Prop} (reg : Registry) (inv : Inv) (s : Svc)
    (h_err : ∀ sm, P (.err, { s with serviceMap := sm }))
    (h_ctx : ∀ sm args, s.contexts.length > maxContextLen → P (.ctxErr, ctxErrState s sm args))
    (h_fail : ∀ sm addr args (p : Prog) s3, ¬ s.contexts.length > maxContextLen →
      runProg leafHash inv p (enter s sm addr args) = (none, s3) → P (if s3.panicked then .panic else .err, s3))
    (h_ok : ∀ sm addr args (p : Prog) r s3, ¬ s.contexts.length > maxContextLen →
      runProg leafHash inv p (enter s sm addr args) = (some r, s3) → P (.ok r, leave s s3)) :
    P (invokeStep leafHash reg inv s) := by
  unfold invokeStep
  split
  · exact h_err s.serviceMap
  · split
    · exact h_err s.serviceMap
    · split
      · exact h_err _
      · unfold invokeBody
        split
        · exact h_ctx _ _ ‹_›
        · split
          · exact h_fail _ _ _ _ _ ‹_› ‹_›
          · exact h_ok _ _ _ _ _ _ ‹_› ‹_›

theorem invokeStep_frame (reg : Registry) (inv : Inv) (hinv : InvFrame inv) : InvFrame (invokeStep leafHash reg inv) := by
  intro s
  apply invokeStep_elim leafHash reg inv s (P := fun x => Frame s x.2)
  · intro sm; exact ⟨rfl, rfl, rfl, rfl, rfl⟩
  · intro sm args _; exact ⟨rfl, rfl, rfl, rfl, rfl⟩
  · intro sm addr args p s3 _ heq
    have := runProg_frame leafHash inv hinv p (enter s sm addr args)
    rw [heq] at this
    refine Frame.trans ?_ this; exact ⟨rfl, rfl, rfl, rfl, rfl⟩
  · intro sm addr args p r s3 _ heq
    have := runProg_frame leafHash inv hinv p (enter s sm addr args)
    rw [heq] at this
    refine Frame.trans (Frame.trans ?_ this) ?_ <;> exact ⟨rfl, rfl, rfl, rfl, rfl⟩

theorem invokeF_frame (reg : Registry) : ∀ n, InvFrame (invokeF leafHash reg n)
  | 0 => fun s => Frame.refl s
  | n + 1 => invokeStep_frame leafHash reg _ (invokeF_frame reg n)

/-! ### The ghost counter of swallowed nested failures never decreases -/

def InvMono (inv : Inv) : Prop := ∀ s, s.swallowed ≤ (inv s).2.swallowed

theorem runProg_mono (inv : Inv) (hinv : InvMono inv) (p : Prog) :
    ∀ s, s.swallowed ≤ (runProg leafHash inv p s).2.swallowed := by
  induction p with
  | ret r => intro s; exact Nat.le_refl _
  | fail => intro s; exact Nat.le_refl _
  | panic => intro s; exact Nat.le_refl _
  | get k f ih => intro s; simp only [runProg]; exact ih _ s
  | put k v n ih => intro s; simp only [runProg]; refine Nat.le_trans ?_ (ih _); exact Nat.le_refl _
  | del k n ih => intro s; simp only [runProg]; refine Nat.le_trans ?_ (ih _); exact Nat.le_refl _
  | notify ev n ih => intro s; simp only [runProg]; refine Nat.le_trans ?_ (ih _); exact Nat.le_refl _
  | merkle d n ih => intro s; simp only [runProg]; refine Nat.le_trans ?_ (ih _); exact Nat.le_refl _
  | call a m args f ih =>
    intro s
    simp only [runProg]
    have h1 := hinv { s with input := encodeParam a m args }
    split
    · exact h1
    · refine Nat.le_trans (Nat.le_trans h1 ?_) (ih _ _)
      split
      · exact Nat.le_refl _
      · exact Nat.le_succ _
  | witness a f ih => intro s; simp only [runProg]; exact ih _ s
  | getInput f ih => intro s; simp only [runProg]; exact ih _ s
  | context f ih => intro s; simp only [runProg]; exact ih _ _ s
  | blockInfo f ih => intro s; simp only [runProg]; exact ih _ _ s
  | log m n ih => intro s; simp only [runProg]; refine Nat.le_trans ?_ (ih _); exact Nat.le_refl _

theorem invokeStep_mono (reg : Registry) (inv : Inv) (hinv : InvMono inv) : InvMono (invokeStep leafHash reg inv) := by
  intro s
  apply invokeStep_elim leafHash reg inv s (P := fun x => s.swallowed ≤ x.2.swallowed)
  · intro sm; exact Nat.le_refl _
  · intro sm args _; exact Nat.le_refl _
  · intro sm addr args p s3 _ heq
    have := runProg_mono leafHash inv hinv p (enter s sm addr args)
    rw [heq] at this; exact this
  · intro sm addr args p r s3 _ heq
    have := runProg_mono leafHash inv hinv p (enter s sm addr args)
    rw [heq] at this; exact this

theorem invokeF_mono (reg : Registry) : ∀ n, InvMono (invokeF leafHash reg n)
  | 0 => fun _ => Nat.le_refl _
  | n + 1 => invokeStep_mono leafHash reg _ (invokeF_mono reg n)

/-! ### A transaction in which no nested failure is swallowed keeps every effect -/

def notifsOf : List Eff → List Notif
  | [] => []
  | .event n :: r => n :: notifsOf r
  | _ :: r => notifsOf r

def crossesOf : List Eff → List Hash
  | [] => []
  | .cross h :: r => h :: crossesOf r
  | _ :: r => crossesOf r

def writesOf : List Eff → List (Bytes × Bytes)
  | [] => []
  | .write k v :: r => (k, v) :: writesOf r
  | _ :: r => writesOf r

theorem notifsOf_append (a b : List Eff) : notifsOf (a ++ b) = notifsOf a ++ notifsOf b := by
  induction a with
  | nil => rfl
  | cons x r ih => cases x <;> simp [notifsOf, ih]

theorem crossesOf_append (a b : List Eff) : crossesOf (a ++ b) = crossesOf a ++ crossesOf b := by
  induction a with
  | nil => rfl
  | cons x r ih => cases x <;> simp [crossesOf, ih]

theorem writesOf_append (a b : List Eff) : writesOf (a ++ b) = writesOf a ++ writesOf b := by
  induction a with
  | nil => rfl
  | cons x r ih => cases x <;> simp [writesOf, ih]

/-- From `s` to `s'` exactly the effects `new` happened and all of them are still there. -/
structure Keeps (s s' : Svc) (new : List Eff) : Prop where
  effLog : s'.effLog = s.effLog ++ new
  notifications : s'.notifications = s.notifications ++ notifsOf new
  crossHashes : List.Perm s'.crossHashes (s.crossHashes ++ crossesOf new)
  cache : s'.cache = applyWrites s.cache (writesOf new)

theorem Keeps.trans {a b c : Svc} {n1 n2 : List Eff} (h1 : Keeps a b n1) (h2 : Keeps b c n2) : Keeps a c (n1 ++ n2) where
  effLog := by rw [h2.effLog, h1.effLog, List.append_assoc]
  notifications := by rw [h2.notifications, h1.notifications, notifsOf_append, List.append_assoc]
  crossHashes := by
    rw [crossesOf_append, ← List.append_assoc]
    exact h2.crossHashes.trans (h1.crossHashes.append_right _)
  cache := by rw [h2.cache, h1.cache, writesOf_append, applyWrites_append]

/-- Nested `Invoke`s that return `(result, nil)` without any swallowed failure inside keep everything. -/
def InvKeeps (inv : Inv) : Prop :=
  ∀ s r, (inv s).1 = .ok r → (inv s).2.swallowed = s.swallowed → ∃ new, Keeps s (inv s).2 new

theorem runProg_keeps (inv : Inv) (hm : InvMono inv) (hk : InvKeeps inv) (p : Prog) :
    ∀ s r0, (runProg leafHash inv p s).1 = some r0 → (runProg leafHash inv p s).2.swallowed = s.swallowed →
      ∃ new, Keeps s (runProg leafHash inv p s).2 new := by
  induction p with
  | ret r => intro s _ _ _; exact ⟨[], by simp [runProg], by simp [runProg, notifsOf], by simp [runProg, crossesOf], by simp [runProg, writesOf, applyWrites]⟩
  | fail => intro s r0 h0 _; simp [runProg] at h0
  | panic => intro s r0 h0 _; simp [runProg] at h0
  | get k f ih => intro s r0 h0 h; simp only [runProg] at h0 h ⊢; exact ih _ s r0 h0 h
  | put k v n ih =>
    intro s r0 h0 h; simp only [runProg] at h0 h ⊢
    obtain ⟨new, hk'⟩ := ih _ r0 h0 h
    exact ⟨[.write (stPrefix :: k) v] ++ new, Keeps.trans ⟨rfl, by simp [notifsOf], by simp [crossesOf], by simp [writesOf, applyWrites]⟩ hk'⟩
  | del k n ih =>
    intro s r0 h0 h; simp only [runProg] at h0 h ⊢
    obtain ⟨new, hk'⟩ := ih _ r0 h0 h
    exact ⟨[.write (stPrefix :: k) []] ++ new, Keeps.trans ⟨rfl, by simp [notifsOf], by simp [crossesOf], by simp [writesOf, applyWrites]⟩ hk'⟩
  | notify ev n ih =>
    intro s r0 h0 h; simp only [runProg] at h0 h ⊢
    obtain ⟨new, hk'⟩ := ih _ r0 h0 h
    exact ⟨[.event ev] ++ new, Keeps.trans ⟨rfl, by simp [notifsOf], by simp [crossesOf], by simp [writesOf, applyWrites]⟩ hk'⟩
  | merkle d n ih =>
    intro s r0 h0 h; simp only [runProg] at h0 h ⊢
    obtain ⟨new, hk'⟩ := ih _ r0 h0 h
    exact ⟨[.cross (leafHash d)] ++ new, Keeps.trans ⟨rfl, by simp [notifsOf], by simp [crossesOf], by simp [writesOf, applyWrites]⟩ hk'⟩
  | call a m args f ih =>
    intro s r0 h0 h
    simp only [runProg] at h0 h ⊢
    -- the nested invocation
    generalize hq : inv { s with input := encodeParam a m args } = q at h0 h ⊢
    obtain ⟨r, s'⟩ := q
    have hm1 : s.swallowed ≤ s'.swallowed := by
      have := hm { s with input := encodeParam a m args }; rw [hq] at this; exact this
    by_cases hp : s'.panicked = true
    · simp [hp] at h0
    · rw [if_neg hp] at h0 h ⊢
      cases r with
      | ok v =>
        simp only at h0 h ⊢
        have hm2 := runProg_mono leafHash inv hm (f (.ok v)) s'
        have heq : s'.swallowed = s.swallowed := by omega
        obtain ⟨n1, k1⟩ : ∃ new, Keeps { s with input := encodeParam a m args } s' new := by
          have := hk { s with input := encodeParam a m args } v (by rw [hq]) (by rw [hq]; exact heq)
          rw [hq] at this; exact this
        obtain ⟨n2, k2⟩ := ih (.ok v) s' r0 h0 (by omega)
        exact ⟨n1 ++ n2, Keeps.trans ⟨k1.effLog, k1.notifications, k1.crossHashes, k1.cache⟩ k2⟩
      | ctxErr =>
        simp only at h
        have hm2 := runProg_mono leafHash inv hm (f .ctxErr) { s' with swallowed := s'.swallowed + 1 }
        simp only at hm2; omega
      | err =>
        simp only at h
        have hm2 := runProg_mono leafHash inv hm (f .err) { s' with swallowed := s'.swallowed + 1 }
        simp only at hm2; omega
      | diverge =>
        simp only at h
        have hm2 := runProg_mono leafHash inv hm (f .diverge) { s' with swallowed := s'.swallowed + 1 }
        simp only at hm2; omega
      | panic =>
        simp only at h
        have hm2 := runProg_mono leafHash inv hm (f .panic) { s' with swallowed := s'.swallowed + 1 }
        simp only at hm2; omega
  | witness a f ih => intro s r0 h0 h; simp only [runProg] at h0 h ⊢; exact ih _ s r0 h0 h
  | getInput f ih => intro s r0 h0 h; simp only [runProg] at h0 h ⊢; exact ih _ s r0 h0 h
  | context f ih => intro s r0 h0 h; simp only [runProg] at h0 h ⊢; exact ih _ _ s r0 h0 h
  | blockInfo f ih => intro s r0 h0 h; simp only [runProg] at h0 h ⊢; exact ih _ _ s r0 h0 h
  | log m n ih =>
    intro s r0 h0 h; simp only [runProg] at h0 h ⊢
    obtain ⟨new, hk'⟩ := ih _ r0 h0 h
    exact ⟨new, ⟨hk'.effLog, hk'.notifications, hk'.crossHashes, hk'.cache⟩⟩

/-- The same for a run that may end in an error (but not in a panic): everything done so far is still there. -/
theorem runProg_keeps_np (inv : Inv) (hm : InvMono inv) (hk : InvKeeps inv) (p : Prog) :
    ∀ s, (runProg leafHash inv p s).2.panicked = false → (runProg leafHash inv p s).2.swallowed = s.swallowed →
      ∃ new, Keeps s (runProg leafHash inv p s).2 new := by
  induction p with
  | ret r => intro s _ _; exact ⟨[], by simp [runProg], by simp [runProg, notifsOf], by simp [runProg, crossesOf], by simp [runProg, writesOf, applyWrites]⟩
  | fail => intro s _ _; exact ⟨[], by simp [runProg], by simp [runProg, notifsOf], by simp [runProg, crossesOf], by simp [runProg, writesOf, applyWrites]⟩
  | panic => intro s h0 _; simp [runProg] at h0
  | get k f ih => intro s h0 h; simp only [runProg] at h0 h ⊢; exact ih _ s h0 h
  | put k v n ih =>
    intro s h0 h; simp only [runProg] at h0 h ⊢
    obtain ⟨new, hk'⟩ := ih _ h0 h
    exact ⟨[.write (stPrefix :: k) v] ++ new, Keeps.trans ⟨rfl, by simp [notifsOf], by simp [crossesOf], by simp [writesOf, applyWrites]⟩ hk'⟩
  | del k n ih =>
    intro s h0 h; simp only [runProg] at h0 h ⊢
    obtain ⟨new, hk'⟩ := ih _ h0 h
    exact ⟨[.write (stPrefix :: k) []] ++ new, Keeps.trans ⟨rfl, by simp [notifsOf], by simp [crossesOf], by simp [writesOf, applyWrites]⟩ hk'⟩
  | notify ev n ih =>
    intro s h0 h; simp only [runProg] at h0 h ⊢
    obtain ⟨new, hk'⟩ := ih _ h0 h
    exact ⟨[.event ev] ++ new, Keeps.trans ⟨rfl, by simp [notifsOf], by simp [crossesOf], by simp [writesOf, applyWrites]⟩ hk'⟩
  | merkle d n ih =>
    intro s h0 h; simp only [runProg] at h0 h ⊢
    obtain ⟨new, hk'⟩ := ih _ h0 h
    exact ⟨[.cross (leafHash d)] ++ new, Keeps.trans ⟨rfl, by simp [notifsOf], by simp [crossesOf], by simp [writesOf, applyWrites]⟩ hk'⟩
  | call a m args f ih =>
    intro s h0 h
    simp only [runProg] at h0 h ⊢
    -- the nested invocation
    generalize hq : inv { s with input := encodeParam a m args } = q at h0 h ⊢
    obtain ⟨r, s'⟩ := q
    have hm1 : s.swallowed ≤ s'.swallowed := by
      have := hm { s with input := encodeParam a m args }; rw [hq] at this; exact this
    by_cases hp : s'.panicked = true
    · rw [if_pos hp] at h0; simp only at h0; rw [hp] at h0; cases h0
    · rw [if_neg hp] at h0 h ⊢
      cases r with
      | ok v =>
        simp only at h0 h ⊢
        have hm2 := runProg_mono leafHash inv hm (f (.ok v)) s'
        have heq : s'.swallowed = s.swallowed := by omega
        obtain ⟨n1, k1⟩ : ∃ new, Keeps { s with input := encodeParam a m args } s' new := by
          have := hk { s with input := encodeParam a m args } v (by rw [hq]) (by rw [hq]; exact heq)
          rw [hq] at this; exact this
        obtain ⟨n2, k2⟩ := ih (.ok v) s' h0 (by omega)
        exact ⟨n1 ++ n2, Keeps.trans ⟨k1.effLog, k1.notifications, k1.crossHashes, k1.cache⟩ k2⟩
      | ctxErr =>
        simp only at h
        have hm2 := runProg_mono leafHash inv hm (f .ctxErr) { s' with swallowed := s'.swallowed + 1 }
        simp only at hm2; omega
      | err =>
        simp only at h
        have hm2 := runProg_mono leafHash inv hm (f .err) { s' with swallowed := s'.swallowed + 1 }
        simp only at hm2; omega
      | diverge =>
        simp only at h
        have hm2 := runProg_mono leafHash inv hm (f .diverge) { s' with swallowed := s'.swallowed + 1 }
        simp only at hm2; omega
      | panic =>
        simp only at h
        have hm2 := runProg_mono leafHash inv hm (f .panic) { s' with swallowed := s'.swallowed + 1 }
        simp only at hm2; omega
  | witness a f ih => intro s h0 h; simp only [runProg] at h0 h ⊢; exact ih _ s h0 h
  | getInput f ih => intro s h0 h; simp only [runProg] at h0 h ⊢; exact ih _ s h0 h
  | context f ih => intro s h0 h; simp only [runProg] at h0 h ⊢; exact ih _ _ s h0 h
  | blockInfo f ih => intro s h0 h; simp only [runProg] at h0 h ⊢; exact ih _ _ s h0 h
  | log m n ih =>
    intro s h0 h; simp only [runProg] at h0 h ⊢
    obtain ⟨new, hk'⟩ := ih _ h0 h
    exact ⟨new, ⟨hk'.effLog, hk'.notifications, hk'.crossHashes, hk'.cache⟩⟩

theorem invokeStep_keeps (reg : Registry) (inv : Inv) (hm : InvMono inv) (hk : InvKeeps inv) :
    InvKeeps (invokeStep leafHash reg inv) := by
  intro s
  apply invokeStep_elim leafHash reg inv s
    (P := fun x => ∀ r, x.1 = .ok r → x.2.swallowed = s.swallowed → ∃ new, Keeps s x.2 new)
  · intro sm r h; cases h
  · intro sm args _ r h; cases h
  · intro sm addr args p s3 _ _ r h; split at h <;> cases h
  · intro sm addr args p r s3 _ heq r' _ hsw
    have := runProg_keeps leafHash inv hm hk p (enter s sm addr args) r
    rw [heq] at this
    obtain ⟨new, k⟩ := this rfl hsw
    refine ⟨new, ⟨k.effLog, ?_, ?_, k.cache⟩⟩
    · show s.notifications ++ s3.notifications = _
      rw [k.notifications]; simp [enter]
    · show List.Perm (s3.crossHashes ++ s.crossHashes) _
      have h1 : List.Perm s3.crossHashes (crossesOf new) := by simpa [enter] using k.crossHashes
      exact (h1.append_right _).trans List.perm_append_comm

theorem invokeF_keeps (reg : Registry) : ∀ n, InvKeeps (invokeF leafHash reg n)
  | 0 => by intro s r h; cases h
  | n + 1 => invokeStep_keeps leafHash reg _ (invokeF_mono leafHash reg n) (invokeF_keeps reg n)

/-- What survives a nested call that FAILS (and whose failure the caller may swallow): the frame returns without any
restore, so the service is left with the transaction cache holding every write made so far (the caller's and the failed
callee's), but with the event list and the cross-hash list of the failed frame only — the caller's earlier events and
cross hashes are gone for good; the context stack keeps the callee's frame and `input` stays the callee's arguments.
(`new` = the effects of the failed frame, which itself swallowed nothing and did not panic.) -/
theorem failed_frame_survivors (inv : Inv) (hm : InvMono inv) (hk : InvKeeps inv) (s : Svc) (sm : List (Bytes × Handler))
    (addr : Addr) (args : Bytes) (p : Prog) (s3 : Svc)
    (hrun : runProg leafHash inv p (enter s sm addr args) = (none, s3))
    (hnp : s3.panicked = false) (hsw : s3.swallowed = s.swallowed) :
    ∃ new, s3.effLog = s.effLog ++ new ∧
      s3.cache = applyWrites s.cache (writesOf new) ∧
      s3.notifications = notifsOf new ∧
      List.Perm s3.crossHashes (crossesOf new) := by
  have := runProg_keeps_np leafHash inv hm hk p (enter s sm addr args)
  rw [hrun] at this
  obtain ⟨new, k⟩ := this hnp hsw
  exact ⟨new, by simpa [enter] using k.effLog, by simpa [enter] using k.cache,
    by simpa [enter] using k.notifications, by simpa [enter] using k.crossHashes⟩

/-! ### Block level -/

/-- The outcome of one transaction, spelled out. -/
theorem execTx_cases (reg : Registry) (env : BlockEnv) (bs : BlockState) (tx : Tx) :
    (tx.chainOk = false ∧ execTx leafHash reg env bs tx =
        ({ bs with cache := [] }, { ok := false, notify := [], cross := [], log := [] })) ∨
    (∃ r s, invokeF leafHash reg fuel (newService env { bs with cache := [] } tx) = (r, s) ∧
      ((r.failed = true ∧ execTx leafHash reg env bs tx =
          ({ overlay := s.overlay, cache := s.cache },
           { ok := false, notify := [], cross := [], log := s.log, effs := s.effLog, swallowed := s.swallowed,
             panicked := s.panicked })) ∨
       (r.failed = false ∧ execTx leafHash reg env bs tx =
          ({ overlay := s.cache.commitInto s.overlay, cache := s.cache },
           { ok := true, notify := s.notifications, cross := s.crossHashes, log := s.log, effs := s.effLog,
             swallowed := s.swallowed })))) := by
  unfold execTx
  cases hc : tx.chainOk with
  | false => left; simp
  | true =>
    right
    simp only [Bool.not_true, Bool.false_eq_true, if_false]
    generalize hq : invokeF leafHash reg fuel (newService env { bs with cache := [] } tx) = q
    obtain ⟨r, s⟩ := q
    refine ⟨r, s, rfl, ?_⟩
    cases hf : r.failed with
    | true => left; simp
    | false => right; simp

/-- The final service state of a transaction has the overlay it started with. -/
theorem invoke_overlay (reg : Registry) (env : BlockEnv) (bs : BlockState) (tx : Tx) :
    (invokeF leafHash reg fuel (newService env bs tx)).2.overlay = bs.overlay :=
  (invokeF_frame leafHash reg fuel (newService env bs tx)).overlay

theorem execTx_failed (reg : Registry) (env : BlockEnv) (bs : BlockState) (tx : Tx)
    (h : (execTx leafHash reg env bs tx).2.ok = false) :
    (execTx leafHash reg env bs tx).1.overlay = bs.overlay ∧
    (execTx leafHash reg env bs tx).2.notify = [] ∧ (execTx leafHash reg env bs tx).2.cross = [] := by
  rcases execTx_cases leafHash reg env bs tx with ⟨_, e⟩ | ⟨r, s, hq, ⟨_, e⟩ | ⟨_, e⟩⟩
  · rw [e]; exact ⟨rfl, rfl, rfl⟩
  · rw [e]
    have := invoke_overlay leafHash reg env { bs with cache := [] } tx
    rw [hq] at this
    exact ⟨this, rfl, rfl⟩
  · rw [e] at h; cases h

/-- The transaction cache that `executeBlock` reuses does not carry anything from one transaction to the next. -/
theorem execTx_cache_irrelevant (reg : Registry) (env : BlockEnv) (o c1 c2 : KV) (tx : Tx) :
    execTx leafHash reg env { overlay := o, cache := c1 } tx = execTx leafHash reg env { overlay := o, cache := c2 } tx := rfl

theorem execTx_overlay_only (reg : Registry) (env : BlockEnv) (bs bs' : BlockState) (tx : Tx)
    (h : bs.overlay = bs'.overlay) : execTx leafHash reg env bs tx = execTx leafHash reg env bs' tx := by
  obtain ⟨o, c⟩ := bs
  obtain ⟨o', c'⟩ := bs'
  simp only at h
  subst h
  rfl

theorem execTxs_overlay_only (reg : Registry) (env : BlockEnv) (txs : List Tx) (bs bs' : BlockState)
    (h : bs.overlay = bs'.overlay) :
    (execTxs leafHash reg env bs txs).2 = (execTxs leafHash reg env bs' txs).2 ∧
    (execTxs leafHash reg env bs txs).1.overlay = (execTxs leafHash reg env bs' txs).1.overlay := by
  cases txs with
  | nil => exact ⟨rfl, h⟩
  | cons t r =>
    simp only [execTxs]
    rw [execTx_overlay_only leafHash reg env bs bs' t h]
    exact ⟨rfl, rfl⟩

/-- The transactions of a block that succeeded, given the per-transaction results. -/
def okTxs : List Tx → List TxResult → List Tx
  | t :: ts, r :: rs => if r.ok then t :: okTxs ts rs else okTxs ts rs
  | _, _ => []

theorem execTxs_okOnly (reg : Registry) (env : BlockEnv) (txs : List Tx) : ∀ bs : BlockState,
    (execTxs leafHash reg env bs (okTxs txs (execTxs leafHash reg env bs txs).2)).2
        = (execTxs leafHash reg env bs txs).2.filter (·.ok) ∧
    (execTxs leafHash reg env bs (okTxs txs (execTxs leafHash reg env bs txs).2)).1.overlay
        = (execTxs leafHash reg env bs txs).1.overlay := by
  induction txs with
  | nil => intro bs; exact ⟨rfl, rfl⟩
  | cons t rest ih =>
    intro bs
    simp only [execTxs]
    generalize hq : execTx leafHash reg env bs t = q
    obtain ⟨bs1, r⟩ := q
    simp only [okTxs]
    cases hr : r.ok with
    | false =>
      have hf := execTx_failed leafHash reg env bs t (by rw [hq]; exact hr)
      rw [hq] at hf
      have ho := execTxs_overlay_only leafHash reg env (okTxs rest (execTxs leafHash reg env bs1 rest).2) bs bs1 hf.1.symm
      simp only [Bool.false_eq_true, if_false, List.filter_cons, hr]
      rw [ho.1, ho.2]
      exact ih bs1
    | true =>
      simp only [if_true, execTxs, hq, List.filter_cons, hr]
      have := ih bs1
      exact ⟨by rw [this.1], this.2⟩

theorem execTxs_append (reg : Registry) (env : BlockEnv) (pre post : List Tx) : ∀ bs : BlockState,
    execTxs leafHash reg env bs (pre ++ post) =
      ((execTxs leafHash reg env (execTxs leafHash reg env bs pre).1 post).1,
       (execTxs leafHash reg env bs pre).2 ++ (execTxs leafHash reg env (execTxs leafHash reg env bs pre).1 post).2) := by
  induction pre with
  | nil => intro bs; rfl
  | cons t r ih => intro bs; simp only [List.cons_append, execTxs, ih]

theorem flatten_cross_filter (rs : List TxResult) (h : ∀ r ∈ rs, r.ok = false → r.cross = []) :
    ((rs.filter (·.ok)).map (·.cross)).flatten = (rs.map (·.cross)).flatten := by
  induction rs with
  | nil => rfl
  | cons r rest ih =>
    have ih' := ih (fun x hx => h x (List.mem_cons_of_mem _ hx))
    cases hr : r.ok with
    | true => simp [hr, ih']
    | false => simp [hr, ih', h r List.mem_cons_self hr]

theorem execTxs_failed_cross (reg : Registry) (env : BlockEnv) (txs : List Tx) : ∀ bs : BlockState,
    ∀ r ∈ (execTxs leafHash reg env bs txs).2, r.ok = false → r.cross = [] ∧ r.notify = [] := by
  induction txs with
  | nil => intro bs r hr; cases hr
  | cons t rest ih =>
    intro bs r hr hok
    simp only [execTxs] at hr
    rcases List.mem_cons.mp hr with e | hr
    · have := execTx_failed leafHash reg env bs t (by rw [← e]; exact hok)
      rw [e]; exact ⟨this.2.2, this.2.1⟩
    · exact ih _ r hr hok

/-- At the top level the context stack is empty, so `Invoke` never takes the `PushContext` refusal exit. -/
theorem toplevel_not_ctxErr (reg : Registry) (env : BlockEnv) (bs : BlockState) (tx : Tx) :
    (invokeF leafHash reg fuel (newService env bs tx)).1 ≠ .ctxErr := by
  show (invokeStep leafHash reg (invokeF leafHash reg 1029) (newService env bs tx)).1 ≠ .ctxErr
  apply invokeStep_elim leafHash reg _ (newService env bs tx) (P := fun x => x.1 ≠ .ctxErr)
  · intro sm h; cases h
  · intro sm args hlen; simp [newService, maxContextLen] at hlen
  · intro sm addr args p s3 _ _ h; split at h <;> cases h
  · intro sm addr args p r s3 _ _ h; cases h

theorem execTx_ok_keeps (reg : Registry) (env : BlockEnv) (bs : BlockState) (tx : Tx)
    (hok : (execTx leafHash reg env bs tx).2.ok = true)
    (hsw : (execTx leafHash reg env bs tx).2.swallowed = 0) :
    (execTx leafHash reg env bs tx).2.notify = notifsOf (execTx leafHash reg env bs tx).2.effs ∧
    List.Perm (execTx leafHash reg env bs tx).2.cross (crossesOf (execTx leafHash reg env bs tx).2.effs) ∧
    ∀ x, (execTx leafHash reg env bs tx).1.overlay.find? x =
      (lastWrite (writesOf (execTx leafHash reg env bs tx).2.effs) x).orElse (fun _ => bs.overlay.find? x) := by
  rcases execTx_cases leafHash reg env bs tx with ⟨_, e⟩ | ⟨r, s, hq, ⟨_, e⟩ | ⟨hnf, e⟩⟩
  · rw [e] at hok; cases hok
  · rw [e] at hok; cases hok
  · rw [e] at hsw ⊢
    simp only at hsw ⊢
    have hctx := toplevel_not_ctxErr leafHash reg env { bs with cache := [] } tx
    rw [hq] at hctx
    obtain ⟨v, hv⟩ : ∃ v, r = .ok v := by
      cases r with
      | ok v => exact ⟨v, rfl⟩
      | ctxErr => exact absurd rfl hctx
      | err => cases hnf
      | diverge => cases hnf
      | panic => cases hnf
    have hk := invokeF_keeps leafHash reg fuel (newService env { bs with cache := [] } tx) v
      (by rw [hq, hv]) (by rw [hq]; exact hsw)
    rw [hq] at hk
    obtain ⟨new, k⟩ := hk
    have hov := invoke_overlay leafHash reg env { bs with cache := [] } tx
    rw [hq] at hov
    have he : s.effLog = new := by simpa [newService] using k.effLog
    have hn : s.notifications = notifsOf new := by simpa [newService] using k.notifications
    have hc : List.Perm s.crossHashes (crossesOf new) := by simpa [newService] using k.crossHashes
    have hca : s.cache = applyWrites [] (writesOf new) := by simpa [newService] using k.cache
    refine ⟨by rw [he, hn], by rw [he]; exact hc, ?_⟩
    intro x
    have hsorted : s.cache.Sorted := by rw [hca]; exact applyWrites_sorted _ [] List.Pairwise.nil
    rw [KV.find?_commitInto _ _ hsorted, hca, KV.find?_applyWrites, he, hov]
    simp only [KV.find?]
    cases lastWrite (writesOf new) x <;> rfl

end

end Poly.Model.Native
