import Poly.Model.Codec
/-!
# Lemmas about the codec primitives (C01)

* little endian: `ofLe (leN k v) = v`;
* pure readers: round trip with exact consumption, truncation, non-minimal var-uints, strict booleans;
* `safeAdd/safeSub/safeMul` flags are the mathematical overflow conditions;
* machine readers (`ZeroCopySource` with `off : UInt64`) refine the pure readers under the invariant `off ≤ len < 2^64`:
  no panic, same value, same eof flag, `Pos()` advanced by exactly the consumed bytes;
* streaming codec: byte-identical writers, cross-codec round trip, truncation is an error;
* the reserve-9-bytes / `BackUp` mechanism of `ZeroCopySink.WriteVarUint` appends exactly `wVarUint v`.
-/
set_option linter.unusedSimpArgs false
set_option linter.unusedVariables false
namespace Poly.Model.Codec

@[simp] theorem leN_length (k v : Nat) : (leN k v).length = k := by
  induction k generalizing v with
  | zero => rfl
  | succ k ih => simp [leN, ih]

theorem ofLe_leN (k v : Nat) (h : v < 256 ^ k) : ofLe (leN k v) = v := by
  induction k generalizing v with
  | zero => simp at h; subst h; rfl
  | succ k ih =>
    have h2 : v / 256 < 256 ^ k := by
      rw [Nat.pow_succ] at h
      exact Nat.div_lt_of_lt_mul (by rw [Nat.mul_comm]; exact h)
    simp only [leN, ofLe, ih _ h2]
    have : (UInt8.ofNat (v % 256)).toNat = v % 256 := by
      simp [UInt8.toNat_ofNat']
    rw [this]; omega

namespace P

theorem nextBytes_append (a r : Bytes) : nextBytes a.length (a ++ r) = (a, r, false) := by
  simp [nextBytes]

theorem nextBytes_append' (n : Nat) (a r : Bytes) (h : a.length = n) : nextBytes n (a ++ r) = (a, r, false) := by
  subst h; exact nextBytes_append a r

theorem nextBytes_short (n : Nat) (bs : Bytes) (h : bs.length < n) : nextBytes n bs = (bs, [], true) := by
  simp [nextBytes]; omega

theorem nextU16_w (v : UInt16) (r : Bytes) : nextU16 (wU16 v ++ r) = (v, r, false) := by
  simp only [nextU16, wU16, nextBytes_append' 2 _ r (leN_length _ _)]
  have := v.toNat_lt
  simp [ofLe_leN 2 v.toNat (by omega)]

theorem nextU32_w (v : UInt32) (r : Bytes) : nextU32 (wU32 v ++ r) = (v, r, false) := by
  simp only [nextU32, wU32, nextBytes_append' 4 _ r (leN_length _ _)]
  have := v.toNat_lt
  simp [ofLe_leN 4 v.toNat (by omega)]

theorem nextU64_w (v : UInt64) (r : Bytes) : nextU64 (wU64 v ++ r) = (v, r, false) := by
  simp only [nextU64, wU64, nextBytes_append' 8 _ r (leN_length _ _)]
  have := v.toNat_lt
  simp [ofLe_leN 8 v.toNat (by omega)]

theorem nextI16_w (v : Int16) (r : Bytes) : nextI16 (wI16 v ++ r) = (v, r, false) := by
  simp [nextI16, wI16, nextU16_w]
theorem nextI32_w (v : Int32) (r : Bytes) : nextI32 (wI32 v ++ r) = (v, r, false) := by
  simp [nextI32, wI32, nextU32_w]
theorem nextI64_w (v : Int64) (r : Bytes) : nextI64 (wI64 v ++ r) = (v, r, false) := by
  simp [nextI64, wI64, nextU64_w]

theorem nextByte_w (v : UInt8) (r : Bytes) : nextByte (wU8 v ++ r) = (v, r, false) := by
  simp [nextByte, wU8]

theorem nextBool_w (b : Bool) (r : Bytes) : nextBool (wBool b ++ r) = (b, r, false) := by
  cases b <;> simp [nextBool, wBool, nextByte]

theorem nextVarUint_w (v : UInt64) (r : Bytes) : nextVarUint (wVarUint v ++ r) = (v, r, false) := by
  unfold wVarUint
  split
  · rename_i h
    have h' : v.toNat < 0xFD := by simpa [UInt64.lt_iff_toNat_lt] using h
    have e : v.toUInt8.toNat = v.toNat := by simp; omega
    have n1 : v.toUInt8 ≠ 0xFD := by intro c; rw [c] at e; simp at e; omega
    have n2 : v.toUInt8 ≠ 0xFE := by intro c; rw [c] at e; simp at e; omega
    have n3 : v.toUInt8 ≠ 0xFF := by intro c; rw [c] at e; simp at e; omega
    have e2 : v.toUInt8.toUInt64 = v := by
      apply UInt64.toNat_inj.mp; simp; omega
    simp [nextVarUint, nextByte, n1, n2, n3, e2]
  · split
    · rename_i h1 h2
      have h' : v.toNat ≤ 0xFFFF := by simpa [UInt64.le_iff_toNat_le] using h2
      have e2 : v.toUInt16.toUInt64 = v := by
        apply UInt64.toNat_inj.mp; simp; omega
      simp [nextVarUint, nextByte, nextU16_w, e2]
    · split
      · rename_i h1 h2 h3
        have h' : v.toNat ≤ 0xFFFFFFFF := by simpa [UInt64.le_iff_toNat_le] using h3
        have e2 : v.toUInt32.toUInt64 = v := by
          apply UInt64.toNat_inj.mp; simp; omega
        simp [nextVarUint, nextByte, nextU32_w, e2]
      · simp [nextVarUint, nextByte, nextU64_w]


theorem nextVarBytes_w (b r : Bytes) (h : b.length < 2 ^ 64) : nextVarBytes (wVarBytes b ++ r) = (b, r, false) := by
  have e : (UInt64.ofNat b.length).toNat = b.length := by
    simp [UInt64.toNat_ofNat']; omega
  simp [nextVarBytes, wVarBytes, List.append_assoc, nextVarUint_w, e, nextBytes_append]

theorem nextFixed_w (n : Nat) (b r : Bytes) (h : b.length = n) : nextFixed n (wBytes b ++ r) = (b, r, false) := by
  simp [nextFixed, wBytes, nextBytes_append' n b r h]

/-! truncation -/
theorem nextBytes_trunc (n k : Nat) (a : Bytes) (h : a.length = n) (hk : k < n) : (nextBytes n (a.take k)).2.2 = true := by
  rw [nextBytes_short]; simp; omega

theorem nextU16_trunc (v : UInt16) (k : Nat) (hk : k < (wU16 v).length) : (nextU16 ((wU16 v).take k)).2.2 = true := by
  simp only [wU16, leN_length] at hk
  simp [nextU16, wU16, nextBytes_short 2 ((leN 2 v.toNat).take k) (by simp; omega)]

theorem nextU32_trunc (v : UInt32) (k : Nat) (hk : k < (wU32 v).length) : (nextU32 ((wU32 v).take k)).2.2 = true := by
  simp only [wU32, leN_length] at hk
  simp [nextU32, wU32, nextBytes_short 4 ((leN 4 v.toNat).take k) (by simp; omega)]

theorem nextU64_trunc (v : UInt64) (k : Nat) (hk : k < (wU64 v).length) : (nextU64 ((wU64 v).take k)).2.2 = true := by
  simp only [wU64, leN_length] at hk
  simp [nextU64, wU64, nextBytes_short 8 ((leN 8 v.toNat).take k) (by simp; omega)]

theorem nextByte_trunc (v : UInt8) (k : Nat) (hk : k < (wU8 v).length) : (nextByte ((wU8 v).take k)).2.2 = true := by
  simp [wU8] at hk; subst hk; simp [nextByte]

theorem nextBool_trunc (v : Bool) (k : Nat) (hk : k < (wBool v).length) : (nextBool ((wBool v).take k)).2.2 = true := by
  simp [wBool] at hk; subst hk; simp [nextBool, nextByte]

theorem wVarUint_length (v : UInt64) : (wVarUint v).length = varUintSize v := by
  by_cases h1 : v < 0xFD <;> by_cases h2 : v ≤ 0xFFFF <;> by_cases h3 : v ≤ 0xFFFFFFFF <;>
    simp [wVarUint, varUintSize, h1, h2, h3, wU16, wU32, wU64]

theorem wVarUint_ne_nil (v : UInt64) : wVarUint v ≠ [] := by
  by_cases h1 : v < 0xFD <;> by_cases h2 : v ≤ 0xFFFF <;> by_cases h3 : v ≤ 0xFFFFFFFF <;>
    simp [wVarUint, h1, h2, h3]

/-- first byte decides how many follow; a cut inside reports eof -/
theorem nextVarUint_trunc (v : UInt64) (k : Nat) (hk : k < (wVarUint v).length) :
    (nextVarUint ((wVarUint v).take k)).2.2 = true := by
  cases k with
  | zero => simp [nextVarUint, nextByte]
  | succ k =>
    unfold wVarUint at hk ⊢
    split at hk
    · simp at hk
    · split at hk
      · simp only [List.length_cons] at hk
        have := nextU16_trunc v.toUInt16 k (by omega)
        simp only [nextVarUint, nextByte]
        simp; split <;> simp_all
      · split at hk
        · simp only [List.length_cons] at hk
          have := nextU32_trunc v.toUInt32 k (by omega)
          simp only [nextVarUint, nextByte]
          simp; split <;> simp_all
        · simp only [List.length_cons] at hk
          have := nextU64_trunc v k (by omega)
          simp only [nextVarUint, nextByte]
          simp; split <;> simp_all


theorem nextVarBytes_trunc (b : Bytes) (h : b.length < 2 ^ 64) (k : Nat) (hk : k < (wVarBytes b).length) :
    (nextVarBytes ((wVarBytes b).take k)).2.2 = true := by
  have e : (UInt64.ofNat b.length).toNat = b.length := by
    simp [UInt64.toNat_ofNat']; omega
  unfold wVarBytes at hk ⊢
  rw [List.take_append]
  by_cases hc : k < (wVarUint (UInt64.ofNat b.length)).length
  · have := nextVarUint_trunc _ k hc
    have z : k - (wVarUint (UInt64.ofNat b.length)).length = 0 := by omega
    simp only [nextVarBytes, z, List.take_zero, List.append_nil]
    split <;> simp_all
  · rw [List.take_of_length_le (by omega)]
    simp only [List.length_append] at hk
    simp only [nextVarBytes, nextVarUint_w, e]
    rw [nextBytes_short _ _ (by simp [List.length_take]; omega)]
    simp

/-- a declared length larger than the remaining data is eof, for any (also non-minimal) count encoding -/
theorem nextVarBytes_short (bs r1 : Bytes) (n : UInt64) (h : nextVarUint bs = (n, r1, false)) (hl : r1.length < n.toNat) :
    nextVarBytes bs = (r1, [], true) := by
  simp [nextVarBytes, h, nextBytes_short _ _ hl]

/-- non-minimal encodings are accepted -/
theorem nextVarUint_nonminimal16 (v : UInt16) (r : Bytes) : nextVarUint (0xFD :: wU16 v ++ r) = (v.toUInt64, r, false) := by
  simp [nextVarUint, nextByte, nextU16_w]
theorem nextVarUint_nonminimal32 (v : UInt32) (r : Bytes) : nextVarUint (0xFE :: wU32 v ++ r) = (v.toUInt64, r, false) := by
  simp [nextVarUint, nextByte, nextU32_w]
theorem nextVarUint_nonminimal64 (v : UInt64) (r : Bytes) : nextVarUint (0xFF :: wU64 v ++ r) = (v, r, false) := by
  simp [nextVarUint, nextByte, nextU64_w]

theorem nextBool_strict (b : UInt8) (r : Bytes) (h0 : b ≠ 0) (h1 : b ≠ 1) : nextBool (b :: r) = (false, r, true) := by
  simp [nextBool, nextByte, h0, h1]

end P

/-! ## safeMath -/
theorem safeAdd_spec (x y : UInt64) :
    (safeAdd x y).2 = decide (2 ^ 64 ≤ x.toNat + y.toNat) ∧ (safeAdd x y).1.toNat = (x.toNat + y.toNat) % 2 ^ 64 := by
  have hx := x.toNat_lt
  have hy := y.toNat_lt
  unfold safeAdd
  simp only [gt_iff_lt, UInt64.lt_iff_toNat_lt, UInt64.toNat_sub, UInt64.toNat_add]
  constructor
  · simp; omega
  · simp

theorem safeSub_spec (x y : UInt64) :
    (safeSub x y).2 = decide (x.toNat < y.toNat) ∧ ((safeSub x y).2 = false → (safeSub x y).1.toNat = x.toNat - y.toNat) := by
  have hx := x.toNat_lt
  have hy := y.toNat_lt
  unfold safeSub
  simp only [UInt64.lt_iff_toNat_lt, UInt64.toNat_sub]
  constructor
  · simp
  · simp; omega

theorem safeMul_spec (x y : UInt64) :
    (safeMul x y).2 = decide (2 ^ 64 ≤ x.toNat * y.toNat) ∧ (safeMul x y).1.toNat = (x.toNat * y.toNat) % 2 ^ 64 := by
  have hx := x.toNat_lt
  have hy := y.toNat_lt
  unfold safeMul
  by_cases h0 : x = 0
  · subst h0; simp
  by_cases h1 : y = 0
  · subst h1; simp
  have hx0 : 0 < x.toNat := by
    rcases Nat.eq_zero_or_pos x.toNat with h | h
    · exact absurd (UInt64.toNat_inj.mp (by simpa using h)) h0
    · exact h
  have hc : (x == 0 || y == 0) = false := by simp [h0, h1]
  simp only [hc, Bool.false_eq_true, if_false, gt_iff_lt, UInt64.lt_iff_toNat_lt, UInt64.toNat_div, UInt64.toNat_mul]
  constructor
  · apply decide_eq_decide.mpr
    rw [Nat.div_lt_iff_lt_mul hx0, Nat.mul_comm y.toNat x.toNat]
    simp only [UInt64.toNat_ofNat]
    omega
  · trivial


/-- the reader invariant: `off` is inside the slice, whose length fits `uint64` (Go: `len ≤ maxInt`) -/
def Src.Inv (x : Src) : Prop := x.off.toNat ≤ x.s.length ∧ x.s.length < 2 ^ 64
/-- the unread remainder -/
def Src.rem (x : Src) : Bytes := x.s.drop x.off.toNat

/-- machine result `m` from source `x` is exactly pure result `p` on the remainder: no panic, same value, same eof flag,
same underlying slice, new remainder, invariant kept. -/
def Refines {α : Type} (x : Src) (m : R α) (p : P.R α) : Prop :=
  ∃ x', m = some (p.1, x', p.2.2) ∧ x'.Inv ∧ x'.s = x.s ∧ x'.rem = p.2.1

theorem Src.size_toNat (x : Src) (h : x.Inv) : x.size.toNat = x.s.length := by
  simp [Src.size, UInt64.toNat_ofNat']; have := h.2; omega

theorem nextBytes_refines (x : Src) (n : UInt64) (h : x.Inv) :
    Refines x (nextBytes x n) (P.nextBytes n.toNat x.rem) := by
  have hs := x.size_toNat h
  obtain ⟨h1, h2⟩ := h
  have hn := n.toNat_lt
  have ho := x.off.toNat_lt
  have ha := safeAdd_spec x.off n
  unfold Refines nextBytes P.nextBytes Src.rem
  simp only [List.length_drop]
  by_cases hc : n.toNat ≤ x.s.length - x.off.toNat
  · -- enough data
    have hov : (safeAdd x.off n).2 = false := by rw [ha.1]; simp; omega
    have he : (safeAdd x.off n).1.toNat = x.off.toNat + n.toNat := by rw [ha.2]; omega
    have hgt : ¬ ((safeAdd x.off n).1 > x.size) := by
      simp only [gt_iff_lt, UInt64.lt_iff_toNat_lt, he, hs]; omega
    simp only [hov, hgt, decide_false, Bool.or_self, Bool.false_eq_true, if_false, he, hc, if_true]
    refine ⟨{ x with off := (safeAdd x.off n).1 }, ?_, ?_, rfl, ?_⟩
    · rw [if_pos (by omega)]; simp
    · exact ⟨by simp only [he]; omega, h2⟩
    · simp only [he, List.drop_drop]
  · have heof : ((safeAdd x.off n).2 || decide ((safeAdd x.off n).1 > x.size)) = true := by
      by_cases hv : (safeAdd x.off n).2 = true
      · simp [hv]
      · have hv' : 2 ^ 64 > x.off.toNat + n.toNat := by
          rw [ha.1] at hv; simpa using hv
        have he : (safeAdd x.off n).1.toNat = x.off.toNat + n.toNat := by rw [ha.2]; omega
        simp only [gt_iff_lt, UInt64.lt_iff_toNat_lt, he, hs]; simp; right; omega
    simp only [heof, if_true, hs, hc, if_false]
    refine ⟨{ x with off := x.size }, ?_, ?_, rfl, ?_⟩
    · rw [if_pos (by omega)]
      simp only [Option.some.injEq, Prod.mk.injEq, and_true]
      exact List.take_of_length_le (by simp)
    · exact ⟨by simp only [hs]; omega, h2⟩
    · simp only [hs]; simp

theorem nextByte_refines (x : Src) (h : x.Inv) : Refines x (nextByte x) (P.nextByte x.rem) := by
  have hs := x.size_toNat h
  obtain ⟨h1, h2⟩ := h
  unfold Refines nextByte Src.rem
  by_cases hc : x.off ≥ x.size
  · have hc' : x.s.length ≤ x.off.toNat := by
      simpa only [ge_iff_le, UInt64.le_iff_toNat_le, hs] using hc
    have : x.s.drop x.off.toNat = [] := List.drop_of_length_le hc'
    simp only [hc, if_true, this, P.nextByte]
    exact ⟨x, rfl, ⟨h1, h2⟩, rfl, this⟩
  · have hc' : x.off.toNat < x.s.length := by
      have : ¬ (x.s.length ≤ x.off.toNat) := by
        simpa only [ge_iff_le, UInt64.le_iff_toNat_le, hs] using hc
      omega
    have hd : x.s.drop x.off.toNat = x.s[x.off.toNat] :: x.s.drop (x.off.toNat + 1) := List.drop_eq_getElem_cons hc'
    have ho : (x.off + 1).toNat = x.off.toNat + 1 := by
      simp only [UInt64.toNat_add]; simp; omega
    simp only [hc, if_false, List.getElem?_eq_getElem hc', hd, P.nextByte]
    exact ⟨{ x with off := x.off + 1 }, rfl, ⟨by simp only [ho]; omega, h2⟩, rfl, by simp only [ho]⟩

theorem nextU16_refines (x : Src) (h : x.Inv) : Refines x (nextU16 x) (P.nextU16 x.rem) := by
  obtain ⟨x', hm, hi, hs, hr⟩ := nextBytes_refines x 2 h
  unfold nextU16 P.nextU16
  rw [hm]
  refine ⟨x', ?_, hi, hs, ?_⟩
  · by_cases c : (P.nextBytes 2 x.rem).2.2 = true <;> simp_all
  · by_cases c : (P.nextBytes 2 x.rem).2.2 = true <;> simp_all

theorem nextU32_refines (x : Src) (h : x.Inv) : Refines x (nextU32 x) (P.nextU32 x.rem) := by
  obtain ⟨x', hm, hi, hs, hr⟩ := nextBytes_refines x 4 h
  unfold nextU32 P.nextU32
  rw [hm]
  refine ⟨x', ?_, hi, hs, ?_⟩
  · by_cases c : (P.nextBytes 4 x.rem).2.2 = true <;> simp_all
  · by_cases c : (P.nextBytes 4 x.rem).2.2 = true <;> simp_all

theorem nextU64_refines (x : Src) (h : x.Inv) : Refines x (nextU64 x) (P.nextU64 x.rem) := by
  obtain ⟨x', hm, hi, hs, hr⟩ := nextBytes_refines x 8 h
  unfold nextU64 P.nextU64
  rw [hm]
  refine ⟨x', ?_, hi, hs, ?_⟩
  · by_cases c : (P.nextBytes 8 x.rem).2.2 = true <;> simp_all
  · by_cases c : (P.nextBytes 8 x.rem).2.2 = true <;> simp_all

theorem nextI16_refines (x : Src) (h : x.Inv) : Refines x (nextI16 x) (P.nextI16 x.rem) := by
  obtain ⟨x', hm, hi, hs, hr⟩ := nextU16_refines x h
  exact ⟨x', by simp [nextI16, P.nextI16, hm], hi, hs, by simpa [P.nextI16] using hr⟩
theorem nextI32_refines (x : Src) (h : x.Inv) : Refines x (nextI32 x) (P.nextI32 x.rem) := by
  obtain ⟨x', hm, hi, hs, hr⟩ := nextU32_refines x h
  exact ⟨x', by simp [nextI32, P.nextI32, hm], hi, hs, by simpa [P.nextI32] using hr⟩
theorem nextI64_refines (x : Src) (h : x.Inv) : Refines x (nextI64 x) (P.nextI64 x.rem) := by
  obtain ⟨x', hm, hi, hs, hr⟩ := nextU64_refines x h
  exact ⟨x', by simp [nextI64, P.nextI64, hm], hi, hs, by simpa [P.nextI64] using hr⟩

theorem nextBool_refines (x : Src) (h : x.Inv) : Refines x (nextBool x) (P.nextBool x.rem) := by
  obtain ⟨x', hm, hi, hs, hr⟩ := nextByte_refines x h
  unfold nextBool P.nextBool
  rw [hm]
  refine ⟨x', ?_, hi, hs, ?_⟩
  · by_cases c0 : (P.nextByte x.rem).1 = 0 <;> by_cases c1 : (P.nextByte x.rem).1 = 1 <;> simp_all
  · by_cases c0 : (P.nextByte x.rem).1 = 0 <;> by_cases c1 : (P.nextByte x.rem).1 = 1 <;> simp_all

theorem nextFixed_refines (n : Nat) (hn : n < 2 ^ 64) (x : Src) (h : x.Inv) : Refines x (nextFixed n x) (P.nextFixed n x.rem) := by
  obtain ⟨x', hm, hi, hs, hr⟩ := nextBytes_refines x (UInt64.ofNat n) h
  have e : (UInt64.ofNat n).toNat = n := by simp [UInt64.toNat_ofNat']; omega
  rw [e] at hm hr
  unfold nextFixed P.nextFixed
  rw [hm]
  refine ⟨x', ?_, hi, hs, ?_⟩
  · by_cases c : (P.nextBytes n x.rem).2.2 = true <;> simp_all
  · by_cases c : (P.nextBytes n x.rem).2.2 = true <;> simp_all

theorem nextVarUint_refines (x : Src) (h : x.Inv) : Refines x (nextVarUint x) (P.nextVarUint x.rem) := by
  obtain ⟨x1, hm, hi, hs, hr⟩ := nextByte_refines x h
  unfold nextVarUint P.nextVarUint
  rw [hm]
  simp only []
  by_cases c : (P.nextByte x.rem).2.2 = true
  · simp only [c, if_true]; exact ⟨x1, rfl, hi, hs, hr⟩
  simp only [c, if_false, Bool.false_eq_true]
  by_cases c1 : (P.nextByte x.rem).1 = 0xFD
  · obtain ⟨x2, hm2, hi2, hs2, hr2⟩ := nextU16_refines x1 hi
    rw [hr] at hm2 hr2
    simp only [c1, beq_self_eq_true, if_true, hm2]
    refine ⟨x2, ?_, hi2, hs2.trans hs, ?_⟩
    · by_cases d : (P.nextU16 (P.nextByte x.rem).2.1).2.2 = true <;> simp_all
    · by_cases d : (P.nextU16 (P.nextByte x.rem).2.1).2.2 = true <;> simp_all
  by_cases c2 : (P.nextByte x.rem).1 = 0xFE
  · obtain ⟨x2, hm2, hi2, hs2, hr2⟩ := nextU32_refines x1 hi
    rw [hr] at hm2 hr2
    have n1 : ((P.nextByte x.rem).1 == 0xFD) = false := by simp [c1]
    simp only [n1, c2, beq_self_eq_true, if_true, hm2, Bool.false_eq_true, if_false]
    refine ⟨x2, ?_, hi2, hs2.trans hs, ?_⟩
    · by_cases d : (P.nextU32 (P.nextByte x.rem).2.1).2.2 = true <;> simp_all
    · by_cases d : (P.nextU32 (P.nextByte x.rem).2.1).2.2 = true <;> simp_all
  by_cases c3 : (P.nextByte x.rem).1 = 0xFF
  · obtain ⟨x2, hm2, hi2, hs2, hr2⟩ := nextU64_refines x1 hi
    rw [hr] at hm2 hr2
    have n1 : ((P.nextByte x.rem).1 == 0xFD) = false := by simp [c1]
    have n2 : ((P.nextByte x.rem).1 == 0xFE) = false := by simp [c2]
    simp only [n1, n2, c3, beq_self_eq_true, if_true, hm2, Bool.false_eq_true, if_false]
    refine ⟨x2, ?_, hi2, hs2.trans hs, ?_⟩
    · by_cases d : (P.nextU64 (P.nextByte x.rem).2.1).2.2 = true <;> simp_all
    · by_cases d : (P.nextU64 (P.nextByte x.rem).2.1).2.2 = true <;> simp_all
  · have n1 : ((P.nextByte x.rem).1 == 0xFD) = false := by simp [c1]
    have n2 : ((P.nextByte x.rem).1 == 0xFE) = false := by simp [c2]
    have n3 : ((P.nextByte x.rem).1 == 0xFF) = false := by simp [c3]
    simp only [n1, n2, n3, Bool.false_eq_true, if_false]
    exact ⟨x1, rfl, hi, hs, hr⟩

theorem nextVarBytes_refines (x : Src) (h : x.Inv) : Refines x (nextVarBytes x) (P.nextVarBytes x.rem) := by
  obtain ⟨x1, hm, hi, hs, hr⟩ := nextVarUint_refines x h
  unfold nextVarBytes P.nextVarBytes
  rw [hm]
  simp only []
  by_cases c : (P.nextVarUint x.rem).2.2 = true
  · simp only [c, if_true]; exact ⟨x1, rfl, hi, hs, hr⟩
  · simp only [c, if_false, Bool.false_eq_true]
    obtain ⟨x2, hm2, hi2, hs2, hr2⟩ := nextBytes_refines x1 (P.nextVarUint x.rem).1 hi
    rw [hr] at hm2 hr2
    exact ⟨x2, hm2, hi2, hs2.trans hs, hr2⟩

/-- position after a refined read: `Pos()` advanced by exactly the bytes the pure reader consumed -/
theorem Refines.pos {α : Type} {x : Src} {m : R α} {p : P.R α} (h : Refines x m p) (hx : x.Inv) :
    ∃ x', m = some (p.1, x', p.2.2) ∧ x'.off.toNat = x.s.length - p.2.1.length := by
  obtain ⟨x', hm, hi, hs, hr⟩ := h
  refine ⟨x', hm, ?_⟩
  have : x'.rem.length = x'.s.length - x'.off.toNat := by simp [Src.rem]
  rw [hr, hs] at this
  have := hi.1
  rw [hs] at this
  omega


/-- Generic glue: a machine reader that refines a pure reader, started at offset `|pre|` of `pre ++ w ++ r` where the pure
reader consumes exactly `w`, returns the value without eof and leaves `Pos() = |pre| + |w|`. -/
theorem machine_roundtrip {α : Type} (next : Src → R α) (pnext : Bytes → P.R α)
    (href : ∀ x, x.Inv → Refines x (next x) (pnext x.rem))
    (pre w r : Bytes) (v : α) (hp : pnext (w ++ r) = (v, r, false)) (hlen : (pre ++ w ++ r).length < 2 ^ 64) :
    ∃ x', next ⟨pre ++ w ++ r, UInt64.ofNat pre.length⟩ = some (v, x', false) ∧
      x'.off.toNat = pre.length + w.length ∧ x'.s = pre ++ w ++ r := by
  have hl : (UInt64.ofNat pre.length).toNat = pre.length := by
    simp only [List.length_append] at hlen
    simp [UInt64.toNat_ofNat']; omega
  have hinv : (Src.mk (pre ++ w ++ r) (UInt64.ofNat pre.length)).Inv := by
    refine ⟨?_, hlen⟩
    simp only [hl, List.length_append]; omega
  have hrem : (Src.mk (pre ++ w ++ r) (UInt64.ofNat pre.length)).rem = w ++ r := by
    simp [Src.rem, hl, List.append_assoc]
  have h := href _ hinv
  rw [hrem, hp] at h
  obtain ⟨x', hm, hoff⟩ := h.pos hinv
  obtain ⟨x'', hm', _, hs, _⟩ := h
  rw [hm] at hm'
  have : x' = x'' := by simpa using hm'
  subst this
  refine ⟨x', hm, ?_, hs⟩
  simp only [List.length_append] at hoff ⊢
  omega

/-- `BackUp` by the distance just read returns to the start (the `Transaction.Deserialization` idiom), whatever wraps. -/
theorem backUp_restores (x : Src) (e : UInt64) : backUp { x with off := e } (e - x.off) = x := by
  cases x with
  | mk s off =>
    simp only [backUp, Src.mk.injEq, true_and]
    apply UInt64.toNat_inj.mp
    have := e.toNat_lt; have := off.toNat_lt
    simp only [UInt64.toNat_sub]
    omega


namespace Stream

theorem wU8_eq (v : UInt8) : Stream.wU8 v = Codec.wU8 v := rfl
theorem wU16_eq (v : UInt16) : Stream.wU16 v = Codec.wU16 v := rfl
theorem wU32_eq (v : UInt32) : Stream.wU32 v = Codec.wU32 v := rfl
theorem wU64_eq (v : UInt64) : Stream.wU64 v = Codec.wU64 v := rfl
theorem wBool_eq (v : Bool) : Stream.wBool v = Codec.wBool v := rfl
theorem wVarUint_eq (v : UInt64) : Stream.wVarUint v = Codec.wVarUint v := rfl
theorem wVarBytes_eq (v : Bytes) : Stream.wVarBytes v = Codec.wVarBytes v := rfl

theorem readFull_append (a r : Bytes) : readFull a.length (a ++ r) = (.ok a, r) := by
  unfold readFull
  cases a with
  | nil => simp
  | cons x a => simp

theorem readFull_append' (n : Nat) (a r : Bytes) (h : a.length = n) : readFull n (a ++ r) = (.ok a, r) := by
  subst h; exact readFull_append a r

theorem readFull_short (n : Nat) (bs : Bytes) (h : bs.length < n) : ∃ e, readFull n bs = (.error e, []) := by
  unfold readFull
  have : n ≠ 0 := by omega
  cases bs with
  | nil => exact ⟨.eof, by simp [this]⟩
  | cons b bs => exact ⟨.ueof, by simp at h; simp [this, h]⟩

theorem readU8_w (v : UInt8) (r : Bytes) : readU8 (Codec.wU8 v ++ r) = (.ok v, r) := by
  simp [readU8, readUintN, Codec.wU8, readFull, ofLe]
theorem readU16_w (v : UInt16) (r : Bytes) : readU16 (Codec.wU16 v ++ r) = (.ok v, r) := by
  have := v.toNat_lt
  simp [readU16, readUintN, Codec.wU16, readFull_append' 2 _ r (leN_length _ _), ofLe_leN 2 v.toNat (by omega)]
theorem readU32_w (v : UInt32) (r : Bytes) : readU32 (Codec.wU32 v ++ r) = (.ok v, r) := by
  have := v.toNat_lt
  simp [readU32, readUintN, Codec.wU32, readFull_append' 4 _ r (leN_length _ _), ofLe_leN 4 v.toNat (by omega)]
theorem readU64_w (v : UInt64) (r : Bytes) : readU64 (Codec.wU64 v ++ r) = (.ok v, r) := by
  have := v.toNat_lt
  simp [readU64, readUintN, Codec.wU64, readFull_append' 8 _ r (leN_length _ _), ofLe_leN 8 v.toNat (by omega)]

theorem readBool_w (v : Bool) (r : Bytes) : readBool (Codec.wBool v ++ r) = (.ok v, r) := by
  cases v <;> simp [readBool, Codec.wBool, readFull, ofLe]

theorem readVarUint_w (v : UInt64) (r : Bytes) : readVarUint 0 (Codec.wVarUint v ++ r) = (.ok v, r) := by
  have hv := v.toNat_lt
  have hmax : ∀ w : UInt64, (w > 0xFFFFFFFFFFFFFFFF) = False := by
    intro w; have := w.toNat_lt; simp only [gt_iff_lt, UInt64.lt_iff_toNat_lt]; simp; omega
  have hle : ∀ w : UInt64, w ≤ 0xFFFFFFFFFFFFFFFF := by
    intro w; have := w.toNat_lt; simp only [UInt64.le_iff_toNat_le]; simp; omega
  have b1 : ∀ (b : UInt8) (t : Bytes), readFull 1 (b :: t) = (.ok [b], t) := by intro b t; simp [readFull]
  have ob : ∀ b : UInt8, UInt8.ofNat (ofLe [b]) = b := by intro b; simp [ofLe]
  unfold Codec.wVarUint
  split
  · rename_i h
    have h' : v.toNat < 0xFD := by simpa [UInt64.lt_iff_toNat_lt] using h
    have e : v.toUInt8.toNat = v.toNat := by simp; omega
    have n1 : (v.toUInt8 == 0xFD) = false := by
      simp only [beq_eq_false_iff_ne, ne_eq]; intro c; rw [c] at e; simp at e; omega
    have n2 : (v.toUInt8 == 0xFE) = false := by
      simp only [beq_eq_false_iff_ne, ne_eq]; intro c; rw [c] at e; simp at e; omega
    have n3 : (v.toUInt8 == 0xFF) = false := by
      simp only [beq_eq_false_iff_ne, ne_eq]; intro c; rw [c] at e; simp at e; omega
    have e2 : v.toUInt8.toUInt64 = v := by
      apply UInt64.toNat_inj.mp; simp; omega
    simp only [readVarUint, List.singleton_append, b1, ob, n1, n2, n3, e2, hmax]; simp [hle]
  · split
    · rename_i h1 h2
      have h' : v.toNat ≤ 0xFFFF := by simpa [UInt64.le_iff_toNat_le] using h2
      have e2 : UInt64.ofNat v.toUInt16.toNat = v := by
        apply UInt64.toNat_inj.mp; simp [UInt64.toNat_ofNat']; omega
      have := v.toUInt16.toNat_lt
      simp only [readVarUint, List.cons_append, b1, ob, Codec.wU16, readFull_append' 2 _ r (leN_length _ _),
        ofLe_leN 2 v.toUInt16.toNat (by omega), e2, hmax]; simp [hle]
    · split
      · rename_i h1 h2 h3
        have h' : v.toNat ≤ 0xFFFFFFFF := by simpa [UInt64.le_iff_toNat_le] using h3
        have e2 : UInt64.ofNat v.toUInt32.toNat = v := by
          apply UInt64.toNat_inj.mp; simp [UInt64.toNat_ofNat']; omega
        have := v.toUInt32.toNat_lt
        simp only [readVarUint, List.cons_append, b1, ob, Codec.wU32, readFull_append' 4 _ r (leN_length _ _),
          ofLe_leN 4 v.toUInt32.toNat (by omega), e2, hmax]; simp [hle]
      · have e2 : UInt64.ofNat v.toNat = v := by simp
        simp only [readVarUint, List.cons_append, b1, ob, Codec.wU64, readFull_append' 8 _ r (leN_length _ _),
          ofLe_leN 8 v.toNat (by omega), e2, hmax]; simp [hle]

theorem byteXReader_append (a r : Bytes) (h : a.length < 2 ^ 63) :
    byteXReader (UInt64.ofNat a.length) (a ++ r) = (.ok a, r) := by
  have e : (UInt64.ofNat a.length).toNat = a.length := by simp [UInt64.toNat_ofNat']; omega
  unfold byteXReader
  by_cases h0 : a.length = 0
  · have : a = [] := List.length_eq_zero_iff.mp h0
    subst this; simp
  have c0 : (UInt64.ofNat a.length == 0) = false := by
    simp only [beq_eq_false_iff_ne, ne_eq]; intro c
    have := congrArg UInt64.toNat c; simp only [e] at this; simp at this; exact h0 (by simp [this])
  simp only [c0, Bool.false_eq_true, if_false]
  by_cases h1 : UInt64.ofNat a.length < 2 * 1024 * 1024
  · simp only [h1, if_true, e]; exact readFull_append a r
  · have h2 : ¬ (UInt64.ofNat a.length ≥ 0x8000000000000000) := by
      simp only [ge_iff_le, UInt64.le_iff_toNat_le, e]; simp; omega
    simp only [h1, if_false, h2, e]; simp

theorem readVarBytes_w (b r : Bytes) (h : b.length < 2 ^ 63) : readVarBytes (Codec.wVarBytes b ++ r) = (.ok b, r) := by
  simp only [readVarBytes, Codec.wVarBytes, List.append_assoc, readVarUint_w, byteXReader_append b r h]

theorem readFixed_w (n : Nat) (b r : Bytes) (h : b.length = n) (hn : n < 2 ^ 63) : readFixed n (b ++ r) = (.ok b, r) := by
  subst h; exact byteXReader_append b r hn

theorem readByte_w (v : UInt8) (r : Bytes) : readByte (Codec.wU8 v ++ r) = (.ok v, r) := by
  simp [readByte, byteXReader, Codec.wU8, readFull, ofLe]


def isErr {α : Type} (r : R α) : Prop := ∃ e, r.1 = .error e

theorem readUintN_short (n : Nat) (bs : Bytes) (h : bs.length < n) : readUintN n bs = (.error .errEof, []) := by
  obtain ⟨e, he⟩ := readFull_short n bs h
  simp [readUintN, he]

theorem readU16_trunc (v : UInt16) (k : Nat) (hk : k < (Codec.wU16 v).length) : isErr (readU16 ((Codec.wU16 v).take k)) := by
  simp only [Codec.wU16, leN_length] at hk
  exact ⟨.errEof, by simp [readU16, readUintN_short 2 ((Codec.wU16 v).take k) (by simp [Codec.wU16]; omega)]⟩
theorem readU32_trunc (v : UInt32) (k : Nat) (hk : k < (Codec.wU32 v).length) : isErr (readU32 ((Codec.wU32 v).take k)) := by
  simp only [Codec.wU32, leN_length] at hk
  exact ⟨.errEof, by simp [readU32, readUintN_short 4 ((Codec.wU32 v).take k) (by simp [Codec.wU32]; omega)]⟩
theorem readU64_trunc (v : UInt64) (k : Nat) (hk : k < (Codec.wU64 v).length) : isErr (readU64 ((Codec.wU64 v).take k)) := by
  simp only [Codec.wU64, leN_length] at hk
  exact ⟨.errEof, by simp [readU64, readUintN_short 8 ((Codec.wU64 v).take k) (by simp [Codec.wU64]; omega)]⟩

theorem readVarUint_body_short (b : UInt8) (t : Bytes) (n : Nat) (hb : (b = 0xFD ∧ n = 2) ∨ (b = 0xFE ∧ n = 4) ∨ (b = 0xFF ∧ n = 8))
    (h : t.length < n) : isErr (readVarUint 0 (b :: t)) := by
  obtain ⟨e, he⟩ := readFull_short n t h
  have b1 : readFull 1 (b :: t) = (.ok [b], t) := by simp [readFull]
  have ob : UInt8.ofNat (ofLe [b]) = b := by simp [ofLe]
  rcases hb with ⟨hb, rfl⟩ | ⟨hb, rfl⟩ | ⟨hb, rfl⟩
  · subst hb
    exact ⟨e, by simp only [readVarUint, b1, ob, he]; rfl⟩
  · subst hb
    exact ⟨e, by simp only [readVarUint, b1, ob, he]; rfl⟩
  · subst hb
    exact ⟨e, by simp only [readVarUint, b1, ob, he]; rfl⟩

theorem readVarUint_trunc (v : UInt64) (k : Nat) (hk : k < (Codec.wVarUint v).length) :
    isErr (readVarUint 0 ((Codec.wVarUint v).take k)) := by
  cases k with
  | zero => exact ⟨.eof, by simp [readVarUint, readFull]⟩
  | succ k =>
    unfold Codec.wVarUint at hk ⊢
    by_cases h1 : v < 0xFD
    · simp [h1] at hk
    by_cases h2 : v ≤ 0xFFFF
    · simp only [h1, h2, if_true, if_false, List.length_cons, Codec.wU16, leN_length] at hk
      simp only [h1, h2, if_true, if_false, List.take_succ_cons]
      exact readVarUint_body_short _ _ 2 (Or.inl ⟨rfl, rfl⟩) (by simp [Codec.wU16]; omega)
    by_cases h3 : v ≤ 0xFFFFFFFF
    · simp only [h1, h2, h3, if_true, if_false, List.length_cons, Codec.wU32, leN_length] at hk
      simp only [h1, h2, h3, if_true, if_false, List.take_succ_cons]
      exact readVarUint_body_short _ _ 4 (Or.inr (Or.inl ⟨rfl, rfl⟩)) (by simp [Codec.wU32]; omega)
    · simp only [h1, h2, h3, if_false, List.length_cons, Codec.wU64, leN_length] at hk
      simp only [h1, h2, h3, if_false, List.take_succ_cons]
      exact readVarUint_body_short _ _ 8 (Or.inr (Or.inr ⟨rfl, rfl⟩)) (by simp [Codec.wU64]; omega)

theorem byteXReader_short (x : UInt64) (bs : Bytes) (h : bs.length < x.toNat) : isErr (byteXReader x bs) := by
  unfold byteXReader
  have c0 : (x == 0) = false := by
    simp only [beq_eq_false_iff_ne, ne_eq]; intro c; subst c; simp at h
  simp only [c0, Bool.false_eq_true, if_false]
  split
  · obtain ⟨e, he⟩ := readFull_short _ _ h; exact ⟨e, by rw [he]⟩
  · split
    · exact ⟨.errEof, rfl⟩
    · rw [if_neg (by omega)]; exact ⟨.errEof, rfl⟩

/-- a declared length larger than the remaining data is an error in the streaming codec as well -/
theorem readVarBytes_short (bs r1 : Bytes) (n : UInt64) (h : readVarUint 0 bs = (.ok n, r1)) (hl : r1.length < n.toNat) :
    isErr (readVarBytes bs) := by
  simp only [readVarBytes, h]; exact byteXReader_short n r1 hl

theorem readVarBytes_trunc (b : Bytes) (h : b.length < 2 ^ 64) (k : Nat) (hk : k < (Codec.wVarBytes b).length) :
    isErr (readVarBytes ((Codec.wVarBytes b).take k)) := by
  have e : (UInt64.ofNat b.length).toNat = b.length := by
    simp [UInt64.toNat_ofNat']; omega
  unfold Codec.wVarBytes at hk ⊢
  rw [List.take_append]
  by_cases hc : k < (Codec.wVarUint (UInt64.ofNat b.length)).length
  · obtain ⟨er, her⟩ := readVarUint_trunc _ k hc
    have z : k - (Codec.wVarUint (UInt64.ofNat b.length)).length = 0 := by omega
    simp only [z, List.take_zero, List.append_nil, readVarBytes]
    generalize readVarUint 0 (List.take k (Codec.wVarUint (UInt64.ofNat b.length))) = q at her
    obtain ⟨q1, q2⟩ := q
    simp only at her; subst her
    exact ⟨er, rfl⟩
  · rw [List.take_of_length_le (by omega)]
    simp only [List.length_append] at hk
    exact readVarBytes_short _ _ _ (readVarUint_w _ _) (by simp [List.length_take, e]; omega)

end Stream

/-! ## the sink mechanism -/
namespace Sink
theorem put_end (buf data pad : Bytes) : put (buf ++ (List.replicate data.length 0 ++ pad)) buf.length data = buf ++ data ++ pad := by
  simp [put, List.take_append, List.drop_append]

theorem writeVarUint_eq (buf : Bytes) (v : UInt64) :
    writeVarUint buf v = some (buf ++ wVarUint v, varUintSize v) := by
  have r9 : ∀ (a b : Nat), a + b = 9 → List.replicate 9 (0 : UInt8) = List.replicate a 0 ++ List.replicate b 0 := by
    intro a b h; rw [← h, List.replicate_append_replicate]
  have key : ∀ (data : Bytes) (a b : Nat), data.length = a → a + b = 9 →
      (backUp (put (buf ++ List.replicate 9 0) buf.length data) (9 - a)).map (fun c => (c, a)) = some (buf ++ data, a) := by
    intro data a b hd hab
    subst hd
    rw [r9 _ b hab, put_end]
    have : 9 - data.length = b := by omega
    have hl : (buf ++ data ++ List.replicate b 0).length - b = (buf ++ data).length := by simp; omega
    unfold backUp
    rw [this, if_pos (by simp; omega), hl, List.take_left]
    rfl
  unfold writeVarUint wVarUint varUintSize nextBytes
  by_cases h1 : v < 0xFD
  · simp only [h1, if_true]; exact key _ 1 8 rfl rfl
  by_cases h2 : v ≤ 0xFFFF
  · simp only [h1, h2, if_true, if_false]; exact key _ 3 6 (by simp [wU16]) rfl
  by_cases h3 : v ≤ 0xFFFFFFFF
  · simp only [h1, h2, h3, if_true, if_false]; exact key _ 5 4 (by simp [wU32]) rfl
  · simp only [h1, h2, h3, if_false]; exact key _ 9 0 (by simp [wU64]) rfl
end Sink
end Poly.Model.Codec
