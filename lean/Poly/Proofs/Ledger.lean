import Poly.Model.Ledger
/-!
Helper lemmas about the ledger model: what a commit of the batches filled by `submitBlock` leaves in each store,
and what `openState` / `recoverStore` compute on the durable states a crash can leave behind.
-/
namespace Poly.Model.Ledger

/-! ### applying batches -/

@[simp] theorem BlockDB.commit_nil (db : BlockDB) : db.commit [] = db := rfl
@[simp] theorem BlockDB.commit_cons (db : BlockDB) (w : BWrite) (ws : List BWrite) :
    db.commit (w :: ws) = (db.apply w).commit ws := rfl
theorem BlockDB.commit_append (db : BlockDB) (a b : List BWrite) : db.commit (a ++ b) = (db.commit a).commit b := by
  simp [BlockDB.commit, List.foldl_append]

@[simp] theorem StateDB.commit_nil (db : StateDB) : db.commit [] = db := rfl
@[simp] theorem StateDB.commit_cons (db : StateDB) (w : SWrite) (ws : List SWrite) :
    db.commit (w :: ws) = (db.apply w).commit ws := rfl
theorem StateDB.commit_append (db : StateDB) (a b : List SWrite) : db.commit (a ++ b) = (db.commit a).commit b := by
  simp [StateDB.commit, List.foldl_append]

@[simp] theorem EventDB.commit_nil (db : EventDB) : db.commit [] = db := rfl
@[simp] theorem EventDB.commit_cons (db : EventDB) (w : EWrite) (ws : List EWrite) :
    db.commit (w :: ws) = (db.apply w).commit ws := rfl
theorem EventDB.commit_append (db : EventDB) (a b : List EWrite) : db.commit (a ++ b) = (db.commit a).commit b := by
  simp [EventDB.commit, List.foldl_append]

/-- writes that do not touch the system keys (current block, accumulators) of the state store -/
def SWrite.isData : SWrite → Bool
  | .cross .. => true
  | .raw .. => true
  | .stateRoot .. => true
  | _ => false

theorem StateDB.commit_data (db : StateDB) (ws : List SWrite) (h : ∀ w ∈ ws, w.isData = true) :
    (db.commit ws).current = db.current ∧ (db.commit ws).blockTree = db.blockTree ∧
    (db.commit ws).stateTree = db.stateTree := by
  induction ws generalizing db with
  | nil => simp
  | cons w ws ih =>
    have hw := h w (by simp)
    have := ih (db.apply w) (fun x hx => h x (by simp [hx]))
    rw [StateDB.commit_cons]
    cases w <;> simp_all [StateDB.apply, SWrite.isData]

/-- system keys of the state store after committing the state batch of block `b` -/
theorem commit_stateBatch_sys (p : Params) (st bt : List Bytes) (b : Block) (res : ExecResult) (db : StateDB) :
    (db.commit (stateBatch p st bt b res)).current = some (b.header.hash, b.header.height) ∧
    (db.commit (stateBatch p st bt b res)).blockTree = some (newBlockTree bt b) ∧
    (db.commit (stateBatch p st bt b res)).stateTree = some (newStateTree st b res) := by
  unfold stateBatch
  rw [StateDB.commit_append, StateDB.commit_append]
  have h2 := StateDB.commit_data
    ((db.commit [SWrite.stateTree (newStateTree st b res),
        .stateRoot b.header.height res.changeHash (treeRoot p (newStateTree st b res)),
        .blockTree (newBlockTree bt b), .current b.header.hash b.header.height]).commit
      (if res.crossHashes.isEmpty then [] else [SWrite.cross b.header.height res.crossHashes (accRoot p.H res.crossHashes)]))
    (res.writeSet.map fun kv => SWrite.raw kv.1 kv.2)
    (by intro w hw; simp at hw; obtain ⟨a, c, _, rfl⟩ := hw; rfl)
  have h1 := StateDB.commit_data
    (db.commit [SWrite.stateTree (newStateTree st b res),
        .stateRoot b.header.height res.changeHash (treeRoot p (newStateTree st b res)),
        .blockTree (newBlockTree bt b), .current b.header.hash b.header.height])
    (if res.crossHashes.isEmpty then [] else [SWrite.cross b.header.height res.crossHashes (accRoot p.H res.crossHashes)])
    (by intro w hw; split at hw <;> simp at hw; subst hw; rfl)
  obtain ⟨a1, a2, a3⟩ := h1
  obtain ⟨b1, b2, b3⟩ := h2
  rw [b1, b2, b3, a1, a2, a3]
  simp [StateDB.apply]

/-! ### the block batch -/

@[simp] theorem indexMem_stateTree (p : Params) (m : Mem) : (indexMem p m).stateTree = m.stateTree := by
  unfold indexMem; split <;> rfl
@[simp] theorem indexMem_blockTree (p : Params) (m : Mem) : (indexMem p m).blockTree = m.blockTree := by
  unfold indexMem; split <;> rfl
@[simp] theorem indexMem_filePos (p : Params) (m : Mem) : (indexMem p m).filePos = m.filePos := by
  unfold indexMem; split <;> rfl
@[simp] theorem fillBlockMem_stateTree (p : Params) (m : Mem) (b : Block) : (fillBlockMem p m b).stateTree = m.stateTree := by
  simp [fillBlockMem, setIndex]
@[simp] theorem fillBlockMem_blockTree (p : Params) (m : Mem) (b : Block) : (fillBlockMem p m b).blockTree = m.blockTree := by
  simp [fillBlockMem, setIndex]
@[simp] theorem fillBlockMem_filePos (p : Params) (m : Mem) (b : Block) : (fillBlockMem p m b).filePos = m.filePos := by
  simp [fillBlockMem, setIndex]

theorem upd_same {α β : Type} [DecidableEq α] (f : α → Option β) (a : α) (b : Option β) : upd f a b a = b := by
  simp [upd]

theorem upd_other {α β : Type} [DecidableEq α] (f : α → Option β) (a x : α) (b : Option β) (h : x ≠ a) :
    upd f a b x = f x := by
  simp [upd, h]

theorem BlockDB.commit_indexWrites (p : Params) (m : Mem) (db : BlockDB) :
    (db.commit (indexWrites p m)).version = db.version ∧ (db.commit (indexWrites p m)).current = db.current ∧
    (db.commit (indexWrites p m)).hashAt = db.hashAt ∧ (db.commit (indexWrites p m)).blockAt = db.blockAt ∧
    (db.commit (indexWrites p m)).txAt = db.txAt := by
  unfold indexWrites; split <;> simp [BlockDB.apply]

/-- what the block store holds after the block batch of `b` was committed -/
theorem commit_blockBatch (p : Params) (m : Mem) (b : Block) (db : BlockDB) :
    (db.commit (blockBatch p m b)).version = db.version ∧
    (db.commit (blockBatch p m b)).current = some (b.header.hash, b.header.height) ∧
    (db.commit (blockBatch p m b)).hashAt b.header.height = some b.header.hash ∧
    (db.commit (blockBatch p m b)).blockAt b.header.hash = some b := by
  unfold blockBatch
  rw [BlockDB.commit_append]
  obtain ⟨h1, h2, h3, h4, h5⟩ := BlockDB.commit_indexWrites p (setIndex m b.header.height b.header.hash) db
  simp [BlockDB.apply, upd_same, h1]

/-! ### the event store is last-writer-wins: committing the same batch twice changes nothing -/

def wCurrent : EWrite → Option (Hash × Nat)
  | .current h n => some (h, n)
  | _ => none
def wNotify (t : Hash) : EWrite → Option Bool
  | .notify t' ok => if t = t' then some ok else none
  | _ => none
def wByBlock (n : Nat) : EWrite → Option (List Hash)
  | .byBlock n' ts => if n = n' then some ts else none
  | _ => none

def lastCurrent : List EWrite → Option (Hash × Nat)
  | [] => none
  | w :: ws => (lastCurrent ws).or (wCurrent w)
def lastNotify (t : Hash) : List EWrite → Option Bool
  | [] => none
  | w :: ws => (lastNotify t ws).or (wNotify t w)
def lastByBlock (n : Nat) : List EWrite → Option (List Hash)
  | [] => none
  | w :: ws => (lastByBlock n ws).or (wByBlock n w)

theorem EventDB.apply_current (db : EventDB) (w : EWrite) : (db.apply w).current = (wCurrent w).or db.current := by
  cases w <;> simp [EventDB.apply, wCurrent]
theorem EventDB.apply_notifyAt (db : EventDB) (w : EWrite) (t : Hash) :
    (db.apply w).notifyAt t = (wNotify t w).or (db.notifyAt t) := by
  cases w <;> simp [EventDB.apply, wNotify, upd] <;> split <;> simp
theorem EventDB.apply_byBlock (db : EventDB) (w : EWrite) (n : Nat) :
    (db.apply w).byBlock n = (wByBlock n w).or (db.byBlock n) := by
  cases w <;> simp [EventDB.apply, wByBlock, upd] <;> split <;> simp

theorem EventDB.commit_current (db : EventDB) (ws : List EWrite) :
    (db.commit ws).current = (lastCurrent ws).or db.current := by
  induction ws generalizing db with
  | nil => simp [lastCurrent]
  | cons w ws ih => rw [EventDB.commit_cons, ih, lastCurrent, EventDB.apply_current, Option.or_assoc]

theorem EventDB.commit_notifyAt (db : EventDB) (ws : List EWrite) (t : Hash) :
    (db.commit ws).notifyAt t = (lastNotify t ws).or (db.notifyAt t) := by
  induction ws generalizing db with
  | nil => simp [lastNotify]
  | cons w ws ih => rw [EventDB.commit_cons, ih, lastNotify, EventDB.apply_notifyAt, Option.or_assoc]

theorem EventDB.commit_byBlock (db : EventDB) (ws : List EWrite) (n : Nat) :
    (db.commit ws).byBlock n = (lastByBlock n ws).or (db.byBlock n) := by
  induction ws generalizing db with
  | nil => simp [lastByBlock]
  | cons w ws ih => rw [EventDB.commit_cons, ih, lastByBlock, EventDB.apply_byBlock, Option.or_assoc]

theorem EventDB.commit_idem (db : EventDB) (ws : List EWrite) : (db.commit ws).commit ws = db.commit ws := by
  apply EventDB.ext
  · rw [EventDB.commit_current, EventDB.commit_current]; cases lastCurrent ws <;> simp
  · funext t; rw [EventDB.commit_notifyAt, EventDB.commit_notifyAt]; cases lastNotify t ws <;> simp
  · funext n; rw [EventDB.commit_byBlock, EventDB.commit_byBlock]; cases lastByBlock n ws <;> simp

/-! ### restart after a crash inside `submitBlock` -/

/-- memory mirrors the durable stores (all but the version key, which the genesis start writes last) -/
structure SyncedCore (s : State) : Prop where
  blocksCur : s.dur.blocks.current = some (s.mem.currHash, s.mem.currHeight)
  statesCur : s.dur.states.current = some (s.mem.currHash, s.mem.currHeight)
  blockTree : s.dur.states.blockTree = some s.mem.blockTree
  stateTree : s.dur.states.stateTree = some s.mem.stateTree
  btLen : s.mem.blockTree.length = s.mem.currHeight + 1
  stLen : s.mem.stateTree.length = s.mem.currHeight + 1
  filePos : s.mem.filePos = storedNum s.mem.blockTree.length
  fileLen : s.mem.filePos ≤ s.dur.fileLen

/-- memory mirrors the durable stores (what every completed operation re-establishes) -/
structure Synced (s : State) : Prop extends SyncedCore s where
  version : s.dur.blocks.version = true

/-- the durable state left by a stop at crash point `k` while persisting `b` (executed on the current state) -/
def crashD (p : Params) (s : State) (b : Block) (k : Nat) : Durable :=
  persisted s.dur (fillAll p s b (p.exec s.dur.states.kv b)) k

theorem storedNum_succ (n : Nat) : storedNum (n + 1) = storedNum n + appendCount n := rfl

theorem fillAll_fileLen (p : Params) (s : State) (b : Block) (res : ExecResult) :
    (fillAll p s b res).fileLen = max s.dur.fileLen (s.mem.filePos + appendCount s.mem.blockTree.length) := by
  simp [fillAll, fillMem]

theorem openState_crash_lt (p : Params) (s : State) (b : Block) (k : Nat) (hs : Synced s) (hk : k < 3) :
    openState (crashD p s b k) = .ok (s.mem.blockTree, s.mem.stateTree, s.mem.filePos) := by
  have h3 : ¬ k ≥ 3 := by omega
  have hfl := hs.fileLen
  have hfp := hs.filePos
  simp only [openState, crashD, persisted, h3, if_false, hs.statesCur, hs.blockTree, hs.stateTree, Option.getD_some,
    fillAll_fileLen, hs.btLen, hs.stLen]
  rw [hs.btLen] at hfp
  simp
  rw [if_neg (by omega)]
  simp [hfp]

theorem newStateTree_length (st : List Bytes) (b : Block) (res : ExecResult) (h : b.header.height ≠ 0) :
    (newStateTree st b res).length = st.length + 1 := by
  simp [newStateTree, h]

theorem openState_crash3 (p : Params) (s : State) (b : Block) (hs : Synced s)
    (hh : b.header.height = s.mem.currHeight + 1) :
    openState (crashD p s b 3) =
      .ok (newBlockTree s.mem.blockTree b, newStateTree s.mem.stateTree b (p.exec s.dur.states.kv b),
           storedNum (s.mem.blockTree.length + 1)) := by
  have hfl := hs.fileLen
  have hfp := hs.filePos
  have hne : b.header.height ≠ 0 := by omega
  obtain ⟨c1, c2, c3⟩ := commit_stateBatch_sys p s.mem.stateTree s.mem.blockTree b (p.exec s.dur.states.kv b) s.dur.states
  have e1 : (crashD p s b 3).states = s.dur.states.commit (stateBatch p s.mem.stateTree s.mem.blockTree b (p.exec s.dur.states.kv b)) := by
    simp [crashD, persisted, fillAll]
  have e2 : (crashD p s b 3).fileLen = max s.dur.fileLen (s.mem.filePos + appendCount s.mem.blockTree.length) := by
    simp [crashD, persisted, fillAll_fileLen]
  have l1 : (newBlockTree s.mem.blockTree b).length = s.mem.blockTree.length + 1 := by simp [newBlockTree]
  have l2 := newStateTree_length s.mem.stateTree b (p.exec s.dur.states.kv b) hne
  unfold openState
  rw [e1, e2, c1, c2, c3]
  simp only [Option.getD_some, l1, l2, storedNum_succ]
  have hb := hs.btLen
  have hst := hs.stLen
  rw [if_neg (by omega), if_neg (by omega), if_neg (by omega)]

theorem recoverStore_crash3 (p : Params) (s : State) (b : Block) (m : Mem) (hm : m.currHeight = b.header.height) :
    recoverStore p (crashD p s b 3) m = .ok (crashD p s b 3, m) := by
  obtain ⟨c1, -, -⟩ := commit_stateBatch_sys p s.mem.stateTree s.mem.blockTree b (p.exec s.dur.states.kv b) s.dur.states
  have e1 : (crashD p s b 3).states = s.dur.states.commit (stateBatch p s.mem.stateTree s.mem.blockTree b (p.exec s.dur.states.kv b)) := by
    simp [crashD, persisted, fillAll]
  unfold recoverStore
  rw [e1, c1]
  simp [hm]
  rfl

theorem recoverStore_crash12 (p : Params) (s : State) (b : Block) (m : Mem) (k : Nat) (hs : Synced s)
    (hh : b.header.height = s.mem.currHeight + 1) (hk : k = 1 ∨ k = 2)
    (hm : m.currHeight = b.header.height) (hst : m.stateTree = s.mem.stateTree) (hbt : m.blockTree = s.mem.blockTree)
    (hfp : m.filePos = s.mem.filePos) :
    recoverStore p (crashD p s b k) m = .ok (crashD p s b 3, fillMem m b (p.exec s.dur.states.kv b)) := by
  have h3 : ¬ k ≥ 3 := by omega
  have h1 : k ≥ 1 := by omega
  obtain ⟨-, -, b3, b4⟩ := commit_blockBatch p s.mem b s.dur.blocks
  have eS : (crashD p s b k).states = s.dur.states := by simp [crashD, persisted, h3]
  have eB : (crashD p s b k).blocks = s.dur.blocks.commit (blockBatch p s.mem b) := by simp [crashD, persisted, h1, fillAll]
  unfold recoverStore
  rw [eS, hs.statesCur]
  simp only [hm, hh]
  have hr : List.range' (s.mem.currHeight + 1) (s.mem.currHeight + 1 - s.mem.currHeight) = [s.mem.currHeight + 1] := by
    have : s.mem.currHeight + 1 - s.mem.currHeight = 1 := by omega
    rw [this]; rfl
  rw [hr]
  simp only [List.foldlM_cons, List.foldlM_nil]
  unfold recoverOne
  simp only [eB, eS]
  rw [← hh, b3]
  simp only [b4]
  show (Except.ok _ >>= pure) = _
  simp only [bind, Except.bind, pure, Except.pure]
  congr 1
  apply Prod.ext
  · simp only
    apply Durable.ext
    · simp [crashD, persisted, fillAll]
    · simp [crashD, persisted, hst, hbt, fillAll]
    · simp only [crashD, persisted, fillAll]
      rcases hk with rfl | rfl
      · simp
      · simp [EventDB.commit_idem]
    · simp only [crashD, persisted, fillAll_fileLen, fillMem, hfp, hbt]
      omega
  · rfl


theorem crashD_blocks (p : Params) (s : State) (b : Block) (k : Nat) (h1 : k ≥ 1) :
    (crashD p s b k).blocks = s.dur.blocks.commit (blockBatch p s.mem b) := by
  simp [crashD, persisted, h1, fillAll]

theorem resume_crash12 (p : Params) (s : State) (b : Block) (k : Nat) (hs : Synced s)
    (hh : b.header.height = s.mem.currHeight + 1) (hk : k = 1 ∨ k = 2) :
    resume p (crashD p s b k) s.mem.blockTree s.mem.stateTree s.mem.filePos =
    resume p (crashD p s b 3) (newBlockTree s.mem.blockTree b)
      (newStateTree s.mem.stateTree b (p.exec s.dur.states.kv b)) (storedNum (s.mem.blockTree.length + 1)) := by
  have h1 : k ≥ 1 := by omega
  obtain ⟨-, c2, -, -⟩ := commit_blockBatch p s.mem b s.dur.blocks
  unfold resume
  rw [crashD_blocks p s b k h1, crashD_blocks p s b 3 (by omega), c2]
  simp only
  cases hli : loadIndex (s.dur.blocks.commit (blockBatch p s.mem b)) b.header.height with
  | error e => rfl
  | ok r =>
    obtain ⟨idx, cnt, stored⟩ := r
    simp only
    rw [recoverStore_crash12 p s b
          { emptyMem with currHeight := b.header.height, currHash := b.header.hash, headerIndex := idx, headerCount := cnt,
                          storedIndexCount := stored, blockTree := s.mem.blockTree, stateTree := s.mem.stateTree,
                          filePos := s.mem.filePos } k hs hh hk rfl rfl rfl rfl,
        recoverStore_crash3 p s b
          { emptyMem with currHeight := b.header.height, currHash := b.header.hash, headerIndex := idx, headerCount := cnt,
                          storedIndexCount := stored, blockTree := newBlockTree s.mem.blockTree b,
                          stateTree := newStateTree s.mem.stateTree b (p.exec s.dur.states.kv b),
                          filePos := storedNum (s.mem.blockTree.length + 1) } rfl]
    simp only [fillMem, storedNum_succ, hs.filePos]



/-- **restart after a crash behind the first commit** ends exactly where a restart after the complete submission ends -/
theorem reopen_crash12 (p : Params) (g : Block) (s : State) (b : Block) (k : Nat) (hs : Synced s)
    (hh : b.header.height = s.mem.currHeight + 1) (hk : k = 1 ∨ k = 2) :
    reopen p g (crashD p s b k) = reopen p g (crashD p s b 3) := by
  have h1 : k ≥ 1 := by omega
  have h3 : k < 3 := by omega
  unfold reopen
  rw [openState_crash_lt p s b k hs h3, openState_crash3 p s b hs hh]
  simp only
  rw [crashD_blocks p s b k h1, crashD_blocks p s b 3 (by omega)]
  rw [← crashD_blocks p s b k h1, resume_crash12 p s b k hs hh hk, crashD_blocks p s b k h1]
  rw [← crashD_blocks p s b 3 (by omega)]
  have hv : (crashD p s b 3).blocks.version = true := by
    rw [crashD_blocks p s b 3 (by omega), (commit_blockBatch p s.mem b s.dur.blocks).1, hs.version]
  simp [hv]


/-! ### restart of a consistent ledger -/

/-- the in-memory state `init()` builds for a consistent ledger (before the validator sets are loaded) -/
def restartMem (s : State) (r : (Nat → Option Hash) × Nat × Nat) : Mem :=
  { emptyMem with currHeight := s.mem.currHeight, currHash := s.mem.currHash, headerIndex := r.1, headerCount := r.2.1,
                  storedIndexCount := r.2.2, blockTree := s.mem.blockTree, stateTree := s.mem.stateTree,
                  filePos := s.mem.filePos }

/-- the three stores of `d` are those of `s` (the hash file may be longer) -/
def SameStores (d : Durable) (s : State) : Prop :=
  d.blocks = s.dur.blocks ∧ d.states = s.dur.states ∧ d.events = s.dur.events ∧ s.mem.filePos ≤ d.fileLen

theorem openState_synced (s : State) (d : Durable) (hs : Synced s) (hd : SameStores d s) :
    openState d = .ok (s.mem.blockTree, s.mem.stateTree, s.mem.filePos) := by
  obtain ⟨-, h2, -, h4⟩ := hd
  have hfp := hs.filePos
  have hb := hs.btLen
  have hst := hs.stLen
  unfold openState
  rw [h2, hs.statesCur, hs.blockTree, hs.stateTree]
  simp only [Option.getD_some]
  rw [if_neg (by omega), if_neg (by omega), if_neg (by omega), hfp]

theorem recoverStore_synced (p : Params) (s : State) (d : Durable) (m : Mem) (hs : Synced s) (hd : SameStores d s)
    (hm : m.currHeight = s.mem.currHeight) : recoverStore p d m = .ok (d, m) := by
  unfold recoverStore
  rw [hd.2.1, hs.statesCur]
  simp [hm]
  rfl

theorem resume_synced (p : Params) (s : State) (d : Durable) (hs : Synced s) (hd : SameStores d s) :
    resume p d s.mem.blockTree s.mem.stateTree s.mem.filePos =
      match loadIndex s.dur.blocks s.mem.currHeight with
      | .error e => .error e
      | .ok r => .ok { dur := d, mem := restartMem s r } := by
  unfold resume
  rw [hd.1, hs.blocksCur]
  simp only
  cases hli : loadIndex s.dur.blocks s.mem.currHeight with
  | error e => rfl
  | ok r =>
    obtain ⟨idx, cnt, stored⟩ := r
    simp only
    rw [recoverStore_synced p s d
          { emptyMem with currHeight := s.mem.currHeight, currHash := s.mem.currHash, headerIndex := idx, headerCount := cnt,
                          storedIndexCount := stored, blockTree := s.mem.blockTree, stateTree := s.mem.stateTree,
                          filePos := s.mem.filePos } hs hd rfl]
    rfl

/-- restart of a consistent ledger: nothing is replayed, the durable state is untouched -/
theorem reopen_synced (p : Params) (g : Block) (s : State) (d : Durable) (hs : Synced s) (hd : SameStores d s) :
    reopen p g d =
      if (s.dur.blocks.blockAt g.header.hash).isNone then .error .genesis
      else match loadIndex s.dur.blocks s.mem.currHeight with
        | .error e => .error e
        | .ok r => withPeers { dur := d, mem := restartMem s r } := by
  unfold reopen
  rw [openState_synced s d hs hd]
  simp only [hd.1, hs.version, Bool.not_true, Bool.false_eq_true, if_false]
  by_cases hg : (s.dur.blocks.blockAt g.header.hash).isNone = true
  · simp [hg]
  · simp only [hg]
    rw [resume_synced p s d hs hd]
    cases loadIndex s.dur.blocks s.mem.currHeight <;> rfl



theorem loadPeers_congr (d1 d2 : Durable) (m : Mem) (h : d1.blocks = d2.blocks) : loadPeers d1 m = loadPeers d2 m := by
  unfold loadPeers; rw [h]

/-- replace the hash-file length (the only durable thing a crash before the first commit changes) -/
def withFileLen (fl : Nat) (t : State) : State := { t with dur := { t.dur with fileLen := fl } }

theorem crashD0_same (p : Params) (s : State) (b : Block) (hs : Synced s) : SameStores (crashD p s b 0) s := by
  have := hs.fileLen
  refine ⟨rfl, rfl, rfl, ?_⟩
  simp only [crashD, persisted, fillAll_fileLen]
  omega

theorem sameStores_self (s : State) (hs : Synced s) : SameStores s.dur s := ⟨rfl, rfl, rfl, hs.fileLen⟩

/-- **restart after a crash before the first commit**: the block is lost as a whole; the result is the restart of
the ledger as it was before the submission, except that the hash file keeps the appended (unreferenced) tail -/
theorem reopen_crash0 (p : Params) (g : Block) (s : State) (b : Block) (hs : Synced s) :
    reopen p g (crashD p s b 0) = (reopen p g s.dur).map (withFileLen (crashD p s b 0).fileLen) := by
  rw [reopen_synced p g s _ hs (crashD0_same p s b hs), reopen_synced p g s _ hs (sameStores_self s hs)]
  by_cases hg : (s.dur.blocks.blockAt g.header.hash).isNone = true
  · simp [hg, Except.map]
  · simp only [hg]
    cases loadIndex s.dur.blocks s.mem.currHeight with
    | error e => rfl
    | ok r =>
      simp only [withPeers]
      rw [loadPeers_congr (crashD p s b 0) s.dur _ rfl]
      cases loadPeers s.dur (restartMem s r) <;> rfl


/-! ### every operation keeps memory and stores consistent -/

/-- the state `submitBlock` produces once its guards have passed -/
def submitted (p : Params) (s : State) (b : Block) (res : ExecResult) : State :=
  { dur := persisted s.dur (fillAll p s b res) 3,
    mem := { (fillAll p s b res).mem with currHeight := b.header.height, currHash := b.header.hash } }

theorem submitBlock_eq (p : Params) (s s' : State) (b : Block) (res : ExecResult)
    (h : submitBlock p s b res = .ok s') : s' = submitted p s b res ∧ submitGuards p s b = .ok () := by
  unfold submitBlock at h
  split at h
  · cases h
  · rename_i hg
    injection h with h
    exact ⟨h.symm, hg⟩

theorem submitted_dur (p : Params) (s : State) (b : Block) :
    (submitted p s b (p.exec s.dur.states.kv b)).dur = crashD p s b 3 := rfl

theorem submitted_syncedCore (p : Params) (s : State) (b : Block) (res : ExecResult)
    (hbt : s.mem.blockTree.length = b.header.height)
    (hst : b.header.height = 0 ∨ s.mem.stateTree.length = b.header.height)
    (hfp : s.mem.filePos = storedNum s.mem.blockTree.length) : SyncedCore (submitted p s b res) := by
  obtain ⟨b1, b2, -, -⟩ := commit_blockBatch p s.mem b s.dur.blocks
  obtain ⟨c1, c2, c3⟩ := commit_stateBatch_sys p s.mem.stateTree s.mem.blockTree b res s.dur.states
  constructor
  · simpa [submitted, persisted, fillAll] using b2
  · simpa [submitted, persisted, fillAll] using c1
  · simpa [submitted, persisted, fillAll, fillMem] using c2
  · simpa [submitted, persisted, fillAll, fillMem] using c3
  · simp [submitted, fillAll, fillMem, newBlockTree, hbt]
  · simp only [submitted, fillAll, fillMem, newStateTree, fillBlockMem_stateTree]
    rcases hst with h0 | h1
    · simp [h0]
    · by_cases h0 : b.header.height = 0 <;> simp [h0, h1]
  · simp [submitted, fillAll, fillMem, newBlockTree, hfp, storedNum_succ]
  · simp only [submitted, persisted, fillAll, fillMem]
    omega

/-- a submitted block leaves memory and stores consistent -/
theorem submitted_synced (p : Params) (s : State) (b : Block) (res : ExecResult)
    (hbt : s.mem.blockTree.length = b.header.height)
    (hst : b.header.height = 0 ∨ s.mem.stateTree.length = b.header.height)
    (hfp : s.mem.filePos = storedNum s.mem.blockTree.length)
    (hv : s.dur.blocks.version = true) : Synced (submitted p s b res) := by
  refine ⟨submitted_syncedCore p s b res hbt hst hfp, ?_⟩
  obtain ⟨b1, -, -, -⟩ := commit_blockBatch p s.mem b s.dur.blocks
  simpa [submitted, persisted, fillAll] using b1.trans hv

theorem submitted_synced_next (p : Params) (s : State) (b : Block) (res : ExecResult) (hs : Synced s)
    (hh : b.header.height = s.mem.currHeight + 1) : Synced (submitted p s b res) :=
  submitted_synced p s b res (by rw [hs.btLen, hh]) (Or.inr (by rw [hs.stLen, hh])) hs.filePos hs.version



/-- `submitBlock` re-establishes the consistency of memory and stores -/
theorem submit_synced (p : Params) (s s' : State) (b : Block) (res : ExecResult)
    (hbt : s.mem.blockTree.length = b.header.height)
    (hst : b.header.height = 0 ∨ s.mem.stateTree.length = b.header.height)
    (hfp : s.mem.filePos = storedNum s.mem.blockTree.length)
    (hv : s.dur.blocks.version = true)
    (h : submitBlock p s b res = .ok s') : Synced s' := by
  rw [(submitBlock_eq p s s' b res h).1]
  exact submitted_synced p s b res hbt hst hfp hv

theorem synced_of_mem_core (s t : State) (hs : Synced s) (hd : t.dur = s.dur)
    (h1 : t.mem.currHeight = s.mem.currHeight) (h2 : t.mem.currHash = s.mem.currHash)
    (h3 : t.mem.blockTree = s.mem.blockTree) (h4 : t.mem.stateTree = s.mem.stateTree)
    (h5 : t.mem.filePos = s.mem.filePos) : Synced t := by
  refine ⟨⟨?_, ?_, ?_, ?_, ?_, ?_, ?_, ?_⟩, ?_⟩
  · rw [hd, h1, h2]; exact hs.blocksCur
  · rw [hd, h1, h2]; exact hs.statesCur
  · rw [hd, h3]; exact hs.blockTree
  · rw [hd, h4]; exact hs.stateTree
  · rw [h3, h1]; exact hs.btLen
  · rw [h4, h1]; exact hs.stLen
  · rw [h5, h3]; exact hs.filePos
  · rw [h5, hd]; exact hs.fileLen
  · rw [hd]; exact hs.version

theorem installPeers_synced (s : State) (b : Block) (set : List Key) (hs : Synced s) : Synced (installPeers s b set) :=
  synced_of_mem_core s _ hs rfl rfl rfl rfl rfl rfl

theorem addBlock_synced (p : Params) (s s' : State) (b : Block) (root : Hash) (hs : Synced s)
    (h : addBlock p s b root = .ok s') : Synced s' := by
  unfold addBlock at h
  split at h
  · injection h with h; subst h; exact hs
  · split at h
    · cases h
    · rename_i hle hne
      have hh : b.header.height = s.mem.currHeight + 1 := by omega
      split at h
      · cases h
      · simp only at h
        split at h
        · cases h
        · split at h
          · cases h
          · rename_i s1 hsub
            injection h with h; subst h
            apply installPeers_synced
            exact submit_synced p s s1 b _ (by rw [hs.btLen, hh]) (Or.inr (by rw [hs.stLen, hh])) hs.filePos hs.version hsub

theorem submitChecked_synced (p : Params) (s s' : State) (b : Block) (hs : Synced s)
    (h : submitChecked p s b = .ok s') : Synced s' := by
  unfold submitChecked at h
  split at h
  · injection h with h; subst h; exact hs
  · split at h
    · cases h
    · rename_i hle hne
      have hh : b.header.height = s.mem.currHeight + 1 := by omega
      split at h
      · cases h
      · split at h
        · cases h
        · rename_i s1 hsub
          injection h with h; subst h
          apply installPeers_synced
          exact submit_synced p s s1 b _ (by rw [hs.btLen, hh]) (Or.inr (by rw [hs.stLen, hh])) hs.filePos hs.version hsub

theorem addHeader_synced (p : Params) (s s' : State) (hd : Header) (hs : Synced s)
    (h : addHeader p s hd = .ok s') : Synced s' := by
  unfold addHeader at h
  split at h
  · cases h
  · split at h
    · cases h
    · injection h with h; subst h
      exact synced_of_mem_core s _ hs rfl rfl rfl rfl rfl rfl

theorem withPeers_synced (s t : State) (hs : Synced s) (h : withPeers s = .ok t) : Synced t := by
  unfold withPeers at h
  split at h
  · cases h
  · injection h with h; subst h
    exact synced_of_mem_core s _ hs rfl rfl rfl rfl rfl rfl

/-- restart of a consistent ledger (possibly with a longer hash file): durable state kept, memory consistent -/
theorem reopen_synced_ok (p : Params) (g : Block) (s t : State) (d : Durable) (hs : Synced s) (hd : SameStores d s)
    (h : reopen p g d = .ok t) :
    t.dur = d ∧ Synced t ∧ t.mem.currHeight = s.mem.currHeight ∧ t.mem.currHash = s.mem.currHash := by
  rw [reopen_synced p g s d hs hd] at h
  split at h
  · cases h
  · split at h
    · cases h
    · rename_i r _
      have hs0 : Synced { dur := d, mem := restartMem s r } := by
        obtain ⟨e1, e2, e3, e4⟩ := hd
        refine ⟨⟨?_, ?_, ?_, ?_, ?_, ?_, ?_, ?_⟩, ?_⟩
        · show d.blocks.current = _; rw [e1]; exact hs.blocksCur
        · show d.states.current = _; rw [e2]; exact hs.statesCur
        · show d.states.blockTree = _; rw [e2]; exact hs.blockTree
        · show d.states.stateTree = _; rw [e2]; exact hs.stateTree
        · exact hs.btLen
        · exact hs.stLen
        · exact hs.filePos
        · exact e4
        · show d.blocks.version = _; rw [e1]; exact hs.version
      unfold withPeers at h
      split at h
      · cases h
      · injection h with h; subst h
        exact ⟨rfl, synced_of_mem_core _ _ hs0 rfl rfl rfl rfl rfl rfl, rfl, rfl⟩


/-! ### reachable ledgers -/

theorem openState_empty : openState Durable.empty = .ok ([], [], 0) := by
  simp [openState, Durable.empty, StateDB.empty, storedNum]

theorem syncedCore_setVersion (s : State) (h : SyncedCore s) :
    Synced { s with dur := { s.dur with blocks := { s.dur.blocks with version := true } } } :=
  ⟨⟨h.blocksCur, h.statesCur, h.blockTree, h.stateTree, h.btLen, h.stLen, h.filePos, h.fileLen⟩, rfl⟩

/-- first start on an empty directory -/
theorem initLedger_synced (p : Params) (g : Block) (s : State) (hg : g.header.height = 0)
    (h : initLedger p g = .ok s) : Synced s := by
  unfold initLedger reopen at h
  rw [openState_empty] at h
  simp only [Durable.empty, BlockDB.empty, Bool.not_false, if_true] at h
  split at h
  · cases h
  · rename_i s1 hs1
    apply withPeers_synced s1 s _ h
    unfold initGenesis at hs1
    simp only at hs1
    split at hs1
    · cases hs1
    · rename_i s2 hs2
      injection hs1 with hs1
      subst hs1
      obtain ⟨e, -⟩ := submitBlock_eq p _ s2 g _ hs2
      apply syncedCore_setVersion
      rw [e]
      exact submitted_syncedCore p _ g _ (by simp [hg, emptyMem]) (Or.inl hg) (by simp [storedNum, emptyMem])

/-- ledgers reachable from a first start by submissions, header deliveries, restarts and crashes inside
`submitBlock` followed by a restart -/
inductive Reach (p : Params) (g : Block) : State → Prop
  | init {s} : initLedger p g = .ok s → Reach p g s
  | add {s s'} (b : Block) (root : Hash) : Reach p g s → addBlock p s b root = .ok s' → Reach p g s'
  | sub {s s'} (b : Block) : Reach p g s → submitChecked p s b = .ok s' → Reach p g s'
  | hdr {s s'} (hd : Header) : Reach p g s → addHeader p s hd = .ok s' → Reach p g s'
  | restart {s s'} : Reach p g s → reopen p g s.dur = .ok s' → Reach p g s'
  | crash {s s'} (b : Block) (k : Nat) : Reach p g s → b.header.height = s.mem.currHeight + 1 → k ≤ 3 →
      reopen p g (crashD p s b k) = .ok s' → Reach p g s'

theorem reopen_crash_ge1 (p : Params) (g : Block) (s : State) (b : Block) (k : Nat) (hs : Synced s)
    (hh : b.header.height = s.mem.currHeight + 1) (h1 : 1 ≤ k) (h3 : k ≤ 3) :
    reopen p g (crashD p s b k) = reopen p g (crashD p s b 3) := by
  have : k = 1 ∨ k = 2 ∨ k = 3 := by omega
  rcases this with rfl | rfl | rfl
  · exact reopen_crash12 p g s b 1 hs hh (Or.inl rfl)
  · exact reopen_crash12 p g s b 2 hs hh (Or.inr rfl)
  · rfl

theorem reach_synced (p : Params) (g : Block) (hg : g.header.height = 0) (s : State) (h : Reach p g s) : Synced s := by
  induction h with
  | init h => exact initLedger_synced p g _ hg h
  | add b root _ h ih => exact addBlock_synced p _ _ b root ih h
  | sub b _ h ih => exact submitChecked_synced p _ _ b ih h
  | hdr hd _ h ih => exact addHeader_synced p _ _ hd ih h
  | restart _ h ih => exact (reopen_synced_ok p g _ _ _ ih (sameStores_self _ ih) h).2.1
  | @crash s0 s1 b k _ hh hk h ih =>
    by_cases h0 : k = 0
    · subst h0
      exact (reopen_synced_ok p g _ _ _ ih (crashD0_same p _ b ih) h).2.1
    · rw [reopen_crash_ge1 p g _ b k ih hh (by omega) hk, ← submitted_dur] at h
      have hs3 := submitted_synced_next p s0 b (p.exec s0.dur.states.kv b) ih hh
      exact (reopen_synced_ok p g _ _ _ hs3 (sameStores_self _ hs3) h).2.1


/-! ### further crashes inside `recoverStore` -/

/-- where a crash inside `recoverStore` leaves the stores: again one of the crash states of the original submission -/
def afterRecoveryCrash (k r : Nat) : Nat := if r = 0 then k else if r = 1 then max k 2 else 3

theorem recoverCrash_crash12 (p : Params) (s : State) (b : Block) (m : Mem) (k r : Nat) (hs : Synced s)
    (hh : b.header.height = s.mem.currHeight + 1) (hk : k = 1 ∨ k = 2)
    (hm : m.currHeight = b.header.height) (hst : m.stateTree = s.mem.stateTree) (hbt : m.blockTree = s.mem.blockTree)
    (hfp : m.filePos = s.mem.filePos) :
    recoverCrash p (crashD p s b k) m r = some (crashD p s b (afterRecoveryCrash k r)) := by
  have h3 : ¬ k ≥ 3 := by omega
  have h1 : k ≥ 1 := by omega
  obtain ⟨-, -, b3, b4⟩ := commit_blockBatch p s.mem b s.dur.blocks
  have eS : (crashD p s b k).states = s.dur.states := by simp [crashD, persisted, h3]
  have eB : (crashD p s b k).blocks = s.dur.blocks.commit (blockBatch p s.mem b) := by simp [crashD, persisted, h1, fillAll]
  unfold recoverCrash
  rw [eS, hs.statesCur]
  simp only [hm, hh]
  rw [if_neg (by omega), eB, ← hh, b3]
  simp only [b4]
  congr 1
  have hfl : max (crashD p s b k).fileLen (fillMem m b (p.exec s.dur.states.kv b)).filePos = (crashD p s b k).fileLen := by
    simp only [crashD, persisted, fillAll_fileLen, fillMem, hfp, hbt]
    omega
  have hev : (crashD p s b k).events.commit (eventBatch p b (p.exec s.dur.states.kv b)) = (crashD p s b 2).events := by
    rcases hk with rfl | rfl
    · simp [crashD, persisted, fillAll]
    · simp [crashD, persisted, fillAll, EventDB.commit_idem]
  have hev0 : k = 2 → (crashD p s b k).events = (crashD p s b 2).events := by intro e; rw [e]
  have hbl : ∀ j, 1 ≤ j → (crashD p s b j).blocks = s.dur.blocks.commit (blockBatch p s.mem b) := by
    intro j hj; simp [crashD, persisted, hj, fillAll]
  have hflj : ∀ j, (crashD p s b j).fileLen = (crashD p s b k).fileLen := by intro j; simp [crashD, persisted]
  rw [hfl]
  by_cases hr0 : r = 0
  · subst hr0
    simp only [afterRecoveryCrash, if_true]
    apply Durable.ext
    · exact (hbl k h1).symm
    · simp [eS]
    · simp
    · simp
  · by_cases hr1 : r = 1
    · subst hr1
      have ha : afterRecoveryCrash k 1 = 2 := by
        rcases hk with rfl | rfl <;> simp [afterRecoveryCrash]
      rw [ha]
      apply Durable.ext
      · exact (hbl 2 (by omega)).symm
      · simp [eS, crashD, persisted]
      · simp only [Nat.le_refl, ge_iff_le, if_true]; exact hev
      · simp only; exact (hflj 2).symm
    · have hr2 : r ≥ 2 := by omega
      have hr1' : r ≥ 1 := by omega
      have ha : afterRecoveryCrash k r = 3 := by simp [afterRecoveryCrash, hr0, hr1]
      rw [ha]
      apply Durable.ext
      · exact (hbl 3 (by omega)).symm
      · simp only [hr2, if_true, eS, hst, hbt]; simp [crashD, persisted, fillAll]
      · simp only [hr1', if_true]; rw [hev]; simp [crashD, persisted]
      · simp only; exact (hflj 3).symm

theorem reopenCrash_crash12 (p : Params) (g : Block) (s : State) (b : Block) (k r : Nat) (d' : Durable) (hs : Synced s)
    (hh : b.header.height = s.mem.currHeight + 1) (hk : k = 1 ∨ k = 2)
    (h : reopenCrash p g (crashD p s b k) r = some d') : d' = crashD p s b (afterRecoveryCrash k r) := by
  have h1 : k ≥ 1 := by omega
  have h3 : k < 3 := by omega
  obtain ⟨-, c2, -, -⟩ := commit_blockBatch p s.mem b s.dur.blocks
  unfold reopenCrash at h
  rw [openState_crash_lt p s b k hs h3] at h
  simp only at h
  split at h
  · cases h
  · split at h
    · cases h
    · have hcur : (crashD p s b k).blocks.current = some (b.header.hash, b.header.height) := by
        rw [crashD_blocks p s b k h1]; exact c2
      rw [hcur] at h
      simp only at h
      split at h
      · cases h
      · rename_i idx cnt stored _
        rw [recoverCrash_crash12 p s b
              { emptyMem with currHeight := b.header.height, currHash := b.header.hash, headerIndex := idx, headerCount := cnt,
                              storedIndexCount := stored, blockTree := s.mem.blockTree, stateTree := s.mem.stateTree,
                              filePos := s.mem.filePos } k r hs hh hk rfl rfl rfl rfl] at h
        exact (Option.some.inj h).symm

/-- nothing is replayed on a consistent ledger, so no crash point inside `recoverStore` is reached -/
theorem reopenCrash_synced (p : Params) (g : Block) (s : State) (d : Durable) (r : Nat) (hs : Synced s)
    (hd : SameStores d s) : reopenCrash p g d r = none := by
  unfold reopenCrash
  rw [openState_synced s d hs hd]
  simp only [hd.1, hs.version, Bool.not_true, Bool.false_eq_true, if_false, hs.blocksCur]
  split
  · rfl
  · split
    · rfl
    · unfold recoverCrash
      rw [hd.2.1, hs.statesCur]
      simp

/-- the durable states reachable from a crash behind the first commit by any number of further crashes inside
`recoverStore` during the following starts -/
inductive CrashChain (p : Params) (g : Block) (s : State) (b : Block) : Durable → Prop
  | first (k : Nat) : 1 ≤ k → k ≤ 3 → CrashChain p g s b (crashD p s b k)
  | again {d d' : Durable} (r : Nat) : CrashChain p g s b d → reopenCrash p g d r = some d' → CrashChain p g s b d'

theorem crashChain_form (p : Params) (g : Block) (s : State) (b : Block) (d : Durable) (hs : Synced s)
    (hh : b.header.height = s.mem.currHeight + 1) (h : CrashChain p g s b d) :
    ∃ j, 1 ≤ j ∧ j ≤ 3 ∧ d = crashD p s b j := by
  induction h with
  | first k h1 h3 => exact ⟨k, h1, h3, rfl⟩
  | @again d0 d1 r _ hr ih =>
    obtain ⟨j, j1, j3, e⟩ := ih
    subst e
    by_cases hj : j = 3
    · subst hj
      have hs3 := submitted_synced_next p s b (p.exec s.dur.states.kv b) hs hh
      rw [← submitted_dur, reopenCrash_synced p g _ _ r hs3 (sameStores_self _ hs3)] at hr
      cases hr
    · have hk : j = 1 ∨ j = 2 := by omega
      refine ⟨afterRecoveryCrash j r, ?_, ?_, reopenCrash_crash12 p g s b j r d1 hs hh hk hr⟩
      · unfold afterRecoveryCrash
        split
        · omega
        · split <;> omega
      · unfold afterRecoveryCrash
        split
        · omega
        · split <;> omega

/-- **any sequence of crashes** (one inside `submitBlock` behind the first commit, then any number inside
`recoverStore`) restarts to the ledger of the complete submission -/
theorem reopen_crashChain (p : Params) (g : Block) (s : State) (b : Block) (d : Durable) (hs : Synced s)
    (hh : b.header.height = s.mem.currHeight + 1) (h : CrashChain p g s b d) :
    reopen p g d = reopen p g (crashD p s b 3) := by
  obtain ⟨j, j1, j3, e⟩ := crashChain_form p g s b d hs hh h
  subst e
  exact reopen_crash_ge1 p g s b j hs hh j1 j3


/-! ### the hash-file length never influences a verdict -/

/-- the hash-file length does not influence a submission: same verdict, same result up to that length -/
theorem submitBlock_withFileLen (p : Params) (t : State) (b : Block) (res : ExecResult) (fl : Nat) :
    ∃ fl', submitBlock p (withFileLen fl t) b res = (submitBlock p t b res).map (withFileLen fl') := by
  unfold submitBlock
  have hg : submitGuards p (withFileLen fl t) b = submitGuards p t b := rfl
  rw [hg]
  cases submitGuards p t b with
  | error e => exact ⟨0, rfl⟩
  | ok _ => exact ⟨max fl (fillAll p t b res).mem.filePos, rfl⟩

theorem addBlock_withFileLen (p : Params) (t : State) (b : Block) (root : Hash) (fl : Nat) :
    ∃ fl', addBlock p (withFileLen fl t) b root = (addBlock p t b root).map (withFileLen fl') := by
  unfold addBlock
  by_cases h1 : b.header.height ≤ t.mem.currHeight
  · exact ⟨fl, by simp [h1, withFileLen, Except.map]⟩
  · by_cases h2 : b.header.height ≠ t.mem.currHeight + 1
    · exact ⟨0, by simp [h1, h2, withFileLen, Except.map]⟩
    · have hv : verifyHeader p (withFileLen fl t) b.header (withFileLen fl t).mem.peersB = verifyHeader p t b.header t.mem.peersB := rfl
      have he : executeBlock p (withFileLen fl t) b = executeBlock p t b := rfl
      have h1' : ¬ b.header.height ≤ (withFileLen fl t).mem.currHeight := h1
      have h2' : ¬ b.header.height ≠ (withFileLen fl t).mem.currHeight + 1 := h2
      simp only [h1, h2, h1', h2', if_false, hv, he]
      cases verifyHeader p t b.header t.mem.peersB with
      | error e => exact ⟨0, rfl⟩
      | ok set =>
        simp only
        by_cases h3 : (executeBlock p t b).2 ≠ root
        · exact ⟨0, by simp [h3, Except.map]⟩
        · simp only [h3, if_false]
          obtain ⟨fl', hfl⟩ := submitBlock_withFileLen p t b (executeBlock p t b).1 fl
          refine ⟨fl', ?_⟩
          rw [hfl]
          cases submitBlock p t b (executeBlock p t b).1 <;> rfl


end Poly.Model.Ledger
