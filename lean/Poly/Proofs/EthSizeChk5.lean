import Poly.Generated.EthSizeCerts5
/-! Kernel evaluation of the certificate checker on the 64-epoch chunks 20..23 of both ethash size tables (C28).
    Depends only on the generated certificate module (table values + certificates), not on the rule constants. -/
namespace Poly.Proofs.EthSizeChk
open Poly.Model.EthSizeCert Poly.Generated

theorem dataset_20 : checkTable 1073741824 8388608 128 1280 EthSizeCerts.datasetVals_20 EthSizeCerts.datasetCerts_20 = true := by
  decide +kernel

theorem cache_20 : checkTable 16777216 131072 64 1280 EthSizeCerts.cacheVals_20 EthSizeCerts.cacheCerts_20 = true := by
  decide +kernel

theorem dataset_21 : checkTable 1073741824 8388608 128 1344 EthSizeCerts.datasetVals_21 EthSizeCerts.datasetCerts_21 = true := by
  decide +kernel

theorem cache_21 : checkTable 16777216 131072 64 1344 EthSizeCerts.cacheVals_21 EthSizeCerts.cacheCerts_21 = true := by
  decide +kernel

theorem dataset_22 : checkTable 1073741824 8388608 128 1408 EthSizeCerts.datasetVals_22 EthSizeCerts.datasetCerts_22 = true := by
  decide +kernel

theorem cache_22 : checkTable 16777216 131072 64 1408 EthSizeCerts.cacheVals_22 EthSizeCerts.cacheCerts_22 = true := by
  decide +kernel

theorem dataset_23 : checkTable 1073741824 8388608 128 1472 EthSizeCerts.datasetVals_23 EthSizeCerts.datasetCerts_23 = true := by
  decide +kernel

theorem cache_23 : checkTable 16777216 131072 64 1472 EthSizeCerts.cacheVals_23 EthSizeCerts.cacheCerts_23 = true := by
  decide +kernel

end Poly.Proofs.EthSizeChk
