import Poly.Model.Merkle
import Poly.Proofs.MerkleSpec
/-
C06 core: the frontier invariant of the compact tree and `root = mth` for every append sequence.

`fr s L` is the specification of the REVERSED frontier (smallest subtree first) of a tree holding the
`s = |L|` nodes `L` of one level: if `s` is odd the last node is a frontier element and the rest pairs up
into the next level, if `s` is even the whole level pairs up. The carry loop of `appendHash` is exactly
the step from `fr s L` to `fr (s+1) (L ++ [x])`.
-/
namespace Poly.Proofs.MerkleTree
open Poly.Spec.RFC6962 Poly.Model.Merkle Poly.Proofs.MerkleSpec

variable (H : List UInt8 → List UInt8)

def fr : Nat → List Hash → List Hash
  | s, L =>
    if h0 : s = 0 then []
    else if s % 2 = 1 then (L.drop (s - 1)).headD [] :: fr (s / 2) (pairUp H (L.take (s - 1)))
    else fr (s / 2) (pairUp H L)
termination_by s => s
decreasing_by all_goals omega

theorem fr_zero (L : List Hash) : fr H 0 L = [] := by rw [fr]; simp

theorem fr_odd (s : Nat) (T : List Hash) (a : Hash) (hs : s % 2 = 1) (hT : T.length = s - 1) :
    fr H s (T ++ [a]) = a :: fr H (s / 2) (pairUp H T) := by
  rw [fr]
  have : s ≠ 0 := by omega
  simp only [this, hs, ↓reduceDIte, ↓reduceIte]
  rw [← hT]; simp

theorem fr_even (s : Nat) (L : List Hash) (hs : s % 2 = 0) (h0 : s ≠ 0) :
    fr H s L = fr H (s / 2) (pairUp H L) := by
  rw [fr]
  have : ¬ s % 2 = 1 := by omega
  simp only [h0, this, ↓reduceDIte, ↓reduceIte]

theorem exists_snoc {α : Type} (L : List α) (h : L.length ≠ 0) : ∃ T a, L = T ++ [a] ∧ T.length = L.length - 1 := by
  refine ⟨L.dropLast, L.getLast (by intro e; simp [e] at h), ?_, by simp⟩
  exact (List.dropLast_concat_getLast _).symm

/-- `fr` does not depend on what it is called with when `s` is even and the level pairs up. -/
theorem pairUp_snoc_pair (T : List Hash) (a x : Hash) (hT : T.length % 2 = 0) :
    pairUp H (T ++ [a] ++ [x]) = pairUp H T ++ [hashChildren H a x] := by
  rw [List.append_assoc, pairUp_append_even H _ _ hT]; simp [pairUp]

theorem pairUp_snoc_odd (L : List Hash) (x : Hash) (hL : L.length % 2 = 0) :
    pairUp H (L ++ [x]) = pairUp H L ++ [x] := by
  rw [pairUp_append_even H _ _ hL]; simp [pairUp]

/-- The carry loop turns the frontier of `L` into the frontier of `L ++ [x]`. -/
theorem carry_fr (s : Nat) : ∀ (L : List Hash) (x : Hash) (st : List Hash), L.length = s →
    ∃ rev top st', carry H s (fr H s L) x st = .ok (rev, top, st') ∧ top :: rev = fr H (s + 1) (L ++ [x]) := by
  induction s using Nat.strongRecOn with
  | _ s ih =>
    intro L x st hL
    rw [carry.eq_def]
    by_cases hs : s % 2 = 1
    · -- odd: merge the top of the frontier with the pending node
      obtain ⟨T, a, rfl, hT⟩ := exists_snoc L (by omega)
      rw [hL] at hT
      simp only [hs, ↓reduceDIte]
      rw [fr_odd H s T a hs hT]
      simp only
      have hpl : (pairUp H T).length = s / 2 := by rw [pairUp_length, hT]; omega
      obtain ⟨rev, top, st', h1, h2⟩ := ih (s / 2) (by omega) (pairUp H T) (hashChildren H a x)
        (st ++ [hashChildren H a x]) hpl
      refine ⟨rev, top, st', h1, ?_⟩
      rw [h2, fr_even H (s + 1) _ (by omega) (by omega), pairUp_snoc_pair H T a x (by omega)]
      have : (s + 1) / 2 = s / 2 + 1 := by omega
      rw [this]
    · -- even: the pending node becomes the new smallest frontier element
      simp only [hs, ↓reduceDIte]
      refine ⟨_, _, _, rfl, ?_⟩
      rw [fr_odd H (s + 1) L x (by omega) (by omega)]
      have : (s + 1) / 2 = s / 2 := by omega
      rw [this]
      by_cases h0 : s = 0
      · subst h0
        have : L = [] := List.eq_nil_of_length_eq_zero hL
        subst this; simp [fr_zero, pairUp]
      · rw [fr_even H s L (by omega) h0]

/-- Folding a frontier onto a pending node `acc` gives the root of the level extended by `acc`. -/
theorem foldUp_fr (s : Nat) : ∀ (L : List Hash) (acc : Hash), L.length = s →
    foldUp H acc (fr H s L) = mth H (L ++ [acc]) := by
  induction s using Nat.strongRecOn with
  | _ s ih =>
    intro L acc hL
    by_cases h0 : s = 0
    · subst h0
      have : L = [] := List.eq_nil_of_length_eq_zero hL
      subst this; simp [fr_zero, foldUp, mth_single]
    by_cases hs : s % 2 = 1
    · obtain ⟨T, a, rfl, hT⟩ := exists_snoc L (by omega)
      rw [hL] at hT
      rw [fr_odd H s T a hs hT]
      have hpl : (pairUp H T).length = s / 2 := by rw [pairUp_length, hT]; omega
      have := ih (s / 2) (by omega) (pairUp H T) (hashChildren H a acc) hpl
      simp only [foldUp, List.foldl_cons] at this ⊢
      rw [this, ← pairUp_snoc_pair H T a acc (by omega), mth_pairUp]
    · rw [fr_even H s L (by omega) h0]
      have hpl : (pairUp H L).length = s / 2 := by rw [pairUp_length, hL]; omega
      rw [ih (s / 2) (by omega) (pairUp H L) acc hpl, ← pairUp_snoc_odd H L acc (by omega), mth_pairUp]

/-- The fold of a non-empty frontier is the RFC 6962 root. -/
theorem fold_fr_root (s : Nat) : ∀ (L : List Hash), L.length = s → s ≠ 0 →
    ∃ a r, fr H s L = a :: r ∧ foldUp H a r = mth H L := by
  induction s using Nat.strongRecOn with
  | _ s ih =>
    intro L hL h0
    by_cases hs : s % 2 = 1
    · obtain ⟨T, a, rfl, hT⟩ := exists_snoc L (by omega)
      rw [hL] at hT
      refine ⟨a, _, fr_odd H s T a hs hT, ?_⟩
      have hpl : (pairUp H T).length = s / 2 := by rw [pairUp_length, hT]; omega
      rw [foldUp_fr H (s / 2) (pairUp H T) a hpl, ← pairUp_snoc_odd H T a (by omega), mth_pairUp]
    · rw [fr_even H s L (by omega) h0]
      have hpl : (pairUp H L).length = s / 2 := by rw [pairUp_length, hL]; omega
      obtain ⟨a, r, h1, h2⟩ := ih (s / 2) (by omega) (pairUp H L) hpl (by omega)
      exact ⟨a, r, h1, by rw [h2, mth_pairUp]⟩

theorem fr_length (s : Nat) : ∀ (L : List Hash), (fr H s L).length = countBit s := by
  induction s using Nat.strongRecOn with
  | _ s ih =>
    intro L
    rw [fr]
    cases s with
    | zero => simp [countBit]
    | succ n =>
      simp only [Nat.succ_ne_zero, ↓reduceDIte, countBit]
      split
      · simp only [List.length_cons]; rw [ih _ (by omega)]; omega
      · rw [ih _ (by omega)]; omega

/-! ### The invariant of the compact tree -/

/-- `t` is the compact tree of the leaf-hash list `L`. -/
def Inv (L : List Hash) (t : CompactTree) : Prop :=
  t.size = L.length ∧ t.hashes.reverse = fr H L.length L

theorem inv_empty : Inv H [] emptyTree := by simp [Inv, emptyTree, fr_zero]

theorem inv_appendHash (L : List Hash) (t : CompactTree) (x : Hash) (h : Inv H L t) :
    ∃ t' st, appendHash H t x = .ok (t', st, t.hashes.reverse) ∧ Inv H (L ++ [x]) t' := by
  obtain ⟨h1, h2⟩ := h
  obtain ⟨rev, top, st', hc, hf⟩ := carry_fr H L.length L x [x] rfl
  unfold appendHash
  rw [h1, h2, hc]
  refine ⟨_, _, rfl, ?_⟩
  simp only [Inv, List.length_append, List.length_cons, List.length_nil, List.reverse_append,
    List.reverse_cons, List.reverse_nil, List.nil_append, List.reverse_reverse, List.cons_append]
  exact ⟨trivial, hf⟩

theorem inv_root (L : List Hash) (t : CompactTree) (h : Inv H L t) : root H t = .ok (mth H L) := by
  obtain ⟨h1, h2⟩ := h
  unfold root
  by_cases h0 : L.length = 0
  · have : L = [] := List.eq_nil_of_length_eq_zero h0
    subst this
    have : t.hashes = [] := by simpa [fr_zero] using h2
    simp [this, mth_nil]
  · obtain ⟨a, r, hfr, hfold⟩ := fold_fr_root H L.length L rfl h0
    have hne : t.hashes.length ≠ 0 := by
      have := congrArg List.length h2
      rw [hfr] at this; simp at this; omega
    simp only [hne, ne_eq, not_false_eq_true, ↓reduceIte, hashFold]
    rw [h2, hfr]; simp [hfold]

theorem inv_countBit (L : List Hash) (t : CompactTree) (h : Inv H L t) : t.hashes.length = countBit t.size := by
  have := congrArg List.length h.2
  rw [fr_length, List.length_reverse] at this
  rw [this, h.1]

/-- `GetRootWithNewLeaf` = root of the extended list. -/
theorem inv_predict1 (L : List Hash) (t : CompactTree) (x : List UInt8) (h : Inv H L t) :
    getRootWithNewLeaf H t x = .ok (mth H (L ++ [hashLeaf H x])) := by
  unfold getRootWithNewLeaf hashFold
  simp only [List.reverse_append, List.reverse_cons, List.reverse_nil, List.nil_append, List.cons_append]
  rw [h.2, foldUp_fr H L.length L _ rfl]

/-! ### Append sequences -/

theorem inv_appendAll (D : List (List UInt8)) : ∀ (L : List Hash) (s : State), Inv H L s.tree →
    ∃ s', State.appendAll H s D = .ok s' ∧ Inv H (L ++ D.map (hashLeaf H)) s'.tree ∧
      (s.store = none → s'.store = none) := by
  induction D with
  | nil => intro L s h; exact ⟨s, rfl, by simpa using h, id⟩
  | cons d D ih =>
    intro L s h
    obtain ⟨t', st, ha, hi⟩ := inv_appendHash H L s.tree (hashLeaf H d) h
    simp only [State.appendAll, State.append, appendLeaf, ha]
    obtain ⟨s', h1, h2, h3⟩ := ih (L ++ [hashLeaf H d]) ⟨t', s.store.map fun hs => hs.put st⟩ hi
    refine ⟨s', h1, by simpa using h2, ?_⟩
    intro hn; apply h3; simp [hn]

end Poly.Proofs.MerkleTree
