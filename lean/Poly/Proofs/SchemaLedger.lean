import Poly.Proofs.Schema
import Poly.Model.SchemaLedger
/-! Lemmas about the ledger-object decoders (C02): round trip, hash definition, refusals, panic freedom. -/
set_option linter.unusedSimpArgs false
set_option linter.unusedVariables false
namespace Poly.Model.SchemaLedger
open Poly.Model.Codec Poly.Model.Schema

theorem take_len_sub (a b : Bytes) : (a ++ b).take ((a ++ b).length - b.length) = a := by
  have : (a ++ b).length - b.length = a.length := by simp
  rw [this, List.take_left]

/-- round trip of a transaction: value, remainder, `Raw` = the encoding, hash = double hash of the unsigned encoding -/
theorem txDec_enc (K : Bytes → Option Bytes) (H : Bytes → Bytes) (tx : txTy.Val) (r : Bytes) (hwf : txTy.WF K tx)
    (hsz : (txTy.enc tx).length ≤ MAX_TX_SIZE) :
    txDec K H (txTy.enc tx ++ r) =
      .ok { val := tx, hash := H (H (txUnsignedTy.enc tx.1)), raw := txTy.enc tx, rest := r } := by
  obtain ⟨u, sigs⟩ := tx
  have hu : txUnsignedTy.WF K u := hwf.1
  have hs : sigsTy.WF K sigs := hwf.2
  have e : txTy.enc (u, sigs) = txUnsignedTy.enc u ++ sigsTy.enc sigs := rfl
  have d1 := Ty.dec_enc K txUnsignedTy u (sigsTy.enc sigs ++ r) hu
  have d2 := Ty.dec_enc K sigsTy sigs r hs
  unfold txDec
  rw [e, List.append_assoc, d1]
  simp only [d2]
  have hl : (txUnsignedTy.enc u ++ (sigsTy.enc sigs ++ r)).length - r.length = (txUnsignedTy.enc u ++ sigsTy.enc sigs).length := by
    simp only [List.length_append]; omega
  rw [e] at hsz
  rw [hl, if_neg (by omega)]
  have t1 : (txUnsignedTy.enc u ++ (sigsTy.enc sigs ++ r)).take
      ((txUnsignedTy.enc u ++ (sigsTy.enc sigs ++ r)).length - (sigsTy.enc sigs ++ r).length) = txUnsignedTy.enc u :=
    take_len_sub _ _
  have t2 : (txUnsignedTy.enc u ++ (sigsTy.enc sigs ++ r)).take (txUnsignedTy.enc u ++ sigsTy.enc sigs).length
      = txUnsignedTy.enc u ++ sigsTy.enc sigs := by
    rw [← List.append_assoc, List.take_left]
  rw [t1, t2]

theorem txDec_hash_def (K : Bytes → Option Bytes) (H : Bytes → Bytes) (bs : Bytes) (res : TxRes) (h : txDec K H bs = .ok res) :
    ∃ r1, txUnsignedTy.dec K bs = .ok (res.val.1, r1) ∧ res.hash = H (H (bs.take (bs.length - r1.length))) ∧
      res.raw = bs.take (bs.length - res.rest.length) ∧ res.raw.length ≤ MAX_TX_SIZE := by
  unfold txDec at h
  cases h1 : txUnsignedTy.dec K bs with
  | error e => rw [h1] at h; simp at h
  | ok p =>
    obtain ⟨u, r1⟩ := p
    rw [h1] at h
    simp only at h
    cases h2 : sigsTy.dec K r1 with
    | error e => rw [h2] at h; simp at h
    | ok q =>
      obtain ⟨sigs, r2⟩ := q
      rw [h2] at h
      simp only at h
      split at h
      · simp at h
      · rename_i hle
        have := Except.ok.inj h
        subst this
        refine ⟨r1, rfl, rfl, rfl, ?_⟩
        simp only [List.length_take]
        omega

theorem txFromRawBytes_oversize (K : Bytes → Option Bytes) (H : Bytes → Bytes) (raw : Bytes) (h : raw.length > MAX_TX_SIZE) :
    txFromRawBytes K H raw = .error .reject := by
  simp [txFromRawBytes, h]

theorem txDec_ne_panic (K : Bytes → Option Bytes) (H : Bytes → Bytes) (bs : Bytes) : txDec K H bs ≠ .error .panic := by
  unfold txDec
  cases h1 : txUnsignedTy.dec K bs with
  | error e => have := Ty.dec_no_panic K txUnsignedTy (by decide) bs; rw [h1] at this; simpa using this
  | ok p =>
    obtain ⟨u, r1⟩ := p
    simp only
    cases h2 : sigsTy.dec K r1 with
    | error e => have := Ty.dec_no_panic K sigsTy (by decide) r1; rw [h2] at this; simpa using this
    | ok q => simp only; split <;> simp

theorem blockTxs_ne_panic (K : Bytes → Option Bytes) (H : Bytes → Bytes) (n : Nat) (bs : Bytes) (acc : List TxRes) :
    blockTxs K H n bs acc ≠ .error .panic := by
  induction n generalizing bs acc with
  | zero => simp [blockTxs]
  | succ n ih =>
    unfold blockTxs
    cases h1 : txDec K H bs with
    | error e => have := txDec_ne_panic K H bs; rw [h1] at this; simpa using this
    | ok t => simp only; split
              · simp
              · exact ih _ _

theorem blockDec_ne_panic (K : Bytes → Option Bytes) (H : Bytes → Bytes) (bs : Bytes) : blockDec K H bs ≠ .error .panic := by
  unfold blockDec
  cases h1 : headerTy.dec K bs with
  | error e => have := Ty.dec_no_panic K headerTy (by decide) bs; rw [h1] at this; simpa using this
  | ok p =>
    obtain ⟨h, r⟩ := p
    simp only
    cases h2 : decCnt .u32 r with
    | error e => have := decCnt_ne_panic .u32 r; rw [h2] at this; simpa using this
    | ok q =>
      obtain ⟨n, r1⟩ := q
      simp only
      cases h3 : blockTxs K H n r1 [] with
      | error e => have := blockTxs_ne_panic K H n r1 []; rw [h3] at this; simpa using this
      | ok q => simp only; split <;> simp

/-- what the transaction loop guarantees when it succeeds: hashes pairwise distinct (given the accumulator's were) -/
theorem blockTxs_nodup (K : Bytes → Option Bytes) (H : Bytes → Bytes) (n : Nat) (bs : Bytes) (acc : List TxRes)
    (txs : List TxRes) (r : Bytes) (h : blockTxs K H n bs acc = .ok (txs, r))
    (hacc : (acc.reverse.map (·.hash)).Nodup) : (txs.map (·.hash)).Nodup := by
  induction n generalizing bs acc with
  | zero =>
    simp only [blockTxs] at h
    have := Except.ok.inj h
    simp only [Prod.mk.injEq] at this
    rw [← this.1]; exact hacc
  | succ n ih =>
    unfold blockTxs at h
    cases h1 : txDec K H bs with
    | error e => rw [h1] at h; simp at h
    | ok t =>
      rw [h1] at h
      simp only at h
      split at h
      · simp at h
      · rename_i hany
        apply ih _ _ h
        simp only [List.reverse_cons, List.map_append, List.map_cons, List.map_nil]
        rw [List.nodup_append]
        refine ⟨hacc, by simp, ?_⟩
        intro a ha b hb
        simp only [List.mem_singleton] at hb
        subst hb
        intro c
        subst c
        apply hany
        rw [List.any_eq_true]
        simp only [List.mem_map, List.mem_reverse] at ha
        obtain ⟨t', ht', heq⟩ := ha
        exact ⟨t', ht', by simp [heq]⟩

/-- an accepted block has pairwise distinct transaction hashes and its header root is the Merkle root of those hashes -/
theorem blockDec_accepts (K : Bytes → Option Bytes) (H : Bytes → Bytes) (bs : Bytes) (bv : BlockVal) (r : Bytes)
    (h : blockDec K H bs = .ok (bv, r)) :
    (bv.txs.map (·.hash)).Nodup ∧ headerTxRoot bv.header = BtcMerkle.btcRoot H (bv.txs.map (·.hash)) := by
  unfold blockDec at h
  cases h1 : headerTy.dec K bs with
  | error e => rw [h1] at h; simp at h
  | ok p =>
    obtain ⟨hd, r0⟩ := p
    rw [h1] at h
    simp only at h
    cases h2 : decCnt .u32 r0 with
    | error e => rw [h2] at h; simp at h
    | ok q =>
      obtain ⟨n, r1⟩ := q
      rw [h2] at h
      simp only at h
      cases h3 : blockTxs K H n r1 [] with
      | error e => rw [h3] at h; simp at h
      | ok q =>
        obtain ⟨txs, r2⟩ := q
        rw [h3] at h
        simp only at h
        split at h
        · simp at h
        · rename_i hroot
          have := Except.ok.inj h
          simp only [Prod.mk.injEq] at this
          rw [← this.1]
          refine ⟨blockTxs_nodup K H n r1 [] txs r2 h3 (by simp), ?_⟩
          simpa using hroot


/-- hash of a transaction value -/
def txHash (H : Bytes → Bytes) (tx : txTy.Val) : Bytes := H (H (txUnsignedTy.enc tx.1))

/-- the decode results of a sequence of encoded transactions followed by `r` -/
def resList (H : Bytes → Bytes) : List txTy.Val → Bytes → List TxRes
  | [], _ => []
  | tx :: txs, r =>
    { val := tx, hash := txHash H tx, raw := txTy.enc tx, rest := (txs.map txTy.enc).flatten ++ r } :: resList H txs r

theorem resList_hash (H : Bytes → Bytes) (txs : List txTy.Val) (r : Bytes) :
    (resList H txs r).map (·.hash) = txs.map (txHash H) := by
  induction txs with
  | nil => rfl
  | cons tx txs ih => simp [resList, ih]

theorem resList_val (H : Bytes → Bytes) (txs : List txTy.Val) (r : Bytes) : (resList H txs r).map (·.val) = txs := by
  induction txs with
  | nil => rfl
  | cons tx txs ih => simp [resList, ih]

theorem blockTxs_enc (K : Bytes → Option Bytes) (H : Bytes → Bytes) (txs : List txTy.Val) (r : Bytes) (acc : List TxRes)
    (hwf : ∀ tx ∈ txs, txTy.WF K tx ∧ (txTy.enc tx).length ≤ MAX_TX_SIZE)
    (hnd : (acc.reverse.map (·.hash) ++ txs.map (txHash H)).Nodup) :
    blockTxs K H txs.length ((txs.map txTy.enc).flatten ++ r) acc = .ok (acc.reverse ++ resList H txs r, r) := by
  induction txs generalizing acc with
  | nil => simp [blockTxs, resList]
  | cons tx txs ih =>
    have hd := txDec_enc K H tx ((txs.map txTy.enc).flatten ++ r) (hwf tx List.mem_cons_self).1 (hwf tx List.mem_cons_self).2
    simp only [List.map_cons, List.flatten_cons, List.length_cons, List.append_assoc, blockTxs, hd]
    have hnot : (acc.any fun t' => t'.hash == H (H (txUnsignedTy.enc tx.1))) = false := by
      rw [List.any_eq_false]
      intro t' ht' c
      have c' : t'.hash = txHash H tx := by simpa [txHash] using c
      rw [List.nodup_append] at hnd
      exact hnd.2.2 _ (by simp only [List.mem_map, List.mem_reverse]; exact ⟨t', ht', rfl⟩) _ (by simp) c'
    simp only [hnot, Bool.false_eq_true, if_false]
    have := ih ({ val := tx, hash := H (H (txUnsignedTy.enc tx.1)), raw := txTy.enc tx, rest := (txs.map txTy.enc).flatten ++ r } :: acc)
      (fun t ht => hwf t (List.mem_cons_of_mem _ ht))
      (by simpa [txHash, List.append_assoc] using hnd)
    rw [this]
    simp [resList, txHash]

/-- round trip of a block -/
theorem blockDec_enc (K : Bytes → Option Bytes) (H : Bytes → Bytes) (h : headerTy.Val) (txs : List txTy.Val) (r : Bytes)
    (hh : headerTy.WF K h) (hn : txs.length < 2 ^ 32)
    (hwf : ∀ tx ∈ txs, txTy.WF K tx ∧ (txTy.enc tx).length ≤ MAX_TX_SIZE)
    (hnd : (txs.map (txHash H)).Nodup)
    (hroot : headerTxRoot h = BtcMerkle.btcRoot H (txs.map (txHash H))) :
    blockDec K H (blockEnc h txs ++ r) = .ok ({ header := h, txs := resList H txs r }, r) := by
  unfold blockDec blockEnc
  simp only [List.append_assoc, Ty.dec_enc K headerTy h _ hh, decCnt_encCnt .u32 txs.length _ (by simpa [Cnt.max] using hn)]
  have := blockTxs_enc K H txs r [] hwf (by simpa using hnd)
  simp only [List.reverse_nil, List.nil_append] at this
  rw [this]
  simp only [resList_hash, hroot, bne_self_eq_false, Bool.false_eq_true, if_false]

end Poly.Model.SchemaLedger
