import Poly.Model.BtcMerkle
/- Helper lemmas for C03: the in-place level loop never reads an overwritten cell. -/
namespace Poly.Model.BtcMerkle
variable (H : List UInt8 → List UInt8)

theorem refLevel_getElem? (hs : List Hash) (i : Nat) :
    (refLevel H hs)[i]? =
      if 2 * i + 1 < hs.length then some (h2 H (hs[2 * i]?.getD []) (hs[2 * i + 1]?.getD []))
      else if 2 * i < hs.length then some (h2 H (hs[2 * i]?.getD []) (hs[2 * i]?.getD []))
      else none := by
  fun_induction refLevel H hs generalizing i with
  | case1 => simp
  | case2 a => cases i <;> simp
  | case3 a b r ih =>
    cases i with
    | zero => simp
    | succ j =>
      have e1 : 2 * (j + 1) = 2 * j + 1 + 1 := by omega
      have e2 : 2 * (j + 1) + 1 = 2 * j + 1 + 1 + 1 := by omega
      simp only [List.getElem?_cons_succ, ih j, e1, List.length_cons]
      congr 1 <;> simp <;> omega

/-- Invariant of the pair loop: after `i` pairs the first `i` cells hold the next level, the rest is untouched. -/
theorem foldl_stepPair (hs : List Hash) (i : Nat) (hi : i ≤ hs.length / 2) :
    (List.range i).foldl (stepPair H) hs = (refLevel H hs).take i ++ hs.drop i := by
  induction i with
  | zero => simp
  | succ i ih =>
    rw [List.range_succ, List.foldl_append, ih (by omega)]
    simp only [List.foldl_cons, List.foldl_nil, stepPair]
    have hlen : ((refLevel H hs).take i).length = i := by
      simp [refLevel_length]; omega
    have g1 : ((refLevel H hs).take i ++ hs.drop i)[2 * i]? = hs[2 * i]? := by
      rw [List.getElem?_append_right (by omega)]; simp [hlen]; congr 1; omega
    have g2 : ((refLevel H hs).take i ++ hs.drop i)[2 * i + 1]? = hs[2 * i + 1]? := by
      rw [List.getElem?_append_right (by omega)]; simp [hlen]; congr 1; omega
    rw [g1, g2]
    have hr := refLevel_getElem? H hs i
    rw [if_pos (by omega)] at hr
    rw [List.set_append_right _ _ (by omega), hlen, Nat.sub_self]
    have hd : hs.drop i = (hs[i]?.getD []) :: hs.drop (i + 1) := by
      have : i < hs.length := by omega
      rw [List.drop_eq_getElem_cons this]; simp [this]
    rw [hd, List.set_cons_zero, List.take_add_one, hr]
    simp

private theorem take_len_succ {α : Type} (A : List α) (x : α) (B : List α) (n : Nat) (h : A.length = n) :
    (A ++ x :: B).take (n + 1) = A ++ [x] := by
  subst h; induction A with
  | nil => simp
  | cons a A ih => simpa using ih

private theorem take_len {α : Type} (A B : List α) (n : Nat) (h : A.length = n) : (A ++ B).take n = A := by
  subst h; simp

theorem inplaceLevel_eq_refLevel (hs : List Hash) : inplaceLevel H hs = refLevel H hs := by
  unfold inplaceLevel
  simp only
  rw [foldl_stepPair H hs (hs.length / 2) (Nat.le_refl _)]
  have hlen : ((refLevel H hs).take (hs.length / 2)).length = hs.length / 2 := by
    simp [refLevel_length]; omega
  split
  · rename_i hodd
    have g : ((refLevel H hs).take (hs.length / 2) ++ hs.drop (hs.length / 2))[2 * (hs.length / 2)]? = hs[2 * (hs.length / 2)]? := by
      rw [List.getElem?_append_right (by omega)]; simp [hlen]; congr 1; omega
    rw [g, List.set_append_right _ _ (by omega), hlen, Nat.sub_self]
    have hd : hs.drop (hs.length / 2) = (hs[hs.length / 2]?.getD []) :: hs.drop (hs.length / 2 + 1) := by
      have : hs.length / 2 < hs.length := by omega
      rw [List.drop_eq_getElem_cons this]; simp [this]
    rw [hd, List.set_cons_zero, take_len_succ _ _ _ _ hlen]
    have hr := refLevel_getElem? H hs (hs.length / 2)
    rw [if_neg (by omega), if_pos (by omega)] at hr
    have hfull : refLevel H hs = (refLevel H hs).take (hs.length / 2 + 1) := by
      rw [List.take_of_length_le]; simp [refLevel_length]; omega
    conv => rhs; rw [hfull, List.take_add_one, hr]
    simp
  · rename_i heven
    rw [take_len _ _ _ hlen, List.take_of_length_le]
    simp [refLevel_length]; omega

/-- The level-by-level in-place computation equals the textbook root, for every list of hashes. -/
theorem btcRoot_eq_refRoot (hs : List Hash) : btcRoot H hs = refRoot H hs := by
  fun_induction btcRoot H hs with
  | case1 => simp [refRoot]
  | case2 a => simp [refRoot]
  | case3 a b r ih => rw [refRoot, ← inplaceLevel_eq_refLevel]; exact ih

end Poly.Model.BtcMerkle
