import Poly.Model.CMsg
/-! Helper lemmas for C44 (consensus messages): codec round-trips and injectivity. Core only. -/
namespace Poly.Model.CMsg

theorem leN_length (w n : Nat) : (leN w n).length = w := by
  induction w generalizing n with
  | zero => rfl
  | succ k ih => simp [leN, ih]

theorem unLe_leN (w n : Nat) (h : n < 256 ^ w) : unLe (leN w n) = n := by
  induction w generalizing n with
  | zero => simp at h; simp [leN, unLe, h]
  | succ k ih =>
    have : n / 256 < 256 ^ k := by
      rw [Nat.pow_succ] at h
      exact Nat.div_lt_of_lt_mul (by rw [Nat.mul_comm]; exact h)
    simp [leN, unLe, ih _ this]
    omega

theorem takeN_append' (n : Nat) (b rest : Bytes) (h : b.length = n) : takeN n (b ++ rest) = some (b, rest) := by
  subst h; simp [takeN]

theorem readLe_leN (w n : Nat) (rest : Bytes) (h : n < 256 ^ w) : readLe w (leN w n ++ rest) = some (n, rest) := by
  simp [readLe, takeN_append' w _ rest (leN_length w n), unLe_leN w n h]

theorem readVarUint_varUint (n : Nat) (rest : Bytes) (h : n < 2 ^ 64) :
    readVarUint (varUint n ++ rest) = some (n, rest) := by
  unfold varUint
  split
  · rename_i h1
    have hb : n.toUInt8.toNat = n := by simp [Nat.toUInt8]; omega
    have h2 : n.toUInt8 ≠ 0xFD := by intro e; rw [e] at hb; simp at hb; omega
    have h3 : n.toUInt8 ≠ 0xFE := by intro e; rw [e] at hb; simp at hb; omega
    have h4 : n.toUInt8 ≠ 0xFF := by intro e; rw [e] at hb; simp at hb; omega
    simp [readVarUint, h2, h3, h4, hb]
  · split
    · simp only [List.cons_append, readVarUint, ↓reduceIte]
      exact readLe_leN 2 n rest (by omega)
    · split
      · have : (0xFE : UInt8) ≠ 0xFD := by decide
        simp only [List.cons_append, readVarUint, this, ↓reduceIte]
        exact readLe_leN 4 n rest (by omega)
      · have h1 : (0xFF : UInt8) ≠ 0xFD := by decide
        have h2 : (0xFF : UInt8) ≠ 0xFE := by decide
        simp only [List.cons_append, readVarUint, h1, h2, ↓reduceIte]
        exact readLe_leN 8 n rest (by omega)

theorem readVarBytes_varBytes (b rest : Bytes) (h : b.length < 2 ^ 64) :
    readVarBytes (varBytes b ++ rest) = some (b, rest) := by
  simp only [varBytes, readVarBytes, List.append_assoc, readVarUint_varUint _ _ h]
  exact takeN_append' _ b rest rfl

/-! ### ConsensusPayload -/

theorem readSigned_bytes (s : CSigned) (rest : Bytes) (hw : s.WF) :
    readSigned (s.bytes ++ rest) = some (s, rest) := by
  obtain ⟨h1, h2, h3, h4, h5, h6⟩ := hw
  simp only [CSigned.bytes, readSigned, List.append_assoc]
  rw [readLe_leN 4 _ _ (by simpa using h1)]; simp only
  rw [takeN_append' 32 _ _ h2]; simp only
  rw [readLe_leN 4 _ _ (by simpa using h3)]; simp only
  rw [readLe_leN 2 _ _ (by simpa using h4)]; simp only
  rw [readLe_leN 4 _ _ (by simpa using h5)]; simp only
  rw [readVarBytes_varBytes _ _ h6]

theorem signedBytes_inj (a b : CSigned) (ha : a.WF) (hb : b.WF) (h : a.bytes = b.bytes) : a = b := by
  have h1 := readSigned_bytes a [] ha
  have h2 := readSigned_bytes b [] hb
  rw [h] at h1
  rw [h1] at h2
  injection h2 with h2
  exact (Prod.mk.inj h2).1

theorem decodePayload_encode (keyOk : Bytes → Bool) (p : CPayload) (hw : p.signed.WF)
    (hk : keyOk p.owner = true) (ho : p.owner.length < 2 ^ 64) (hs : p.signature.length < 2 ^ 64) :
    decodePayload keyOk p.encode = .ok { p with peerId := 0 } := by
  simp only [CPayload.encode, decodePayload]
  rw [readSigned_bytes _ _ hw]; simp only
  rw [readVarBytes_varBytes _ _ ho]; simp only [hk, Bool.not_true, Bool.false_eq_true, ↓reduceIte]
  have := readVarBytes_varBytes p.signature [] hs
  rw [List.append_nil] at this
  rw [this]
  rfl

/-! ### Header -/

theorem readHeaderU_bytes (h : HeaderU) (rest : Bytes) (hw : h.WF) :
    readHeaderU (h.bytes ++ rest) = some (h, rest) := by
  obtain ⟨h1, h2, h3, h4, h5, h6, h7, h8, h9, h10, h11⟩ := hw
  simp only [HeaderU.bytes, readHeaderU, List.append_assoc]
  rw [readLe_leN 4 _ _ (by simpa using h1)]; simp only
  rw [readLe_leN 8 _ _ (by simpa using h2)]; simp only
  rw [takeN_append' 32 _ _ h3]; simp only
  rw [takeN_append' 32 _ _ h4]; simp only
  rw [takeN_append' 32 _ _ h5]; simp only
  rw [takeN_append' 32 _ _ h6]; simp only
  rw [readLe_leN 4 _ _ (by simpa using h7)]; simp only
  rw [readLe_leN 4 _ _ (by simpa using h8)]; simp only
  rw [readLe_leN 8 _ _ (by simpa using h9)]; simp only
  rw [readVarBytes_varBytes _ _ h10]; simp only
  rw [takeN_append' 20 _ _ h11]

theorem headerBytes_inj (a b : HeaderU) (ha : a.WF) (hb : b.WF) (h : a.bytes = b.bytes) : a = b := by
  have h1 := readHeaderU_bytes a [] ha
  have h2 := readHeaderU_bytes b [] hb
  rw [h] at h1
  rw [h1] at h2
  injection h2 with h2
  exact (Prod.mk.inj h2).1

/-! ### JSON objects -/

theorem jsonLookup_zip {V : Type} (tags : List String) (vals : List V) (hn : tags.Nodup)
    (hl : tags.length = vals.length) (i : Nat) (hi : i < tags.length) :
    jsonLookup (tags.zip vals) tags[i] = some (vals[i]'(hl ▸ hi)) := by
  induction tags generalizing vals i with
  | nil => simp at hi
  | cons t ts ih =>
    cases vals with
    | nil => simp at hl
    | cons v vs =>
      cases i with
      | zero => simp [jsonLookup]
      | succ j =>
        have hts : ts.Nodup := (List.nodup_cons.1 hn).2
        have hne : t ≠ ts[j]'(by simpa using hi) := by
          intro e
          exact (List.nodup_cons.1 hn).1 (e ▸ List.getElem_mem _)
        have hb : (t == ts[j]'(by simpa using hi)) = false := by simpa using hne
        have := ih vs hts (by simpa using hl) j (by simpa using hi)
        simp only [jsonLookup, List.zip_cons_cons, List.getElem_cons_succ, List.find?_cons, hb] at this ⊢
        exact this

theorem mapM_lookup {V : Type} (f : String → Option V) (tags : List String) (vals : List V)
    (hl : tags.length = vals.length)
    (h : ∀ i (hi : i < tags.length), f tags[i] = some (vals[i]'(hl ▸ hi))) : tags.mapM f = some vals := by
  induction tags generalizing vals with
  | nil => cases vals with
    | nil => rfl
    | cons _ _ => simp at hl
  | cons t ts ih =>
    cases vals with
    | nil => simp at hl
    | cons v vs =>
      have h0 := h 0 (by simp)
      have hr := ih vs (by simpa using hl) (fun i hi => by have := h (i + 1) (by simpa using hi); simpa only [List.getElem_cons_succ] using this)
      simp at h0
      simp [List.mapM_cons, h0, hr]

theorem jsonDecode_encode {V : Type} (tags : List String) (vals : List V) (hn : tags.Nodup)
    (hl : tags.length = vals.length) : jsonDecode tags (jsonEncode tags vals) = some vals := by
  unfold jsonDecode jsonEncode
  exact mapM_lookup _ tags vals hl (fun i hi => jsonLookup_zip tags vals hn hl i hi)

/-! ### double hash -/

/-- a collision of `H`: two different inputs with the same image -/
def Collision (H : Bytes → Bytes) : Prop := ∃ x y, x ≠ y ∧ H x = H y

theorem double_hash_inj_or_collision (H : Bytes → Bytes) (x y : Bytes) (h : H (H x) = H (H y)) :
    x = y ∨ Collision H := by
  by_cases hxy : x = y
  · exact Or.inl hxy
  · right
    by_cases hh : H x = H y
    · exact ⟨x, y, hxy, hh⟩
    · exact ⟨H x, H y, hh, h⟩

end Poly.Model.CMsg
