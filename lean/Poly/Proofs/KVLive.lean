import Poly.Proofs.KVJoin
/- Iterators over a buffer that is written between calls: the memdb iterator and JoinIter with a live buffer side. -/
namespace Poly.Model.KV

/-! ### A memdb iterator over a buffer that changes between calls -/

/-- `Next` on a positioned iterator, over *whatever the buffer holds now*: it moves to the first entry with a key
greater than the key it stood on (if that entry is below the limit), reading its current value. -/
theorem limitKey_eq (it : Iter) : it.limitKey = limitOf it.slice := by
  unfold Iter.limitKey limitOf; cases it.slice <;> rfl

theorem next_live (it : Iter) (m' : Entries) (e : Key × Val) (hc : it.cur = some e) (hr : it.released = false) :
    (it.next m').1.cur = (match succ e.1 m' with
      | some x => if belowLimit (limitOf it.slice) x then some x else none
      | none => none) ∧
    (it.next m').1.forward = true ∧ (it.next m').1.released = false ∧ (it.next m').1.slice = it.slice ∧
    (it.next m').2 = (it.next m').1.cur.isSome := by
  obtain ⟨sl, cur, fwd, rel, err⟩ := it
  simp only at hc hr
  subst hc; subst hr
  simp only [Iter.next, Bool.false_eq_true, if_false]
  cases hs : succ e.1 m' with
  | none => simp [Iter.fill]
  | some x =>
    simp only [Iter.fill, outOfBounds_limit, limitKey_eq]
    by_cases hb : belowLimit (limitOf sl) x = true
    · simp [hb]
    · simp [hb]

theorem succ_gt {k : Key} {m : Entries} {x : Key × Val} (h : succ k m = some x) : ltB k x.1 = true ∧ x ∈ m := by
  unfold succ at h
  exact ⟨by simpa using List.find?_some h, List.mem_of_find?_eq_some h⟩

/-- An exhausted forward iterator stays exhausted whatever is written afterwards. -/
theorem next_live_none (it : Iter) (m' : Entries) (hc : it.cur = none) (hf : it.forward = true) (hr : it.released = false) :
    it.next m' = (it, false) := by
  simp [Iter.next, hr, hc, hf]


/-! ### JoinIter whose buffer side is live (contents change between calls) and whose store side is a snapshot -/

/-- `b ≤ k` / `b < k` for an optional lower bound (`none` = nothing yielded yet). -/
def le? (ob : Option Key) (k : Key) : Prop := match ob with | none => True | some b => ltB k b = false
def lt? (ob : Option Key) (k : Key) : Prop := match ob with | none => True | some b => ltB b k = true

theorem lt?.le {ob : Option Key} {k : Key} (h : lt? ob k) : le? ob k := by
  cases ob with
  | none => trivial
  | some b => exact ltB_asymm h

theorem le?.trans_lt {ob : Option Key} {a c : Key} (h : le? ob a) (hac : ltB a c = true) : lt? ob c := by
  cases ob with
  | none => trivial
  | some b => exact ltB_of_not_lt_of_lt h hac

def namesMem (o : Origin) : Prop := o = .mem ∨ o = .both
def namesBack (o : Origin) : Prop := o = .back ∨ o = .both

section
variable {β : Type} {B : Ops β} {RB : β → Entries → Prop}

/-- Between calls: the side(s) the current key came from sit at a key ≥ the bound, the other side strictly above. -/
structure LiveInv (RB : β → Entries → Prop) (ob : Option Key) (j : Join Iter β) : Prop where
  fwd : j.mem.forward = true
  rel : j.mem.released = false
  memk : ∀ e, j.mem.cur = some e → (namesMem j.origin → le? ob e.1) ∧ (¬ namesMem j.origin → lt? ob e.1)
  back : ∃ lb, RB j.back lb ∧ (j.nextBackEnd = true → lb = []) ∧
    ∀ e ∈ lb.head?, (namesBack j.origin → le? ob e.1) ∧ (¬ namesBack j.origin → lt? ob e.1)
  nme : j.nextMemEnd = true → j.mem.cur = none

/-- After the advancing half: every valid side sits strictly above the bound. -/
structure Strict (RB : β → Entries → Prop) (ob : Option Key) (j : Join Iter β) : Prop where
  fwd : j.mem.forward = true
  rel : j.mem.released = false
  memk : ∀ e, j.mem.cur = some e → lt? ob e.1
  back : ∃ lb, RB j.back lb ∧ (j.nextBackEnd = true → lb = []) ∧ ∀ e ∈ lb.head?, lt? ob e.1
  nme : j.nextMemEnd = true → j.mem.cur = none

theorem live_advance (hB : IsCursor B RB) (m' : Entries) {ob : Option Key} {j : Join Iter β} (h : LiveInv RB ob j) :
    Strict RB ob (Join.advance (iterOps m') B j) := by
  obtain ⟨jm, jb, jk, jv, jo, jnm, jnb⟩ := j
  obtain ⟨fwd, rel, memk, ⟨lb, rb, hnb, backk⟩, nme⟩ := h
  simp only at fwd rel memk rb hnb backk nme
  simp only [Join.advance, iterOps]
  -- the buffer side
  have hmem : ∀ (adv : Bool), adv = decide ((jo = .mem ∨ jo = .both) ∧ jnm = false) →
      let jm' := if adv then (jm.next m').1 else jm
      let nm' := if adv then !(jm.next m').2 else jnm
      jm'.forward = true ∧ jm'.released = false ∧ (∀ e, jm'.cur = some e → lt? ob e.1) ∧ (nm' = true → jm'.cur = none) := by
    intro adv hadv
    cases adv with
    | false =>
      simp only [Bool.false_eq_true, if_false]
      have hn : ¬ ((jo = .mem ∨ jo = .both) ∧ jnm = false) := by simpa using hadv.symm
      refine ⟨fwd, rel, ?_, nme⟩
      intro e he
      by_cases hnm : namesMem jo
      · have : jnm = true := by
          cases hj : jnm with
          | true => rfl
          | false => exact absurd ⟨hnm, hj⟩ hn
        rw [nme this] at he; cases he
      · exact (memk e he).2 hnm
    | true =>
      simp only [if_true]
      have hy : (jo = .mem ∨ jo = .both) ∧ jnm = false := by simpa using hadv.symm
      cases hc : jm.cur with
      | none =>
        rw [next_live_none jm m' hc fwd rel]
        exact ⟨fwd, rel, by simp [hc], fun _ => hc⟩
      | some e =>
        obtain ⟨c1, c2, c3, _, c5⟩ := next_live jm m' e hc rel
        refine ⟨c2, c3, ?_, ?_⟩
        · intro x hx
          rw [c1] at hx
          cases hs : succ e.1 m' with
          | none => rw [hs] at hx; cases hx
          | some y =>
            rw [hs] at hx
            by_cases hbl : belowLimit (limitOf jm.slice) y = true
            · simp only [hbl, if_true, Option.some.injEq] at hx
              subst hx
              exact ((memk e hc).1 hy.1).trans_lt (succ_gt hs).1
            · simp [hbl] at hx
        · intro hf
          rw [c5] at hf
          cases h' : (jm.next m').1.cur with
          | none => rfl
          | some _ => rw [h'] at hf; simp at hf
  -- the snapshot side
  have hback : ∀ (adv : Bool), adv = decide ((jo = .back ∨ jo = .both) ∧ jnb = false) →
      let jb' := if adv then (B.next jb).1 else jb
      let nb' := if adv then !(B.next jb).2 else jnb
      ∃ lb', RB jb' lb' ∧ (nb' = true → lb' = []) ∧ ∀ e ∈ lb'.head?, lt? ob e.1 := by
    intro adv hadv
    cases adv with
    | false =>
      simp only [Bool.false_eq_true, if_false]
      have hn : ¬ ((jo = .back ∨ jo = .both) ∧ jnb = false) := by simpa using hadv.symm
      refine ⟨lb, rb, hnb, ?_⟩
      intro e he
      by_cases hnbk : namesBack jo
      · have : jnb = true := by
          cases hj : jnb with
          | true => rfl
          | false => exact absurd ⟨hnbk, hj⟩ hn
        rw [hnb this] at he; simp at he
      · exact (backk e he).2 hnbk
    | true =>
      simp only [if_true]
      have hy : (jo = .back ∨ jo = .both) ∧ jnb = false := by simpa using hadv.symm
      have hnx := hB.next jb lb rb
      have hsl := hB.sorted jb lb rb
      refine ⟨lb.tail, hnx.1, ?_, ?_⟩
      · intro hf; rw [hnx.2] at hf; simpa using hf
      · intro e he
        cases lb with
        | nil => simp at he
        | cons e0 r =>
          simp only [List.tail_cons] at he
          have h0 := (backk e0 (by simp)).1 hy.1
          have : e ∈ r := by cases r with
            | nil => simp at he
            | cons e1 r' => simp at he; subst he; simp
          exact h0.trans_lt ((sorted_cons.mp hsl).1 e this)
  have hm := hmem _ rfl
  have hb := hback _ rfl
  simp only at hm hb
  by_cases c1 : (jo = .mem ∨ jo = .both) ∧ jnm = false <;> by_cases c2 : (jo = .back ∨ jo = .both) ∧ jnb = false
  · simp only [c1, c2, decide_true, if_true, and_self] at hm hb ⊢
    exact ⟨hm.1, hm.2.1, hm.2.2.1, hb, hm.2.2.2⟩
  · simp only [c1, c2, decide_true, decide_false, if_true, Bool.false_eq_true, if_false, and_self] at hm hb ⊢
    exact ⟨hm.1, hm.2.1, hm.2.2.1, hb, hm.2.2.2⟩
  · simp only [c1, c2, decide_true, decide_false, if_true, Bool.false_eq_true, if_false, and_self] at hm hb ⊢
    exact ⟨hm.1, hm.2.1, hm.2.2.1, hb, hm.2.2.2⟩
  · simp only [c1, c2, decide_false, Bool.false_eq_true, if_false] at hm hb ⊢
    exact ⟨hm.1, hm.2.1, hm.2.2.1, hb, hm.2.2.2⟩


theorem le?_self (k : Key) : le? (some k) k := ltB_irrefl k

/-- The conclusion of one internal step: the invariant for the old bound, and if the entry has a non-empty value
(it will be yielded) its key is above the bound and the invariant holds with that key as the new bound. -/
def Post (RB : β → Entries → Prop) (ob : Option Key) (j : Join Iter β) : Prop :=
  LiveInv RB ob j ∧ (j.value ≠ [] → lt? ob j.key ∧ LiveInv RB (some j.key) j)

theorem live_choose (hB : IsCursor B RB) (m' : Entries) {ob : Option Key} {j : Join Iter β} (h : Strict RB ob j)
    (ht : (Join.choose (iterOps m') B j).2 = true) : Post RB ob (Join.choose (iterOps m') B j).1 := by
  obtain ⟨jm, jb, jk, jv, jo, jnm, jnb⟩ := j
  obtain ⟨fwd, rel, memk, ⟨lb, rb, hnb, backk⟩, nme⟩ := h
  simp only at fwd rel memk rb hnb backk nme
  have kb := hB.key jb lb rb
  have vb := hB.value jb lb rb
  simp only [Join.choose, iterOps, kb, vb] at ht ⊢
  -- facts about a side that shows a non-empty value
  have memval : Iter.value jm ≠ [] → ∃ e, jm.cur = some e ∧ Iter.key jm = e.1 := by
    intro hv
    cases hc : jm.cur with
    | none => simp [Iter.value, hc] at hv
    | some e => exact ⟨e, rfl, by simp [Iter.key, hc]⟩
  have backval : headVal lb ≠ [] → ∃ e r, lb = e :: r ∧ headKey lb = e.1 := by
    intro hv
    cases lb with
    | nil => simp [headVal] at hv
    | cons e r => exact ⟨e, r, rfl, rfl⟩
  cases jnb with
  | true =>
    have hl := hnb rfl; subst hl
    cases jnm with
    | true => simp at ht
    | false =>
      simp only [if_true, Bool.false_eq_true, if_false]
      refine ⟨⟨fwd, rel, fun e he => ⟨fun _ => (memk e he).le, fun _ => memk e he⟩, ⟨[], rb, fun _ => rfl, by simp⟩, nme⟩, ?_⟩
      intro hv
      obtain ⟨e, he, hk⟩ := memval hv
      simp only [hk]
      refine ⟨memk e he, ⟨fwd, rel, ?_, ⟨[], rb, fun _ => rfl, by simp⟩, nme⟩⟩
      intro e' he'
      rw [he] at he'; cases he'
      exact ⟨fun _ => le?_self _, fun hn => absurd (.inl rfl) hn⟩
  | false =>
    cases jnm with
    | true =>
      have hcn := nme rfl
      simp only [Bool.false_eq_true, if_false, if_true]
      refine ⟨⟨fwd, rel, by simp [hcn], ⟨lb, rb, hnb, fun e he => ⟨fun _ => (backk e he).le, fun _ => backk e he⟩⟩, nme⟩, ?_⟩
      intro hv
      obtain ⟨e, r, hl, hk⟩ := backval hv
      simp only [hk]
      refine ⟨backk e (by simp [hl]), ⟨fwd, rel, by simp [hcn], ⟨lb, rb, hnb, ?_⟩, nme⟩⟩
      intro e' he'
      rw [hl] at he'; simp at he'; subst he'
      exact ⟨fun _ => le?_self _, fun hn => absurd (.inl rfl) hn⟩
    | false =>
      simp only [Bool.false_eq_true, if_false]
      have weak : ∀ o : Origin, LiveInv RB ob
          { mem := jm, back := jb, key := jk, value := jv, origin := o, nextMemEnd := false, nextBackEnd := false } →
          True := fun _ _ => trivial
      have base : ∀ (k : Key) (v : Val) (o : Origin), LiveInv RB ob
          { mem := jm, back := jb, key := k, value := v, origin := o, nextMemEnd := false, nextBackEnd := false } :=
        fun k v o => ⟨fwd, rel, fun e he => ⟨fun _ => (memk e he).le, fun _ => memk e he⟩,
          ⟨lb, rb, hnb, fun e he => ⟨fun _ => (backk e he).le, fun _ => backk e he⟩⟩, nme⟩
      cases hc : cmpB (Iter.key jm) (headKey lb) with
      | lt =>
        refine ⟨base _ _ _, ?_⟩
        intro hv
        obtain ⟨e, he, hk⟩ := memval hv
        simp only [hk]
        refine ⟨memk e he, ⟨fwd, rel, ?_, ⟨lb, rb, hnb, ?_⟩, nme⟩⟩
        · intro e' he'
          rw [he] at he'; cases he'
          exact ⟨fun _ => le?_self _, fun hn => absurd (.inl rfl) hn⟩
        · intro e' he'
          refine ⟨fun hn => (by rcases hn with h | h <;> cases h), fun _ => ?_⟩
          cases lb with
          | nil => simp at he'
          | cons e0 r =>
            simp at he'; subst he'
            rw [hk] at hc
            exact ltB_iff.mpr hc
      | eq =>
        refine ⟨base _ _ _, ?_⟩
        intro hv
        obtain ⟨e, he, hk⟩ := memval hv
        simp only [hk]
        refine ⟨memk e he, ⟨fwd, rel, ?_, ⟨lb, rb, hnb, ?_⟩, nme⟩⟩
        · intro e' he'
          rw [he] at he'; cases he'
          exact ⟨fun _ => le?_self _, fun hn => absurd (.inr rfl) hn⟩
        · intro e' he'
          refine ⟨fun _ => ?_, fun hn => absurd (.inr rfl) hn⟩
          cases lb with
          | nil => simp at he'
          | cons e0 r =>
            simp at he'; subst he'
            rw [hk] at hc
            have := cmpB_eq_iff.mp hc
            simp only [headKey] at this
            show ltB e0.1 e.1 = false
            rw [← this]; exact ltB_irrefl _
      | gt =>
        refine ⟨base _ _ _, ?_⟩
        intro hv
        obtain ⟨e, r, hl, hk⟩ := backval hv
        simp only [hk]
        refine ⟨backk e (by simp [hl]), ⟨fwd, rel, ?_, ⟨lb, rb, hnb, ?_⟩, nme⟩⟩
        · intro e' he'
          refine ⟨fun hn => (by rcases hn with h | h <;> cases h), fun _ => ?_⟩
          rw [hk] at hc
          have he'' : jm.cur = some e' := he'
          have : Iter.key jm = e'.1 := by simp [Iter.key, he'']
          rw [this] at hc
          exact ltB_iff.mpr (cmpB_gt_iff_lt.mp hc)
        · intro e' he'
          rw [hl] at he'; simp at he'; subst he'
          exact ⟨fun _ => le?_self _, fun hn => absurd (.inl rfl) hn⟩


theorem first_facts (it : Iter) (m : Entries) (hr : it.released = false) :
    (it.first m).2 = (it.first m).1.cur.isSome ∧ (it.first m).1.forward = true ∧ (it.first m).1.released = false := by
  obtain ⟨sl, cur, fwd, rel, err⟩ := it
  simp only at hr; subst hr
  simp only [Iter.first, Bool.false_eq_true, if_false, Iter.fill]
  split <;> (try split) <;> simp

theorem LiveInv.clearFlags {ob : Option Key} {j : Join Iter β} (h : LiveInv RB ob j) :
    LiveInv RB ob { j with nextMemEnd := false, nextBackEnd := false } := by
  obtain ⟨fwd, rel, memk, ⟨lb, rb, _, backk⟩, _⟩ := h
  exact ⟨fwd, rel, memk, ⟨lb, rb, fun h => (by cases h), backk⟩, fun h => (by cases h)⟩

/-- The state `first()` decides on: both sides positioned by their `First`, with the flags that `next()` would have set. -/
def firstState (m : Entries) (B : Ops β) (j₀ : Join Iter β) : Join Iter β :=
  { j₀ with mem := (j₀.mem.first m).1, back := (B.first j₀.back).1, nextMemEnd := !(j₀.mem.first m).2, nextBackEnd := !(B.first j₀.back).2 }

theorem first0_as_choose (m : Entries) (j₀ : Join Iter β) (ht : (Join.first0 (iterOps m) B j₀).2 = true) :
    (Join.choose (iterOps m) B (firstState m B j₀)).2 = true ∧
    (Join.first0 (iterOps m) B j₀).1 =
      { (Join.choose (iterOps m) B (firstState m B j₀)).1 with nextMemEnd := j₀.nextMemEnd, nextBackEnd := j₀.nextBackEnd } := by
  revert ht
  by_cases hrb : (B.first j₀.back).2 = true <;> by_cases hrm : (j₀.mem.first m).2 = true <;>
    simp [firstState, Join.first0, Join.choose, iterOps, hrb, hrm]
  cases hc : cmpB (j₀.mem.first m).1.key (B.key (B.first j₀.back).1) <;> simp

/-- `First` of a fresh join: the state it stops in satisfies the invariant with the yielded key as bound. -/
theorem live_first0 (hB : IsCursor B RB) (m : Entries) (s : Option Range) (b₀ : β) (lb : Entries)
    (sb : Starts B RB b₀ lb)
    (ht : (Join.first0 (iterOps m) B ({ mem := Iter.new s, back := b₀ } : Join Iter β)).2 = true) :
    Post RB none (Join.first0 (iterOps m) B ({ mem := Iter.new s, back := b₀ } : Join Iter β)).1 := by
  obtain ⟨h1, h2⟩ := first0_as_choose (B := B) m ({ mem := Iter.new s, back := b₀ } : Join Iter β) ht
  obtain ⟨f1, f2, f3⟩ := first_facts (Iter.new s) m rfl
  have hstrict : Strict RB none (firstState m B ({ mem := Iter.new s, back := b₀ } : Join Iter β)) := by
    refine ⟨f2, f3, fun _ _ => trivial, ⟨lb, sb.1, ?_, fun _ _ => trivial⟩, ?_⟩
    · intro hf; simp only [firstState] at hf; rw [sb.2] at hf; simpa using hf
    · intro hf; simp only [firstState] at hf; rw [f1] at hf
      show ((Iter.new s).first m).1.cur = none
      cases hc : ((Iter.new s).first m).1.cur with
      | none => rfl
      | some _ => rw [hc] at hf; simp at hf
  have hp := live_choose hB m hstrict h1
  rw [h2]
  exact ⟨hp.1.clearFlags, fun hv => ⟨trivial, (hp.2 hv).2.clearFlags⟩⟩

/-- The skip loop keeps the invariant and, when it stops on an entry, that entry is above the bound. -/
theorem live_skip (hB : IsCursor B RB) (m' : Entries) (n : Nat) {ob : Option Key} {j : Join Iter β} (h : Post RB ob j)
    (ht : (Join.skip (iterOps m') B n j).2 = true) :
    lt? ob (Join.skip (iterOps m') B n j).1.key ∧
    LiveInv RB (some (Join.skip (iterOps m') B n j).1.key) (Join.skip (iterOps m') B n j).1 ∧
    (Join.skip (iterOps m') B n j).1.value ≠ [] := by
  induction n generalizing j with
  | zero => simp [Join.skip] at ht
  | succ n ih =>
    unfold Join.skip at ht ⊢
    cases hv : j.value.isEmpty with
    | false =>
      simp only [hv, Bool.false_eq_true, if_false] at ht ⊢
      have hne : j.value ≠ [] := by intro h0; rw [h0] at hv; simp at hv
      exact ⟨(h.2 hne).1, (h.2 hne).2, hne⟩
    | true =>
      simp only [hv, if_true] at ht ⊢
      cases hr : (Join.next0 (iterOps m') B j).2 with
      | false => simp [hr] at ht
      | true =>
        simp only [hr, if_true] at ht ⊢
        have hp : Post RB ob (Join.next0 (iterOps m') B j).1 :=
          live_choose hB m' (live_advance hB m' h.1) hr
        exact ih hp ht

/-- **Live join, one step.** Whatever the buffer holds now (`m'`), a `Next` that returns true yields a key strictly
greater than the previously yielded key `b`, with a non-empty value, and re-establishes the invariant. -/
theorem live_Next (hB : IsCursor B RB) (m' : Entries) (N : Nat) {b : Key} {j : Join Iter β} (h : LiveInv RB (some b) j)
    (ht : (Join.Next (iterOps m') B N j).2 = true) :
    ltB b (Join.Next (iterOps m') B N j).1.key = true ∧
    LiveInv RB (some (Join.Next (iterOps m') B N j).1.key) (Join.Next (iterOps m') B N j).1 ∧
    (Join.Next (iterOps m') B N j).1.value ≠ [] := by
  cases hr : (Join.next0 (iterOps m') B j).2 with
  | false => rw [Next_of_false _ _ _ _ hr] at ht; cases ht
  | true =>
    rw [Next_of_true _ _ _ _ hr] at ht ⊢
    exact live_skip hB m' N (live_choose hB m' (live_advance hB m' h) hr) ht

theorem live_First (hB : IsCursor B RB) (m : Entries) (N : Nat) (s : Option Range) (b₀ : β) (lb : Entries)
    (sb : Starts B RB b₀ lb)
    (ht : (Join.First (iterOps m) B N ({ mem := Iter.new s, back := b₀ } : Join Iter β)).2 = true) :
    LiveInv RB (some (Join.First (iterOps m) B N ({ mem := Iter.new s, back := b₀ } : Join Iter β)).1.key)
      (Join.First (iterOps m) B N ({ mem := Iter.new s, back := b₀ } : Join Iter β)).1 ∧
    (Join.First (iterOps m) B N ({ mem := Iter.new s, back := b₀ } : Join Iter β)).1.value ≠ [] := by
  cases hr : (Join.first0 (iterOps m) B ({ mem := Iter.new s, back := b₀ } : Join Iter β)).2 with
  | false => rw [First_of_false _ _ _ _ hr] at ht; cases ht
  | true =>
    rw [First_of_true _ _ _ _ hr] at ht ⊢
    have := live_skip hB m N (live_first0 hB m s b₀ lb sb hr) ht
    exact ⟨this.2.1, this.2.2⟩


/-- Keys yielded by successive `Next` calls, the `i`-th call seeing the buffer `ms[i]` (whatever was written in
between), until the first call that returns false. -/
def liveRun (B : Ops β) (N : Nat) : List Entries → Join Iter β → List Key
  | [], _ => []
  | m' :: rest, j =>
    let r := Join.Next (iterOps m') B N j
    if r.2 then r.1.key :: liveRun B N rest r.1 else []

theorem liveRun_increasing (hB : IsCursor B RB) (N : Nat) (ms : List Entries) {b : Key} {j : Join Iter β}
    (h : LiveInv RB (some b) j) :
    (∀ k ∈ liveRun B N ms j, ltB b k = true) ∧ (liveRun B N ms j).Pairwise (fun a c => ltB a c = true) := by
  induction ms generalizing b j with
  | nil => simp [liveRun]
  | cons m' rest ih =>
    simp only [liveRun]
    cases hr : (Join.Next (iterOps m') B N j).2 with
    | false => simp
    | true =>
      simp only [if_true]
      obtain ⟨h1, h2, _⟩ := live_Next hB m' N h hr
      obtain ⟨i1, i2⟩ := ih h2
      refine ⟨?_, List.pairwise_cons.mpr ⟨i1, i2⟩⟩
      intro k hk
      simp only [List.mem_cons] at hk
      rcases hk with rfl | hk
      · exact h1
      · exact ltB_trans h1 (i1 k hk)

end

end Poly.Model.KV
