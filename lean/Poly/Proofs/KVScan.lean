import Poly.Proofs.KVJoin
/- Prefix scans of the layered views = visible live keys under the prefix. -/
namespace Poly.Model.KV

theorem length_merge_le (a b : Entries) : (merge a b).length ≤ a.length + b.length := by
  fun_induction merge a b <;> simp_all <;> omega

theorem length_liveMerge_le (a b : Entries) : (liveMerge a b).length ≤ a.length + b.length :=
  Nat.le_trans (List.length_filter_le _ _) (length_merge_le a b)

theorem option_ext {α} {a b : Option α} (h : ∀ v, a = some v ↔ b = some v) : a = b := by
  cases a with
  | none =>
    cases b with
    | none => rfl
    | some y => exact ((h y).mpr rfl).symm ▸ rfl
  | some x => exact ((h x).mp rfl).symm

theorem lookup_filter {l : Entries} (hs : Sorted l) (p : Key × Val → Bool) (k : Key) :
    lookup k (l.filter p) = match lookup k l with | some v => if p (k, v) then some v else none | none => none := by
  apply option_ext
  intro v
  rw [lookup_eq_some_iff (Sorted.sublist List.filter_sublist hs), List.mem_filter, ← lookup_eq_some_iff hs]
  cases h : lookup k l with
  | none => simp
  | some w =>
    simp only [Option.some.injEq]
    constructor
    · rintro ⟨rfl, hp⟩; simp [hp]
    · intro h2
      split at h2
      · rename_i hp; simp only [Option.some.injEq] at h2; subst h2; exact ⟨rfl, hp⟩
      · cases h2

/-- The buffer / store entries under a prefix. -/
def under (pfx : Key) (m : Entries) : Entries := m.filter (fun e => inSlice (some (bytesPrefix pfx)) e.1)

theorem under_sorted {pfx : Key} {m : Entries} (h : Sorted m) : Sorted (under pfx m) := Sorted.sublist List.filter_sublist h

theorem lookup_under {m : Entries} (hs : Sorted m) (pfx k : Key) :
    lookup k (under pfx m) = if pfx <+: k then lookup k m else none := by
  unfold under
  rw [lookup_filter hs]
  simp only [inSlice]
  by_cases hp : pfx <+: k
  · simp [(bytesPrefix_contains pfx k).mpr hp, hp]; cases lookup k m <;> rfl
  · have : (bytesPrefix pfx).contains k = false := by
      cases h : (bytesPrefix pfx).contains k with
      | false => rfl
      | true => exact absurd ((bytesPrefix_contains pfx k).mp h) hp
    simp [this, hp]; cases lookup k m <;> rfl

theorem lookup_live {l : Entries} (hs : Sorted l) (k : Key) :
    lookup k (live l) = match lookup k l with | some (x :: v) => some (x :: v) | _ => none := by
  unfold live
  rw [lookup_filter hs]
  cases lookup k l with
  | none => rfl
  | some v => cases v <;> simp

theorem length_under_le (pfx : Key) (m : Entries) : (under pfx m).length ≤ m.length := List.length_filter_le _ _

theorem liveMerge_sorted {a b : Entries} (ha : Sorted a) (hb : Sorted b) : Sorted (liveMerge a b) :=
  live_sorted (merge_sorted ha hb)

/-! ### OverlayDB.NewIterator -/

theorem overlay_iter_cursor (o : Overlay) (hm : Sorted o.mem.ents) (hd : Sorted o.store.data) (pfx : Key) :
    IsCursor o.iterOps (JoinR (FwdAt o.mem.ents) (FwdAt o.store.data) (o.mem.ents.length + o.store.data.length + 2)) ∧
    Starts o.iterOps (JoinR (FwdAt o.mem.ents) (FwdAt o.store.data) (o.mem.ents.length + o.store.data.length + 2))
      (Overlay.newIterator pfx) (liveMerge (under pfx o.mem.ents) (under pfx o.store.data)) := by
  refine ⟨join_isCursor (iterOps_isCursor hm) (iterOps_isCursor hd) _ (by omega), ?_⟩
  have h1 := length_under_le pfx o.mem.ents
  have h2 := length_under_le pfx o.store.data
  exact join_starts (iterOps_isCursor hm) (iterOps_isCursor hd) _ _ _ (under pfx o.mem.ents) (under pfx o.store.data)
    (iterOps_starts _ hm) (iterOps_starts _ hd) (by omega)

/-- `joinIter_eq_merge` for the block layer: the scan is the live merge of the two sorted streams. -/
theorem overlay_scan_eq (o : Overlay) (hm : Sorted o.mem.ents) (hd : Sorted o.store.data) (pfx : Key) :
    o.scan pfx = liveMerge (under pfx o.mem.ents) (under pfx o.store.data) := by
  obtain ⟨hc, hs⟩ := overlay_iter_cursor o hm hd pfx
  unfold Overlay.scan
  apply collect_cursor hc _ _ _ hs
  have := length_liveMerge_le (under pfx o.mem.ents) (under pfx o.store.data)
  have h1 := length_under_le pfx o.mem.ents
  have h2 := length_under_le pfx o.store.data
  omega

theorem overlay_scan_lookup (o : Overlay) (hm : Sorted o.mem.ents) (hd : Sorted o.store.data) (pfx k : Key) :
    lookup k (o.scan pfx) = if pfx <+: k ∧ o.get k ≠ [] then some (o.get k) else none := by
  rw [overlay_scan_eq o hm hd, liveMerge, lookup_live (merge_sorted (under_sorted hm) (under_sorted hd)),
    lookup_merge (under_sorted hm) (under_sorted hd), lookup_under hm, lookup_under hd, Overlay.get_eq]
  by_cases hp : pfx <+: k
  · simp only [hp, if_true, true_and]
    cases h1 : lookup k o.mem.ents with
    | some v => cases v <;> simp
    | none =>
      cases h2 : lookup k o.store.data with
      | some v => cases v <;> simp
      | none => simp
  · simp [hp]

/-! ### CacheDB.NewIterator -/

theorem cache_scan_raw_eq (c : CacheDB) (o : Overlay) (hc : Sorted c.mem.ents) (hm : Sorted o.mem.ents)
    (hd : Sorted o.store.data) (key : Key) :
    collect (c.iterOps o) (c.mem.ents.length + o.mem.ents.length + o.store.data.length + 1) (CacheDB.newIterator key) =
      liveMerge (under (stStorage :: key) c.mem.ents)
        (liveMerge (under (stStorage :: key) o.mem.ents) (under (stStorage :: key) o.store.data)) := by
  obtain ⟨hoc, hos⟩ := overlay_iter_cursor o hm hd (stStorage :: key)
  have h1 := length_under_le (stStorage :: key) c.mem.ents
  have h2 := length_liveMerge_le (under (stStorage :: key) o.mem.ents) (under (stStorage :: key) o.store.data)
  have h3 := length_under_le (stStorage :: key) o.mem.ents
  have h4 := length_under_le (stStorage :: key) o.store.data
  have hcur := join_isCursor (iterOps_isCursor hc) hoc
    (c.mem.ents.length + o.mem.ents.length + o.store.data.length + 2) (by omega)
  have hst := join_starts (iterOps_isCursor hc) hoc
    (c.mem.ents.length + o.mem.ents.length + o.store.data.length + 2)
    (Iter.new (some (bytesPrefix (stStorage :: key)))) (Overlay.newIterator (stStorage :: key))
    (under (stStorage :: key) c.mem.ents) _ (iterOps_starts _ hc) hos (by omega)
  apply collect_cursor hcur _ _ _ hst
  have := length_liveMerge_le (under (stStorage :: key) c.mem.ents)
    (liveMerge (under (stStorage :: key) o.mem.ents) (under (stStorage :: key) o.store.data))
  omega


theorem mem_liveMerge {a b : Entries} {x : Key × Val} (h : x ∈ liveMerge a b) : x ∈ a ∨ x ∈ b :=
  mem_merge (List.mem_filter.mp h).1

theorem prefix_of_mem_under {pfx : Key} {m : Entries} {x : Key × Val} (h : x ∈ under pfx m) : pfx <+: x.1 := by
  have := (List.mem_filter.mp h).2
  simp only [inSlice] at this
  exact (bytesPrefix_contains pfx x.1).mp this

/-- The raw (unstripped) output of the CacheDB iterator. -/
def cacheRaw (c : CacheDB) (o : Overlay) (key : Key) : Entries :=
  liveMerge (under (stStorage :: key) c.mem.ents)
    (liveMerge (under (stStorage :: key) o.mem.ents) (under (stStorage :: key) o.store.data))

theorem cacheRaw_sorted (c : CacheDB) (o : Overlay) (hc : Sorted c.mem.ents) (hm : Sorted o.mem.ents)
    (hd : Sorted o.store.data) (key : Key) : Sorted (cacheRaw c o key) :=
  liveMerge_sorted (under_sorted hc) (liveMerge_sorted (under_sorted hm) (under_sorted hd))

theorem cacheRaw_prefix (c : CacheDB) (o : Overlay) (key : Key) {x : Key × Val} (h : x ∈ cacheRaw c o key) :
    ∃ k, x.1 = stStorage :: k ∧ key <+: k := by
  have hp : (stStorage :: key) <+: x.1 := by
    rcases mem_liveMerge h with h | h
    · exact prefix_of_mem_under h
    · rcases mem_liveMerge h with h | h <;> exact prefix_of_mem_under h
  obtain ⟨t, ht⟩ := hp
  exact ⟨key ++ t, by rw [← ht]; rfl, List.prefix_append _ _⟩

theorem cacheRaw_lookup (c : CacheDB) (o : Overlay) (hc : Sorted c.mem.ents) (hm : Sorted o.mem.ents)
    (hd : Sorted o.store.data) (key k : Key) :
    lookup (stStorage :: k) (cacheRaw c o key) =
      if key <+: k ∧ c.get o k ≠ [] then some (c.get o k) else none := by
  have hpre : (stStorage :: key) <+: (stStorage :: k) ↔ key <+: k := by
    rw [List.cons_prefix_cons]; simp
  unfold cacheRaw
  rw [liveMerge, lookup_live (merge_sorted (under_sorted hc) (liveMerge_sorted (under_sorted hm) (under_sorted hd))),
    lookup_merge (under_sorted hc) (liveMerge_sorted (under_sorted hm) (under_sorted hd)), lookup_under hc,
    liveMerge, lookup_live (merge_sorted (under_sorted hm) (under_sorted hd)),
    lookup_merge (under_sorted hm) (under_sorted hd), lookup_under hm, lookup_under hd, CacheDB.get_eq, Overlay.get_eq]
  by_cases hp : key <+: k
  · simp only [hpre.mpr hp, hp, if_true, true_and]
    cases h0 : lookup (stStorage :: k) c.mem.ents with
    | some v => cases v <;> simp
    | none =>
      cases h1 : lookup (stStorage :: k) o.mem.ents with
      | some v => cases v <;> simp
      | none =>
        cases h2 : lookup (stStorage :: k) o.store.data with
        | some v => cases v <;> simp
        | none => simp
  · have : ¬ (stStorage :: key) <+: (stStorage :: k) := fun h => hp (hpre.mp h)
    simp [hp, this]

theorem cache_scan_eq (c : CacheDB) (o : Overlay) (hc : Sorted c.mem.ents) (hm : Sorted o.mem.ents)
    (hd : Sorted o.store.data) (key : Key) :
    c.scan o key = (cacheRaw c o key).map fun e => (stripKey e.1, e.2) := by
  unfold CacheDB.scan
  rw [cache_scan_raw_eq c o hc hm hd key]; rfl

theorem cache_scan_mem (c : CacheDB) (o : Overlay) (hc : Sorted c.mem.ents) (hm : Sorted o.mem.ents)
    (hd : Sorted o.store.data) (key k : Key) (v : Val) :
    (k, v) ∈ c.scan o key ↔ key <+: k ∧ v = c.get o k ∧ v ≠ [] := by
  rw [cache_scan_eq c o hc hm hd, List.mem_map]
  have hs := cacheRaw_sorted c o hc hm hd key
  constructor
  · rintro ⟨e, he, heq⟩
    obtain ⟨k', hk', _⟩ := cacheRaw_prefix c o key he
    obtain ⟨ek, ev⟩ := e
    simp only at hk'; subst hk'
    simp only [stripKey, Prod.mk.injEq] at heq
    obtain ⟨rfl, rfl⟩ := heq
    have := (lookup_eq_some_iff hs).mpr he
    rw [cacheRaw_lookup c o hc hm hd] at this
    split at this
    · rename_i h; simp only [Option.some.injEq] at this; exact ⟨h.1, this.symm, this ▸ h.2⟩
    · cases this
  · rintro ⟨h1, h2, h3⟩
    refine ⟨(stStorage :: k, v), ?_, rfl⟩
    rw [← lookup_eq_some_iff hs, cacheRaw_lookup c o hc hm hd, if_pos ⟨h1, h2 ▸ h3⟩, h2]

theorem cache_scan_sorted (c : CacheDB) (o : Overlay) (hc : Sorted c.mem.ents) (hm : Sorted o.mem.ents)
    (hd : Sorted o.store.data) (key : Key) : Sorted (c.scan o key) := by
  rw [cache_scan_eq c o hc hm hd]
  have hs := cacheRaw_sorted c o hc hm hd key
  unfold Sorted at hs ⊢
  rw [List.pairwise_map]
  refine List.Pairwise.imp_of_mem ?_ hs
  intro a b ha hb hab
  obtain ⟨ka, hka, _⟩ := cacheRaw_prefix c o key ha
  obtain ⟨kb, hkb, _⟩ := cacheRaw_prefix c o key hb
  rw [hka, hkb] at hab
  simp only [stripKey, hka, hkb]
  rw [ltB_cons] at hab
  simpa [u8_lt_irrefl] using hab

end Poly.Model.KV
