import Poly.Proofs.Ledger
import Poly.Proofs.LedgerQuorum
/-!
Lemmas for C13: what `AddBlock` / `SubmitBlock` check before they commit, and what the block store answers afterwards.
-/
namespace Poly.Model.Ledger

/-- everything `submitBlock` checks before it writes -/
theorem submitGuards_ok (p : Params) (s : State) (b : Block) (h0 : b.header.height ≠ 0)
    (h : submitGuards p s b = .ok ()) :
    b.header.prev = s.mem.currHash ∧ b.header.blockRoot = treeRoot p (s.mem.blockTree ++ [b.header.prev]) := by
  unfold submitGuards at h
  split at h
  · cases h
  · rename_i h1
    split at h
    · cases h
    · rename_i h2
      constructor
      · exact Classical.byContradiction fun hc => h1 ⟨h0, hc⟩
      · exact (Classical.byContradiction fun hc => h2 ⟨h0, fun e => hc e.symm⟩)

/-- a successful `AddBlock` either found the height already committed (nothing changes) or committed the block -/
theorem addBlock_cases (p : Params) (s s' : State) (b : Block) (root : Hash) (h : addBlock p s b root = .ok s') :
    (b.header.height ≤ s.mem.currHeight ∧ s' = s) ∨
    (b.header.height = s.mem.currHeight + 1 ∧
      (∃ set, verifyHeader p s b.header s.mem.peersB = .ok set ∧
        s' = installPeers (submitted p s b (executeBlock p s b).1) b set) ∧
      (executeBlock p s b).2 = root ∧ submitGuards p s b = .ok ()) := by
  unfold addBlock at h
  split at h
  · rename_i hle
    injection h with h
    exact Or.inl ⟨hle, h.symm⟩
  · split at h
    · cases h
    · rename_i hle hnn
      split at h
      · cases h
      · rename_i set hv
        simp only at h
        split at h
        · cases h
        · rename_i hroot
          split at h
          · cases h
          · rename_i s1 hsub
            injection h with h
            obtain ⟨e, hg⟩ := submitBlock_eq p s s1 b _ hsub
            subst e
            exact Or.inr ⟨by omega, ⟨set, hv, h.symm⟩, Classical.byContradiction fun hc => hroot hc, hg⟩

theorem submitChecked_cases (p : Params) (s s' : State) (b : Block) (h : submitChecked p s b = .ok s') :
    (b.header.height ≤ s.mem.currHeight ∧ s' = s) ∨
    (b.header.height = s.mem.currHeight + 1 ∧
      (∃ set, verifyHeader p s b.header s.mem.peersB = .ok set ∧
        s' = installPeers (submitted p s b (executeBlock p s b).1) b set) ∧
      submitGuards p s b = .ok ()) := by
  unfold submitChecked at h
  split at h
  · rename_i hle
    injection h with h
    exact Or.inl ⟨hle, h.symm⟩
  · split at h
    · cases h
    · rename_i hle hnn
      split at h
      · cases h
      · rename_i set hv
        split at h
        · cases h
        · rename_i s1 hsub
          injection h with h
          obtain ⟨e, hg⟩ := submitBlock_eq p s s1 b _ hsub
          subst e
          exact Or.inr ⟨by omega, ⟨set, hv, h.symm⟩, hg⟩

/-! ### the block store after a commit -/

theorem foldl_upd_other {β : Type} (txs : List Tx) (f : Hash → Option β) (g : Tx → β) (h : Hash)
    (hn : ∀ t ∈ txs, t.hash ≠ h) :
    (txs.foldl (fun m t => upd m t.hash (some (g t))) f) h = f h := by
  induction txs generalizing f with
  | nil => rfl
  | cons t ts ih =>
    simp only [List.foldl_cons]
    rw [ih _ (fun x hx => hn x (by simp [hx]))]
    exact upd_other f t.hash h _ (fun e => hn t (by simp) e.symm)

theorem foldl_upd_hash {β : Type} (txs : List Tx) (f : Hash → Option β) (g : Tx → β) (h : Hash)
    (hex : ∃ t ∈ txs, t.hash = h) :
    ∃ t' ∈ txs, t'.hash = h ∧ (txs.foldl (fun m x => upd m x.hash (some (g x))) f) h = some (g t') := by
  induction txs generalizing f with
  | nil => obtain ⟨t, ht, -⟩ := hex; cases ht
  | cons x xs ih =>
    simp only [List.foldl_cons]
    by_cases hd : ∃ y ∈ xs, y.hash = h
    · obtain ⟨t', h1, h2, h3⟩ := ih (upd f x.hash (some (g x))) hd
      exact ⟨t', by simp [h1], h2, h3⟩
    · obtain ⟨t, ht, hth⟩ := hex
      have hxt : t = x := by
        simp only [List.mem_cons] at ht
        rcases ht with e | e
        · exact e
        · exact absurd ⟨t, e, hth⟩ hd
      subst hxt
      refine ⟨t, by simp, hth, ?_⟩
      rw [foldl_upd_other xs _ g h (fun y hy e => hd ⟨y, hy, e⟩), ← hth]
      exact upd_same f t.hash _

theorem foldl_upd_mem {β : Type} (txs : List Tx) (f : Hash → Option β) (g : Tx → β) (t : Tx) (ht : t ∈ txs) :
    ∃ t' ∈ txs, t'.hash = t.hash ∧ (txs.foldl (fun m x => upd m x.hash (some (g x))) f) t.hash = some (g t') :=
  foldl_upd_hash txs f g t.hash ⟨t, ht, rfl⟩

/-- lookups after the block batch of `b` was committed -/
theorem commit_blockBatch_lookups (p : Params) (m : Mem) (b : Block) (db : BlockDB) :
    (∀ t ∈ b.txs, ∃ t' ∈ b.txs, t'.hash = t.hash ∧
        (db.commit (blockBatch p m b)).txAt t.hash = some (t', b.header.height)) ∧
    (∀ i, i ≠ b.header.height → (db.commit (blockBatch p m b)).hashAt i = db.hashAt i) ∧
    (∀ h, h ≠ b.header.hash → (db.commit (blockBatch p m b)).blockAt h = db.blockAt h) ∧
    (∀ h, (∀ t ∈ b.txs, t.hash ≠ h) → (db.commit (blockBatch p m b)).txAt h = db.txAt h) := by
  unfold blockBatch
  rw [BlockDB.commit_append]
  obtain ⟨h1, h2, h3, h4, h5⟩ := BlockDB.commit_indexWrites p (setIndex m b.header.height b.header.hash) db
  simp only [BlockDB.commit_cons, BlockDB.commit_nil, BlockDB.apply, h3, h4, h5]
  refine ⟨?_, ?_, ?_, ?_⟩
  · intro t ht
    exact foldl_upd_mem b.txs db.txAt (fun x => (x, b.header.height)) t ht
  · intro i hi
    exact upd_other _ _ _ _ hi
  · intro h hh
    exact upd_other _ _ _ _ hh
  · intro h hh
    exact foldl_upd_other b.txs db.txAt (fun x => (x, b.header.height)) h hh

end Poly.Model.Ledger
