import Poly.Proofs.Ledger
import Poly.Proofs.LedgerQuorum
/-!
Lemmas for C13: what `AddBlock` / `SubmitBlock` check before they commit, and what the block store answers afterwards.
-/
namespace Poly.Model.Ledger

/-- everything `submitBlock` checks before it writes -/
theorem submitGuards_ok (p : Params) (s : State) (b : Block) (h0 : b.header.height ≠ 0)
    (h : submitGuards p s b = .ok ()) :
    b.header.prev = s.mem.currHash ∧ b.header.blockRoot = treeRoot p (s.mem.blockTree ++ [b.header.prev]) := by
  unfold submitGuards at h
  split at h
  · cases h
  · rename_i h1
    split at h
    · cases h
    · rename_i h2
      constructor
      · exact Classical.byContradiction fun hc => h1 ⟨h0, hc⟩
      · exact (Classical.byContradiction fun hc => h2 ⟨h0, fun e => hc e.symm⟩)

/-- a successful `AddBlock` either found the height already committed (nothing changes) or committed the block -/
theorem addBlock_cases (p : Params) (s s' : State) (b : Block) (root : Hash) (h : addBlock p s b root = .ok s') :
    (b.header.height ≤ s.mem.currHeight ∧ s' = s) ∨
    (b.header.height = s.mem.currHeight + 1 ∧
      (∃ set, verifyHeader p s b.header s.mem.peersB = .ok set ∧
        s' = installPeers (submitted p s b (executeBlock p s b).1) b set) ∧
      (executeBlock p s b).2 = root ∧ submitGuards p s b = .ok ()) := by
  unfold addBlock at h
  split at h
  · rename_i hle
    injection h with h
    exact Or.inl ⟨hle, h.symm⟩
  · split at h
    · cases h
    · rename_i hle hnn
      split at h
      · cases h
      · rename_i set hv
        simp only at h
        split at h
        · cases h
        · rename_i hroot
          split at h
          · cases h
          · rename_i s1 hsub
            injection h with h
            obtain ⟨e, hg⟩ := submitBlock_eq p s s1 b _ hsub
            subst e
            exact Or.inr ⟨by omega, ⟨set, hv, h.symm⟩, Classical.byContradiction fun hc => hroot hc, hg⟩

theorem submitChecked_cases (p : Params) (s s' : State) (b : Block) (h : submitChecked p s b = .ok s') :
    (b.header.height ≤ s.mem.currHeight ∧ s' = s) ∨
    (b.header.height = s.mem.currHeight + 1 ∧
      (∃ set, verifyHeader p s b.header s.mem.peersB = .ok set ∧
        s' = installPeers (submitted p s b (executeBlock p s b).1) b set) ∧
      submitGuards p s b = .ok ()) := by
  unfold submitChecked at h
  split at h
  · rename_i hle
    injection h with h
    exact Or.inl ⟨hle, h.symm⟩
  · split at h
    · cases h
    · rename_i hle hnn
      split at h
      · cases h
      · rename_i set hv
        split at h
        · cases h
        · rename_i s1 hsub
          injection h with h
          obtain ⟨e, hg⟩ := submitBlock_eq p s s1 b _ hsub
          subst e
          exact Or.inr ⟨by omega, ⟨set, hv, h.symm⟩, hg⟩

/-! ### block-root queries -/

/-- the block root a proposer is given for the next height with predecessor `x` is the accumulator root over the
previous-block hashes of all committed blocks plus `x` — the value `submitBlock` compares a block's root with; it
depends on nothing but the accumulator and `x` -/
theorem blockRootWithPre_next (p : Params) (s : State) (x : Hash) (hlt : s.mem.currHeight + 1 < 4294967296) :
    blockRootWithPre p s (s.mem.currHeight + 1) [x] = some (treeRoot p (s.mem.blockTree ++ [x])) := by
  unfold blockRootWithPre
  simp only [List.length_cons, List.length_nil, Nat.reducePow]
  have h1 : ¬ s.mem.currHeight > (s.mem.currHeight + 1 + (0 + 1) + 4294967296 - 1) % 4294967296 := by omega
  have h2 : (s.mem.currHeight + 1 + 4294967296 - (s.mem.currHeight + 1) % 4294967296) % 4294967296 = 0 := by omega
  rw [if_neg h1]
  simp only [h2, List.drop_zero]
  simp

/-- a caller that is behind the ledger gets the empty hash -/
theorem blockRootWithPre_behind (p : Params) (s : State) (start : Nat) (pre : List Hash)
    (h1 : 1 ≤ start + pre.length) (h2 : start + pre.length - 1 < s.mem.currHeight) (h3 : s.mem.currHeight < 4294967296) :
    blockRootWithPre p s start pre = some zeroHash := by
  unfold blockRootWithPre
  simp only [Nat.reducePow]
  have : s.mem.currHeight > (start + pre.length + 4294967296 - 1) % 4294967296 := by omega
  rw [if_pos this]


/-! ### the block store after a commit -/

theorem foldl_upd_other {β : Type} (txs : List Tx) (f : Hash → Option β) (g : Tx → β) (h : Hash)
    (hn : ∀ t ∈ txs, t.hash ≠ h) :
    (txs.foldl (fun m t => upd m t.hash (some (g t))) f) h = f h := by
  induction txs generalizing f with
  | nil => rfl
  | cons t ts ih =>
    simp only [List.foldl_cons]
    rw [ih _ (fun x hx => hn x (by simp [hx]))]
    exact upd_other f t.hash h _ (fun e => hn t (by simp) e.symm)

theorem foldl_upd_hash {β : Type} (txs : List Tx) (f : Hash → Option β) (g : Tx → β) (h : Hash)
    (hex : ∃ t ∈ txs, t.hash = h) :
    ∃ t' ∈ txs, t'.hash = h ∧ (txs.foldl (fun m x => upd m x.hash (some (g x))) f) h = some (g t') := by
  induction txs generalizing f with
  | nil => obtain ⟨t, ht, -⟩ := hex; cases ht
  | cons x xs ih =>
    simp only [List.foldl_cons]
    by_cases hd : ∃ y ∈ xs, y.hash = h
    · obtain ⟨t', h1, h2, h3⟩ := ih (upd f x.hash (some (g x))) hd
      exact ⟨t', by simp [h1], h2, h3⟩
    · obtain ⟨t, ht, hth⟩ := hex
      have hxt : t = x := by
        simp only [List.mem_cons] at ht
        rcases ht with e | e
        · exact e
        · exact absurd ⟨t, e, hth⟩ hd
      subst hxt
      refine ⟨t, by simp, hth, ?_⟩
      rw [foldl_upd_other xs _ g h (fun y hy e => hd ⟨y, hy, e⟩), ← hth]
      exact upd_same f t.hash _

theorem foldl_upd_mem {β : Type} (txs : List Tx) (f : Hash → Option β) (g : Tx → β) (t : Tx) (ht : t ∈ txs) :
    ∃ t' ∈ txs, t'.hash = t.hash ∧ (txs.foldl (fun m x => upd m x.hash (some (g x))) f) t.hash = some (g t') :=
  foldl_upd_hash txs f g t.hash ⟨t, ht, rfl⟩

/-- lookups after the block batch of `b` was committed -/
theorem commit_blockBatch_lookups (p : Params) (m : Mem) (b : Block) (db : BlockDB) :
    (∀ t ∈ b.txs, ∃ t' ∈ b.txs, t'.hash = t.hash ∧
        (db.commit (blockBatch p m b)).txAt t.hash = some (t', b.header.height)) ∧
    (∀ i, i ≠ b.header.height → (db.commit (blockBatch p m b)).hashAt i = db.hashAt i) ∧
    (∀ h, h ≠ b.header.hash → (db.commit (blockBatch p m b)).blockAt h = db.blockAt h) ∧
    (∀ h, (∀ t ∈ b.txs, t.hash ≠ h) → (db.commit (blockBatch p m b)).txAt h = db.txAt h) := by
  unfold blockBatch
  rw [BlockDB.commit_append]
  obtain ⟨h1, h2, h3, h4, h5⟩ := BlockDB.commit_indexWrites p (setIndex m b.header.height b.header.hash) db
  simp only [BlockDB.commit_cons, BlockDB.commit_nil, BlockDB.apply, h3, h4, h5]
  refine ⟨?_, ?_, ?_, ?_⟩
  · intro t ht
    exact foldl_upd_mem b.txs db.txAt (fun x => (x, b.header.height)) t ht
  · intro i hi
    exact upd_other _ _ _ _ hi
  · intro h hh
    exact upd_other _ _ _ _ hh
  · intro h hh
    exact foldl_upd_other b.txs db.txAt (fun x => (x, b.header.height)) h hh

/-! ### the chain invariant -/

/-- what "no hash collision between `b` and the objects the ledger already holds" is needed for: a stored block with
the hash of `b` has the height of `b`, a cached header with that hash has its timestamp (both are hashed fields, so
this follows from collision-freedom of the header hash: `LedgerHash.lean`); and the hash of `b` is not the all-zero
value that `loadHeaderIndexList` treats as "no hash" -/
def NoColl (s : State) (b : Block) : Prop :=
  (∀ blk, s.dur.blocks.blockAt b.header.hash = some blk → blk.header.height = b.header.height) ∧
  (∀ hd ∈ s.mem.cache, hd.hash = b.header.hash → hd.timestamp = b.header.timestamp) ∧
  b.header.hash ≠ zeroHash

/-- a header delivered ahead of its block does not collide with a stored block (same hash ⇒ same timestamp) -/
def NoCollH (s : State) (hd : Header) : Prop :=
  ∀ blk, s.dur.blocks.blockAt hd.hash = some blk → blk.header.timestamp = hd.timestamp

/-- the committed blocks form one hash-linked chain with strictly increasing timestamps, the block accumulator holds
exactly their previous-block hashes, nothing else is stored, and cached headers agree with stored blocks -/
structure Chain (g : Block) (s : State) : Prop where
  tip : s.dur.blocks.hashAt s.mem.currHeight = some s.mem.currHash
  stored : ∀ i, i ≤ s.mem.currHeight → ∃ blk, s.dur.blocks.hashAt i = some blk.header.hash ∧
    s.dur.blocks.blockAt blk.header.hash = some blk ∧ blk.header.height = i
  linked : ∀ i bi bj, i < s.mem.currHeight →
    s.dur.blocks.hashAt i = some bi.header.hash → s.dur.blocks.blockAt bi.header.hash = some bi →
    s.dur.blocks.hashAt (i + 1) = some bj.header.hash → s.dur.blocks.blockAt bj.header.hash = some bj →
    bj.header.prev = bi.header.hash ∧ bi.header.timestamp < bj.header.timestamp
  acc : s.mem.blockTree = g.header.prev :: (List.range s.mem.currHeight).map (fun i => (s.dur.blocks.hashAt i).getD [])
  bounded : ∀ h blk, s.dur.blocks.blockAt h = some blk → blk.header.hash = h ∧ blk.header.height ≤ s.mem.currHeight
  cacheOK : ∀ hd ∈ s.mem.cache, ∀ blk, s.dur.blocks.blockAt hd.hash = some blk → blk.header.timestamp = hd.timestamp

theorem cacheFind_some (c : List Header) (h : Hash) (hd : Header) (hf : cacheFind c h = some hd) :
    hd ∈ c ∧ hd.hash = h := by
  unfold cacheFind at hf
  have h1 := List.find?_some hf
  have h2 := List.mem_of_find?_eq_some hf
  exact ⟨h2, by simpa using h1⟩

/-- the header `verifyHeader` finds for the tip hash is the header of the tip block -/
theorem headerByHash_tip (g : Block) (s : State) (hc : Chain g s) (prevH : Header) (tipB : Block)
    (ht : s.dur.blocks.blockAt s.mem.currHash = some tipB)
    (h : headerByHash s s.mem.currHash = some prevH) : prevH.timestamp = tipB.header.timestamp := by
  unfold headerByHash at h
  split at h
  · rename_i hd hf
    injection h with h
    subst h
    obtain ⟨hm, hh⟩ := cacheFind_some _ _ _ hf
    have := hc.cacheOK hd hm tipB (by rw [hh]; exact ht)
    exact this.symm
  · rw [ht] at h
    have : tipB.header = prevH := by simpa using h
    rw [this]

/-- one committed block extends the chain -/
theorem chain_step (g : Block) (s s' : State) (b : Block) (hc : Chain g s)
    (hh : b.header.height = s.mem.currHeight + 1) (hprev : b.header.prev = s.mem.currHash)
    (hts : ∃ prevH, headerByHash s s.mem.currHash = some prevH ∧ prevH.timestamp < b.header.timestamp)
    (hnc : NoColl s b)
    (e1 : s'.mem.currHeight = b.header.height) (e2 : s'.mem.currHash = b.header.hash)
    (e3 : s'.dur.blocks.hashAt b.header.height = some b.header.hash)
    (e4 : ∀ i, i ≠ b.header.height → s'.dur.blocks.hashAt i = s.dur.blocks.hashAt i)
    (e5 : s'.dur.blocks.blockAt b.header.hash = some b)
    (e6 : ∀ h, h ≠ b.header.hash → s'.dur.blocks.blockAt h = s.dur.blocks.blockAt h)
    (e7 : s'.mem.blockTree = s.mem.blockTree ++ [b.header.prev])
    (e8 : ∀ hd ∈ s'.mem.cache, hd ∈ s.mem.cache) : Chain g s' := by
  have old_ne : ∀ blk : Block, s.dur.blocks.blockAt blk.header.hash = some blk → blk.header.height ≤ s.mem.currHeight →
      blk.header.hash ≠ b.header.hash := by
    intro blk hb hle e
    rw [e] at hb
    have := hnc.1 blk hb
    omega
  obtain ⟨tipB, t1, t2, t3⟩ := hc.stored s.mem.currHeight (Nat.le_refl _)
  have htipHash : tipB.header.hash = s.mem.currHash := by
    rw [hc.tip] at t1; exact (Option.some.inj t1).symm
  have htipNe : s.mem.currHash ≠ b.header.hash := by
    rw [← htipHash]; exact old_ne tipB t2 (by omega)
  constructor
  · rw [e1, e2]; exact e3
  · intro i hi
    rw [e1, hh] at hi
    by_cases hi' : i = s.mem.currHeight + 1
    · subst hi'
      exact ⟨b, by rw [← hh]; exact e3, e5, hh⟩
    · obtain ⟨blk, a1, a2, a3⟩ := hc.stored i (by omega)
      refine ⟨blk, ?_, ?_, a3⟩
      · rw [e4 i (by omega)]; exact a1
      · rw [e6 _ (old_ne blk a2 (by omega))]; exact a2
  · intro i bi bj hi h1 h2 h3 h4
    rw [e1, hh] at hi
    have hbi : bi.header.hash ≠ b.header.hash := by
      obtain ⟨blk, a1, a2, a3⟩ := hc.stored i (by omega)
      rw [e4 i (by omega), a1] at h1
      have : blk.header.hash = bi.header.hash := Option.some.inj h1
      rw [← this]
      exact old_ne blk a2 (by omega)
    rw [e4 i (by omega)] at h1
    rw [e6 _ hbi] at h2
    by_cases hi' : i < s.mem.currHeight
    · have hbj : bj.header.hash ≠ b.header.hash := by
        obtain ⟨blk, a1, a2, a3⟩ := hc.stored (i + 1) (by omega)
        rw [e4 (i + 1) (by omega), a1] at h3
        have : blk.header.hash = bj.header.hash := Option.some.inj h3
        rw [← this]
        exact old_ne blk a2 (by omega)
      rw [e4 (i + 1) (by omega)] at h3
      rw [e6 _ hbj] at h4
      exact hc.linked i bi bj hi' h1 h2 h3 h4
    · have hic : i = s.mem.currHeight := by omega
      subst hic
      rw [← hh, e3] at h3
      have hj : bj.header.hash = b.header.hash := (Option.some.inj h3).symm
      rw [hj, e5] at h4
      have hbj : bj = b := (Option.some.inj h4).symm
      subst hbj
      rw [hc.tip] at h1
      have hbih : bi.header.hash = s.mem.currHash := (Option.some.inj h1).symm
      refine ⟨by rw [hprev, hbih], ?_⟩
      obtain ⟨prevH, p1, p2⟩ := hts
      rw [hbih] at h2
      have := headerByHash_tip g s hc prevH bi h2 p1
      rw [← this]; exact p2
  · rw [e7, hc.acc, e1, hh, List.range_succ, List.map_append]
    simp only [List.cons_append, List.map_cons, List.map_nil]
    congr 1
    congr 1
    · apply List.map_congr_left
      intro i hi
      rw [List.mem_range] at hi
      rw [e4 i (by omega)]
    · rw [e4 _ (by omega), hc.tip, hprev]; rfl
  · intro h blk hb
    by_cases hhb : h = b.header.hash
    · subst hhb
      rw [e5] at hb
      have : blk = b := (Option.some.inj hb).symm
      subst this
      exact ⟨rfl, by omega⟩
    · rw [e6 h hhb] at hb
      obtain ⟨a1, a2⟩ := hc.bounded h blk hb
      exact ⟨a1, by omega⟩
  · intro hd hm blk hb
    have hm' := e8 hd hm
    by_cases hhb : hd.hash = b.header.hash
    · rw [hhb, e5] at hb
      have : blk = b := (Option.some.inj hb).symm
      subst this
      exact (hnc.2.1 hd hm' hhb).symm
    · rw [e6 _ hhb] at hb
      exact hc.cacheOK hd hm' blk hb



/-- the chain invariant only depends on the block store, the tip, the block accumulator and the header cache -/
theorem chain_of_same (g : Block) (s t : State) (hc : Chain g s) (hb : t.dur.blocks = s.dur.blocks)
    (h1 : t.mem.currHeight = s.mem.currHeight) (h2 : t.mem.currHash = s.mem.currHash)
    (h3 : t.mem.blockTree = s.mem.blockTree)
    (h4 : ∀ hd ∈ t.mem.cache, hd ∈ s.mem.cache ∨ NoCollH s hd) : Chain g t := by
  constructor
  · rw [hb, h1, h2]; exact hc.tip
  · rw [hb, h1]; exact hc.stored
  · rw [hb, h1]; exact hc.linked
  · rw [hb, h1, h3]; exact hc.acc
  · rw [hb, h1]; exact hc.bounded
  · intro hd hm blk hblk
    rw [hb] at hblk
    rcases h4 hd hm with h | h
    · exact hc.cacheOK hd h blk hblk
    · exact h blk hblk

/-- facts about the state `submitBlock` builds, in the form `chain_step` wants them -/
theorem submitted_facts (p : Params) (s : State) (b : Block) (res : ExecResult) :
    let t := submitted p s b res
    t.mem.currHeight = b.header.height ∧ t.mem.currHash = b.header.hash ∧
    t.dur.blocks.hashAt b.header.height = some b.header.hash ∧
    (∀ i, i ≠ b.header.height → t.dur.blocks.hashAt i = s.dur.blocks.hashAt i) ∧
    t.dur.blocks.blockAt b.header.hash = some b ∧
    (∀ h, h ≠ b.header.hash → t.dur.blocks.blockAt h = s.dur.blocks.blockAt h) ∧
    t.mem.blockTree = s.mem.blockTree ++ [b.header.prev] ∧
    t.mem.cache = s.mem.cache := by
  obtain ⟨-, -, b3, b4⟩ := commit_blockBatch p s.mem b s.dur.blocks
  obtain ⟨-, l2, l3, -⟩ := commit_blockBatch_lookups p s.mem b s.dur.blocks
  refine ⟨rfl, rfl, ?_, ?_, ?_, ?_, ?_, ?_⟩
  · simpa [submitted, persisted, fillAll] using b3
  · intro i hi; simpa [submitted, persisted, fillAll] using l2 i hi
  · simpa [submitted, persisted, fillAll] using b4
  · intro h hh; simpa [submitted, persisted, fillAll] using l3 h hh
  · simp [submitted, fillAll, fillMem, newBlockTree]
  · simp only [submitted, fillAll, fillMem, fillBlockMem]
    have : (indexMem p (setIndex s.mem b.header.height b.header.hash)).cache = (setIndex s.mem b.header.height b.header.hash).cache := by
      unfold indexMem; split <;> rfl
    rw [this]; rfl

theorem mem_cacheDel (c : List Header) (h : Hash) (hd : Header) (hm : hd ∈ cacheDel c h) : hd ∈ c := by
  unfold cacheDel at hm
  exact (List.mem_filter.mp hm).1

theorem mem_cacheAdd (c : List Header) (x hd : Header) (hm : hd ∈ cacheAdd c x) : hd = x ∨ hd ∈ c := by
  unfold cacheAdd at hm
  simp only [List.mem_cons] at hm
  rcases hm with h | h
  · exact Or.inl h
  · exact Or.inr (List.mem_filter.mp h).1

/-- a successfully added block keeps the chain invariant -/
theorem addBlock_chain (p : Params) (g : Block) (s s' : State) (b : Block) (root : Hash) (hc : Chain g s)
    (hnc : NoColl s b) (h : addBlock p s b root = .ok s') : Chain g s' := by
  rcases addBlock_cases p s s' b root h with ⟨-, e⟩ | ⟨hh, ⟨set, hv, e⟩, -, hg⟩
  · subst e; exact hc
  · subst e
    have h0 : b.header.height ≠ 0 := by omega
    obtain ⟨g1, -⟩ := submitGuards_ok p s b h0 hg
    obtain ⟨⟨prev, hp, -, hpt⟩, -, -, -⟩ := verifyHeader_ok p s b.header s.mem.peersB set h0 hv
    rw [g1] at hp
    obtain ⟨f1, f2, f3, f4, f5, f6, f7, f8⟩ := submitted_facts p s b (executeBlock p s b).1
    refine chain_step g s _ b hc hh g1 ⟨prev, hp, hpt⟩ hnc f1 f2 f3 f4 f5 f6 f7 ?_
    intro hd hm
    have : hd ∈ (submitted p s b (executeBlock p s b).1).mem.cache := mem_cacheDel _ _ _ hm
    rw [f8] at this; exact this

theorem submitChecked_chain (p : Params) (g : Block) (s s' : State) (b : Block) (hc : Chain g s)
    (hnc : NoColl s b) (h : submitChecked p s b = .ok s') : Chain g s' := by
  rcases submitChecked_cases p s s' b h with ⟨-, e⟩ | ⟨hh, ⟨set, hv, e⟩, hg⟩
  · subst e; exact hc
  · subst e
    have h0 : b.header.height ≠ 0 := by omega
    obtain ⟨g1, -⟩ := submitGuards_ok p s b h0 hg
    obtain ⟨⟨prev, hp, -, hpt⟩, -, -, -⟩ := verifyHeader_ok p s b.header s.mem.peersB set h0 hv
    rw [g1] at hp
    obtain ⟨f1, f2, f3, f4, f5, f6, f7, f8⟩ := submitted_facts p s b (executeBlock p s b).1
    refine chain_step g s _ b hc hh g1 ⟨prev, hp, hpt⟩ hnc f1 f2 f3 f4 f5 f6 f7 ?_
    intro hd hm
    have : hd ∈ (submitted p s b (executeBlock p s b).1).mem.cache := mem_cacheDel _ _ _ hm
    rw [f8] at this; exact this

/-- the durable state a crash behind the first commit recovers to is the one of the complete submission, which
extends the chain when the submission passes the checks of `AddBlock` -/
theorem submitted_chain (p : Params) (g : Block) (s s'' : State) (b : Block) (root : Hash) (hc : Chain g s)
    (hnc : NoColl s b) (hh : b.header.height = s.mem.currHeight + 1) (h : addBlock p s b root = .ok s'') :
    Chain g (submitted p s b (p.exec s.dur.states.kv b)) := by
  rcases addBlock_cases p s s'' b root h with ⟨hle, -⟩ | ⟨-, ⟨set, hv, -⟩, -, hg⟩
  · omega
  · have h0 : b.header.height ≠ 0 := by omega
    obtain ⟨g1, -⟩ := submitGuards_ok p s b h0 hg
    obtain ⟨⟨prev, hp, -, hpt⟩, -, -, -⟩ := verifyHeader_ok p s b.header s.mem.peersB set h0 hv
    rw [g1] at hp
    obtain ⟨f1, f2, f3, f4, f5, f6, f7, f8⟩ := submitted_facts p s b (p.exec s.dur.states.kv b)
    refine chain_step g s _ b hc hh g1 ⟨prev, hp, hpt⟩ hnc f1 f2 f3 f4 f5 f6 f7 ?_
    intro hd hm
    rw [f8] at hm; exact hm

theorem addHeader_chain (p : Params) (g : Block) (s s' : State) (hd : Header) (hc : Chain g s)
    (hnc : NoCollH s hd) (h : addHeader p s hd = .ok s') : Chain g s' := by
  unfold addHeader at h
  split at h
  · cases h
  · split at h
    · cases h
    · injection h with h
      subst h
      refine chain_of_same g s _ hc rfl rfl rfl rfl ?_
      intro x hx
      have : x ∈ cacheAdd s.mem.cache hd := hx
      rcases mem_cacheAdd _ _ _ this with e | e
      · subst e; exact Or.inr hnc
      · exact Or.inl e



theorem reopen_synced_mem (p : Params) (g : Block) (s t : State) (d : Durable) (hs : Synced s) (hd : SameStores d s)
    (h : reopen p g d = .ok t) : t.mem.cache = [] ∧ t.mem.blockTree = s.mem.blockTree := by
  rw [reopen_synced p g s d hs hd] at h
  split at h
  · cases h
  · split at h
    · cases h
    · unfold withPeers at h
      split at h
      · cases h
      · injection h with h; subst h
        exact ⟨rfl, rfl⟩

/-- a restart keeps the chain invariant -/
theorem reopen_chain (p : Params) (g : Block) (s t : State) (d : Durable) (hs : Synced s) (hc : Chain g s)
    (hd : SameStores d s) (h : reopen p g d = .ok t) : Chain g t := by
  obtain ⟨e1, -, e3, e4⟩ := reopen_synced_ok p g s t d hs hd h
  obtain ⟨m1, m2⟩ := reopen_synced_mem p g s t d hs hd h
  refine chain_of_same g s t hc (by rw [e1]; exact hd.1) e3 e4 m2 ?_
  intro x hx
  rw [m1] at hx
  cases hx

/-- the empty ledger a first start begins with -/
def gen0 : State := { dur := Durable.empty, mem := emptyMem }

/-- the genesis block submitted to the empty ledger -/
def genSubmitted (p : Params) (g : Block) : State := submitted p gen0 g (executeBlock p gen0 g).1

theorem initLedger_form (p : Params) (g : Block) (s : State) (h : initLedger p g = .ok s) :
    ∃ set, s.dur = { (genSubmitted p g).dur with blocks := { (genSubmitted p g).dur.blocks with version := true } } ∧
      s.mem = { (genSubmitted p g).mem with peersH := set, peersB := set } := by
  unfold initLedger reopen at h
  rw [openState_empty] at h
  simp only [Durable.empty, BlockDB.empty, Bool.not_false, if_true] at h
  split at h
  · cases h
  · rename_i s1 hs1
    unfold initGenesis at hs1
    simp only at hs1
    split at hs1
    · cases hs1
    · rename_i s2 hs2
      injection hs1 with hs1
      subst hs1
      obtain ⟨e, -⟩ := submitBlock_eq p _ s2 g _ hs2
      subst e
      unfold withPeers at h
      split at h
      · cases h
      · rename_i set _
        injection h with h
        subst h
        exact ⟨set, rfl, rfl⟩

/-- the ledger after the first start is a chain of one block -/
theorem initLedger_chain (p : Params) (g : Block) (s : State) (hg : g.header.height = 0)
    (h : initLedger p g = .ok s) : Chain g s := by
  obtain ⟨set, hd, hm⟩ := initLedger_form p g s h
  obtain ⟨f1, f2, f3, f4, f5, f6, f7, f8⟩ := submitted_facts p gen0 g (executeBlock p gen0 g).1
  have k1 : s.mem.currHeight = g.header.height := by rw [hm]; exact f1
  have k2 : s.mem.currHash = g.header.hash := by rw [hm]; exact f2
  have k3 : s.dur.blocks.hashAt = (genSubmitted p g).dur.blocks.hashAt := by rw [hd]
  have k4 : s.dur.blocks.blockAt = (genSubmitted p g).dur.blocks.blockAt := by rw [hd]
  have k5 : s.mem.blockTree = [g.header.prev] := by rw [hm]; exact f7
  have k6 : s.mem.cache = [] := by rw [hm]; exact f8
  constructor
  · rw [k1, k2, k3]; exact f3
  · intro i hi
    rw [k1, hg] at hi
    have hi0 : i = 0 := by omega
    subst hi0
    exact ⟨g, by rw [k3, ← hg]; exact f3, by rw [k4]; exact f5, hg⟩
  · intro i bi bj hi
    rw [k1, hg] at hi
    omega
  · rw [k5, k1, hg]; rfl
  · intro x blk hb
    rw [k4] at hb
    unfold genSubmitted at hb
    by_cases hx : x = g.header.hash
    · subst hx
      rw [f5] at hb
      have : blk = g := (Option.some.inj hb).symm
      subst this
      exact ⟨rfl, by rw [k1]; exact Nat.le_refl _⟩
    · rw [f6 x hx] at hb
      cases hb
  · intro hd' hm'
    rw [k6] at hm'
    cases hm'


/-! ### a crash during the very first start -/

/-- the durable state left when the very first start stops at crash point `k` of the genesis block's `submitBlock` -/
def firstCrashD (p : Params) (g : Block) (k : Nat) : Durable :=
  persisted gen0.dur (fillAll p gen0 g (executeBlock p gen0 g).1) k

theorem initGenesis_fileLen (p : Params) (d : Durable) (g : Block)
    (h : max d.fileLen (appendCount 0) = max 0 (appendCount 0)) :
    initGenesis p d g = initGenesis p Durable.empty g := by
  unfold initGenesis
  simp only
  unfold submitBlock
  have hg : submitGuards p { dur := { blocks := BlockDB.empty, states := StateDB.empty, events := EventDB.empty, fileLen := d.fileLen }, mem := emptyMem } g
      = submitGuards p { dur := { blocks := BlockDB.empty, states := StateDB.empty, events := EventDB.empty, fileLen := Durable.empty.fileLen }, mem := emptyMem } g := rfl
  rw [hg]
  cases submitGuards p { dur := { blocks := BlockDB.empty, states := StateDB.empty, events := EventDB.empty, fileLen := Durable.empty.fileLen }, mem := emptyMem } g with
  | error e => rfl
  | ok _ =>
    simp only [persisted, fillAll, fillMem, fillBlockMem_filePos, fillBlockMem_blockTree, emptyMem, List.length_nil,
      Durable.empty] at h ⊢
    simp only [Nat.zero_add] at h ⊢
    rw [h]
    rfl

theorem firstCrashD_fileLen (p : Params) (g : Block) (k : Nat) :
    (firstCrashD p g k).fileLen = max 0 (0 + appendCount 0) := by
  simp [firstCrashD, persisted, fillAll_fileLen, gen0, Durable.empty, emptyMem]

theorem firstCrashD_version (p : Params) (g : Block) (k : Nat) : (firstCrashD p g k).blocks.version = false := by
  unfold firstCrashD persisted
  simp only
  split
  · exact (commit_blockBatch p gen0.mem g gen0.dur.blocks).1
  · rfl

theorem openState_firstCrash (p : Params) (g : Block) (k : Nat) (hg : g.header.height = 0) :
    ∃ r, openState (firstCrashD p g k) = .ok r := by
  by_cases hk : k ≥ 3
  · obtain ⟨c1, c2, c3⟩ := commit_stateBatch_sys p gen0.mem.stateTree gen0.mem.blockTree g (executeBlock p gen0 g).1 gen0.dur.states
    have e1 : (firstCrashD p g k).states = gen0.dur.states.commit (stateBatch p gen0.mem.stateTree gen0.mem.blockTree g (executeBlock p gen0 g).1) := by
      simp [firstCrashD, persisted, hk, fillAll]
    unfold openState
    rw [e1, c1, c2, c3, firstCrashD_fileLen]
    simp only [Option.getD_some, newBlockTree, newStateTree, hg, gen0, emptyMem, if_true, List.nil_append,
      List.length_cons, List.length_nil, storedNum_succ, storedNum]
    simp
  · have e1 : (firstCrashD p g k).states = StateDB.empty := by
      simp [firstCrashD, persisted, hk, gen0, Durable.empty]
    unfold openState
    rw [e1, firstCrashD_fileLen]
    simp [StateDB.empty, storedNum]

/-- **a crash during the very first start is harmless**: whatever point of the genesis block's persistence was
reached, the second start produces exactly the ledger of an undisturbed first start -/
theorem reopen_firstCrash (p : Params) (g : Block) (k : Nat) (hg : g.header.height = 0) :
    reopen p g (firstCrashD p g k) = initLedger p g := by
  obtain ⟨r, hr⟩ := openState_firstCrash p g k hg
  unfold initLedger
  unfold reopen
  rw [hr, openState_empty]
  simp only [firstCrashD_version, Durable.empty, BlockDB.empty, Bool.not_false, if_true]
  rw [initGenesis_fileLen p (firstCrashD p g k) g (by rw [firstCrashD_fileLen]; omega)]
  rfl


/-- ledgers reachable by histories in which every crash interrupts a submission that passes the checks of
`AddBlock`, and in which no two different blocks / headers carry the same hash -/
inductive ReachV (p : Params) (g : Block) : State → Prop
  | init {s} : initLedger p g = .ok s → ReachV p g s
  | add {s s'} (b : Block) (root : Hash) : ReachV p g s → NoColl s b → addBlock p s b root = .ok s' → ReachV p g s'
  | sub {s s'} (b : Block) : ReachV p g s → NoColl s b → submitChecked p s b = .ok s' → ReachV p g s'
  | hdr {s s'} (hd : Header) : ReachV p g s → NoCollH s hd → addHeader p s hd = .ok s' → ReachV p g s'
  | restart {s s'} : ReachV p g s → reopen p g s.dur = .ok s' → ReachV p g s'
  | crash {s s' s''} (b : Block) (root : Hash) (k : Nat) : ReachV p g s → NoColl s b →
      b.header.height = s.mem.currHeight + 1 → addBlock p s b root = .ok s'' → k ≤ 3 →
      reopen p g (crashD p s b k) = .ok s' → ReachV p g s'

theorem reachV_reach (p : Params) (g : Block) (s : State) (h : ReachV p g s) : Reach p g s := by
  induction h with
  | init h => exact Reach.init h
  | add b root _ _ h ih => exact Reach.add b root ih h
  | sub b _ _ h ih => exact Reach.sub b ih h
  | hdr hd _ _ h ih => exact Reach.hdr hd ih h
  | restart _ h ih => exact Reach.restart ih h
  | crash b root k _ _ hh _ hk h ih => exact Reach.crash b k ih hh hk h

/-- **chain invariant over all such histories** -/
theorem reachV_chain (p : Params) (g : Block) (hg : g.header.height = 0) (s : State) (h : ReachV p g s) : Chain g s := by
  induction h with
  | init h => exact initLedger_chain p g _ hg h
  | add b root _ hn h ih => exact addBlock_chain p g _ _ b root ih hn h
  | sub b _ hn h ih => exact submitChecked_chain p g _ _ b ih hn h
  | hdr hd _ hn h ih => exact addHeader_chain p g _ _ hd ih hn h
  | @restart s0 s1 hr h ih =>
    have hs := reach_synced p g hg s0 (reachV_reach p g s0 hr)
    exact reopen_chain p g s0 s1 _ hs ih (sameStores_self s0 hs) h
  | @crash s0 s1 s2 b root k hr hn hh ha hk h ih =>
    have hs := reach_synced p g hg s0 (reachV_reach p g s0 hr)
    by_cases h0 : k = 0
    · subst h0
      exact reopen_chain p g s0 s1 _ hs ih (crashD0_same p s0 b hs) h
    · rw [reopen_crash_ge1 p g s0 b k hs hh (by omega) hk, ← submitted_dur] at h
      have hs3 := submitted_synced_next p s0 b (p.exec s0.dur.states.kv b) hs hh
      have hc3 := submitted_chain p g s0 s2 b root ih hn hh ha
      exact reopen_chain p g _ s1 _ hs3 hc3 (sameStores_self _ hs3) h

end Poly.Model.Ledger
