import Poly.Model.Schema
import Poly.Proofs.Codec
/-!
# Generic theorems about the schema DSL (proved once, by induction on the schema)

* `Ty.dec_enc`   — round trip with exact consumption: `dec t (enc t v ++ r) = ok (v, r)` for well-formed `v`;
* `Ty.enc_injective`, `Ty.enc_prefix_free` — encodings determine the value (and the split point);
* `Ty.dec_trunc` — for strict schemas every proper prefix of an encoding is rejected;
* `Ty.dec_no_panic` — schemas without unbounded preallocation never reach the `panic` outcome, on any input;
* `canonMap_perm` — the canonical entry order (hence the encoding of a map) does not depend on the enumeration order.
-/
set_option linter.unusedSimpArgs false
set_option linter.unusedVariables false
namespace Poly.Model.Schema
open Poly.Model.Codec

/-! big-endian naturals -/
theorem foldl_ofBe (x : Nat) (bs : Bytes) :
    bs.foldl (fun acc (b : UInt8) => acc * 256 + b.toNat) x = x * 256 ^ bs.length + ofBe bs := by
  induction bs generalizing x with
  | nil => simp [ofBe]
  | cons b bs ih =>
    simp only [List.foldl_cons, List.length_cons, ofBe]
    rw [ih, ih (0 * 256 + b.toNat)]
    rw [Nat.pow_succ, Nat.add_mul, Nat.add_mul, Nat.mul_assoc, Nat.mul_comm 256 (256 ^ bs.length)]
    omega

theorem ofBe_cons (b : UInt8) (bs : Bytes) : ofBe (b :: bs) = b.toNat * 256 ^ bs.length + ofBe bs := by
  have := foldl_ofBe (0 * 256 + b.toNat) bs
  simp only [ofBe, List.foldl_cons] at this ⊢
  rw [this]; simp

theorem beBytesAux_spec (fuel n : Nat) (acc : Bytes) (h : n ≤ fuel) :
    ofBe (beBytesAux fuel n acc) = n * 256 ^ acc.length + ofBe acc := by
  induction fuel generalizing n acc with
  | zero => have : n = 0 := by omega
            subst this; simp [beBytesAux]
  | succ fuel ih =>
    unfold beBytesAux
    by_cases h0 : n = 0
    · subst h0; simp
    · simp only [h0, if_false]
      have hd : n / 256 ≤ fuel := by
        have : n / 256 < n := Nat.div_lt_self (by omega) (by decide)
        omega
      rw [ih _ _ hd, ofBe_cons]
      have hb : (UInt8.ofNat (n % 256)).toNat = n % 256 := by simp [UInt8.toNat_ofNat']
      rw [hb, List.length_cons, Nat.pow_succ]
      have := Nat.div_add_mod n 256
      generalize 256 ^ acc.length = X
      calc n / 256 * (X * 256) + (n % 256 * X + ofBe acc)
          = (256 * (n / 256) + n % 256) * X + ofBe acc := by
            rw [Nat.add_mul, Nat.mul_comm X 256, ← Nat.mul_assoc, Nat.mul_comm (n / 256) 256]; omega
        _ = n * X + ofBe acc := by rw [this]

theorem ofBe_beBytes (n : Nat) : ofBe (beBytes n) = n := by
  have := beBytesAux_spec n n [] (Nat.le_refl n)
  simpa [beBytes, ofBe] using this

theorem ofP_ok {α : Type} (v : α) (r : Bytes) : ofP ((v, r, false) : P.R α) = .ok (v, r) := rfl
theorem ofP_eof {α : Type} (p : P.R α) (h : p.2.2 = true) : ofP p = .error .eof := by simp [ofP, h]

theorem Leaf.dec_enc (K : Bytes → Option Bytes) (l : Leaf) (v : l.Val) (r : Bytes) (h : l.WF K v) :
    l.dec K (l.enc v ++ r) = .ok (v, r) := by
  cases l with
  | u8 => simp only [Leaf.dec, Leaf.enc]; rw [show P.nextByte (wU8 v ++ r) = (v, r, false) from P.nextByte_w v r]; rfl
  | u16 => simp only [Leaf.dec, Leaf.enc]; rw [show P.nextU16 (wU16 v ++ r) = (v, r, false) from P.nextU16_w v r]; rfl
  | u32 => simp only [Leaf.dec, Leaf.enc]; rw [show P.nextU32 (wU32 v ++ r) = (v, r, false) from P.nextU32_w v r]; rfl
  | u64 => simp only [Leaf.dec, Leaf.enc]; rw [show P.nextU64 (wU64 v ++ r) = (v, r, false) from P.nextU64_w v r]; rfl
  | i64 => simp only [Leaf.dec, Leaf.enc]; rw [show P.nextI64 (wI64 v ++ r) = (v, r, false) from P.nextI64_w v r]; rfl
  | bool => simp only [Leaf.dec, Leaf.enc]; rw [show P.nextBool (wBool v ++ r) = (v, r, false) from P.nextBool_w v r]; rfl
  | varuint => simp only [Leaf.dec, Leaf.enc]; rw [show P.nextVarUint (wVarUint v ++ r) = (v, r, false) from P.nextVarUint_w v r]; rfl
  | varbytes => simp only [Leaf.dec, Leaf.enc, P.nextVarBytes_w v r h]; rfl
  | fixed n => simp only [Leaf.dec, Leaf.enc, P.nextFixed_w n v r h]; rfl
  | key =>
    simp only [Leaf.dec, Leaf.enc, P.nextVarBytes_w v r h.1]
    rw [show ofP ((v, r, false) : P.R Bytes) = .ok (v, r) from rfl]
    simp only [h.2]
  | bigint =>
    simp only [Leaf.dec, Leaf.enc, P.nextVarBytes_w _ r h]
    rw [show ofP ((beBytes v, r, false) : P.R Bytes) = .ok (beBytes v, r) from rfl]
    exact congrArg (fun x => Except.ok (x, r)) (ofBe_beBytes v)
  | optFixed n => simp only [Leaf.dec, Leaf.enc, P.nextFixed_w n v r h]
  | optString => simp [Leaf.dec, Leaf.enc, P.nextVarBytes_w v r h]
  | optBytes => simp only [Leaf.dec, Leaf.enc, P.nextVarBytes_w v r h]

theorem Leaf.decG_enc (K : Bytes → Option Bytes) (l : Leaf) (g : Guard) (v : l.Val) (r : Bytes) (h : l.WF K v)
    (hg : g.ok (l.measure v) = true) : l.decG K g (l.enc v ++ r) = .ok (v, r) := by
  simp [Leaf.decG, Leaf.dec_enc K l v r h, hg]

theorem decCnt_encCnt (c : Cnt) (n : Nat) (r : Bytes) (h : n < c.max) : decCnt c (encCnt c n ++ r) = .ok (n, r) := by
  cases c <;> simp only [Cnt.max] at h
  · simp [decCnt, encCnt, P.nextByte_w, ofP_ok, Except.map]; omega
  · simp [decCnt, encCnt, P.nextU16_w, ofP_ok, Except.map]; omega
  · simp [decCnt, encCnt, P.nextU32_w, ofP_ok, Except.map]; omega
  · simp [decCnt, encCnt, P.nextU64_w, ofP_ok, Except.map]; omega
  · simp [decCnt, encCnt, P.nextVarUint_w, ofP_ok, Except.map]; omega

theorem decList_flatten {α : Type} (d : Bytes → D α) (e : α → Bytes) (xs : List α) (r : Bytes)
    (h : ∀ x ∈ xs, ∀ r, d (e x ++ r) = .ok (x, r)) :
    decList d xs.length ((xs.map e).flatten ++ r) = .ok (xs, r) := by
  induction xs with
  | nil => simp [decList]
  | cons x xs ih =>
    have hx := h x (List.mem_cons_self) ((xs.map e).flatten ++ r)
    have ih' := ih (fun y hy => h y (List.mem_cons_of_mem _ hy))
    simp only [List.map_cons, List.flatten_cons, List.length_cons, List.append_assoc, decList, hx, ih']


/-! ## lexicographic order on byte strings -/
theorem bytesLt_irrefl (a : Bytes) : bytesLt a a = false := by
  induction a with
  | nil => rfl
  | cons x a ih => simp [bytesLt, ih]

theorem bytesLt_asymm : ∀ (a b : Bytes), bytesLt a b = true → bytesLt b a = false
  | [], [], h => by simp [bytesLt] at h
  | [], _ :: _, _ => by simp [bytesLt]
  | _ :: _, [], h => by simp [bytesLt] at h
  | x :: a, y :: b, h => by
    simp only [bytesLt, Bool.or_eq_true, decide_eq_true_eq, Bool.and_eq_true, beq_iff_eq] at h
    simp only [bytesLt, Bool.or_eq_false_iff, decide_eq_false_iff_not, Bool.and_eq_false_imp, beq_iff_eq]
    rcases h with h | ⟨h1, h2⟩
    · refine ⟨?_, ?_⟩
      · have := UInt8.lt_iff_toNat_lt.mp h; intro c; have := UInt8.lt_iff_toNat_lt.mp c; omega
      · intro c; subst c; have := UInt8.lt_iff_toNat_lt.mp h; omega
    · subst h1
      refine ⟨?_, fun _ => bytesLt_asymm a b h2⟩
      intro c; have := UInt8.lt_iff_toNat_lt.mp c; omega

theorem bytesLt_trans : ∀ (a b c : Bytes), bytesLt a b = true → bytesLt b c = true → bytesLt a c = true
  | [], [], _, h, _ => by simp [bytesLt] at h
  | [], _ :: _, [], _, h => by simp [bytesLt] at h
  | [], _ :: _, _ :: _, _, _ => by simp [bytesLt]
  | _ :: _, [], _, h, _ => by simp [bytesLt] at h
  | _ :: _, _ :: _, [], _, h => by simp [bytesLt] at h
  | x :: a, y :: b, z :: c, h1, h2 => by
    simp only [bytesLt, Bool.or_eq_true, decide_eq_true_eq, Bool.and_eq_true, beq_iff_eq] at h1 h2 ⊢
    rcases h1 with h1 | ⟨e1, h1⟩ <;> rcases h2 with h2 | ⟨e2, h2⟩
    · left; have := UInt8.lt_iff_toNat_lt.mp h1; have := UInt8.lt_iff_toNat_lt.mp h2
      exact UInt8.lt_iff_toNat_lt.mpr (by omega)
    · subst e2; left; exact h1
    · subst e1; left; exact h2
    · subst e1; subst e2; right; exact ⟨rfl, bytesLt_trans a b c h1 h2⟩

theorem bytesLt_tri : ∀ (a b : Bytes), bytesLt a b = false → bytesLt b a = false → a = b
  | [], [], _, _ => rfl
  | [], _ :: _, h, _ => by simp [bytesLt] at h
  | _ :: _, [], _, h => by simp [bytesLt] at h
  | x :: a, y :: b, h1, h2 => by
    simp only [bytesLt, Bool.or_eq_false_iff, decide_eq_false_iff_not, Bool.and_eq_false_imp, beq_iff_eq] at h1 h2
    have hxy : x = y := by
      apply UInt8.toNat_inj.mp
      have := h1.1; have := h2.1
      simp only [UInt8.lt_iff_toNat_lt] at *
      omega
    subst hxy
    rw [bytesLt_tri a b (h1.2 rfl) (h2.2 rfl)]

/-! ## canonical maps -/
theorem dedupLast_of_strictDesc {κ ν : Type} (key : κ → Bytes) (es : List (κ × ν)) (h : strictDesc key es) :
    dedupLast key es = es := by
  induction es with
  | nil => rfl
  | cons e rest ih =>
    simp only [strictDesc, List.pairwise_cons] at h
    have hno : rest.any (fun e' => key e'.1 == key e.1) = false := by
      rw [List.any_eq_false]
      intro e' he'
      have := h.1 e' he'
      intro c
      have c' : key e'.1 = key e.1 := by simpa using c
      rw [c', bytesLt_irrefl] at this
      exact absurd this (by simp)
    simp only [dedupLast, hno, Bool.false_eq_true, if_false, ih h.2]

theorem sortDesc_of_strictDesc {κ ν : Type} (key : κ → Bytes) (es : List (κ × ν)) (h : strictDesc key es) :
    sortDesc key es = es := by
  unfold sortDesc
  apply List.mergeSort_of_pairwise
  unfold strictDesc at h
  refine h.imp ?_
  intro a b hab
  simp [bytesLt_asymm _ _ hab]

theorem canonMap_of_strictDesc {κ ν : Type} (key : κ → Bytes) (es : List (κ × ν)) (h : strictDesc key es) :
    canonMap key es = es := by
  unfold canonMap
  rw [dedupLast_of_strictDesc key es h, sortDesc_of_strictDesc key es h]

/-! ## round trip -/
theorem Ty.dec_enc (K : Bytes → Option Bytes) (t : Ty) (v : t.Val) (r : Bytes) (h : t.WF K v) :
    t.dec K (t.enc v ++ r) = .ok (v, r) := by
  induction t generalizing r with
  | leaf l g => exact Leaf.decG_enc K l g v r h.1 h.2
  | pair a b iha ihb =>
    obtain ⟨x, y⟩ := v
    simp only [Ty.enc, Ty.dec, List.append_assoc, iha x _ h.1, ihb y _ h.2]
  | list o t ih =>
    obtain ⟨h1, h2, h3, h4, h5, h6⟩ := h
    have hl := decList_flatten (t.dec K) t.enc v r (fun x hx r => ih x r (h6 x hx))
    simp only [Ty.enc, Ty.dec, List.append_assoc, decCnt_encCnt _ _ _ h1, h2, h3, Bool.false_eq_true, if_false]
    have hs : (o.signedLoop && decide (List.length v ≥ 2 ^ 63)) = false := by
      cases hsl : o.signedLoop with
      | false => rfl
      | true => have := h4 hsl; simp; omega
    simp only [hs, Bool.false_eq_true, if_false, hl]
    cases hc : o.clamp with
    | none => rfl
    | some k => simp only [List.take_of_length_le (h5 k hc)]
  | map c k kg v' ord ih =>
    obtain ⟨h1, h2, h3⟩ := h
    have hl := decList_flatten (decEntry (k.decG K kg) (v'.dec K))
      (fun (e : k.Val × v'.Val) => k.enc e.1 ++ v'.enc e.2) v r
      (fun e he r => by
        obtain ⟨⟨hk, hg⟩, hv⟩ := h3 e he
        simp only [decEntry, List.append_assoc, Leaf.decG_enc K k kg e.1 _ hk hg, ih e.2 r hv])
    simp only [Ty.enc, Ty.dec, List.append_assoc, decCnt_encCnt _ _ _ h1, hl, canonMap_of_strictDesc _ _ h2]

/-! ## truncation -/


/-- splitting a cut of `a ++ b` -/
theorem take_append_cases (a b : Bytes) (k : Nat) :
    (k < a.length ∧ (a ++ b).take k = a.take k) ∨ (a.length ≤ k ∧ (a ++ b).take k = a ++ b.take (k - a.length)) := by
  by_cases h : k < a.length
  · left; refine ⟨h, ?_⟩
    rw [List.take_append]
    have : k - a.length = 0 := by omega
    simp [this]
  · right; refine ⟨by omega, ?_⟩
    rw [List.take_append, List.take_of_length_le (by omega)]

theorem P.nextI64_trunc (v : Int64) (k : Nat) (hk : k < (wI64 v).length) : (P.nextI64 ((wI64 v).take k)).2.2 = true := by
  simp only [P.nextI64, wI64] at hk ⊢
  exact P.nextU64_trunc v.toUInt64 k hk

theorem Leaf.dec_trunc (K : Bytes → Option Bytes) (l : Leaf) (hs : l.strict = true) (v : l.Val) (h : l.WF K v) (k : Nat)
    (hk : k < (l.enc v).length) : l.dec K ((l.enc v).take k) = .error .eof := by
  cases l with
  | u8 => exact ofP_eof _ (P.nextByte_trunc v k hk)
  | u16 => exact ofP_eof _ (P.nextU16_trunc v k hk)
  | u32 => exact ofP_eof _ (P.nextU32_trunc v k hk)
  | u64 => exact ofP_eof _ (P.nextU64_trunc v k hk)
  | i64 => exact ofP_eof _ (P.nextI64_trunc v k hk)
  | bool => exact ofP_eof _ (P.nextBool_trunc v k hk)
  | varuint => exact ofP_eof _ (P.nextVarUint_trunc v k hk)
  | varbytes => exact ofP_eof _ (P.nextVarBytes_trunc v h k hk)
  | fixed n =>
    have : (P.nextFixed n ((wBytes v).take k)).2.2 = true := by
      have hb := P.nextBytes_trunc n k v h (by have h' : v.length = n := h; simp only [Leaf.enc, wBytes, h'] at hk; exact hk)
      simp only [P.nextFixed, wBytes, hb, if_true]
    exact ofP_eof _ this
  | key =>
    simp only [Leaf.dec, Leaf.enc]
    rw [ofP_eof _ (P.nextVarBytes_trunc v h.1 k hk)]
  | bigint =>
    simp only [Leaf.dec, Leaf.enc]
    rw [ofP_eof _ (P.nextVarBytes_trunc _ h k hk)]
  | optFixed n => simp [Leaf.strict] at hs
  | optString => simp [Leaf.strict] at hs
  | optBytes => simp [Leaf.strict] at hs

theorem Leaf.decG_trunc (K : Bytes → Option Bytes) (l : Leaf) (g : Guard) (hs : l.strict = true) (v : l.Val) (h : l.WF K v)
    (k : Nat) (hk : k < (l.enc v).length) : l.decG K g ((l.enc v).take k) = .error .eof := by
  simp only [Leaf.decG, Leaf.dec_trunc K l hs v h k hk]

theorem decCnt_trunc (c : Cnt) (n k : Nat) (hk : k < (encCnt c n).length) : decCnt c ((encCnt c n).take k) = .error .eof := by
  cases c <;> simp only [decCnt, encCnt] at hk ⊢
  · rw [ofP_eof _ (P.nextByte_trunc _ k hk)]; rfl
  · rw [ofP_eof _ (P.nextU16_trunc _ k hk)]; rfl
  · rw [ofP_eof _ (P.nextU32_trunc _ k hk)]; rfl
  · rw [ofP_eof _ (P.nextU64_trunc _ k hk)]; rfl
  · rw [ofP_eof _ (P.nextVarUint_trunc _ k hk)]; rfl

def IsErr {α : Type} (x : D α) : Prop := ∃ e, x = .error e

theorem decList_trunc {α : Type} (d : Bytes → D α) (e : α → Bytes) (xs : List α)
    (hrt : ∀ x ∈ xs, ∀ r, d (e x ++ r) = .ok (x, r))
    (htr : ∀ x ∈ xs, ∀ k, k < (e x).length → IsErr (d ((e x).take k)))
    (k : Nat) (hk : k < ((xs.map e).flatten).length) :
    IsErr (decList d xs.length (((xs.map e).flatten).take k)) := by
  induction xs generalizing k with
  | nil => simp at hk
  | cons x xs ih =>
    simp only [List.map_cons, List.flatten_cons, List.length_cons] at hk ⊢
    rcases take_append_cases (e x) ((xs.map e).flatten) k with ⟨hlt, heq⟩ | ⟨hge, heq⟩
    · obtain ⟨er, her⟩ := htr x List.mem_cons_self k hlt
      exact ⟨er, by simp only [heq, decList, her]⟩
    · have hk' : k - (e x).length < ((xs.map e).flatten).length := by
        simp only [List.length_append] at hk; omega
      obtain ⟨er, her⟩ := ih (fun y hy => hrt y (List.mem_cons_of_mem _ hy)) (fun y hy => htr y (List.mem_cons_of_mem _ hy)) _ hk'
      exact ⟨er, by simp only [heq, decList, hrt x List.mem_cons_self, her]⟩

theorem Ty.dec_trunc (K : Bytes → Option Bytes) (t : Ty) (hs : t.strict = true) (v : t.Val) (h : t.WF K v) (k : Nat)
    (hk : k < (t.enc v).length) : IsErr (t.dec K ((t.enc v).take k)) := by
  induction t generalizing k with
  | leaf l g => exact ⟨.eof, Leaf.decG_trunc K l g hs v h.1 k hk⟩
  | pair a b iha ihb =>
    obtain ⟨x, y⟩ := v
    simp only [Ty.strict, Bool.and_eq_true] at hs
    simp only [Ty.enc] at hk ⊢
    rcases take_append_cases (a.enc x) (b.enc y) k with ⟨hlt, heq⟩ | ⟨hge, heq⟩
    · obtain ⟨er, her⟩ := iha hs.1 x h.1 k hlt
      exact ⟨er, by simp only [heq, Ty.dec, her]⟩
    · have hk' : k - (a.enc x).length < (b.enc y).length := by
        simp only [List.length_append] at hk; omega
      obtain ⟨er, her⟩ := ihb hs.2 y h.2 _ hk'
      exact ⟨er, by simp only [heq, Ty.dec, Ty.dec_enc K a x _ h.1, her]⟩
  | list o t ih =>
    obtain ⟨h1, h2, h3, h4, h5, h6⟩ := h
    simp only [Ty.strict] at hs
    simp only [Ty.enc] at hk ⊢
    rcases take_append_cases (encCnt o.cnt (List.length v)) ((List.map t.enc v).flatten) k with ⟨hlt, heq⟩ | ⟨hge, heq⟩
    · exact ⟨.eof, by simp only [heq, Ty.dec, decCnt_trunc _ _ _ hlt]⟩
    · have hk' : k - (encCnt o.cnt (List.length v)).length < ((List.map t.enc v).flatten).length := by
        simp only [List.length_append] at hk; omega
      obtain ⟨er, her⟩ := decList_trunc (t.dec K) t.enc v (fun x hx r => Ty.dec_enc K t x r (h6 x hx))
        (fun x hx k hk => ih hs x (h6 x hx) k hk) _ hk'
      have hsl : (o.signedLoop && decide (List.length v ≥ 2 ^ 63)) = false := by
        cases hsl : o.signedLoop with
        | false => rfl
        | true => have := h4 hsl; simp; omega
      exact ⟨er, by simp only [heq, Ty.dec, decCnt_encCnt _ _ _ h1, h2, h3, hsl, Bool.false_eq_true, if_false, her]⟩
  | map c kl kg v' ord ih =>
    obtain ⟨h1, h2, h3⟩ := h
    simp only [Ty.strict, Bool.and_eq_true] at hs
    simp only [Ty.enc] at hk ⊢
    rcases take_append_cases (encCnt c (List.length v)) ((List.map (fun e => kl.enc e.1 ++ v'.enc e.2) v).flatten) k with ⟨hlt, heq⟩ | ⟨hge, heq⟩
    · exact ⟨.eof, by simp only [heq, Ty.dec, decCnt_trunc _ _ _ hlt]⟩
    · have hk' : k - (encCnt c (List.length v)).length < ((List.map (fun e => kl.enc e.1 ++ v'.enc e.2) v).flatten).length := by
        simp only [List.length_append] at hk; omega
      obtain ⟨er, her⟩ := decList_trunc (decEntry (kl.decG K kg) (v'.dec K)) (fun (e : kl.Val × v'.Val) => kl.enc e.1 ++ v'.enc e.2) v
        (fun e he r => by
          obtain ⟨⟨hk, hg⟩, hv⟩ := h3 e he
          simp only [decEntry, List.append_assoc, Leaf.decG_enc K kl kg e.1 _ hk hg, Ty.dec_enc K v' e.2 r hv])
        (fun e he k hk => by
          obtain ⟨⟨hkw, hg⟩, hv⟩ := h3 e he
          rcases take_append_cases (kl.enc e.1) (v'.enc e.2) k with ⟨hlt, heq⟩ | ⟨hge, heq⟩
          · exact ⟨.eof, by simp only [heq, decEntry, Leaf.decG_trunc K kl kg hs.1 e.1 hkw k hlt]⟩
          · have hk'' : k - (kl.enc e.1).length < (v'.enc e.2).length := by
              simp only [List.length_append] at hk; omega
            obtain ⟨er, her⟩ := ih hs.2 e.2 hv _ hk''
            exact ⟨er, by simp only [heq, decEntry, Leaf.decG_enc K kl kg e.1 _ hkw hg, her]⟩) _ hk'
      exact ⟨er, by simp only [heq, Ty.dec, decCnt_encCnt _ _ _ h1, her]⟩


/-! ## no panic, injectivity -/


theorem ofP_ne_panic {α : Type} (p : P.R α) : ofP p ≠ .error .panic := by
  unfold ofP; split <;> simp

theorem Leaf.dec_ne_panic (K : Bytes → Option Bytes) (l : Leaf) (bs : Bytes) : l.dec K bs ≠ .error .panic := by
  cases l <;> simp only [Leaf.dec] <;> try exact ofP_ne_panic _
  · cases h : ofP (P.nextVarBytes bs) with
    | error e => have := ofP_ne_panic (P.nextVarBytes bs); rw [h] at this; simpa using this
    | ok p => obtain ⟨b, r⟩ := p; simp only; cases K b <;> simp
  · cases h : ofP (P.nextVarBytes bs) with
    | error e => have := ofP_ne_panic (P.nextVarBytes bs); rw [h] at this; simpa using this
    | ok p => simp
  all_goals simp

theorem Leaf.decG_ne_panic (K : Bytes → Option Bytes) (l : Leaf) (g : Guard) (bs : Bytes) : l.decG K g bs ≠ .error .panic := by
  unfold Leaf.decG
  cases h : l.dec K bs with
  | error e => have := Leaf.dec_ne_panic K l bs; rw [h] at this; simpa using this
  | ok p => simp only; split <;> simp

theorem decCnt_ne_panic (c : Cnt) (bs : Bytes) : decCnt c bs ≠ .error .panic := by
  cases c <;> simp only [decCnt, ofP] <;> split <;> simp [Except.map]

theorem decCnt_lt (c : Cnt) (bs : Bytes) (n : Nat) (r : Bytes) (h : decCnt c bs = .ok (n, r)) : n < c.max := by
  cases c <;> simp only [decCnt, ofP, Cnt.max] at h ⊢ <;> split at h <;> simp [Except.map] at h
  · rw [← h.1]; exact UInt8.toNat_lt _
  · rw [← h.1]; exact UInt16.toNat_lt _
  · rw [← h.1]; exact UInt32.toNat_lt _
  · rw [← h.1]; exact UInt64.toNat_lt _
  · rw [← h.1]; exact UInt64.toNat_lt _

theorem decList_ne_panic {α : Type} (d : Bytes → D α) (hd : ∀ bs, d bs ≠ .error .panic) (n : Nat) (bs : Bytes) :
    decList d n bs ≠ .error .panic := by
  induction n generalizing bs with
  | zero => simp [decList]
  | succ n ih =>
    unfold decList
    cases h : d bs with
    | error e => have := hd bs; rw [h] at this; simpa using this
    | ok p =>
      obtain ⟨x, r⟩ := p
      simp only
      cases h2 : decList d n r with
      | error e => have := ih r; rw [h2] at this; simpa using this
      | ok q => simp

theorem Alloc.panics_mono (a : Alloc) (n m : Nat) (h : n ≤ m) (hm : a.panics m = false) : a.panics n = false := by
  cases a with
  | append => rfl
  | prealloc sz =>
    simp only [Alloc.panics, Bool.or_eq_false_iff, decide_eq_false_iff_not] at hm ⊢
    have : n * sz ≤ m * sz := Nat.mul_le_mul_right sz h
    omega

theorem Ty.dec_no_panic (K : Bytes → Option Bytes) (t : Ty) (h : t.noUnboundedPrealloc = true) (bs : Bytes) :
    t.dec K bs ≠ .error .panic := by
  induction t generalizing bs with
  | leaf l g => exact Leaf.decG_ne_panic K l g bs
  | pair a b iha ihb =>
    simp only [Ty.noUnboundedPrealloc, Bool.and_eq_true] at h
    unfold Ty.dec
    cases h1 : a.dec K bs with
    | error e => have := iha h.1 bs; rw [h1] at this; simpa using this
    | ok p =>
      obtain ⟨x, r⟩ := p
      simp only
      cases h2 : b.dec K r with
      | error e => have := ihb h.2 r; rw [h2] at this; simpa using this
      | ok q => simp
  | list o t ih =>
    simp only [Ty.noUnboundedPrealloc, Bool.and_eq_true] at h
    unfold Ty.dec
    cases h1 : decCnt o.cnt bs with
    | error e => have := decCnt_ne_panic o.cnt bs; rw [h1] at this; simpa using this
    | ok p =>
      obtain ⟨n, r⟩ := p
      have hn := decCnt_lt _ _ _ _ h1
      simp only
      by_cases hb : overBound o.bound n = true
      · simp [hb]
      · simp only [hb, Bool.false_eq_true, if_false]
        have hnp : o.alloc.panics n = false := by
          cases ha : o.alloc with
          | append => rfl
          | prealloc sz =>
            have h2 := h.2
            simp only [ha] at h2
            cases hbd : o.bound with
            | none =>
              simp only [hbd, Bool.not_eq_true'] at h2
              exact Alloc.panics_mono _ n _ (by omega) h2
            | some b =>
              simp only [hbd, Bool.not_eq_true'] at h2
              have : n ≤ b := by
                simp only [hbd, overBound, decide_eq_true_eq] at hb; omega
              exact Alloc.panics_mono _ n _ (by omega) h2
        simp only [hnp, Bool.false_eq_true, if_false]
        split
        · simp
        · cases h3 : decList (t.dec K) n r with
          | error e => have := decList_ne_panic (t.dec K) (ih h.1) n r; rw [h3] at this; simpa using this
          | ok q => simp
  | map c kl kg v ord ih =>
    simp only [Ty.noUnboundedPrealloc] at h
    unfold Ty.dec
    cases h1 : decCnt c bs with
    | error e => have := decCnt_ne_panic c bs; rw [h1] at this; simpa using this
    | ok p =>
      obtain ⟨n, r⟩ := p
      simp only
      have hd : ∀ bs, decEntry (kl.decG K kg) (v.dec K) bs ≠ .error .panic := by
        intro bs
        unfold decEntry
        cases h2 : kl.decG K kg bs with
        | error e => have := Leaf.decG_ne_panic K kl kg bs; rw [h2] at this; simpa using this
        | ok q =>
          obtain ⟨x, r'⟩ := q
          simp only
          cases h3 : v.dec K r' with
          | error e => have := ih h r'; rw [h3] at this; simpa using this
          | ok q => simp
      cases h3 : decList (decEntry (kl.decG K kg) (v.dec K)) n r with
      | error e => have := decList_ne_panic _ hd n r; rw [h3] at this; simpa using this
      | ok q => simp

/-! ## injectivity, prefix-freeness -/
theorem Ty.enc_prefix_free (K : Bytes → Option Bytes) (t : Ty) (v w : t.Val) (r r' : Bytes) (hv : t.WF K v) (hw : t.WF K w)
    (h : t.enc v ++ r = t.enc w ++ r') : v = w ∧ r = r' := by
  have h1 := Ty.dec_enc K t v r hv
  have h2 := Ty.dec_enc K t w r' hw
  rw [h, h2] at h1
  simpa [eq_comm] using h1

theorem Ty.enc_injective (K : Bytes → Option Bytes) (t : Ty) (v w : t.Val) (hv : t.WF K v) (hw : t.WF K w)
    (h : t.enc v = t.enc w) : v = w :=
  (Ty.enc_prefix_free K t v w [] [] hv hw (by rw [h])).1


/-! ## canonical map order -/


/-- distinct sort keys -/
def nodupKeys {κ ν : Type} (key : κ → Bytes) (es : List (κ × ν)) : Prop :=
  es.Pairwise fun a b => key a.1 ≠ key b.1

theorem dedupLast_of_nodupKeys {κ ν : Type} (key : κ → Bytes) (es : List (κ × ν)) (h : nodupKeys key es) :
    dedupLast key es = es := by
  induction es with
  | nil => rfl
  | cons e rest ih =>
    simp only [nodupKeys, List.pairwise_cons] at h
    have hno : rest.any (fun e' => key e'.1 == key e.1) = false := by
      rw [List.any_eq_false]
      intro e' he' c
      exact h.1 e' he' (by simpa using c : key e'.1 = key e.1).symm
    simp only [dedupLast, hno, Bool.false_eq_true, if_false, ih h.2]

theorem eq_of_key_eq {κ ν : Type} (key : κ → Bytes) (es : List (κ × ν)) (h : nodupKeys key es)
    (a b : κ × ν) (ha : a ∈ es) (hb : b ∈ es) (hk : key a.1 = key b.1) : a = b := by
  induction es with
  | nil => simp at ha
  | cons e rest ih =>
    simp only [nodupKeys, List.pairwise_cons] at h
    simp only [List.mem_cons] at ha hb
    rcases ha with rfl | ha <;> rcases hb with rfl | hb
    · rfl
    · exact absurd hk (h.1 b hb)
    · exact absurd hk.symm (h.1 a ha)
    · exact ih h.2 ha hb

theorem geKey_trans (a b c : Bytes) (h1 : bytesLt a b = false) (h2 : bytesLt b c = false) : bytesLt a c = false := by
  cases h : bytesLt a c with
  | false => rfl
  | true =>
    -- a < c, b ≤ a, c ≤ b
    cases hba : bytesLt b a with
    | true => have := bytesLt_trans b a c hba h; rw [h2] at this; exact absurd this (by simp)
    | false =>
      have : a = b := bytesLt_tri a b h1 hba
      subst this; rw [h2] at h; exact absurd h (by simp)

/-- The canonical entry list of a Go map does not depend on the order in which its entries are enumerated. -/
theorem canonMap_perm {κ ν : Type} (key : κ → Bytes) (es₁ es₂ : List (κ × ν)) (hp : es₁.Perm es₂)
    (hnd : nodupKeys key es₁) : canonMap key es₁ = canonMap key es₂ := by
  have hnd2 : nodupKeys key es₂ := hp.pairwise hnd (fun h => fun c => h c.symm)
  unfold canonMap
  rw [dedupLast_of_nodupKeys key es₁ hnd, dedupLast_of_nodupKeys key es₂ hnd2]
  unfold sortDesc
  have trans : ∀ (a b c : κ × ν), (!(bytesLt (key a.1) (key b.1))) = true → (!(bytesLt (key b.1) (key c.1))) = true →
      (!(bytesLt (key a.1) (key c.1))) = true := by
    intro a b c h1 h2
    simp only [Bool.not_eq_true'] at h1 h2 ⊢
    exact geKey_trans _ _ _ h1 h2
  have total : ∀ (a b : κ × ν), ((!(bytesLt (key a.1) (key b.1))) || (!(bytesLt (key b.1) (key a.1)))) = true := by
    intro a b
    cases h : bytesLt (key a.1) (key b.1) with
    | false => simp
    | true => simp [bytesLt_asymm _ _ h]
  apply List.Perm.eq_of_pairwise (le := fun a b => (!(bytesLt (key a.1) (key b.1))) = true)
  · intro a b ha hb h1 h2
    simp only [Bool.not_eq_true'] at h1 h2
    have ha' : a ∈ es₁ := (List.mergeSort_perm es₁ _).subset ha
    have hb' : b ∈ es₁ := hp.symm.subset ((List.mergeSort_perm es₂ _).subset hb)
    exact eq_of_key_eq key es₁ hnd a b ha' hb' (bytesLt_tri _ _ h1 h2)
  · exact List.pairwise_mergeSort trans total es₁
  · exact List.pairwise_mergeSort trans total es₂
  · exact (List.mergeSort_perm es₁ _).trans (hp.trans (List.mergeSort_perm es₂ _).symm)

theorem dedupLast_subset {κ ν : Type} (key : κ → Bytes) (es : List (κ × ν)) : ∀ e ∈ dedupLast key es, e ∈ es := by
  induction es with
  | nil => simp [dedupLast]
  | cons x rest ih =>
    intro e he
    unfold dedupLast at he
    split at he
    · exact List.mem_cons_of_mem _ (ih e he)
    · simp only [List.mem_cons] at he ⊢
      rcases he with rfl | he
      · left; rfl
      · right; exact ih e he

theorem dedupLast_nodupKeys {κ ν : Type} (key : κ → Bytes) (es : List (κ × ν)) : nodupKeys key (dedupLast key es) := by
  induction es with
  | nil => simp [dedupLast, nodupKeys]
  | cons x rest ih =>
    unfold dedupLast
    split
    · exact ih
    · rename_i hany
      simp only [nodupKeys, List.pairwise_cons]
      refine ⟨?_, ih⟩
      intro e he c
      have hmem := dedupLast_subset key rest e he
      apply hany
      rw [List.any_eq_true]
      exact ⟨e, hmem, by simpa using c.symm⟩

/-- the canonical list is strictly descending by sort key, i.e. a well-formed map value -/
theorem canonMap_strictDesc {κ ν : Type} (key : κ → Bytes) (es : List (κ × ν)) : strictDesc key (canonMap key es) := by
  unfold canonMap sortDesc strictDesc
  have trans : ∀ (a b c : κ × ν), (!(bytesLt (key a.1) (key b.1))) = true → (!(bytesLt (key b.1) (key c.1))) = true →
      (!(bytesLt (key a.1) (key c.1))) = true := by
    intro a b c h1 h2
    simp only [Bool.not_eq_true'] at h1 h2 ⊢
    exact geKey_trans _ _ _ h1 h2
  have total : ∀ (a b : κ × ν), ((!(bytesLt (key a.1) (key b.1))) || (!(bytesLt (key b.1) (key a.1)))) = true := by
    intro a b
    cases h : bytesLt (key a.1) (key b.1) with
    | false => simp
    | true => simp [bytesLt_asymm _ _ h]
  have h1 := List.pairwise_mergeSort trans total (dedupLast key es)
  have h2 : nodupKeys key ((dedupLast key es).mergeSort fun a b => !(bytesLt (key a.1) (key b.1))) :=
    (List.mergeSort_perm _ _).symm.pairwise (dedupLast_nodupKeys key es) (fun h => fun c => h c.symm)
  refine (h1.and h2).imp ?_
  intro a b ⟨hge, hne⟩
  simp only [Bool.not_eq_true'] at hge
  cases hlt : bytesLt (key b.1) (key a.1) with
  | true => rfl
  | false => exact absurd (bytesLt_tri _ _ hge hlt) hne


/-! ## the executable well-formedness test is sound -/
theorem Leaf.wfb_sound (K : Bytes → Option Bytes) (l : Leaf) (v : l.Val) (h : l.wfb K v = true) : l.WF K v := by
  cases l <;> simp only [Leaf.wfb, Leaf.WF, Bool.and_eq_true, decide_eq_true_eq, beq_iff_eq] at h ⊢ <;> first | exact h | trivial | exact ⟨h.1, eq_of_beq h.2⟩

theorem strictDescB_sound {κ ν : Type} (key : κ → Bytes) (es : List (κ × ν)) (h : strictDescB key es = true) :
    strictDesc key es := by
  induction es with
  | nil => exact List.Pairwise.nil
  | cons e rest ih =>
    simp only [strictDescB, Bool.and_eq_true, List.all_eq_true] at h
    exact List.Pairwise.cons (fun e' he' => h.1 e' he') (ih h.2)

theorem Ty.wfb_sound (K : Bytes → Option Bytes) (t : Ty) (v : t.Val) (h : t.wfb K v = true) : t.WF K v := by
  induction t with
  | leaf l g =>
    simp only [Ty.wfb, Bool.and_eq_true] at h
    exact ⟨Leaf.wfb_sound K l v h.1, h.2⟩
  | pair a b iha ihb =>
    obtain ⟨x, y⟩ := v
    simp only [Ty.wfb, Bool.and_eq_true] at h
    exact ⟨iha x h.1, ihb y h.2⟩
  | list o t ih =>
    simp only [Ty.wfb, Bool.and_eq_true, decide_eq_true_eq, Bool.not_eq_true', Bool.or_eq_true] at h
    obtain ⟨⟨⟨⟨⟨h1, h2⟩, h3⟩, h4⟩, h5⟩, h6⟩ := h
    have h6 := List.all_eq_true.mp h6
    refine ⟨h1, h2, h3, ?_, ?_, fun x hx => ih x (h6 x hx)⟩
    · intro hs; rcases h4 with h4 | h4
      · rw [hs] at h4; exact absurd h4 (by simp)
      · exact h4
    · intro k hk; rw [hk] at h5; simpa using h5
  | map c k kg v' ord ih =>
    simp only [Ty.wfb, Bool.and_eq_true, decide_eq_true_eq] at h
    obtain ⟨⟨h1, h2⟩, h3⟩ := h
    have h3 := List.all_eq_true.mp h3
    refine ⟨h1, strictDescB_sound _ _ h2, fun e he => ?_⟩
    have := h3 e he
    simp only [Bool.and_eq_true] at this
    exact ⟨⟨Leaf.wfb_sound K k e.1 this.1.1, this.1.2⟩, ih e.2 this.2⟩


end Poly.Model.Schema
