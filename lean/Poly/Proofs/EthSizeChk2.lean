import Poly.Generated.EthSizeCerts2
/-! Kernel evaluation of the certificate checker on the 64-epoch chunks 8..11 of both ethash size tables (C28).
    Depends only on the generated certificate module (table values + certificates), not on the rule constants. -/
namespace Poly.Proofs.EthSizeChk
open Poly.Model.EthSizeCert Poly.Generated

theorem dataset_8 : checkTable 1073741824 8388608 128 512 EthSizeCerts.datasetVals_8 EthSizeCerts.datasetCerts_8 = true := by
  decide +kernel

theorem cache_8 : checkTable 16777216 131072 64 512 EthSizeCerts.cacheVals_8 EthSizeCerts.cacheCerts_8 = true := by
  decide +kernel

theorem dataset_9 : checkTable 1073741824 8388608 128 576 EthSizeCerts.datasetVals_9 EthSizeCerts.datasetCerts_9 = true := by
  decide +kernel

theorem cache_9 : checkTable 16777216 131072 64 576 EthSizeCerts.cacheVals_9 EthSizeCerts.cacheCerts_9 = true := by
  decide +kernel

theorem dataset_10 : checkTable 1073741824 8388608 128 640 EthSizeCerts.datasetVals_10 EthSizeCerts.datasetCerts_10 = true := by
  decide +kernel

theorem cache_10 : checkTable 16777216 131072 64 640 EthSizeCerts.cacheVals_10 EthSizeCerts.cacheCerts_10 = true := by
  decide +kernel

theorem dataset_11 : checkTable 1073741824 8388608 128 704 EthSizeCerts.datasetVals_11 EthSizeCerts.datasetCerts_11 = true := by
  decide +kernel

theorem cache_11 : checkTable 16777216 131072 64 704 EthSizeCerts.cacheVals_11 EthSizeCerts.cacheCerts_11 = true := by
  decide +kernel

end Poly.Proofs.EthSizeChk
