import Poly.Model.Wallet
/-! Helper lemmas for C43 (wallet). Core only. -/
namespace Poly.Model.Wallet

theorem hget_hset {V : Type} (h : List (Nat × V)) (i : Nat) (v : V) : hget (hset h i v) i = some v := by
  simp [hget, hset]

theorem hget_hset_ne {V : Type} (h : List (Nat × V)) (i j : Nat) (v : V) (hne : j ≠ i) :
    hget (hset h i v) j = hget h j := by
  have h1 : (i == j) = false := by simpa using fun e => hne e.symm
  simp only [hget, hset, List.find?_cons, h1, List.find?_filter]
  congr 2
  funext kv
  by_cases hk : kv.1 = j
  · have : kv.1 ≠ i := fun e => hne (hk ▸ e)
    simp [hk, hne]
  · simp [hk]

theorem mget_mset {V : Type} (m : List (String × V)) (k : String) (v : V) : mget (mset m k v) k = some v := by
  simp [mget, mset]

theorem mget_mset_ne {V : Type} (m : List (String × V)) (k k' : String) (v : V) (hne : k' ≠ k) :
    mget (mset m k v) k' = mget m k' := by
  have h1 : (k == k') = false := by simpa using fun e => hne e.symm
  simp only [mget, mset, mdel, List.find?_cons, h1, List.find?_filter]
  congr 2
  funext kv
  by_cases hk : kv.1 = k'
  · simp [hk, hne]
  · simp [hk]

theorem knownScheme_of_check (alg s : String) (h : checkSigScheme alg s = true) : knownScheme s = true := by
  unfold checkSigScheme at h
  unfold knownScheme
  simp only at h
  split at h
  · simp only [List.contains_iff_mem, List.mem_cons] at h ⊢
    rcases h with h | h | h | h | h | h | h | h | h | h <;> simp_all
  · split at h
    · have : s.toUpper = "SM3WITHSM2" := by simpa using h
      simp [this]
    · split at h
      · have : s.toUpper = "SHA512WITHEDDSA" := by simpa using h
        simp [this]
      · simp at h

section
variable {Key Blob : Type} (cr : Crypto Key Blob)

theorem stored_fields (c : Client Blob) (a : Acc Blob) :
    (stored c a).address = a.address ∧ (stored c a).blob = a.blob ∧ (stored c a).sigScheme = a.sigScheme ∧
    (stored c a).alg = a.alg ∧ (stored c a).label = a.label := by
  unfold stored; split <;> simp

/-- What a successful `addAccountData` leaves behind: the address index and the heap point at the stored object, the
scrypt parameters are unchanged, and the wallet file ends with the stored object. -/
theorem addAccountData_ok (c c' : Client Blob) (a : Acc Blob) (h : c.addAccountData a = .ok c') :
    checkSigScheme a.alg a.sigScheme = true ∧
    mget c'.accAddrs a.address = some c.nextId ∧
    hget c'.heap c.nextId = some (stored c a) ∧
    c'.params = c.params ∧
    ∃ pre, c'.file = some (c.params, pre ++ [stored c a]) := by
  unfold Client.addAccountData at h
  split at h
  · cases h
  · rename_i hchk
    split at h
    · cases h
    · have hchk' : checkSigScheme a.alg a.sigScheme = true := by simpa using hchk
      injection h with h
      subst h
      have hs := stored_fields c a
      refine ⟨hchk', ?_, ?_, rfl, ?_⟩
      · simp only [hs.1, mget_mset]
      · simp only [hget_hset]
      · exact ⟨List.filterMap (hget (hset c.heap c.nextId (stored c a))) c.accounts, by
          simp [List.filterMap_append, hget_hset]⟩

/-- Loading a file whose last entry is `a`: the address index and the heap point at it. -/
theorem loadFrom_last (ps : Params) (pre : List (Acc Blob)) (a : Acc Blob) :
    mget (loadFrom ps (pre ++ [a])).accAddrs a.address = some pre.length ∧
    hget (loadFrom ps (pre ++ [a])).heap pre.length = some a ∧
    (loadFrom ps (pre ++ [a])).params = ps := by
  have hz : (List.range (pre ++ [a]).length).zip (pre ++ [a]) =
      (List.range pre.length).zip pre ++ [(pre.length, a)] := by
    simp only [List.length_append, List.length_cons, List.length_nil, Nat.zero_add, List.range_succ]
    rw [List.zip_append (by simp)]
    simp
  refine ⟨?_, ?_, rfl⟩
  · simp only [loadFrom, hz, List.foldl_append, List.foldl_cons, List.foldl_nil, mget_mset]
  · simp only [loadFrom, hz, hget, List.find?_append]
    have : List.find? (fun kv => kv.1 == pre.length) ((List.range pre.length).zip pre) = none := by
      rw [List.find?_eq_none]
      intro kv hkv
      have := (List.of_mem_zip (a := kv.1) (b := kv.2) (by simpa using hkv)).1
      have : kv.1 < pre.length := List.mem_range.1 this
      simp; omega
    simp [this]

/-- protection is correct for non-empty passwords -/
def Correct : Prop :=
  ∀ k a (pw : Bytes) ps salt, pw ≠ [] → cr.unprotect (cr.protect k a pw ps salt) pw ps = some k

/-- a non-equivalent password never yields a key of the same address -/
def Binds (eqv : Bytes → Bytes → Prop) : Prop :=
  ∀ k a (pw pw' : Bytes) ps salt k', ¬ eqv pw pw' →
    cr.unprotect (cr.protect k a pw ps salt) pw' ps = some k' → cr.addrOf k' ≠ cr.addrOf k

theorem getAccount_params (c d : Client Blob) (hp : c.params = d.params) (a : Acc Blob) (pw : Bytes) :
    c.getAccount cr a pw = d.getAccount cr a pw := by
  simp only [Client.getAccount, hp]

/-- reading an account object whose blob protects `key` under `pw` and the client's parameters -/
theorem getAccount_own (hc : Correct cr) (c : Client Blob) (a : Acc Blob) (pw : Bytes) (key : Key) (salt : Bytes)
    (hpw : pw ≠ []) (haddr : a.address = cr.addrOf key) (hblob : a.blob = cr.protect key a.address pw c.params salt)
    (hk : knownScheme a.sigScheme = true) : c.getAccount cr a pw = .ok (key, a.address) := by
  simp only [Client.getAccount, hblob, hc _ _ _ _ _ hpw, haddr, hk]
  simp

theorem getAccount_other (eqv : Bytes → Bytes → Prop) (hb : Binds cr eqv) (c : Client Blob) (a : Acc Blob)
    (pw pw' : Bytes) (key : Key) (salt : Bytes) (hne : ¬ eqv pw pw')
    (haddr : a.address = cr.addrOf key) (hblob : a.blob = cr.protect key a.address pw c.params salt) :
    ∃ e, c.getAccount cr a pw' = .error e := by
  simp only [Client.getAccount, hblob]
  cases hu : cr.unprotect (cr.protect key a.address pw c.params salt) pw' c.params with
  | none => exact ⟨_, rfl⟩
  | some k' =>
    have := hb key a.address pw pw' c.params salt k' hne hu
    simp only [haddr, ne_eq, this, not_false_eq_true, ↓reduceIte]
    exact ⟨_, rfl⟩

/-- An account object added to the wallet is reachable under its address, before and after re-opening the file
that `addAccountData` wrote. -/
theorem added_lookup (c c' : Client Blob) (a : Acc Blob) (h : c.addAccountData a = .ok c') (pw : Bytes) :
    c'.getByAddress cr a.address pw = (c'.getAccount cr (stored c a) pw).map some ∧
    c'.reopen.getByAddress cr a.address pw = (c'.getAccount cr (stored c a) pw).map some ∧
    c'.params = c.params ∧ checkSigScheme a.alg a.sigScheme = true := by
  obtain ⟨hchk, h1, h2, h3, pre, hf⟩ := addAccountData_ok c c' a h
  have hs := stored_fields c a
  obtain ⟨l1, l2, l3⟩ := loadFrom_last c.params pre (stored c a)
  rw [hs.1] at l1
  refine ⟨?_, ?_, h3, hchk⟩
  · simp only [Client.getByAddress, h1, h2]
  · simp only [Client.reopen, hf, Client.getByAddress, l1, l2]
    rw [getAccount_params cr (loadFrom c.params (pre ++ [stored c a])) c' (by rw [l3, h3])]

end
end Poly.Model.Wallet
