import Poly.Model.PoWBtc
/-!
# Proofs for C27, Bitcoin variant: `header_sync/btc` keeps a consistent store with a heaviest best header

`Inv0 g gh s b`: stored headers are parent-closed with height +1 and summed work; the best record `b` is a stored
header; the height index is a gap-free, parent-linked chain from the trust root (height `gh`) to `b`, names `b` at its
height and has no entry outside `[gh, b.height]`. `commonAncestor_spec` shows that `GetCommonAncestor`, as written,
never fails on a consistent store and returns the new branch down to the child of the fork point; `reorg_inv0` that
`ReIndexHeaderHeight` (deletions above a lower tip, writes at `newHeight − i`) re-establishes the invariant.
-/
set_option linter.unusedSectionVars false
set_option linter.unusedSimpArgs false
set_option linter.unusedVariables false
open Poly.Model.PoWBtc

namespace Poly.Proofs.PoWBtc
variable {H R : Type} [DecidableEq H]

/-- Structural invariant of the Bitcoin light-client store relative to the trust root `g` at height `gh`, with best
header `b`. -/
structure Inv0 (g : Hdr H R) (gh : Nat) (s : Store H R) (b : Stored H R) : Prop where
  isBest : s.best = some b
  bestStored : s.headers b.hdr.hash = some b
  gen : ∃ e, s.headers g.hash = some e ∧ e.height = gh ∧ e.total = 0
  key : ∀ k e, s.headers k = some e → e.hdr.hash = k
  low : ∀ k e, s.headers k = some e → gh ≤ e.height ∧ (e.height = gh → k = g.hash)
  par : ∀ k e, s.headers k = some e → k ≠ g.hash →
    ∃ pe, s.headers e.hdr.prev = some pe ∧ e.height = pe.height + 1 ∧ e.total = pe.total + e.hdr.work
  idx_ok : ∀ n, gh ≤ n → n ≤ b.height → ∃ e, s.index n = some e.hdr.hash ∧ s.headers e.hdr.hash = some e ∧ e.height = n
  idx_g : s.index gh = some g.hash
  idx_top : s.index b.height = some b.hdr.hash
  idx_link : ∀ n k e, gh ≤ n → n + 1 ≤ b.height → s.index (n + 1) = some k → s.headers k = some e →
    s.index n = some e.hdr.prev
  idx_out : ∀ n, (n < gh ∨ b.height < n) → s.index n = none

def Heaviest (s : Store H R) (b : Stored H R) : Prop := ∀ k e, s.headers k = some e → e.total ≤ b.total

theorem init_inv0 (g : Hdr H R) (gh : Nat) : Inv0 g gh (init g gh) ⟨g, gh, 0⟩ := by
  refine ⟨rfl, by simp [init], ⟨⟨g, gh, 0⟩, by simp [init], rfl, rfl⟩, ?_, ?_, ?_, ?_, by simp [init], by simp [init], ?_, ?_⟩
  · intro k e h; simp only [init] at h; split at h
    · rename_i hk; cases h; exact hk.symm
    · cases h
  · intro k e h; simp only [init] at h; split at h
    · rename_i hk; cases h; exact ⟨Nat.le_refl _, fun _ => hk⟩
    · cases h
  · intro k e h hne; simp only [init] at h; split at h
    · rename_i hk; exact absurd hk hne
    · cases h
  · intro n h1 h2
    have : n = gh := by simp only at h2; omega
    subst this
    exact ⟨⟨g, n, 0⟩, by simp [init], by simp [init], rfl⟩
  · intro n k e h1 h2; simp only at h2; omega
  · intro n hn
    have : ¬ n = gh := by simp only at hn; omega
    simp [init, this]

theorem init_heaviest (g : Hdr H R) (gh : Nat) : Heaviest (init g gh) ⟨g, gh, 0⟩ := by
  intro k e h; simp only [init] at h; split at h
  · cases h; exact Nat.le_refl _
  · cases h

theorem ne_of_stored {s : Store H R} {a c : H} {e : Stored H R} (ha : s.headers a = some e) (hb : s.headers c = none) : a ≠ c := by
  intro h; subst h; rw [ha] at hb; cases hb

theorem putHeader_ne (s : Store H R) (e : Stored H R) (x : H) (h : x ≠ e.hdr.hash) : (putHeader s e).headers x = s.headers x := by
  simp [putHeader, h]

theorem putHeader_eq (s : Store H R) (e : Stored H R) : (putHeader s e).headers e.hdr.hash = some e := by
  simp [putHeader]

theorem gen_height {g : Hdr H R} {gh : Nat} {s : Store H R} {b : Stored H R} (inv : Inv0 g gh s b) {e : Stored H R}
    (h : s.headers g.hash = some e) : e.height = gh := by
  obtain ⟨ge, h1, h2, _⟩ := inv.gen
  rw [h] at h1; cases h1; exact h2

/-- Storing a new child of a stored parent keeps the structural invariant (best header and index untouched). -/
theorem putHeader_inv0 {g : Hdr H R} {gh : Nat} {s : Store H R} {b : Stored H R} (inv : Inv0 g gh s b) (h : Hdr H R)
    (p : Stored H R) (hnew : s.headers h.hash = none) (hpar : s.headers h.prev = some p) :
    Inv0 g gh (putHeader s ⟨h, p.height + 1, p.total + h.work⟩) b := by
  let nb : Stored H R := ⟨h, p.height + 1, p.total + h.work⟩
  have old : ∀ k e, s.headers k = some e → (putHeader s nb).headers k = some e := by
    intro k e hk
    rw [putHeader_ne _ _ _ (ne_of_stored hk hnew)]; exact hk
  have cases : ∀ k e, (putHeader s nb).headers k = some e → (k = h.hash ∧ e = nb) ∨ (k ≠ h.hash ∧ s.headers k = some e) := by
    intro k e hk
    by_cases hkk : k = h.hash
    · subst hkk
      have : (putHeader s nb).headers nb.hdr.hash = some nb := putHeader_eq s nb
      rw [this] at hk; exact Or.inl ⟨rfl, (Option.some.inj hk).symm⟩
    · rw [putHeader_ne _ _ _ hkk] at hk; exact Or.inr ⟨hkk, hk⟩
  obtain ⟨ge, hge, hgn, hgt⟩ := inv.gen
  refine ⟨inv.isBest, old _ _ inv.bestStored, ⟨ge, old _ _ hge, hgn, hgt⟩, ?_, ?_, ?_, ?_, inv.idx_g, inv.idx_top, ?_, inv.idx_out⟩
  · intro k e hk
    rcases cases k e hk with ⟨rfl, rfl⟩ | ⟨_, ho⟩
    · rfl
    · exact inv.key k e ho
  · intro k e hk
    rcases cases k e hk with ⟨rfl, rfl⟩ | ⟨_, ho⟩
    · have := (inv.low _ _ hpar).1
      exact ⟨by simp only [nb]; omega, fun hh => by simp only [nb] at hh; omega⟩
    · exact inv.low k e ho
  · intro k e hk hne
    rcases cases k e hk with ⟨rfl, rfl⟩ | ⟨_, ho⟩
    · exact ⟨p, old _ _ hpar, rfl, rfl⟩
    · obtain ⟨pe', h1, h2, h3⟩ := inv.par k e ho hne
      exact ⟨pe', old _ _ h1, h2, h3⟩
  · intro n h1 h2
    obtain ⟨e, a, c, d⟩ := inv.idx_ok n h1 h2
    exact ⟨e, a, old _ _ c, d⟩
  · intro n k e h1 h2 h3 h4
    obtain ⟨e', a, c, d⟩ := inv.idx_ok (n+1) (by omega) h2
    have h3' : s.index (n+1) = some k := h3
    rw [a] at h3'
    have hk : e'.hdr.hash = k := Option.some.inj h3'
    subst hk
    rw [old _ _ c] at h4
    have : e' = e := Option.some.inj h4
    subst this
    exact inv.idx_link n _ _ h1 h2 a c

/-! ## Index operations -/

theorem deleteAbove_spec (nh : Nat) : ∀ (m : Nat) (s : Store H R),
    (deleteAbove s nh m).headers = s.headers ∧ (deleteAbove s nh m).best = s.best ∧
    ∀ n, (deleteAbove s nh m).index n = if nh < n ∧ n ≤ m then none else s.index n := by
  intro m
  induction m with
  | zero =>
    intro s
    refine ⟨rfl, rfl, ?_⟩
    intro n
    have : ¬ (nh < n ∧ n ≤ 0) := by omega
    rw [if_neg this]; rfl
  | succ m ih =>
    intro s
    simp only [deleteAbove]
    by_cases hc : m + 1 > nh
    · rw [if_pos hc]
      obtain ⟨h1, h2, h3⟩ := ih (delIndex s (m + 1))
      refine ⟨by rw [h1]; rfl, by rw [h2]; rfl, ?_⟩
      intro n
      rw [h3]
      by_cases hn : n = m + 1
      · subst hn
        have a : ¬ (nh < m + 1 ∧ m + 1 ≤ m) := by omega
        have b : nh < m + 1 ∧ m + 1 ≤ m + 1 := by omega
        simp [a, b, delIndex]
      · by_cases hr : nh < n ∧ n ≤ m
        · have b : nh < n ∧ n ≤ m + 1 := by omega
          simp [hr, b]
        · have b : ¬ (nh < n ∧ n ≤ m + 1) := by omega
          simp [hr, b, delIndex, hn]
    · rw [if_neg hc]
      refine ⟨rfl, rfl, ?_⟩
      intro n
      have : ¬ (nh < n ∧ n ≤ m + 1) := by omega
      simp [this]

theorem writeBranch_spec (nh : Nat) : ∀ (L : List H) (i : Nat) (s : Store H R), i + L.length ≤ nh + 1 →
    (writeBranch s nh i L).headers = s.headers ∧ (writeBranch s nh i L).best = s.best ∧
    ∀ n, (writeBranch s nh i L).index n =
      if n ≤ nh ∧ i ≤ nh - n ∧ nh - n < i + L.length then L[nh - n - i]? else s.index n := by
  intro L
  induction L with
  | nil =>
    intro i s _
    refine ⟨rfl, rfl, ?_⟩
    intro n
    have : ¬ (n ≤ nh ∧ i ≤ nh - n ∧ nh - n < i + ([] : List H).length) := by simp only [List.length_nil]; omega
    rw [if_neg this]; rfl
  | cons h rest ih =>
    intro i s hlen
    simp only [writeBranch]
    simp only [List.length_cons] at hlen
    obtain ⟨h1, h2, h3⟩ := ih (i + 1) (putIndex s (nh - i) h) (by omega)
    refine ⟨by rw [h1]; rfl, by rw [h2]; rfl, ?_⟩
    intro n
    rw [h3]
    by_cases hA : n ≤ nh ∧ i + 1 ≤ nh - n ∧ nh - n < i + 1 + rest.length
    · have hB : n ≤ nh ∧ i ≤ nh - n ∧ nh - n < i + (h :: rest).length := by simp only [List.length_cons]; omega
      rw [if_pos hA, if_pos hB]
      have : nh - n - i = (nh - n - (i + 1)) + 1 := by omega
      rw [this, List.getElem?_cons_succ]
    · rw [if_neg hA]
      by_cases hn : n = nh - i
      · have hB : n ≤ nh ∧ i ≤ nh - n ∧ nh - n < i + (h :: rest).length := by simp only [List.length_cons]; omega
        rw [if_pos hB]
        have : nh - n - i = 0 := by omega
        rw [this]
        simp [putIndex, hn]
      · have hB : ¬ (n ≤ nh ∧ i ≤ nh - n ∧ nh - n < i + (h :: rest).length) := by simp only [List.length_cons]; omega
        rw [if_neg hB]
        simp [putIndex, hn]

/-! ## The walks of `GetCommonAncestor` -/

/-- `L` lists, top-down from height `nh`, headers stored in `s1`, each the parent of the one before. -/
def Branch (s1 : Store H R) (nh : Nat) (L : List H) : Prop :=
  ∀ i k, L[i]? = some k → ∃ e, s1.headers k = some e ∧ e.height + i = nh ∧ ∀ k', L[i + 1]? = some k' → e.hdr.prev = k'

/-- The majority cursor `x` is the last element of the branch collected so far. -/
structure Maj (s1 : Store H R) (nh : Nat) (top : H) (acc : List H) (x : Stored H R) : Prop where
  len : acc.length + x.height = nh + 1
  first : acc[0]? = some top
  last : acc[nh - x.height]? = some x.hdr.hash
  stored : s1.headers x.hdr.hash = some x
  branch : Branch s1 nh acc

section walks
variable {g : Hdr H R} {gh : Nat} {s : Store H R} {b : Stored H R} (inv : Inv0 g gh s b)
variable (h : Hdr H R) (p : Stored H R) (hnew : s.headers h.hash = none) (hpar : s.headers h.prev = some p)
include inv hnew hpar

/-- One parent step of a cursor stored in `s1 = putHeader s nb`: the lookup the code performs (in `s`) succeeds. -/
theorem step_up (x : Stored H R)
    (hx : (putHeader s ⟨h, p.height + 1, p.total + h.work⟩).headers x.hdr.hash = some x) (hgt : gh < x.height) :
    ∃ pe, s.headers x.hdr.prev = some pe ∧ (putHeader s ⟨h, p.height + 1, p.total + h.work⟩).headers pe.hdr.hash = some pe ∧
      pe.hdr.hash = x.hdr.prev ∧ pe.height + 1 = x.height ∧ s.headers pe.hdr.hash = some pe := by
  have old : ∀ k e, s.headers k = some e → (putHeader s ⟨h, p.height + 1, p.total + h.work⟩).headers k = some e := by
    intro k e hk
    rw [putHeader_ne _ _ _ (ne_of_stored hk hnew)]; exact hk
  by_cases hc : x.hdr.hash = h.hash
  · rw [hc] at hx
    have : (putHeader s ⟨h, p.height + 1, p.total + h.work⟩).headers h.hash = some ⟨h, p.height + 1, p.total + h.work⟩ :=
      putHeader_eq s ⟨h, p.height + 1, p.total + h.work⟩
    rw [this] at hx
    have hx' : x = ⟨h, p.height + 1, p.total + h.work⟩ := (Option.some.inj hx).symm
    subst hx'
    have hk := inv.key _ _ hpar
    exact ⟨p, hpar, by rw [hk]; exact old _ _ hpar, hk, rfl, by rw [hk]; exact hpar⟩
  · rw [putHeader_ne _ _ _ hc] at hx
    have hne : x.hdr.hash ≠ g.hash := by
      intro hh; rw [hh] at hx; have := gen_height inv hx; omega
    obtain ⟨pe, h1, h2, _⟩ := inv.par _ _ hx hne
    have hk := inv.key _ _ h1
    exact ⟨pe, h1, by rw [hk]; exact old _ _ h1, hk, by omega, by rw [hk]; exact h1⟩

theorem maj_append {nh : Nat} {top : H} {acc : List H} {x pe : Stored H R}
    (m : Maj (putHeader s ⟨h, p.height + 1, p.total + h.work⟩) nh top acc x)
    (hst : (putHeader s ⟨h, p.height + 1, p.total + h.work⟩).headers pe.hdr.hash = some pe)
    (hk : pe.hdr.hash = x.hdr.prev) (hh : pe.height + 1 = x.height) :
    Maj (putHeader s ⟨h, p.height + 1, p.total + h.work⟩) nh top (acc ++ [pe.hdr.hash]) pe := by
  have hlen := m.len
  have hidx : nh - x.height = acc.length - 1 := by omega
  have hpos : 0 < acc.length := by
    rcases Nat.eq_zero_or_pos acc.length with h0 | h0
    · have := m.first; rw [List.length_eq_zero_iff.1 h0] at this; simp at this
    · exact h0
  refine ⟨by simp only [List.length_append, List.length_singleton]; omega, ?_, ?_, hst, ?_⟩
  · rw [List.getElem?_append_left hpos]; exact m.first
  · have : nh - pe.height = acc.length := by omega
    rw [this, List.getElem?_append_right (Nat.le_refl _)]; simp
  · intro i k hk'
    by_cases hi : i < acc.length
    · rw [List.getElem?_append_left hi] at hk'
      obtain ⟨e, e1, e2, e3⟩ := m.branch i k hk'
      refine ⟨e, e1, e2, ?_⟩
      intro k' hk''
      by_cases hi' : i + 1 < acc.length
      · rw [List.getElem?_append_left hi'] at hk''
        exact e3 k' hk''
      · have hi2 : i + 1 = acc.length := by omega
        rw [hi2, List.getElem?_append_right (Nat.le_refl _)] at hk''
        simp at hk''
        -- position i is the last element of acc: the cursor x
        have hlast := m.last
        rw [hidx] at hlast
        have : i = acc.length - 1 := by omega
        rw [← this] at hlast
        rw [hlast] at hk'
        have hkx : x.hdr.hash = k := Option.some.inj hk'
        rw [← hkx, m.stored] at e1
        have : x = e := Option.some.inj e1
        subst this
        rw [← hk'', hk]
    · have hi2 : i = acc.length := by
        have : i < (acc ++ [pe.hdr.hash]).length := by
          rcases Nat.lt_or_ge i (acc ++ [pe.hdr.hash]).length with hlt | hge
          · exact hlt
          · rw [List.getElem?_eq_none hge] at hk'; cases hk'
        simp only [List.length_append, List.length_singleton] at this
        omega
      subst hi2
      rw [List.getElem?_append_right (Nat.le_refl _)] at hk'
      simp at hk'
      subst hk'
      refine ⟨pe, hst, by omega, ?_⟩
      intro k' hk''
      have : acc.length + 1 ≥ (acc ++ [pe.hdr.hash]).length := by simp
      rw [List.getElem?_eq_none this] at hk''; cases hk''

theorem walkDownFrom_spec {nh : Nat} {top : H} : ∀ (k : Nat) (x : Stored H R) (acc : List H),
    Maj (putHeader s ⟨h, p.height + 1, p.total + h.work⟩) nh top acc x → gh + k ≤ x.height →
    ∃ x' acc', commonAncestor.walkDownFrom s k x.hdr acc = some (x'.hdr.hash, x'.hdr.prev, acc') ∧
      Maj (putHeader s ⟨h, p.height + 1, p.total + h.work⟩) nh top acc' x' ∧ x'.height + k = x.height := by
  intro k
  induction k with
  | zero => intro x acc m _; exact ⟨x, acc, rfl, m, rfl⟩
  | succ k ih =>
    intro x acc m hk
    obtain ⟨pe, h1, h2, h3, h4, _⟩ := step_up inv h p hnew hpar x m.stored (by omega)
    have m' := maj_append inv h p hnew hpar m h2 h3 h4
    obtain ⟨x', acc', r1, r2, r3⟩ := ih pe _ m' (by omega)
    refine ⟨x', acc', ?_, r2, by omega⟩
    simp only [commonAncestor.walkDownFrom, h1]; exact r1

/-- The minority cursor `y` is the header the (old) height index names at its height. -/
structure OnMain (s : Store H R) (gh : Nat) (b : Stored H R) (y : Stored H R) : Prop where
  stored : s.headers y.hdr.hash = some y
  idx : s.index y.height = some y.hdr.hash
  ge : gh ≤ y.height
  le : y.height ≤ b.height

theorem meet_spec {nh : Nat} {top : H} : ∀ (fuel : Nat) (x y : Stored H R) (acc : List H),
    Maj (putHeader s ⟨h, p.height + 1, p.total + h.work⟩) nh top acc x → OnMain s gh b y → x.height = y.height →
    x.height ≤ fuel + gh →
    ∃ x' acc', meet s fuel x.hdr.hash x.hdr.prev y.hdr.hash y.hdr.prev acc = some acc' ∧
      Maj (putHeader s ⟨h, p.height + 1, p.total + h.work⟩) nh top acc' x' ∧
      s.index x'.height = some x'.hdr.hash ∧ gh ≤ x'.height ∧ x'.height ≤ x.height ∧ s.headers x'.hdr.hash = some x' := by
  have inv1 := putHeader_inv0 inv h p hnew hpar
  intro fuel
  induction fuel with
  | zero =>
    intro x y acc m om heq hf
    have hxg : x.hdr.hash = g.hash := (inv1.low _ _ m.stored).2 (by have := (inv1.low _ _ m.stored).1; omega)
    have hyg : y.hdr.hash = g.hash := (inv.low _ _ om.stored).2 (by have := om.ge; omega)
    have he : x.hdr.hash = y.hdr.hash := by rw [hxg, hyg]
    have hx := m.stored
    rw [he, putHeader_ne _ _ _ (ne_of_stored om.stored hnew), om.stored] at hx
    have hyx : y = x := Option.some.inj hx
    subst hyx
    exact ⟨y, acc, by simp [meet], m, om.idx, om.ge, Nat.le_refl _, om.stored⟩
  | succ fuel ih =>
    intro x y acc m om heq hf
    by_cases he : x.hdr.hash = y.hdr.hash
    · have hx := m.stored
      rw [he, putHeader_ne _ _ _ (ne_of_stored om.stored hnew), om.stored] at hx
      have hyx : y = x := Option.some.inj hx
      subst hyx
      refine ⟨y, acc, by simp [meet], m, om.idx, om.ge, Nat.le_refl _, om.stored⟩
    · have hgt : gh < x.height := by
        rcases Nat.lt_or_ge gh x.height with hlt | hge
        · exact hlt
        · exfalso
          apply he
          have hxg : x.hdr.hash = g.hash := (inv1.low _ _ m.stored).2 (by have := (inv1.low _ _ m.stored).1; omega)
          have hyg : y.hdr.hash = g.hash := (inv.low _ _ om.stored).2 (by have := om.ge; omega)
          rw [hxg, hyg]
      obtain ⟨pe, h1, h2, h3, h4, _⟩ := step_up inv h p hnew hpar x m.stored hgt
      have m' := maj_append inv h p hnew hpar m h2 h3 h4
      -- minority step
      have hyne : y.hdr.hash ≠ g.hash := by
        intro hh; have := om.stored; rw [hh] at this; have := gen_height inv this; omega
      obtain ⟨py, q1, q2, _⟩ := inv.par _ _ om.stored hyne
      have hky := inv.key _ _ q1
      have hidx : s.index py.height = some py.hdr.hash := by
        have hyh : y.height = py.height + 1 := q2
        have := inv.idx_link py.height y.hdr.hash y (by have := (inv.low _ _ q1).1; omega) (by have := om.le; omega)
          (by rw [← hyh]; exact om.idx) om.stored
        rw [this, hky]
      have om' : OnMain s gh b py := ⟨by rw [hky]; exact q1, hidx, (inv.low _ _ q1).1, by have := om.le; omega⟩
      obtain ⟨x', acc', r1, r2, r3, r4, r5, r6⟩ := ih pe py _ m' om' (by omega) (by omega)
      refine ⟨x', acc', ?_, r2, r3, r4, by omega, r6⟩
      simp only [meet, he, if_false, h1, q1]
      exact r1

/-- What `GetCommonAncestor` returns on a consistent store: the new branch top-down from the new header to the child
of a header `x'` of the old best chain (the fork point), all stored once the new header is. -/
theorem commonAncestor_spec :
    ∃ (L : List H) (x' : Stored H R), commonAncestor s h (p.height + 1) b = some L ∧ L.length + x'.height = p.height + 1 ∧
      0 < L.length ∧ L[0]? = some h.hash ∧
      Branch (putHeader s ⟨h, p.height + 1, p.total + h.work⟩) (p.height + 1) L ∧
      (∀ k e, L[L.length - 1]? = some k → (putHeader s ⟨h, p.height + 1, p.total + h.work⟩).headers k = some e →
        e.hdr.prev = x'.hdr.hash) ∧
      s.index x'.height = some x'.hdr.hash ∧ gh ≤ x'.height ∧ x'.height ≤ b.height := by
  have hm0 : Maj (putHeader s ⟨h, p.height + 1, p.total + h.work⟩) (p.height + 1) h.hash [h.hash]
      ⟨h, p.height + 1, p.total + h.work⟩ := by
    refine ⟨by simp only [List.length_singleton]; omega, rfl, by simp, putHeader_eq s _, ?_⟩
    intro i k hk
    cases i with
    | zero =>
      simp at hk; subst hk
      exact ⟨_, putHeader_eq s _, by simp, fun k' hk' => by simp at hk'⟩
    | succ i => simp at hk
  have hpg := (inv.low _ _ hpar).1
  have hbg := (inv.low _ _ inv.bestStored).1
  have omb : OnMain s gh b b := ⟨inv.bestStored, inv.idx_top, hbg, Nat.le_refl _⟩
  -- the three ways the second loop is entered
  obtain ⟨acc', x', hr, hm, hidx, hge, hle, hxs⟩ : ∃ (acc' : List H) (x' : Stored H R),
      commonAncestor s h (p.height + 1) b = some acc'.dropLast ∧
      Maj (putHeader s ⟨h, p.height + 1, p.total + h.work⟩) (p.height + 1) h.hash acc' x' ∧
      s.index x'.height = some x'.hdr.hash ∧ gh ≤ x'.height ∧ x'.height ≤ b.height ∧ s.headers x'.hdr.hash = some x' := by
    unfold commonAncestor
    by_cases c1 : p.height + 1 > b.height
    · obtain ⟨x1, acc1, w1, w2, w3⟩ :=
        walkDownFrom_spec inv h p hnew hpar (p.height + 1 - b.height) ⟨h, p.height + 1, p.total + h.work⟩ [h.hash] hm0
          (by simp only; omega)
      have w3' : x1.height = b.height := by simp only at w3; omega
      obtain ⟨x', acc', r1, r2, r3, r4, r5, r6⟩ := meet_spec inv h p hnew hpar (b.height + 1) x1 b acc1 w2 omb w3' (by omega)
      refine ⟨acc', x', ?_, r2, r3, r4, by omega, r6⟩
      simp only [c1, if_true]
      simp only at w1
      rw [w1]
      simp only [r1, Option.map_some]
    · by_cases c2 : b.height > p.height + 1
      · obtain ⟨e, e1, e2, e3⟩ := inv.idx_ok (p.height + 1) (by omega) (by omega)
        have hbh : headerByHeight s (p.height + 1) = some e := by simp [headerByHeight, e1, e2]
        have ome : OnMain s gh b e := ⟨e2, by rw [e3]; exact e1, by omega, by omega⟩
        obtain ⟨x', acc', r1, r2, r3, r4, r5, r6⟩ :=
          meet_spec inv h p hnew hpar (p.height + 1 + 1) ⟨h, p.height + 1, p.total + h.work⟩ e [h.hash] hm0 ome
            (by simp only; omega) (by simp only; omega)
        refine ⟨acc', x', ?_, r2, r3, r4, by simp only at r5; omega, r6⟩
        simp only [c1, c2, if_false, if_true, hbh]
        simp only at r1
        simp only [r1, Option.map_some]
      · obtain ⟨x', acc', r1, r2, r3, r4, r5, r6⟩ :=
          meet_spec inv h p hnew hpar (p.height + 1 + 1) ⟨h, p.height + 1, p.total + h.work⟩ b [h.hash] hm0 omb
            (by simp only; omega) (by simp only; omega)
        refine ⟨acc', x', ?_, r2, r3, r4, by simp only at r5; omega, r6⟩
        simp only [c1, c2, if_false]
        simp only at r1
        simp only [r1, Option.map_some]
  have hlen := hm.len
  -- the fork point is an old header, hence not the new one
  have hlt : x'.height < p.height + 1 := by
    rcases Nat.lt_or_ge x'.height (p.height + 1) with hlt | hge'
    · exact hlt
    · exfalso
      have h0 : p.height + 1 - x'.height = 0 := by omega
      have hl := hm.last; rw [h0, hm.first] at hl
      have : h.hash = x'.hdr.hash := Option.some.inj hl
      rw [← this, hnew] at hxs; cases hxs
  have hdl : acc'.dropLast.length = acc'.length - 1 := List.length_dropLast
  have hget : ∀ i, i < acc'.length - 1 → acc'.dropLast[i]? = acc'[i]? := by
    intro i hi
    rw [List.getElem?_dropLast]; simp [hi]
  refine ⟨acc'.dropLast, x', hr, by rw [hdl]; omega, by rw [hdl]; omega, ?_, ?_, ?_, hidx, hge, hle⟩
  · rw [hget 0 (by omega)]; exact hm.first
  · intro i k hk
    have hi : i < acc'.length - 1 := by
      rcases Nat.lt_or_ge i (acc'.dropLast).length with hlt' | hge'
      · rw [hdl] at hlt'; exact hlt'
      · rw [List.getElem?_eq_none hge'] at hk; cases hk
    rw [hget i hi] at hk
    obtain ⟨e, e1, e2, e3⟩ := hm.branch i k hk
    refine ⟨e, e1, e2, ?_⟩
    intro k' hk'
    have hi' : i + 1 < acc'.length - 1 := by
      rcases Nat.lt_or_ge (i + 1) (acc'.dropLast).length with hlt' | hge'
      · rw [hdl] at hlt'; exact hlt'
      · rw [List.getElem?_eq_none hge'] at hk'; cases hk'
    rw [hget (i + 1) hi'] at hk'
    exact e3 k' hk'
  · intro k e hk he
    rw [hdl] at hk
    rw [hget _ (by omega)] at hk
    obtain ⟨e', e1, _, e3⟩ := hm.branch _ k hk
    rw [e1] at he
    have : e' = e := Option.some.inj he
    subst this
    have hl := hm.last
    have : p.height + 1 - x'.height = acc'.length - 1 - 1 + 1 := by omega
    rw [this] at hl
    exact e3 _ hl

/-- `ReIndexHeaderHeight` after a reorganisation re-establishes the structural invariant with the new header as best. -/
theorem reorg_inv0 (hdrs : List H) (hca : commonAncestor s h (p.height + 1) b = some hdrs) :
    Inv0 g gh
      (writeBranch (deleteAbove
        (putIndex { putHeader s ⟨h, p.height + 1, p.total + h.work⟩ with best := some ⟨h, p.height + 1, p.total + h.work⟩ }
          (p.height + 1) h.hash) (p.height + 1) b.height) (p.height + 1) 0 hdrs)
      ⟨h, p.height + 1, p.total + h.work⟩ := by
  have inv1 := putHeader_inv0 inv h p hnew hpar
  obtain ⟨L, x', hL, l1, l2, l3, l4, l5, l6, l7, l8⟩ := commonAncestor_spec inv h p hnew hpar
  rw [hL] at hca
  have : L = hdrs := Option.some.inj hca
  subst this
  -- the three layers of writes
  let s2 : Store H R := putIndex { putHeader s ⟨h, p.height + 1, p.total + h.work⟩ with best := some ⟨h, p.height + 1, p.total + h.work⟩ } (p.height + 1) h.hash
  obtain ⟨d1, d2, d3⟩ := deleteAbove_spec (p.height + 1) b.height s2
  obtain ⟨w1, w2, w3⟩ := writeBranch_spec (p.height + 1) L 0 (deleteAbove s2 (p.height + 1) b.height) (by omega)
  have hhdr : (writeBranch (deleteAbove s2 (p.height + 1) b.height) (p.height + 1) 0 L).headers =
      (putHeader s ⟨h, p.height + 1, p.total + h.work⟩).headers := by rw [w1, d1]; rfl
  have hbest : (writeBranch (deleteAbove s2 (p.height + 1) b.height) (p.height + 1) 0 L).best =
      some ⟨h, p.height + 1, p.total + h.work⟩ := by rw [w2, d2]; rfl
  have hs2 : ∀ n, s2.index n = if n = p.height + 1 then some h.hash else s.index n := by
    intro n; simp [s2, putIndex, putHeader]
  -- the final index
  have hidx : ∀ n, (writeBranch (deleteAbove s2 (p.height + 1) b.height) (p.height + 1) 0 L).index n =
      if x'.height < n ∧ n ≤ p.height + 1 then L[p.height + 1 - n]?
      else if p.height + 1 < n then none else s.index n := by
    intro n
    rw [w3, d3, hs2]
    by_cases c1 : x'.height < n ∧ n ≤ p.height + 1
    · have : n ≤ p.height + 1 ∧ 0 ≤ p.height + 1 - n ∧ p.height + 1 - n < 0 + L.length := by omega
      rw [if_pos this, if_pos c1]; simp
    · have : ¬ (n ≤ p.height + 1 ∧ 0 ≤ p.height + 1 - n ∧ p.height + 1 - n < 0 + L.length) := by omega
      rw [if_neg this, if_neg c1]
      by_cases c2 : p.height + 1 < n
      · rw [if_pos c2]
        by_cases c3 : n ≤ b.height
        · rw [if_pos ⟨c2, c3⟩]
        · rw [if_neg (by omega)]
          have : ¬ n = p.height + 1 := by omega
          rw [if_neg this]
          exact inv.idx_out n (Or.inr (by omega))
      · rw [if_neg c2, if_neg (by omega)]
        have : ¬ n = p.height + 1 := by omega
        rw [if_neg this]
  have hin : ∀ n, x'.height < n → n ≤ p.height + 1 →
      ∃ k e, L[p.height + 1 - n]? = some k ∧ (putHeader s ⟨h, p.height + 1, p.total + h.work⟩).headers k = some e ∧
        e.height = n ∧ e.hdr.hash = k ∧ ∀ k', L[p.height + 1 - n + 1]? = some k' → e.hdr.prev = k' := by
    intro n a c
    have hlt : p.height + 1 - n < L.length := by omega
    obtain ⟨k, hk⟩ : ∃ k, L[p.height + 1 - n]? = some k := ⟨_, List.getElem?_eq_getElem hlt⟩
    obtain ⟨e, e1, e2, e3⟩ := l4 _ k hk
    exact ⟨k, e, hk, e1, by omega, inv1.key _ _ e1, e3⟩
  refine ⟨hbest, by rw [hhdr]; exact putHeader_eq s _, ?_, ?_, ?_, ?_, ?_, ?_, ?_, ?_, ?_⟩
  · rw [hhdr]; exact inv1.gen
  · rw [hhdr]; exact inv1.key
  · rw [hhdr]; exact inv1.low
  · rw [hhdr]; exact inv1.par
  · intro n a c
    rw [hidx, hhdr]
    by_cases c1 : x'.height < n ∧ n ≤ p.height + 1
    · rw [if_pos c1]
      obtain ⟨k, e, hk, e1, e2, e3, _⟩ := hin n c1.1 c1.2
      exact ⟨e, by rw [hk, e3], by rw [e3]; exact e1, e2⟩
    · rw [if_neg c1, if_neg (by simp only at c; omega)]
      obtain ⟨e, e1, e2, e3⟩ := inv1.idx_ok n a (by simp only at c; omega)
      exact ⟨e, e1, e2, e3⟩
  · rw [hidx, if_neg (by omega), if_neg (by omega)]; exact inv.idx_g
  · rw [hidx, if_pos (by simp only; omega)]
    simp only [Nat.sub_self]; exact l3
  · intro n k e a c hk he
    simp only at c
    rw [hidx] at hk ⊢
    rw [hhdr] at he
    by_cases c1 : x'.height < n + 1 ∧ n + 1 ≤ p.height + 1
    · rw [if_pos c1] at hk
      obtain ⟨k2, e2, hk2, f1, f2, f3, f4⟩ := hin (n + 1) c1.1 c1.2
      rw [hk2] at hk
      have : k2 = k := Option.some.inj hk
      subst this
      rw [f1] at he
      have : e2 = e := Option.some.inj he
      subst this
      by_cases c2 : x'.height < n
      · rw [if_pos ⟨c2, by omega⟩]
        have hlt : p.height + 1 - n < L.length := by omega
        obtain ⟨k', hk'⟩ : ∃ k', L[p.height + 1 - n]? = some k' := ⟨_, List.getElem?_eq_getElem hlt⟩
        have : p.height + 1 - (n + 1) + 1 = p.height + 1 - n := by omega
        rw [hk', f4 k' (by rw [this]; exact hk')]
      · -- n is the fork height
        have hn : n = x'.height := by omega
        rw [if_neg (by omega), if_neg (by omega), hn, l6]
        have hlast : p.height + 1 - (n + 1) = L.length - 1 := by omega
        rw [hlast] at hk2
        rw [l5 k2 e2 hk2 f1]
    · rw [if_neg c1, if_neg (by omega)] at hk
      rw [if_neg (by omega), if_neg (by omega)]
      have hne : k ≠ h.hash := by
        intro hh
        obtain ⟨e', a1, a2, _⟩ := inv.idx_ok (n + 1) (by omega) (by omega)
        rw [a1] at hk
        have : e'.hdr.hash = k := Option.some.inj hk
        rw [this, hh, hnew] at a2; cases a2
      rw [putHeader_ne _ _ _ hne] at he
      exact inv.idx_link n k e a (by omega) hk he
  · intro n hn
    simp only at hn
    rw [hidx, if_neg (by omega)]
    rcases hn with hn | hn
    · rw [if_neg (by omega)]; exact inv.idx_out n (Or.inl hn)
    · rw [if_pos hn]

end walks

/-- Extending the best chain by a child of the tip. -/
theorem extend_inv0 {g : Hdr H R} {gh : Nat} {s : Store H R} {b : Stored H R} (inv : Inv0 g gh s b) (h : Hdr H R)
    (hnew : s.headers h.hash = none) (hpar : s.headers h.prev = some b) :
    Inv0 g gh (putIndex { putHeader s ⟨h, b.height + 1, b.total + h.work⟩ with best := some ⟨h, b.height + 1, b.total + h.work⟩ }
      (b.height + 1) h.hash) ⟨h, b.height + 1, b.total + h.work⟩ := by
  have inv1 := putHeader_inv0 inv h b hnew hpar
  have hbg := (inv.low _ _ inv.bestStored).1
  have hkb := inv.key _ _ hpar
  have hidx : ∀ n, (putIndex { putHeader s ⟨h, b.height + 1, b.total + h.work⟩ with best := some ⟨h, b.height + 1, b.total + h.work⟩ }
      (b.height + 1) h.hash).index n = if n = b.height + 1 then some h.hash else s.index n := by
    intro n; simp [putIndex, putHeader]
  have hhdr : (putIndex { putHeader s ⟨h, b.height + 1, b.total + h.work⟩ with best := some ⟨h, b.height + 1, b.total + h.work⟩ }
      (b.height + 1) h.hash).headers = (putHeader s ⟨h, b.height + 1, b.total + h.work⟩).headers := rfl
  refine ⟨rfl, by rw [hhdr]; exact putHeader_eq s _, ?_, ?_, ?_, ?_, ?_, ?_, ?_, ?_, ?_⟩
  · rw [hhdr]; exact inv1.gen
  · rw [hhdr]; exact inv1.key
  · rw [hhdr]; exact inv1.low
  · rw [hhdr]; exact inv1.par
  · intro n a c
    simp only at c
    rw [hidx, hhdr]
    by_cases hn : n = b.height + 1
    · rw [if_pos hn]; exact ⟨_, rfl, putHeader_eq s _, hn.symm⟩
    · rw [if_neg hn]; exact inv1.idx_ok n a (by omega)
  · rw [hidx, if_neg (by omega)]; exact inv.idx_g
  · rw [hidx]; simp
  · intro n k e a c hk he
    simp only at c
    rw [hidx] at hk ⊢
    rw [hhdr] at he
    by_cases hn : n + 1 = b.height + 1
    · rw [if_pos hn] at hk
      have : h.hash = k := Option.some.inj hk
      subst this
      have hput : (putHeader s ⟨h, b.height + 1, b.total + h.work⟩).headers h.hash = some ⟨h, b.height + 1, b.total + h.work⟩ :=
        putHeader_eq s ⟨h, b.height + 1, b.total + h.work⟩
      rw [hput] at he
      have : (⟨h, b.height + 1, b.total + h.work⟩ : Stored H R) = e := Option.some.inj he
      subst this
      have hn' : n = b.height := by omega
      rw [if_neg (by omega), hn', inv.idx_top, hkb]
    · rw [if_neg hn] at hk
      rw [if_neg (by omega)]
      exact inv1.idx_link n k e a (by omega) hk he
  · intro n hn
    simp only at hn
    rw [hidx, if_neg (by omega)]
    exact inv.idx_out n (by omega)

/-- The full invariant. -/
def Inv (g : Hdr H R) (gh : Nat) (s : Store H R) : Prop := ∃ b, Inv0 g gh s b ∧ Heaviest s b

theorem heaviest_put {s : Store H R} {b nb : Stored H R} (hv : Heaviest s b) (hle : b.total ≤ nb.total) (s' : Store H R)
    (hh : s'.headers = (putHeader s nb).headers) : Heaviest s' nb := by
  intro k e hk
  rw [hh] at hk
  by_cases hc : k = nb.hdr.hash
  · subst hc
    rw [putHeader_eq] at hk
    rw [← Option.some.inj hk]; exact Nat.le_refl _
  · rw [putHeader_ne _ _ _ hc] at hk
    exact Nat.le_trans (hv k e hk) hle

theorem commitHeader_inv (check : Hdr H R → Stored H R → Check) {g : Hdr H R} {gh : Nat} {s : Store H R}
    (inv : Inv g gh s) (h : Hdr H R) (hnew : s.headers h.hash = none) : Inv g gh (commitHeader check s h).1 := by
  obtain ⟨b, inv0, hv⟩ := inv
  unfold commitHeader
  rw [inv0.isBest]
  simp only []
  -- the parent the code uses is the stored header under `h.prev`
  have hparent : (if h.prev = b.hdr.hash then some b else s.headers h.prev) = s.headers h.prev := by
    by_cases hc : h.prev = b.hdr.hash
    · rw [if_pos hc, hc, inv0.bestStored]
    · rw [if_neg hc]
  rw [hparent]
  cases hp : s.headers h.prev with
  | none => exact ⟨b, inv0, hv⟩
  | some p =>
    simp only []
    cases check h p with
    | err => exact ⟨b, inv0, hv⟩
    | bad => exact ⟨b, inv0, hv⟩
    | ok =>
      simp only []
      by_cases htip : b.hdr.hash = h.hash
      · rw [if_pos htip]; exact ⟨b, inv0, hv⟩
      · rw [if_neg htip]
        by_cases hgt : p.total + h.work > b.total
        · rw [if_pos hgt]
          by_cases hext : p.hdr.hash = b.hdr.hash
          · rw [if_pos hext]
            have hpb : p = b := by
              have hk := inv0.key _ _ hp
              have := inv0.bestStored
              rw [← hext, hk, hp] at this
              exact Option.some.inj this
            subst hpb
            exact ⟨_, extend_inv0 inv0 h hnew hp, heaviest_put hv (by simp only; omega) _ rfl⟩
          · rw [if_neg hext]
            cases hca : commonAncestor s h (p.height + 1) b with
            | none => exact ⟨b, inv0, hv⟩
            | some hdrs =>
              simp only []
              refine ⟨_, reorg_inv0 inv0 h p hnew hp hdrs hca, ?_⟩
              apply heaviest_put hv (by simp only; omega)
              obtain ⟨d1, _, _⟩ := deleteAbove_spec (p.height + 1) b.height
                (putIndex { putHeader s ⟨h, p.height + 1, p.total + h.work⟩ with best := some ⟨h, p.height + 1, p.total + h.work⟩ } (p.height + 1) h.hash)
              obtain ⟨w1, _, _⟩ := writeBranch_spec (p.height + 1) hdrs 0 (deleteAbove
                (putIndex { putHeader s ⟨h, p.height + 1, p.total + h.work⟩ with best := some ⟨h, p.height + 1, p.total + h.work⟩ } (p.height + 1) h.hash) (p.height + 1) b.height) (by
                  obtain ⟨L, x', hL, l1, _⟩ := commonAncestor_spec inv0 h p hnew hp
                  rw [hL] at hca
                  have : L = hdrs := Option.some.inj hca
                  subst this; omega)
              rw [w1, d1]; rfl
        · rw [if_neg hgt]
          refine ⟨b, putHeader_inv0 inv0 h p hnew hp, ?_⟩
          intro k e hk
          by_cases hc : k = h.hash
          · subst hc
            have : (putHeader s ⟨h, p.height + 1, p.total + h.work⟩).headers h.hash = some ⟨h, p.height + 1, p.total + h.work⟩ :=
              putHeader_eq s ⟨h, p.height + 1, p.total + h.work⟩
            rw [this] at hk
            rw [← Option.some.inj hk]; simp only; omega
          · rw [putHeader_ne _ _ _ hc] at hk
            exact hv k e hk

theorem syncHeader_inv (check : Hdr H R → Stored H R → Check) {g : Hdr H R} {gh : Nat} {s : Store H R}
    (inv : Inv g gh s) (h : Hdr H R) : Inv g gh (syncHeader check s h).1 := by
  unfold syncHeader
  cases hk : s.headers h.hash with
  | some _ => exact inv
  | none => exact commitHeader_inv check inv h hk

theorem syncCall_go_inv (check : Hdr H R → Stored H R → Check) (s0 : Store H R) (P : Store H R → Prop)
    (hstep : ∀ s h, P s → P (syncHeader check s h).1) (h0 : P s0) :
    ∀ (hs : List (Hdr H R)) (cur : Store H R) (outs : List Outcome), P cur → P (syncCall.go check s0 cur outs hs).1 := by
  intro hs
  induction hs with
  | nil => intro cur outs hc; exact hc
  | cons h rest ih =>
    intro cur outs hc
    simp only [syncCall.go]
    split
    · exact h0
    · exact ih _ _ (hstep _ _ hc)

theorem run_inv (check : Hdr H R → Stored H R → Check) (g : Hdr H R) (gh : Nat) (calls : List (List (Hdr H R))) :
    Inv g gh (run check g gh calls) := by
  unfold run
  have : ∀ (cs : List (List (Hdr H R))) (s : Store H R), Inv g gh s →
      Inv g gh (cs.foldl (fun s hs => (syncCall check s hs).1) s) := by
    intro cs
    induction cs with
    | nil => intro s hs; exact hs
    | cons c rest ih =>
      intro s hs
      exact ih _ (syncCall_go_inv check s (Inv g gh) (fun _ h i => syncHeader_inv check i h) hs c s [] hs)
  exact this calls _ ⟨_, init_inv0 g gh, init_heaviest g gh⟩

end Poly.Proofs.PoWBtc
