import Poly.Model.Merkle
import Poly.Proofs.MerkleSpec
/-
C08 core: the committed root (`HashFullTreeWithLeafHash`, RFC split) equals the top of the paired levels
(`MerkleHashes`), and every path produced by `MerkleLeafPath` verifies with `MerkleProve` against it.
Also the bit helpers (`highBit`, `splitK`, `countBit`, `depth`).
-/
namespace Poly.Proofs.MerkleServe
open Poly.Spec.RFC6962 Poly.Model.Merkle Poly.Proofs.MerkleSpec

variable (H : List UInt8 → List UInt8)

/-! ### bit helpers -/

theorem highBit_pos (n : Nat) (h : n ≠ 0) : highBit n = 1 + highBit (n / 2) := by
  cases n with
  | zero => exact absurd rfl h
  | succ n => rw [highBit]

theorem highBit_eq_zero (n : Nat) : highBit n = 0 ↔ n = 0 := by
  cases n with
  | zero => simp [highBit]
  | succ n => simp [highBit]

theorem highBit_spec (n : Nat) (h : n ≠ 0) : 2 ^ (highBit n - 1) ≤ n ∧ n < 2 ^ highBit n := by
  induction n using Nat.strongRecOn with
  | _ n ih =>
    rw [highBit_pos n h]
    by_cases h1 : n / 2 = 0
    · have : n = 1 := by omega
      subst this; simp [highBit]
    · obtain ⟨a, b⟩ := ih (n / 2) (by omega) h1
      have hb : highBit (n / 2) ≠ 0 := by rw [Ne, highBit_eq_zero]; exact h1
      have e1 : 1 + highBit (n / 2) - 1 = (highBit (n / 2) - 1) + 1 := by omega
      have e2 : 1 + highBit (n / 2) = highBit (n / 2) + 1 := by omega
      rw [e1, e2, Nat.pow_succ, Nat.pow_succ]
      omega

/-- The Go expression `1 << (highBit(n-1) - 1)` is the RFC 6962 split point. -/
theorem splitK_eq (n : Nat) (h : 2 ≤ n) : splitK n = splitPoint n := by
  have hn : n - 1 ≠ 0 := by omega
  obtain ⟨a, b⟩ := highBit_spec (n - 1) hn
  have hb : highBit (n - 1) ≠ 0 := by rw [Ne, highBit_eq_zero]; exact hn
  unfold splitK
  simp only [hb, ↓reduceIte]
  symm
  apply splitPoint_unique
  · exact ⟨_, rfl⟩
  · omega
  · have : 2 ^ highBit (n - 1) = 2 * 2 ^ (highBit (n - 1) - 1) := by
      have e : highBit (n - 1) = (highBit (n - 1) - 1) + 1 := by omega
      rw [e, Nat.pow_succ]; simp; omega
    omega

theorem countBit_eq (n : Nat) : countBit n = n % 2 + countBit (n / 2) := by
  cases n with
  | zero => simp [countBit]
  | succ n => rw [countBit]

theorem countBit_pow2_add (j : Nat) : ∀ r, r < 2 ^ j → countBit (2 ^ j + r) = 1 + countBit r := by
  induction j with
  | zero => intro r hr; have : r = 0 := by simpa using hr
            subst this; simp [countBit]
  | succ j ih =>
    intro r hr
    rw [Nat.pow_succ] at hr ⊢
    rw [countBit_eq (2 ^ j * 2 + r), countBit_eq r]
    have e1 : (2 ^ j * 2 + r) % 2 = r % 2 := by omega
    have e2 : (2 ^ j * 2 + r) / 2 = 2 ^ j + r / 2 := by omega
    rw [e1, e2, ih (r / 2) (by omega)]
    omega

theorem countBit_pow2 (j : Nat) : countBit (2 ^ j) = 1 := by
  have := countBit_pow2_add j 0 (Nat.two_pow_pos j)
  simpa [countBit] using this

theorem depth_le_one (n : Nat) : depth n = 0 ↔ n ≤ 1 := by
  unfold depth; rw [highBit_eq_zero]; omega

theorem depth_half (n : Nat) (h : 2 ≤ n) : depth n = depth ((n + 1) / 2) + 1 := by
  unfold depth
  rw [highBit_pos (n - 1) (by omega)]
  have : (n + 1) / 2 - 1 = (n - 1) / 2 := by omega
  rw [this]; omega

/-! ### `_hash_full` computes the RFC 6962 root and never panics -/

theorem hashFull_eq (l : List Hash) :
    ∃ hs, hashFull H l = .ok (mth H l, hs) ∧ hs.length = countBit l.length := by
  generalize hn : l.length = n
  induction n using Nat.strongRecOn generalizing l with
  | _ n ih =>
    match l, hn with
    | [], hn => exact ⟨[], by rw [hashFull, mth_nil], by simp at hn; subst hn; simp [countBit]⟩
    | [x], hn => exact ⟨[x], by rw [hashFull, mth_single], by simp at hn; subst hn; simp [countBit]⟩
    | x :: y :: r, hn =>
      have hlen : (x :: y :: r).length = r.length + 2 := by simp
      have h2 : 2 ≤ r.length + 2 := by omega
      obtain ⟨⟨j, hj⟩, hk1, hk2⟩ := splitPoint_spec (r.length + 2) h2
      have hk0 := splitPoint_pos (r.length + 2)
      rw [hashFull, splitK_eq _ h2]
      simp only [hk0, hk1, and_self, ↓reduceDIte]
      obtain ⟨lh, e1, l1⟩ := ih (splitPoint (r.length + 2)) (by omega) ((x :: y :: r).take (splitPoint (r.length + 2)))
        (by simp; omega)
      obtain ⟨rh, e2, l2⟩ := ih (r.length + 2 - splitPoint (r.length + 2)) (by omega)
        ((x :: y :: r).drop (splitPoint (r.length + 2))) (by simp)
      rw [e1]
      have hl1 : lh.length = 1 := by rw [l1, hj, countBit_pow2]
      simp only [hl1, ne_eq, not_true_eq_false, ↓reduceIte]
      rw [e2]
      simp only
      rw [mth_split H (x :: y :: r) (by simp)]
      simp only [List.length_cons]
      refine ⟨_, rfl, ?_⟩
      · rw [← hn, hlen]
        split
        · rename_i h
          have : r.length + 2 = 2 ^ (j + 1) := by rw [Nat.pow_succ]; omega
          rw [this, countBit_pow2]; simp
        · rename_i h
          have hr : r.length + 2 - splitPoint (r.length + 2) < 2 ^ j := by omega
          have := countBit_pow2_add j _ hr
          have e : countBit (r.length + 2) = 1 + countBit (r.length + 2 - splitPoint (r.length + 2)) := by
            rw [← this]; congr 1; omega
          rw [List.length_append, hl1, l2, e]

/-- `HashFullTreeWithLeafHash` returns the RFC 6962 tree hash for every list (no panic). -/
theorem hashFullTree_eq (l : List Hash) : hashFullTree H l = .ok (mth H l) := by
  obtain ⟨hs, e, hl⟩ := hashFull_eq H l
  simp [hashFullTree, e, hl]

/-! ### the paired levels have the same root -/

theorem merkleHashes_length (d : Nat) : ∀ l : List Hash, (merkleHashes H l d).length = d + 1 := by
  induction d with
  | zero => intro l; simp [merkleHashes]
  | succ d ih => intro l; simp [merkleHashes, ih]

theorem merkleHashes_top (d : Nat) : ∀ l : List Hash, l ≠ [] → depth l.length = d →
    (merkleHashes H l d)[0]? = some [mth H l] := by
  induction d with
  | zero =>
    intro l hl hd
    rw [depth_le_one] at hd
    match l, hl, hd with
    | [x], _, _ => simp [merkleHashes, mth_single]
    | _ :: _ :: _, _, hd => simp at hd
  | succ d ih =>
    intro l hl hd
    have h2 : 2 ≤ l.length := by
      by_cases h : l.length ≤ 1
      · rw [← depth_le_one] at h; omega
      · omega
    have hd' : depth (pairUp H l).length = d := by
      rw [pairUp_length]; have := depth_half l.length h2; omega
    have hne : pairUp H l ≠ [] := by
      intro e; have := congrArg List.length e; rw [pairUp_length] at this; simp at this; omega
    have := ih (pairUp H l) hne hd'
    simp only [merkleHashes]
    rw [List.getElem?_append_left (by rw [merkleHashes_length]; omega), this, mth_pairUp]

/-! ### varuint / varbytes round trip -/

theorem leNat_leBytes (k : Nat) : ∀ n, leNat (leBytes k n) = n % 256 ^ k := by
  induction k with
  | zero => intro n; simp [leBytes, leNat, Nat.mod_one]
  | succ k ih =>
    intro n
    simp only [leBytes, leNat, ih]
    have : (n % 256).toUInt8.toNat = n % 256 := by simp
    rw [this, Nat.pow_succ, Nat.mul_comm (256 ^ k) 256, Nat.mod_mul]

theorem leBytes_length (k n : Nat) : (leBytes k n).length = k := by
  induction k generalizing n with
  | zero => simp [leBytes]
  | succ k ih => simp [leBytes, ih]

theorem nextLE_leBytes (k n : Nat) (rest : List UInt8) (h : n < 256 ^ k) :
    nextLE k (leBytes k n ++ rest) = some (n, rest) := by
  unfold nextLE
  have hl := leBytes_length k n
  have : ¬ (leBytes k n ++ rest).length < k := by simp [hl]
  simp only [this, ↓reduceIte]
  rw [List.take_left' hl, List.drop_left' hl, leNat_leBytes, Nat.mod_eq_of_lt h]

theorem nextVarUint_varUint (n : Nat) (rest : List UInt8) (h : n < 2 ^ 64) :
    nextVarUint (varUint n ++ rest) = some (n, rest) := by
  unfold varUint
  split
  · rename_i h1
    simp only [List.cons_append, List.nil_append, nextVarUint]
    have e : n.toUInt8.toNat = n := by simp; omega
    have n1 : n.toUInt8 ≠ 0xFD := by intro e'; have := congrArg UInt8.toNat e'; rw [e] at this; simp at this; omega
    have n2 : n.toUInt8 ≠ 0xFE := by intro e'; have := congrArg UInt8.toNat e'; rw [e] at this; simp at this; omega
    have n3 : n.toUInt8 ≠ 0xFF := by intro e'; have := congrArg UInt8.toNat e'; rw [e] at this; simp at this; omega
    simp [n1, n2, n3, e]
  · split
    · simp only [List.cons_append, nextVarUint, ↓reduceIte]
      exact nextLE_leBytes 2 n rest (by omega)
    · split
      · simp only [List.cons_append, nextVarUint]
        simp only [show ¬ ((0xFE : UInt8) = 0xFD) by decide, ↓reduceIte]
        exact nextLE_leBytes 4 n rest (by omega)
      · simp only [List.cons_append, nextVarUint]
        simp only [show ¬ ((0xFF : UInt8) = 0xFD) by decide, show ¬ ((0xFF : UInt8) = 0xFE) by decide, ↓reduceIte]
        exact nextLE_leBytes 8 n rest (by omega)

theorem nextVarBytes_varBytes (d rest : List UInt8) (h : d.length < 2 ^ 64) :
    nextVarBytes (varBytes d ++ rest) = some (d, rest) := by
  unfold nextVarBytes varBytes
  rw [List.append_assoc, nextVarUint_varUint _ _ h]
  simp

/-! ### pairs encode / decode -/

theorem readPairs_encodePairs (pairs : List (UInt8 × Hash)) (h : ∀ p ∈ pairs, p.2.length = 32) :
    ∀ n, pairs.length ≤ n → readPairs n (encodePairs pairs) = pairs := by
  induction pairs with
  | nil => intro n _; cases n <;> simp [readPairs, encodePairs]
  | cons p pairs ih =>
    intro n hn
    obtain ⟨f, v⟩ := p
    have hv : v.length = 32 := h (f, v) (by simp)
    cases n with
    | zero => simp at hn
    | succ n =>
      simp only [encodePairs, readPairs]
      rw [List.take_left' hv, List.drop_left' hv]
      rw [ih (fun p hp => h p (by simp [hp])) n (by simpa using hn)]

theorem encodePairs_length (pairs : List (UInt8 × Hash)) (h : ∀ p ∈ pairs, p.2.length = 32) :
    (encodePairs pairs).length = 33 * pairs.length := by
  induction pairs with
  | nil => simp [encodePairs]
  | cons p pairs ih =>
    obtain ⟨f, v⟩ := p
    have hv : v.length = 32 := h (f, v) (by simp)
    simp only [encodePairs, List.length_cons, List.length_append, hv]
    rw [ih (fun p hp => h p (by simp [hp]))]; omega

/-! ### `MerkleLeafPath` produces a path that folds to the root -/

theorem getIndex_some (x : Hash) : ∀ (l : List Hash) (i : Nat), getIndex x l = some i → l[i]? = some x := by
  intro l
  induction l with
  | nil => intro i h; simp [getIndex] at h
  | cons a l ih =>
    intro i h
    simp only [getIndex] at h
    split at h
    · rename_i e; simp at h; subst h; simp [e]
    · cases hg : getIndex x l with
      | none => simp [hg] at h
      | some j => simp [hg] at h; subst h; simpa using ih j hg

theorem getIndex_of_mem (x : Hash) : ∀ (l : List Hash), x ∈ l → ∃ i, getIndex x l = some i := by
  intro l
  induction l with
  | nil => intro h; simp at h
  | cons a l ih =>
    intro h
    simp only [getIndex]
    by_cases e : a = x
    · exact ⟨0, by simp [e]⟩
    · have : x ∈ l := by simpa [Ne.symm e] using h
      obtain ⟨i, hi⟩ := ih this
      exact ⟨i + 1, by simp [e, hi]⟩

theorem pairUp_len32 (hlen : HashLen H) (l : List Hash) (h : ∀ x ∈ l, x.length = 32) :
    ∀ x ∈ pairUp H l, x.length = 32 := by
  fun_induction pairUp H l with
  | case1 => simp
  | case2 a => simpa using h
  | case3 a b r ih =>
    intro x hx
    simp only [List.mem_cons] at hx
    rcases hx with rfl | hx
    · exact hlen _
    · exact ih (fun y hy => h y (by simp [hy])) x hx

theorem leafPathLoop_append (A B : List (List Hash)) : ∀ (i idx : Nat), i < A.length →
    leafPathLoop (A ++ B) i idx = leafPathLoop A i idx := by
  intro i
  induction i with
  | zero => intro idx _; simp [leafPathLoop]
  | succ i ih =>
    intro idx hi
    simp only [leafPathLoop]
    rw [List.getElem?_append_left hi]
    cases hA : A[i + 1]? with
    | none => rfl
    | some sub =>
      simp only
      rw [ih (idx / 2) (by omega)]

/-- The loop of `MerkleLeafPath` over the paired levels of `l` emits pairs that fold `l[idx]` to the
RFC 6962 root of `l`. -/
theorem leafPathLoop_ok (hlen : HashLen H) (d : Nat) : ∀ (l : List Hash) (idx : Nat) (x : Hash),
    depth l.length = d → l[idx]? = some x → (∀ y ∈ l, y.length = 32) →
    ∃ pairs, leafPathLoop (merkleHashes H l d) d idx = .ok (encodePairs pairs) ∧
      (∀ p ∈ pairs, p.2.length = 32) ∧ provePath H x pairs = mth H l := by
  induction d with
  | zero =>
    intro l idx x hd hx _
    rw [depth_le_one] at hd
    match l, hd with
    | [], _ => simp at hx
    | [a], _ =>
      have : idx = 0 := by
        cases idx with
        | zero => rfl
        | succ k => simp at hx
      subst this
      simp at hx; subst hx
      exact ⟨[], by simp [leafPathLoop, encodePairs], by simp, by simp [provePath, mth_single]⟩
    | _ :: _ :: _, hd => simp at hd
  | succ d ih =>
    intro l idx x hd hx h32
    have h2 : 2 ≤ l.length := by
      by_cases h : l.length ≤ 1
      · rw [← depth_le_one] at h; omega
      · omega
    have hd' : depth (pairUp H l).length = d := by
      rw [pairUp_length]; have := depth_half l.length h2; omega
    have hidx : idx < l.length := by
      rcases Nat.lt_or_ge idx l.length with h | h
      · exact h
      · rw [List.getElem?_eq_none h] at hx; simp at hx
    have hxe : l[idx] = x := by
      have := List.getElem?_eq_getElem hidx; rw [this] at hx; exact Option.some.inj hx
    have h32' := pairUp_len32 H hlen l h32
    have hlv : (merkleHashes H l (d + 1))[d + 1]? = some l := by
      simp only [merkleHashes]
      rw [List.getElem?_append_right (by rw [merkleHashes_length]; omega), merkleHashes_length]; simp
    have hrec : ∀ j, leafPathLoop (merkleHashes H l (d + 1)) d j = leafPathLoop (merkleHashes H (pairUp H l) d) d j := by
      intro j; simp only [merkleHashes]
      exact leafPathLoop_append _ _ d j (by rw [merkleHashes_length]; omega)
    rw [leafPathLoop, hlv]
    simp only [hrec]
    by_cases hlast : idx = l.length - 1 ∧ l.length % 2 ≠ 0
    · -- promoted node
      simp only [hlast, ne_eq, not_false_eq_true, and_self, ↓reduceIte]
      have hp : (pairUp H l)[idx / 2]? = some x := by
        have := pairUp_getElem_last H l (idx / 2) (by omega)
        rw [this]; congr 1
        have e : 2 * (idx / 2) = idx := by omega
        simp only [e]; exact hxe
      obtain ⟨pairs, h1, h2', h3⟩ := ih (pairUp H l) (idx / 2) x hd' hp h32'
      refine ⟨pairs, ?_, h2', by rw [h3, mth_pairUp]⟩
      have e : l.length - 1 = idx := by omega
      simp only [e] at h1 ⊢
      exact h1
    · simp only [hlast, ↓reduceIte]
      by_cases hodd : idx % 2 ≠ 0
      · -- right child: sibling on the left
        simp only [hodd, ne_eq, not_false_eq_true, ↓reduceIte]
        have hs : l[idx - 1]? = some (l[idx - 1]'(by omega)) := List.getElem?_eq_getElem (by omega)
        rw [hs]
        have hp : (pairUp H l)[idx / 2]? = some (hashChildren H (l[idx - 1]'(by omega)) x) := by
          have := pairUp_getElem_pair H l (idx / 2) (by omega)
          rw [this]; congr 2
          · have e : 2 * (idx / 2) = idx - 1 := by omega
            simp only [e]
          · have e : 2 * (idx / 2) + 1 = idx := by omega
            simp only [e]; exact hxe
        obtain ⟨pairs, h1, h2', h3⟩ := ih (pairUp H l) (idx / 2) _ hd' hp h32'
        refine ⟨(0, l[idx - 1]'(by omega)) :: pairs, ?_, ?_, ?_⟩
        · simp only [h1, encodePairs]
        · intro p hp'
          simp only [List.mem_cons] at hp'
          rcases hp' with rfl | hp'
          · exact h32 _ (List.getElem_mem _)
          · exact h2' p hp'
        · simp only [provePath, ↓reduceIte]; rw [h3, mth_pairUp]
      · -- left child with a sibling on the right
        simp only [hodd, ↓reduceIte]
        have hi1 : idx + 1 < l.length := by omega
        have hs : l[idx + 1]? = some (l[idx + 1]'hi1) := List.getElem?_eq_getElem hi1
        rw [hs]
        have hp : (pairUp H l)[idx / 2]? = some (hashChildren H x (l[idx + 1]'hi1)) := by
          have := pairUp_getElem_pair H l (idx / 2) (by omega)
          rw [this]; congr 2
          · have e : 2 * (idx / 2) = idx := by omega
            simp only [e]; exact hxe
          · have e : 2 * (idx / 2) + 1 = idx + 1 := by omega
            simp only [e]
        obtain ⟨pairs, h1, h2', h3⟩ := ih (pairUp H l) (idx / 2) _ hd' hp h32'
        refine ⟨(1, l[idx + 1]'hi1) :: pairs, ?_, ?_, ?_⟩
        · simp only [h1, encodePairs]
        · intro p hp'
          simp only [List.mem_cons] at hp'
          rcases hp' with rfl | hp'
          · exact h32 _ (List.getElem_mem _)
          · exact h2' p hp'
        · simp only [provePath]
          simp only [show ¬ ((1 : UInt8) = 0) by decide, ↓reduceIte]; rw [h3, mth_pairUp]

/-- Every record whose leaf hash is in the list gets a path, and that path verifies with `MerkleProve`
against the RFC 6962 root of the list, yielding exactly the record. -/
theorem leafPath_verifies (hlen : HashLen H) (d : List UInt8) (hs : List Hash)
    (hmem : hashLeaf H d ∈ hs) (h32 : ∀ y ∈ hs, y.length = 32)
    (hsize : hs.length * 33 + d.length + 8 ≤ MAX_SIZE) :
    ∃ p, merkleLeafPath H d hs = .ok p ∧ merkleProve H p (mth H hs) = .ok d := by
  obtain ⟨idx, hidx⟩ := getIndex_of_mem _ hs hmem
  have hx := getIndex_some _ hs idx hidx
  obtain ⟨pairs, h1, h2, h3⟩ := leafPathLoop_ok H hlen (depth hs.length) hs idx _ rfl hx h32
  refine ⟨varBytes d ++ encodePairs pairs, ?_, ?_⟩
  · unfold merkleLeafPath
    have : ¬ hs.length * 33 + d.length + 8 > MAX_SIZE := by omega
    simp only [this, ↓reduceIte, hidx, h1]
  · unfold merkleProve
    have hd : d.length < 2 ^ 64 := by unfold MAX_SIZE at hsize; omega
    rw [nextVarBytes_varBytes d _ hd]
    simp only
    have hl := encodePairs_length pairs h2
    rw [readPairs_encodePairs pairs h2 _ (by rw [hl]; omega), h3]
    simp

end Poly.Proofs.MerkleServe
