import Poly.Proofs.GovReq
/-! Quorum ledger of `CheckConsensusSigns` (C32). -/
namespace Poly.Model.Gov
open Poly.Generated.Thresholds

theorem thr_iff (num N : Nat) : nodemgr_CheckConsensusSigns0 (num : Int) (N : Int) = true ↔ (2 * N + 2) / 3 ≤ num := by
  unfold nodemgr_CheckConsensusSigns0
  rw [Int.tdiv_eq_ediv_of_nonneg (by omega)]; simp; omega

theorem mem_addOnce (l : List Addr) (a x : Addr) : x ∈ addOnce l a ↔ x ∈ l ∨ x = a := by
  unfold addOnce
  split
  · rename_i h
    constructor
    · intro hx; exact Or.inl hx
    · rintro (hx | rfl)
      · exact hx
      · simpa using h
  · simp

theorem addOnce_of_mem (l : List Addr) (a : Addr) (h : a ∈ l) : addOnce l a = l := by
  unfold addOnce; simp [h]

theorem countIn_congr (cons l1 l2 : List Addr) (h : ∀ x, x ∈ l1 ↔ x ∈ l2) : countIn cons l1 = countIn cons l2 := by
  unfold countIn
  congr 1
  apply List.filter_congr
  intro x _
  simp only [List.contains_eq_mem]
  have := h x
  by_cases h1 : x ∈ l1 <;> simp_all

theorem countIn_eq_approvedBy (cons l : List Addr) : countIn cons l = approvedBy cons l := rfl

theorem countIn_outsider (cons l : List Addr) (a : Addr) (h : a ∉ cons) : countIn cons (addOnce l a) = countIn cons l := by
  unfold countIn
  congr 1
  apply List.filter_congr
  intro x hx
  simp only [List.contains_eq_mem]
  have hne : x ≠ a := fun e => h (e ▸ hx)
  have := mem_addOnce l a x
  by_cases h1 : x ∈ l <;> simp_all

/-- The implementation's ledger fires exactly when the property's count says so, along every approval sequence. -/
theorem ledgerRun_eq_spec (l acc : List Addr) (evs : List (Addr × List Addr)) (h : ∀ x, x ∈ l ↔ x ∈ acc) :
    ledgerRun l evs = quorumSpec acc evs := by
  induction evs generalizing l acc with
  | nil => rfl
  | cons e rest ih =>
    obtain ⟨a, cons⟩ := e
    have hmem : ∀ x, x ∈ addOnce l a ↔ x ∈ acc ++ [a] := by
      intro x; rw [mem_addOnce, List.mem_append, h x]; simp
    have hcount : countIn cons (addOnce l a) = approvedBy cons (acc ++ [a]) := by
      rw [← countIn_eq_approvedBy]; exact countIn_congr _ _ _ hmem
    have hfire : (ccsCore l cons a).2 = decide ((2 * cons.length + 2) / 3 ≤ approvedBy cons (acc ++ [a])) := by
      simp only [ccsCore]
      rw [← hcount]
      by_cases hq : (2 * cons.length + 2) / 3 ≤ countIn cons (addOnce l a)
      · simp [hq, (thr_iff _ _).2 hq]
      · have : ¬ nodemgr_CheckConsensusSigns0 (countIn cons (addOnce l a) : Nat) (cons.length : Nat) = true :=
          fun e => hq ((thr_iff _ _).1 e)
        simp [hq, this]
    simp only [ledgerRun, quorumSpec, hfire]
    congr 1
    by_cases hq : (2 * cons.length + 2) / 3 ≤ approvedBy cons (acc ++ [a])
    · simp only [hq, decide_true, if_true]
      exact ih [] [] (fun x => by simp)
    · simp only [hq, decide_false, if_false, Bool.false_eq_true]
      exact ih _ _ hmem

/-- `CheckConsensusSigns`, one call: it succeeds exactly when the pool of the current view is readable; the quorum is
decided by `ccsCore` on the stored ledger; on quorum the ledger entry is deleted, otherwise it holds the signer set;
no other ledger entry changes. -/
theorem ccs_spec (H : Bytes → Bytes) {s s1 : State} {m : String} {i : Bytes} {a : Addr} {f : Bool} {ev : String}
    (h : checkConsensusSigns H s m i a = .ok (s1, f, ev)) :
    ∃ gv pool cons, curPool s = some (gv, pool) ∧ consAddrs s pool = some cons ∧
      f = (ccsCore (ledgerOf s (ledgerKey H m i)) cons a).2 ∧
      ledgerOf s1 (ledgerKey H m i) = (if f then [] else (ccsCore (ledgerOf s (ledgerKey H m i)) cons a).1) ∧
      ∀ k, k ≠ ledgerKey H m i → ledgerOf s1 k = ledgerOf s k := by
  simp only [checkConsensusSigns] at h
  split at h
  · cases h
  · rename_i gv pool hcp
    split at h
    · cases h
    · rename_i cons hca
      injection h with h; injection h with h1 h2; injection h2 with h2 h3
      subst h1; subst h2
      refine ⟨gv, pool, cons, hcp, hca, rfl, ?_, ?_⟩
      · simp only [ledgerOf]
        by_cases hf : (ccsCore ((alGet s.signs (ledgerKey H m i)).getD []) cons a).2 = true
        · simp only [hf, if_true]; rw [alGet_erase_self]; rfl
        · simp only [hf, Bool.false_eq_true, if_false]; rw [alGet_put_self]; rfl
      · intro k hk
        simp only [ledgerOf]
        by_cases hf : (ccsCore ((alGet s.signs (ledgerKey H m i)).getD []) cons a).2 = true
        · simp only [hf, if_true]; rw [alGet_erase_ne _ _ _ hk]
        · simp only [hf, Bool.false_eq_true, if_false]; rw [alGet_put_ne _ _ _ _ hk]

theorem ledgerOf_signs (s : State) (x) (k : Bytes) : ledgerOf { s with signs := x } k = (alGet x k).getD [] := rfl

/-- Finishing handlers other than the two that clear a ledger do not touch the approval ledgers. -/
theorem done_signs (H : Bytes → Bytes) (s : State) (op : Op) (o : Out) (k : Bytes)
    (h : plan H s op = .ok (.done o)) (hk : ledgerKeyOf H s op ≠ some k) : ledgerOf o.st k = ledgerOf s k := by
  unfold ledgerKeyOf at hk
  rw [h] at hk
  cases op <;> plan_cases h
  all_goals try rfl
  all_goals try (rename_i hcd; rw [commit_frame hcd]; rfl)
  all_goals (simp only [ledgerOf])
  all_goals (simp [*] at hk)
  all_goals (rw [alGet_erase_ne _ _ _ (fun e => hk e.symm)])

/-- Approved actions do not touch the approval ledgers. -/
theorem fire_signs (H : Bytes → Bytes) (s : State) (op : Op) (ap : Approval) (s1 s2 : State) (n : String)
    (h : plan H s op = .ok (.approve ap)) (hf : ap.onFire s1 = .ok (s2, n)) : s2.signs = s1.signs := by
  cases op <;> plan_cases h
  all_goals (dsimp only at hf)
  all_goals try (rw [blackEffect_frame hf]; done)
  all_goals try (obtain ⟨akb, _, he⟩ := candidateEffect_shape hf; rw [he]; done)
  all_goals try (split at hf)
  all_goals try (cases hf; done)
  all_goals (injection hf with hf; injection hf with hf1 hf2; subst hf1; rfl)

/-- Approvals for a different action or a different request, and every other transaction, leave a ledger entry as it
is: only the approvals of that (method, request) and the withdrawal / replacement of that request touch it. -/
theorem ledger_frame (H : Bytes → Bytes) (s : State) (op : Op) (k : Bytes)
    (hk : ledgerKeyOf H s op ≠ some k) : ledgerOf (step H s op) k = ledgerOf s k := by
  rcases step_cases H s op with e | ⟨o, hp, e⟩ | ⟨ap, s1, ev, hp, hc, e⟩ | ⟨ap, s1, ev, s2, n, hp, hc, hf, e⟩
  · rw [e]
  · rw [e]; exact done_signs H s op o k hp hk
  · rw [e]
    obtain ⟨_, _, _, _, _, _, _, hother⟩ := ccs_spec H hc
    apply hother
    intro ek; apply hk; unfold ledgerKeyOf; rw [hp]; simp [ek]
  · rw [e]
    obtain ⟨_, _, _, _, _, _, _, hother⟩ := ccs_spec H hc
    have : ledgerOf s2 k = ledgerOf s1 k := by simp only [ledgerOf, fire_signs H s op ap s1 s2 n hp hf]
    rw [this]
    apply hother
    intro ek; apply hk; unfold ledgerKeyOf; rw [hp]; simp [ek]

/-! ### `method ‖ input` is unambiguous over the registered methods -/

theorem append_inj_of_not_prefix (p1 p2 i1 i2 : Bytes) (h1 : ¬ p1 <+: p2) (h2 : ¬ p2 <+: p1) : p1 ++ i1 ≠ p2 ++ i2 := by
  intro e
  have a : p1 <+: p1 ++ i1 := List.prefix_append _ _
  have b : p2 <+: p1 ++ i1 := by rw [e]; exact List.prefix_append _ _
  rcases List.prefix_or_prefix_of_prefix a b with h | h
  · exact h1 h
  · exact h2 h

def prefixFree : List Bytes → Bool
  | [] => true
  | p :: rest => rest.all (fun q => !(p.isPrefixOf q) && !(q.isPrefixOf p)) && prefixFree rest

theorem prefixFree_sound (l : List Bytes) (h : prefixFree l = true) (p q : Bytes) (hp : p ∈ l) (hq : q ∈ l) (hne : p ≠ q) :
    ¬ p <+: q ∧ ¬ q <+: p := by
  induction l with
  | nil => cases hp
  | cons x rest ih =>
    simp only [prefixFree, Bool.and_eq_true, List.all_eq_true, Bool.not_eq_true'] at h
    have conv : ∀ a b : Bytes, List.isPrefixOf a b = false → ¬ a <+: b := by
      intro a b hf hpre
      rw [List.isPrefixOf_iff_prefix.2 hpre] at hf; cases hf
    rcases List.mem_cons.1 hp with rfl | hp'
    · rcases List.mem_cons.1 hq with rfl | hq'
      · exact absurd rfl hne
      · exact ⟨conv _ _ (h.1 q hq').1, conv _ _ (h.1 q hq').2⟩
    · rcases List.mem_cons.1 hq with rfl | hq'
      · exact ⟨conv _ _ (h.1 p hp').2, conv _ _ (h.1 p hp').1⟩
      · exact ih h.2 hp' hq'

theorem methods_prefixFree : prefixFree (approvalMethods.map strBytes) = true := by decide

/-- little-endian 8-byte ids are unambiguous below 2^64 -/
theorem u64le_inj (a b : Nat) (ha : a < 18446744073709551616) (hb : b < 18446744073709551616) (h : u64le a = u64le b) : a = b := by
  simp only [u64le, List.range, List.range.loop, List.map_cons, List.map_nil, List.cons.injEq, and_true] at h
  obtain ⟨h0, h1, h2, h3, h4, h5, h6, h7⟩ := h
  have c : ∀ x y : Nat, UInt8.ofNat (x % 256) = UInt8.ofNat (y % 256) → x % 256 = y % 256 := by
    intro x y e
    have := congrArg UInt8.toNat e
    simp only [UInt8.toNat_ofNat'] at this
    omega
  have e0 := c _ _ h0; have e1 := c _ _ h1; have e2 := c _ _ h2; have e3 := c _ _ h3
  have e4 := c _ _ h4; have e5 := c _ _ h5; have e6 := c _ _ h6; have e7 := c _ _ h7
  simp only [Nat.shiftRight_eq_div_pow] at e0 e1 e2 e3 e4 e5 e6 e7
  omega

/-- concatenating blocks of one fixed positive length is unambiguous -/
theorem flatten_inj_of_length (n : Nat) (hn : 0 < n) : ∀ (l1 l2 : List Bytes),
    (∀ x ∈ l1, x.length = n) → (∀ x ∈ l2, x.length = n) → l1.flatten = l2.flatten → l1 = l2
  | [], [], _, _, _ => rfl
  | [], y :: t, _, h2, e => by
    have := congrArg List.length e
    simp only [List.flatten_nil, List.length_nil, List.flatten_cons, List.length_append] at this
    have := h2 y List.mem_cons_self
    omega
  | x :: t, [], h1, _, e => by
    have := congrArg List.length e
    simp only [List.flatten_nil, List.length_nil, List.flatten_cons, List.length_append] at this
    have := h1 x List.mem_cons_self
    omega
  | x :: t1, y :: t2, h1, h2, e => by
    simp only [List.flatten_cons] at e
    have hl : x.length = y.length := by rw [h1 x List.mem_cons_self, h2 y List.mem_cons_self]
    obtain ⟨e1, e2⟩ := List.append_inj e hl
    rw [e1, flatten_inj_of_length n hn t1 t2 (fun z hz => h1 z (List.mem_cons_of_mem _ hz))
      (fun z hz => h2 z (List.mem_cons_of_mem _ hz)) e2]

end Poly.Model.Gov

namespace Poly.Model.Gov

/-- One transaction, seen from ledger entry `k`: either it is a committed approval on `k` and the entry moves as
`ccsCore` says, or the entry is unchanged. -/
theorem approvalEvent_step (H : Bytes → Bytes) (k : Bytes) (s : State) (op : Op)
    (hnc : ∀ o, plan H s op = .ok (.done o) → ledgerKeyOf H s op ≠ some k) :
    match approvalEvent H k s op with
    | some ((a, cons), f) =>
        f = (ccsCore (ledgerOf s k) cons a).2 ∧
        ledgerOf (step H s op) k = (if f then [] else (ccsCore (ledgerOf s k) cons a).1)
    | none => ledgerOf (step H s op) k = ledgerOf s k := by
  unfold approvalEvent
  cases hp : plan H s op with
  | error e => simp [step, exec, hp]
  | ok p =>
    cases p with
    | done o =>
      simp only
      exact ledger_frame H s op k (hnc o hp)
    | approve ap =>
      simp only
      by_cases hk : ledgerKey H ap.method ap.input = k
      · simp only [hk, if_true]
        cases hc : checkConsensusSigns H s ap.method ap.input ap.addr with
        | error e => simp [step, exec, hp, runPlan, hc]
        | ok r =>
          obtain ⟨s1, f, ev⟩ := r
          obtain ⟨gv, pool, cons, hcp, hca, hf, hl, _⟩ := ccs_spec H hc
          simp only [hcp, hca]
          cases f with
          | false =>
            simp only [Bool.false_and, Bool.false_eq_true, if_false]
            have hstep : step H s op = s1 := by simp [step, exec, hp, runPlan, hc]
            rw [hstep, ← hk]
            exact ⟨hf, by simpa using hl⟩
          | true =>
            cases hfire : ap.onFire s1 with
            | error e =>
              simp only [Bool.true_and, Except.toBool, Bool.not_false, if_true]
              simp [step, exec, hp, runPlan, hc, hfire]
            | ok r2 =>
              obtain ⟨s2, n⟩ := r2
              simp only [Bool.true_and, Except.toBool, Bool.not_true, Bool.false_eq_true, if_false]
              have hstep : step H s op = s2 := by simp [step, exec, hp, runPlan, hc, hfire]
              have hs2 : ledgerOf s2 k = ledgerOf s1 k := by simp only [ledgerOf, fire_signs H s op ap s1 s2 n hp hfire]
              rw [hstep, hs2, ← hk]
              exact ⟨hf, by simpa using hl⟩
      · simp only [hk, if_false]
        apply ledger_frame
        unfold ledgerKeyOf
        rw [hp]
        intro e; injection e with e; exact hk e

/-- Over every history in which the request is not withdrawn or replaced, the approvals committed on ledger entry `k`
apply the action exactly where the ledger run over (approver, consensus addresses) says. -/
theorem approvalsOn_eq_ledgerRun (H : Bytes → Bytes) (k : Bytes) (s : State) (ops : List Op) (hnc : NoClearOn H k s ops) :
    (approvalsOn H k s ops).map (·.2) = ledgerRun (ledgerOf s k) ((approvalsOn H k s ops).map (·.1)) := by
  induction ops generalizing s with
  | nil => rfl
  | cons op rest ih =>
    have hstep := approvalEvent_step H k s op hnc.1
    simp only [approvalsOn]
    cases he : approvalEvent H k s op with
    | none =>
      rw [he] at hstep
      simp only at hstep ⊢
      rw [← hstep]
      exact ih _ hnc.2
    | some e =>
      obtain ⟨⟨a, cons⟩, f⟩ := e
      rw [he] at hstep
      simp only at hstep ⊢
      obtain ⟨hf, hl⟩ := hstep
      simp only [List.map_cons, ledgerRun]
      rw [← hf]
      congr 1
      have := ih (step H s op) hnc.2
      rw [hl] at this
      exact this

end Poly.Model.Gov
