import Poly.Model.LCNeo
/-! Helper lemmas for the NEO light-client model (C24, C31). Core only. -/
namespace Poly.Proofs.LCNeo
open Poly.Model.LCNeo

/-- position-wise: the i-th key verifies the i-th signature -/
inductive Matched {κ σ : Type} (ver : κ → σ → Bool) : List κ → List σ → Prop where
  | nil : Matched ver [] []
  | cons {k : κ} {s : σ} {ks : List κ} {ss : List σ} : ver k s = true → Matched ver ks ss → Matched ver (k :: ks) (s :: ss)

/-- `keys.VerifyMultiSig` accepts only if the signatures are verified, in order, by a subsequence of the
script's keys (each key position used at most once). -/
theorem orderedMatch_sublist {κ σ : Type} (ver : κ → σ → Bool) :
    ∀ (keys : List κ) (sigs : List σ), orderedMatch ver sigs keys = true →
      ∃ S : List κ, S.Sublist keys ∧ Matched ver S sigs := by
  intro keys
  induction keys with
  | nil =>
    intro sigs h
    cases sigs with
    | nil => exact ⟨[], List.Sublist.refl _, Matched.nil⟩
    | cons s ss => simp [orderedMatch] at h
  | cons k ks ih =>
    intro sigs h
    cases sigs with
    | nil => exact ⟨[], List.nil_sublist _, Matched.nil⟩
    | cons s ss =>
      simp only [orderedMatch] at h
      split at h
      · rename_i hv
        obtain ⟨S, hS, hF⟩ := ih ss h
        exact ⟨k :: S, List.Sublist.cons_cons k hS, Matched.cons hv hF⟩
      · obtain ⟨S, hS, hF⟩ := ih (s :: ss) h
        exact ⟨S, List.Sublist.cons k hS, hF⟩

theorem matched_length {κ σ : Type} {ver : κ → σ → Bool} {l₁ : List κ} {l₂ : List σ}
    (h : Matched ver l₁ l₂) : l₁.length = l₂.length := by
  induction h with
  | nil => rfl
  | cons _ _ ih => simp [ih]

theorem matched_mem_left {κ σ : Type} {ver : κ → σ → Bool} {l₁ : List κ} {l₂ : List σ}
    (h : Matched ver l₁ l₂) : ∀ a ∈ l₁, ∃ b ∈ l₂, ver a b = true := by
  induction h with
  | nil => intro a ha; cases ha
  | cons hr _ ih =>
    intro a ha
    rcases List.mem_cons.mp ha with rfl | ha
    · exact ⟨_, List.mem_cons_self, hr⟩
    · obtain ⟨b, hb, hr'⟩ := ih a ha
      exact ⟨b, List.mem_cons_of_mem _ hb, hr'⟩

/-- Contract of the library's witness check: at least `m` distinct key POSITIONS of the script verified one of
the pushed signatures each. -/
theorem witnessCheck_sound {κ σ : Type} (ver : κ → σ → Bool) (m : Nat) (keys : List κ) (sigs : List σ)
    (h : witnessCheck ver m keys sigs = true) :
    ∃ S : List κ, S.Sublist keys ∧ m ≤ S.length ∧ ∀ k ∈ S, ∃ s ∈ sigs, ver k s = true := by
  simp only [witnessCheck, Bool.and_eq_true, decide_eq_true_eq] at h
  obtain ⟨⟨⟨hm, _⟩, _⟩, hmatch⟩ := h
  obtain ⟨S, hS, hF⟩ := orderedMatch_sublist ver keys sigs hmatch
  refine ⟨S, hS, ?_, matched_mem_left hF⟩
  rw [matched_length hF]; exact hm

/-! ### header sync -/

/-- Loop invariant of `SyncBlockHeader`: the candidate, if any, comes from a header of the batch that passed the
checks against the consensus tracked before the batch. -/
def Authenticated {χ : Type} (t : Tracked χ) (hs : List (Hdr χ)) (t' : Tracked χ) : Prop :=
  ∃ h ∈ hs, t' = ⟨h.index, h.next⟩ ∧ h.next ≠ t.next ∧ h.index > t.height ∧ h.wscript = t.next ∧ h.wok = true

theorem verifyHeader_ok {χ : Type} [BEq χ] [LawfulBEq χ] (t : Tracked χ) (h : Hdr χ)
    (hv : verifyHeader t h = .ok ()) : h.wscript = t.next ∧ h.wok = true := by
  unfold verifyHeader at hv
  split at hv
  · cases hv
  · rename_i h1
    split at hv
    · cases hv
    · rename_i h2
      constructor
      · have : t.next = h.wscript := by simpa using h1
        exact this.symm
      · simpa using h2

theorem syncLoop_ok {χ : Type} [BEq χ] [LawfulBEq χ] (t : Tracked χ) :
    ∀ (hs : List (Hdr χ)) (new res : Option (Tracked χ)), syncLoop t hs new = .ok res →
      (res = new ∨ ∃ t', res = some t' ∧ Authenticated t hs t') ∧
      (∀ h ∈ hs, h.next ≠ t.next → h.index > t.height → h.wscript = t.next ∧ h.wok = true) := by
  intro hs
  induction hs with
  | nil =>
    intro new res h
    simp only [syncLoop] at h
    cases h
    exact ⟨Or.inl rfl, by intro h hh; cases hh⟩
  | cons h hs ih =>
    intro new res hr
    simp only [syncLoop] at hr
    split at hr
    · rename_i hc
      simp only [Bool.and_eq_true, bne_iff_ne, ne_eq, decide_eq_true_eq] at hc
      cases hv : verifyHeader t h with
      | error e => simp [hv] at hr
      | ok u =>
        simp only [hv] at hr
        obtain ⟨h1, h2⟩ := ih _ _ hr
        have hvo := verifyHeader_ok t h (by cases u; exact hv)
        constructor
        · right
          rcases h1 with rfl | ⟨t', rfl, h', hm, rest⟩
          · exact ⟨_, rfl, h, List.mem_cons_self, rfl, hc.1, hc.2, hvo.1, hvo.2⟩
          · exact ⟨t', rfl, h', List.mem_cons_of_mem _ hm, rest⟩
        · intro x hx hn hi
          rcases List.mem_cons.mp hx with rfl | hx
          · exact hvo
          · exact h2 x hx hn hi
    · rename_i hc
      obtain ⟨h1, h2⟩ := ih _ _ hr
      constructor
      · rcases h1 with rfl | ⟨t', rfl, h', hm, rest⟩
        · exact Or.inl rfl
        · exact Or.inr ⟨t', rfl, h', List.mem_cons_of_mem _ hm, rest⟩
      · intro x hx hn hi
        rcases List.mem_cons.mp hx with rfl | hx
        · exfalso
          apply hc
          simp only [Bool.and_eq_true, bne_iff_ne, ne_eq, decide_eq_true_eq]
          exact ⟨hn, hi⟩
        · exact h2 x hx hn hi

end Poly.Proofs.LCNeo
