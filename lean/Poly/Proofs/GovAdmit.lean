import Poly.Proofs.GovQuorum
/-! Relayer registry and sender admission (C36). -/
namespace Poly.Model.Gov

theorem mem_foldl_addOnce (l acc : List Addr) (x : Addr) : x ∈ l.foldl addOnce acc ↔ x ∈ acc ∨ x ∈ l := by
  induction l generalizing acc with
  | nil => simp
  | cons a t ih =>
    simp only [List.foldl_cons]
    rw [ih, mem_addOnce]
    simp only [List.mem_cons]
    constructor
    · rintro ((h | h) | h)
      · exact Or.inl h
      · exact Or.inr (Or.inl h)
      · exact Or.inr (Or.inr h)
    · rintro (h | h | h)
      · exact Or.inl (Or.inl h)
      · exact Or.inl (Or.inr h)
      · exact Or.inr h

theorem admits_iff (s : State) (sg : List Addr) : admits s sg = true ↔ ∃ a ∈ sg, a ∈ s.relayers ∨ a ∈ s.permitted := by
  unfold admits
  simp only [List.any_eq_true, Bool.or_eq_true, List.contains_eq_mem, decide_eq_true_eq]

/-- Handlers that finish by themselves never change the relayer registry. -/
theorem relayers_done (H : Bytes → Bytes) (s : State) (op : Op) (o : Out) (ho : plan H s op = .ok (.done o)) :
    o.st.relayers = s.relayers := by
  cases op <;> plan_cases ho
  all_goals try rfl
  all_goals (rename_i hcd; rw [commit_frame hcd])

/-- An approved action changes the relayer registry only if it is a relayer approval. -/
theorem relayers_fire (H : Bytes → Bytes) (s : State) (op : Op) (ap : Approval) (s1 s2 : State) (n : String)
    (hap : plan H s op = .ok (.approve ap))
    (hop : ∀ sg id a, op ≠ .rlappr sg id a ∧ op ≠ .rlapprrm sg id a)
    (hf : ap.onFire s1 = .ok (s2, n)) : s2.relayers = s1.relayers := by
  cases op <;> plan_cases hap
  all_goals (dsimp only at hf)
  all_goals try (rw [blackEffect_frame hf]; done)
  all_goals try (obtain ⟨akb, _, he⟩ := candidateEffect_shape hf; rw [he]; done)
  all_goals try (split at hf)
  all_goals try (cases hf; done)
  all_goals (injection hf with hf; injection hf with hf1 hf2; subst hf1)
  all_goals try rfl
  all_goals first
    | exact absurd rfl (hop _ _ _).1
    | exact absurd rfl (hop _ _ _).2

theorem relayers_unchanged_unless_applied (H : Bytes → Bytes) (s : State) (op : Op) (h : applied H s op = false) :
    (step H s op).relayers = s.relayers := by
  rcases step_cases H s op with e | ⟨o, hp, e⟩ | ⟨ap, s1, ev, hp, hc, e⟩ | ⟨ap, s1, ev, s2, n, hp, hc, hf, e⟩
  · rw [e]
  · rw [e, relayers_done H s op o hp]
  · rw [e, ccs_frame H hc]
  · have : applied H s op = true := (applied_iff H s op).2 ⟨ap, s1, ev, s2, n, hp, hc, hf⟩
    rw [h] at this; cases this

theorem relayers_frame (H : Bytes → Bytes) (s : State) (op : Op)
    (hop : ∀ sg id a, op ≠ .rlappr sg id a ∧ op ≠ .rlapprrm sg id a) : (step H s op).relayers = s.relayers := by
  rcases step_cases H s op with e | ⟨o, hp, e⟩ | ⟨ap, s1, ev, hp, hc, e⟩ | ⟨ap, s1, ev, s2, n, hp, hc, hf, e⟩
  · rw [e]
  · rw [e, relayers_done H s op o hp]
  · rw [e, ccs_frame H hc]
  · rw [e, relayers_fire H s op ap s1 s2 n hp hop hf, ccs_frame H hc]

/-- The permitted cache only grows, except at a restart; chain transactions do not touch it. -/
theorem permitted_done (H : Bytes → Bytes) (s : State) (op : Op) (o : Out) (ho : plan H s op = .ok (.done o))
    (hr : op ≠ .restart) (x : Addr) (hx : x ∈ s.permitted) : x ∈ o.st.permitted := by
  cases op <;> plan_cases ho
  all_goals try (exact hx)
  all_goals try (rename_i hcd; rw [commit_frame hcd]; exact hx)
  all_goals try (exact absurd rfl hr)
  all_goals try (simp only [mem_addOnce, mem_foldl_addOnce]; simp [hx])

theorem permitted_fire (H : Bytes → Bytes) (s : State) (op : Op) (ap : Approval) (s1 s2 : State) (n : String)
    (hap : plan H s op = .ok (.approve ap)) (hf : ap.onFire s1 = .ok (s2, n)) : s2.permitted = s1.permitted := by
  cases op <;> plan_cases hap
  all_goals (dsimp only at hf)
  all_goals try (rw [blackEffect_frame hf]; done)
  all_goals try (obtain ⟨akb, _, he⟩ := candidateEffect_shape hf; rw [he]; done)
  all_goals try (split at hf)
  all_goals try (cases hf; done)
  all_goals (injection hf with hf; injection hf with hf1 hf2; subst hf1; rfl)

end Poly.Model.Gov
