import Poly.Model.VBFT
/-!
Helper lemmas for C40 (VBFT participant selection). Core only.
-/
namespace Poly.Proofs.VBFT
open Poly.Model.VBFT

theorem calcParticipant_mem (vrf : Seed) (table : List Nat) (k p : Nat)
    (h : calcParticipant vrf table k = some p) : p = maxU32 ∨ p ∈ table := by
  unfold calcParticipant at h
  split at h
  · simp at h; exact Or.inl h.symm
  · simp only at h
    split at h
    · simp at h
    · simp only [Option.some.injEq] at h
      exact Or.inr (h ▸ List.getElem_mem _)

theorem calcParticipant_no_panic (vrf : Seed) (table : List Nat) (k : Nat) (hne : table ≠ []) :
    calcParticipant vrf table k ≠ none := by
  unfold calcParticipant
  split
  · simp
  · simp only
    split
    · rename_i hl; exact absurd (List.length_eq_zero_iff.mp hl) hne
    · simp

/-- One step keeps the invariant: a fresh, non-excluded table member is appended. -/
theorem step_inv (vrf : Seed) (table : List Nat) (end_ : Nat) (excl : List Nat) (i : Nat) (peers : List Nat) (peerId : Nat)
    (hc : calcParticipant vrf table i = some peerId) (hm : ¬(peerId == maxU32) = true)
    (hx : ¬(isEC end_ && excl.contains peerId) = true)
    (hn : peers.Nodup) (ht : ∀ x ∈ peers, x ∈ table) (he : isEC end_ = true → ∀ x ∈ peers, x ∉ excl) :
    let peers' := if (!peers.contains peerId) = true then peers ++ [peerId] else peers
    peers'.Nodup ∧ (∀ x ∈ peers', x ∈ table) ∧ (isEC end_ = true → ∀ x ∈ peers', x ∉ excl) := by
  intro peers'
  by_cases hf : (!peers.contains peerId) = true
  · have hnotin : peerId ∉ peers := by simpa using hf
    have hp : peers' = peers ++ [peerId] := by simp [peers', hnotin]
    rw [hp]
    have hmem : peerId ∈ table := by
      rcases calcParticipant_mem vrf table i peerId hc with h | h
      · simp [h] at hm
      · exact h
    refine ⟨?_, ?_, ?_⟩
    · rw [List.nodup_append]
      refine ⟨hn, by simp, ?_⟩
      intro a ha b hb
      simp only [List.mem_singleton] at hb
      subst hb
      intro e; subst e; exact hnotin ha
    · intro x hx'
      rcases List.mem_append.mp hx' with h | h
      · exact ht x h
      · simp only [List.mem_singleton] at h; subst h; exact hmem
    · intro hec x hx'
      rcases List.mem_append.mp hx' with h | h
      · exact he hec x h
      · simp only [List.mem_singleton] at h; subst h
        simp only [hec, Bool.true_and, List.contains_iff_mem, Bool.not_eq_true, decide_eq_false_iff_not] at hx
        simpa using hx
  · have hin : peerId ∈ peers := by simpa using hf
    have hp : peers' = peers := by simp [peers', hin]
    rw [hp]; exact ⟨hn, ht, he⟩

/-- Invariant of the selection loop. -/
theorem peersLoop_spec (vrf : Seed) (table : List Nat) (N C end_ : Nat) (excl : List Nat) (i : Nat) (peers : List Nat)
    (cnt : Nat) (res : List Nat)
    (hn : peers.Nodup) (ht : ∀ x ∈ peers, x ∈ table) (he : isEC end_ = true → ∀ x ∈ peers, x ∉ excl)
    (h : peersLoop vrf table N C end_ excl i peers cnt = some res) :
    res.Nodup ∧ (∀ x ∈ res, x ∈ table) ∧ (isEC end_ = true → ∀ x ∈ res, x ∉ excl) := by
  fun_induction peersLoop vrf table N C end_ excl i peers cnt generalizing res
  case case1 => simp at h; subst h; simp
  case case2 => simp at h
  case case3 => simp at h; subst h; simp
  case case4 ih => exact ih res hn ht he h
  case case5 i peers cnt _ peerId hc hm hx fresh peers' cnt' _ =>
    simp only [Option.some.injEq] at h; subst h
    exact step_inv vrf table end_ excl i peers peerId hc hm hx hn ht he
  case case6 i peers cnt _ peerId hc hm hx fresh peers' cnt' _ _ =>
    simp only [Option.some.injEq] at h; subst h
    exact step_inv vrf table end_ excl i peers peerId hc hm hx hn ht he
  case case7 i peers cnt _ peerId hc hm hx fresh peers' cnt' _ _ _ =>
    simp only [Option.some.injEq] at h; subst h
    exact step_inv vrf table end_ excl i peers peerId hc hm hx hn ht he
  case case8 i peers cnt _ peerId hc hm hx fresh peers' cnt' _ _ _ ih =>
    obtain ⟨a, b, c⟩ := step_inv vrf table end_ excl i peers peerId hc hm hx hn ht he
    exact ih res a b c h

theorem buildExcl_sup (C : Nat) (ps acc : List Nat) :
    (∀ x ∈ acc, x ∈ buildExcl C ps acc) ∧ (∀ x ∈ ps.take (C - acc.length), x ∈ buildExcl C ps acc) := by
  induction ps generalizing acc with
  | nil => simp [buildExcl]
  | cons p ps ih =>
    have hsub : ∀ x ∈ acc, x ∈ (if acc.contains p = true then acc else acc ++ [p]) := by
      intro x hx; split <;> simp [hx]
    have hp : p ∈ (if acc.contains p = true then acc else acc ++ [p]) := by
      split
      · rename_i h; simpa using h
      · simp
    have hlen : (if acc.contains p = true then acc else acc ++ [p]).length ≤ acc.length + 1 := by
      split <;> simp
    have key : buildExcl C (p :: ps) acc =
        if (if acc.contains p = true then acc else acc ++ [p]).length ≥ C then (if acc.contains p = true then acc else acc ++ [p])
        else buildExcl C ps (if acc.contains p = true then acc else acc ++ [p]) := by
      rw [buildExcl]
    rw [key]
    generalize (if acc.contains p = true then acc else acc ++ [p]) = acc' at *
    by_cases hge : acc'.length ≥ C
    · rw [if_pos hge]
      refine ⟨hsub, ?_⟩
      intro x hx
      by_cases hz : C - acc.length = 0
      · simp [hz] at hx
      · have : C - acc.length = 1 := by omega
        rw [this] at hx
        simp at hx; subst hx; exact hp
    · rw [if_neg hge]
      obtain ⟨i1, i2⟩ := ih acc'
      refine ⟨fun x hx => i1 x (hsub x hx), ?_⟩
      intro x hx
      by_cases hz : C - acc.length = 0
      · simp [hz] at hx
      · obtain ⟨k, hk⟩ : ∃ k, C - acc.length = k + 1 := ⟨C - acc.length - 1, by omega⟩
        rw [hk, List.take_succ_cons] at hx
        rcases List.mem_cons.mp hx with rfl | hx
        · exact i1 _ hp
        · apply i2
          have hle : k ≤ C - acc'.length := by omega
          exact (List.take_subset_take_left ps hle) hx

theorem take_subset_buildExcl (C : Nat) (ps : List Nat) : ∀ x ∈ ps.take C, x ∈ buildExcl C ps [] := by
  have := (buildExcl_sup C ps []).2
  simpa using this

/-- What calcParticipantPeers returns (any call mode). -/
theorem calcParticipantPeers_spec (vrf : Seed) (table : List Nat) (N C : Nat) (proposers : List Nat) (start end_ : Nat)
    (res : List Nat) (h : calcParticipantPeers vrf table N C proposers start end_ = some res) :
    res.Nodup ∧ (∀ x ∈ res, x ∈ table) ∧
      (isEC end_ = true → ∀ x ∈ res, x ∉ proposers.take C) := by
  unfold calcParticipantPeers at h
  simp only at h
  obtain ⟨h1, h2, h3⟩ := peersLoop_spec vrf table N C end_ _ start [] 0 res (by simp) (by simp) (by simp) h
  refine ⟨h1, h2, ?_⟩
  intro hec x hx hxp
  have hne : proposers.length ≠ 0 := by
    intro e; have : proposers = [] := List.length_eq_zero_iff.mp e
    simp [this] at hxp
  have := h3 hec x hx
  simp only [hec, Bool.true_and, bne_iff_ne, ne_eq, hne, not_false_eq_true, decide_true, if_true] at this
  exact this (take_subset_buildExcl C proposers x hxp)

theorem peersLoop_no_panic (vrf : Seed) (table : List Nat) (hne : table ≠ []) (N C end_ : Nat) (excl : List Nat) (i : Nat)
    (peers : List Nat) (cnt : Nat) : peersLoop vrf table N C end_ excl i peers cnt ≠ none := by
  fun_induction peersLoop vrf table N C end_ excl i peers cnt
  case case1 => simp
  case case2 hc => exact absurd hc (calcParticipant_no_panic vrf table _ hne)
  case case3 => simp
  case case4 ih => exact ih
  case case5 => simp
  case case6 => simp
  case case7 => simp
  case case8 ih => exact ih

/-- The maps are membership sets only: any exclusion list with the same members gives the same selection. -/
theorem peersLoop_excl_congr (vrf : Seed) (table : List Nat) (N C end_ : Nat) (e1 e2 : List Nat)
    (hm : ∀ x, x ∈ e1 ↔ x ∈ e2) (i : Nat) (peers : List Nat) (cnt : Nat) :
    peersLoop vrf table N C end_ e1 i peers cnt = peersLoop vrf table N C end_ e2 i peers cnt := by
  have hc : ∀ x, e1.contains x = e2.contains x := by
    intro x
    by_cases h : x ∈ e1
    · simp [h, (hm x).mp h]
    · have h2 : x ∉ e2 := fun h' => h ((hm x).mpr h')
      simp [h, h2]
  generalize hn : 512 - i = n
  induction n generalizing i peers cnt with
  | zero =>
    rw [peersLoop]; conv => rhs; rw [peersLoop]
    have : i ≥ 512 := by omega
    simp [this]
  | succ n ih =>
    have ih' : ∀ peers cnt, peersLoop vrf table N C end_ e1 (i + 1) peers cnt = peersLoop vrf table N C end_ e2 (i + 1) peers cnt :=
      fun peers cnt => ih (i + 1) peers cnt (by omega)
    rw [peersLoop]; conv => rhs; rw [peersLoop]
    simp only [hc, ih']

structure WellFormed (table : List Nat) (C : Nat) (cfg : ParticipantConfig) : Prop where
  p_nodup : cfg.proposers.Nodup
  p_table : ∀ x ∈ cfg.proposers, x ∈ table
  p_size : cfg.proposers.length = C + 1
  e_nodup : cfg.endorsers.Nodup
  e_table : ∀ x ∈ cfg.endorsers, x ∈ table
  e_size : 2 * C ≤ cfg.endorsers.length
  e_disj : ∀ x ∈ cfg.endorsers, x ∉ cfg.proposers.take C
  c_nodup : cfg.committers.Nodup
  c_table : ∀ x ∈ cfg.committers, x ∈ table
  c_size : 2 * C ≤ cfg.committers.length
  c_disj : ∀ x ∈ cfg.committers, x ∉ cfg.proposers.take C

theorem build_spec (blkNum : Nat) (vrf : Seed) (table : List Nat) (N C : Nat) (cfg : ParticipantConfig)
    (h : buildParticipantConfig blkNum vrf table N C = .ok cfg) : WellFormed table C cfg := by
  unfold buildParticipantConfig at h
  split at h; · simp at h
  split at h; · simp at h
  simp only at h
  split at h; · simp at h
  rename_i props hp
  split at h; · simp at h
  rename_i hpl
  split at h; · simp at h
  rename_i ends he
  split at h; · simp at h
  rename_i hel
  split at h; · simp at h
  rename_i coms hc
  split at h; · simp at h
  rename_i hcl
  simp only [BuildRes.ok.injEq] at h
  subst h
  obtain ⟨p1, p2, _⟩ := calcParticipantPeers_spec _ _ _ _ _ _ _ _ hp
  obtain ⟨e1, e2, e3⟩ := calcParticipantPeers_spec _ _ _ _ _ _ _ _ he
  obtain ⟨c1, c2, c3⟩ := calcParticipantPeers_spec _ _ _ _ _ _ _ _ hc
  have hec1 : isEC (0 + MAX_PROPOSER_COUNT + MAX_ENDORSER_COUNT) = true := by decide
  have hec2 : isEC (0 + MAX_PROPOSER_COUNT + MAX_ENDORSER_COUNT + MAX_COMMITTER_COUNT) = true := by decide
  exact {
    p_nodup := p1.sublist (List.take_sublist _ _)
    p_table := fun x hx => p2 x (List.mem_of_mem_take hx)
    p_size := by simp only [List.length_take]; omega
    e_nodup := e1, e_table := e2, e_size := by show 2 * C ≤ ends.length; omega, e_disj := e3 hec1
    c_nodup := c1, c_table := c2, c_size := by show 2 * C ≤ coms.length; omega, c_disj := c3 hec2 }

theorem build_no_panic (blkNum : Nat) (vrf : Seed) (table : List Nat) (hne : table ≠ []) (N C : Nat) :
    buildParticipantConfig blkNum vrf table N C ≠ .panic := by
  have np : ∀ ps s e, calcParticipantPeers vrf table N C ps s e ≠ none := by
    intro ps s e; unfold calcParticipantPeers; exact peersLoop_no_panic vrf table hne _ _ _ _ _ _ _
  unfold buildParticipantConfig
  split; · simp
  split; · simp
  simp only
  split; · rename_i h; exact absurd h (np _ _ _)
  split; · simp
  split; · rename_i h; exact absurd h (np _ _ _)
  split; · simp
  split; · rename_i h; exact absurd h (np _ _ _)
  split <;> simp

theorem count_pos_of_getElem (l : List Nat) (i : Nat) (h : i < l.length) (x : Nat) (e : l[i] = x) : 1 ≤ l.count x := by
  have : x ∈ l := e ▸ List.getElem_mem h
  exact List.count_pos_iff.mpr this

theorem set_set_perm (l : List Nat) (i j : Nat) (a b : Nat) (hi : l[i]? = some a) (hj : l[j]? = some b) :
    ((l.set i b).set j a).Perm l := by
  have hil : i < l.length := by
    rcases Nat.lt_or_ge i l.length with h | h
    · exact h
    · rw [List.getElem?_eq_none h] at hi; simp at hi
  have hjl : j < l.length := by
    rcases Nat.lt_or_ge j l.length with h | h
    · exact h
    · rw [List.getElem?_eq_none h] at hj; simp at hj
  rw [List.getElem?_eq_getElem hil] at hi
  rw [List.getElem?_eq_getElem hjl] at hj
  simp only [Option.some.injEq] at hi hj
  rw [List.perm_iff_count]
  intro x
  rw [List.count_set (by simpa using hjl), List.count_set hil]
  have ha := count_pos_of_getElem l i hil a hi
  have hb := count_pos_of_getElem l j hjl b hj
  rw [List.getElem_set]
  by_cases hij : i = j
  · subst hij
    have hab : a = b := hi.symm.trans hj
    subst hab
    simp only [hi, if_true]
    by_cases hax : a = x
    · subst hax; simp; omega
    · simp [hax]
  · simp only [hij, if_false, hi, hj]
    by_cases hax : a = x <;> by_cases hbx : b = x
    · subst hax; subst hbx; simp; omega
    · subst hax; simp [hbx]; omega
    · subst hbx; simp [hax]
    · simp [hax, hbx]

theorem swap_perm (l : List Nat) (i j : Nat) : (swap l i j).Perm l := by
  unfold swap
  split
  · rename_i a b hi hj; exact set_set_perm l i j a b hi hj
  · exact List.Perm.refl _

theorem shuffle_perm (h : String → Nat → Nat) (peers : List Peer) (n : Nat) (t : List Nat) :
    (shuffle h peers n t).Perm t := by
  induction n generalizing t with
  | zero => simp [shuffle]
  | succ i ih =>
    unfold shuffle
    split
    · exact List.Perm.refl _
    · exact (ih _).trans (swap_perm _ _ _)

theorem mem_initTable (peers : List Peer) (x : Nat) : x ∈ initTable peers ↔ ∃ p ∈ peers, p.index = x := by
  unfold initTable peerRank
  simp only [List.mem_flatMap, List.mem_replicate]
  constructor
  · rintro ⟨p, hp, _, rfl⟩; exact ⟨p, hp, rfl⟩
  · rintro ⟨p, hp, rfl⟩; exact ⟨p, hp, by decide, rfl⟩

/-- Why the selection loop returns a non-empty list: one of its three stop conditions. -/
theorem peersLoop_nonempty_reason (vrf : Seed) (table : List Nat) (N C end_ : Nat) (excl : List Nat) (i : Nat)
    (peers : List Nat) (cnt : Nat) (res : List Nat) (hc : cnt = peers.length)
    (h : peersLoop vrf table N C end_ excl i peers cnt = some res) (hne : res ≠ []) :
    N ≤ res.length ∨ (end_ = MAX_PROPOSER_COUNT ∧ C < res.length) ∨ (isEC end_ = true ∧ C * 2 < res.length) := by
  fun_induction peersLoop vrf table N C end_ excl i peers cnt generalizing res
  case case1 => simp at h; exact absurd h hne
  case case2 => simp at h
  case case3 => simp at h; exact absurd h hne
  case case4 ih => exact ih res hc h hne
  case case5 i peers cnt _ peerId _ _ _ fresh peers' cnt' hstop =>
    simp only [Option.some.injEq] at h; subst h
    simp only [Bool.and_eq_true, decide_eq_true_eq] at hstop
    left
    have h1 : cnt' = cnt + 1 := by simp [cnt', hstop.1]
    have h2 : peers' = peers ++ [peerId] := by simp [peers', hstop.1]
    have h3 := hstop.2
    rw [h2]; simp only [List.length_append, List.length_cons, List.length_nil]; omega
  case case6 i peers cnt _ peerId _ _ _ fresh peers' cnt' _ hstop =>
    simp only [Option.some.injEq] at h; subst h
    simp only [Bool.and_eq_true, beq_iff_eq, decide_eq_true_eq] at hstop
    exact Or.inr (Or.inl ⟨hstop.1.1, hstop.2⟩)
  case case7 i peers cnt _ peerId _ _ _ fresh peers' cnt' _ _ hstop =>
    simp only [Option.some.injEq] at h; subst h
    simp only [Bool.and_eq_true, decide_eq_true_eq] at hstop
    exact Or.inr (Or.inr ⟨hstop.1, hstop.2⟩)
  case case8 i peers cnt _ peerId _ _ _ fresh peers' cnt' _ _ _ ih =>
    refine ih res ?_ h hne
    by_cases hf : fresh = true
    · have h1 : cnt' = cnt + 1 := by simp [cnt', hf]
      have h2 : peers' = peers ++ [peerId] := by simp [peers', hf]
      rw [h1, h2]; simp only [List.length_append, List.length_cons, List.length_nil]; omega
    · have h1 : cnt' = cnt := by simp [cnt', hf]
      have h2 : peers' = peers := by simp [peers', hf]
      rw [h1, h2]; exact hc

/-- With at most 3C different peers in the position table (C >= 1) and N > 2C — in particular the chain
    configuration GenesisChainConfig produces for 3, 6, 9, ... peers (N = k, C = k/3) — no participant
    configuration can be built: after excluding C proposers only 2C peers remain, the endorser loop needs more. -/
theorem no_config_with_3C_members (blkNum : Nat) (vrf : Seed) (table : List Nat) (N C : Nat) (hC : 1 ≤ C) (hN : 2 * C < N)
    (hd : ∀ S : List Nat, S.Nodup → (∀ x ∈ S, x ∈ table) → S.length ≤ 3 * C) (cfg : ParticipantConfig) :
    buildParticipantConfig blkNum vrf table N C ≠ .ok cfg := by
  intro h
  have w := build_spec blkNum vrf table N C cfg h
  unfold buildParticipantConfig at h
  split at h; · simp at h
  split at h; · simp at h
  simp only at h
  split at h; · simp at h
  rename_i props hp
  split at h; · simp at h
  split at h; · simp at h
  rename_i ends he
  split at h; · simp at h
  rename_i hel
  split at h; · simp at h
  split at h; · simp at h
  simp only [BuildRes.ok.injEq] at h
  subst h
  -- the endorsers are more than 2C
  have hne : ends ≠ [] := by
    intro e; rw [e] at hel; simp at hel; omega
  have hreason := peersLoop_nonempty_reason vrf table N C _ _ _ [] 0 ends rfl (by unfold calcParticipantPeers at he; exact he) hne
  have hlen : 2 * C < ends.length := by
    rcases hreason with h1 | ⟨h1, _⟩ | ⟨_, h1⟩
    · omega
    · simp [MAX_PROPOSER_COUNT, MAX_ENDORSER_COUNT] at h1
    · omega
  -- endorsers ++ first C proposers: pairwise different members of the table, more than 3C of them
  have hS := hd (ends ++ (List.take (C + 1) props).take C) ?_ ?_
  · have : ((List.take (C + 1) props).take C).length = C := by
      have := w.p_size; simp only at this
      rw [List.length_take]; omega
    rw [List.length_append, this] at hS; omega
  · rw [List.nodup_append]
    refine ⟨w.e_nodup, w.p_nodup.sublist (List.take_sublist _ _), ?_⟩
    intro a ha b hb hab
    subst hab
    exact w.e_disj a ha hb
  · intro x hx
    rcases List.mem_append.mp hx with h1 | h1
    · exact w.e_table x h1
    · exact w.p_table x (List.mem_of_mem_take h1)

theorem nodup_subset_length_le (S L : List Nat) (hn : S.Nodup) (hs : ∀ x ∈ S, x ∈ L) : S.length ≤ L.length := by
  induction S generalizing L with
  | nil => simp
  | cons a r ih =>
    have hn' := List.nodup_cons.mp hn
    have ha : a ∈ L := hs a List.mem_cons_self
    have := ih (L.erase a) hn'.2 (by
      intro x hx
      have hxa : x ≠ a := fun e => hn'.1 (e ▸ hx)
      exact (List.mem_erase_of_ne hxa).mpr (hs x (List.mem_cons_of_mem _ hx)))
    rw [List.length_erase_of_mem ha] at this
    have hpos : 0 < L.length := List.length_pos_of_mem ha
    simp only [List.length_cons]; omega

/-- The chain configuration GenesisChainConfig produces for a pool of 3c peers (c >= 1) admits no participant
    configuration, whatever the seed, the height and the shuffle hash. -/
theorem genesis_3c_cannot_build (h : String → Nat → Nat) (peers : List Peer) (c : Nat) (hc : 1 ≤ c)
    (hk : peers.length = 3 * c) (blkNum : Nat) (vrf : Seed) (cfg : ParticipantConfig) :
    let cc := genesisChainConfig h peers
    buildParticipantConfig blkNum vrf cc.posTable cc.N cc.C ≠ .ok cfg := by
  intro cc
  have hN : cc.N = 3 * c := hk
  have hC : cc.C = c := by show peers.length / 3 = c; omega
  rw [hN, hC]
  apply no_config_with_3C_members blkNum vrf cc.posTable (3 * c) c hc (by omega)
  intro S hS hmem
  have hp : cc.posTable.Perm (initTable peers) := shuffle_perm h peers _ _
  -- S is a duplicate-free list of peer indices
  have : S.length ≤ (peers.map (·.index)).length := by
    apply nodup_subset_length_le S _ hS
    intro x hx
    obtain ⟨p, hp1, hp2⟩ := (mem_initTable peers x).mp (hp.mem_iff.mp (hmem x hx))
    exact List.mem_map.mpr ⟨p, hp1, hp2⟩
  simpa [hk] using this

/-- The table depends on the order in which the pool is handed over only up to rearrangement: for two orders of
    the same pool the tables have the same entries with the same multiplicities, and N and C agree. -/
theorem genesis_order_perm (h : String → Nat → Nat) (p₁ p₂ : List Peer) (hp : p₁.Perm p₂) :
    (genesisChainConfig h p₁).posTable.Perm (genesisChainConfig h p₂).posTable ∧
      (genesisChainConfig h p₁).N = (genesisChainConfig h p₂).N ∧ (genesisChainConfig h p₁).C = (genesisChainConfig h p₂).C := by
  have h1 : (genesisChainConfig h p₁).posTable.Perm (initTable p₁) := shuffle_perm h p₁ _ _
  have h2 : (genesisChainConfig h p₂).posTable.Perm (initTable p₂) := shuffle_perm h p₂ _ _
  have h3 : (initTable p₁).Perm (initTable p₂) := List.Perm.flatMap_right _ hp
  refine ⟨h1.trans (h3.trans h2.symm), ?_, ?_⟩
  · show p₁.length = p₂.length; exact hp.length_eq
  · show p₁.length / 3 = p₂.length / 3; rw [hp.length_eq]

end Poly.Proofs.VBFT
