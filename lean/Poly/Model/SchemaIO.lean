import Poly.Model.Schema
import Poly.Util.Hex
/-! Rendering of schema values for the line protocol of the drivers (no theorems depend on this file).
    leaves: decimal / `true|false` / hex (`-` = empty); products: `a,b` (flattened); lists and maps: `[e1;e2;…]`. -/
namespace Poly.Model.Schema
open Poly.Model.Codec

def Leaf.show : (l : Leaf) → l.Val → String
  | .u8, v => toString v.toNat | .u16, v => toString v.toNat | .u32, v => toString v.toNat | .u64, v => toString v.toNat
  | .i64, v => toString v.toInt | .bool, v => if Bool.toNat v == 1 then "true" else "false"
  | .varuint, v => toString v.toNat
  | .varbytes, v => Hex.showHex v | .fixed _, v => Hex.showHex v | .key, v => Hex.showHex v
  | .bigint, v => Nat.repr v
  | .optFixed _, v => Hex.showHex v | .optString, v => Hex.showHex v | .optBytes, v => Hex.showHex v

def Ty.show : (t : Ty) → t.Val → String
  | .leaf l _, v => l.show v
  | .pair a b, (x, y) => a.show x ++ "," ++ b.show y
  | .list _ t, vs => "[" ++ ";".intercalate (vs.map t.show) ++ "]"
  | .map _ k _ v _, es => "[" ++ ";".intercalate (es.map fun e => k.show e.1 ++ "," ++ v.show e.2) ++ "]"

/-- key oracle from the op-line token `keys=<wire>[:<canon>],…` (`keys=` or `keys=-` is the empty table) -/
def parseKeys (tok : String) : Bytes → Option Bytes :=
  let body := if tok.startsWith "keys=" then (tok.drop 5).toString else tok
  let entries := (body.splitOn ",").filterMap fun e =>
    match e.splitOn ":" with
    | [w] => if w == "" || w == "-" then none else (Hex.ofHex w).map fun b => (b, b)
    | [w, c] => do let b ← Hex.ofHex w; let c ← Hex.ofHex c; pure (b, c)
    | _ => none
  fun b => (entries.find? (fun e => e.1 == b)).map (·.2)

/-- truncation points examined by the property ops (all of them for short strings) — same rule as the Go harness -/
def cutPoints (n : Nat) : List Nat :=
  (List.range n).filter fun k => n ≤ 300 || k < 40 || k + 40 ≥ n || k % 9973 == 0

end Poly.Model.Schema
