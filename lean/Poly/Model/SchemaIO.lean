import Poly.Model.Schema
import Poly.Util.Hex
/-! Rendering of schema values for the line protocol of the drivers (no theorems depend on this file).
    leaves: decimal / `true|false` / hex (`-` = empty); products: `a,b` (flattened); lists and maps: `[e1;e2;…]`. -/
namespace Poly.Model.Schema
open Poly.Model.Codec

def Leaf.show : (l : Leaf) → l.Val → String
  | .u8, v => toString v.toNat | .u16, v => toString v.toNat | .u32, v => toString v.toNat | .u64, v => toString v.toNat
  | .i64, v => toString v.toInt | .bool, v => if Bool.toNat v == 1 then "true" else "false"
  | .varuint, v => toString v.toNat
  | .varbytes, v => Hex.showHex v | .fixed _, v => Hex.showHex v | .key, v => Hex.showHex v
  | .bigint, v => Nat.repr v
  | .optFixed _, v => Hex.showHex v | .optString, v => Hex.showHex v | .optBytes, v => Hex.showHex v

def Ty.show : (t : Ty) → t.Val → String
  | .leaf l _, v => l.show v
  | .pair a b, (x, y) => a.show x ++ "," ++ b.show y
  | .list _ t, vs => "[" ++ ";".intercalate (vs.map t.show) ++ "]"
  | .map _ k _ v _, es => "[" ++ ";".intercalate (es.map fun e => k.show e.1 ++ "," ++ v.show e.2) ++ "]"

/-- fast hex parser for long op-line tokens (same language as `Hex.ofHex`: lower/upper case digits, `-` = empty) -/
def hexNib (c : UInt8) : UInt8 :=
  if 48 ≤ c && c ≤ 57 then c - 48 else if 97 ≤ c && c ≤ 102 then c - 87 else if 65 ≤ c && c ≤ 70 then c - 55 else 255

def ofHexGo (ba : ByteArray) : Nat → Bytes → Option Bytes
  | 0, acc => some acc
  | i + 1, acc =>
    let hi := hexNib (ba.get! (2 * i))
    let lo := hexNib (ba.get! (2 * i + 1))
    if hi == 255 || lo == 255 then none else ofHexGo ba i ((hi <<< 4 ||| lo) :: acc)

def ofHex (s : String) : Option Bytes :=
  if s == "-" then some []
  else
    let ba := s.toUTF8
    if ba.size % 2 != 0 then none else ofHexGo ba (ba.size / 2) []

/-- key table from the op-line token `keys=<wire>[:<canon>],…` (`keys=-` is the empty table) -/
def parseKeyTable (tok : String) : List (Bytes × Bytes) :=
  let body := if tok.startsWith "keys=" then (tok.drop 5).toString else tok
  (body.splitOn ",").filterMap fun e =>
    match e.splitOn ":" with
    | [w] => if w == "" || w == "-" then none else (ofHex w).map fun b => (b, b)
    | [w, c] => do let b ← ofHex w; let c ← ofHex c; pure (b, c)
    | _ => none

/-- the key oracle `K` of a table -/
def lookupKey (tbl : List (Bytes × Bytes)) (b : Bytes) : Option Bytes := (tbl.find? (fun e => e.1 == b)).map (·.2)

/-- truncation points examined by the property ops (all of them for short strings) — same rule as the Go harness -/
def cutPoints (n : Nat) : List Nat :=
  (List.range n).filter fun k => n ≤ 300 || k < 40 || k + 40 ≥ n || k % 9973 == 0

end Poly.Model.Schema
