/-!
# Storage-key shapes of the native contracts (C17)

`utils.ConcatKey(contract, f1, …, fn)` appends its fields to the 20-byte contract address. A *shape* records
what is known statically about each field: a literal, a field of fixed width, or a field of unknown width.
The tables of shapes are generated from the Go source (`Poly/Generated/KeyShapes.lean`); the decision
procedures below are evaluated on them by the kernel and lifted to all argument byte strings by the
soundness theorems in `Poly/Proofs/KeyShape.lean`.

Also here: the model of `storage.CacheDB` (`put/delete/Commit` prefix every key with `ST_STORAGE`).
-/
namespace Poly.Model.KeyShape

abbrev Bytes := List UInt8

inductive Seg where
  | lit (bs : Bytes)
  | fixed (n : Nat)
  | var
deriving DecidableEq, Repr

abbrev Shape := List Seg

/-- An argument fits a segment. -/
def Seg.ok : Seg → Bytes → Prop
  | .lit bs, a => a = bs
  | .fixed n, a => a.length = n
  | .var, _ => True

/-- `Valid s args`: one argument per segment, each of the statically known form. -/
inductive Valid : Shape → List Bytes → Prop
  | nil : Valid [] []
  | cons {s : Seg} {a : Bytes} {ss : Shape} {as : List Bytes} : s.ok a → Valid ss as → Valid (s :: ss) (a :: as)

/-- `utils.ConcatKey`: `temp := contract[:]; for _, arg := range args { temp = append(temp, arg...) }`. -/
def concatKey (contract : Bytes) (args : List Bytes) : Bytes :=
  args.foldl (fun temp arg => temp ++ arg) contract

/-- Key bytes after the contract address. -/
def render (args : List Bytes) : Bytes := args.flatten

/-- Positional pattern known before the first field of unknown width: `some b` = that byte, `none` = any byte. -/
def pat : Shape → List (Option UInt8)
  | [] => []
  | .lit bs :: r => bs.map some ++ pat r
  | .fixed n :: r => List.replicate n none ++ pat r
  | .var :: _ => []

/-- Two patterns demand different bytes at some common position. -/
def clash : List (Option UInt8) → List (Option UInt8) → Bool
  | some a :: p, some b :: q => a != b || clash p q
  | some _ :: p, none :: q => clash p q
  | none :: p, _ :: q => clash p q
  | _, _ => false

/-- No field of unknown width. -/
def closed : Shape → Bool
  | [] => true
  | .var :: _ => false
  | _ :: r => closed r

/-- Number of fields of unknown width. -/
def vars : Shape → Nat
  | [] => 0
  | .var :: r => vars r + 1
  | _ :: r => vars r

/-- Number of bytes contributed by literals and fixed-width fields (= the exact length when `closed`). -/
def len : Shape → Nat
  | [] => 0
  | .lit bs :: r => bs.length + len r
  | .fixed n :: r => n + len r
  | .var :: r => len r

/-- Sufficient test: no key of shape `s` equals a key of shape `t`. -/
def disjoint (s t : Shape) : Bool :=
  clash (pat s) (pat t)
  || (closed s && closed t && len s != len t)
  || (closed s && decide (len s < len t))
  || (closed t && decide (len t < len s))

/-- Sufficient test: a key of shape `s` determines its arguments. -/
def selfInjective (s : Shape) : Bool := decide (vars s ≤ 1)

/-- `x` describes the same field as `y` with more static knowledge (a fixed width where `y` has none). -/
def Seg.inst : Seg → Seg → Bool
  | .lit a, .lit b => a == b
  | .fixed n, .fixed m => n == m
  | .fixed _, .var => true
  | .var, .var => true
  | _, _ => false

/-- `s` is an instance of `t`: same literals at the same places, the same number of fields, some fields of `t`
of unknown width have a known width in `s` (two construction sites of the same record family, e.g.
`headerIndex ‖ chain ‖ hash.Bytes()` and `headerIndex ‖ chain ‖ hash` with `hash []byte`). -/
def inst : Shape → Shape → Bool
  | [], [] => true
  | x :: s, y :: t => x.inst y && inst s t
  | _, _ => false

/-- The two shapes describe one record family. -/
def sameFamily (s t : Shape) : Bool := s == t || inst s t || inst t s

/-- Pair test: the two shapes never produce the same key, or they describe one record family whose most general
shape is self-injective. -/
def pairOK (s t : Shape) : Bool :=
  s == t || disjoint s t || (inst s t && selfInjective t) || (inst t s && selfInjective s)

/-- Table test: every shape is self-injective and every pair passes `pairOK`. -/
def tableOK (tbl : List Shape) : Bool :=
  tbl.all fun s => selfInjective s && tbl.all fun t => pairOK s t

/-- Pairs of the table the tests cannot decide (for the search and the evidence). -/
def undecided (tbl : List Shape) : List (Shape × Shape) :=
  tbl.flatMap fun s => (tbl.filter fun t => !pairOK s t).map fun t => (s, t)

def notInjective (tbl : List Shape) : List Shape := tbl.filter fun s => !selfInjective s

/-! ## The transaction cache -/

/-- Association list with replace-on-put (the write buffer of one transaction / of one block). -/
abbrev Store := List (Bytes × Bytes)

def Store.put (m : Store) (k v : Bytes) : Store :=
  match m with
  | [] => [(k, v)]
  | (k', v') :: r => if k' = k then (k, v) :: r else (k', v') :: Store.put r k v

def Store.get (m : Store) (k : Bytes) : Option Bytes :=
  match m with
  | [] => none
  | (k', v') :: r => if k' = k then some v' else Store.get r k

/-- Operations the contracts can perform on the cache: the key is whatever the contract computed. -/
inductive CacheOp where
  | put (key value : Bytes)
  | delete (key : Bytes)

/-- `CacheDB.put(prefix, key, value)` / `CacheDB.delete(prefix, key)` with the prefix byte in front; a delete
is a put of the empty value (tombstone) into the write buffer. -/
def cacheStep (pfx : UInt8) (memdb : Store) : CacheOp → Store
  | .put k v => memdb.put (pfx :: k) v
  | .delete k => memdb.put (pfx :: k) []

def cacheRun (pfx : UInt8) (ops : List CacheOp) : Store := ops.foldl (cacheStep pfx) []

/-- `CacheDB.Commit`: every buffered entry goes to the block overlay (empty value = delete marker). -/
def commit (memdb backend : Store) : Store := memdb.foldl (fun b kv => b.put kv.1 kv.2) backend

end Poly.Model.KeyShape
