import Poly.Model.SchemaLedger
/-!
# Peer-to-peer frames (C05): model of `p2pserver/message/types/message.go` and the 16 message kinds

`frame` = `WriteMessage`: magic (u32) ++ command (12 bytes, NUL padded) ++ payload length (u32) ++ checksum (first four
bytes of `H (H payload)`) ++ payload. `readMessage` follows `ReadMessage` step by step: 24 header bytes, magic, the
`MAX_PAYLOAD_LEN` limit, exactly `Length` payload bytes, checksum, command dispatch after trimming NULs, payload decoding
(trailing payload bytes are ignored by every payload decoder). Payload formats are schemas of `Poly.Model.Schema`
(`Block` and `Trn` reuse the C02 decoders); decode-side clamps (`Inv` → 64 hashes, `Addr` → 64 entries) are part of the
schema. The network magic, the hash `H` and the key library `K` are parameters.
-/
namespace Poly.Model.SchemaP2P
open Poly.Model.Codec Poly.Model.Schema Poly.Model.SchemaLedger

def MSG_CMD_LEN : Nat := 12
def CHECKSUM_LEN : Nat := 4
def MSG_HDR_LEN : Nat := 24
def MAX_PAYLOAD_LEN : Nat := 30 * 1024 * 1024 - 24
def MAX_ADDR_NODE_CNT : Nat := 64
def MAX_INV_BLK_CNT : Nat := 64

inductive Kind
  | ping | version | verack | addr | getaddr | pong | getheaders | headers | inv | getdata | block | tx | consensus
  | notfound | disconnect | getblocks
deriving DecidableEq, Repr

def Kind.all : List Kind :=
  [.ping, .version, .verack, .addr, .getaddr, .pong, .getheaders, .headers, .inv, .getdata, .block, .tx, .consensus,
   .notfound, .disconnect, .getblocks]

/-- command strings (ASCII) -/
def Kind.cmd : Kind → Bytes
  | .ping => [0x70, 0x69, 0x6e, 0x67]
  | .version => [0x76, 0x65, 0x72, 0x73, 0x69, 0x6f, 0x6e]
  | .verack => [0x76, 0x65, 0x72, 0x61, 0x63, 0x6b]
  | .addr => [0x61, 0x64, 0x64, 0x72]
  | .getaddr => [0x67, 0x65, 0x74, 0x61, 0x64, 0x64, 0x72]
  | .pong => [0x70, 0x6f, 0x6e, 0x67]
  | .getheaders => [0x67, 0x65, 0x74, 0x68, 0x65, 0x61, 0x64, 0x65, 0x72, 0x73]
  | .headers => [0x68, 0x65, 0x61, 0x64, 0x65, 0x72, 0x73]
  | .inv => [0x69, 0x6e, 0x76]
  | .getdata => [0x67, 0x65, 0x74, 0x64, 0x61, 0x74, 0x61]
  | .block => [0x62, 0x6c, 0x6f, 0x63, 0x6b]
  | .tx => [0x74, 0x78]
  | .consensus => [0x63, 0x6f, 0x6e, 0x73, 0x65, 0x6e, 0x73, 0x75, 0x73]
  | .notfound => [0x6e, 0x6f, 0x74, 0x66, 0x6f, 0x75, 0x6e, 0x64]
  | .disconnect => [0x64, 0x69, 0x73, 0x63, 0x6f, 0x6e, 0x6e, 0x65, 0x63, 0x74]
  | .getblocks => [0x67, 0x65, 0x74, 0x62, 0x6c, 0x6f, 0x63, 0x6b, 0x73]

def Kind.name : Kind → String
  | .ping => "ping" | .version => "version" | .verack => "verack" | .addr => "addr" | .getaddr => "getaddr" | .pong => "pong"
  | .getheaders => "getheaders" | .headers => "headers" | .inv => "inv" | .getdata => "getdata" | .block => "block"
  | .tx => "tx" | .consensus => "consensus" | .notfound => "notfound" | .disconnect => "disconnect"
  | .getblocks => "getblocks"

/-- the Go message type of each kind (`MakeEmptyMessage`) -/
def Kind.goType : Kind → String
  | .ping => "Ping" | .version => "Version" | .verack => "VerACK" | .addr => "Addr" | .getaddr => "AddrReq" | .pong => "Pong"
  | .getheaders => "HeadersReq" | .headers => "BlkHeader" | .inv => "Inv" | .getdata => "DataReq" | .block => "Block"
  | .tx => "Trn" | .consensus => "Consensus" | .notfound => "NotFound" | .disconnect => "Disconnected"
  | .getblocks => "BlocksReq"

/-! ## payload schemas -/

def pingTy : Ty := lf .u64
def versionTy : Ty :=
  lf .u32 ⊗ lf .u64 ⊗ lf .i64 ⊗ lf .u16 ⊗ lf .u16 ⊗ lf .u16 ⊗ lf (.fixed 32) ⊗ lf .u64 ⊗ lf .u64 ⊗ lf .u8 ⊗ lf .bool ⊗
  lf .optString
def verackTy : Ty := lf .bool
def peerAddrTy : Ty := lf .i64 ⊗ lf .u64 ⊗ lf (.fixed 16) ⊗ lf .u16 ⊗ lf .u16 ⊗ lf .u64
/-- `Addr`: `uint64` count, entries, then the slice is cut to `MAX_ADDR_NODE_CNT` -/
def addrTy : Ty := .list { cnt := .u64, clamp := some MAX_ADDR_NODE_CNT } peerAddrTy
def hdrReqTy : Ty := lf .u8 ⊗ lf (.fixed 32) ⊗ lf (.fixed 32)
def headersTy : Ty := .list { cnt := .u32 } headerTy
def invTy : Ty := lf .u8 ⊗ .list { cnt := .u32, clamp := some MAX_INV_BLK_CNT } (lf (.fixed 32))
def dataReqTy : Ty := lf .u8 ⊗ lf (.fixed 32)
def consensusTy : Ty := lf .u32 ⊗ lf (.fixed 32) ⊗ lf .u32 ⊗ lf .u16 ⊗ lf .u32 ⊗ lf .varbytes ⊗ lf .key ⊗ lf .varbytes
def notFoundTy : Ty := lf (.fixed 32)

/-- decoded payload -/
inductive Payload
  | schema (k : Kind) (t : Ty) (v : t.Val)
  | empty (k : Kind)
  | block (b : BlockVal) (merkleRoot : Bytes)
  | tx (t : TxRes)

def Kind.ty : Kind → Option Ty
  | .ping => some pingTy | .pong => some pingTy | .version => some versionTy | .verack => some verackTy
  | .addr => some addrTy | .getheaders => some hdrReqTy | .getblocks => some hdrReqTy | .headers => some headersTy
  | .inv => some invTy | .getdata => some dataReqTy | .consensus => some consensusTy | .notfound => some notFoundTy
  | _ => none

/-- `msg.Deserialization(source)` over exactly the payload bytes (anything left over is ignored) -/
def decPayload (K : Bytes → Option Bytes) (H : Bytes → Bytes) (k : Kind) (p : Bytes) : Except Err Payload :=
  match k with
  | .getaddr => .ok (.empty .getaddr)
  | .disconnect => .ok (.empty .disconnect)
  | .tx => (txDec K H p).map .tx
  | .block =>
    match blockDec K H p with
    | .error e => .error e
    | .ok (b, r) => .ok (.block b (P.nextFixed 32 r).1)      -- a missing root (old nodes) is the zero hash
  | k =>
    match k.ty with
    | some t => (t.dec K p).map fun (v, _) => .schema k t v
    | none => .error .reject

inductive PErr
  | short        -- header or payload cut short (io.EOF / io.ErrUnexpectedEOF)
  | magic
  | oversize
  | checksum
  | unknownCmd
  | payload      -- payload decoder error
  | panic
deriving DecidableEq, Repr

def PErr.name : PErr → String
  | .short => "short" | .magic => "magic" | .oversize => "oversize" | .checksum => "checksum"
  | .unknownCmd => "unknown-cmd" | .payload => "payload" | .panic => "panic"

/-- `common.Checksum` -/
def checksum (H : Bytes → Bytes) (p : Bytes) : Bytes := (H (H p)).take CHECKSUM_LEN

/-- `bytes.TrimRight(cmd, "\x00")` -/
def trimNul (b : Bytes) : Bytes := (b.reverse.dropWhile (· == 0)).reverse

def kindOfCmd (c : Bytes) : Option Kind := Kind.all.find? fun k => k.cmd == c

/-- the 12-byte command field written by `newMessageHeader` (`copy(msgh.CMD[:], cmd)`) -/
def cmdField (k : Kind) : Bytes := k.cmd ++ List.replicate (MSG_CMD_LEN - k.cmd.length) 0

/-- `WriteMessage` for payload bytes `p` -/
def frameOf (magic : UInt32) (H : Bytes → Bytes) (k : Kind) (p : Bytes) : Bytes :=
  wU32 magic ++ cmdField k ++ wU32 (UInt32.ofNat p.length) ++ checksum H p ++ p

/-- `ReadMessage`: message, payload length and the unread rest of the stream -/
def readMessage (magic : UInt32) (K : Bytes → Option Bytes) (H : Bytes → Bytes) (bs : Bytes) :
    Except PErr (Payload × Nat × Bytes) :=
  if bs.length < MSG_HDR_LEN then .error .short
  else
    let hmagic := UInt32.ofNat (ofLe (bs.take 4))
    let cmd := (bs.drop 4).take MSG_CMD_LEN
    let len := ofLe ((bs.drop 16).take 4)
    let sum := (bs.drop 20).take CHECKSUM_LEN
    let body := bs.drop MSG_HDR_LEN
    if hmagic != magic then .error .magic
    else if len > MAX_PAYLOAD_LEN then .error .oversize
    else if body.length < len then .error .short
    else
      let p := body.take len
      if checksum H p != sum then .error .checksum
      else
        match kindOfCmd (trimNul cmd) with
        | none => .error .unknownCmd
        | some k =>
          match decPayload K H k p with
          | .error .panic => .error .panic
          | .error _ => .error .payload
          | .ok m => .ok (m, len, body.drop len)

end Poly.Model.SchemaP2P
