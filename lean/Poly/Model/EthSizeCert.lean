/-!
# Certificate checker for the ethash size tables (C28)

For an epoch with table value `v` the certificate gives (a) for every candidate size between `v` and the linear bound a
non-trivial divisor of its item count, and (b) a Pratt (Lucas) primality chain for `v / item`: entries `(p, a, qs)` with
`a^(p-1) ≡ 1 (mod p)`, `a^((p-1)/q) ≢ 1` for every `q ∈ qs`, `qs` the complete set of prime factors of `p - 1`, each `q`
either below `smallBound` and prime by trial division or the `p` of an earlier entry. Everything here is computed with
structural recursion so that the kernel can evaluate it (`decide +kernel`); soundness is `Poly.Proofs.EthSizeCert`.
-/
namespace Poly.Model.EthSizeCert

/-- Trial division (the same definition as `Poly.Model.EthRules.noDivisorFrom`; repeated here so that this module - and
with it the expensive kernel checks of the certificates - does not depend on the generated rule constants). -/
def noDiv (n : Nat) : Nat → Nat → Bool
  | 0, _ => true
  | fuel + 1, d => if d * d > n then true else if n % d = 0 then false else noDiv n fuel (d + 1)

def isPrimeTD (n : Nat) : Bool := decide (2 ≤ n) && noDiv n n 2


/-- `acc · a^e mod n` by square-and-multiply; `fuel` bounds the bit length of `e`. -/
def powModAux : Nat → Nat → Nat → Nat → Nat → Nat
  | 0, _, _, _, acc => acc
  | fuel + 1, a, e, n, acc =>
    if e = 0 then acc
    else powModAux fuel (a * a % n) (e / 2) n (if e % 2 = 1 then acc * a % n else acc)

def powMod (a e n : Nat) : Nat := powModAux 64 (a % n) e n (1 % n)

/-- Divide `m` by `q` as long as it divides (at most `fuel` times). -/
def strip : Nat → Nat → Nat → Nat
  | 0, m, _ => m
  | fuel + 1, m, q => if q ≤ 1 then m else if m % q = 0 ∧ m ≠ 0 then strip fuel (m / q) q else m

def stripAll (m : Nat) : List Nat → Nat
  | [] => m
  | q :: qs => stripAll (strip 64 m q) qs

structure Pratt where
  p : Nat
  a : Nat
  qs : List Nat
  deriving Repr

def smallBound : Nat := 10000

/-- `q` is accepted as prime: small and prime by trial division, or certified earlier. -/
def knownPrime (known : List Nat) (q : Nat) : Bool :=
  (decide (q < smallBound) && isPrimeTD q) || known.contains q

def checkPratt (known : List Nat) (c : Pratt) : Bool :=
  decide (2 ≤ c.p) && decide (c.p < 2 ^ 64) && (powMod c.a (c.p - 1) c.p == 1) &&
    c.qs.all (fun q => knownPrime known q && powMod c.a ((c.p - 1) / q) c.p != 1) &&
    (stripAll (c.p - 1) c.qs == 1)

/-- Checks a chain in order; returns the certified primes (most recent first) or `none`. -/
def checkChain : List Nat → List Pratt → Option (List Nat)
  | known, [] => some known
  | known, c :: rest => if checkPratt known c then checkChain (c.p :: known) rest else none

structure EpochCert where
  witnesses : List Nat     -- a non-trivial divisor of the item count of each candidate, from the bound downwards
  chain : List Pratt       -- primality chain; its last entry is the item count of the table value
  deriving Repr

/-- Every candidate `size, size − 2·unit, …` paired with a witness is composite (witness divides the item count
non-trivially); returns the first size not covered by a witness. -/
def skipComposites (unit : Nat) : Nat → List Nat → Option Nat
  | size, [] => some size
  | size, d :: ds =>
    let n := size / unit
    if 1 < d ∧ d < n ∧ n % d = 0 ∧ 2 * unit ≤ size then skipComposites unit (size - 2 * unit) ds else none

def checkEpoch (init growth unit epoch v : Nat) (c : EpochCert) : Bool :=
  match skipComposites unit (init + growth * epoch - unit) c.witnesses with
  | none => false
  | some size =>
    size == v && decide (c.witnesses.length < 1000) &&
      match checkChain [] c.chain with
      | some (p :: _) => p == v / unit
      | _ => false

/-- All epochs `start, start+1, …` of a chunk. -/
def checkTable (init growth unit : Nat) : Nat → List Nat → List EpochCert → Bool
  | _, [], [] => true
  | epoch, v :: vs, c :: cs => checkEpoch init growth unit epoch v c && checkTable init growth unit (epoch + 1) vs cs
  | _, _, _ => false

end Poly.Model.EthSizeCert
