/-!
# Genesis installers of the header-sync routers (C19)

`header_sync.SyncGenesisHeader` (entrance: registry lookup, router table, router start block) and, per router, the
installer as *witness check ; decoding of the genesis bytes ; existence test on the router's marker record ; writes*.
The order of decoding and existence test differs between routers and is part of the table. The light-client state of
a chain is abstracted to its trust root (the identity of the installed genesis record) plus a counter of synced
headers. The registry maps a chain to one router for the whole history.
-/
namespace Poly.Model.Genesis

/-- what the installer does when the marker record of the chain already exists -/
inductive Guard where
  | errorIfInstalled    -- returns an error before any write
  | silentIfInstalled   -- skips the writes and reports success
  | none                -- no test: overwrites
deriving DecidableEq, Repr

structure RouterSpec where
  name : String
  router : Nat
  /-- operator witness required (`node_manager.GetCurConOperator` + `ValidateOwner`) -/
  needsWitness : Bool
  /-- the genesis bytes are decoded before the existence test -/
  parseFirst : Bool
  guard : Guard
  /-- `utils.CheckRouterStartBlock` on main net -/
  startBlock : Nat
deriving DecidableEq, Repr

/-- The routers of `header_sync.GetChainHandler`, as the code is (hand-written; the correspondence run compares
every entry with the real installer). -/
def routers : List RouterSpec := [
  ⟨"btc", 1, false, true, .errorIfInstalled, 0⟩,
  ⟨"eth", 2, true, true, .errorIfInstalled, 0⟩,
  ⟨"ont", 3, true, true, .errorIfInstalled, 0⟩,
  ⟨"neo", 4, true, true, .errorIfInstalled, 0⟩,
  ⟨"cosmos", 5, true, true, .errorIfInstalled, 0⟩,
  ⟨"bsc", 6, true, false, .errorIfInstalled, 0⟩,
  ⟨"heco", 7, true, false, .errorIfInstalled, 0⟩,
  ⟨"quorum", 8, true, true, .errorIfInstalled, 0⟩,
  ⟨"zilliqalegacy", 9, true, true, .errorIfInstalled, 0⟩,
  ⟨"msc", 10, true, false, .errorIfInstalled, 0⟩,
  ⟨"neo3legacy", 11, true, true, .errorIfInstalled, 0⟩,
  ⟨"okex", 12, true, true, .errorIfInstalled, 0⟩,
  ⟨"neo3", 14, true, true, .errorIfInstalled, 0⟩,
  ⟨"heimdall", 15, true, true, .errorIfInstalled, 0⟩,
  ⟨"bor", 16, true, false, .errorIfInstalled, 0⟩,
  ⟨"zilliqa", 17, true, true, .errorIfInstalled, 0⟩,
  ⟨"starcoin", 18, true, true, .errorIfInstalled, 0⟩,
  ⟨"pixiechain", 19, true, false, .errorIfInstalled, 0⟩,
  ⟨"hsc", 20, true, false, .errorIfInstalled, 18823000⟩,
  ⟨"harmony", 21, true, false, .errorIfInstalled, 18823000⟩,
  ⟨"bytom", 22, true, false, .errorIfInstalled, 18823000⟩
]

/-- light-client state of one chain: the trust root it was installed with and the number of headers synced since -/
structure LC where
  root : Nat
  synced : Nat
deriving DecidableEq, Repr

/-- chain ↦ light-client state (no entry: nothing installed) -/
abbrev GState := List (Nat × LC)

def putLC (s : GState) (c : Nat) (lc : LC) : GState :=
  match s with
  | [] => [(c, lc)]
  | (c', lc') :: r => if c' = c then (c, lc) :: r else (c', lc') :: putLC r c lc

inductive GOutcome where
  | ok
  | reject (cls : String)
deriving DecidableEq, Repr

/-- existence test + writes -/
def installWith (guard : Guard) (s : GState) (chain : Nat) (g : Nat) : GOutcome × GState :=
  match s.lookup chain with
  | none => (.ok, putLC s chain ⟨g, 0⟩)
  | some _ =>
    match guard with
    | .errorIfInstalled => (.reject "installed", s)
    | .silentIfInstalled => (.ok, s)
    | .none => (.ok, putLC s chain ⟨g, 0⟩)

/-- one router's `SyncGenesisHeader`; `genesis = none` when the bytes do not decode -/
def syncGenesis (spec : RouterSpec) (s : GState) (chain : Nat) (witness : Bool) (genesis : Option Nat) : GOutcome × GState :=
  if spec.needsWitness && !witness then (.reject "witness", s) else
  if spec.parseFirst then
    match genesis with
    | none => (.reject "genesis", s)
    | some g => installWith spec.guard s chain g
  else
    match s.lookup chain, spec.guard with
    | some _, .errorIfInstalled => (.reject "installed", s)
    | _, _ =>
      match genesis with
      | none => (.reject "genesis", s)
      | some g => installWith spec.guard s chain g

/-- `header_sync.SyncGenesisHeader` (entrance). `reg` is the side-chain registry: chain ↦ router id. -/
def entrance (table : List RouterSpec) (reg : Nat → Option Nat) (mainNet : Bool) (height : Nat) (s : GState)
    (chain : Nat) (witness : Bool) (genesis : Option Nat) : GOutcome × GState :=
  match reg chain with
  | none => (.reject "unreg", s)
  | some r =>
    match table.find? (·.router == r) with
    | none => (.reject "router", s)
    | some spec =>
      if mainNet && height < spec.startBlock then (.reject "router", s)
      else syncGenesis spec s chain witness genesis

/-- histories: installation attempts and header syncs (a header sync, when the router accepts it, advances the
light client but never touches the trust root) -/
inductive GOp where
  | install (height : Nat) (chain : Nat) (witness : Bool) (genesis : Option Nat)
  | sync (chain : Nat) (accepted : Bool)

def gstep (table : List RouterSpec) (reg : Nat → Option Nat) (mainNet : Bool) (s : GState) : GOp → GState
  | .install h c w g => (entrance table reg mainNet h s c w g).2
  | .sync c acc =>
    match s.lookup c with
    | some lc => if acc then putLC s c { lc with synced := lc.synced + 1 } else s
    | none => s

def grun (table : List RouterSpec) (reg : Nat → Option Nat) (mainNet : Bool) (s : GState) (ops : List GOp) : GState :=
  ops.foldl (gstep table reg mainNet) s

def rootOf (s : GState) (c : Nat) : Option Nat := (s.lookup c).map (·.root)

end Poly.Model.Genesis
