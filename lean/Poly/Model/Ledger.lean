import Poly.Generated.Thresholds
/-!
# Model of `core/store/ledgerstore` (ledger_store.go, state_store.go, block_store.go, event_store.go)

Three durable stores (block, state, event), the block-hash accumulator file, and the in-memory state of
`LedgerStoreImp`. `submitBlock` is the sequence of batch fills and the three commits in code order; a crash point
is the number of commits that completed; `reopen` is `NewLedgerStore` + `InitLedgerStoreWithGenesisBlock` on an
existing directory (`NewStateStore` consistency checks, `loadCurrentBlock`, `loadHeaderIndexList`, `recoverStore`
as written, validator sets from the current header). Header acceptance is `verifyHeader` (VBFT branch).

Parameters (never interpreted by the model): the hash function, signature verification and decoding, block
execution (`executeBlock` as an arbitrary function of the committed contract state and the block), the network
id, the header-index batch size, the event-log switch. Durable maps are total functions into `Option`; a LevelDB
batch is a list of typed writes applied in order at commit. The two accumulators are represented by their leaf
lists (the Go code keeps size + frontier; roots are computed by the same frontier algorithm).
-/
namespace Poly.Model.Ledger
open Poly.Generated.Thresholds

abbrev Bytes := List UInt8
abbrev Hash := List UInt8
abbrev Key := Nat
abbrev Sig := List UInt8

def zeroHash : Hash := List.replicate 32 0

inductive Err
  | height | noprev | prevheight | timestamp | fewkeys | pubkey | fewsigs | sigdata | multisig
  | blockroot | stateroot | notip | treesize | hashfile | genesis | payload | other
deriving DecidableEq, Repr

structure Tx where
  hash : Hash
  body : Bytes
deriving DecidableEq

structure Header where
  height : Nat
  hash : Hash
  prev : Hash
  timestamp : Nat
  blockRoot : Hash
  bookkeepers : List Key
  sigs : List Sig
  /-- `NewChainConfig.Peers` ids of the consensus payload, when the header announces a configuration -/
  newCfg : Option (List Key)
  lastCfg : Nat
  /-- the consensus payload decodes (`vconfig.VbftBlock` succeeds); `newCfg` / `lastCfg` are its contents then -/
  payloadOk : Bool := true
deriving DecidableEq

structure Block where
  header : Header
  txs : List Tx
deriving DecidableEq

/-- What `executeBlock` hands to `submitBlock` (minus the state root, which the ledger computes). -/
structure ExecResult where
  /-- overlay write set in iteration order; an empty value is a deletion -/
  writeSet : List (Bytes × Bytes)
  changeHash : Hash
  crossHashes : List Hash
  /-- one entry per transaction: hash and success flag -/
  notifies : List (Hash × Bool)

structure Params where
  H : Bytes → Hash
  verify : Key → Hash → Sig → Bool
  decode : Sig → Bool
  exec : (Bytes → Option Bytes) → Block → ExecResult
  netId : Int
  batch : Nat
  eventLog : Bool

/-! ## Accumulator root (frontier algorithm of `CompactMerkleTree`) -/

def leafHash (H : Bytes → Hash) (d : Bytes) : Hash := H (0 :: d)
def nodeHash (H : Bytes → Hash) (l r : Hash) : Hash := H (1 :: (l ++ r))

/-- merge a complete subtree of the given height into the frontier (head = rightmost, smallest subtree) -/
def mergeIn (H : Bytes → Hash) (h : Nat) (x : Hash) : List (Nat × Hash) → List (Nat × Hash)
  | [] => [(h, x)]
  | (h', y) :: rest => if h' = h then mergeIn H (h + 1) (nodeHash H y x) rest else (h, x) :: (h', y) :: rest

def foldFrontier (H : Bytes → Hash) : List (Nat × Hash) → Hash
  | [] => H []
  | (_, x) :: rest => rest.foldl (fun acc (p : Nat × Hash) => nodeHash H p.2 acc) x

/-- root over leaf hashes -/
def accRoot (H : Bytes → Hash) (leafHashes : List Hash) : Hash :=
  foldFrontier H (leafHashes.foldl (fun st l => mergeIn H 0 l st) [])

/-- root of an accumulator given by its leaf data -/
def treeRoot (p : Params) (leaves : List Bytes) : Hash := accRoot p.H (leaves.map (leafHash p.H))

/-- number of trailing one bits -/
def trailingOnes : Nat → Nat → Nat
  | 0, _ => 0
  | fuel + 1, n => if n % 2 = 1 then 1 + trailingOnes fuel (n / 2) else 0

/-- hashes written to the hash file when a leaf is appended to a tree of size `n` (leaf + merged nodes) -/
def appendCount (n : Nat) : Nat := 1 + trailingOnes n n

/-- hashes stored in the file for a tree of size `n` -/
def storedNum : Nat → Nat
  | 0 => 0
  | n + 1 => storedNum n + appendCount n

/-! ## Durable state -/

@[ext] structure BlockDB where
  version : Bool
  current : Option (Hash × Nat)
  hashAt : Nat → Option Hash
  blockAt : Hash → Option Block
  txAt : Hash → Option (Tx × Nat)
  /-- stored header-index batches, concatenated -/
  indexList : List Hash

@[ext] structure StateDB where
  current : Option (Hash × Nat)
  blockTree : Option (List Bytes)
  stateTree : Option (List Bytes)
  stateRootAt : Nat → Option (Hash × Hash)
  crossAt : Nat → Option (List Hash × Hash)
  kv : Bytes → Option Bytes

@[ext] structure EventDB where
  current : Option (Hash × Nat)
  notifyAt : Hash → Option Bool
  byBlock : Nat → Option (List Hash)

@[ext] structure Durable where
  blocks : BlockDB
  states : StateDB
  events : EventDB
  /-- length of merkle_tree.db in hashes -/
  fileLen : Nat

def BlockDB.empty : BlockDB := ⟨false, none, fun _ => none, fun _ => none, fun _ => none, []⟩
def StateDB.empty : StateDB := ⟨none, none, none, fun _ => none, fun _ => none, fun _ => none⟩
def EventDB.empty : EventDB := ⟨none, fun _ => none, fun _ => none⟩
def Durable.empty : Durable := ⟨.empty, .empty, .empty, 0⟩

inductive BWrite
  | current (h : Hash) (height : Nat)
  | blockHash (height : Nat) (h : Hash)
  | block (b : Block)
  | indexBatch (start : Nat) (hs : List Hash)

inductive SWrite
  | current (h : Hash) (height : Nat)
  | blockTree (leaves : List Bytes)
  | stateTree (leaves : List Bytes)
  | stateRoot (height : Nat) (change root : Hash)
  | cross (height : Nat) (hs : List Hash) (root : Hash)
  | raw (k v : Bytes)

inductive EWrite
  | notify (tx : Hash) (ok : Bool)
  | byBlock (height : Nat) (txs : List Hash)
  | current (h : Hash) (height : Nat)

def upd {α β : Type} [DecidableEq α] (f : α → Option β) (a : α) (b : Option β) : α → Option β :=
  fun x => if x = a then b else f x

def BlockDB.apply (db : BlockDB) : BWrite → BlockDB
  | .current h n => { db with current := some (h, n) }
  | .blockHash n h => { db with hashAt := upd db.hashAt n (some h) }
  | .block b => { db with blockAt := upd db.blockAt b.header.hash (some b),
                          txAt := b.txs.foldl (fun m t => upd m t.hash (some (t, b.header.height))) db.txAt }
  | .indexBatch start hs => { db with indexList := db.indexList.take start ++ hs }

def StateDB.apply (db : StateDB) : SWrite → StateDB
  | .current h n => { db with current := some (h, n) }
  | .blockTree l => { db with blockTree := some l }
  | .stateTree l => { db with stateTree := some l }
  | .stateRoot n c r => { db with stateRootAt := upd db.stateRootAt n (some (c, r)) }
  | .cross n hs r => { db with crossAt := upd db.crossAt n (some (hs, r)) }
  | .raw k v => { db with kv := upd db.kv k (if v.isEmpty then none else some v) }

def EventDB.apply (db : EventDB) : EWrite → EventDB
  | .notify t ok => { db with notifyAt := upd db.notifyAt t (some ok) }
  | .byBlock n ts => { db with byBlock := upd db.byBlock n (some ts) }
  | .current h n => { db with current := some (h, n) }

def BlockDB.commit (db : BlockDB) (ws : List BWrite) : BlockDB := ws.foldl BlockDB.apply db
def StateDB.commit (db : StateDB) (ws : List SWrite) : StateDB := ws.foldl StateDB.apply db
def EventDB.commit (db : EventDB) (ws : List EWrite) : EventDB := ws.foldl EventDB.apply db

/-! ## In-memory state of `LedgerStoreImp` + `StateStore` -/

@[ext] structure Mem where
  currHeight : Nat
  currHash : Hash
  headerIndex : Nat → Option Hash
  /-- `len(headerIndex)` -/
  headerCount : Nat
  storedIndexCount : Nat
  /-- `headerCache` (hash → header) -/
  cache : List Header
  peersH : List Key
  peersB : List Key
  blockTree : List Bytes
  stateTree : List Bytes
  /-- write position of the hash file, in hashes -/
  filePos : Nat

@[ext] structure State where
  dur : Durable
  mem : Mem

def headerHeight (m : Mem) : Nat := if m.headerCount = 0 then 0 else m.headerCount - 1

def setIndex (m : Mem) (height : Nat) (h : Hash) : Mem :=
  { m with headerIndex := upd m.headerIndex height (some h),
           headerCount := if (m.headerIndex height).isSome then m.headerCount else m.headerCount + 1 }

def cacheFind (c : List Header) (h : Hash) : Option Header := c.find? (fun x => x.hash == h)
def cacheAdd (c : List Header) (hd : Header) : List Header := hd :: c.filter (fun x => x.hash != hd.hash)
def cacheDel (c : List Header) (h : Hash) : List Header := c.filter (fun x => x.hash != h)

/-- `GetHeaderByHash`: header cache first, then the block store -/
def headerByHash (s : State) (h : Hash) : Option Header :=
  match cacheFind s.mem.cache h with
  | some hd => some hd
  | none => (s.dur.blocks.blockAt h).map (·.header)

/-! ## Header acceptance (`verifyHeader`, VBFT branch; `signature.VerifyMultiSignature`) -/

def mainNetId : Int := 1

def needFix (p : Params) (hh : Nat) : Bool := ledger_verifyHeader_needFix0 mainNetId p.netId hh

/-- required number of signatures for `n` validators at current header height `hh` -/
def threshold (p : Params) (hh n : Nat) : Int :=
  if needFix p hh then ledger_verifyHeader_m1 n else ledger_verifyHeader_m0 n

def dedupKeys : List Key → List Key
  | [] => []
  | k :: ks => if k ∈ dedupKeys ks then dedupKeys ks else k :: dedupKeys ks

/-- the `usedPubKey` loop: every bookkeeper is in the set in force and none occurs twice -/
def checkBookkeepers (set : List Key) : List Key → List Key → Bool
  | [], _ => true
  | k :: ks, used => if k ∉ set || k ∈ used then false else checkBookkeepers set ks (k :: used)

/-- first key position not yet used whose key verifies the signature -/
def matchSig (p : Params) (h : Hash) (sig : Sig) : List Key → List Bool → Option (List Bool)
  | k :: ks, b :: bs =>
    if !b && p.verify k h sig then some (true :: bs) else (matchSig p h sig ks bs).map (b :: ·)
  | _, _ => none

def multiLoop (p : Params) (h : Hash) (keys : List Key) : Nat → List Sig → List Bool → Except Err (List Bool)
  | 0, _, mask => .ok mask
  | _ + 1, [], _ => .error .other
  | n + 1, sig :: rest, mask =>
    if !p.decode sig then .error .sigdata
    else match matchSig p h sig keys mask with
      | none => .error .multisig
      | some mask' => multiLoop p h keys n rest mask'

def verifyMulti (p : Params) (h : Hash) (keys : List Key) (m : Int) (sigs : List Sig) : Except Err (List Bool) :=
  if (sigs.length : Int) < m then .error .fewsigs
  else multiLoop p h keys m.toNat sigs (keys.map fun _ => false)

def verifyHeader (p : Params) (s : State) (hd : Header) (set : List Key) : Except Err (List Key) :=
  if hd.height = 0 then .ok set
  else match headerByHash s hd.prev with
    | none => .error .noprev
    | some prev =>
      if prev.height + 1 ≠ hd.height then .error .prevheight
      else if prev.timestamp ≥ hd.timestamp then .error .timestamp
      else
        let m := threshold p (headerHeight s.mem) set.length
        if ledger_verifyHeader_cmp0 hd.bookkeepers.length m then .error .fewkeys
        else if !checkBookkeepers set hd.bookkeepers [] then .error .pubkey
        else match verifyMulti p hd.hash hd.bookkeepers m hd.sigs with
          | .error e => .error e
          | .ok _ =>
            if !hd.payloadOk then .error .payload
            else match hd.newCfg with
              | some c => .ok (dedupKeys c)
              | none => .ok set

/-! ## Block execution and persistence -/

/-- `executeBlock`: the overlay reads the committed state store; the state root adds the change hash to the
in-memory state accumulator -/
def executeBlock (p : Params) (s : State) (b : Block) : ExecResult × Hash :=
  let res := p.exec s.dur.states.kv b
  (res, treeRoot p (s.mem.stateTree ++ [res.changeHash]))

/-- `saveHeaderIndexList`: once `HEADER_INDEX_BATCH_SIZE` block hashes are not yet stored as a batch, the next
batch is written (the comparison uses the block height before this block) -/
def indexWrites (p : Params) (m : Mem) : List BWrite :=
  if m.currHeight - m.storedIndexCount < p.batch then []
  else [BWrite.indexBatch m.storedIndexCount
          ((List.range p.batch).map fun i => (m.headerIndex (m.storedIndexCount + i)).getD zeroHash)]

def indexMem (p : Params) (m : Mem) : Mem :=
  if m.currHeight - m.storedIndexCount < p.batch then m
  else { m with storedIndexCount := m.storedIndexCount + p.batch }

/-- `saveBlockToBlockStore`: the block batch in write order -/
def blockBatch (p : Params) (m : Mem) (b : Block) : List BWrite :=
  indexWrites p (setIndex m b.header.height b.header.hash)
  ++ [.current b.header.hash b.header.height, .blockHash b.header.height b.header.hash, .block b]

/-- in-memory effect of `saveBlockToBlockStore` -/
def fillBlockMem (p : Params) (m : Mem) (b : Block) : Mem := indexMem p (setIndex m b.header.height b.header.hash)

/-- the accumulators after `saveBlockToStateStore` appended this block (the state accumulator restarts at the
state-hash check height, which is 0 for a file-backed store) -/
def newStateTree (st : List Bytes) (b : Block) (res : ExecResult) : List Bytes :=
  (if b.header.height = 0 then [] else st) ++ [res.changeHash]
def newBlockTree (bt : List Bytes) (b : Block) : List Bytes := bt ++ [b.header.prev]

/-- the state batch of `saveBlockToStateStore` in write order -/
def stateBatch (p : Params) (st bt : List Bytes) (b : Block) (res : ExecResult) : List SWrite :=
  [SWrite.stateTree (newStateTree st b res),
   .stateRoot b.header.height res.changeHash (treeRoot p (newStateTree st b res)),
   .blockTree (newBlockTree bt b),
   .current b.header.hash b.header.height]
  ++ (if res.crossHashes.isEmpty then [] else [SWrite.cross b.header.height res.crossHashes (accRoot p.H res.crossHashes)])
  ++ res.writeSet.map fun kv => SWrite.raw kv.1 kv.2

/-- `SaveNotify` of every transaction (first thing `saveBlockToStateStore` does; goes to the event batch) -/
def notifyBatch (p : Params) (res : ExecResult) : List EWrite :=
  if p.eventLog then res.notifies.map fun n => EWrite.notify n.1 n.2 else []

/-- `saveBlockToEventStore` -/
def fillEvent (b : Block) : List EWrite :=
  (if b.txs.isEmpty then [] else [EWrite.byBlock b.header.height (b.txs.map (·.hash))])
  ++ [.current b.header.hash b.header.height]

def eventBatch (p : Params) (b : Block) (res : ExecResult) : List EWrite := notifyBatch p res ++ fillEvent b

/-- in-memory effect of `saveBlockToStateStore`: both accumulators are appended, the block accumulator also
appends its new nodes to the hash file -/
def fillMem (m : Mem) (b : Block) (res : ExecResult) : Mem :=
  { m with stateTree := newStateTree m.stateTree b res, blockTree := newBlockTree m.blockTree b,
           filePos := m.filePos + appendCount m.blockTree.length }

structure Filled where
  bw : List BWrite
  sw : List SWrite
  ew : List EWrite
  mem : Mem
  fileLen : Nat

def fillAll (p : Params) (s : State) (b : Block) (res : ExecResult) : Filled :=
  let m2 := fillMem (fillBlockMem p s.mem b) b res
  ⟨blockBatch p s.mem b, stateBatch p s.mem.stateTree s.mem.blockTree b res, eventBatch p b res, m2, max s.dur.fileLen m2.filePos⟩

/-- durable state after the first `k` commits of `submitBlock` (block, event, state — in this order);
the hash file has been appended during the fill in every case -/
def persisted (d : Durable) (f : Filled) (k : Nat) : Durable :=
  { blocks := if k ≥ 1 then d.blocks.commit f.bw else d.blocks,
    events := if k ≥ 2 then d.events.commit f.ew else d.events,
    states := if k ≥ 3 then d.states.commit f.sw else d.states,
    fileLen := f.fileLen }

/-- `GetBlockRootWithPreBlockHashes(startHeight, preBlockHashes)` (uint32 arithmetic as in the code): the empty hash
when the caller is behind the ledger, otherwise the accumulator root with the not yet committed hashes appended;
`none` where the slice expression of the Go code is out of range (panic) -/
def blockRootWithPre (p : Params) (s : State) (start : Nat) (pre : List Hash) : Option Hash :=
  let last := (start + pre.length + 2 ^ 32 - 1) % 2 ^ 32
  if s.mem.currHeight > last then some zeroHash
  else
    let idx := (s.mem.currHeight + 1 + 2 ^ 32 - start % 2 ^ 32) % 2 ^ 32
    if idx > pre.length then none else some (treeRoot p (s.mem.blockTree ++ pre.drop idx))

/-- the guards of `submitBlock` before anything is written -/
def submitGuards (p : Params) (s : State) (b : Block) : Except Err Unit :=
  if b.header.height ≠ 0 ∧ b.header.prev ≠ s.mem.currHash then .error .notip
  else if b.header.height ≠ 0 ∧ treeRoot p (s.mem.blockTree ++ [b.header.prev]) ≠ b.header.blockRoot then .error .blockroot
  else .ok ()

def submitBlock (p : Params) (s : State) (b : Block) (res : ExecResult) : Except Err State :=
  match submitGuards p s b with
  | .error e => .error e
  | .ok _ =>
    let f := fillAll p s b res
    .ok { dur := persisted s.dur f 3, mem := { f.mem with currHeight := b.header.height, currHash := b.header.hash } }

/-- the durable state left behind when the process stops at crash point `k` (0..3) of `submitBlock`;
`none` when the block is refused before anything is written -/
def crashDurable (p : Params) (s : State) (b : Block) (res : ExecResult) (k : Nat) : Option Durable :=
  match submitGuards p s b with
  | .error _ => none
  | .ok _ => some (persisted s.dur (fillAll p s b res) k)

/-- bookkeeping after a block was saved: validator sets, header cache -/
def installPeers (s : State) (b : Block) (set : List Key) : State :=
  { s with mem := { s.mem with peersB := set,
                               peersH := if headerHeight s.mem = b.header.height then set else s.mem.peersH,
                               cache := cacheDel s.mem.cache b.header.hash } }

/-- `AddBlock(block, stateMerkleRoot)` (including `saveBlock`) -/
def addBlock (p : Params) (s : State) (b : Block) (root : Hash) : Except Err State :=
  if b.header.height ≤ s.mem.currHeight then .ok s
  else if b.header.height ≠ s.mem.currHeight + 1 then .error .height
  else match verifyHeader p s b.header s.mem.peersB with
    | .error e => .error e
    | .ok set =>
      let (res, sroot) := executeBlock p s b
      if sroot ≠ root then .error .stateroot
      else match submitBlock p s b res with
        | .error e => .error e
        | .ok s1 => .ok (installPeers s1 b set)

/-- `SubmitBlock(block, result)` with the result of `ExecuteBlock` on the same state -/
def submitChecked (p : Params) (s : State) (b : Block) : Except Err State :=
  if b.header.height ≤ s.mem.currHeight then .ok s
  else if b.header.height ≠ s.mem.currHeight + 1 then .error .height
  else match verifyHeader p s b.header s.mem.peersB with
    | .error e => .error e
    | .ok set =>
      match submitBlock p s b (executeBlock p s b).1 with
      | .error e => .error e
      | .ok s1 => .ok (installPeers s1 b set)

/-- `AddHeader` -/
def addHeader (p : Params) (s : State) (hd : Header) : Except Err State :=
  if hd.height ≠ headerHeight s.mem + 1 then .error .height
  else match verifyHeader p s hd s.mem.peersH with
    | .error e => .error e
    | .ok set =>
      .ok { s with mem := setIndex { s.mem with peersH := set, cache := cacheAdd s.mem.cache hd } hd.height hd.hash }

/-! ## Restart -/

/-- `NewStateStore`: the accumulators are reloaded from the state store, sizes are compared with the state
height, the hash file must be long enough and the write position is set behind the expected prefix -/
def openState (d : Durable) : Except Err (List Bytes × List Bytes × Nat) :=
  let height := match d.states.current with | some (_, h) => h | none => 0
  let bt := d.states.blockTree.getD []
  if bt.length > 0 ∧ bt.length ≠ height + 1 then .error .treesize
  else if d.fileLen < storedNum bt.length then .error .hashfile
  else
    let st := d.states.stateTree.getD []
    if st.length > 0 ∧ st.length ≠ height + 1 then .error .treesize
    else .ok (bt, st, storedNum bt.length)

/-- `loadHeaderIndexList`: stored batches, then block hashes by height up to the block height -/
def loadIndex (db : BlockDB) (currHeight : Nat) : Except Err ((Nat → Option Hash) × Nat × Nat) :=
  let stored := db.indexList.length
  let base : Nat → Option Hash := fun i => db.indexList[i]?
  (List.range' stored (currHeight + 1 - stored)).foldlM
    (fun (acc : (Nat → Option Hash) × Nat × Nat) i =>
      match db.hashAt i with
      | none => .error .other
      | some h => if h = zeroHash then .error .other else
        .ok (upd acc.1 i (some h), (if (acc.1 i).isSome then acc.2.1 else acc.2.1 + 1), acc.2.2))
    (base, stored, stored)

/-- one iteration of `recoverStore`: re-execute block `i` and persist its event and state batches -/
def recoverOne (p : Params) (acc : Durable × Mem) (i : Nat) : Except Err (Durable × Mem) :=
  let (d, m) := acc
  match d.blocks.hashAt i with
  | none => .error .other
  | some h =>
    match d.blocks.blockAt h with
    | none => .error .other
    | some b =>
      let res := p.exec d.states.kv b
      let m' := fillMem m b res
      .ok ({ d with events := d.events.commit (eventBatch p b res),
                    states := d.states.commit (stateBatch p m.stateTree m.blockTree b res),
                    fileLen := max d.fileLen m'.filePos }, m')

/-- `recoverStore` (fixed loop bounds: blocks stateHeight+1 … blockHeight) -/
def recoverStore (p : Params) (d : Durable) (m : Mem) : Except Err (Durable × Mem) :=
  match d.states.current with
  | none => .error .other
  | some (_, stateHeight) =>
    (List.range' (stateHeight + 1) (m.currHeight - stateHeight)).foldlM (recoverOne p) (d, m)

/-- validator set from the current header (`NewChainConfig` or the header at `LastConfigBlockNum`) -/
def loadPeers (d : Durable) (m : Mem) : Except Err (List Key) :=
  match (d.blocks.blockAt m.currHash).map (·.header) with
  | none => .error .other
  | some hd =>
    if !hd.payloadOk then .error .payload
    else match hd.newCfg with
    | some c => .ok (dedupKeys c)
    | none =>
      match m.headerIndex hd.lastCfg with
      | none => .error .other
      | some h =>
        match (d.blocks.blockAt h).map (·.header) with
        | none => .error .other
        | some ch =>
          if !ch.payloadOk then .error .payload
          else match ch.newCfg with
          | some c => .ok (dedupKeys c)
          | none => .error .other

def emptyMem : Mem := ⟨0, [], fun _ => none, 0, 0, [], [], [], [], [], 0⟩

/-- first start on a directory without a version key: the three stores are cleared — `StateStore.ClearAll` also
starts both accumulators and the hash-store position again from the emptied store (the file itself is not truncated) —,
the genesis block is executed and submitted, the version key is written -/
def initGenesis (p : Params) (d : Durable) (g : Block) : Except Err State :=
  let d0 : Durable := { blocks := .empty, states := .empty, events := .empty, fileLen := d.fileLen }
  let s0 : State := { dur := d0, mem := emptyMem }
  match submitBlock p s0 g (executeBlock p s0 g).1 with
  | .error e => .error e
  | .ok s1 => .ok { s1 with dur := { s1.dur with blocks := { s1.dur.blocks with version := true } } }

/-- `init()` of an initialised ledger: `loadCurrentBlock`, `loadHeaderIndexList`, `recoverStore` -/
def resume (p : Params) (d : Durable) (bt st : List Bytes) (pos : Nat) : Except Err State :=
  match d.blocks.current with
  | none => .error .other
  | some (ch, chh) =>
    match loadIndex d.blocks chh with
    | .error e => .error e
    | .ok (idx, cnt, stored) =>
      match recoverStore p d { emptyMem with currHeight := chh, currHash := ch, headerIndex := idx, headerCount := cnt,
                                             storedIndexCount := stored, blockTree := bt, stateTree := st, filePos := pos } with
      | .error e => .error e
      | .ok (d', m1) => .ok { dur := d', mem := m1 }

/-- both validator sets are taken from the current header -/
def withPeers (s : State) : Except Err State :=
  match loadPeers s.dur s.mem with
  | .error e => .error e
  | .ok set => .ok { s with mem := { s.mem with peersH := set, peersB := set } }

/-- `NewLedgerStore(dir)` + `InitLedgerStoreWithGenesisBlock(genesis)` on the durable state `d` -/
def reopen (p : Params) (g : Block) (d : Durable) : Except Err State :=
  match openState d with
  | .error e => .error e
  | .ok (bt, st, pos) =>
    match (if !d.blocks.version then initGenesis p d g
           else if (d.blocks.blockAt g.header.hash).isNone then .error .genesis
           else resume p d bt st pos) with
    | .error e => .error e
    | .ok s => withPeers s

/-- the durable state left when the process stops inside `recoverStore`, at point `r` of the first replayed block
(0 = batches filled, nothing committed; 1 = event store committed; 2 = event and state store committed);
`none` when that point is not reached (nothing to replay, or the replay fails before it) -/
def recoverCrash (p : Params) (d : Durable) (m : Mem) (r : Nat) : Option Durable :=
  match d.states.current with
  | none => none
  | some (_, stateHeight) =>
    if m.currHeight ≤ stateHeight then none
    else match d.blocks.hashAt (stateHeight + 1) with
      | none => none
      | some h =>
        match d.blocks.blockAt h with
        | none => none
        | some b =>
          let res := p.exec d.states.kv b
          let m' := fillMem m b res
          some { d with events := if r ≥ 1 then d.events.commit (eventBatch p b res) else d.events,
                        states := if r ≥ 2 then d.states.commit (stateBatch p m.stateTree m.blockTree b res) else d.states,
                        fileLen := max d.fileLen m'.filePos }

/-- a restart on `d` that stops at point `r` inside `recoverStore`; `none` when the restart does not get there -/
def reopenCrash (p : Params) (g : Block) (d : Durable) (r : Nat) : Option Durable :=
  match openState d with
  | .error _ => none
  | .ok (bt, st, pos) =>
    if !d.blocks.version then none
    else if (d.blocks.blockAt g.header.hash).isNone then none
    else match d.blocks.current with
      | none => none
      | some (ch, chh) =>
        match loadIndex d.blocks chh with
        | .error _ => none
        | .ok (idx, cnt, stored) =>
          recoverCrash p d { emptyMem with currHeight := chh, currHash := ch, headerIndex := idx, headerCount := cnt,
                                           storedIndexCount := stored, blockTree := bt, stateTree := st, filePos := pos } r

/-- a fresh directory -/
def initLedger (p : Params) (g : Block) : Except Err State := reopen p g Durable.empty

end Poly.Model.Ledger
