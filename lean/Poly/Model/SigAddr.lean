/-
Byte-level model of the signer-address derivation (C39): core/types/address.go AddressFromPubKey /
AddressFromMultiPubKeys, core/types/transaction.go EncodeMultiPubKeyProgramInto, keypair.SortPublicKeys,
common.AddressFromVmCode.

External: `ser k` = keypair.SerializePublicKey(k); `ord k` = the quadruple SortPublicKeys compares
(key type, curve label, X, Y — for Ed25519 the 32 key bytes as a number); `H` = RIPEMD160 . SHA256.
The program bytes follow ZeroCopySink: WriteUint16 little endian, WriteVarBytes = WriteVarUint(len) ++ bytes.
-/
namespace Poly.Model.SigAddr

abbrev Bytes := List UInt8

def u16 (v : Nat) : Bytes := [UInt8.ofNat (v % 256), UInt8.ofNat (v / 256 % 256)]

def leBytes : Nat → Nat → Bytes
  | 0, _ => []
  | k + 1, v => UInt8.ofNat (v % 256) :: leBytes k (v / 256)

/-- `ZeroCopySink.WriteVarUint` -/
def varUint (v : Nat) : Bytes :=
  if v < 0xFD then [UInt8.ofNat v]
  else if v ≤ 0xFFFF then 0xFD :: leBytes 2 v
  else if v ≤ 0xFFFFFFFF then 0xFE :: leBytes 4 v
  else 0xFF :: leBytes 8 v

/-- `ZeroCopySink.WriteVarBytes` -/
def varBytes (b : Bytes) : Bytes := varUint b.length ++ b

abbrev Ord := Nat × Nat × Nat × Nat

/-- `publicKeyList.Less` as a non-strict comparison of the compared quadruples (lexicographic). -/
def ordLe (a b : Ord) : Bool :=
  a.1 < b.1 || (a.1 == b.1 && (a.2.1 < b.2.1 || (a.2.1 == b.2.1 && (a.2.2.1 < b.2.2.1 || (a.2.2.1 == b.2.2.1 && a.2.2.2 ≤ b.2.2.2)))))

section
variable {K : Type} (ser : K → Bytes) (ord : K → Ord)

def insertKey (k : K) : List K → List K
  | [] => [k]
  | x :: r => if ordLe (ord k) (ord x) then k :: x :: r else x :: insertKey k r

/-- `keypair.SortPublicKeys` (sort.Sort; keys that compare equal are the same key) -/
def sortKeys : List K → List K
  | [] => []
  | k :: r => insertKey ord k (sortKeys r)

def MULTI_SIG_MAX_PUBKEY_SIZE : Nat := 16

/-- `EncodeMultiPubKeyProgramInto(sink, pubkeys, m)`; `none` = "wrong multi-sig param". -/
def encodeMulti (keys : List K) (m : Nat) : Option Bytes :=
  let n := keys.length
  if 1 ≤ m ∧ m ≤ n ∧ 1 < n ∧ n ≤ MULTI_SIG_MAX_PUBKEY_SIZE then
    some (u16 n ++ (sortKeys ord keys).flatMap (fun k => varBytes (ser k)) ++ u16 m)
  else none

def ADDRESS_EMPTY : Bytes := List.replicate 20 0

variable (H : Bytes → Bytes)

/-- `AddressFromPubKey` -/
def addressFromPubKey (k : K) : Bytes := H (ser k)

/-- `AddressFromMultiPubKeys(pubkeys, m int)`: `uint16(m)` truncates; an encoder error is swallowed and the empty
    address is returned with a nil error. -/
def addressFromMultiPubKeys (keys : List K) (m : Nat) : Bytes :=
  match encodeMulti ser ord keys (m % 65536) with
  | some p => H p
  | none => ADDRESS_EMPTY

/-- `AddressFromBookkeepers` -/
def addressFromBookkeepers (keys : List K) : Bytes :=
  match keys with
  | [k] => addressFromPubKey ser H k
  | _ => addressFromMultiPubKeys ser ord H keys (keys.length - (keys.length - 1) / 3)

end
end Poly.Model.SigAddr
