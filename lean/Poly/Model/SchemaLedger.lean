import Poly.Model.Schema
import Poly.Model.BtcMerkle
/-!
# Ledger objects (C02): Transaction, Header, Block on top of the schema DSL

Schemas mirror `core/types/transaction.go`, `header.go`, `block.go`, `core/payload/invoke_code.go`; the decoders follow the
Go control flow: the hash of a transaction is `H (H rawUnsigned)` over exactly the bytes consumed by the unsigned part,
`MAX_TX_SIZE` is checked on the raw input (`TransactionFromRawBytes`) and on the consumed length, the signature count is
bounded by `TX_MAX_SIG_SIZE` before `make([]Sig, n)`; a block keeps a mask of transaction hashes and compares the
header's `TransactionsRoot` with the Merkle root (`Poly.Model.BtcMerkle.btcRoot`, C03) of the decoded transactions.
`H` (SHA-256) and `K` (public-key validation) are parameters.
-/
namespace Poly.Model.SchemaLedger
open Poly.Model.Codec Poly.Model.Schema

def MAX_TX_SIZE : Nat := 1024 * 1024
def TX_MAX_SIG_SIZE : Nat := 16

abbrev lf (l : Leaf) : Ty := .leaf l .none
infixr:35 " ⊗ " => Ty.pair

/-- `Transaction.DeserializationUnsigned` / `SerializeUnsigned`:
version (≤ CURR_TX_VERSION = 0), type (= Invoke 0xd1), nonce, chainID, gasLimit, gasPrice, InvokeCode.Code,
attributes (length ≤ MAX_ATTRIBUTES_LEN = 0), payer, coin type (= ONG 0). -/
def txUnsignedTy : Ty :=
  .leaf .u8 (.le 0) ⊗ .leaf .u8 (.eq 0xd1) ⊗ lf .u32 ⊗ lf .u64 ⊗ lf .u64 ⊗ lf .u64 ⊗ lf .varbytes ⊗
  .leaf .varbytes (.le 0) ⊗ lf (.fixed 20) ⊗ .leaf .u8 (.eq 0)

/-- `Sig`: `make([][]byte, l)` / `make([]keypair.PublicKey, l)` with `l : uint16`, then `M`. -/
def sigTy : Ty :=
  .list { cnt := .u16, alloc := .prealloc 24 } (lf .varbytes) ⊗
  .list { cnt := .u16, alloc := .prealloc 16 } (lf .key) ⊗ lf .u16

/-- signature list: var-uint count bounded by `TX_MAX_SIG_SIZE`, `make([]Sig, l)`, `for i := 0; i < int(l); i++` -/
def sigsTy : Ty := .list { cnt := .varuint, bound := some TX_MAX_SIG_SIZE, alloc := .prealloc 56, signedLoop := true } sigTy

def txTy : Ty := txUnsignedTy ⊗ sigsTy

/-- `Header.serializationUnsigned` -/
def headerUnsignedTy : Ty :=
  .leaf .u32 (.le 0) ⊗ lf .u64 ⊗ lf (.fixed 32) ⊗ lf (.fixed 32) ⊗ lf (.fixed 32) ⊗ lf (.fixed 32) ⊗
  lf .u32 ⊗ lf .u32 ⊗ lf .u64 ⊗ lf .varbytes ⊗ lf (.fixed 20)

def bookkeepersTy : Ty := .list { cnt := .varuint, signedLoop := true } (lf .key)
def sigDataTy : Ty := .list { cnt := .varuint, signedLoop := true } (lf .varbytes)
def headerTy : Ty := headerUnsignedTy ⊗ bookkeepersTy ⊗ sigDataTy

/-- `TxAttribute` (streaming codec): usage byte restricted to Nonce / Script / DescriptionUrl / Description, then data -/
def txAttributeTy : Ty := .leaf .u8 (.oneOf [0x00, 0x20, 0x81, 0x90]) ⊗ lf .varbytes

/-- the `TransactionsRoot` field of a header value -/
def headerTxRoot (h : headerTy.Val) : Bytes := h.1.2.2.2.1

structure TxRes where
  val : txTy.Val
  hash : Bytes
  raw : Bytes
  rest : Bytes

/-- `Transaction.Deserialization` on the unread remainder `bs` -/
def txDec (K : Bytes → Option Bytes) (H : Bytes → Bytes) (bs : Bytes) : Except Err TxRes :=
  match txUnsignedTy.dec K bs with
  | .error e => .error e
  | .ok (u, r1) =>
    match sigsTy.dec K r1 with
    | .error e => .error e
    | .ok (sigs, r2) =>
      let lenAll := bs.length - r2.length
      if lenAll > MAX_TX_SIZE then .error .reject
      else
        let rawUnsigned := bs.take (bs.length - r1.length)   -- the bytes the unsigned part consumed
        .ok { val := (u, sigs), hash := H (H rawUnsigned), raw := bs.take lenAll, rest := r2 }

/-- `TransactionFromRawBytes` -/
def txFromRawBytes (K : Bytes → Option Bytes) (H : Bytes → Bytes) (raw : Bytes) : Except Err TxRes :=
  if raw.length > MAX_TX_SIZE then .error .reject else txDec K H raw

/-- `Header.Hash`: double hash of the re-serialized unsigned part -/
def headerHash (H : Bytes → Bytes) (h : headerTy.Val) : Bytes := H (H (headerUnsignedTy.enc h.1))

structure BlockVal where
  header : headerTy.Val
  txs : List TxRes

/-- the transaction loop of `Block.Deserialization`: `n` transactions from the shared source, refusing a repeated hash -/
def blockTxs (K : Bytes → Option Bytes) (H : Bytes → Bytes) : Nat → Bytes → List TxRes → Except Err (List TxRes × Bytes)
  | 0, bs, acc => .ok (acc.reverse, bs)
  | n + 1, bs, acc =>
    match txDec K H bs with
    | .error e => .error e
    | .ok t =>
      if acc.any (fun t' => t'.hash == t.hash) then .error .reject
      else blockTxs K H n t.rest (t :: acc)

/-- `Block.Deserialization` -/
def blockDec (K : Bytes → Option Bytes) (H : Bytes → Bytes) (bs : Bytes) : Except Err (BlockVal × Bytes) :=
  match headerTy.dec K bs with
  | .error e => .error e
  | .ok (h, r) =>
    match decCnt .u32 r with
    | .error e => .error e
    | .ok (n, r1) =>
      match blockTxs K H n r1 [] with
      | .error e => .error e
      | .ok (txs, r2) =>
        if headerTxRoot h != BtcMerkle.btcRoot H (txs.map (·.hash)) then .error .reject
        else .ok ({ header := h, txs := txs }, r2)

/-- `Block.Serialization` -/
def blockEnc (h : headerTy.Val) (txs : List txTy.Val) : Bytes :=
  headerTy.enc h ++ encCnt .u32 txs.length ++ (txs.map txTy.enc).flatten

end Poly.Model.SchemaLedger
