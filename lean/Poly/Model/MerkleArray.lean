import Poly.Model.Merkle
/-
Array-backed hash store for the compiled driver: same observable behaviour as the list-backed `HashStore`
of `Poly.Model.Merkle` (`Poly/Proofs/MerkleArray.lean` proves `reader` and `put` equal to `getHash1` and
`HashStore.put` through `toStore`), with O(1) reads and amortised O(1) appends.
-/
namespace Poly.Model.MerkleArray
open Poly.Spec.RFC6962 Poly.Model.Merkle

/-- `arr[0:wpos]` are the hashes written for the current tree, `arr[wpos:]` the stale file content after the
write position. -/
structure AStore where
  isFile : Bool
  arr : Array Hash
  wpos : Nat

def AStore.toStore (a : AStore) : HashStore := ⟨a.isFile, a.arr.toList.take a.wpos, a.arr.toList.drop a.wpos⟩

def AStore.reader (a : AStore) : Reader := fun pos1 =>
  if pos1 = 0 then (if a.isFile then .ok zeroHash else .error .panic)
  else match a.arr[pos1 - 1]? with
    | some h => .ok h
    | none => if a.isFile then .ok zeroHash else .error .panic

/-- Write one hash at the write position (overwrite a stale entry or extend). -/
def AStore.put1 (a : AStore) (h : Hash) : AStore :=
  if a.wpos < a.arr.size then { a with arr := a.arr.setIfInBounds a.wpos h, wpos := a.wpos + 1 }
  else { a with arr := a.arr.push h, wpos := a.wpos + 1 }

def AStore.put (a : AStore) (new : List Hash) : AStore := new.foldl AStore.put1 a

def AStore.ofStore (st : HashStore) : AStore := ⟨st.isFile, (st.hashes ++ st.tail).toArray, st.hashes.length⟩

/-- `reopenFile` on the array. -/
def AStore.reopen (a : AStore) (keep : Option Nat) (treeSize : Nat) : Option AStore :=
  let arr := match keep with
    | none => a.arr
    | some k => a.arr.extract 0 k
  if arr.size < storedHashNum treeSize then none else some ⟨true, arr, storedHashNum treeSize⟩

end Poly.Model.MerkleArray
