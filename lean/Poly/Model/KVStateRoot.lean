import Poly.Model.KVLayers
import Poly.Model.Merkle
/-
Model of the state-root bookkeeping around a block (core/store/ledgerstore): `executeBlock` reports
`MerkleRoot = StateStore.GetStateMerkleRootWithNewHash(digest)` (= `deltaMerkleTree.GetRootWithNewLeaf`), and
`saveBlockToStateStore` calls `AddStateMerkleTreeRoot(height, digest)`, which appends the digest to the compact
tree `deltaMerkleTree` and records the new `Root()` for the height.  The compact tree is b-merkle's
`Poly.Model.Merkle.CompactTree` (imported unchanged); `H` is the hash function of both the digest and the tree.
Heights below `stateHashCheckHeight` (0 in `NewStateStore`) are not modelled.
-/
namespace Poly.Model.KV
open Poly.Model.Merkle

/-- `GetStateMerkleRootWithNewHash(writeSetHash)`. -/
def predictedStateRoot (H : List UInt8 → List UInt8) (t : CompactTree) (digest : List UInt8) : Except Err Poly.Spec.RFC6962.Hash :=
  getRootWithNewLeaf H t digest

/-- `AddStateMerkleTreeRoot`: `deltaMerkleTree.Append(digest)`, then `Root()` is what gets recorded (with the digest)
under the height's key; the new tree (size + frontier) is what gets recorded under the tree key. -/
def addStateRoot (H : List UInt8 → List UInt8) (t : CompactTree) (digest : List UInt8) : Except Err (CompactTree × Poly.Spec.RFC6962.Hash) :=
  match appendLeaf H t digest with
  | .error e => .error e
  | .ok (t', _, _) =>
    match root H t' with
    | .error e => .error e
    | .ok r => .ok (t', r)

/-- The digest `executeBlock` computes for a block's transactions. -/
def blockDigest (H : List UInt8 → List UInt8) (txs : List Tx) : List UInt8 := changeHash H (runBlock {} txs).mem.ents

end Poly.Model.KV
