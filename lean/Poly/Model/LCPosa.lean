/-!
# PoSA light clients (bsc, bytom, heco, hsc, pixiechain): header acceptance and fork choice

Model of `native/service/header_sync/{bsc,bytom,heco,hsc,pixiechain}/header_sync.go` (one algorithm, five copies
that differ in a handful of lines; the differences are the fields of `Router`).

* block hashes are abstract identifiers `Id` (Keccak of the RLP header is external);
* `ecrecover` of the seal over the router's seal hash is the header field `signer` (`none`: recovery fails);
* extra data are bytes: 32 bytes vanity, n × 20 bytes validator addresses, 65 bytes seal;
* the stores `HEADER_INDEX` (hash ↦ header, total difficulty, epoch parent hash), `MAIN_CHAIN` (height ↦ hash),
  `CURRENT_HEADER_HEIGHT` and `GENESIS_HEADER` are the fields of `St`; the two maps are functions;
* numbers are `Nat` (block numbers, gas and times are assumed to stay below 2^63; the wall-clock test
  `header.Time > time.Now()` is not modelled, see C16);
* Go loops without bound (`for {}`) take a fuel argument; running out of fuel is the outcome `fuel`.
-/
namespace Poly.Model.LCPosa

abbrev Id := Nat
abbrev Addr := List UInt8

/-- What differs between the five copies of the algorithm. -/
structure Router where
  /-- bsc, bytom: after an epoch header the previous set stays in effect for ⌊|previous set|/2⌋ blocks
  (`pphv`), and no header in that window may carry validators; the others use the latest set at once -/
  delayed : Bool
  /-- heco, hsc: a header carrying validators is refused within ⌊|latest set|/2⌋ blocks of the latest epoch header -/
  guardPhv : Bool
  /-- heco, hsc, pixie: `parent.Time + Period > header.Time` is refused -/
  period : Option Nat
  /-- bsc, bytom test `GasLimit > 2^63-1` after the parent lookup, the others before it -/
  capLate : Bool
  /-- gas limit must stay within `parent/divisor` of the parent's and be at least 5000 (bsc, bytom: 256; heco, pixie: 1024; hsc: no test) -/
  gasDivisor : Option Nat
  /-- pixie: a header with a base fee is refused -/
  baseFeeNil : Bool

def Router.bsc : Router := ⟨true, false, none, true, some 256, false⟩
def Router.heco (period : Nat) : Router := ⟨false, true, some period, false, some 1024, false⟩
def Router.hsc (period : Nat) : Router := ⟨false, true, some period, false, none, false⟩
def Router.pixie (period : Nat) : Router := ⟨false, false, some period, false, some 1024, true⟩

/-- the 8-byte nonce as far as the clique-style router reads it: 00..00 (drop vote), ff..ff (authorize vote), anything else -/
inductive Nonce where
  | drop | auth | other
  deriving DecidableEq, Repr

structure Hdr where
  id : Id
  parent : Id
  number : Nat
  coinbase : Addr
  /-- `ecrecover(SealHash(header), seal)` -/
  signer : Option Addr
  difficulty : Nat
  extra : List UInt8
  time : Nat
  gasLimit : Nat
  gasUsed : Nat
  mixZero : Bool
  uncleOk : Bool
  baseFee : Option Nat
  /-- read by the msc router only -/
  nonce : Nonce := .drop

def extraVanity : Nat := 32
def extraSeal : Nat := 65
def addrLen : Nat := 20
def diffInTurn : Nat := 2
def diffNoTurn : Nat := 1
def gasCap : Nat := 0x7fffffffffffffff
def minGasLimit : Nat := 5000

/-- `ParseValidators` on bytes whose length is a multiple of 20 -/
def chunks20 : Nat → List UInt8 → List Addr
  | 0, _ => []
  | n + 1, bs => bs.take addrLen :: chunks20 n (bs.drop addrLen)

def parseValidators (bs : List UInt8) : Option (List Addr) :=
  if bs.length % addrLen != 0 then none else some (chunks20 (bs.length / addrLen) bs)

/-- `Extra[extraVanity : len(Extra)-extraSeal]` -/
def Hdr.valBytes (h : Hdr) : List UInt8 := (h.extra.take (h.extra.length - extraSeal)).drop extraVanity

/-- the header announces a validator set (`len(Extra) > extraVanity+extraSeal`) -/
def Hdr.isEpoch (h : Hdr) : Bool := decide (h.extra.length > extraVanity + extraSeal)

structure HV where
  height : Nat
  vals : List Addr
  hash : Option Id

structure Stored where
  hdr : Hdr
  td : Nat
  epochParent : Option Id

structure Genesis where
  hdr : Hdr
  pv0 : HV
  pv1 : HV

structure St where
  genesis : Option Genesis
  hdrs : Id → Option Stored
  canon : Nat → Option Id
  height : Nat

def St.empty : St := ⟨none, fun _ => none, fun _ => none, 0⟩

def upd {α : Type} (f : Nat → Option α) (k : Nat) (v : Option α) : Nat → Option α :=
  fun x => if x = k then v else f x

inductive Rej where
  | vanity | sealmissing | signerlist | mix | uncle | difficulty | ancestor | gascap | gasused | gaslimit
  | time | basefee | block0 | seal | epoch | recent | turn | signer
  | nogenesis | getHeader | parse | fuel | nocanon
  | genesisStored | prevValidators | heightOrder | genesisSigners
  -- msc
  | cpBeneficiary | nonce | cpNonce | extraSigners | cpSignerlist | cpMismatch | extraInfo | genesisHeight
  -- bor
  | toosoon
  deriving DecidableEq, Repr

inductive Out where
  | ok | skipDup | skipNoParent | reject (r : Rej) | panic
  deriving DecidableEq, Repr

/-! ## SyncGenesisHeader -/

def syncGenesis (st : St) (g : Hdr) (pvs : List HV) : St × Out :=
  if st.genesis.isSome then (st, .reject .genesisStored)
  else
    -- signersBytes := len(Extra) - 32 - 65 (a Go int, possibly negative; `%` truncates)
    let len := g.extra.length
    if len = extraVanity + extraSeal then (st, .reject .genesisSigners)
    else if len > extraVanity + extraSeal ∧ (len - (extraVanity + extraSeal)) % addrLen != 0 then (st, .reject .genesisSigners)
    else if len < extraVanity + extraSeal ∧ ((extraVanity + extraSeal) - len) % addrLen != 0 then (st, .reject .genesisSigners)
    else match pvs with
      | [pv] =>
        if g.number ≤ pv.height then (st, .reject .heightOrder)
        else if len < extraVanity + extraSeal then (st, .panic)   -- Extra[32 : 32+signersBytes] with negative signersBytes
        else match parseValidators g.valBytes with
          | none => (st, .reject .parse)
          | some vals =>
            let gen : Genesis := ⟨g, ⟨g.number, vals, none⟩, pv⟩
            ({ genesis := some gen
               hdrs := upd st.hdrs g.id (some ⟨g, g.difficulty, none⟩)
               canon := upd st.canon g.number (some g.id)
               height := g.number }, .ok)
      | _ => (st, .reject .prevValidators)

/-! ## verifyHeader / verifyCascadingFields / verifySeal -/

def gasBoundBad (divisor parentLimit limit : Nat) : Bool :=
  let diff := if parentLimit ≥ limit then parentLimit - limit else limit - parentLimit
  decide (diff ≥ parentLimit / divisor) || decide (limit < minGasLimit)

/-- `parent.Time + Period > header.Time` (heco, hsc, pixie) -/
def periodBad (R : Router) (p : Stored) (h : Hdr) : Bool :=
  match R.period with
  | some per => decide (p.hdr.time + per > h.time)
  | none => false

def gasLimitBad (R : Router) (p : Stored) (h : Hdr) : Bool :=
  match R.gasDivisor with
  | some d => gasBoundBad d p.hdr.gasLimit h.gasLimit
  | none => false

/-- Returns the recovered signer. `p` is the stored parent. -/
def verifyHeader (R : Router) (p : Stored) (h : Hdr) : Except Rej Addr :=
  if h.extra.length < extraVanity then .error .vanity
  else if h.extra.length < extraVanity + extraSeal then .error .sealmissing
  else if (h.extra.length - extraVanity - extraSeal) % addrLen != 0 then .error .signerlist
  else if !h.mixZero then .error .mix
  else if !h.uncleOk then .error .uncle
  else if h.difficulty != diffInTurn && h.difficulty != diffNoTurn then .error .difficulty
  else if !R.capLate && h.gasLimit > gasCap then .error .gascap
  -- verifyCascadingFields
  else if p.hdr.number + 1 != h.number then .error .ancestor
  else if R.capLate && h.gasLimit > gasCap then .error .gascap
  else if periodBad R p h then .error .time
  else if h.gasUsed > h.gasLimit then .error .gasused
  else if R.baseFeeNil && h.baseFee.isSome then .error .basefee
  else if gasLimitBad R p h then .error .gaslimit
  -- verifySeal
  else if h.number = 0 then .error .block0
  else match h.signer with
    | none => .error .seal
    | some s => if s != h.coinbase then .error .seal else .ok s

/-! ## getPrevHeightAndValidators -/

/-- The deferred look-back loop: `n` iterations starting at hash `next`; errors are swallowed. -/
def lookBack (hdrs : Id → Option Stored) (gid : Id) (target : Addr) : Nat → Id → Option Nat
  | 0, _ => none
  | n + 1, next =>
    match hdrs next with
    | none => none
    | some s =>
      if s.hdr.coinbase == target then some s.hdr.number
      else if next = gid then none
      else lookBack hdrs gid target n s.hdr.parent

def hvOf (s : Stored) (vals : List Addr) (withHash : Bool) : HV :=
  ⟨s.hdr.number, vals, if withHash then some s.hdr.id else none⟩

/-- `Extra[32 : len-65]` cut into 20-byte addresses -/
def Hdr.vals (h : Hdr) : List Addr := chunks20 (h.valBytes.length / addrLen) h.valBytes

/-- First half of one iteration of the `for {}` loop in `getPrevHeightAndValidators`: if the header under the cursor
announces validators it becomes `phv` (left: continue) or, when `phv` is already known, `pphv` (right: return). -/
def announce (cur : Stored) (phv : Option HV) : Except Rej (Option HV ⊕ (HV × HV)) :=
  if cur.hdr.isEpoch then
    match parseValidators cur.hdr.valBytes with
    | none => .error .parse
    | some vals =>
      match phv with
      | none => .ok (.inl (some (hvOf cur vals true)))
      | some p => .ok (.inr (p, hvOf cur vals false))
  else .ok (.inl phv)

/-- `EpochParentHash` if recorded, else the parent hash -/
def walkNext (cur : Stored) : Id :=
  match cur.epochParent with
  | some e => e
  | none => cur.hdr.parent

/-- The `for {}` loop that finds the last two epoch headers; `phv` is the first one once it is found. -/
def walk (hdrs : Id → Option Stored) (g : Genesis) : Nat → Stored → Option HV → Except Rej (HV × HV)
  | 0, _, _ => .error .fuel
  | fuel + 1, cur, phv =>
    match announce cur phv with
    | .error e => .error e
    | .ok (.inr r) => .ok r
    | .ok (.inl phv') =>
      if walkNext cur = g.hdr.id then
        match phv' with
        | none => .ok ({ g.pv0 with hash := some g.hdr.id }, g.pv1)
        | some p => .ok (p, g.pv0)
      else match hdrs (walkNext cur) with
        | none => .error .getHeader
        | some s => walk hdrs g fuel s phv'

def walkFuel : Nat := 8

/-- `(phv, pphv, lastSeenHeight)`; `p` is the stored parent of `h`. -/
def prevHV (st : St) (g : Genesis) (p : Stored) (h : Hdr) : Except Rej (HV × HV × Option Nat) :=
  if h.parent = g.hdr.id then
    .ok ({ g.pv0 with hash := some g.hdr.id }, g.pv1,
         if g.hdr.coinbase == h.coinbase then some g.hdr.number else none)
  else
    match walk st.hdrs g walkFuel p none with
    | .error e => .error e
    | .ok (phv, pphv) =>
      if p.hdr.coinbase == h.coinbase then .ok (phv, pphv, some p.hdr.number)
      else
        let maxLimit := (max phv.vals.length pphv.vals.length) / 2
        .ok (phv, pphv, lookBack st.hdrs g.hdr.id h.coinbase (maxLimit - 1) p.hdr.parent)

/-! ## addHeader -/

/-- "Delete any canonical number assignments above the new head": the loop `for i := number+1; ; i++` stops at the
first height without an assignment; `firstGap` is that height (at most `fuel` iterations). -/
def firstGap (canon : Nat → Option Id) : Nat → Nat → Nat
  | 0, i => i
  | fuel + 1, i =>
    match canon i with
    | none => i
    | some _ => firstGap canon fuel (i + 1)

/-- the assignments at heights `lo ≤ x < hi` deleted -/
def delRange (canon : Nat → Option Id) (lo hi : Nat) : Nat → Option Id :=
  fun x => if lo ≤ x ∧ x < hi then none else canon x

/-- "Overwrite any stale canonical number assignments" -/
def rewrite (hdrs : Id → Option Stored) : Nat → (Nat → Option Id) → Nat → Id → Except Rej (Nat → Option Id)
  | 0, _, _, _ => .error .fuel
  | fuel + 1, canon, ch, hh =>
    if canon ch = some hh then .ok canon
    else match hdrs hh with
      | none => .error .getHeader
      | some s => rewrite hdrs fuel (upd canon ch (some hh)) (ch - 1) s.hdr.parent

def addHeader (st : St) (h : Hdr) (p : Stored) (phv : HV) : Except Rej St :=
  match st.canon st.height with
  | none => .error .nocanon
  | some cid =>
    match st.hdrs cid with
    | none => .error .getHeader
    | some ch =>
      let td := h.difficulty + p.td
      let hdrs' := upd st.hdrs h.id (some ⟨h, td, phv.hash⟩)
      if td > ch.td then
        let canon1 := delRange st.canon (h.number + 1) (firstGap st.canon (st.height - h.number + 1) (h.number + 1))
        match rewrite hdrs' (h.number + 1) canon1 (h.number - 1) h.parent with
        | .error e => .error e
        | .ok canon2 =>
          .ok { st with hdrs := hdrs', canon := upd canon2 h.number (some h.id), height := h.number }
      else .ok { st with hdrs := hdrs' }

/-! ## SyncBlockHeader, one header -/

/-- The validator set in effect and the "can not change epoch continuously" test. -/
def inTurnSet (R : Router) (h : Hdr) (phv pphv : HV) : Except Rej HV :=
  if R.delayed then
    if h.number - phv.height ≤ pphv.vals.length / 2 then
      if h.isEpoch then .error .epoch else .ok pphv
    else .ok phv
  else if R.guardPhv && h.isEpoch && decide (h.number - phv.height ≤ phv.vals.length / 2) then .error .epoch
  else .ok phv

/-- The loop over the validators: membership and the in-turn / no-turn difficulty. -/
def checkTurn (h : Hdr) (signer : Addr) (indexInTurn : Nat) : List Addr → Nat → Bool → Except Rej Bool
  | [], _, valid => .ok valid
  | v :: vs, idx, valid =>
    if v == signer then
      if indexInTurn = idx then
        if h.difficulty != diffInTurn then .error .turn else checkTurn h signer indexInTurn vs (idx + 1) true
      else
        if h.difficulty != diffNoTurn then .error .turn else checkTurn h signer indexInTurn vs (idx + 1) true
    else checkTurn h signer indexInTurn vs (idx + 1) valid

/-- `lastSeenHeight > 0 && number <= lastSeenHeight + limit` (`none` stands for the initial -1) -/
def recentBad (lastSeen : Option Nat) (number limit : Nat) : Bool :=
  match lastSeen with
  | some l => decide (l > 0) && decide (number ≤ l + limit)
  | none => false

def syncHeader (R : Router) (st : St) (h : Hdr) : St × Out :=
  if (st.hdrs h.id).isSome then (st, .skipDup)
  else match st.hdrs h.parent with
    | none => (st, .skipNoParent)
    | some p =>
      match verifyHeader R p h with
      | .error e => (st, .reject e)
      | .ok signer =>
        match st.genesis with
        | none => (st, .reject .nogenesis)
        | some g =>
          match prevHV st g p h with
          | .error e => (st, .reject e)
          | .ok (phv, pphv, lastSeen) =>
            match inTurnSet R h phv pphv with
            | .error e => (st, .reject e)
            | .ok inTurn =>
              if recentBad lastSeen h.number (inTurn.vals.length / 2) then (st, .reject .recent)
              else if inTurn.vals.length = 0 then (st, .panic)   -- integer divide by zero
              else
                match checkTurn h signer (h.number % inTurn.vals.length) inTurn.vals 0 false with
                | .error e => (st, .reject e)
                | .ok false => (st, .reject .signer)
                | .ok true =>
                  match addHeader st h p phv with
                  | .error e => (st, .reject e)
                  | .ok st' => (st', .ok)

/-! ## Histories -/

inductive Op where
  | genesis (g : Hdr) (pvs : List HV)
  | hdr (h : Hdr)

def apply (R : Router) (st : St) : Op → St × Out
  | .genesis g pvs => syncGenesis st g pvs
  | .hdr h => syncHeader R st h

def run (R : Router) (st : St) : List Op → St
  | [] => st
  | o :: os => run R (apply R st o).1 os

/-! ## msc: clique-style router (`native/service/header_sync/msc/{header_sync,snapshot}.go`)

A different algorithm over the same stores: the signer set is the list of the last checkpoint header (number divisible by
`Epoch`) modified by majority votes (coinbase = target, nonce = authorize / drop) of the headers since; the code walks back
over `LastVoteParentOrEpoch` links (stored in the field `epochParent` here), which skip headers that carry no vote. -/
namespace Msc

structure Cfg where
  epoch : Nat
  period : Nat

structure Vote where
  signer : Addr
  block : Nat
  address : Addr
  authorize : Bool

structure Snap where
  /-- ascending (bytes.Compare), no duplicates: what `signers()` returns for the Go map -/
  signers : List Addr
  votes : List Vote
  tally : List (Addr × Bool × Nat)

def zeroAddr : Addr := List.replicate 20 0

/-- `bytes.Compare(a, b) < 0` -/
def addrLt : List UInt8 → List UInt8 → Bool
  | [], [] => false
  | [], _ :: _ => true
  | _ :: _, [] => false
  | x :: xs, y :: ys => if x < y then true else if y < x then false else addrLt xs ys

def insertSigner (a : Addr) : List Addr → List Addr
  | [] => [a]
  | b :: bs => if a == b then b :: bs else if addrLt a b then a :: b :: bs else b :: insertSigner a bs

def tallyOf (t : List (Addr × Bool × Nat)) (a : Addr) : Option (Bool × Nat) :=
  (t.find? (fun e => e.1 == a)).map (·.2)

def tallySet (t : List (Addr × Bool × Nat)) (a : Addr) (v : Option (Bool × Nat)) : List (Addr × Bool × Nat) :=
  let t' := t.filter (fun e => !(e.1 == a))
  match v with
  | some x => (a, x) :: t'
  | none => t'

/-- `cast`: returns the new tally and whether the vote counts -/
def cast (s : Snap) (address : Addr) (authorize : Bool) : Snap × Bool :=
  let isSigner := s.signers.contains address
  if !((isSigner && !authorize) || (!isSigner && authorize)) then (s, false)
  else match tallyOf s.tally address with
    | some (au, n) => ({ s with tally := tallySet s.tally address (some (au, n + 1)) }, true)
    | none => ({ s with tally := tallySet s.tally address (some (authorize, 1)) }, true)

def uncast (s : Snap) (address : Addr) (authorize : Bool) : Snap :=
  match tallyOf s.tally address with
  | none => s
  | some (au, n) =>
    if au != authorize then s
    else if n > 1 then { s with tally := tallySet s.tally address (some (au, n - 1)) }
    else { s with tally := tallySet s.tally address none }

/-- remove the first vote of `signer` on `address`, uncasting it -/
def dropFirstVote (s : Snap) (signer address : Addr) : Snap :=
  match s.votes.find? (fun v => v.signer == signer && v.address == address) with
  | none => s
  | some v =>
    let s1 := uncast s v.address v.authorize
    { s1 with votes := s1.votes.eraseP (fun v => v.signer == signer && v.address == address) }

/-- uncast and remove every vote cast by `who` -/
def dropVotesBy (s : Snap) (who : Addr) : Snap :=
  let mine := s.votes.filter (fun v => v.signer == who)
  let s1 := mine.foldl (fun acc v => uncast acc v.address v.authorize) s
  { s1 with votes := s1.votes.filter (fun v => !(v.signer == who)) }

/-- one iteration of `Snapshot.apply`; returns the snapshot and whether the header was signed by `target` -/
def applyOne (s : Snap) (h : Hdr) : Except Rej Snap :=
  match h.signer with
  | none => .error .seal
  | some signer =>
    if !s.signers.contains signer then .error .signer
    else
      let s1 := dropFirstVote s signer h.coinbase
      match (match h.nonce with | .auth => some true | .drop => some false | .other => none) with
      | none => .error .nonce
      | some authorize =>
        let (s2, counted) := cast s1 h.coinbase authorize
        let s3 := if counted then { s2 with votes := s2.votes ++ [⟨signer, h.number, h.coinbase, authorize⟩] } else s2
        match tallyOf s3.tally h.coinbase with
        | some (au, n) =>
          if n > s3.signers.length / 2 then
            let s4 :=
              if au then { s3 with signers := insertSigner h.coinbase s3.signers }
              else dropVotesBy { s3 with signers := s3.signers.filter (fun a => !(a == h.coinbase)) } h.coinbase
            .ok { s4 with votes := s4.votes.filter (fun v => !(v.address == h.coinbase)),
                          tally := tallySet s4.tally h.coinbase none }
          else .ok s3
        | none => .ok s3

/-- `apply`: headers oldest first; `lastSeen` is updated before the authorization test, as in the code -/
def applyAll (target : Addr) : Snap → Option Nat → List Hdr → Except Rej (Snap × Option Nat)
  | s, ls, [] => .ok (s, ls)
  | s, ls, h :: hs =>
    let ls' := if h.signer == some target then some h.number else ls
    match applyOne s h with
    | .error e => .error e
    | .ok s' => applyAll target s' ls' hs

/-- the walk back over `LastVoteParentOrEpoch` links collecting the vote headers (newest first) down to the checkpoint -/
def collect (hdrs : Id → Option Stored) : Nat → Id → List Hdr → Except Rej (Stored × List Hdr)
  | 0, _, _ => .error .fuel
  | fuel + 1, hash, acc =>
    match hdrs hash with
    | none => .error .getHeader
    | some s =>
      match s.epochParent with
      | none => .ok (s, acc)
      | some next => collect hdrs fuel next (if s.hdr.coinbase != zeroAddr then acc ++ [s.hdr] else acc)

/-- the search over the most recent headers -/
def recentSearch (hdrs : Id → Option Stored) (gnum : Nat) (target : Addr) :
    Nat → Nat → Id → Option Nat → Except Rej (Option Nat)
  | 0, _, _, ls => .ok ls
  | n + 1, number, hash, ls =>
    match hdrs hash with
    | none => .error .getHeader
    | some s =>
      if s.hdr.number != number then .error .fuel
      else match s.hdr.signer with
        | none => .error .seal
        | some signer =>
          if signer == target then .ok (some s.hdr.number)
          else if number ≤ gnum then .ok ls
          else recentSearch hdrs gnum target n (number - 1) s.hdr.parent ls

inductive SnapOut where
  | ok (s : Snap) (lastSeen : Option Nat)
  | err (e : Rej)
  | panic

/-- second half of `snapshot`: apply the collected vote headers (oldest first), then search the most recent headers -/
def snapshotTail (st : St) (g : Genesis) (number : Nat) (hash : Id) (target : Addr) (snap0 : Snap) (ls0 : Option Nat)
    (hs : List Hdr) : SnapOut :=
  match applyAll target snap0 ls0 hs with
  | .error e => .err e
  | .ok (snap, ls1) =>
    match recentSearch st.hdrs g.hdr.number target (snap.signers.length / 2) number hash ls1 with
    | .error e => .err e
    | .ok ls2 => .ok snap ls2

/-- `snapshot(number, hash, targetSigner)`; `lastSeen = none` stands for the initial 0 -/
def snapshot (st : St) (g : Genesis) (number : Nat) (hash : Id) (target : Addr) : SnapOut :=
  if number < g.hdr.number then .err .ancestor
  else match collect st.hdrs (number + 2) hash [] with
    | .error e => .err e
    | .ok (cp, newestFirst) =>
      if cp.hdr.extra.length < extraVanity + extraSeal then .panic   -- make([]Address, negative)
      else match cp.hdr.signer with
        | none => .err .seal
        | some cpSigner =>
          snapshotTail st g number hash target ⟨cp.hdr.vals.foldl (fun acc a => insertSigner a acc) [], [], []⟩
            (if cpSigner == target then some cp.hdr.number else none) newestFirst.reverse

def indexOf (a : Addr) : List Addr → Nat
  | [] => 0
  | b :: bs => if b == a then 0 else indexOf a bs + 1

/-- `lastSeenHeight > 0 && number < lastSeenHeight + limit` -/
def recentBad (lastSeen : Option Nat) (number limit : Nat) : Bool :=
  match lastSeen with
  | some l => decide (l > 0) && decide (number < l + limit)
  | none => false

def verifyHeader (C : Cfg) (st : St) (g : Genesis) (p : Stored) (h : Hdr) : Except Rej Snap ⊕ Unit :=
  let checkpoint := h.number % C.epoch == 0
  if checkpoint && h.coinbase != zeroAddr then .inl (.error .cpBeneficiary)
  else if h.nonce == .other then .inl (.error .nonce)
  else if checkpoint && h.nonce != .drop then .inl (.error .cpNonce)
  else if h.extra.length < extraVanity then .inl (.error .vanity)
  else if h.extra.length < extraVanity + extraSeal then .inl (.error .sealmissing)
  else if !checkpoint && h.extra.length != extraVanity + extraSeal then .inl (.error .extraSigners)
  else if checkpoint && (h.extra.length == extraVanity + extraSeal || (h.extra.length - extraVanity - extraSeal) % addrLen != 0) then
    .inl (.error .cpSignerlist)
  else if !h.mixZero then .inl (.error .mix)
  else if !h.uncleOk then .inl (.error .uncle)
  else if h.difficulty != diffInTurn && h.difficulty != diffNoTurn then .inl (.error .difficulty)
  else if p.hdr.number + 1 != h.number then .inl (.error .ancestor)
  else if p.hdr.time + C.period > h.time then .inl (.error .time)
  else if h.number = 0 then .inl (.error .block0)
  else match h.signer with
    | none => .inl (.error .seal)
    | some signer =>
      match snapshot st g (h.number - 1) h.parent signer with
      | .panic => .inr ()
      | .err e => .inl (.error e)
      | .ok snap lastSeen =>
        if !snap.signers.contains signer then .inl (.error .signer)
        else if checkpoint && h.valBytes != snap.signers.flatten then .inl (.error .cpMismatch)
        else if recentBad lastSeen h.number (snap.signers.length / 2 + 1) then .inl (.error .recent)
        else
          let inturn := h.number % snap.signers.length == indexOf signer snap.signers
          if inturn && h.difficulty != diffInTurn then .inl (.error .turn)
          else if !inturn && h.difficulty != diffNoTurn then .inl (.error .turn)
          else .inl (.ok snap)

/-- `LastVoteParentOrEpoch` of a new header -/
def lastVoteLink (C : Cfg) (p : Stored) (h : Hdr) : Option Id :=
  if h.number % C.epoch != 0 then
    if p.hdr.number % C.epoch == 0 then some p.hdr.id
    else if p.hdr.coinbase != zeroAddr then some p.hdr.id
    else p.epochParent
  else none

def syncHeader (C : Cfg) (st : St) (h : Hdr) : St × Out :=
  if (st.hdrs h.id).isSome then (st, .skipDup)
  else match st.hdrs h.parent with
    | none => (st, .skipNoParent)
    | some p =>
      match st.genesis with
      | none => (st, .reject .nogenesis)
      | some g =>
        match verifyHeader C st g p h with
        | .inr () => (st, .panic)
        | .inl (.error e) => (st, .reject e)
        | .inl (.ok _) =>
          match addHeader st h p ⟨0, [], lastVoteLink C p h⟩ with
          | .error e => (st, .reject e)
          | .ok st' => (st', .ok)

def syncGenesis (C : Cfg) (st : St) (g : Hdr) : St × Out :=
  if C.epoch = 0 ∨ C.period = 0 then (st, .reject .extraInfo)
  else if st.genesis.isSome then (st, .reject .genesisStored)
  else if g.number % C.epoch != 0 then (st, .reject .genesisHeight)
  else
    let len := g.extra.length
    if len = extraVanity + extraSeal then (st, .reject .genesisSigners)
    else if len > extraVanity + extraSeal ∧ (len - (extraVanity + extraSeal)) % addrLen != 0 then (st, .reject .genesisSigners)
    else if len < extraVanity + extraSeal ∧ ((extraVanity + extraSeal) - len) % addrLen != 0 then (st, .reject .genesisSigners)
    else
      ({ genesis := some ⟨g, ⟨0, [], none⟩, ⟨0, [], none⟩⟩
         hdrs := upd st.hdrs g.id (some ⟨g, g.difficulty, none⟩)
         canon := upd st.canon g.number (some g.id)
         height := g.number }, .ok)

/-- Specification vocabulary: the ancestors `l` (parent first) above the nearest checkpoint (a header whose number is
divisible by `Epoch`, or the trust root), newest first, and that checkpoint. -/
def sinceCheckpoint (C : Cfg) : List Stored → List Stored × Option Stored
  | [] => ([], none)
  | [s] => ([], some s)
  | s :: t :: rest =>
    if s.hdr.number % C.epoch == 0 then ([], some s)
    else (s :: (sinceCheckpoint C (t :: rest)).1, (sinceCheckpoint C (t :: rest)).2)

/-- Specification vocabulary: the clique signer set for a child of `l.head`: the checkpoint's list, then every later
ancestor that carries a vote (non-zero coinbase) applied oldest first. -/
def replay (C : Cfg) (l : List Stored) : Option Snap :=
  match sinceCheckpoint C l with
  | (after, some cp) =>
    match applyAll zeroAddr ⟨cp.hdr.vals.foldl (fun acc a => insertSigner a acc) [], [], []⟩ none
        (((after.filter (fun s => s.hdr.coinbase != zeroAddr)).reverse).map (·.hdr)) with
    | .ok (snap, _) => some snap
    | .error _ => none
  | (_, none) => none

inductive Op where
  | genesis (g : Hdr)
  | hdr (h : Hdr)

def apply (C : Cfg) (st : St) : Op → St × Out
  | .genesis g => syncGenesis C st g
  | .hdr h => syncHeader C st h

def run (C : Cfg) (st : St) : List Op → St
  | [] => st
  | o :: os => run C (apply C st o).1 os

end Msc

/-! ## polygon bor, REDUCED to one fixed span (`native/service/header_sync/polygon/{bor_header_sync,snapshot}.go`)

The trust root carries a snapshot: the validators in ascending address order and the position of the proposer (the
proposer-priority arithmetic of `validator_set.go` that determines it is not modelled: it is an input). No header is a
sprint end or a sprint start (the sprint length lies beyond all heights considered), so the snapshot never changes and
no Heimdall span proof is involved. Modelled: `verifyHeader` for such headers, `verifyCascadingFields`, `verifySeal`
with `GetSignerSuccessionNumber`, `CalcProducerDelay`, `Difficulty`, and `addHeader`. In `Genesis`, `pv0.vals` holds the
validators and `pv0.height` the proposer index. -/
namespace Bor

structure Cfg where
  period : Nat
  backup : Nat

/-- `GetSignerSuccessionNumber`: how many places the signer stands behind the proposer, cyclically -/
def succession (n proposerIndex signerIndex : Nat) : Nat :=
  if signerIndex < proposerIndex then signerIndex + n - proposerIndex else signerIndex - proposerIndex

def verifyHeader (C : Cfg) (vals : List Addr) (prop : Nat) (p : Stored) (h : Hdr) : Except Rej Unit :=
  if h.extra.length != extraVanity + extraSeal then .error .extraSigners
  else if !h.mixZero then .error .mix
  else if !h.uncleOk then .error .uncle
  else if p.hdr.number + 1 != h.number then .error .ancestor
  else if p.hdr.time + C.period > h.time then .error .time
  else if h.number = 0 then .error .block0
  else match h.signer with
    | none => .error .seal
    | some signer =>
      if !vals.contains signer then .error .signer
      else if prop ≥ vals.length then .error .signer
      else if h.time < p.hdr.time + (C.period + succession vals.length prop (Msc.indexOf signer vals) * C.backup) then .error .toosoon
      else if h.difficulty != vals.length - succession vals.length prop (Msc.indexOf signer vals) then .error .turn
      else .ok ()

def syncGenesis (st : St) (g : Hdr) (vals : List Addr) (prop : Nat) : St × Out :=
  if st.genesis.isSome then (st, .reject .genesisStored)
  else
    ({ genesis := some ⟨g, ⟨prop, vals, none⟩, ⟨0, [], none⟩⟩
       hdrs := upd st.hdrs g.id (some ⟨g, g.difficulty, none⟩)
       canon := upd st.canon g.number (some g.id)
       height := g.number }, .ok)

def syncHeader (C : Cfg) (st : St) (h : Hdr) : St × Out :=
  if (st.hdrs h.id).isSome then (st, .skipDup)
  else match st.hdrs h.parent with
    | none => (st, .skipNoParent)
    | some p =>
      match st.genesis with
      | none => (st, .reject .nogenesis)
      | some g =>
        match verifyHeader C g.pv0.vals g.pv0.height p h with
        | .error e => (st, .reject e)
        | .ok _ =>
          match addHeader st h p ⟨0, [], some g.hdr.id⟩ with
          | .error e => (st, .reject e)
          | .ok st' => (st', .ok)

inductive Op where
  | genesis (g : Hdr) (vals : List Addr) (prop : Nat)
  | hdr (h : Hdr)

def apply (C : Cfg) (st : St) : Op → St × Out
  | .genesis g vals prop => syncGenesis st g vals prop
  | .hdr h => syncHeader C st h

def run (C : Cfg) (st : St) : List Op → St
  | [] => st
  | o :: os => run C (apply C st o).1 os

end Bor

/-! ## Vocabulary of the property statements (C29)

The property speaks about a header's own ancestry, independently of the short cuts (`EpochParentHash`) the code takes. -/

/-- `Chain st g id l`: `l` lists the stored headers from `id` back to the trust root, following parent hashes. -/
inductive Chain (st : St) (g : Genesis) : Id → List Stored → Prop
  | root (s : Stored) : st.hdrs g.hdr.id = some s → Chain st g g.hdr.id [s]
  | step (id : Id) (s : Stored) (l : List Stored) :
      id ≠ g.hdr.id → st.hdrs id = some s → Chain st g s.hdr.parent l → Chain st g id (s :: l)

/-- The validator announcements seen when walking back over the ancestors `l` (parent first, trust root last): every
ancestor above the trust root whose extra data carries validators, then the trust root's own set and the previous set
recorded with it. -/
def epochs (g : Genesis) : List Stored → List HV
  | [] => []
  | [_] => [{ g.pv0 with hash := some g.hdr.id }, g.pv1]
  | s :: t :: rest =>
    if s.hdr.isEpoch then ⟨s.hdr.number, s.hdr.vals, some s.hdr.id⟩ :: epochs g (t :: rest) else epochs g (t :: rest)

/-- The validator set in effect for a header with the given number whose ancestors are `l`. -/
def inEffect (R : Router) (g : Genesis) (number : Nat) (l : List Stored) : List Addr :=
  match epochs g l with
  | e1 :: e2 :: _ => if R.delayed && decide (number - e1.height ≤ e2.vals.length / 2) then e2.vals else e1.vals
  | _ => []

/-- total difficulty of a chain -/
def sumDiff : List Stored → Nat
  | [] => 0
  | s :: l => s.hdr.difficulty + sumDiff l

end Poly.Model.LCPosa
