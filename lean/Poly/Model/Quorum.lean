/- Behaviour of a counting ledger: approvals arrive one at a time from distinct current validators; the ledger
   tests its threshold after recording each approval. `firstFire p n` is the number of approvals at which it
   first fires when at most `n` validators approve (-1: never). Used by the C42 driver and theorems. -/
namespace Poly.Model.Quorum

def firstFireFrom (p : Int → Bool) (k : Int) : Nat → Int
  | 0 => -1
  | fuel + 1 => if p (k + 1) then k + 1 else firstFireFrom p (k + 1) fuel

def firstFire (p : Int → Bool) (n : Nat) : Int := firstFireFrom p 0 n

theorem firstFireFrom_eq (p : Int → Bool) (t : Int) (hp : ∀ j : Int, p j = true ↔ t ≤ j) :
    ∀ (fuel : Nat) (k : Int), k < t → t ≤ k + fuel → firstFireFrom p k fuel = t := by
  intro fuel
  induction fuel with
  | zero => intro k h1 h2; simp at h2; omega
  | succ f ih =>
    intro k h1 h2
    unfold firstFireFrom
    by_cases h : p (k + 1) = true
    · simp [h]; have := (hp (k + 1)).1 h; omega
    · simp [h]
      have : ¬ t ≤ k + 1 := fun c => h ((hp (k + 1)).2 c)
      apply ih
      · omega
      · push_cast at h2; omega

/-- A ledger whose test is `t ≤ count` fires exactly when the t-th distinct validator approves. -/
theorem firstFire_eq (p : Int → Bool) (t : Int) (n : Nat) (hp : ∀ j : Int, p j = true ↔ t ≤ j)
    (h1 : 1 ≤ t) (h2 : t ≤ n) : firstFire p n = t := by
  unfold firstFire
  exact firstFireFrom_eq p t hp n 0 (by omega) (by omega)

end Poly.Model.Quorum
