import Poly.Model.KV
/-
Model of the layered state views:
  * `Store`    — `leveldbstore.LevelDBStore`: LevelDB as an ordered map plus an atomic write batch
                 (LevelDB internals, the OS and the file system are not modelled);
  * `Join`     — `overlaydb.JoinIter`, the algorithm as written (first/next, keyOrigin, nextMemEnd, nextBackEnd,
                 the skip-empty-value loops), over two abstract `common.StoreIterator`s given by their operations;
  * `Overlay`  — `overlaydb.OverlayDB` (block layer): a `MemDB` over a `Store`;
  * `CacheDB`  — `native/storage.CacheDB` (transaction layer): a `MemDB` over an `Overlay`, keys prefixed ST_STORAGE;
  * `changeHash` — `OverlayDB.ChangeHash` with the hash function as a parameter.
Executable, core-only.
-/
namespace Poly.Model.KV

/-! ### common.StoreIterator as a record of operations over a state type -/

structure Ops (σ : Type) where
  first : σ → σ × Bool
  next : σ → σ × Bool
  key : σ → Key
  value : σ → Val

/-- `MemDB.NewIterator(slice)` / goleveldb `DB.NewIterator(slice)` over fixed contents `m`. -/
def iterOps (m : Entries) : Ops Iter :=
  { first := fun it => it.first m, next := fun it => it.next m, key := Iter.key, value := Iter.value }

/-! ### JoinIter -/

inductive Origin where
  | mem | back | both
  deriving DecidableEq, Repr

/-- `JoinIter`; a fresh one has nil key/value, `keyOrigin = FromMem` (zero value) and both flags false. -/
structure Join (α β : Type) where
  mem : α
  back : β
  key : Key := []
  value : Val := []
  origin : Origin := .mem
  nextMemEnd : Bool := false
  nextBackEnd : Bool := false

section
variable {α β : Type} (A : Ops α) (B : Ops β)

/-- `JoinIter.first()` (iterator errors are not modelled). -/
def Join.first0 (j : Join α β) : Join α β × Bool :=
  let rb := B.first j.back
  let rm := A.first j.mem
  let j := { j with mem := rm.1, back := rb.1 }
  if rb.2 then
    let bkey := B.key rb.1
    let bval := B.value rb.1
    if !rm.2 then ({ j with key := bkey, value := bval, origin := .back }, true)
    else
      let mkey := A.key rm.1
      let mval := A.value rm.1
      match cmpB mkey bkey with
      | .gt => ({ j with key := bkey, value := bval, origin := .back }, true)
      | .eq => ({ j with key := mkey, value := mval, origin := .both }, true)
      | .lt => ({ j with key := mkey, value := mval, origin := .mem }, true)
  else if rm.2 then ({ j with key := A.key rm.1, value := A.value rm.1, origin := .mem }, true)
  else (j, false)

/-- `JoinIter.next()`, first half: advance the side(s) the current key came from, unless already known to be
exhausted, and record exhaustion in `nextMemEnd` / `nextBackEnd`. -/
def Join.advance (j : Join α β) : Join α β :=
  let j :=
    if (j.origin = .mem ∨ j.origin = .both) ∧ j.nextMemEnd = false then
      let r := A.next j.mem
      { j with mem := r.1, nextMemEnd := !r.2 }
    else j
  if (j.origin = .back ∨ j.origin = .both) ∧ j.nextBackEnd = false then
    let r := B.next j.back
    { j with back := r.1, nextBackEnd := !r.2 }
  else j

/-- `JoinIter.next()`, second half: pick the smaller of the two current keys (the buffer wins a tie). -/
def Join.choose (j : Join α β) : Join α β × Bool :=
  if j.nextBackEnd then
    if j.nextMemEnd then ({ j with key := [], value := [] }, false)
    else ({ j with key := A.key j.mem, value := A.value j.mem, origin := .mem }, true)
  else if j.nextMemEnd then
    ({ j with key := B.key j.back, value := B.value j.back, origin := .back }, true)
  else
    let bkey := B.key j.back
    let mkey := A.key j.mem
    match cmpB mkey bkey with
    | .lt => ({ j with key := mkey, value := A.value j.mem, origin := .mem }, true)
    | .eq => ({ j with key := mkey, value := A.value j.mem, origin := .both }, true)
    | .gt => ({ j with key := bkey, value := B.value j.back, origin := .back }, true)

/-- `JoinIter.next()`. -/
def Join.next0 (j : Join α β) : Join α β × Bool := Join.choose A B (Join.advance A B j)

/-- `for len(iter.value) == 0 { if !iter.next() { return false } }; return true` — the loop takes a fuel
argument; `joinIter` theorems show `remaining entries + 2` suffices, so the out-of-fuel exit is never taken. -/
def Join.skip : Nat → Join α β → Join α β × Bool
  | 0, j => (j, false)
  | n + 1, j =>
    if j.value.isEmpty then
      let r := Join.next0 A B j
      if r.2 then Join.skip n r.1 else (r.1, false)
    else (j, true)

def Join.First (fuel : Nat) (j : Join α β) : Join α β × Bool :=
  let r := Join.first0 A B j
  if r.2 then Join.skip A B fuel r.1 else (r.1, false)

def Join.Next (fuel : Nat) (j : Join α β) : Join α β × Bool :=
  let r := Join.next0 A B j
  if r.2 then Join.skip A B fuel r.1 else (r.1, false)

/-- A JoinIter is itself a StoreIterator (CacheDB joins its buffer with the overlay's JoinIter). -/
def Join.ops (fuel : Nat) : Ops (Join α β) :=
  { first := Join.First A B fuel, next := Join.Next A B fuel, key := (·.key), value := (·.value) }

end

/-! ### JoinIter with failing sub-iterators

`JoinIter.first()` / `next()` call `iter.Error()` right after moving the sub-iterators and return false when either
reports an error (`Error()` = the backend's error, else the buffer iterator's).  The functions above are the
error-free behaviour; the `…E` versions take the two error predicates. -/
section
variable {α β : Type} (A : Ops α) (B : Ops β) (eA : α → Bool) (eB : β → Bool)

def Join.err (j : Join α β) : Bool := eB j.back || eA j.mem

def Join.first0E (j : Join α β) : Join α β × Bool :=
  let j1 : Join α β := { j with mem := (A.first j.mem).1, back := (B.first j.back).1 }
  if Join.err eA eB j1 then (j1, false) else Join.first0 A B j

def Join.next0E (j : Join α β) : Join α β × Bool :=
  let j1 := Join.advance A B j
  if Join.err eA eB j1 then (j1, false) else Join.choose A B j1

def Join.skipE : Nat → Join α β → Join α β × Bool
  | 0, j => (j, false)
  | n + 1, j =>
    if j.value.isEmpty then
      let r := Join.next0E A B eA eB j
      if r.2 then Join.skipE n r.1 else (r.1, false)
    else (j, true)

def Join.FirstE (fuel : Nat) (j : Join α β) : Join α β × Bool :=
  let r := Join.first0E A B eA eB j
  if r.2 then Join.skipE A B eA eB fuel r.1 else (r.1, false)

def Join.NextE (fuel : Nat) (j : Join α β) : Join α β × Bool :=
  let r := Join.next0E A B eA eB j
  if r.2 then Join.skipE A B eA eB fuel r.1 else (r.1, false)

end

/-- An iterator that starts failing at its `failAt`-th positioning call (0 = never): from then on `First`/`Next`
return false, `Key()`/`Value()` are nil and `Error()` is set. -/
structure Faulty (σ : Type) where
  inner : σ
  calls : Nat := 0
  failAt : Nat := 0

def Faulty.failed {σ : Type} (s : Faulty σ) : Bool := s.failAt != 0 && s.calls >= s.failAt

def faultyOps {σ : Type} (O : Ops σ) : Ops (Faulty σ) :=
  { first := fun s =>
      let s1 := { s with calls := s.calls + 1 }
      if s1.failed then (s1, false) else let r := O.first s.inner; ({ s1 with inner := r.1 }, r.2),
    next := fun s =>
      let s1 := { s with calls := s.calls + 1 }
      if s1.failed then (s1, false) else let r := O.next s.inner; ({ s1 with inner := r.1 }, r.2),
    key := fun s => if s.failed then [] else O.key s.inner,
    value := fun s => if s.failed then [] else O.value s.inner }

/-- First, then Next until it returns false, collecting (Key(), Value()) — at most `n` entries. -/
def collectFrom {σ : Type} (O : Ops σ) : Nat → σ → Entries
  | 0, _ => []
  | n + 1, s => (O.key s, O.value s) :: (let r := O.next s; if r.2 then collectFrom O n r.1 else [])

def collect {σ : Type} (O : Ops σ) (n : Nat) (s : σ) : Entries :=
  let r := O.first s
  if r.2 then collectFrom O n r.1 else []

/-! ### LevelDB store -/

def erase (k : Key) : Entries → Entries
  | [] => []
  | (k', v') :: r =>
    match cmpB k k' with
    | .lt => (k', v') :: r
    | .eq => r
    | .gt => (k', v') :: erase k r

inductive BatchOp where
  | put (k : Key) (v : Val)
  | del (k : Key)
  deriving Repr

def BatchOp.apply (d : Entries) : BatchOp → Entries
  | .put k v => insert k v d
  | .del k => erase k d

structure Store where
  data : Entries := []
  batch : Option (List BatchOp) := none
  deriving Repr

def Store.put (s : Store) (k : Key) (v : Val) : Store := { s with data := insert k v s.data }
def Store.delete (s : Store) (k : Key) : Store := { s with data := erase k s.data }
/-- `Get`: `none` = `ErrNotFound`. -/
def Store.get (s : Store) (k : Key) : Option Val := lookup k s.data
def Store.newBatch (s : Store) : Store := { s with batch := some [] }
/-- `BatchPut`/`BatchDelete` dereference the batch: `none` = nil-pointer panic when `NewBatch` was not called. -/
def Store.batchAdd (s : Store) (o : BatchOp) : Option Store :=
  match s.batch with
  | some b => some { s with batch := some (b ++ [o]) }
  | none => none
/-- `BatchCommit`: the records are applied in order, atomically; the batch pointer is cleared. -/
def Store.batchCommit (s : Store) : Store :=
  match s.batch with
  | some b => { data := b.foldl BatchOp.apply s.data, batch := none }
  | none => s

/-! ### OverlayDB -/

structure Overlay where
  store : Store := {}
  mem : MemDB := {}
  deriving Repr

/-- `OverlayDB.Get`: nil (here `[]`) for deleted and for not-found keys. -/
def Overlay.get (o : Overlay) (k : Key) : Val :=
  match o.mem.get k with
  | .known v => v
  | .knownAbsent => []
  | .unknown =>
    match o.store.get k with
    | some v => v
    | none => []

def Overlay.put (o : Overlay) (k : Key) (v : Val) : Overlay := { o with mem := o.mem.put k v }
def Overlay.delete (o : Overlay) (k : Key) : Overlay := { o with mem := o.mem.delete k }
def Overlay.reset (o : Overlay) : Overlay := { o with mem := o.mem.reset }

/-- The batch record `CommitTo` emits for one buffer entry. -/
def commitOp (e : Key × Val) : BatchOp := if e.2.isEmpty then .del e.1 else .put e.1 e.2

/-- `OverlayDB.CommitTo`: `ForEach` entry a `BatchDelete` (empty value) or `BatchPut`. -/
def Overlay.commitTo (o : Overlay) : Option Overlay :=
  (o.mem.ents.foldlM (fun (s : Store) e => s.batchAdd (commitOp e)) o.store).map fun s => { o with store := s }

/-- `OverlayDB.NewIterator(prefix)`: the join of the buffer iterator and the store iterator, both sliced by
`util.BytesPrefix(prefix)`. The state is the JoinIter; the contents are fixed while it is used. -/
abbrev OvIter := Join Iter Iter

def Overlay.iterOps (o : Overlay) : Ops OvIter :=
  Join.ops (KV.iterOps o.mem.ents) (KV.iterOps o.store.data) (o.mem.ents.length + o.store.data.length + 2)

def Overlay.newIterator (pfx : Key) : OvIter :=
  { mem := Iter.new (some (bytesPrefix pfx)), back := Iter.new (some (bytesPrefix pfx)) }

/-- All entries a prefix scan of the overlay yields. -/
def Overlay.scan (o : Overlay) (pfx : Key) : Entries :=
  collect o.iterOps (o.mem.ents.length + o.store.data.length + 1) (Overlay.newIterator pfx)

/-! ### CacheDB -/

/-- `common.ST_STORAGE`. -/
def stStorage : UInt8 := 0x05

structure CacheDB where
  mem : MemDB := {}
  deriving Repr

def CacheDB.put (c : CacheDB) (k : Key) (v : Val) : CacheDB := { c with mem := c.mem.put (stStorage :: k) v }
def CacheDB.delete (c : CacheDB) (k : Key) : CacheDB := { c with mem := c.mem.delete (stStorage :: k) }
def CacheDB.reset (c : CacheDB) : CacheDB := { c with mem := c.mem.reset }

def CacheDB.get (c : CacheDB) (o : Overlay) (k : Key) : Val :=
  match c.mem.get (stStorage :: k) with
  | .known v => v
  | .knownAbsent => []
  | .unknown => o.get (stStorage :: k)

/-- `CacheDB.Commit`: replay the buffer into the overlay as Delete / Put. -/
def CacheDB.commit (c : CacheDB) (o : Overlay) : Overlay :=
  c.mem.ents.foldl (fun o e => if e.2.isEmpty then o.delete e.1 else o.put e.1 e.2) o

abbrev CacheIter := Join Iter OvIter

def CacheDB.iterOps (c : CacheDB) (o : Overlay) : Ops CacheIter :=
  Join.ops (KV.iterOps c.mem.ents) o.iterOps (c.mem.ents.length + o.mem.ents.length + o.store.data.length + 2)

def CacheDB.newIterator (key : Key) : CacheIter :=
  { mem := Iter.new (some (bytesPrefix (stStorage :: key))), back := Overlay.newIterator (stStorage :: key) }

/-- `storage.Iter.Key()`: the first byte (the ST_STORAGE prefix) is removed when the key is non-empty. -/
def stripKey (k : Key) : Key := match k with | [] => [] | _ :: r => r

def CacheDB.scan (c : CacheDB) (o : Overlay) (key : Key) : Entries :=
  (collect (c.iterOps o) (c.mem.ents.length + o.mem.ents.length + o.store.data.length + 1)
    (CacheDB.newIterator key)).map fun e => (stripKey e.1, e.2)

/-! ### Block execution as far as the state layers are concerned (`executeBlock`) -/

/-- One transaction of a block: its contract-storage writes in order (keys without the ST_STORAGE prefix) and
whether the handler succeeded. -/
structure Tx where
  writes : List (Key × Val)
  ok : Bool

/-- `executeBlock` per transaction: `cache.Reset()`, the handler writes into the cache, and on success
`cache.Commit()` replays the cache into the block overlay; on failure the cache is dropped. -/
def runTx (o : Overlay) (t : Tx) : Overlay :=
  let c := t.writes.foldl (fun (c : CacheDB) w => c.put w.1 w.2) ({} : CacheDB)
  if t.ok then c.commit o else o

def runBlock (o : Overlay) (txs : List Tx) : Overlay := txs.foldl runTx o

/-! ### Change digest -/

/-- `OverlayDB.ChangeHash`: `H(k₁ ‖ v₁ ‖ k₂ ‖ v₂ ‖ …)` over the buffer entries in key order (tombstones
contribute their key only). -/
def changeHash (H : List UInt8 → List UInt8) (m : Entries) : List UInt8 :=
  H (m.flatMap fun e => e.1 ++ e.2)

end Poly.Model.KV
