/-
Reachability over a finite call graph given as successor lists (node id = position), and the checkable certificate
that a claimed set (bit mask) contains everything reachable from the entry points (C16 b). Core-only.
-/
namespace Poly.Model.CallGraph

/-- `b` is a successor of `a`. -/
def Edge (succ : List (List Nat)) (a b : Nat) : Prop := ∃ r, succ[a]? = some r ∧ b ∈ r

/-- Reachable from an entry point along edges. -/
inductive Reach (succ : List (List Nat)) (entries : List Nat) : Nat → Prop
  | entry {e : Nat} : e ∈ entries → Reach succ entries e
  | step {a b : Nat} : Reach succ entries a → Edge succ a b → Reach succ entries b

/-- Rows `i, i+1, …`: every node of the mask has all its successors in the mask. -/
def closedFrom (c : Nat) : Nat → List (List Nat) → Bool
  | _, [] => true
  | i, r :: rs => (!c.testBit i || r.all (fun b => c.testBit b)) && closedFrom c (i + 1) rs

def closed (succ : List (List Nat)) (c : Nat) : Bool := closedFrom c 0 succ

def entriesIn (entries : List Nat) (c : Nat) : Bool := entries.all (fun e => c.testBit e)

/-- Consecutive nodes of a path are joined by edges. -/
def chain (succ : List (List Nat)) : List Nat → Bool
  | a :: b :: r => (match succ[a]? with | some row => row.contains b | none => false) && chain succ (b :: r)
  | _ => true

/-- A path that starts at an entry point. -/
def validPath (succ : List (List Nat)) (entries : List Nat) (p : List Nat) : Bool :=
  match p with
  | [] => false
  | a :: _ => entries.contains a && chain succ p

/-- Every sink site inside the mask carries a key of the list `known`. -/
def sinksKnown (sites : List (Nat × String)) (c : Nat) (known : List String) : Bool :=
  sites.all fun s => !c.testBit s.1 || known.contains s.2

/-- Every key of `keys` names a sink site that is the end of one of the given valid paths. -/
def covered (succ : List (List Nat)) (entries : List Nat) (sites : List (Nat × String)) (paths : List (List Nat))
    (keys : List String) : Bool :=
  keys.all fun k => paths.any fun p =>
    validPath succ entries p && (match p.getLast? with | some n => sites.contains (n, k) | none => false)

/-- Linear variant: the i-th path ends at a site carrying the i-th key (keys and paths are both in key order). -/
def coveredZip (succ : List (List Nat)) (entries : List Nat) (sites : List (Nat × String)) :
    List (List Nat) → List String → Bool
  | [], [] => true
  | p :: ps, k :: ks =>
    validPath succ entries p && (match p.getLast? with | some n => sites.contains (n, k) | none => false) &&
      coveredZip succ entries sites ps ks
  | _, _ => false

end Poly.Model.CallGraph
