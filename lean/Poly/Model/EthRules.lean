import Poly.Generated.EthConsts
/-!
# Model of the Ethereum header rules of `native/service/header_sync/eth` (C28; validity predicate of C27)

Transliteration of `difficultyCalculator`, `makeDifficultyCalculator`, the fork chain of `SyncBlockHeader`,
`isLondon` / `isArrowGlacier` / `isGrayGlacier`, `VerifyGaslimit`, `VerifyEip1559Header`, `CalcBaseFee`, `datasetSize` /
`cacheSize` (+ `calcDatasetSize` / `calcCacheSize`) and of the order of the per-header checks of
`SyncBlockHeader`. Every literal constant and both size tables come from `Poly.Generated.EthConsts`, which is
regenerated from the Go source on every run.

Conventions: `*big.Int` = `Int` (`big.Int.Div` is Euclidean division = Lean's `/` on `Int`; `big.Int.Exp(2, y, nil)`
is `2 ^ y` for `y ≥ 0`); `uint64` = `Nat` below `2^64` with explicit wrap where the code can wrap; `int64(x)` casts
are `wrapS64`; a nil `*big.Int` dereference and a big-integer division by zero are the outcome `panic`.
-/
namespace Poly.Model.EthRules
open Poly.Generated

/-- The header fields the rules read. `uncleEmpty` is `UncleHash == types.EmptyUncleHash`. -/
structure Hdr where
  number     : Int          -- *big.Int
  time       : Nat          -- uint64
  difficulty : Int          -- *big.Int
  uncleEmpty : Bool
  gasLimit   : Nat          -- uint64
  gasUsed    : Nat          -- uint64
  baseFee    : Option Int   -- *big.Int, nil = none
  deriving Repr, DecidableEq, Inhabited

def two64 : Nat := 18446744073709551616
def two63 : Nat := 9223372036854775808

/-- `(*big.Int).Uint64()`: the low 64 bits of the absolute value. -/
def u64 (x : Int) : Nat := x.natAbs % two64

/-- `int64(x)` of a mathematical integer: two's complement wrap. -/
def wrapS64 (x : Int) : Int := (x + (two63 : Int)) % (two64 : Int) - (two63 : Int)

/-- `math.BigMax(x, y)`: `if x.Cmp(y) < 0 { return y }; return x`. -/
def bigMax (x y : Int) : Int := if x < y then y else x

/-! ## Difficulty -/

/-- The literals both calculators are written with. -/
structure DiffParams where
  one : Int
  two : Int
  nine : Int
  minus99 : Int
  boundDivisor : Int
  minDifficulty : Int
  period : Int
  deriving Repr, DecidableEq

/-- The common body of `difficultyCalculator` and of the closure returned by `makeDifficultyCalculator`
(the two are the same statements over different package variables). -/
def calcCore (c : DiffParams) (delayFromParent : Int) (time : Int) (p : Hdr) : Int :=
  let x := (time - (p.time : Int)) / c.nine
  let x := if p.uncleEmpty then c.one - x else c.two - x
  let x := if x < c.minus99 then c.minus99 else x
  let y := p.difficulty / c.boundDivisor
  let x := p.difficulty + y * x
  let x := if x < c.minDifficulty then c.minDifficulty else x
  let fake := if p.number ≥ delayFromParent then p.number - delayFromParent else 0
  let periodCount := fake / c.period
  if periodCount > c.one then x + 2 ^ (periodCount - c.two).toNat else x

/-- Package variables of header_sync.go. -/
def legacyParams : DiffParams :=
  ⟨EthConsts.BIG_1, EthConsts.BIG_2, EthConsts.BIG_9, EthConsts.BIG_MINUS_99, EthConsts.BLOCK_DIFF_FACTOR,
   EthConsts.MinimumDifficulty, EthConsts.DIFF_PERIOD⟩

/-- Package variables of header1559.go. -/
def londonParams : DiffParams :=
  ⟨EthConsts.big1, EthConsts.big2, EthConsts.big9, EthConsts.bigMinus99, EthConsts.DifficultyBoundDivisor,
   EthConsts.MinimumDifficulty, EthConsts.expDiffPeriod⟩

/-- `difficultyCalculator(time, parent)` (header_sync.go). -/
def calcLegacy (time : Int) (p : Hdr) : Int := calcCore legacyParams EthConsts.BOMB_DELAY time p

/-- `makeDifficultyCalculator(bombDelay)(time, parent)` (header1559.go): `bombDelayFromParent = bombDelay − big1`. -/
def calcWithDelay (bombDelay : Int) (time : Nat) (p : Hdr) : Int :=
  calcCore londonParams (bombDelay - EthConsts.big1) (time : Int) p

/-! ## Fork predicates (production configuration: `isTest = false`) -/

def lookup (id : Nat) : List (Nat × Nat) → Nat     -- Go map read: missing key = 0
  | [] => 0
  | (k, v) :: rest => if k = id then v else lookup id rest

/-- `config.GetEth1559Height(id)`. -/
def eth1559Height (id : Nat) : Nat :=
  let h := lookup id EthConsts.eth1559Height
  if h = 0 then EthConsts.eth1559Height_default else h

/-- `config.GetEth4345Height(id)`. -/
def eth4345Height (id : Nat) : Nat :=
  let h := lookup id EthConsts.eth4345Height
  if h = 0 then EthConsts.eth4345Height_default else h

/-- `config.GetEth5133Height(id)`. -/
def eth5133Height (id : Nat) : Nat :=
  let h := lookup id EthConsts.eth5133Height
  if h = 0 then EthConsts.eth5133Height_default else h

/-- `isLondon(h)` for network id `id`. -/
def isLondon (id : Nat) (h : Hdr) : Bool :=
  h.baseFee.isSome || decide (u64 h.number ≥ eth1559Height id)

/-- `isArrowGlacier(h)`. -/
def isArrowGlacier (id : Nat) (h : Hdr) : Bool :=
  let fh := eth4345Height id
  if fh = 0 then false else decide (u64 h.number ≥ fh)

/-- `isGrayGlacier(h)`. -/
def isGrayGlacier (id : Nat) (h : Hdr) : Bool :=
  let fh := eth5133Height id
  if fh = 0 then false else decide (u64 h.number ≥ fh)

def predHolds (id : Nat) (name : String) (h : Hdr) : Option Bool :=
  if name = "isLondon" then some (isLondon id h)
  else if name = "isArrowGlacier" then some (isArrowGlacier id h)
  else if name = "isGrayGlacier" then some (isGrayGlacier id h)
  else none

/-- The `expected` difficulty of `SyncBlockHeader`: first matching entry of the (generated) fork chain, else the
legacy calculator. `none` = the source has a fork predicate this model does not know. -/
def expectedFrom (id : Nat) (h p : Hdr) : List (String × Int) → Option Int
  | [] => some (calcLegacy (h.time : Int) p)
  | (nm, d) :: rest =>
    match predHolds id nm h with
    | none => none
    | some true => some (calcWithDelay d h.time p)
    | some false => expectedFrom id h p rest

def expectedDifficulty (id : Nat) (h p : Hdr) : Option Int := expectedFrom id h p EthConsts.forkChain

/-! ## Gas limit and EIP-1559 -/

inductive Verdict where
  | ok
  | reject (cls : String)
  | panic
  deriving Repr, DecidableEq, Inhabited

/-- `VerifyGaslimit(parentGasLimit, headerGasLimit)` with the `int64` casts as written. -/
def verifyGaslimit (parentGL headerGL : Nat) : Verdict :=
  let diff := wrapS64 (wrapS64 parentGL - wrapS64 headerGL)
  let diff := if diff < 0 then wrapS64 (diff * (-1)) else diff
  let limit := parentGL / EthConsts.GasLimitBoundDivisor.toNat
  if (diff % (two64 : Int)).toNat ≥ limit then .reject "gaslimit-bounds"
  else if headerGL < EthConsts.MinGasLimit.toNat then .reject "gaslimit-min"
  else .ok

/-- `CalcBaseFee(parent)`; `none` = run-time panic (nil base fee of a London parent, or gas target 0 as divisor). -/
def calcBaseFee (id : Nat) (p : Hdr) : Option Int :=
  if !isLondon id p then some EthConsts.InitialBaseFee
  else
    let target := p.gasLimit / EthConsts.ElasticityMultiplier.toNat
    match p.baseFee with
    | none => none
    | some b =>
      if p.gasUsed = target then some b
      else if p.gasUsed > target then
        if target = 0 then none
        else
          let y := (b * ((p.gasUsed - target : Nat) : Int)) / (target : Int)
          let delta := bigMax (y / EthConsts.BaseFeeChangeDenominator) 1
          some (b + delta)
      else
        let y := (b * ((target - p.gasUsed : Nat) : Int)) / (target : Int)
        let delta := y / EthConsts.BaseFeeChangeDenominator
        some (bigMax (b - delta) 0)

/-- `VerifyEip1559Header(parent, header)`. -/
def verifyEip1559Header (id : Nat) (p h : Hdr) : Verdict :=
  let pgl := if !isLondon id p then (p.gasLimit * EthConsts.ElasticityMultiplier.toNat) % two64 else p.gasLimit
  match verifyGaslimit pgl h.gasLimit with
  | .ok =>
    match h.baseFee with
    | none => .reject "basefee-missing"
    | some bf =>
      match calcBaseFee id p with
      | none => .panic
      | some e => if bf = e then .ok else .reject "basefee-wrong"
  | v => v

/-! ## The per-header rule sequence of `SyncBlockHeader` (everything between the parent lookup and the seal) -/

/-- `extraLen` is `len(header.Extra)`; the wall-clock future-block test is not part of the model (the harness uses
timestamps far in the past). The parent-hash equality is part of the chain model (C27). -/
def checkRules (id : Nat) (p h : Hdr) (extraLen : Nat) : Verdict :=
  if u64 h.number ≠ (u64 p.number + 1) % two64 then .reject "height"
  else if extraLen > EthConsts.MaximumExtraDataSize.toNat then .reject "extra"
  else if h.time ≤ p.time then .reject "time"
  else if h.gasLimit > 9223372036854775807 then .reject "gascap"
  else if h.gasUsed > h.gasLimit then .reject "gasused"
  else
    let v := if isLondon id h then verifyEip1559Header id p h else verifyGaslimit p.gasLimit h.gasLimit
    match v with
    | .ok =>
      match expectedDifficulty id h p with
      | none => .reject "unknown-fork-predicate"
      | some e => if e = h.difficulty then .ok else .reject "difficulty"
    | v => v

/-! ## Ethash sizes -/

/-- Trial division: no divisor `d' ∈ [d, …]` with `d'·d' ≤ n`. -/
def noDivisorFrom (n : Nat) : Nat → Nat → Bool
  | 0, _ => true
  | fuel + 1, d => if d * d > n then true else if n % d = 0 then false else noDivisorFrom n fuel (d + 1)

/-- Primality by trial division (the reference for `big.Int.ProbablyPrime`, exact below 2^64). -/
def isPrime (n : Nat) : Bool := decide (2 ≤ n) && noDivisorFrom n n 2

/-- The loop of `calcDatasetSize` / `calcCacheSize`: `for !prime(size / unit) { size -= 2 * unit }`.
`none`: out of fuel, or the subtraction would wrap below zero (never happens for real sizes). -/
def sizeLoop (unit : Nat) : Nat → Nat → Option Nat
  | 0, _ => none
  | fuel + 1, size =>
    if isPrime (size / unit) then some size
    else if size < 2 * unit then none
    else sizeLoop unit fuel (size - 2 * unit)

def sizeFuel : Nat := 100000

/-- `calcDatasetSize(epoch)`. -/
def calcDatasetSize (epoch : Nat) : Option Nat :=
  sizeLoop EthConsts.mixBytes.toNat sizeFuel
    (EthConsts.datasetInitBytes.toNat + EthConsts.datasetGrowthBytes.toNat * epoch - EthConsts.mixBytes.toNat)

/-- `calcCacheSize(epoch)`. -/
def calcCacheSize (epoch : Nat) : Option Nat :=
  sizeLoop EthConsts.hashBytes.toNat sizeFuel
    (EthConsts.cacheInitBytes.toNat + EthConsts.cacheGrowthBytes.toNat * epoch - EthConsts.hashBytes.toNat)

/-- `datasetSize(block)`: table below `maxEpoch`, computed above. -/
def datasetSize (block : Nat) : Option Nat :=
  let epoch := block / EthConsts.epochLength.toNat
  if epoch < EthConsts.maxEpoch.toNat then EthConsts.datasetSizes[epoch]? else calcDatasetSize epoch

/-- `cacheSize(block)`. -/
def cacheSize (block : Nat) : Option Nat :=
  let epoch := block / EthConsts.epochLength.toNat
  if epoch < EthConsts.maxEpoch.toNat then EthConsts.cacheSizes[epoch]? else calcCacheSize epoch

end Poly.Model.EthRules
