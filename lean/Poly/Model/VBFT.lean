/-
Model of VBFT participant selection (consensus/vbft/node_utils.go: calcParticipant, calcParticipantPeers,
checkCalcEndorserOrCommitter, buildParticipantConfig) and of the position table built by
vconfig.GenesisChainConfig (consensus/vbft/config/genesis.go) (C40).

Conventions: peer indices (`uint32`) are `Nat`; the selection seed is a `vconfig.VRFValue`, i.e. exactly 64 bytes
(`Vector UInt8 64`); the two Go maps of calcParticipantPeers (`peerMap`, `proposerMap`) are used for membership
only and are modelled by lists (no iteration over them exists in the code); the loop index runs to at most 512
(calcParticipant answers math.MaxUint32 from there on), which is the termination measure; an empty position
table makes the Go code divide by zero: outcome `none` (= panic).
The seed itself (double SHA-512 over a JSON record of the previous block) is an input of the model.
-/
namespace Poly.Model.VBFT

abbrev Seed := Vector UInt8 64

def maxU32 : Nat := 0xFFFFFFFF

def MAX_PROPOSER_COUNT : Nat := 32
def MAX_ENDORSER_COUNT : Nat := 240
def MAX_COMMITTER_COUNT : Nat := 240

/-- The window value `v` of calcParticipant for `k < 512`: `(vrf[b+1 or 0] << (8 - k%8)) + (vrf[b] >> k%8)`;
    the mask `(1 << (8 + k%8)) - 1` never clears a bit of a byte. -/
def window (vrf : Seed) (k : Nat) (hk : k < 512) : Nat :=
  let bIdx := k / 8
  let bits1 := k % 8
  let bits2 := 8 + bits1
  let v1 := (vrf[bIdx]'(by omega)).toNat >>> bits1
  let v2 := if h : bIdx + 1 < 64 then (vrf[bIdx + 1]'h).toNat else (vrf[0]).toNat
  let v2 := v2 &&& ((1 <<< bits2) - 1)
  (v2 <<< (8 - bits1)) + v1

/-- `calcParticipant(vrf, dposTable, k)`; `none` = run-time panic (empty table: integer divide by zero). -/
def calcParticipant (vrf : Seed) (table : List Nat) (k : Nat) : Option Nat :=
  if h : k ≥ 512 then some maxU32
  else
    let v := window vrf k (by omega)
    if hl : table.length = 0 then none
    else some (table[v % table.length]'(Nat.mod_lt _ (by omega)))

/-- `checkCalcEndorserOrCommitter(end)` -/
def isEC (end_ : Nat) : Bool :=
  end_ == MAX_ENDORSER_COUNT + MAX_PROPOSER_COUNT ||
    end_ == MAX_PROPOSER_COUNT + MAX_ENDORSER_COUNT + MAX_COMMITTER_COUNT

/-- The `proposerMap` of calcParticipantPeers: walk `cfg.Proposers`, insert, stop as soon as the map has at least
    `C` entries (so with C = 0 the first proposer is still inserted). Membership list without duplicates. -/
def buildExcl (C : Nat) : List Nat → List Nat → List Nat
  | [], acc => acc
  | p :: ps, acc =>
    let acc' := if acc.contains p then acc else acc ++ [p]
    if acc'.length ≥ C then acc' else buildExcl C ps acc'

/-- The `for i := start; ; i++` loop of calcParticipantPeers. `peers` doubles as `peerMap` (membership),
    `excl` is `proposerMap`. `none` = panic. -/
def peersLoop (vrf : Seed) (table : List Nat) (N C end_ : Nat) (excl : List Nat) (i : Nat) (peers : List Nat) (cnt : Nat) :
    Option (List Nat) :=
  if _h : i ≥ 512 then
    -- calcParticipant answers math.MaxUint32: `return []uint32{}`
    some []
  else
    match calcParticipant vrf table i with
    | none => none
    | some peerId =>
      if peerId == maxU32 then some []
      else if isEC end_ && excl.contains peerId then peersLoop vrf table N C end_ excl (i + 1) peers cnt
      else
        let fresh := !peers.contains peerId
        let peers' := if fresh then peers ++ [peerId] else peers
        let cnt' := if fresh then cnt + 1 else cnt
        if fresh && cnt' ≥ N then some peers'
        else if end_ == MAX_PROPOSER_COUNT && i ≥ end_ && peers'.length > C then some peers'
        else if isEC end_ && peers'.length > C * 2 then some peers'
        else peersLoop vrf table N C end_ excl (i + 1) peers' cnt'
termination_by 512 - i

/-- `calcParticipantPeers(cfg, chain, start, end)` with `cfg.Proposers = proposers`. -/
def calcParticipantPeers (vrf : Seed) (table : List Nat) (N C : Nat) (proposers : List Nat) (start end_ : Nat) :
    Option (List Nat) :=
  let excl := if isEC end_ && proposers.length != 0 then buildExcl C proposers [] else []
  peersLoop vrf table N C end_ excl start [] 0

structure ParticipantConfig where
  proposers : List Nat
  endorsers : List Nat
  committers : List Nat
deriving Repr, DecidableEq

inductive BuildRes where
  | ok (cfg : ParticipantConfig)
  | err (cls : String)       -- the error returns of buildParticipantConfig
  | panic
deriving Repr, DecidableEq

def seedIsNil (vrf : Seed) : Bool := vrf.toList.all (· == 0)

/-- `buildParticipantConfig(blkNum, block, chainCfg)` with the selection seed of `block` given. -/
def buildParticipantConfig (blkNum : Nat) (vrf : Seed) (table : List Nat) (N C : Nat) : BuildRes :=
  if blkNum == 0 then .err "genesis"
  else if seedIsNil vrf then .err "nil-seed"
  else
    let s := 0
    match calcParticipantPeers vrf table N C [] s (s + MAX_PROPOSER_COUNT) with
    | none => .panic
    | some props =>
      if props.length < C + 1 then .err "proposers"
      else
        let proposers := props.take (C + 1)
        let s := s + MAX_PROPOSER_COUNT
        match calcParticipantPeers vrf table N C proposers s (s + MAX_ENDORSER_COUNT) with
        | none => .panic
        | some endorsers =>
          if endorsers.length < 2 * C then .err "endorsers"
          else
            let s := s + MAX_ENDORSER_COUNT
            match calcParticipantPeers vrf table N C proposers s (s + MAX_COMMITTER_COUNT) with
            | none => .panic
            | some committers =>
              if committers.length < 2 * C then .err "committers"
              else .ok ⟨proposers, endorsers, committers⟩

/-! ### The position table of GenesisChainConfig -/

structure Peer where
  index : Nat
  id : String
deriving Repr, DecidableEq

/-- `chainPeers[idx].ID`: the map is filled in list order, a later peer with the same index overwrites. -/
def lookupId (peers : List Peer) (idx : Nat) : String :=
  match peers.reverse.find? (·.index == idx) with
  | some p => p.id
  | none => ""

/-- every peer gets `ceil(DEFAULT_POS * SCALE * k / (k * DEFAULT_POS)) = 15` entries -/
def peerRank : Nat := 15

def initTable (peers : List Peer) : List Nat := peers.flatMap fun p => List.replicate peerRank p.index

def swap (l : List Nat) (i j : Nat) : List Nat :=
  match l[i]?, l[j]? with
  | some a, some b => (l.set i b).set j a
  | _, _ => l

/-- The shuffle `for i := len-1; i > 0; i-- { j := h(height, ID(posTable[i]), i) % i; swap }`; `n` counts down
    from `len - 1`. The hash (FNV-1a over a JSON record) is the parameter `h : id → i → hash`. -/
def shuffle (h : String → Nat → Nat) (peers : List Peer) : Nat → List Nat → List Nat
  | 0, t => t
  | i + 1, t =>
    match t[i + 1]? with
    | none => t        -- unreachable: the loop starts at len - 1 (Go would panic on the index)
    | some p =>
      let j := h (lookupId peers p) (i + 1) % (i + 1)
      shuffle h peers i (swap t (i + 1) j)

structure ChainConfig where
  N : Nat
  C : Nat
  posTable : List Nat
deriving Repr, DecidableEq

/-- `GenesisChainConfig(conf, peers, height)`: N = k, C = k / 3, shuffled position table. -/
def genesisChainConfig (h : String → Nat → Nat) (peers : List Peer) : ChainConfig :=
  let t := initTable peers
  { N := peers.length, C := peers.length / 3, posTable := shuffle h peers (t.length - 1) t }

/-! ### GetPeersConfig (consensus/vbft/utils.go): the pool handed to GenesisChainConfig -/

/-- `node_manager.PeerPoolItem` (status 0 = candidate, 1 = consensus, 2 = quitting, 3 = black) -/
structure PoolItem where
  index : Nat
  pubkey : String
  status : Nat
deriving Repr, DecidableEq

/-- `for _, id := range peerMap.PeerPoolMap { if candidate or consensus { append } }`: `pool` lists the map's values in
    the iteration order of that `range` (unspecified in Go). -/
def peersConfig (pool : List PoolItem) : List Peer :=
  (pool.filter fun p => p.status == 0 || p.status == 1).map fun p => ⟨p.index, p.pubkey⟩

end Poly.Model.VBFT
