import Poly.Generated.Thresholds
/-!
# Tendermint-family light clients (cosmos, okex, heimdall): decision logic

Model of
* `native/service/header_sync/cosmos/{header_sync,utils}.go`, `header_sync/okex/header_sync.go`,
  `header_sync/polygon/heimdall_header_sync.go` (`VerifyCosmosHeader`, `SyncGenesisHeader`, `SyncBlockHeader`, `VerifySpan`),
* `native/service/cross_chain_manager/cosmos/cosmos_handler.go`, `cross_chain_manager/okex/okex_handler.go`
  (`MakeDepositProposal`).

Conventions
* `α` validator addresses (the `Address` field as submitted), `κ` public keys, `η` hashes (byte strings compared with
  `bytes.Equal`), `χ` chain-id strings, `π` Merkle proofs (`merkle.Proof`), `μ` values / messages (byte strings).
* Hash functions (`ValidatorSet.Hash` in its amino and protobuf flavours, `Header.Hash`), signature verification over the
  canonical vote sign bytes and the proof runtime (`VerifyValue`, `VerifyAbsence`) are parameters / data supplied with
  the header: external cryptography.
* `tendermint.NewValidatorSet` is modelled as far as the routers depend on it: order by address, panic on a duplicate
  address, on a power outside `1..MaxTotalVotingPower` and on a total above `MaxTotalVotingPower` (hence no `int64`
  overflow in `total*2`: the machine arithmetic coincides with `Int`).
* The threshold test is the definition regenerated from the Go source (`Poly.Generated.Thresholds`).
-/
namespace Poly.Model.LCTm
open Poly.Generated.Thresholds

/-- `types.MaxTotalVotingPower = math.MaxInt64 / 8` -/
def maxTotalVotingPower : Int := 1152921504606846975

structure Val (α κ : Type) where
  addr : α
  key : κ
  power : Int

inductive Err where
  | witness | dup | unmarshal | noinfo | useless
  | valhash | hdrvalhash | commitheight | commithash | basic | size | index | noval | votetype | sig | power
  | low | nohdr | height | pv | proof | nochain | proofsize | keylen | keyprefix | module | kp | verify | txparam | done | span
  | panic
  deriving DecidableEq, Repr

def totalPower {α κ : Type} : List (Val α κ) → Int
  | [] => 0
  | v :: vs => v.power + totalPower vs

/-! ## `types.NewValidatorSet` -/

def sortVals {α κ : Type} (le : α → α → Bool) (vs : List (Val α κ)) : List (Val α κ) :=
  vs.mergeSort (fun a b => le a.addr b.addr)

/-- `processChanges`: a duplicate address shows up as two adjacent equal addresses of the sorted list -/
def adjDup {α κ : Type} [BEq α] : List (Val α κ) → Bool
  | a :: b :: rest => a.addr == b.addr || adjDup (b :: rest)
  | _ => false

def powerBad {α κ : Type} (v : Val α κ) : Bool := decide (v.power ≤ 0) || decide (maxTotalVotingPower < v.power)

/-- `none` = the constructor panics -/
def newValidatorSet {α κ : Type} [BEq α] (le : α → α → Bool) (vs : List (Val α κ)) : Option (List (Val α κ)) :=
  let s := sortVals le vs
  if adjDup s || s.any powerBad || decide (maxTotalVotingPower < totalPower s) then none else some s

/-- tendermint 0.34 derives the address from the key: its constructor panics on a repeated key -/
def keysDistinct {κ : Type} [BEq κ] : List κ → Bool
  | [] => true
  | k :: ks => !ks.contains k && keysDistinct ks

/-! ## Headers and tracked info -/

/-- `CosmosEpochSwitchInfo` -/
structure Info (η χ : Type) where
  height : Int
  blockHash : η
  next : η
  chain : χ

/-- `CosmosHeader` with commit type `C`; `hash` is the value of `Header.Hash()` / `HashCosmosHeader` -/
structure Header (α κ η χ C : Type) where
  version : Nat
  chain : χ
  height : Int
  valsHash : η
  nextValsHash : η
  appHash : η
  hash : η
  vals : List (Val α κ)
  commit : Option C

/-- the hash functions applied to a validator set (in `ValidatorSet.Validators` order) -/
structure Hashes (α κ η : Type) where
  /-- tendermint 0.33 `ValidatorSet.Hash()`: simple Merkle root of the amino encodings of (key, power) -/
  legacy : List (Val α κ) → η
  /-- tendermint 0.34 `ValidatorSet.Hash()` after conversion (protobuf encodings, order by power) -/
  new : List (Val α κ) → η

/-! ## cosmos / okex: tendermint 0.33 commits -/

inductive Flag where
  | absent | commit | nil | other
  deriving DecidableEq, Repr

/-- one `CommitSig`: its `BlockIDFlag` and the verdict of `CommitSig.ValidateBasic()` -/
structure Slot where
  flag : Flag
  basicOk : Bool

/-- `types.Commit`. `ver c i k` = "`k.VerifyBytes(VoteSignBytes(chain c, slot i), Signatures[i].Signature)`". -/
structure Commit (κ η χ : Type) where
  height : Int
  round : Int
  blockHash : η
  blockIdZero : Bool
  slots : List Slot
  ver : χ → Nat → κ → Bool

/-- `Commit.ValidateBasic` -/
def Commit.validateBasic {κ η χ : Type} (c : Commit κ η χ) : Bool :=
  !decide (c.height < 0) && !decide (c.round < 0) &&
    (!decide (1 ≤ c.height) || (!c.blockIdZero && !c.slots.isEmpty && c.slots.all (·.basicOk)))

/-- The tally loop. `L` is the list the slot index is looked up in. A vote counts when
`commit.BlockID.Equals(commitSig.BlockID(commit.BlockID))`: flag `commit`, or the commit's own BlockID is zero. -/
def tallyTm {α κ η χ : Type} (c : Commit κ η χ) (chain : χ) (L : List (Val α κ)) :
    Nat → List Slot → Int → Except Err Int
  | _, [], t => .ok t
  | idx, s :: rest, t =>
    match s.flag with
    | .absent => tallyTm c chain L (idx + 1) rest t
    | .other => .error .panic
    | f =>
      match L[idx]? with
      | none => .error .panic
      | some v =>
        if !c.ver chain idx v.key then .error .sig
        else tallyTm c chain L (idx + 1) rest (if f == .commit || c.blockIdZero then t + v.power else t)

inductive Router where
  | cosmos | okex
  deriving DecidableEq, Repr

def thrTm : Router → Int → Int → Bool
  | .cosmos => cosmos_VerifyCosmosHeader0
  | .okex => okex_VerifyCosmosHeader0

/-- block version 11 (tendermint 0.34, protobuf hashes) is recognised by the cosmos router only -/
def isNew (R : Router) (ver : Nat) : Bool := R == .cosmos && decide (11 ≤ ver)

/-- `HashCosmosValSet` (cosmos) / `valset.Hash()` (okex) -/
def valSetHash {α κ η : Type} (R : Router) (H : Hashes α κ η) (ver : Nat) (vset : List (Val α κ)) : η :=
  if isNew R ver then H.new vset else H.legacy vset

/-- the list the slot index is looked up in: `GetValByIndex` (cosmos: the submitted order from block version 11 on) -/
def pairedTm {α κ η χ C : Type} (R : Router) (h : Header α κ η χ C) (vset : List (Val α κ)) : List (Val α κ) :=
  if isNew R h.version then h.vals else vset

/-- the chain id the router puts into the sign bytes: the header's (cosmos), the tracked one (okex) -/
def signChainTm {α κ η χ C : Type} (R : Router) (h : Header α κ η χ C) (info : Info η χ) : χ :=
  if R == .cosmos then h.chain else info.chain

/-- commit part of `VerifyCosmosHeader` -/
def verifyCommitTm {α κ η χ : Type} [BEq η] (R : Router) (c : Commit κ η χ) (height : Int) (hash : η)
    (vset L : List (Val α κ)) (chain : χ) : Except Err Unit :=
  if c.height != height then .error .commitheight
  else if !(c.blockHash == hash) then .error .commithash
  else if !c.validateBasic then .error .basic
  else if vset.length != c.slots.length then .error .size
  else match tallyTm c chain L 0 c.slots 0 with
    | .error e => .error e
    | .ok t => if thrTm R t (totalPower vset) then .error .power else .ok ()

/-- `VerifyCosmosHeader` of the cosmos and okex routers -/
def verifyTm {α κ η χ : Type} [BEq α] [BEq κ] [BEq η] (R : Router) (le : α → α → Bool) (H : Hashes α κ η)
    (h : Header α κ η χ (Commit κ η χ)) (info : Info η χ) : Except Err Unit :=
  match newValidatorSet le h.vals with
  | none => .error .panic
  | some vset =>
    if isNew R h.version && !keysDistinct (vset.map (·.key)) then .error .panic
    else if !(info.next == valSetHash R H h.version vset) && !(R == .cosmos && info.next == H.legacy vset) then .error .valhash
    else if !(h.valsHash == valSetHash R H h.version vset) then .error .hdrvalhash
    else match h.commit with
      | none => .error .panic
      | some c => verifyCommitTm R c h.height h.hash vset (pairedTm R h vset) (signChainTm R h info)

/-! ## heimdall: tendermint 0.32 style commits (peppermint) -/

/-- one non-nil precommit: `Type == PrecommitType`, height, round, `BlockID` equal to the commit's, `ValidatorIndex` -/
structure HVote where
  isPrecommit : Bool
  height : Int
  round : Int
  blockEq : Bool
  index : Int

structure HCommit (κ η χ : Type) where
  blockHash : η
  blockIdZero : Bool
  votes : List (Option HVote)
  ver : χ → Nat → κ → Bool

def firstVote : List (Option HVote) → Option HVote
  | [] => none
  | some v :: _ => some v
  | none :: rest => firstVote rest

/-- `Commit.Height()` / `Round()`: taken from the first non-nil precommit -/
def HCommit.height {κ η χ : Type} (c : HCommit κ η χ) : Int := match firstVote c.votes with | some v => v.height | none => 0
def HCommit.round {κ η χ : Type} (c : HCommit κ η χ) : Int := match firstVote c.votes with | some v => v.round | none => 0

def HCommit.validateBasic {κ η χ : Type} (c : HCommit κ η χ) : Bool :=
  !c.blockIdZero && !c.votes.isEmpty &&
    c.votes.all (fun o => match o with
      | none => true
      | some v => v.isPrecommit && v.height == c.height && v.round == c.round)

/-- The tally loop of the heimdall router (after the repair: the slice position is the validator index and a
precommit that claims another index is refused). -/
def tallyH {α κ η χ : Type} (c : HCommit κ η χ) (chain : χ) (L : List (Val α κ)) :
    Nat → List (Option HVote) → Int → Except Err Int
  | _, [], t => .ok t
  | idx, none :: rest, t => tallyH c chain L (idx + 1) rest t
  | idx, some v :: rest, t =>
    if v.index != (idx : Int) then .error .index
    else match L[idx]? with
      | none => .error .noval
      | some val =>
        if !v.isPrecommit then .error .votetype
        else if !c.ver chain idx val.key then .error .sig
        else tallyH c chain L (idx + 1) rest (if v.blockEq then t + val.power else t)

/-- commit part of the heimdall `VerifyCosmosHeader` -/
def verifyCommitH {α κ η χ : Type} [BEq η] (c : HCommit κ η χ) (height : Int) (hash : η)
    (vset : List (Val α κ)) (chain : χ) : Except Err Unit :=
  if c.height != height then .error .commitheight
  else if !(c.blockHash == hash) then .error .commithash
  else if !c.validateBasic then .error .basic
  else if vset.length != c.votes.length then .error .size
  else match tallyH c chain vset 0 c.votes 0 with
    | .error e => .error e
    | .ok t => if heimdall_VerifyCosmosHeader0 t (totalPower vset) then .error .power else .ok ()

/-- `VerifyCosmosHeader` of the heimdall router -/
def verifyH {α κ η χ : Type} [BEq α] [BEq η] (le : α → α → Bool) (H : Hashes α κ η)
    (h : Header α κ η χ (HCommit κ η χ)) (info : Info η χ) : Except Err Unit :=
  match newValidatorSet le h.vals with
  | none => .error .panic
  | some vset =>
    if !(info.next == H.legacy vset) then .error .valhash
    else if !(h.valsHash == H.legacy vset) then .error .hdrvalhash
    else match h.commit with
      | none => .error .panic
      | some c => verifyCommitH c h.height h.hash vset info.chain

/-! ## Handlers (generic in the header verification `V`) -/

/-- what the chain stores for one side chain: the epoch info and the done cross-chain ids -/
structure St (η χ μ : Type) where
  info : Option (Info η χ)
  done : List μ

def St.empty {η χ μ : Type} : St η χ μ := ⟨none, []⟩

abbrev Verifier (α κ η χ C : Type) := Header α κ η χ C → Info η χ → Except Err Unit

def adopt {α κ η χ C : Type} (info : Info η χ) (h : Header α κ η χ C) : Info η χ :=
  { info with next := h.nextValsHash, height := h.height, blockHash := h.hash }

/-- `SyncGenesisHeader` after the operator-witness gate (`witnessed`): decode, refuse a second genesis, store. -/
def genesis {α κ η χ C μ : Type} (st : St η χ μ) (witnessed : Bool) (hdr : Option (Header α κ η χ C)) : St η χ μ × Except Err Unit :=
  if !witnessed then (st, .error .witness)
  else match hdr with
    | none => (st, .error .unmarshal)
    | some h =>
      match st.info with
      | some _ => (st, .error .dup)
      | none => ({ st with info := some ⟨h.height, h.hash, h.nextValsHash, h.chain⟩ }, .ok ())

/-- the loop of `SyncBlockHeader`; `none` = bytes that do not decode -/
def syncLoop {α κ η χ C : Type} [BEq η] (V : Verifier α κ η χ C) :
    Info η χ → Nat → List (Option (Header α κ η χ C)) → Except Err (Info η χ × Nat)
  | info, cnt, [] => .ok (info, cnt)
  | _, _, none :: _ => .error .unmarshal
  | info, cnt, some h :: rest =>
    if h.nextValsHash == h.valsHash then syncLoop V info cnt rest
    else if decide (h.height ≤ info.height) then syncLoop V info cnt rest
    else match V h info with
      | .error e => .error e
      | .ok _ => syncLoop V (adopt info h) (cnt + 1) rest

def syncBlockHeader {α κ η χ C μ : Type} [BEq η] (V : Verifier α κ η χ C) (st : St η χ μ)
    (hs : List (Option (Header α κ η χ C))) : St η χ μ × Except Err Unit :=
  match st.info with
  | none => (st, .error .noinfo)
  | some info =>
    match syncLoop V info 0 hs with
    | .error e => (st, .error e)
    | .ok (info', cnt) => if cnt == 0 then (st, .error .useless) else ({ st with info := some info' }, .ok ())

/-! ## Deposits -/

/-- the proof runtime and the message decoder -/
structure ProofRt (η π μ τ : Type) where
  /-- `prt.VerifyValue(proof, root, keypath, value) == nil` -/
  verifyValue : π → η → String → μ → Bool
  /-- `prt.VerifyAbsence(proof, root, keypath) == nil` -/
  verifyAbsence : π → η → String → Bool
  /-- `MakeTxParam.Deserialization`: the message and its cross-chain id -/
  decodeTx : μ → Option (τ × μ)

/-- `EntranceParam` of a deposit: the height parameter, the header bytes (`none` = empty, `some none` = undecodable),
`Extra` decoded as `CosmosProofValue` (key path, value) and `Proof` decoded as `merkle.Proof`. -/
structure DepParam (α κ η χ C π μ : Type) where
  height : Int
  header : Option (Option (Header α κ η χ C))
  pv : Option (String × μ)
  proof : Option π

/-- header part shared by the cosmos and okex `MakeDepositProposal` -/
def depHeader {α κ η χ C π μ : Type} [BEq η] (V : Verifier α κ η χ C) (st : St η χ μ) (p : DepParam α κ η χ C π μ) :
    St η χ μ × Except Err (Header α κ η χ C) :=
  match st.info with
  | none => (st, .error .noinfo)
  | some info =>
    if decide (p.height < info.height) then (st, .error .low)
    else match p.header with
      | none => (st, .error .nohdr)
      | some none => (st, .error .unmarshal)
      | some (some h) =>
        if h.height != p.height then (st, .error .height)
        else match V h info with
          | .error e => (st, .error e)
          | .ok _ =>
            let st' := if !(h.valsHash == h.nextValsHash) && decide (info.height < h.height)
              then { st with info := some ⟨h.height, h.hash, h.nextValsHash, h.chain⟩ } else st
            (st', .ok h)

/-- `CheckDoneTx` / `PutDoneTx` and the result -/
def finishDeposit {η χ μ τ : Type} [BEq μ] (st : St η χ μ) (tx : τ) (ccid : μ) : St η χ μ × Except Err τ :=
  if st.done.contains ccid then (st, .error .done) else ({ st with done := ccid :: st.done }, .ok tx)

/-- cosmos `MakeDepositProposal` (after the repair: an empty key path is refused; a deposit must be proven to exist) -/
def depositCosmos {α κ η χ C π μ τ : Type} [BEq η] [BEq μ] (V : Verifier α κ η χ C) (P : ProofRt η π μ τ) (st : St η χ μ)
    (p : DepParam α κ η χ C π μ) : St η χ μ × Except Err τ :=
  match depHeader V st p with
  | (st', .error e) => (st', .error e)
  | (st', .ok h) =>
    match p.pv with
    | none => (st', .error .pv)
    | some (kp, value) =>
      match p.proof with
      | none => (st', .error .proof)
      | some proof =>
        if kp.isEmpty then (st', .error .kp)
        else if !P.verifyValue proof h.appHash kp value then (st', .error .verify)
        else match P.decodeTx value with
          | none => (st', .error .txparam)
          | some (tx, ccid) => finishDeposit st' tx ccid

/-- shape of the submitted proof as far as the okex handler inspects it -/
structure OkexShape where
  nOps : Nat
  key0Len : Nat
  key0HasPrefix : Bool   -- `0x05 ++ CCMC address` prefix of `Ops[0].Key`
  key1IsEvm : Bool

/-- okex `MakeDepositProposal`; `sideChain` = the chain is registered (`GetSideChain` returns a record; an unregistered
chain makes the handler dereference nil once the key-length test has passed); `keccak` = `ethcrypto.Keccak256` -/
def depositOkex {α κ η χ C π μ τ : Type} [BEq η] [BEq μ] (V : Verifier α κ η χ C) (P : ProofRt η π μ τ) (keccak : μ → μ)
    (shape : π → OkexShape) (sideChain : Bool) (st : St η χ μ) (p : DepParam α κ η χ C π μ) : St η χ μ × Except Err τ :=
  match depHeader V st p with
  | (st', .error e) => (st', .error e)
  | (st', .ok h) =>
    match p.pv with
    | none => (st', .error .pv)
    | some (kp, value) =>
      match p.proof with
      | none => (st', .error .proof)
      | some proof =>
        let sh := shape proof
        if sh.nOps != 2 then (st', .error .proofsize)
        else if sh.key0Len != 53 then (st', .error .keylen)
        else if !sideChain then (st', .error .panic)   -- `GetSideChain` returned (nil, nil): nil dereference
        else if !sh.key0HasPrefix then (st', .error .keyprefix)
        else if !sh.key1IsEvm then (st', .error .module)
        else if kp.isEmpty then (st', .error .kp)
        else if !P.verifyValue proof h.appHash kp (keccak value) then (st', .error .verify)
        else match P.decodeTx value with
          | none => (st', .error .txparam)
          | some (tx, ccid) => finishDeposit st' tx ccid

/-- external inputs of the okex handler: `ethcrypto.Keccak256`, the inspected shape of a proof, the registry lookup -/
structure OkexExt (π μ : Type) where
  keccak : μ → μ
  shape : π → OkexShape
  sideChain : Bool

/-- the deposit handler of a cosmos / okex router -/
def depositTm {α κ η χ π μ τ : Type} [BEq α] [BEq κ] [BEq η] [BEq μ] (R : Router) (le : α → α → Bool) (H : Hashes α κ η)
    (P : ProofRt η π μ τ) (X : OkexExt π μ) (st : St η χ μ) (p : DepParam α κ η χ (Commit κ η χ) π μ) :
    St η χ μ × Except Err τ :=
  match R with
  | .cosmos => depositCosmos (verifyTm .cosmos le H) P st p
  | .okex => depositOkex (verifyTm .okex le H) P X.keccak X.shape X.sideChain st p

/-- the heimdall router has no deposit handler of its own (bor deposits go through `VerifySpan` / the bor light client) -/
def noDeposit {α κ η χ C π μ τ : Type} (st : St η χ μ) (_ : DepParam α κ η χ C π μ) : St η χ μ × Except Err τ :=
  (st, .error .span)

/-- heimdall `VerifySpan` (no state change): header against the tracked info, proof shape, `VerifyValue`, span decoding -/
def verifySpan {α κ η χ C π μ τ : Type} (V : Verifier α κ η χ C) (P : ProofRt η π μ τ)
    (nOps : π → Nat) (key1IsBor : π → Bool) (st : St η χ μ) (h : Header α κ η χ C) (proof : π) (kp : String) (value : μ) :
    Except Err τ :=
  match st.info with
  | none => .error .noinfo
  | some info =>
    match V h info with
    | .error e => .error e
    | .ok _ =>
      if nOps proof != 2 then .error .proofsize
      else if !key1IsBor proof then .error .module
      else if !P.verifyValue proof h.appHash kp value then .error .verify
      else match P.decodeTx value with
        | none => .error .span
        | some (sp, _) => .ok sp

/-! ## Operations and runs (for the history theorems) -/

inductive Op (α κ η χ C π μ : Type) where
  | genesis (witnessed : Bool) (hdr : Option (Header α κ η χ C))
  | sync (hs : List (Option (Header α κ η χ C)))
  | deposit (p : DepParam α κ η χ C π μ)

/-- one operation of a router whose header verification is `V` and whose deposit handler is `D` -/
def applyOp {α κ η χ C π μ τ : Type} [BEq η] (V : Verifier α κ η χ C)
    (D : St η χ μ → DepParam α κ η χ C π μ → St η χ μ × Except Err τ) (st : St η χ μ) :
    Op α κ η χ C π μ → St η χ μ
  | .genesis w h => (genesis st w h).1
  | .sync hs => (syncBlockHeader V st hs).1
  | .deposit p => (D st p).1

def run {α κ η χ C π μ τ : Type} [BEq η] (V : Verifier α κ η χ C)
    (D : St η χ μ → DepParam α κ η χ C π μ → St η χ μ × Except Err τ) (st : St η χ μ) :
    List (Op α κ η χ C π μ) → St η χ μ
  | [] => st
  | o :: os => run V D (applyOp V D st o) os

end Poly.Model.LCTm
