/-
Handlers of the governance contracts that range over a Go map, with the iteration order as an explicit argument
(C16 a). A Go map is given as the list of its entries *in the order this particular `range` visits them*; keys are
pairwise different. Every function below is the loop as written in Go, executed in that order. Core-only.

* `mergeRange`      `for k, v := range src { dst[k] = v }`              RegisterAsset (AssetMap, LockProxyMap),
                                                                        RegisterRedeem / SetBtcTxParam (verified signatures)
* `collectSorted`   `for _, v := range m { l = append(l, v) }; sort.SliceStable(l, by key)`
                                                                        every *.Serialization of a record holding a map
                                                                        (PeerPoolMap, FeeInfo, AssetBind, BindSignInfo …)
* `commitPool`      the loop of `executeCommitDpos` (quitting and black-listed peers leave, the others become consensus)
* `activeCount`     the counting loops of `BlackNode` / `QuitNode`
* `feeValues`       `for _, v := range feeInfo.FeeInfo { l = append(l, v) }` of `UpdateFee` (then sorted, median taken)
-/
namespace Poly.Model.Order

section Map
variable {κ ν : Type} [DecidableEq κ]

def mget : List (κ × ν) → κ → Option ν
  | [], _ => none
  | (k, v) :: r, x => if k = x then some v else mget r x

/-- `m[k] = v` -/
def mput : List (κ × ν) → κ → ν → List (κ × ν)
  | [], k, v => [(k, v)]
  | (k', v') :: r, k, v => if k' = k then (k, v) :: r else (k', v') :: mput r k v

/-- `for k, v := range src { dst[k] = v }` visiting `src` in the given order. -/
def mergeRange (dst src : List (κ × ν)) : List (κ × ν) := src.foldl (fun d kv => mput d kv.1 kv.2) dst

def keys (m : List (κ × ν)) : List κ := m.map (·.1)

end Map

section Sorted
variable {α : Type}

/-- `for _, v := range m { l = append(l, v) }` then `sort.SliceStable(l, less)`: the collected list is the map's
entries in iteration order; the stable sort is merge sort with `le a b := !less b a`. -/
def collectSorted (le : α → α → Bool) (visited : List α) : List α := visited.mergeSort le

end Sorted

/-! ### Peer pool -/

inductive PStatus | candidate | consensus | quiting | black
deriving DecidableEq, Repr

structure PeerItem where
  pubkey : List UInt8
  index : Nat
  status : PStatus
deriving DecidableEq, Repr

/-- One iteration of the loop of `executeCommitDpos` on the entry it visits: a quitting or black-listed peer is
deleted from the map, a candidate or consensus peer gets consensus status (no iteration touches another entry). -/
def commitEntry (p : PeerItem) : Option PeerItem :=
  match p.status with
  | .quiting => none
  | .black => none
  | _ => some { p with status := .consensus }

/-- The pool written for the new view, as the entries that survive, in visiting order. -/
def commitPool (visited : List PeerItem) : List PeerItem := visited.filterMap commitEntry

/-- `num` of `BlackNode` / `QuitNode`: candidate and consensus peers. -/
def activeCount (visited : List PeerItem) : Nat :=
  visited.foldl (fun n p => if p.status = .candidate ∨ p.status = .consensus then n + 1 else n) 0

/-! ### UpdateFee -/

/-- `for _, v := range feeInfo.FeeInfo { feeInfoList = append(feeInfoList, v) }` -/
def feeValues {κ : Type} (visited : List (κ × Nat)) : List Nat := visited.map (·.2)

def insertDesc (x : Nat) : List Nat → List Nat
  | [] => [x]
  | y :: t => if x ≥ y then x :: y :: t else y :: insertDesc x t

/-- `sort.SliceStable(l, func(i, j) bool { return l[i].Cmp(l[j]) >= 1 })` on numbers. -/
def sortDesc (l : List Nat) : List Nat := l.foldr insertDesc []

/-- The fee installed at the quorum: 5 × median (even count: 5 × mean of the two middle values, rounded down). -/
def medianFee (vals : List Nat) : Nat :=
  let l := sortDesc vals
  if l.length % 2 = 0 then ((l.getD (l.length / 2) 0 + l.getD (l.length / 2 - 1) 0) * 5) / 2
  else l.getD ((l.length - 1) / 2) 0 * 5

end Poly.Model.Order
