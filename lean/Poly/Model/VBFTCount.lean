import Poly.Generated.Thresholds
/-
Model of the VBFT round-decision counting (C41): consensus/vbft/block_pool.go (newBlockProposal,
newBlockEndorsement, addBlockEndorsementLocked, newBlockCommitment, endorseDone, commitDone,
addSignaturesToBlockLocked) and consensus/vbft/node_utils.go getCommitConsensus.

Conventions: participants (`uint32` peer indices) are `Nat`; signatures and block hashes are opaque byte strings;
the Go map `EndorseSigs : endorser -> []*CandidateEndorseSigInfo` is an association list with one entry per
endorser; every function that ranges over that map takes the iteration order of its keys as the explicit
argument `order` (theorems are for every duplicate-free order); `EndorsersSig` of a commit message is a Go map
too: a key-unique list whose order is irrelevant for the result. The commit threshold is the generated definition
`Poly.Generated.Thresholds.vbft_getCommitConsensus0` (regenerated from node_utils.go on every run).
Only the counting is modelled: timers, networking, signature verification of the messages (C44) are not.
-/
namespace Poly.Model.VBFTCount

abbrev Bytes := List UInt8

/-- `CandidateEndorseSigInfo` -/
structure ESig where
  proposer : Nat
  sig : Bytes
  forEmpty : Bool
deriving Repr, DecidableEq

abbrev ESigs := List (Nat × List ESig)

def lookup (m : ESigs) (e : Nat) : Option (List ESig) :=
  match m.find? (·.1 == e) with
  | some x => some x.2
  | none => none

/-- `m[e] = l` -/
def insert (m : ESigs) (e : Nat) (l : List ESig) : ESigs :=
  if m.any (·.1 == e) then m.map fun x => if x.1 == e then (e, l) else x else m ++ [(e, l)]

/-- `addBlockEndorsementLocked(blkNum, endorser, eSig, commitment)` -/
def addEndorsement (m : ESigs) (endorser : Nat) (s : ESig) (commitment : Bool) : ESigs :=
  match lookup m endorser with
  | some eSigs =>
    if !commitment then
      if eSigs.any (·.forEmpty) then m                      -- has endorsed for empty, ignore new endorsement
      else if s.forEmpty then insert m endorser (eSigs ++ [s])
      else if eSigs.any (·.proposer == s.proposer) then m   -- dup endorsement
      else insert m endorser (eSigs ++ [s])
    else insert m endorser [s]
  | none => insert m endorser [s]

structure Proposal where
  proposer : Nat
  sig : Bytes            -- Block.Header.SigData[0]
deriving Repr, DecidableEq

structure CommitMsg where
  committer : Nat
  proposer : Nat
  hash : Bytes
  forEmpty : Bool
  endorsersSig : List (Nat × Bytes)
  committerSig : Bytes
deriving Repr, DecidableEq

/-- `CandidateInfo` of one block number (the fields the counting uses). -/
structure Cand where
  proposals : List Proposal := []
  commitMsgs : List CommitMsg := []
  esigs : ESigs := []
deriving Repr

inductive AddRes where
  | ok            -- nil
  | dup           -- errDupProposal / errDupCommit
deriving Repr, DecidableEq

/-- `newBlockProposal` -/
def newBlockProposal (c : Cand) (p : Proposal) : Cand × AddRes :=
  match c.proposals.find? (·.proposer == p.proposer) with
  | some q => if q.sig == p.sig then (c, .ok) else (c, .dup)
  | none =>
    ({ c with proposals := c.proposals ++ [p],
              esigs := addEndorsement c.esigs p.proposer ⟨p.proposer, p.sig, false⟩ false }, .ok)

/-- `newBlockEndorsement` -/
def newBlockEndorsement (c : Cand) (endorser : Nat) (s : ESig) : Cand :=
  { c with esigs := addEndorsement c.esigs endorser s false }

/-- `newBlockCommitment` -/
def newBlockCommitment (c : Cand) (msg : CommitMsg) : Cand × AddRes :=
  match c.commitMsgs.find? (·.committer == msg.committer) with
  | some q => if q.hash == msg.hash then (c, .ok) else (c, .dup)
  | none =>
    let es := msg.endorsersSig.foldl
      (fun m x => addEndorsement m x.1 ⟨msg.proposer, x.2, msg.forEmpty⟩ false) c.esigs
    let es := addEndorsement es msg.committer ⟨msg.proposer, msg.committerSig, msg.forEmpty⟩ true
    ({ c with esigs := es, commitMsgs := c.commitMsgs ++ [msg] }, .ok)

/-- The sequence of (endorser, entry) pairs that `for endorser, eSigs := range EndorseSigs { for _, s := range eSigs`
    visits when the map keys come in the order `order`. -/
def visits (m : ESigs) (order : List Nat) : List (Nat × ESig) :=
  order.flatMap fun e => ((lookup m e).getD []).map fun s => (e, s)

/-- Scan of endorseDone: `seen` lists the proposers of the non-empty entries counted so far
    (`endorseCount[p]` = occurrences of p in `seen`), `empty` = `emptyEndorseCount`. -/
def edScan (C : Nat) : List (Nat × ESig) → List Nat → Nat → Option (Nat × Bool)
  | [], _, _ => none
  | (_, s) :: rest, seen, empty =>
    if s.forEmpty then
      if empty + 1 > C then some (s.proposer, true) else edScan C rest seen (empty + 1)
    else
      if (s.proposer :: seen).count s.proposer > C then some (s.proposer, false)
      else edScan C rest (s.proposer :: seen) empty

/-- `endorseDone(blkNum, C)`: `some (proposer, forEmpty)` when done. -/
def endorseDone (c : Cand) (order : List Nat) (C : Nat) : Option (Nat × Bool) :=
  if c.esigs.length < C + 1 then none else edScan C (visits c.esigs order) [] 0

/-- Set insert for `signCount[proposer]` (a map used as a set). -/
def sinsert (s : List Nat) (x : Nat) : List Nat := if s.contains x then s else s ++ [x]

def signersOf (msg : CommitMsg) : List Nat := msg.committer :: msg.endorsersSig.map (·.1)

def getSet (m : List (Nat × List Nat)) (p : Nat) : List Nat :=
  match m.find? (·.1 == p) with
  | some x => x.2
  | none => []

/-- `signCount[p] = s` (newest binding first; `getSet` returns the first binding of a key) -/
def putSet (m : List (Nat × List Nat)) (p : Nat) (s : List Nat) : List (Nat × List Nat) := (p, s) :: m

/-- The loop of getCommitConsensus. `C` is only compared with the number of empty commits (it is bumped once). -/
def gccLoop (N : Nat) : List CommitMsg → (C : Nat) → (emptyCount : Nat) → (emptyCommit : Bool) →
    List (Nat × List Nat) → Option (Nat × Bool)
  | [], _, _, _, _ => none
  | c :: rest, C, emptyCount, emptyCommit, signCount =>
    let emptyCount' := if c.forEmpty then emptyCount + 1 else emptyCount
    let bump := c.forEmpty && emptyCount' > C && !emptyCommit
    let C' := if bump then C + 1 else C
    let emptyCommit' := emptyCommit || bump
    let set := (signersOf c).foldl sinsert (getSet signCount c.proposer)
    if Poly.Generated.Thresholds.vbft_getCommitConsensus0 (set.length : Int) (N : Int) then some (c.proposer, emptyCommit')
    else gccLoop N rest C' emptyCount' emptyCommit' (putSet signCount c.proposer set)

/-- `getCommitConsensus(commitMsgs, C, N)` -/
def getCommitConsensus (msgs : List CommitMsg) (C N : Nat) : Option (Nat × Bool) := gccLoop N msgs C 0 false []

/-- Inner loop of the endorsement fallback of commitDone over one endorser's entries. Returns the new
    (emptyCnt, seen) and the proposer that reached the bound, if any. -/
def cdInner (C' : Nat) : List ESig → Nat → List Nat → Nat × List Nat × Option Nat
  | [], emptyCnt, seen => (emptyCnt, seen, none)
  | s :: rest, emptyCnt, seen =>
    if s.forEmpty then cdInner C' rest (emptyCnt + 1) seen
    else if (s.proposer :: seen).count s.proposer > C' then (emptyCnt, s.proposer :: seen, some s.proposer)
    else cdInner C' rest emptyCnt (s.proposer :: seen)

def cdScan (m : ESigs) (isEndorser : Nat → Bool) (C' : Nat) : List Nat → Nat → List Nat → Option (Nat × Nat)
  | [], _, _ => none
  | e :: rest, emptyCnt, seen =>
    let eSigs := (lookup m e).getD []
    let emptyCnt := if !isEndorser e then emptyCnt + (eSigs.filter (·.forEmpty)).length else emptyCnt
    match cdInner C' eSigs emptyCnt seen with
    | (emptyCnt', _, some p) => some (p, emptyCnt')
    | (emptyCnt', seen', none) => cdScan m isEndorser C' rest emptyCnt' seen'

/-- `commitDone(blkNum, C, N)`; `C = N - 1 - C` is uint32 arithmetic. -/
def commitDone (c : Cand) (order : List Nat) (isEndorser : Nat → Bool) (C N : Nat) : Option (Nat × Bool) :=
  match getCommitConsensus c.commitMsgs C N with
  | some r => some r
  | none =>
    let C' := (N + 4294967296 - 1 - C) % 4294967296
    match cdScan c.esigs isEndorser C' order 0 [] with
    | some (p, emptyCnt) => some (p, emptyCnt > C')
    | none => none

/-- `addSignaturesToBlockLocked`: (participant, signature) pairs put into the sealed header: the proposer's own
    signature first, then for every endorser (in map order) other than the proposer that has a key in the peer pool
    the first entry endorsing this proposer with the same empty flag. -/
def sealSignatures (m : ESigs) (order : List Nat) (hasKey : Nat → Bool) (proposer : Nat) (proposerSig : Bytes)
    (forEmpty : Bool) : List (Nat × Bytes) :=
  (proposer, proposerSig) ::
    order.filterMap fun e =>
      match ((lookup m e).getD []).find? (fun s => s.proposer == proposer && s.forEmpty == forEmpty && e != proposer) with
      | some s => if hasKey e then some (e, s.sig) else none
      | none => none

/-! ### Histories of messages on one candidate record -/

inductive Msg where
  | proposal (p : Proposal)
  | endorse (endorser : Nat) (s : ESig)
  | commit (m : CommitMsg)

def stepMsg (c : Cand) : Msg → Cand
  | .proposal p => (newBlockProposal c p).1
  | .endorse e s => newBlockEndorsement c e s
  | .commit m => (newBlockCommitment c m).1

def runMsgs (msgs : List Msg) : Cand := msgs.foldl stepMsg {}

end Poly.Model.VBFTCount
