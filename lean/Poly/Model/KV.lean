/-
Model of the in-memory write buffer `overlaydb.MemDB` (core/store/overlaydb/memdb.go) and of its range
iterator `dbIter`, at the abstraction "level-0 list of the skip list": the buffer is the list of its
(key, value) nodes in key order.  Keys/values are byte lists; the order is `bytes.Compare` (`cmpB`).
An empty value is a tombstone (Delete = Put(key, nil)); nodes are never removed except by Reset.
Also: goleveldb `util.BytesPrefix`.

Everything here is executable (used by `Driver/KV.lean`) and core-only.
-/
namespace Poly.Model.KV

abbrev Key := List UInt8
abbrev Val := List UInt8
abbrev Entries := List (Key × Val)

/-- `bytes.Compare` (comparer.DefaultComparer): lexicographic on unsigned bytes, a proper prefix is smaller. -/
def cmpB : List UInt8 → List UInt8 → Ordering
  | [], [] => .eq
  | [], _ :: _ => .lt
  | _ :: _, [] => .gt
  | a :: as, b :: bs => if a < b then .lt else if b < a then .gt else cmpB as bs

/-- `a < b` in byte order, as a Bool. -/
def ltB (a b : Key) : Bool := cmpB a b == .lt

/-! ### The buffer as an ordered association list -/

/-- `findGE(key, prev=true)` followed by the two branches of `Put`: overwrite the node with the same key
(the node keeps its place), otherwise link a new node before the first greater key. -/
def insert (k : Key) (v : Val) : Entries → Entries
  | [] => [(k, v)]
  | (k', v') :: r =>
    match cmpB k k' with
    | .lt => (k, v) :: (k', v') :: r
    | .eq => (k', v) :: r
    | .gt => (k', v') :: insert k v r

/-- Value stored in the node with exactly this key (`findGE(key,false)` with `exact`). -/
def lookup (k : Key) : Entries → Option Val
  | [] => none
  | (k', v') :: r =>
    match cmpB k k' with
    | .lt => none
    | .eq => some v'
    | .gt => lookup k r

/-- Three-valued answer of `MemDB.Get`: `(value, unknown)`. -/
inductive Look where
  | known (v : Val)      -- value non-empty
  | knownAbsent          -- node exists with empty value (deleted): `nil, false`
  | unknown              -- no node: `nil, true`
  deriving DecidableEq, Repr

def get (k : Key) (m : Entries) : Look :=
  match lookup k m with
  | none => .unknown
  | some [] => .knownAbsent
  | some (b :: v) => .known (b :: v)

/-- The buffer with the two counters `n` and `kvSize` that `Put` maintains incrementally. -/
structure MemDB where
  ents : Entries := []
  n : Nat := 0
  kvSize : Int := 0
  deriving Repr

def MemDB.empty : MemDB := {}

def MemDB.put (p : MemDB) (k : Key) (v : Val) : MemDB :=
  match lookup k p.ents with
  | some old =>   -- exact: value length replaced, `kvSize += len(value) - m`
    { ents := insert k v p.ents, n := p.n, kvSize := p.kvSize + (v.length : Int) - (old.length : Int) }
  | none =>       -- new node: `kvSize += len(key)+len(value); n++`
    { ents := insert k v p.ents, n := p.n + 1, kvSize := p.kvSize + ((k.length + v.length : Nat) : Int) }

def MemDB.delete (p : MemDB) (k : Key) : MemDB := p.put k []

def MemDB.get (p : MemDB) (k : Key) : Look := KV.get k p.ents

def MemDB.reset (_ : MemDB) : MemDB := {}

/-- `MemDB.Find`: first node with key ≥ `k` (tombstones included, value nil when empty). -/
def findGE (k : Key) (m : Entries) : Option (Key × Val) := m.find? (fun e => !(ltB e.1 k))

/-- Successor of the node with key `k` on level 0 (`nodeData[node+nNext]`). -/
def succ (k : Key) (m : Entries) : Option (Key × Val) := m.find? (fun e => ltB k e.1)

/-- `findLT(key)`: last node with key < `key`. -/
def findLT (k : Key) (m : Entries) : Option (Key × Val) := (m.filter (fun e => ltB e.1 k)).getLast?

/-- `findLast()`. -/
def findLast (m : Entries) : Option (Key × Val) := m.getLast?

/-! ### `util.Range` and `util.BytesPrefix` -/

/-- `util.Range{Start, Limit}`; `none` = nil slice (unbounded on that side). -/
structure Range where
  start : Option Key
  limit : Option Key
  deriving Repr

/-- The `limit` of `util.BytesPrefix`: the prefix up to its last byte that is < 0xff, with that byte
incremented; nil when there is no such byte. -/
def prefixLimit : List UInt8 → Option (List UInt8)
  | [] => none
  | c :: r =>
    match prefixLimit r with
    | some l => some (c :: l)
    | none => if c < 0xff then some [c + 1] else none

def bytesPrefix (p : Key) : Range := { start := some p, limit := prefixLimit p }

/-- Membership of a key in `[start, limit)` with nil = unbounded. -/
def Range.contains (r : Range) (k : Key) : Bool :=
  (match r.start with | some s => !(ltB k s) | none => true) &&
  (match r.limit with | some l => ltB k l | none => true)

def inSlice (s : Option Range) (k : Key) : Bool :=
  match s with
  | none => true
  | some r => r.contains k

/-! ### The iterator `dbIter` -/

/-- `dbIter`: `cur = some (key, value)` iff `node != 0`; key and value are the slices cached by `fill`
(a node's key never changes, so the cached key identifies the node). -/
structure Iter where
  slice : Option Range := none
  cur : Option (Key × Val) := none
  forward : Bool := false
  released : Bool := false
  err : Bool := false
  deriving Repr

def Iter.new (s : Option Range) : Iter := { slice := s }

def Iter.valid (it : Iter) : Bool := it.cur.isSome
def Iter.key (it : Iter) : Key := match it.cur with | some e => e.1 | none => []
def Iter.value (it : Iter) : Val := match it.cur with | some e => e.2 | none => []

/-- The bound tests of `fill(checkStart, checkLimit)`. -/
def Iter.outOfBounds (it : Iter) (k : Key) (checkStart checkLimit : Bool) : Bool :=
  match it.slice with
  | none => false
  | some r =>
    (checkLimit && (match r.limit with | some l => !(ltB k l) | none => false)) ||
    (checkStart && (match r.start with | some s => ltB k s | none => false))

/-- `fill`: `node` is the node the caller just moved to. -/
def Iter.fill (it : Iter) (node : Option (Key × Val)) (checkStart checkLimit : Bool) : Iter × Bool :=
  match node with
  | none => ({ it with cur := none }, false)
  | some e =>
    if it.outOfBounds e.1 checkStart checkLimit then ({ it with cur := none }, false)
    else ({ it with cur := some e }, true)

def Iter.startKey (it : Iter) : Option Key := match it.slice with | some r => r.start | none => none
def Iter.limitKey (it : Iter) : Option Key := match it.slice with | some r => r.limit | none => none

def Iter.first (it : Iter) (m : Entries) : Iter × Bool :=
  if it.released then ({ it with err := true }, false) else
  let it := { it with forward := true }
  let node := match it.startKey with
    | some s => findGE s m
    | none => m.head?
  it.fill node false true

def Iter.last (it : Iter) (m : Entries) : Iter × Bool :=
  if it.released then ({ it with err := true }, false) else
  let it := { it with forward := false }
  let node := match it.limitKey with
    | some l => findLT l m
    | none => findLast m
  it.fill node true false

def Iter.seek (it : Iter) (m : Entries) (key : Key) : Iter × Bool :=
  if it.released then ({ it with err := true }, false) else
  let it := { it with forward := true }
  let key := match it.startKey with
    | some s => if ltB key s then s else key
    | none => key
  it.fill (findGE key m) false true

def Iter.next (it : Iter) (m : Entries) : Iter × Bool :=
  if it.released then ({ it with err := true }, false) else
  match it.cur with
  | none => if !it.forward then it.first m else (it, false)
  | some e =>
    let it := { it with forward := true }
    it.fill (succ e.1 m) false true

def Iter.prev (it : Iter) (m : Entries) : Iter × Bool :=
  if it.released then ({ it with err := true }, false) else
  match it.cur with
  | none => if it.forward then it.last m else (it, false)
  | some e =>
    let it := { it with forward := false }
    it.fill (findLT e.1 m) true false

def Iter.release (it : Iter) : Iter :=
  if it.released then it else { it with cur := none, released := true }

/-! ### Whole scans (First, then Next until it returns false; Last, then Prev) -/

def walkNext (m : Entries) : Nat → Iter → Entries
  | 0, _ => []
  | n + 1, it =>
    match it.cur with
    | none => []
    | some e => e :: walkNext m n (it.next m).1

def walkPrev (m : Entries) : Nat → Iter → Entries
  | 0, _ => []
  | n + 1, it =>
    match it.cur with
    | none => []
    | some e => e :: walkPrev m n (it.prev m).1

/-- Forward scan of the range `s` (fuel = number of nodes + 1). -/
def scanFwd (s : Option Range) (m : Entries) : Entries := walkNext m (m.length + 1) ((Iter.new s).first m).1

/-- Backward scan. -/
def scanBwd (s : Option Range) (m : Entries) : Entries := walkPrev m (m.length + 1) ((Iter.new s).last m).1

end Poly.Model.KV
