/-
Model of the VBFT consensus message layer (C44):
  consensus/vbft/msg_types.go, msg_builder.go (SerializeVbftMsg / DeserializeVbftMsg), types.go (Block),
  p2pserver/message/types/consensus_payload.go (ConsensusPayload), core/types/header.go (unsigned header bytes).

Binary parts are modelled byte for byte with a small self-contained codec (little-endian integers, var-uint,
var-bytes as in common/zero_copy_sink.go / zero_copy_source.go). JSON parts are abstract: a JSON-encoded struct
is a list of (tag, value) pairs. Hash function and signature verification are parameters.
-/
namespace Poly.Model.CMsg

abbrev Bytes := List UInt8

/-! ### integers -/

/-- `w` little-endian bytes of `n` (truncating like the Go `uintN` conversion) -/
def leN : Nat → Nat → Bytes
  | 0, _ => []
  | w + 1, n => (n % 256).toUInt8 :: leN w (n / 256)

def unLe : Bytes → Nat
  | [] => 0
  | b :: r => b.toNat + 256 * unLe r

/-- `WriteVarUint` -/
def varUint (n : Nat) : Bytes :=
  if n < 0xFD then [n.toUInt8]
  else if n ≤ 0xFFFF then 0xFD :: leN 2 n
  else if n ≤ 0xFFFFFFFF then 0xFE :: leN 4 n
  else 0xFF :: leN 8 n

/-- `WriteVarBytes` -/
def varBytes (b : Bytes) : Bytes := varUint b.length ++ b

/-! ### source (reader): each function returns the value and the unread rest, `none` = eof -/

def takeN (n : Nat) (s : Bytes) : Option (Bytes × Bytes) :=
  if s.length < n then none else some (s.take n, s.drop n)

def readLe (w : Nat) (s : Bytes) : Option (Nat × Bytes) :=
  match takeN w s with
  | some (b, r) => some (unLe b, r)
  | none => none

/-- `NextVarUint` (accepts non-canonical forms, as the code does) -/
def readVarUint (s : Bytes) : Option (Nat × Bytes) :=
  match s with
  | [] => none
  | fb :: r =>
    if fb = 0xFD then readLe 2 r
    else if fb = 0xFE then readLe 4 r
    else if fb = 0xFF then readLe 8 r
    else some (fb.toNat, r)

/-- `NextVarBytes` -/
def readVarBytes (s : Bytes) : Option (Bytes × Bytes) :=
  match readVarUint s with
  | some (n, r) => takeN n r
  | none => none

/-! ### ConsensusPayload -/

structure CPayload where
  version : Nat          -- uint32
  prevHash : Bytes       -- 32 bytes
  height : Nat           -- uint32
  bookkeeperIndex : Nat  -- uint16
  timestamp : Nat        -- uint32
  data : Bytes
  owner : Bytes          -- keypair.SerializePublicKey(Owner)
  signature : Bytes
  peerId : Nat           -- neither serialized nor signed
deriving DecidableEq, Repr

/-- The six signed fields. -/
structure CSigned where
  version : Nat
  prevHash : Bytes
  height : Nat
  bookkeeperIndex : Nat
  timestamp : Nat
  data : Bytes
deriving DecidableEq, Repr

def CPayload.signed (p : CPayload) : CSigned :=
  ⟨p.version, p.prevHash, p.height, p.bookkeeperIndex, p.timestamp, p.data⟩

def CSigned.WF (s : CSigned) : Prop :=
  s.version < 2 ^ 32 ∧ s.prevHash.length = 32 ∧ s.height < 2 ^ 32 ∧ s.bookkeeperIndex < 2 ^ 16 ∧
  s.timestamp < 2 ^ 32 ∧ s.data.length < 2 ^ 64

/-- `SerializeUnsigned` / `serializationUnsigned`: the bytes that are signed. -/
def CSigned.bytes (s : CSigned) : Bytes :=
  leN 4 s.version ++ (s.prevHash ++ (leN 4 s.height ++ (leN 2 s.bookkeeperIndex ++ (leN 4 s.timestamp ++ varBytes s.data))))

/-- `deserializationUnsigned` -/
def readSigned (s : Bytes) : Option (CSigned × Bytes) :=
  match readLe 4 s with
  | none => none
  | some (v, s1) =>
  match takeN 32 s1 with
  | none => none
  | some (ph, s2) =>
  match readLe 4 s2 with
  | none => none
  | some (h, s3) =>
  match readLe 2 s3 with
  | none => none
  | some (bi, s4) =>
  match readLe 4 s4 with
  | none => none
  | some (ts, s5) =>
  match readVarBytes s5 with
  | none => none
  | some (d, s6) => some (⟨v, ph, h, bi, ts, d⟩, s6)

/-- `Serialization` -/
def CPayload.encode (p : CPayload) : Bytes :=
  p.signed.bytes ++ (varBytes p.owner ++ varBytes p.signature)

inductive DecErr where
  | eof | pubkey | json | len | inner | unknown
deriving DecidableEq, Repr

/-- `Deserialization`; `keyOk` is `keypair.DeserializePublicKey` succeeding on the owner bytes (external). -/
def decodePayload (keyOk : Bytes → Bool) (s : Bytes) : Except DecErr CPayload :=
  match readSigned s with
  | none => .error .eof
  | some (sg, s1) =>
  match readVarBytes s1 with
  | none => .error .eof
  | some (own, s2) =>
    if !keyOk own then .error .pubkey else
    match readVarBytes s2 with
    | none => .error .eof
    | some (sig, _) =>
      .ok ⟨sg.version, sg.prevHash, sg.height, sg.bookkeeperIndex, sg.timestamp, sg.data, own, sig, 0⟩

/-- `ConsensusPayload.Verify`: `verify owner message signature` is the external signature check. -/
def CPayload.verify (verify : Bytes → Bytes → Bytes → Bool) (p : CPayload) : Bool :=
  verify p.owner p.signed.bytes p.signature

/-! ### Block header: the bytes under the block hash (`serializationUnsigned`) -/

structure HeaderU where
  version : Nat          -- uint32
  chainID : Nat          -- uint64
  prevBlockHash : Bytes  -- 32
  txRoot : Bytes         -- 32
  crossStateRoot : Bytes -- 32
  blockRoot : Bytes      -- 32
  timestamp : Nat        -- uint32
  height : Nat           -- uint32
  consensusData : Nat    -- uint64
  consensusPayload : Bytes
  nextBookkeeper : Bytes -- 20
deriving DecidableEq, Repr

def HeaderU.WF (h : HeaderU) : Prop :=
  h.version < 2 ^ 32 ∧ h.chainID < 2 ^ 64 ∧ h.prevBlockHash.length = 32 ∧ h.txRoot.length = 32 ∧
  h.crossStateRoot.length = 32 ∧ h.blockRoot.length = 32 ∧ h.timestamp < 2 ^ 32 ∧ h.height < 2 ^ 32 ∧
  h.consensusData < 2 ^ 64 ∧ h.consensusPayload.length < 2 ^ 64 ∧ h.nextBookkeeper.length = 20

def HeaderU.bytes (h : HeaderU) : Bytes :=
  leN 4 h.version ++ (leN 8 h.chainID ++ (h.prevBlockHash ++ (h.txRoot ++ (h.crossStateRoot ++ (h.blockRoot ++
    (leN 4 h.timestamp ++ (leN 4 h.height ++ (leN 8 h.consensusData ++ (varBytes h.consensusPayload ++ h.nextBookkeeper)))))))))

def readHeaderU (s : Bytes) : Option (HeaderU × Bytes) :=
  match readLe 4 s with
  | none => none
  | some (v, s1) =>
  match readLe 8 s1 with
  | none => none
  | some (c, s2) =>
  match takeN 32 s2 with
  | none => none
  | some (a1, s3) =>
  match takeN 32 s3 with
  | none => none
  | some (a2, s4) =>
  match takeN 32 s4 with
  | none => none
  | some (a3, s5) =>
  match takeN 32 s5 with
  | none => none
  | some (a4, s6) =>
  match readLe 4 s6 with
  | none => none
  | some (ts, s7) =>
  match readLe 4 s7 with
  | none => none
  | some (ht, s8) =>
  match readLe 8 s8 with
  | none => none
  | some (cd, s9) =>
  match readVarBytes s9 with
  | none => none
  | some (cp, s10) =>
  match takeN 20 s10 with
  | none => none
  | some (nb, s11) => some (⟨v, c, a1, a2, a3, a4, ts, ht, cd, cp, nb⟩, s11)

/-- `Header.Hash()`: double hash of the unsigned bytes; the message signed by the proposer. -/
def HeaderU.hash (H : Bytes → Bytes) (h : HeaderU) : Bytes := H (H h.bytes)

/-- `blockProposalMsg.Verify` restricted to one block: `sigData[0]` over the header hash. -/
def verifyBlockSig (H : Bytes → Bytes) (verify : Bytes → Bytes → Bytes → Bool) (pub : Bytes) (h : HeaderU)
    (sigData : List Bytes) : Bool :=
  match sigData with
  | [] => false
  | sg :: _ => verify pub (h.hash H) sg

/-- A proposal carries the block, optionally the empty block, each with its own signature list. -/
structure Proposal where
  block : HeaderU
  blockSigs : List Bytes
  empty : Option (HeaderU × List Bytes)

/-- `blockProposalMsg.Verify` -/
def Proposal.verify (H : Bytes → Bytes) (verify : Bytes → Bytes → Bytes → Bool) (pub : Bytes) (p : Proposal) : Bool :=
  verifyBlockSig H verify pub p.block p.blockSigs &&
  match p.empty with
  | none => true
  | some (eh, es) => verifyBlockSig H verify pub eh es

/-! ### vbft.Block wire form (types.go): varbytes(block) ++ [varbytes(emptyBlock)] -/

def blockPairEncode (blk : Bytes) (empty : Option Bytes) : Bytes :=
  varBytes blk ++ (match empty with | some e => varBytes e | none => [])

/-- `Block.Deserialize` at the byte-string level: `blockOk` is `types.BlockFromRawBytes` succeeding (external),
`infoOk` the JSON decoding of the header's consensus payload. A second block that does not parse is dropped
silently, as in the code. Returns the raw block bytes and the raw empty-block bytes. -/
def blockPairDecode (blockOk infoOk : Bytes → Bool) (s : Bytes) : Except DecErr (Bytes × Option Bytes) :=
  match readVarBytes s with
  | none => .error .eof
  | some (b1, r) =>
    if !blockOk b1 then .error .inner
    else if !infoOk b1 then .error .json
    else if r.length > 0 then
      match readVarBytes r with
      | none => .error .eof
      | some (b2, _) => if blockOk b2 then .ok (b1, some b2) else .ok (b1, none)
    else .ok (b1, none)

/-- `BlockFetchRespMsg.Serialize` -/
def fetchRespEncode (blockNum : Nat) (blockHash : Bytes) (pair : Bytes) : Bytes :=
  leN 4 blockNum ++ (blockHash ++ pair)

/-- `BlockFetchRespMsg.Deserialize` (header part; the rest is a Block) -/
def fetchRespDecode (s : Bytes) : Option (Nat × Bytes × Bytes) :=
  match readLe 4 s with
  | none => none
  | some (n, s1) =>
  match takeN 32 s1 with
  | none => none
  | some (h, s2) => some (n, h, s2)

/-! ### Envelope and dispatch -/

inductive Kind where
  | proposal | endorse | commit | handshake | heartbeat
  | blockInfoFetch | blockInfoFetchResp | proposalFetch | blockFetch | blockFetchResp
deriving DecidableEq, Repr

def Kind.all : List Kind :=
  [.proposal, .endorse, .commit, .handshake, .heartbeat, .blockInfoFetch, .blockInfoFetchResp, .proposalFetch,
   .blockFetch, .blockFetchResp]

/-- value of the `MsgType` constant returned by the kind's `Type()` -/
def Kind.code : Kind → Nat
  | .proposal => 0 | .endorse => 1 | .commit => 2 | .handshake => 3 | .heartbeat => 4
  | .blockInfoFetch => 5 | .blockInfoFetchResp => 6 | .proposalFetch => 7 | .blockFetch => 8 | .blockFetchResp => 9

def Kind.constName : Kind → String
  | .proposal => "BlockProposalMessage" | .endorse => "BlockEndorseMessage" | .commit => "BlockCommitMessage"
  | .handshake => "PeerHandshakeMessage" | .heartbeat => "PeerHeartbeatMessage"
  | .blockInfoFetch => "BlockInfoFetchMessage" | .blockInfoFetchResp => "BlockInfoFetchRespMessage"
  | .proposalFetch => "ProposalFetchMessage" | .blockFetch => "BlockFetchMessage"
  | .blockFetchResp => "BlockFetchRespMessage"

def Kind.structName : Kind → String
  | .proposal => "blockProposalMsg" | .endorse => "blockEndorseMsg" | .commit => "blockCommitMsg"
  | .handshake => "peerHandshakeMsg" | .heartbeat => "peerHeartbeatMsg"
  | .blockInfoFetch => "BlockInfoFetchMsg" | .blockInfoFetchResp => "BlockInfoFetchRespMsg"
  | .proposalFetch => "proposalFetchMsg" | .blockFetch => "blockFetchMsg"
  | .blockFetchResp => "BlockFetchRespMsg"

/-- is the kind's payload produced by `json.Marshal(msg)` (otherwise a custom binary form) -/
def Kind.isJson : Kind → Bool
  | .proposal => false | .blockFetchResp => false | _ => true

/-- the `switch m.Type` of `DeserializeVbftMsg` -/
def dispatch : Nat → Option Kind
  | 0 => some .proposal | 1 => some .endorse | 2 => some .commit | 3 => some .handshake | 4 => some .heartbeat
  | 5 => some .blockInfoFetch | 6 => some .blockInfoFetchResp | 8 => some .blockFetch | 9 => some .blockFetchResp
  | 7 => some .proposalFetch
  | _ => none

/-- `ConsensusMsgPayload` after JSON decoding (`Type` is a uint8, `Len` a uint32) -/
structure Envelope where
  type : Nat
  len : Nat
  payload : Bytes
deriving DecidableEq, Repr

/-- `SerializeVbftMsg` given the kind and its serialized payload -/
def serializeEnv (k : Kind) (payload : Bytes) : Envelope := ⟨k.code, payload.length % 2 ^ 32, payload⟩

/-- `DeserializeVbftMsg` after the outer JSON decoding; `decInner k payload` is the kind's decoder. -/
def deserializeEnv {μ : Type} (decInner : Kind → Bytes → Option μ) (e : Envelope) : Except DecErr (Kind × μ) :=
  if e.len < e.payload.length % 2 ^ 32 then .error .len
  else
    match dispatch e.type with
    | none => .error .unknown
    | some k =>
      match decInner k e.payload with
      | some m => .ok (k, m)
      | none => .error .inner

/-! ### JSON objects, abstractly: the encoder writes one (tag, value) member per field in field order, the decoder
looks every field's tag up (encoding/json takes the last occurrence; members are unique here). -/

def jsonEncode {V : Type} (tags : List String) (vals : List V) : List (String × V) := tags.zip vals

def jsonLookup {V : Type} (obj : List (String × V)) (t : String) : Option V :=
  match obj.find? (fun kv => kv.1 == t) with
  | some kv => some kv.2
  | none => none

def jsonDecode {V : Type} (tags : List String) (obj : List (String × V)) : Option (List V) :=
  tags.mapM (jsonLookup obj)

end Poly.Model.CMsg

namespace Poly.Model.CMsg

/-! ### Which single-field changes a signature check must notice (the classification exercised by the harness) -/

/-- Fields of a `ConsensusPayload` whose change makes `Verify` fail: the six signed fields, the owner key and the
signature itself. `peerId` is neither sent nor signed. -/
def cpFieldCovered (f : String) : Bool :=
  ["version", "prevHash", "height", "bookkeeperIndex", "timestamp", "data", "data-append", "owner", "signature"].contains f

def hdrFieldNames : List String :=
  ["version", "chainID", "prevBlockHash", "txRoot", "crossStateRoot", "blockRoot", "timestamp", "height",
   "consensusData", "consensusPayload", "nextBookkeeper"]

/-- Outcome of sending a signed proposal with one field changed through the wire and calling `Verify`.
`emptyParses`: does the (possibly changed) empty block still parse (`types.BlockFromRawBytes`, external)? A second
block that does not parse is dropped silently by `Block.Deserialize`, and the proposal then verifies without it. -/
def propOutcome (field : String) (emptyParses : Bool) : String :=
  if field == "none" then "accepted:same"
  else if field == "key" then "rejected"
  else if field.startsWith "info." then "accepted:same"            -- `Info` is not sent: re-derived from the header
  else if field == "block.bookkeepers" || field == "block.sig-extra" then "accepted:changed"  -- outside the hash
  else if field == "empty.drop" then "accepted:empty-dropped"
  else if field.startsWith "block." then "rejected"                -- hashed header field, transaction, first signature
  else if field.startsWith "empty." then (if emptyParses then "rejected" else "accepted:empty-dropped")
  else "bad-field"

end Poly.Model.CMsg
