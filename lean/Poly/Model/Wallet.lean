/-
Model of the wallet client (C43): account/client.go (ClientImpl), account/file_store.go (WalletData, AccountData).

Key protection (scrypt + AES in ontology-crypto) is abstract: `protect` / `unprotect` are parameters, so are key
generation and the address of a key. `*AccountData` pointers are modelled by object ids into a heap, because the
client keeps three views of the same objects (`walletData.Accounts`, `accAddrs`, `accLabels`) and mutates through
them. The wallet file is the `file` component (a completed `Save` replaces it; I/O failures are not modelled).
-/
namespace Poly.Model.Wallet

abbrev Bytes := List UInt8

/-- scrypt parameters of a wallet (`keypair.ScryptParam`) -/
structure Params where
  n : Nat
  r : Nat
  p : Nat
  dkLen : Nat
deriving DecidableEq, Repr

/-- `keypair.GetScryptParameters()` -/
def defaultParams : Params := ⟨16384, 8, 8, 64⟩

/-- External cryptography as parameters. `Key` = private keys, `Blob` = `keypair.ProtectedKey` contents. -/
structure Crypto (Key Blob : Type) where
  /-- `EncryptWithCustomScrypt key address password params` with the given fresh salt -/
  protect : Key → String → Bytes → Params → Bytes → Blob
  /-- `DecryptWithCustomScrypt blob password params` -/
  unprotect : Blob → Bytes → Params → Option Key
  /-- base58 address of the public key of a private key -/
  addrOf : Key → String
  /-- key algorithm name stored in the blob ("ECDSA", "SM2", "Ed25519") -/
  algOf : Key → String

/-- `AccountData` (the embedded `ProtectedKey` is `blob`; its `Address`/`Alg` fields are kept beside it) -/
structure Acc (Blob : Type) where
  address : String
  alg : String
  blob : Blob
  label : String
  sigScheme : String
  isDefault : Bool

/-- `checkSigScheme` (case-insensitive on both arguments) -/
def checkSigScheme (alg scheme : String) : Bool :=
  let a := alg.toUpper
  let s := scheme.toUpper
  if a == "ECDSA" then
    ["SHA224WITHECDSA", "SHA256WITHECDSA", "SHA384WITHECDSA", "SHA512WITHECDSA", "SHA3-224WITHECDSA",
     "SHA3-256WITHECDSA", "SHA3-384WITHECDSA", "SHA3-512WITHECDSA", "RIPEMD160WITHECDSA"].contains s
  else if a == "SM2" then s == "SM3WITHSM2"
  else if a == "ED25519" then s == "SHA512WITHEDDSA"
  else false

/-! ### finite maps as association lists (Go maps keyed by string; only lookups, no iteration) -/

def mget {V : Type} (m : List (String × V)) (k : String) : Option V :=
  match m.find? (fun kv => kv.1 == k) with
  | some kv => some kv.2
  | none => none

def mdel {V : Type} (m : List (String × V)) (k : String) : List (String × V) := m.filter (fun kv => !(kv.1 == k))

def mset {V : Type} (m : List (String × V)) (k : String) (v : V) : List (String × V) := (k, v) :: mdel m k

def hget {V : Type} (h : List (Nat × V)) (i : Nat) : Option V :=
  match h.find? (fun kv => kv.1 == i) with
  | some kv => some kv.2
  | none => none

def hset {V : Type} (h : List (Nat × V)) (i : Nat) (v : V) : List (Nat × V) :=
  (i, v) :: h.filter (fun kv => !(kv.1 == i))

/-- `ClientImpl` plus the wallet file. -/
structure Client (Blob : Type) where
  heap : List (Nat × Acc Blob)       -- the AccountData objects by identity
  accounts : List Nat                -- walletData.Accounts (file order)
  accAddrs : List (String × Nat)
  accLabels : List (String × Nat)
  defaultAcc : Option Nat
  params : Params                    -- walletData.Scrypt
  file : Option (Params × List (Acc Blob))
  nextId : Nat

inductive Err where
  | emptyPassword | sigScheme | dupLabel | notFound | decrypt | isDefault | noDefault | addrMismatch | badScheme
deriving DecidableEq, Repr

section
variable {Key Blob : Type} (cr : Crypto Key Blob)

def Client.deref (c : Client Blob) (ids : List Nat) : List (Acc Blob) := ids.filterMap (hget c.heap)

/-- `save()`: the file now holds the scrypt parameters and the accounts in list order. -/
def Client.save (c : Client Blob) : Client Blob := { c with file := some (c.params, c.deref c.accounts) }

/-- `NewClientImpl(path)` on an absent file -/
def Client.fresh (params : Params) : Client Blob := ⟨[], [], [], [], none, params, none, 0⟩

/-- `load()`: rebuild the client from the file content. Later entries win in both maps and for the default. -/
def loadFrom (params : Params) (accs : List (Acc Blob)) : Client Blob :=
  let ids := List.range accs.length
  let heap := ids.zip accs
  let addrs := heap.foldl (fun m (ia : Nat × Acc Blob) => mset m ia.2.address ia.1) []
  let labels := heap.foldl (fun m (ia : Nat × Acc Blob) => if ia.2.label = "" then m else mset m ia.2.label ia.1) []
  let dflt := heap.foldl (fun d (ia : Nat × Acc Blob) => if ia.2.isDefault then some ia.1 else d) none
  ⟨heap, ids, addrs, labels, dflt, params, some (params, accs), accs.length⟩

/-- `Open(path)`: load when the file exists, else a fresh client with default parameters. -/
def Client.reopen (c : Client Blob) : Client Blob :=
  match c.file with
  | some (ps, accs) => loadFrom ps accs
  | none => Client.fresh defaultParams

/-- the object `addAccountData` stores: the first account of a wallet becomes the default -/
def stored (c : Client Blob) (a : Acc Blob) : Acc Blob :=
  if c.accounts.isEmpty then { a with isDefault := true } else a

/-- `addAccountData`: scheme check, label uniqueness, append + save, then the three indexes. -/
def Client.addAccountData (c : Client Blob) (a : Acc Blob) : Except Err (Client Blob) :=
  if !checkSigScheme a.alg a.sigScheme then .error .sigScheme
  else if a.label ≠ "" ∧ (mget c.accLabels a.label).isSome then .error .dupLabel
  else
    let a' := stored c a
    let id := c.nextId
    let heap := hset c.heap id a'
    .ok { heap := heap
          accounts := c.accounts ++ [id]
          accAddrs := mset c.accAddrs a'.address id
          accLabels := if a'.label ≠ "" then mset c.accLabels a'.label id else c.accLabels
          defaultAcc := if a'.isDefault then some id else c.defaultAcc
          params := c.params
          file := some (c.params, (c.accounts ++ [id]).filterMap (hget heap))
          nextId := id + 1 }

/-- `NewAccount`: `key` is the freshly generated key, `salt` the fresh salt. The private key is protected under
the wallet's own scrypt parameters (after `fix:` — the original code used the library defaults here). -/
def Client.newAccount (c : Client Blob) (label scheme : String) (pw : Bytes) (key : Key) (salt : Bytes) :
    Except Err (Client Blob) :=
  if pw.isEmpty then .error .emptyPassword
  else
    let addr := cr.addrOf key
    let blob := cr.protect key addr pw c.params salt
    c.addAccountData ⟨addr, cr.algOf key, blob, label, scheme, false⟩

/-- `ImportAccount`: an existing label is renamed once by appending "_1". -/
def Client.importAccount (c : Client Blob) (a : Acc Blob) : Except Err (Client Blob) :=
  let label := if a.label ≠ "" ∧ (mget c.accLabels a.label).isSome then a.label ++ "_1" else a.label
  c.addAccountData { a with label := label, isDefault := false }

/-- Is `name` one of the scheme names known to `signature.GetScheme` (case-insensitive)? -/
def knownScheme (name : String) : Bool :=
  ["SHA224WITHECDSA", "SHA256WITHECDSA", "SHA384WITHECDSA", "SHA512WITHECDSA", "SHA3-224WITHECDSA",
   "SHA3-256WITHECDSA", "SHA3-384WITHECDSA", "SHA3-512WITHECDSA", "RIPEMD160WITHECDSA", "SM3WITHSM2",
   "SHA512WITHEDDSA"].contains name.toUpper

/-- `getAccount`: decrypt with the wallet's parameters; the key must belong to the stored address (after `fix:` —
the original code returned whatever key came out). Returns the key and its address. -/
def Client.getAccount (c : Client Blob) (a : Acc Blob) (pw : Bytes) : Except Err (Key × String) :=
  match cr.unprotect a.blob pw c.params with
  | none => .error .decrypt
  | some k =>
    if cr.addrOf k ≠ a.address then .error .addrMismatch
    else if !knownScheme a.sigScheme then .error .badScheme
    else .ok (k, cr.addrOf k)

/-- `GetAccountByAddress`; `ok none` is the Go `nil, nil` -/
def Client.getByAddress (c : Client Blob) (addr : String) (pw : Bytes) : Except Err (Option (Key × String)) :=
  match mget c.accAddrs addr with
  | none => .ok none
  | some id =>
    match hget c.heap id with
    | none => .ok none
    | some a => (c.getAccount cr a pw).map some

def Client.getByLabel (c : Client Blob) (label : String) (pw : Bytes) : Except Err (Option (Key × String)) :=
  if label = "" then .ok none else
  match mget c.accLabels label with
  | none => .ok none
  | some id =>
    match hget c.heap id with
    | none => .ok none
    | some a => (c.getAccount cr a pw).map some

/-- `GetAccountByIndex` (1-based) -/
def Client.getByIndex (c : Client Blob) (idx : Nat) (pw : Bytes) : Except Err (Option (Key × String)) :=
  if idx = 0 then .ok none else
  match c.accounts[idx - 1]? with
  | none => .ok none
  | some id =>
    match hget c.heap id with
    | none => .ok none
    | some a => (c.getAccount cr a pw).map some

def Client.getDefault (c : Client Blob) (pw : Bytes) : Except Err (Key × String) :=
  match c.defaultAcc with
  | none => .error .noDefault
  | some id =>
    match hget c.heap id with
    | none => .error .noDefault
    | some a => c.getAccount cr a pw

/-- `WalletData.DelAccount`: removes the FIRST list entry with that address. -/
def delFirst (heap : List (Nat × Acc Blob)) (addr : String) : List Nat → List Nat
  | [] => []
  | id :: rest =>
    match hget heap id with
    | some a => if a.address = addr then rest else id :: delFirst heap addr rest
    | none => id :: delFirst heap addr rest

/-- `DeleteAccount` -/
def Client.deleteAccount (c : Client Blob) (addr : String) (pw : Bytes) : Except Err (Option (Client Blob)) :=
  match mget c.accAddrs addr with
  | none => .ok none
  | some id =>
    match hget c.heap id with
    | none => .ok none
    | some a =>
      if a.isDefault then .error .isDefault
      else
        match c.getAccount cr a pw with
        | .error e => .error e
        | .ok _ =>
          let c1 := ({ c with accounts := delFirst c.heap addr c.accounts } : Client Blob).save
          let c2 := { c1 with accAddrs := mdel c1.accAddrs addr }
          let c3 := if a.label ≠ "" then { c2 with accLabels := mdel c2.accLabels a.label } else c2
          .ok (some c3)

/-- `SetDefaultAccount` -/
def Client.setDefault (c : Client Blob) (addr : String) : Except Err (Client Blob) :=
  let cur := match c.defaultAcc with
    | some id => hget c.heap id
    | none => none
  if (match cur with | some a => a.address == addr | none => false) then .ok c
  else
    match mget c.accAddrs addr with
    | none => .error .notFound
    | some id =>
      match hget c.heap id with
      | none => .error .notFound
      | some a =>
        let heap1 := match c.defaultAcc, cur with
          | some oid, some o => hset c.heap oid { o with isDefault := false }
          | _, _ => c.heap
        let heap2 := hset heap1 id { a with isDefault := true }
        .ok ({ c with heap := heap2, defaultAcc := some id } : Client Blob).save

/-- `SetLabel` -/
def Client.setLabel (c : Client Blob) (addr label : String) : Except Err (Client Blob) :=
  if (mget c.accLabels label).isSome then .error .dupLabel
  else
    match mget c.accAddrs addr with
    | none => .error .notFound
    | some id =>
      match hget c.heap id with
      | none => .error .notFound
      | some a =>
        if a.label = label then .ok c
        else
          let c1 := ({ c with heap := hset c.heap id { a with label := label } } : Client Blob).save
          .ok { c1 with accLabels := mset (mdel c1.accLabels a.label) label id }

/-- `ChangePassword` (`salt` = the fresh salt of the re-encryption). The decrypted key must belong to the address
(after `fix:`; the original code re-encrypted whatever came out of an unauthenticated legacy blob). -/
def Client.changePassword (c : Client Blob) (addr : String) (oldPw newPw : Bytes) (salt : Bytes) :
    Except Err (Client Blob) :=
  if oldPw = newPw then .ok c
  else
    match mget c.accAddrs addr with
    | none => .error .notFound
    | some id =>
      match hget c.heap id with
      | none => .error .notFound
      | some a =>
        match cr.unprotect a.blob oldPw c.params with
        | none => .error .decrypt
        | some k =>
          if cr.addrOf k ≠ addr then .error .addrMismatch else
          let blob := cr.protect k addr newPw c.params salt
          .ok ({ c with heap := hset c.heap id { a with blob := blob, address := addr, alg := cr.algOf k } } : Client Blob).save

/-- `ChangeSigScheme` -/
def Client.changeSigScheme (c : Client Blob) (addr scheme : String) : Except Err (Client Blob) :=
  match mget c.accAddrs addr with
  | none => .error .notFound
  | some id =>
    match hget c.heap id with
    | none => .error .notFound
    | some a =>
      if !checkSigScheme a.alg scheme then .error .sigScheme
      else .ok ({ c with heap := hset c.heap id { a with sigScheme := scheme } } : Client Blob).save

/-- Outcome of `WalletData.reencrypt` (`ToLowSecurity` / `ToDefaultSecurity`), called on the client's live wallet data. -/
inductive ReencOut (Blob : Type) where
  | ok (c : Client Blob)
  | countMismatch            -- "not enough passwords for the accounts"
  | failed (i : Nat)         -- account i does not decrypt to a key of its address: nothing is changed

/-- first pass of `reencrypt`: every listed account is decrypted with its password under the current parameters, the
key must belong to the stored address (after `fix:`), and is re-protected under `newParams`; the wallet is not touched
yet. -/
def reencPass (c : Client Blob) (newParams : Params) :
    List (Nat × Acc Blob) → List Bytes → Nat → List (Nat × Acc Blob) → Except (ReencOut Blob) (List (Nat × Acc Blob))
  | [], _, _, acc => .ok acc.reverse
  | _ :: _, [], i, _ => .error (.failed i)
  | (id, a) :: rest, pw :: pws, i, acc =>
    match cr.unprotect a.blob pw c.params with
    | none => .error (.failed i)
    | some k =>
      if cr.addrOf k ≠ a.address then .error (.failed i)
      else reencPass c newParams rest pws (i + 1) ((id, { a with blob := cr.protect k a.address pw newParams [] }) :: acc)

/-- `reencrypt passwords param`: all-or-nothing — the new blobs are installed and `Scrypt` is switched only when
every account decrypted (the file is not written by this function). `none` = library defaults (after `fix:` the nil
parameter is resolved before use; it used to crash the encryptor). -/
def Client.reencrypt (c : Client Blob) (passwords : List Bytes) (newParams : Option Params) : ReencOut Blob :=
  let listed := c.accounts.filterMap (fun id => (hget c.heap id).map (fun a => (id, a)))
  let ps := newParams.getD defaultParams
  if passwords.length ≠ listed.length then .countMismatch
  else
    match reencPass cr c ps listed passwords 0 [] with
    | .error e => e
    | .ok news =>
      let heap := news.foldl (fun h (ia : Nat × Acc Blob) => hset h ia.1 ia.2) c.heap
      .ok { c with heap := heap, params := ps }

/-- `GetAccountNum` = `len(accAddrs)` -/
def Client.num (c : Client Blob) : Nat := c.accAddrs.length

end

end Poly.Model.Wallet
